\* Model checking of the contract (clauses C_*, Inv_Verify, Inv_Synced) on a transactional store, for clients that never give a primary key another foreign key (Restamp = FALSE): 2 foreign keys x 3 primary keys, one of them with a "/" inside.  VIEW hides hist.
SPECIFICATION Spec
CONSTANTS
  FKs = {"f1", "f2"}
  Rs = {"p1", "p2", "px"}
  Tied = FALSE
  Urm = FALSE
  BadFKs = {}
  BadPKs = {"px"}
  Atomic = TRUE
  Restamp = FALSE
  WithAbort = TRUE
  MaxOps = 7
  Record = FALSE
  Probing = FALSE
  NoOpSteps = FALSE
INVARIANTS TypeOK Inv_Outcomes Inv_Verify Inv_Synced
VIEW ViewN
CHECK_DEADLOCK FALSE
