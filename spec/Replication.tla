---------------------------- MODULE Replication ----------------------------
(* C27 - one replication stream: replications/internal/queue_management.go (replicationQueue.run / SendWrite),   *)
(* replications/remotewrite/writer.go (writer.Write, backoff, waitTimeFromHeader) on top of the durable queue     *)
(* contract of DurableQueue.tla (C26): blocks come out in append order, the head moves only by Advance/trim.      *)
(*                                                                                                                *)
(* Implementation layer (one action per step of the code):                                                        *)
(*   Enqueue        qm.EnqueueData: Queue.Append (+ segment roll-over) + non-blocking send on rq.receive          *)
(*   (start-up)     run() makes one sendWrite() pass before its select loop (initial pc = "start", trig "startup")   *)
(*   Recv/TimerFire the two select cases of run() that call sendWrite()                                           *)
(*   StartScan      SendWrite: queue.NewScanner (EOF => return (0,false))                                         *)
(*   ScanNext       scan.Next()                                                                                   *)
(*   Post           the HTTP request reaches the remote (which picks its answer from the script)                  *)
(*   HandleStatus   writer.Write evaluates the answer; failedWrites++ and return WITHOUT advancing on error;      *)
(*                  on success failedWrites=0 and (only if the 10 s ticker fired) a periodic scan.Advance, after   *)
(*                  which the call returns (0,true) (repair of F38; PeriodicFix=FALSE keeps the code as found)     *)
(*   FinalAdvance   scan.Advance() after the scan loop (with trimHead at end of segment), return (0,true)         *)
(*   (return)       the sendWrite closure of run(): !shouldRetry => timer off; wait=0 => call SendWrite again;    *)
(*                  else arm the retry timer with the returned wait                                               *)
(*   Tick, Purge    abstract clock; the purge ticker case: Queue.PurgeOlderThan(now - maxAge) (whole segments,    *)
(*                  judged by the segment file's mtime, which Append and Advance refresh)                         *)
(* Contract layer (what C27 names): `remote` (requests seen by the remote), `accepted`, queue content             *)
(* Pending(segs), the returned wait.                                                                              *)
(*                                                                                                                *)
(* Deliberate deviations (named): (1) a concurrent Enqueue is modelled while the loop is idle and while a post is *)
(* in flight (the only window a test can force without hooks); with EnqAnywhere=TRUE (checking configs) it may    *)
(* happen between any two steps. (2) Queue size limits (ErrQueueFull) are C26's business and left out.            *)
(* (3) Time inside one SendWrite call is not modelled except for the periodic-advance ticker (PeriodicAdv).       *)
EXTENDS Integers, Sequences, FiniteSets, TLC, ReplWriterRules

CONSTANTS MaxBatches,   \* batches 1..MaxBatches; the number is the enqueue order
          MaxScript,    \* length of the remote's response script; afterwards the remote accepts (204)
          Resps,        \* response alphabet of the script (subset of AllResps)
          Drops,        \* explored values of DropNonRetryableData
          Attempts0,    \* explored initial values of rq.failedWrites
          MaxAges,      \* explored max ages, in clock ticks
          MaxTicks,     \* bound on the clock
          SegCap,       \* blocks per queue segment
          PeriodicAdv,  \* BOOLEAN: the 10 s in-scan ticker may fire
          PeriodicFix,  \* BOOLEAN: TRUE = repaired code: after an in-scan (periodic) Advance the call returns (0,true) and
                        \* run() re-enters with a fresh scanner.  FALSE = as found (finding F38): the scan goes on with
                        \* the old scanner even when the Advance trimmed its segment (lead config Lead_periodic)
          EnqAnywhere,  \* BOOLEAN: see deviation (1)
          Record,       \* BOOLEAN: keep the history variables (generation configs); FALSE in checking configs
          MaxPre        \* batches (0..MaxPre, <= SegCap) already in the queue when run() starts: left there by a shutdown
                        \* or crash and found by StartReplicationQueues; no receive notification exists for them

VARIABLES cfg,       \* [drop, maxAge, att0, pre]
          segs,      \* durable queue: sequence of segments [blocks, adv, mtime]
          nextB,     \* next batch number
          now,       \* clock (ticks)
          purgeDone, \* the purge ticker case already ran at this clock value
          pc,        \* "idle" | "start" | "next" | "post" | "inflight" | "advance"
          trig,      \* why the current SendWrite call was made: "startup" | "recv" | "timer" | "loop"
          sc,        \* scanner: [pos, dead]; dead = its segment was trimmed under it (closed file)
          cur,       \* batch of the post in flight
          resp,      \* answer the remote gives to the post in flight
          failed,    \* rq.failedWrites
          timer,     \* retry timer: Inf or milliseconds
          sig,       \* rq.receive buffer (0/1)
          nposts,    \* requests seen by the remote (saturates at MaxScript)
          accSet,    \* contract: batches answered 204
          dropped,   \* contract: batches answered 400 and dropped
          purged,    \* contract: [b, age] removed by max age
          enqAt,     \* clock value of each enqueue
          flags,     \* contract monitors, evaluated at the step they talk about: [post, acc, drp, wait]
          \* history variables (only when Record)
          remote,    \* request log  [b, r, settled]
          accepted,  \* batches answered 204, in order
          call,      \* record of the SendWrite call in progress (posts so far)
          hist       \* history for replay

vars == <<cfg, segs, nextB, now, purgeDone, pc, trig, sc, cur, resp, failed, timer, sig, nposts,
          accSet, dropped, purged, enqAt, flags, remote, accepted, call, hist>>
state == <<cfg, segs, nextB, now, purgeDone, pc, trig, sc, cur, resp, failed, timer, sig, nposts,
           accSet, dropped, purged, enqAt, flags>>

Inf == -1
ASSUME Resps \subseteq AllResps
ASSUME MaxPre <= SegCap /\ MaxPre <= MaxBatches

\* ------------------------------------------------------------------ queue helpers
Seg(bs, t) == [blocks |-> bs, adv |-> 0, mtime |-> t]
RECURSIVE Pending(_)
Pending(ss) == IF ss = <<>> THEN <<>>
               ELSE SubSeq(Head(ss).blocks, Head(ss).adv + 1, Len(Head(ss).blocks)) \o Pending(Tail(ss))
SeqSet(s) == {s[i] : i \in 1..Len(s)}
AtEOF(s) == s.adv = Len(s.blocks)
Full(s) == Len(s.blocks) >= SegCap
\* Queue.trimHead(false): [segs, trimmed]
TrimHead(ss) ==
  LET ss1 == IF Len(ss) = 1 /\ Full(ss[1]) THEN Append(ss, Seg(<<>>, now)) ELSE ss
  IN [segs |-> IF Len(ss1) > 1 THEN Tail(ss1) ELSE ss1, trimmed |-> Len(ss1) > 1]
\* queueScanner.Advance with a healthy scanner at position p of the head segment (trimHead at end of segment)
AdvanceTo(p) ==
  LET s1 == [segs EXCEPT ![1].adv = p, ![1].mtime = now]
  IN IF p = Len(segs[1].blocks) THEN TrimHead(s1) ELSE [segs |-> s1, trimmed |-> FALSE]
\* queueScanner.Advance with a scanner in error: trimHead(force = TRUE) - drops whatever the head is now
ForceTrim == Tail(Append(segs, Seg(<<>>, now)))
\* Queue.PurgeOlderThan(now - maxAge)
RECURSIVE PurgeSegs(_)
PurgeSegs(ss) ==
  IF ss[1].mtime < now - cfg.maxAge
  THEN IF Len(ss) = 1 THEN <<Seg(<<>>, now)>> ELSE PurgeSegs(Tail(ss))
  ELSE ss

Enqueued    == 1..(nextB - 1)
PurgedIds   == {p.b : p \in purged}
Settled     == accSet \cup dropped \cup PurgedIds

\* ------------------------------------------------------------------ initial state
NoScan == [pos |-> 0, dead |-> FALSE]
NoCall == [posts |-> <<>>, dead |-> FALSE]
\* run() begins with one sendWrite() pass over the queue (fix 57e0dbc178, finding F65) before it waits for a
\* notification or the timer: the initial control state is "start" with trigger "startup"; the timer is created with the
\* result of that pass.  Batches 1..cfg.pre are in the queue already.
Init == /\ cfg \in [drop : Drops, maxAge : MaxAges, att0 : Attempts0, pre : 0..MaxPre]
        /\ segs = <<Seg([i \in 1..cfg.pre |-> i], 0)>> /\ nextB = cfg.pre + 1 /\ now = 0 /\ purgeDone = FALSE
        /\ pc = "start" /\ trig = "startup" /\ sc = NoScan /\ cur = 0 /\ resp = "none"
        /\ failed = cfg.att0 /\ timer = Inf /\ sig = 0
        /\ nposts = 0 /\ accSet = {} /\ dropped = {} /\ purged = {} /\ enqAt = [i \in 1..cfg.pre |-> 0]
        /\ flags = [post |-> TRUE, acc |-> TRUE, drp |-> TRUE, wait |-> TRUE]
        /\ remote = <<>> /\ accepted = <<>> /\ call = NoCall /\ hist = <<>>

\* observation after a step (contract level: queue; sig/timer/failed are implementation projections)
ObsOf(ss, f, t, s) == [queue |-> Pending(ss), failed |-> f, timer |-> t, sig |-> s]
Log(rec) == hist' = IF Record THEN Append(hist, rec) ELSE hist
KeepH == UNCHANGED <<remote, accepted, call, hist>>

\* ------------------------------------------------------------------ environment: local writes
Enqueue ==
  /\ nextB <= MaxBatches
  /\ \/ pc \in {"idle", "inflight"}
     \/ pc = "start" /\ trig = "startup"      \* a local write that lands before run() has made its start-up pass: its
                                              \* notification stays buffered and is consumed after the pass
     \/ EnqAnywhere
  /\ LET b    == nextB
         tail == segs[Len(segs)]
         segs1 == IF Full(tail)                                   \* segment.append: size > maxSize => ErrSegmentFull
                  THEN Append(segs, Seg(<<b>>, now))
                  ELSE [segs EXCEPT ![Len(segs)].blocks = Append(@, b), ![Len(segs)].mtime = now]
     IN /\ segs' = segs1
        /\ nextB' = b + 1
        /\ enqAt' = Append(enqAt, now)
        /\ sig' = 1                                               \* non-blocking send, buffer of one
        /\ IF pc = "idle" \/ (pc = "start" /\ trig = "startup")
           THEN Log([a |-> "enq", b |-> b, exp |-> ObsOf(segs1, failed, timer, 1)]) /\ UNCHANGED call
           ELSE /\ call' = IF Record /\ pc = "inflight"
                           THEN [call EXCEPT !.posts[Len(call.posts)].enq = Append(@, b)]
                           ELSE call
                /\ UNCHANGED hist
  /\ UNCHANGED <<cfg, now, purgeDone, pc, trig, sc, cur, resp, failed, timer, nposts, accSet, dropped, purged, flags,
                 remote, accepted>>

\* ------------------------------------------------------------------ run(): select cases
Recv == /\ pc = "idle" /\ sig = 1
        /\ sig' = 0 /\ pc' = "start" /\ trig' = "recv"
        /\ UNCHANGED <<cfg, segs, nextB, now, purgeDone, sc, cur, resp, failed, timer, nposts, accSet, dropped, purged,
                       enqAt, flags>>
        /\ KeepH
TimerFire == /\ pc = "idle" /\ timer # Inf
             /\ timer' = Inf /\ pc' = "start" /\ trig' = "timer"
             /\ UNCHANGED <<cfg, segs, nextB, now, purgeDone, sc, cur, resp, failed, sig, nposts, accSet, dropped,
                            purged, enqAt, flags>>
             /\ KeepH

\* return from SendWrite into the sendWrite closure of run(); segs1/f1 are the values after the call
ReturnC(w, retry, segs1, f1, c) ==      \* c: the record of the call that ends
  LET t1 == IF ~retry THEN Inf ELSE IF w = 0 THEN Inf ELSE w
      again == retry /\ w = 0
  IN /\ timer' = t1
     /\ pc' = IF again THEN "start" ELSE "idle"
     /\ trig' = IF again THEN "loop" ELSE "none"
     /\ call' = NoCall
     /\ Log([a |-> "send", trig |-> trig, posts |-> c.posts, wait |-> w, retry |-> retry, forced |-> c.dead,
             exp |-> ObsOf(segs1, f1, t1, sig)])
Return(w, retry, segs1, f1) == ReturnC(w, retry, segs1, f1, call)

\* ------------------------------------------------------------------ SendWrite
StartScan ==
  /\ pc = "start"
  /\ IF AtEOF(segs[1])
     THEN /\ Return(0, FALSE, segs, failed)                                 \* NewScanner: io.EOF
          /\ UNCHANGED sc
     ELSE /\ sc' = [pos |-> segs[1].adv, dead |-> FALSE]
          /\ pc' = "next"
          /\ UNCHANGED <<timer, trig, call, hist>>
  /\ UNCHANGED <<cfg, segs, nextB, now, purgeDone, cur, resp, failed, sig, nposts, accSet, dropped, purged, enqAt, flags,
                 remote, accepted>>

ScanNext ==
  /\ pc = "next"
  /\ IF sc.dead \/ sc.pos = Len(segs[1].blocks)    \* seek on the closed segment fails / end of segment
     THEN pc' = "advance" /\ UNCHANGED <<sc, cur>>
     ELSE /\ cur' = segs[1].blocks[sc.pos + 1]
          /\ sc' = [sc EXCEPT !.pos = @ + 1]
          /\ pc' = "post"
  /\ UNCHANGED <<cfg, segs, nextB, now, purgeDone, trig, resp, failed, timer, sig, nposts, accSet, dropped, purged,
                 enqAt, flags>>
  /\ KeepH

Post ==
  /\ pc = "post"
  /\ \E r \in (IF nposts < MaxScript THEN Resps ELSE {"204"}) :
        /\ resp' = r
        /\ remote' = IF Record THEN Append(remote, [b |-> cur, r |-> r, settled |-> Settled]) ELSE remote
        /\ call' = IF Record
                   THEN [call EXCEPT !.posts = Append(@, [b |-> cur, r |-> r, att |-> failed, enq |-> <<>>, tick |-> FALSE])]
                   ELSE call
  /\ nposts' = IF nposts < MaxScript THEN nposts + 1 ELSE nposts
  /\ flags' = [flags EXCEPT !.post = @ /\ (1..(cur - 1)) \subseteq Settled]   \* monitor: posted in enqueue order
  /\ pc' = "inflight"
  /\ UNCHANGED <<cfg, segs, nextB, now, purgeDone, trig, sc, cur, failed, timer, sig, accSet, dropped, purged, enqAt,
                 accepted, hist>>

HandleStatus ==
  /\ pc = "inflight"
  /\ LET res == WriteResult(resp, failed, cfg.drop) IN
     IF res.ok
     THEN /\ failed' = 0
          /\ accSet' = IF res.acc THEN accSet \cup {cur} ELSE accSet
          /\ accepted' = IF Record /\ res.acc THEN Append(accepted, cur) ELSE accepted
          /\ dropped' = IF res.drp THEN dropped \cup {cur} ELSE dropped
          /\ flags' = [flags EXCEPT                                  \* monitors: why a batch counts as settled
                         !.acc = @ /\ (res.acc => (resp = "204" /\ (cur \notin accSet => \A b \in accSet : b < cur))),
                         !.drp = @ /\ (res.drp => (resp = "400" /\ cfg.drop))]
          /\ \E tick \in (IF PeriodicAdv THEN BOOLEAN ELSE {FALSE}) :
               IF tick
               THEN LET a == AdvanceTo(sc.pos)                      \* the ticker fired: advanceScanner() inside the scan
                        c == IF Record THEN [call EXCEPT !.posts[Len(call.posts)].tick = TRUE] ELSE call
                    IN /\ segs' = a.segs
                       /\ IF PeriodicFix
                          THEN /\ ReturnC(0, TRUE, a.segs, 0, c)    \* repaired: (0,true), fresh scanner in the next call
                               /\ UNCHANGED sc
                          ELSE /\ sc' = [sc EXCEPT !.dead = a.trimmed]  \* as found: keeps scanning with this scanner
                               /\ call' = IF Record THEN [c EXCEPT !.dead = a.trimmed] ELSE call
                               /\ pc' = "next"
                               /\ UNCHANGED <<timer, trig, hist>>
               ELSE /\ pc' = "next"
                    /\ UNCHANGED <<segs, sc, call, timer, trig, hist>>
     ELSE /\ failed' = failed + 1
          /\ flags' = [flags EXCEPT !.wait = @ /\ res.wait = ContractWait(resp, failed)]   \* monitor: delay rule
          /\ Return(res.wait, TRUE, segs, failed + 1)                   \* "Do not advance the scanner"
          /\ UNCHANGED <<segs, sc, accSet, accepted, dropped>>
  /\ UNCHANGED <<cfg, nextB, now, purgeDone, cur, resp, sig, nposts, purged, enqAt, remote>>

FinalAdvance ==
  /\ pc = "advance"
  /\ IF sc.dead
     THEN /\ segs' = ForceTrim
          /\ Return(0, FALSE, ForceTrim, failed)                        \* advanceScanner error => (0,false)
     ELSE LET a == AdvanceTo(sc.pos) IN
          /\ segs' = a.segs
          /\ Return(0, TRUE, a.segs, failed)
  /\ UNCHANGED <<cfg, nextB, now, purgeDone, sc, cur, resp, failed, sig, nposts, accSet, dropped, purged, enqAt, flags,
                 remote, accepted>>

\* ------------------------------------------------------------------ time and max age
Tick == /\ pc = "idle" /\ now < MaxTicks /\ Pending(segs) # <<>>
        /\ now' = now + 1 /\ purgeDone' = FALSE
        /\ Log([a |-> "tick", exp |-> ObsOf(segs, failed, timer, sig)])
        /\ UNCHANGED <<cfg, segs, nextB, pc, trig, sc, cur, resp, failed, timer, sig, nposts, accSet, dropped, purged,
                       enqAt, flags, remote, accepted, call>>

Purge == /\ pc = "idle" /\ ~purgeDone /\ now >= 1 /\ Pending(segs) # <<>>
         /\ LET ss == PurgeSegs(segs)
                gone == SeqSet(Pending(segs)) \ SeqSet(Pending(ss))
            IN /\ segs' = ss
               /\ purged' = purged \cup {[b |-> b, age |-> now - enqAt[b]] : b \in gone}
               /\ Log([a |-> "purge", exp |-> ObsOf(ss, failed, timer, sig)])
         /\ purgeDone' = TRUE
         /\ UNCHANGED <<cfg, nextB, now, pc, trig, sc, cur, resp, failed, timer, sig, nposts, accSet, dropped, enqAt,
                        flags, remote, accepted, call>>

Next == Enqueue \/ Recv \/ TimerFire \/ StartScan \/ ScanNext \/ Post \/ HandleStatus \/ FinalAdvance \/ Tick \/ Purge
Spec == Init /\ [][Next]_vars

\* ------------------------------------------------------------------ contract (C27)
RECURSIVE Increasing(_)
Increasing(s) == Len(s) < 2 \/ (s[1] < s[2] /\ Increasing(Tail(s)))
RECURSIVE FirstOcc(_, _)
FirstOcc(s, seen) == IF s = <<>> THEN <<>>
                     ELSE IF Head(s) \in seen THEN FirstOcc(Tail(s), seen)
                     ELSE <<Head(s)>> \o FirstOcc(Tail(s), seen \cup {Head(s)})

\* a batch leaves the queue only after 204, or 400 with drop enabled, or age > maxAge
OnlyLegalRemovals == \A b \in Enqueued : b \in SeqSet(Pending(segs)) \/ b \in Settled
AcceptedOnly204InOrder == flags.acc      \* only a 204 accepts; first acceptances are in enqueue order
DropOnly400       == flags.drp /\ (dropped # {} => cfg.drop)
PurgeOnlyOld      == \A p \in purged : p.age > cfg.maxAge
\* the queue keeps enqueue order; a batch is posted only when every earlier batch is settled
QueueInOrder      == Increasing(Pending(segs))
PostInOrder       == flags.post
\* retry delays follow the rule
WaitFollowsRule   == flags.wait
\* nothing is left in the queue without a pending trigger (forwarding continues "until the remote accepts")
NoStrandedBatch   == (pc = "idle" /\ timer = Inf /\ sig = 0) => Pending(segs) = <<>>
TypeOK == /\ Len(segs) >= 1 /\ sig \in {0, 1} /\ failed >= 0 /\ (timer = Inf \/ timer > 0)
\* the order claims once more, over the history variables (generation configs, Record = TRUE)
PostInOrderH        == \A i \in 1..Len(remote) : (1..(remote[i].b - 1)) \subseteq remote[i].settled
FirstAcceptInOrderH == Increasing(FirstOcc(accepted, {}))

\* hides the history variables (and trig, which only labels hist records)
View == <<cfg, segs, nextB, now, purgeDone, pc, sc, cur, resp, failed, timer, sig, nposts,
          accSet, dropped, purged, enqAt, flags>>

=============================================================================
