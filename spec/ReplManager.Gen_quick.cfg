SPECIFICATION Spec
CONSTANTS
  Ids = {"r1", "r2"}
  Lens = {100, 7340032}
  MaxSizes = {20971519, 20971520, 25165824}
  SegMax = 10485760
  MaxBatches = 6
  MaxOps = 14
  Menu = {"init", "delete", "update", "enq", "deliver", "track", "untrack", "storeset", "closeall", "crash", "start"}
  Prefix <- NoPrefix
  Refusals = {"exists", "notfound", "toosmall", "full", "startup"}
  KickOnOpen = TRUE
  InitLeavesDir = TRUE
  Record = TRUE
INVARIANTS TypeOK PendingIsWant NoStrandedBatch
CHECK_DEADLOCK FALSE
