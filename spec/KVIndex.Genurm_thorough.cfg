\* Generation for the user-resource-mapping instance (replayed through tenant.Service / tenant.Store and the URM index mapping).
SPECIFICATION Spec
CONSTANTS
  FKs = {"u1", "u2"}
  Rs = {"r1", "r2", "r3"}
  Tied = TRUE
  Urm = TRUE
  BadFKs = {}
  BadPKs = {}
  Atomic = TRUE
  Restamp = FALSE
  WithAbort = TRUE
  MaxOps = 8
  Record = TRUE
  Probing = TRUE
  NoOpSteps = FALSE
INVARIANTS TypeOK
VIEW View
CHECK_DEADLOCK FALSE
