\* Sequential histories for replay on the real HealthReadyHandler: requests are atomic, hist is kept in the fingerprint.
\* checks/C33.py runs it twice: PreReg = TRUE (all checkers registered, descending name order) and PreReg = FALSE.
SPECIFICATION Spec
CONSTANTS
  Gates = {"bolt", "engine"}
  Prog = {"shards"}
  HGen = {"aa", "zz"}
  HPulse = {"task-scheduler"}
  HShards = {}
  Reqs = {"r1"}
  MaxOps = 3
  MaxReq = 0
  PreReg = TRUE
  Atomic = TRUE
  Record = TRUE
INVARIANTS TypeOK C33_ReadyCode C33_HealthCode C33_Window C33_TrueAggregate
CHECK_DEADLOCK FALSE
