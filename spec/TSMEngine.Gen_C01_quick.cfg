\* C01 generation, quick: same invariants, dumped: one history per distinct abstract state
SPECIFICATION Spec
CONSTANTS
  Keys = {1, 2}
  Times = {1, 2}
  BatchSizes = {1, 2}
  DupInBatch = TRUE
  MaxPoints = 3
  MaxSnaps = 2
  MaxCompacts = 1
  MaxDeletes = 0
  MaxReopens = 1
  MinGroup = 2
  SplitWrites = FALSE
  SnapDeleteOverlap = FALSE
  MaxOps = 1000
INVARIANTS TypeOK FilesSorted GenFresh WALMatchesCache VisibleEqualsModel ReadEqualsModel DuringDelete DuringWrite NoResurrection
PROPERTIES FinStable
VIEW View
CHECK_DEADLOCK FALSE
