SPECIFICATION Spec
CONSTANTS
  BodyVals = {0, 8}
  MaxBody = 8
  MaxAppends = 2
  VerifyAll = TRUE

CHECK_DEADLOCK FALSE
