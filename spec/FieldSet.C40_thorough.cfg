\* C40, input-shaped: every batch of <= 4 points from the 10 point classes x 3 pre-existing schemas x ValidateKeys on/off
SPECIFICATION Spec
CONSTANTS
  Mode = "input"
  Meas = {"m1", "m2"}
  Fields = {"f1", "f2"}
  Writers = {1}
  MaxOps = 0
  MaxBatch = 4
  LogDeletes = FALSE
  ReplayOverwrites = FALSE
  PointSetName = "all"
  NoMaint = FALSE
  UseIds = TRUE
  SchemaNames = {"s0", "s1", "s2"}
  VKs = {TRUE, FALSE}
INVARIANTS C40Contract
CHECK_DEADLOCK FALSE
