------------------------------ MODULE CredHash ------------------------------
(* C44 - "stored hashes in every supported format verify exactly their own password".                      *)
(* Input-shaped: the state is the case.  A secret is hashed with variant `sv` and stored as its encoded    *)
(* PHC string ($influxdb2-sha256$..., $influxdb2-sha512$...); a verifier configured with the decoder set   *)
(* `dv` decodes the stored string and matches a presented candidate:                                        *)
(*     cand = "raw":  the secret number `try`                                                               *)
(*     cand = "phc":  the stored (encoded) hash of secret number `try` itself, presented as if it were the  *)
(*                    secret (must never verify - the replayed-hash attack of authorization/storage.go)     *)
(* Hash functions are abstract and injective per variant: only equality of secrets matters.                 *)
(* Code: pkg/crypt/algorithm/influxdb2 (Hasher.Hash, Digest.Encode, DecodeVariant, Digest.Match) and       *)
(* authorization.AuthorizationHasher (Hash, Decode, Match, AllHashes).                                      *)
EXTENDS Integers, FiniteSets, TLC

CONSTANTS Variants,   \* {"influxdb2-sha256", "influxdb2-sha512"}
          Secrets     \* abstract secret ids, e.g. 1..3

VARIABLES sv, dv, stored, try, cand, exp
vars == <<sv, dv, stored, try, cand, exp>>

\* implementation layer: Decode fails when no registered decoder handles the stored variant; otherwise the digest of
\* the candidate under the stored variant is compared with the stored key
Verify(v, decoders, s, t, c) ==
  IF v \notin decoders THEN "undecodable"
  ELSE IF c = "raw" /\ s = t THEN "match"
  ELSE "nomatch"            \* another secret, or a hash string presented as the secret (hash of a hash # hash)

Init ==
  /\ sv \in Variants
  /\ dv \in (SUBSET Variants) \ {{}}
  /\ stored \in Secrets
  /\ try \in Secrets
  /\ cand \in {"raw", "phc"}
  /\ exp = [res |-> Verify(sv, dv, stored, try, cand),
            \* index lookup as GetAuthorizationByToken does it: the candidate is hashed with every variant the verifier
            \* knows and looked up among the stored hashes: found iff some variant reproduces the stored string
            indexed |-> (cand = "raw" /\ stored = try /\ sv \in dv)]

Next == UNCHANGED vars
Spec == Init /\ [][Next]_vars

\* contract: a stored hash verifies exactly its own secret
VerifiesExactlyOwn == (exp.res = "match") <=> (cand = "raw" /\ stored = try /\ sv \in dv)
HashIsNotASecret   == cand = "phc" => exp.res # "match" /\ ~exp.indexed
=============================================================================
