\* C01, half-applied writes: a write is CacheWrite ; WriteAck (under Engine.mu.RLock); snapshot/compaction steps and reads may fall in between (DuringWrite). Checked and dumped (thorough tier).
SPECIFICATION Spec
CONSTANTS
  Keys = {1, 2}
  Times = {1, 2}
  BatchSizes = {1, 2}
  DupInBatch = FALSE
  MaxPoints = 3
  MaxSnaps = 2
  MaxCompacts = 1
  MaxDeletes = 0
  MaxReopens = 1
  MinGroup = 2
  SplitWrites = TRUE
  SnapDeleteOverlap = FALSE
  MaxOps = 1000
INVARIANTS TypeOK FilesSorted GenFresh WALMatchesCache VisibleEqualsModel ReadEqualsModel DuringDelete DuringWrite NoResurrection
PROPERTIES FinStable
VIEW View
CHECK_DEADLOCK FALSE
