\* same constants as checks/C14.py uses for the bounded-exhaustive history generation (keep mode)
SPECIFICATION Spec
CONSTANTS
  NS = 3
  MaxGen = 2
  MaxOps = 3
  MaxFiles = 3
  MaxCreate = 2
  SfileDelete = FALSE
  CacheOn = TRUE
  FixCacheOnDrop = TRUE
  FixNewestTomb = TRUE
  Internal = FALSE
  RecHist = TRUE
  WithCrash = TRUE
INVARIANTS Emit
CHECK_DEADLOCK FALSE
