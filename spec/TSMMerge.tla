---------------------------- MODULE TSMMerge ----------------------------
(* Pure merge semantics of sorted timestamp arrays, TSM blocks and TSM files (C37, C06, C04).            *)
(*                                                                                                        *)
(* There is no system behaviour: the state space IS the input space.  From the root state the action      *)
(* GenInput enumerates every input of a bounded shape (or the NPicks explicit inputs PickAt(1..NPicks),    *)
(* drawn by the check from VERIF_SEED and validated by LoadPick); the action Expect attaches the result    *)
(* the contract layer demands.                                                                             *)
(* Every state with c.op = "case" is one test case:  c = the input, exp = the expected observation.       *)
(* (Two steps instead of one Init predicate only so that TLC's workers share the evaluation of Expect.)    *)
(*                                                                                                        *)
(* Contract layer (what the properties state): an array / the content of a key is a finite function       *)
(* timestamp -> value id.  MergeF / ExcludeF / IncludeF / FindRangeF / DedupF are set algebra on such     *)
(* functions, Live(file) removes the tombstoned ranges of a file, LWW(files) overlays the files oldest to *)
(* newest, ReadExp filters by seek time and direction, WellFormed is the shape of a compaction output.    *)
(* Implementation layer (how the anchored code computes it): binary search (search), FindRange, the       *)
(* index arithmetic of Exclude/Include, the two-pointer Merge, sort.Stable + keep-last Deduplicate, the   *)
(* chunking of merged values into blocks of at most ppb points.  TLC checks Impl = Contract on every      *)
(* enumerated input (invariants below); the replay drivers check real code = Contract.                    *)
(*                                                                                                        *)
(* Timestamps are abstract small integers; the driver maps them strictly monotonically into               *)
(* [models.MinNanoTime, models.MaxNanoTime] (range bounds of C37 may also be MinInt64 / MaxInt64).        *)
(* Value ids are small integers that say where a point came from (array / file / write number).           *)
(* Refinements used by the compaction driver (the expectation is refined the same way): a point (t, id)    *)
(* may be stretched into k concrete points t*..t*+k-1 with the same id and a block cut into consecutive    *)
(* blocks of 1 or 2 points (a key with many blocks); tombstones are added either on the closed file or on  *)
(* the live reader through the batch API, as Engine.deleteSeriesRange does.                                *)
EXTENDS Integers, Sequences, FiniteSets, TLC

CONSTANTS Family,     \* "arrays" | "read" | "compact" | "snapshot"
          NTs,        \* arrays: array timestamps are 1..NTs, range bounds 0..NTs+1; files: timestamps 0..NTs-1
          NFiles,     \* read/compact: number of TSM files (oldest first)
          NKeys,      \* compact/snapshot: number of series keys
          MaxBlocks,  \* read/compact: blocks per key and file (1 or 2)
          TombMode,   \* "none" | "one" (at most one file/key carries one tombstone range) | "each" (each may carry one)
          KeyMode,    \* compact: "full" (every key/file slot enumerates all layouts) | "small" (reduced layouts per slot)
          PPBs,       \* compact/snapshot: sequence of points-per-block settings
          MaxLen,     \* arrays: max length of a Deduplicate input; snapshot: max number of writes
          NPicks,     \* number of explicit inputs; 0 = enumerate the input space
          PickAt(_)   \* PickAt(n), n \in 1..NPicks: the `files` / `writes` component of the n-th explicit input

VARIABLES c, exp
vars == <<c, exp>>

\* ------------------------------------------------------------------ generic helpers
Min(S) == CHOOSE x \in S : \A y \in S : x <= y
Max(S) == CHOOSE x \in S : \A y \in S : x >= y
MaxOr0(S) == IF S = {} THEN 0 ELSE Max(S)
RECURSIVE AscSeq(_)
AscSeq(S) == IF S = {} THEN <<>> ELSE LET m == Min(S) IN <<m>> \o AscSeq(S \ {m})
Reverse(s) == [i \in 1..Len(s) |-> s[Len(s) + 1 - i]]
Range(s) == {s[i] : i \in 1..Len(s)}
EmptyFn == [t \in {} |-> 0]
Restrict(f, S) == [t \in (DOMAIN f) \cap S |-> f[t]]
\* a contract-level array (function ts -> value) as the sorted sequence of <<ts, value>> pairs, and back
RECURSIVE ArrOf(_, _)
ArrOf(f, S) == IF S = {} THEN <<>> ELSE LET m == Min(S) IN <<<<m, f[m]>>>> \o ArrOf(f, S \ {m})
Arr(f) == ArrOf(f, DOMAIN f)
Fn(s) == [t \in {s[i][1] : i \in 1..Len(s)} |-> s[CHOOSE i \in 1..Len(s) : s[i][1] = t][2]]
IsSortedDedup(s) == \A i \in 1..(Len(s) - 1) : s[i][1] < s[i + 1][1]

\* ------------------------------------------------------------------ contract layer: array algebra (C37)
InRange(t, lo, hi) == lo <= t /\ t <= hi
MergeF(a, b) == [t \in (DOMAIN a) \cup (DOMAIN b) |-> IF t \in DOMAIN b THEN b[t] ELSE a[t]]   \* b wins
ExcludeF(a, lo, hi) == Restrict(a, {t \in DOMAIN a : ~InRange(t, lo, hi)})
IncludeF(a, lo, hi) == Restrict(a, {t \in DOMAIN a : InRange(t, lo, hi)})
\* insertion positions (0-based): number of elements strictly below the bound; (-1,-1) when the array is empty,
\* the range is empty (lo > hi) or the array lies entirely outside [lo, hi]
FindRangeF(a, lo, hi) ==
  IF DOMAIN a = {} \/ lo > hi THEN <<-1, -1>>
  ELSE IF Max(DOMAIN a) < lo \/ Min(DOMAIN a) > hi THEN <<-1, -1>>
  ELSE <<Cardinality({t \in DOMAIN a : t < lo}), Cardinality({t \in DOMAIN a : t < hi})>>
ContainsF(a, lo, hi) == \E t \in DOMAIN a : InRange(t, lo, hi)
\* Deduplicate: input is ANY sequence of <<ts, value>>; the last occurrence of a timestamp wins, output sorted
DedupF(s) == [t \in {s[i][1] : i \in 1..Len(s)} |-> s[Max({i \in 1..Len(s) : s[i][1] = t})][2]]

\* ------------------------------------------------------------------ implementation layer: array algebra
\* search(): binary search for the first position whose timestamp is >= v (0-based result)
RECURSIVE BSearch(_, _, _, _)
BSearch(s, v, lo, hi) ==
  IF lo >= hi THEN lo
  ELSE LET mid == (lo + hi) \div 2
       IN IF s[mid + 1][1] < v THEN BSearch(s, v, mid + 1, hi) ELSE BSearch(s, v, lo, mid)
FindRangeI(s, lo, hi) ==
  IF Len(s) = 0 \/ lo > hi THEN <<-1, -1>>
  ELSE IF s[Len(s)][1] < lo \/ s[1][1] > hi THEN <<-1, -1>>
  ELSE <<BSearch(s, lo, 0, Len(s)), BSearch(s, hi, 0, Len(s))>>
ExcludeI(s, lo, hi) ==
  LET r == FindRangeI(s, lo, hi) IN
  IF r = <<-1, -1>> THEN s
  ELSE LET rmax == IF r[2] < Len(s) /\ s[r[2] + 1][1] = hi THEN r[2] + 1 ELSE r[2]
       IN SubSeq(s, 1, r[1]) \o SubSeq(s, rmax + 1, Len(s))
IncludeI(s, lo, hi) ==
  LET r == FindRangeI(s, lo, hi) IN
  IF r = <<-1, -1>> THEN <<>>
  ELSE LET rmax == IF r[2] < Len(s) /\ s[r[2] + 1][1] = hi THEN r[2] + 1 ELSE r[2]
       IN SubSeq(s, r[1] + 1, rmax)
RECURSIVE MergeI(_, _)
MergeI(a, b) ==
  IF a = <<>> THEN b ELSE IF b = <<>> THEN a
  ELSE IF a[1][1] < b[1][1] THEN <<a[1]>> \o MergeI(Tail(a), b)
  ELSE IF a[1][1] = b[1][1] THEN <<b[1]>> \o MergeI(Tail(a), Tail(b))
  ELSE <<b[1]>> \o MergeI(a, Tail(b))
\* Values.Deduplicate: already strictly increasing -> unchanged; else stable sort by time, keep the last of each run
RECURSIVE StableInsert(_, _)
StableInsert(sorted, x) ==   \* insert x after every element with time <= x's time (stability)
  IF sorted = <<>> THEN <<x>>
  ELSE IF sorted[Len(sorted)][1] <= x[1] THEN Append(sorted, x)
  ELSE Append(StableInsert(SubSeq(sorted, 1, Len(sorted) - 1), x), sorted[Len(sorted)])
RECURSIVE StableSort(_)
StableSort(s) == IF s = <<>> THEN <<>> ELSE StableInsert(StableSort(SubSeq(s, 1, Len(s) - 1)), s[Len(s)])
RECURSIVE KeepLast(_)
KeepLast(s) ==
  IF Len(s) <= 1 THEN s
  ELSE IF s[1][1] = s[2][1] THEN KeepLast(Tail(s)) ELSE <<s[1]>> \o KeepLast(Tail(s))
DedupI(s) == IF IsSortedDedup(s) THEN s ELSE KeepLast(StableSort(s))

\* ------------------------------------------------------------------ contract layer: files (C06, C04)
\* A file is a sequence over keys 1..NKeys (read family: one key) of slots [blocks, tombs]:
\*   blocks = sequence of blocks, a block = strictly increasing sequence of timestamps, blocks ordered and disjoint
\*            (the writer's invariant); <<>> = the key is not in the file;
\*   tombs  = sequence of <<lo, hi>> closed ranges deleted from THIS file for that key.
\* The value id of the point of key k at time t in file i says where it came from.
V(k, i, t) == 1000 * k + 100 * i + t
BlockTs(kf) == UNION {Range(kf.blocks[j]) : j \in 1..Len(kf.blocks)}
Tombed(kf, t) == \E j \in 1..Len(kf.tombs) : InRange(t, kf.tombs[j][1], kf.tombs[j][2])
Live(files, i, k) == [t \in {t \in BlockTs(files[i][k]) : ~Tombed(files[i][k], t)} |-> V(k, i, t)]
\* later file overrides earlier one on equal timestamps, tombstoned ranges removed; stated directly ...
LWWOf(lives) ==    \* lives[i] = live content of file i; the newest file holding t provides the value
  [t \in UNION {DOMAIN lives[i] : i \in 1..Len(lives)} |->
        lives[Max({i \in 1..Len(lives) : t \in DOMAIN lives[i]})][t]]
LWW(files, k) ==   \* (set constructor instead of LET: TLC then evaluates the per-file contents once)
  CHOOSE r \in {LWWOf(lives) : lives \in {[i \in 1..Len(files) |-> Live(files, i, k)]}} : TRUE
\* ... and as the fold of the array Merge over the files, oldest first (ties C06/C04 to C37)
RECURSIVE LWWFold(_, _, _)
LWWFold(files, k, n) == IF n = 0 THEN EmptyFn ELSE MergeF(LWWFold(files, k, n - 1), Live(files, n, k))

\* what a key cursor must hand out: every live point at/after (asc) or at/before (desc) the seek time, in cursor
\* order (ascending time for asc, descending for desc); `all` is Arr(LWW(files, 1))
ReadExpOf(all, seek, asc) ==
  IF asc THEN SelectSeq(all, LAMBDA p : p[1] >= seek)
  ELSE Reverse(SelectSeq(all, LAMBDA p : p[1] <= seek))

\* shape of a compaction output: out = sequence of files, a file = sequence of [key, blocks], block = seq of <<t, v>>
RECURSIVE Collect(_, _, _, _)
Collect(out, k, fi, ei) ==   \* all blocks of key k in output order (file by file)
  IF fi > Len(out) THEN <<>>
  ELSE IF ei > Len(out[fi]) THEN Collect(out, k, fi + 1, 1)
  ELSE (IF out[fi][ei].key = k THEN out[fi][ei].blocks ELSE <<>>) \o Collect(out, k, fi, ei + 1)
BlocksOfKey(out, k) == Collect(out, k, 1, 1)
WellFormed(out, limit) ==
  /\ \A fi \in 1..Len(out) : \A e \in 1..(Len(out[fi]) - 1) : out[fi][e].key < out[fi][e + 1].key     \* keys sorted, unique
  /\ \A fi \in 1..Len(out) : \A e \in 1..Len(out[fi]) : out[fi][e].blocks # <<>>
  /\ \A k \in 1..NKeys : \A bs \in {BlocksOfKey(out, k)} :      \* (bound by a quantifier: TLC evaluates it once)
       /\ \A j \in 1..Len(bs) : bs[j] # <<>> /\ IsSortedDedup(bs[j]) /\ Len(bs[j]) <= limit
       /\ \A j \in 1..(Len(bs) - 1) : bs[j][Len(bs[j])][1] < bs[j + 1][1][1]                           \* ordered, disjoint
RECURSIVE Cat(_)
Cat(bs) == IF bs = <<>> THEN <<>> ELSE Head(bs) \o Cat(Tail(bs))
ContentOf(out, k) == Cat(BlocksOfKey(out, k))
\* reference compaction (implementation layer): LWW content cut into blocks of ppb points, one output file
RECURSIVE Chunk(_, _)
Chunk(s, n) == IF s = <<>> THEN <<>> ELSE IF Len(s) <= n THEN <<s>> ELSE <<SubSeq(s, 1, n)>> \o Chunk(SubSeq(s, n + 1, Len(s)), n)
RECURSIVE RefEntries(_, _, _)
RefEntries(content, ppb, k) ==   \* one index entry per key that has content, keys ascending
  IF k > Len(content) THEN <<>>
  ELSE (IF content[k] = <<>> THEN <<>> ELSE <<[key |-> k, blocks |-> Chunk(content[k], ppb)]>>) \o RefEntries(content, ppb, k + 1)
RefCompact(content, ppb) ==   \* content = sequence over keys of the expected <<t, v>> sequences
  IF \A k \in 1..Len(content) : content[k] = <<>> THEN <<>> ELSE <<RefEntries(content, ppb, 1)>>
\* largest input block (points): blocks that already hold >= ppb points are copied as they are by the compactor
\* (compact.gen.go "if this block is already full, just add it as is"), so the bound a compaction can honour is
\* max(ppb, largest input block); it equals ppb whenever all input blocks respect ppb.
BlockLens(files) ==
  UNION {UNION {{Len(files[i][k].blocks[j]) : j \in 1..Len(files[i][k].blocks)} : k \in 1..Len(files[i])} : i \in 1..Len(files)}
MaxIn(files) == MaxOr0(BlockLens(files))

\* cache snapshot input: writes = sequence of <<key, ts>>; the value id of write j is j; later write wins
KeyWrites(ws, k) ==
  LET idx == AscSeq({j \in 1..Len(ws) : ws[j][1] = k}) IN [n \in 1..Len(idx) |-> <<ws[idx[n]][2], idx[n]>>]
SnapContent(ws, k) == DedupF(KeyWrites(ws, k))

\* ------------------------------------------------------------------ input spaces
Pos == 1..NTs                  \* arrays family: timestamps an array may hold
Bounds == 0..(NTs + 1)         \* arrays family: range bounds (0 / NTs+1 are below / above every array timestamp)
DedupTs == 1..(IF NTs > 4 THEN 4 ELSE NTs)
Ts == 0..(NTs - 1)             \* file families
NonEmptyTs == (SUBSET Ts) \ {{}}
BlockLayouts ==
  {<<AscSeq(S)>> : S \in NonEmptyTs} \cup
  (IF MaxBlocks >= 2
   THEN {<<AscSeq(p[1]), AscSeq(p[2])>> : p \in {q \in NonEmptyTs \X NonEmptyTs : Max(q[1]) < Min(q[2])}}
   ELSE {})
TombRanges == {r \in Ts \X Ts : r[1] <= r[2]}
Absent == [blocks |-> <<>>, tombs |-> <<>>]
\* reduced per-slot layouts for the multi-key enumeration (KeyMode = "small")
SmallSlots ==
  {Absent,
   [blocks |-> <<<<0, 1>>>>, tombs |-> <<>>], [blocks |-> <<<<1, 2>>>>, tombs |-> <<>>],
   [blocks |-> <<<<0>>, <<2>>>>, tombs |-> <<>>], [blocks |-> <<<<0, 1, 2>>>>, tombs |-> <<>>],
   [blocks |-> <<<<0, 1>>>>, tombs |-> <<<<0, 1>>>>],        \* every point of the slot deleted
   [blocks |-> <<<<1, 2>>>>, tombs |-> <<<<1, 1>>>>],
   [blocks |-> <<<<0>>, <<2>>>>, tombs |-> <<<<0, 0>>>>]}
NoTombSlots == [blocks : BlockLayouts, tombs : {<<>>}] \cup (IF NKeys > 1 THEN {Absent} ELSE {})
OneTombSlots == [blocks : BlockLayouts, tombs : {<<>>} \cup {<<r>> : r \in TombRanges}] \cup (IF NKeys > 1 THEN {Absent} ELSE {})
HasBlocks(file) == \E k \in 1..Len(file) : file[k].blocks # <<>>
\* explicit inputs (PickAt) are validated; enumerated ones are valid by construction
ValidSlot(kf) ==
  /\ Len(kf.blocks) <= MaxBlocks
  /\ \A j \in 1..Len(kf.blocks) : /\ kf.blocks[j] # <<>>
                                  /\ Range(kf.blocks[j]) \subseteq Ts
                                  /\ \A n \in 1..(Len(kf.blocks[j]) - 1) : kf.blocks[j][n] < kf.blocks[j][n + 1]
  /\ \A j \in 1..(Len(kf.blocks) - 1) : kf.blocks[j][Len(kf.blocks[j])] < kf.blocks[j + 1][1]
  /\ \A j \in 1..Len(kf.tombs) : kf.tombs[j][1] <= kf.tombs[j][2]
  /\ (kf.blocks = <<>>) => (kf.tombs = <<>>)    \* a tombstone needs the key in the file (TSMReader.DeleteRange)
ValidFiles(fs) ==
  /\ Len(fs) >= 1
  /\ \A i \in 1..Len(fs) : Len(fs[i]) = NKeys /\ HasBlocks(fs[i]) /\ \A k \in 1..NKeys : ValidSlot(fs[i][k])
ValidWrites(ws) == \A j \in 1..Len(ws) : ws[j][1] \in 1..NKeys /\ ws[j][2] \in Ts

\* ------------------------------------------------------------------ GenInput: root -> one "in" state per input
\* (iv stands for c'; operators are applied to the primed variable in Next)
FilesInput(iv, kind) ==
  IF NPicks > 0
  THEN \E n \in 1..NPicks : iv = [op |-> "pick", kind |-> kind, n |-> n]
  ELSE IF KeyMode = "small"
  THEN \E fs \in {x \in [1..NFiles -> [1..NKeys -> SmallSlots]] : \A i \in 1..NFiles : HasBlocks(x[i])} :
         iv = [op |-> "in", kind |-> kind, files |-> fs]
  ELSE IF TombMode = "each"
  THEN \E fs \in {x \in [1..NFiles -> [1..NKeys -> OneTombSlots]] : \A i \in 1..NFiles : HasBlocks(x[i])} :
         iv = [op |-> "in", kind |-> kind, files |-> fs]
  ELSE \E fs \in {x \in [1..NFiles -> [1..NKeys -> NoTombSlots]] : \A i \in 1..NFiles : HasBlocks(x[i])} :
         /\ TRUE
         /\ \/ iv = [op |-> "in", kind |-> kind, files |-> fs]
            \/ /\ TombMode = "one"     \* exactly one slot (that has blocks) carries one tombstone range
               /\ \E i \in 1..NFiles, k \in 1..NKeys, r \in TombRanges :
                    /\ fs[i][k].blocks # <<>>
                    /\ iv = [op |-> "in", kind |-> kind, files |-> [fs EXCEPT ![i][k].tombs = <<r>>]]
GenInput(iv) ==
  CASE Family = "arrays" ->
         \/ \E A \in SUBSET Pos, B \in SUBSET Pos :
              iv = [op |-> "in", kind |-> "merge", a |-> Arr([p \in A |-> p]), b |-> Arr([p \in B |-> 100 + p])]
         \/ \E A \in SUBSET Pos, lo \in Bounds, hi \in Bounds :
              iv = [op |-> "in", kind |-> "range", a |-> Arr([p \in A |-> p]), lo |-> lo, hi |-> hi]
         \/ \E n \in 0..MaxLen : \E ts \in [1..n -> DedupTs] :
              iv = [op |-> "in", kind |-> "dedup", s |-> [i \in 1..n |-> <<ts[i], i>>]]
    [] Family = "read" -> FilesInput(iv, "read")
    [] Family = "compact" -> FilesInput(iv, "compact")
    [] Family = "snapshot" ->
         IF NPicks > 0
         THEN \E n \in 1..NPicks : iv = [op |-> "pick", kind |-> "snapshot", n |-> n]
         ELSE \E n \in 0..MaxLen : \E ws \in [1..n -> (1..NKeys) \X Ts] : iv = [op |-> "in", kind |-> "snapshot", writes |-> ws]

\* ------------------------------------------------------------------ Expect: the contract layer's answer for one input
NSeeks == NTs + 2      \* seek times -1 .. NTs; index s <-> seek s - 2
Expected(in) ==
  CASE in.kind = "merge" -> [out |-> Arr(MergeF(Fn(in.a), Fn(in.b)))]
    [] in.kind = "range" ->
         LET fa == Fn(in.a) IN
         [excl |-> Arr(ExcludeF(fa, in.lo, in.hi)), incl |-> Arr(IncludeF(fa, in.lo, in.hi)),
          fr |-> FindRangeF(fa, in.lo, in.hi), any |-> ContainsF(fa, in.lo, in.hi)]
    [] in.kind = "dedup" -> [out |-> Arr(DedupF(in.s))]
    [] in.kind = "read" ->
         \* (`all` is bound by a set constructor rather than LET so that TLC computes the merge once, not per row)
         CHOOSE r \in {[asc  |-> [s \in 1..NSeeks |-> ReadExpOf(all, s - 2, TRUE)],
                         desc |-> [s \in 1..NSeeks |-> ReadExpOf(all, s - 2, FALSE)]] : all \in {Arr(LWW(in.files, 1))}} : TRUE
    [] in.kind = "compact" ->
         [content |-> [k \in 1..NKeys |-> Arr(LWW(in.files, k))],
          ppbs |-> PPBs,
          limit |-> CHOOSE l \in {[j \in 1..Len(PPBs) |-> IF mi > PPBs[j] THEN mi ELSE PPBs[j]] : mi \in {MaxIn(in.files)}} : TRUE]
    [] in.kind = "snapshot" ->
         [content |-> [k \in 1..NKeys |-> Arr(SnapContent(in.writes, k))], ppbs |-> PPBs, limit |-> PPBs]

Init == c = [op |-> "root"] /\ exp = <<>>
DoGenInput == c.op = "root" /\ GenInput(c') /\ exp' = <<>>
DoLoadPick ==     \* an explicit input becomes an input only if it has the shape the enumerations produce
  /\ c.op = "pick"
  /\ LET p == PickAt(c.n) IN
     IF c.kind = "snapshot"
     THEN (IF ValidWrites(p) THEN c' = [op |-> "in", kind |-> c.kind, writes |-> p] ELSE FALSE)
     ELSE (IF ValidFiles(p) THEN c' = [op |-> "in", kind |-> c.kind, files |-> p] ELSE FALSE)
  /\ exp' = <<>>
DoExpect == c.op = "in" /\ c' = [c EXCEPT !.op = "case"] /\ exp' = Expected(c)
Next == DoGenInput \/ DoLoadPick \/ DoExpect
Spec == Init /\ [][Next]_vars

\* ------------------------------------------------------------------ TLC: implementation layer = contract layer
IsCase == c.op = "case"
ArraysImplIsContract ==
  (IsCase /\ Family = "arrays") =>
    /\ c.kind = "merge" => /\ MergeI(c.a, c.b) = exp.out
                           /\ IsSortedDedup(exp.out)
    /\ c.kind = "range" => /\ ExcludeI(c.a, c.lo, c.hi) = exp.excl
                           /\ IncludeI(c.a, c.lo, c.hi) = exp.incl
                           /\ FindRangeI(c.a, c.lo, c.hi) = exp.fr
    /\ c.kind = "dedup" => DedupI(c.s) = exp.out /\ IsSortedDedup(exp.out)
ArrayLemmas ==
  (IsCase /\ Family = "arrays") =>
    /\ c.kind = "merge" =>
         LET fa == Fn(c.a)
             fb == Fn(c.b)
             fo == Fn(exp.out)
         IN /\ MergeF(fa, EmptyFn) = fa /\ MergeF(EmptyFn, fb) = fb
            /\ MergeF(fa, fa) = fa
            /\ DOMAIN fo = (DOMAIN fa) \cup (DOMAIN fb)
            /\ \A t \in DOMAIN fb : fo[t] = fb[t]                          \* the second array wins
            /\ \A t \in (DOMAIN fa) \ (DOMAIN fb) : fo[t] = fa[t]
    /\ c.kind = "range" =>
         LET fa == Fn(c.a)
             fx == Fn(exp.excl)
             fi == Fn(exp.incl)
         IN /\ (DOMAIN fx) \cup (DOMAIN fi) = DOMAIN fa             \* Exclude and Include partition a
            /\ (DOMAIN fx) \cap (DOMAIN fi) = {}
            /\ MergeF(fx, fi) = fa
            /\ (c.lo > c.hi) => (exp.incl = <<>> /\ exp.excl = c.a /\ exp.fr = <<-1, -1>>)
            /\ exp.any = (exp.incl # <<>>)
            /\ (exp.fr # <<-1, -1>>) => (exp.fr[1] <= exp.fr[2] /\ exp.fr[2] <= Len(c.a))
LWWIsFold ==      \* LWW is the fold of the array Merge over the files (ties C06/C04 to C37)
  (IsCase /\ Family \in {"read", "compact"}) =>
    \A k \in 1..NKeys : LWW(c.files, k) = LWWFold(c.files, k, Len(c.files))
ReadLemmas ==
  (IsCase /\ Family = "read") =>
    /\ \A s \in 1..NSeeks : IsSortedDedup(exp.asc[s]) /\ IsSortedDedup(Reverse(exp.desc[s]))
    /\ \A s \in 2..NSeeks : Len(exp.asc[s]) + Len(exp.desc[s - 1]) = Len(exp.asc[1])   \* a seek time splits the content
    /\ exp.asc[1] = Reverse(exp.desc[NSeeks])
CompactLemmas ==   \* the contract is satisfiable: cutting the expected content into ppb-sized blocks is well formed
  (IsCase /\ Family = "compact") =>
    /\ \A j \in 1..Len(PPBs) : WellFormed(RefCompact(exp.content, PPBs[j]), PPBs[j]) /\ exp.limit[j] >= PPBs[j]
    /\ \A out \in {RefCompact(exp.content, PPBs[1])} : \A k \in 1..NKeys : ContentOf(out, k) = exp.content[k]
SnapshotLemmas ==
  (IsCase /\ Family = "snapshot") =>
    \A k \in 1..NKeys : /\ DedupI(KeyWrites(c.writes, k)) = exp.content[k]          \* Cache dedup = Values.Deduplicate
                        /\ IsSortedDedup(exp.content[k])

\* constants that configuration files cannot spell
NoPick(n) == <<>>
PPBSmall == <<1, 2, 3, 1000>>
=============================================================================
