SPECIFICATION Spec
CONSTANTS
  Keys = {"k1", "k2"}
  Slots = {1, 2}
  InitMenu <- InitQuick
  NewMenu <- NewFocus
  SeekSlots = {1, 2}
  MaxFiles = 5
  MaxNew = 1
  MaxCursors = 1
  MaxOpen = 1
  MaxReplaces = 3
  MaxStepwise = 1
  MaxOps = 12
  Record = TRUE
  Fine = FALSE
  Reads = FALSE
  WithStats = TRUE
  WithClose = TRUE
  Mut = "none"
INVARIANTS TypeOK RefsMatch CursorSnapshot
CHECK_DEADLOCK FALSE
