SPECIFICATION Spec
CONSTANTS
  MaxPts = 6
  QPerData = 5
  Focus = "fill"
INVARIANTS RowsOrdered SeriesOrdered LimitRespected SLimitRespected NoEmptySeries CountConservation FillNoneIsSubset DescIsReverse
CHECK_DEADLOCK FALSE
