---------------------------- MODULE Containers ----------------------------
(* Abstract models of the index / id-set containers (C36):                                             *)
(*   rhh    pkg/rhh.HashMap        a map (Put overwrites, no delete; Reset; Grow changes nothing)       *)
(*   bloom  pkg/bloom.Filter       a set with one-sided membership: every inserted key must be reported *)
(*                                 (false positives are allowed), Merge = union, Clone, rebuild from     *)
(*                                 Bytes()                                                               *)
(*   radix  pkg/radix.Tree         a sorted map of byte strings: Insert is put-if-absent (the code      *)
(*                                 returns the old value and does not overwrite), Get, DeletePrefix,     *)
(*                                 Len, Minimum, Maximum (lexicographic order)                           *)
(*   idset  tsdb.SeriesIDSet       two sets a, b: Add/Remove/Merge/MergeInPlace/Diff/And/AndNot/        *)
(*                                 Intersects/Equals/Clone/serialisation round trip/Clear                *)
(* One behaviour = one operation sequence on one container kind; hist carries, after every step, the     *)
(* complete abstract content (the oracle of the replay) and the return value of the operation.          *)
EXTENDS Integers, Sequences, FiniteSets, TLC

CONSTANTS Kinds,                                  \* subset of {"rhh","bloom","radix","idset"}
          MaxRhh, MaxBloom, MaxRadix, MaxIdset    \* bound on the number of operations per kind

VARIABLES kind, st, hist
vars == <<kind, st, hist>>

K == 1..4                                                     \* abstract keys / ids
RK == {<<1>>, <<1, 1>>, <<1, 2>>, <<2>>}                      \* radix keys: strings over letters 1 < 2 < 3
RP == {<<>>, <<1>>, <<1, 1>>, <<1, 3>>, <<2>>, <<3>>}         \* prefixes used by DeletePrefix

N == Len(hist) + 1                                            \* values are numbered by the writing operation
Bound == CASE kind = "rhh" -> MaxRhh [] kind = "bloom" -> MaxBloom [] kind = "radix" -> MaxRadix [] OTHER -> MaxIdset

IsPrefix(p, s) == Len(p) <= Len(s) /\ \A i \in 1..Len(p) : p[i] = s[i]
LexLess(a, b) == \/ (IsPrefix(a, b) /\ a # b)
                 \/ \E i \in 1..Len(a) : i <= Len(b) /\ a[i] < b[i] /\ \A j \in 1..(i - 1) : a[j] = b[j]
MinKey(S) == CHOOSE a \in S : \A b \in S \ {a} : LexLess(a, b)
MaxKey(S) == CHOOSE a \in S : \A b \in S \ {a} : LexLess(b, a)

InitSt(k) == CASE k = "rhh" -> [m |-> [x \in K |-> 0]]
               [] k = "bloom" -> [f1 |-> {}, f2 |-> {}]
               [] k = "radix" -> [m |-> [x \in RK |-> 0]]
               [] OTHER -> [a |-> {}, b |-> {}]

Init == /\ kind \in Kinds
        /\ st = InitSt(kind)
        /\ hist = <<>>

Step(rec, st1) == /\ Len(hist) < Bound
                  /\ st' = st1
                  /\ hist' = Append(hist, rec)
                  /\ UNCHANGED kind

\* ---------------- rhh ----------------
RhhObs(m) == [get |-> m, len |-> Cardinality({x \in K : m[x] # 0})]
RhhPut(k) == kind = "rhh" /\ LET m1 == [st.m EXCEPT ![k] = N] IN Step([a |-> "put", k |-> k, v |-> N, exp |-> RhhObs(m1)], [m |-> m1])
RhhReset == kind = "rhh" /\ LET m1 == [x \in K |-> 0] IN Step([a |-> "reset", exp |-> RhhObs(m1)], [m |-> m1])
RhhGrow == kind = "rhh" /\ Step([a |-> "grow", exp |-> RhhObs(st.m)], st)

\* ---------------- bloom ----------------
BloomObs(s) == [f1 |-> s.f1, f2 |-> s.f2]
BloomInsert(f, k) == kind = "bloom" /\ LET s1 == IF f = 1 THEN [st EXCEPT !.f1 = @ \cup {k}] ELSE [st EXCEPT !.f2 = @ \cup {k}]
                                       IN Step([a |-> "insert", f |-> f, k |-> k, exp |-> BloomObs(s1)], s1)
BloomMerge == kind = "bloom" /\ LET s1 == [st EXCEPT !.f1 = @ \cup st.f2] IN Step([a |-> "merge", exp |-> BloomObs(s1)], s1)
BloomClone == kind = "bloom" /\ LET s1 == [st EXCEPT !.f2 = st.f1] IN Step([a |-> "clone", exp |-> BloomObs(s1)], s1)
BloomRebuild(f) == kind = "bloom" /\ Step([a |-> "rebuild", f |-> f, exp |-> BloomObs(st)], st)

\* ---------------- radix ----------------
Dom(m) == {x \in RK : m[x] # 0}
RadixObs(m, ret) == [get |-> {[k |-> x, v |-> m[x]] : x \in Dom(m)}, len |-> Cardinality(Dom(m)),
                     has |-> Dom(m) # {},
                     min |-> IF Dom(m) = {} THEN <<>> ELSE MinKey(Dom(m)),
                     max |-> IF Dom(m) = {} THEN <<>> ELSE MaxKey(Dom(m)),
                     ret |-> ret]
RadixInsert(k) == kind = "radix" /\
   LET isNew == st.m[k] = 0
       m1 == IF isNew THEN [st.m EXCEPT ![k] = N] ELSE st.m
   IN Step([a |-> "insert", key |-> k, v |-> N, exp |-> RadixObs(m1, [v |-> m1[k], inserted |-> isNew])], [m |-> m1])
RadixDeletePrefix(p) == kind = "radix" /\
   LET gone == {x \in Dom(st.m) : IsPrefix(p, x)}
       m1 == [x \in RK |-> IF x \in gone THEN 0 ELSE st.m[x]]
   IN Step([a |-> "delprefix", key |-> p, exp |-> RadixObs(m1, [n |-> Cardinality(gone)])], [m |-> m1])

\* ---------------- idset ----------------
IdObs(s, ret) == [a |-> s.a, b |-> s.b, ret |-> ret]
Upd(which, v) == IF which = "a" THEN [st EXCEPT !.a = v] ELSE [st EXCEPT !.b = v]
Val(which) == IF which = "a" THEN st.a ELSE st.b
Other(which) == IF which = "a" THEN "b" ELSE "a"
IdRec(name, which, s1, ret) == [a |-> name, s |-> which, exp |-> IdObs(s1, ret)]
IdAdd(w, k) == kind = "idset" /\ LET s1 == Upd(w, Val(w) \cup {k}) IN Step([a |-> "add", s |-> w, k |-> k, exp |-> IdObs(s1, {})], s1)
IdRemove(w, k) == kind = "idset" /\ LET s1 == Upd(w, Val(w) \ {k}) IN Step([a |-> "remove", s |-> w, k |-> k, exp |-> IdObs(s1, {})], s1)
IdMerge(w) == kind = "idset" /\ Step(IdRec("merge", w, Upd(w, Val(w) \cup Val(Other(w))), {}), Upd(w, Val(w) \cup Val(Other(w))))   \* w.Merge(other)
IdMergeInPlace(w) == kind = "idset" /\ Step(IdRec("mergeinplace", w, Upd(w, Val(w) \cup Val(Other(w))), {}), Upd(w, Val(w) \cup Val(Other(w))))
IdDiff(w) == kind = "idset" /\ Step(IdRec("diff", w, Upd(w, Val(w) \ Val(Other(w))), {}), Upd(w, Val(w) \ Val(Other(w))))                   \* w.Diff(other): w = w \ other
IdAnd(w) == kind = "idset" /\ Step(IdRec("and", w, st, Val(w) \cap Val(Other(w))), st)                          \* w.And(other) -> new set
IdAndNot(w) == kind = "idset" /\ Step(IdRec("andnot", w, st, Val(w) \ Val(Other(w))), st)                       \* w.AndNot(other) -> new set
IdIntersects(w) == kind = "idset" /\ Step(IdRec("intersects", w, st, Val(w) \cap Val(Other(w)) # {}), st)
IdEquals(w) == kind = "idset" /\ Step(IdRec("equals", w, st, st.a = st.b), st)
IdClone(w) == kind = "idset" /\ Step(IdRec("clone", w, Upd(Other(w), Val(w)), {}), Upd(Other(w), Val(w)))   \* other = w.Clone()
IdRoundTrip(w) == kind = "idset" /\ Step(IdRec("roundtrip", w, st, Val(w)), st)   \* w = Unmarshal(WriteTo(w))
IdClear(w) == kind = "idset" /\ Step(IdRec("clear", w, Upd(w, {}), {}), Upd(w, {}))

Next == \/ \E k \in K : RhhPut(k)
        \/ RhhReset \/ RhhGrow
        \/ \E f \in 1..2, k \in K : BloomInsert(f, k)
        \/ BloomMerge \/ BloomClone
        \/ \E f \in 1..2 : BloomRebuild(f)
        \/ \E k \in RK : RadixInsert(k)
        \/ \E p \in RP : RadixDeletePrefix(p)
        \/ \E w \in {"a", "b"}, k \in K : IdAdd(w, k) \/ IdRemove(w, k)
        \/ \E w \in {"a", "b"} : IdMerge(w) \/ IdMergeInPlace(w) \/ IdDiff(w) \/ IdAnd(w) \/ IdAndNot(w)
                                 \/ IdIntersects(w) \/ IdEquals(w) \/ IdClone(w) \/ IdRoundTrip(w) \/ IdClear(w)

Spec == Init /\ [][Next]_vars

\* ---------------- sanity of the models themselves ----------------
TypeOK == /\ kind \in Kinds
          /\ kind = "rhh" => \A x \in K : st.m[x] \in 0..Len(hist)
          /\ kind = "bloom" => st.f1 \subseteq K /\ st.f2 \subseteq K
          /\ kind = "idset" => st.a \subseteq K /\ st.b \subseteq K
\* a map never loses a key without Reset; the last written value wins
RhhLastWriteWins == kind = "rhh" =>
   \A x \in K : LET puts == {i \in 1..Len(hist) : hist[i].a = "put" /\ hist[i].k = x}
                    resets == {i \in 1..Len(hist) : hist[i].a = "reset"}
                    lastReset == IF resets = {} THEN 0 ELSE CHOOSE i \in resets : \A j \in resets : j <= i
                    live == {i \in puts : i > lastReset}
                IN st.m[x] = IF live = {} THEN 0 ELSE CHOOSE i \in live : \A j \in live : j <= i
\* sorted-map facts: min <= every key <= max
RadixOrder == (kind = "radix" /\ Dom(st.m) # {}) =>
   \A x \in Dom(st.m) : (x = MinKey(Dom(st.m)) \/ LexLess(MinKey(Dom(st.m)), x)) /\ (x = MaxKey(Dom(st.m)) \/ LexLess(x, MaxKey(Dom(st.m))))
\* the observation logged with every idset step obeys the algebra it is named after
IdsetAlgebra == kind = "idset" => \A i \in 1..Len(hist) :
   LET r == hist[i] IN
   /\ r.a = "and" => r.exp.ret \subseteq r.exp.a /\ r.exp.ret \subseteq r.exp.b
   /\ r.a = "andnot" => r.exp.ret \cap (IF r.s = "a" THEN r.exp.b ELSE r.exp.a) = {}
=============================================================================
