----------------------------- MODULE StorageRead -----------------------------
(* Filter and group reads of the storage service across shards (C21).                                       *)
(*                                                                                                          *)
(* Data: NShards (2 or 3) shards with the disjoint time ranges [0,H), [H,2H), [2H,3H) (shard groups never   *)
(* overlap: C18, and                                                                                         *)
(* points are routed by time: C19); a dataset gives every series of a small pool a set of timestamps, each  *)
(* point living in the shard that owns its time.  A series is (measurement, host, region, field) with tag   *)
(* value 0 = "tag absent"; values are small integers whose order is the byte order of their concretisation. *)
(* Request: time range [lo,hi), a predicate over tags / _measurement / _field (=, !=, AND, OR; an absent   *)
(* tag reads as the empty string, literal 0), and for group reads a list of group keys or "group none".     *)
(*                                                                                                          *)
(* Contract layer (what C21 states)                                                                         *)
(*   FilterExp    every matching series with at least one point in range, once, with exactly its points in  *)
(*                range in time order (no drop, no duplicate across shards).                                *)
(*   GroupExp(gk) the same series partitioned by their values of the group keys, every series in exactly    *)
(*                one group, groups ordered by the tuple of key values, a missing key after every present   *)
(*                value (it is reported as "" in PartitionKeyVals); group none = one group.                 *)
(* Implementation layer (mirrors v1/services/storage + storage/reads)                                       *)
(*   Plan    Store.findShardIDs (shard groups overlapping the range, inclusive test as in meta) and          *)
(*           indexSeriesCursor: series keys of the selected shards x fields of the measurement in those     *)
(*           shards, filtered by the predicate (rows for key/field pairs without data exist).               *)
(*   Fetch   multiShardArrayCursors: per row the shard cursors are read one after the other (concatenated,  *)
(*           never merged), each restricted to [lo, hi-1].  A shard whose field set lacks the measurement's  *)
(*           field gives a nil cursor (skipped by createCursor / nextArrayCursor); a shard that has the      *)
(*           field but no point of THIS series in range gives a non-nil cursor whose first array is empty,   *)
(*           and *MultiShardArrayCursor.Next loops on to the following shard (a gap in a middle shard must   *)
(*           not end the series: needs three shards).                                                        *)
(*   Group   groupResultSet.groupBySort: rows that have points get the sort key <v1,\0,v2,\0,..> with 0xff   *)
(*           for a missing key, a stable sort (insertion sort below 12 rows), groups = runs of equal keys.  *)
(* Not modelled: regex predicates, field-value predicates, aggregates in ReadGroup, descending (last)       *)
(* optimisation.  The order of series inside a filter result or inside a group is not named by C21 and is    *)
(* compared as drift only (observed: series-key order).                                                     *)
EXTENDS Integers, Sequences, FiniteSets, TLC

CONSTANTS SeriesIdx,    \* indexes into Pool
          Patterns,     \* possible timestamp sets of a series
          RangeIdx,     \* indexes into RangeList (request ranges <<lo, hi>>)
          PredIdx,      \* indexes into Preds
          H,            \* shard k owns [(k-1)*H, k*H)
          NShards       \* 2 or 3

VARIABLES c, phase, exp, shards, rows, res, grp
vars == <<c, phase, exp, shards, rows, res, grp>>

\* pool in series-key order (measurement, then "host=.." before "region=..", then field)
Pool == << [m |-> 1, host |-> 1, region |-> 1, f |-> 1],
           [m |-> 1, host |-> 1, region |-> 1, f |-> 2],
           [m |-> 1, host |-> 2, region |-> 0, f |-> 1],
           [m |-> 1, host |-> 0, region |-> 2, f |-> 1],
           [m |-> 2, host |-> 1, region |-> 2, f |-> 2],
           [m |-> 2, host |-> 2, region |-> 1, f |-> 1] >>

\* with H = 4: everything, across the boundary, adjacent to it, one shard each, a single instant, nothing
\* 8..11 for three shards: everything, across both boundaries, adjacent to both, inside the middle shard
RangeList == << <<0, 8>>, <<2, 6>>, <<3, 5>>, <<0, 4>>, <<4, 8>>, <<1, 2>>, <<7, 8>>,
               <<0, 12>>, <<2, 10>>, <<3, 9>>, <<5, 7>> >>

Preds == << <<"true">>,
            <<"eq", "host", 1>>,
            <<"ne", "host", 1>>,
            <<"eq", "region", 0>>,
            <<"eq", "_field", 1>>,
            <<"eq", "_measurement", 1>>,
            <<"and", <<"eq", "host", 1>>, <<"eq", "_field", 2>>>>,
            <<"or", <<"eq", "host", 2>>, <<"eq", "region", 2>>>>,
            <<"and", <<"ne", "region", 1>>, <<"or", <<"eq", "_measurement", 2>>, <<"eq", "host", 2>>>>>>,
            <<"or", <<"eq", "_field", 2>>, <<"and", <<"eq", "host", 2>>, <<"ne", "_measurement", 2>>>>>>,
            <<"ne", "_field", 1>>,
            <<"eq", "host", 3>> >>

\* group-key lists; <<>> stands for GroupNone
GK == << <<"host">>, <<"region">>, <<"host", "region">>, <<"region", "host">>, <<"nosuch">>, <<"_field">>,
         <<"_measurement", "host">>, <<>> >>

Tag(r, k) == CASE k = "host" -> r.host [] k = "region" -> r.region [] k = "_field" -> r.f
               [] k = "_measurement" -> r.m [] OTHER -> 0
RECURSIVE Eval(_, _)
Eval(p, r) == CASE p[1] = "true" -> TRUE
                [] p[1] = "eq"   -> Tag(r, p[2]) = p[3]
                [] p[1] = "ne"   -> Tag(r, p[2]) # p[3]
                [] p[1] = "and"  -> Eval(p[2], r) /\ Eval(p[3], r)
                [] p[1] = "or"   -> Eval(p[2], r) \/ Eval(p[3], r)

RECURSIVE SortSet(_)
SortSet(S) == IF S = {} THEN <<>>
              ELSE LET m == CHOOSE x \in S : \A y \in S : x <= y IN <<m>> \o SortSet(S \ {m})
RECURSIVE Concat(_)
Concat(ss) == IF ss = <<>> THEN <<>> ELSE Head(ss) \o Concat(Tail(ss))

PointsOf(s, T) == LET ts == SortSet(T) IN [i \in 1..Len(ts) |-> [t |-> ts[i], v |-> 100 * s + ts[i]]]
Times(s) == IF s \in SeriesIdx THEN c.ds[s] ELSE {}

\* ------------------------------------------------------------------ contract
InRange(s) == {t \in Times(s) : c.lo <= t /\ t < c.hi}
Matching == {s \in SeriesIdx : Eval(c.pred, Pool[s]) /\ InRange(s) # {}}
FilterExpOf(M) == LET ss == SortSet(M) IN [i \in 1..Len(ss) |-> [s |-> ss[i], pts |-> PointsOf(ss[i], InRange(ss[i]))]]

KeyVals(r, gk) == [i \in 1..Len(gk) |-> Tag(r, gk[i])]
Rank(v) == IF v = 0 THEN 1000000 ELSE v          \* a missing key sorts after every present value
TupleLess(a, b) == \E i \in 1..Len(a) : (\A j \in 1..(i - 1) : a[j] = b[j]) /\ Rank(a[i]) < Rank(b[i])
RECURSIVE SortTuples(_)
SortTuples(S) == IF S = {} THEN <<>>
                 ELSE LET m == CHOOSE x \in S : \A y \in S \ {x} : TupleLess(x, y) IN <<m>> \o SortTuples(S \ {m})
GroupExpOf(M, gk) ==
  IF M = {} THEN <<>>
  ELSE LET ks == SortTuples({KeyVals(Pool[s], gk) : s \in M})
       IN [i \in 1..Len(ks) |-> [vals |-> ks[i], members |-> {s \in M : KeyVals(Pool[s], gk) = ks[i]}]]
FilterExp == FilterExpOf(Matching)
GroupExp(gk) == GroupExpOf(Matching, gk)
Expected == LET M == Matching IN [filter |-> FilterExpOf(M), groups |-> [g \in 1..Len(GK) |-> GroupExpOf(M, GK[g])]]

\* ------------------------------------------------------------------ implementation
ShardLo(k) == (k - 1) * H
ShardHi(k) == k * H
\* meta ShardGroupInfo.Overlaps(min, max) with max = the exclusive end of the request: an inclusive test
SelectedShards == SelectSeq([k \in 1..NShards |-> k], LAMBDA k : ShardLo(k) <= c.hi /\ ShardHi(k) > c.lo)
InShard(s, k) == {t \in Times(s) : ShardLo(k) <= t /\ t < ShardHi(k)}
KeyOf(r) == <<r.m, r.host, r.region>>
SidOf(r) == IF \E s \in SeriesIdx : Pool[s] = r THEN CHOOSE s \in SeriesIdx : Pool[s] = r ELSE 0

\* indexSeriesCursor over the selected shards: pool order is series-key order
SeriesRows(sh) ==
  LET inSel(s)  == \E i \in 1..Len(sh) : InShard(s, sh[i]) # {}
      keys      == {KeyOf(Pool[s]) : s \in {x \in SeriesIdx : inSel(x)}}
      fields(m) == {Pool[s].f : s \in {x \in SeriesIdx : inSel(x) /\ Pool[x].m = m}}
      cand      == {[m |-> k[1], host |-> k[2], region |-> k[3], f |-> f] : k \in keys, f \in 1..2}
      live      == {r \in cand : r.f \in fields(r.m) /\ Eval(c.pred, r)}
      \* order: by first pool index with that key, then field
      ord(r)    == 10 * (CHOOSE s \in 1..Len(Pool) : KeyOf(Pool[s]) = KeyOf(r) /\ \A x \in 1..(s - 1) : KeyOf(Pool[x]) # KeyOf(r)) + r.f
      os        == SortSet({ord(r) : r \in live})
  IN [i \in 1..Len(os) |-> CHOOSE r \in live : ord(r) = os[i]]

\* multi-shard array cursor of one row: shard cursors one after the other
HasCursor(r, k) == \E s \in SeriesIdx : Pool[s].m = r.m /\ Pool[s].f = r.f /\ InShard(s, k) # {}    \* field set of shard k
ShardPoints(r, k) == LET s == SidOf(r) IN PointsOf(s, {t \in InShard(s, k) : c.lo <= t /\ t <= c.hi - 1})
RECURSIVE ReadShards(_, _)
ReadShards(r, sh) ==
  IF sh = <<>> THEN <<>>
  ELSE IF ~HasCursor(r, Head(sh)) THEN ReadShards(r, Tail(sh))           \* nil cursor: skipped
  ELSE ShardPoints(r, Head(sh)) \o ReadShards(r, Tail(sh))              \* drained or empty: Next() loops to the next shard
RowPoints(r, sh) == ReadShards(r, sh)

\* groupBySort / groupByNextGroup
SortKey(r, gk) == [i \in 1..Len(gk) |-> Rank(Tag(r, gk[i]))]          \* 0xff for a missing key
SeqLess(a, b) == \E i \in 1..Len(a) : (\A j \in 1..(i - 1) : a[j] = b[j]) /\ a[i] < b[i]
RECURSIVE InsertSorted(_, _, _)
InsertSorted(sorted, x, gk) ==        \* stable: x goes after every element that is not greater
  IF sorted = <<>> THEN <<x>>
  ELSE IF SeqLess(SortKey(x.r, gk), SortKey(Head(sorted).r, gk)) THEN <<x>> \o sorted
  ELSE <<Head(sorted)>> \o InsertSorted(Tail(sorted), x, gk)
RECURSIVE StableSort(_, _, _)
StableSort(xs, acc, gk) == IF xs = <<>> THEN acc ELSE StableSort(Tail(xs), InsertSorted(acc, Head(xs), gk), gk)
RECURSIVE Runs(_, _, _)
Runs(xs, gk, acc) ==
  IF xs = <<>> THEN acc
  ELSE LET k == SortKey(Head(xs).r, gk)
       IN IF acc # <<>> /\ acc[Len(acc)].key = k
          THEN Runs(Tail(xs), gk, [acc EXCEPT ![Len(acc)].members = Append(@, Head(xs).s)])
          ELSE Runs(Tail(xs), gk, Append(acc, [key |-> k, vals |-> KeyVals(Head(xs).r, gk), members |-> <<Head(xs).s>>]))
GroupImpl(rs, gk) ==
  LET live == SelectSeq(rs, LAMBDA x : x.pts # <<>>)        \* seriesHasPoints
  IN IF live = <<>> THEN <<>>
     ELSE IF gk = <<>> THEN <<[key |-> <<>>, vals |-> <<>>, members |-> [i \in 1..Len(live) |-> live[i].s]]>>
     ELSE Runs(StableSort(live, <<>>, gk), gk, <<>>)

\* ------------------------------------------------------------------ state machine
Init ==
  /\ \E ds \in [SeriesIdx -> Patterns], ri \in RangeIdx, p \in PredIdx :
        c = [ds |-> ds, lo |-> RangeList[ri][1], hi |-> RangeList[ri][2], pi |-> p, pred |-> Preds[p],
             pool |-> [s \in SeriesIdx |-> Pool[s]], gks |-> GK, h |-> H, n |-> NShards]
  /\ phase = "init" /\ exp = <<>> /\ shards = <<>> /\ rows = <<>> /\ res = <<>> /\ grp = <<>>

Expect == /\ phase = "init" /\ phase' = "plan"
          /\ exp' = Expected
          /\ UNCHANGED <<c, shards, rows, res, grp>>
Plan ==   /\ phase = "plan" /\ phase' = "fetch"
          /\ shards' = SelectedShards
          /\ rows' = SeriesRows(SelectedShards)
          /\ UNCHANGED <<c, exp, res, grp>>
Fetch ==  /\ phase = "fetch" /\ phase' = "group"
          /\ res' = [i \in 1..Len(rows) |-> [r |-> rows[i], s |-> SidOf(rows[i]), pts |-> RowPoints(rows[i], shards)]]
          /\ UNCHANGED <<c, exp, shards, rows, grp>>
Group ==  /\ phase = "group" /\ phase' = "done"
          /\ grp' = [g \in 1..Len(GK) |-> GroupImpl(res, GK[g])]
          /\ UNCHANGED <<c, exp, shards, rows, res>>
Next == Expect \/ Plan \/ Fetch \/ Group
Spec == Init /\ [][Next]_vars

\* ------------------------------------------------------------------ properties checked by TLC
Range(f) == {f[i] : i \in DOMAIN f}
FilterObs == LET live == SelectSeq(res, LAMBDA x : x.pts # <<>>) IN [i \in 1..Len(live) |-> [s |-> live[i].s, pts |-> live[i].pts]]
\* each matching series once, exactly its points in range in order
FilterContract == phase \in {"group", "done"} =>
                     /\ Range(FilterObs) = Range(exp.filter)
                     /\ Len(FilterObs) = Len(exp.filter)
\* partition of the same series by group-key values, ordered by group key (members compared as sets)
GroupObs(g) == [i \in 1..Len(grp[g]) |-> [vals |-> grp[g][i].vals, members |-> Range(grp[g][i].members)]]
GroupContract == phase = "done" =>
                    \A g \in 1..Len(GK) :
                       /\ GroupObs(g) = exp.groups[g]
                       /\ \A i \in 1..Len(grp[g]) : Len(grp[g][i].members) = Cardinality(Range(grp[g][i].members))
\* every series of the filter result is in exactly one group
Partition == phase = "done" =>
                \A g \in 1..Len(GK) : \A x \in Range(exp.filter) :
                    Cardinality({i \in 1..Len(grp[g]) : x.s \in Range(grp[g][i].members)}) = 1
=============================================================================
