\* C10 design check: repaired design (deletions logged, later record wins on replay), one writer: every contract invariant must hold
SPECIFICATION Spec
CONSTANTS
  Mode = "hist"
  Meas = {"m1", "m2"}
  Fields = {"f1", "f2"}
  Writers = {1}
  MaxOps = 3
  MaxBatch = 1
  LogDeletes = TRUE
  ReplayOverwrites = TRUE
  PointSetName = "all"
  NoMaint = FALSE
  UseIds = FALSE
  SchemaNames = {}
  VKs = {}
INVARIANTS TypeOK SingleType StoredMatchesSchema SchemaDurable DropIsDurable
VIEW View
CHECK_DEADLOCK FALSE
