SPECIFICATION Spec
CONSTANTS
  MaxBatches = 3
  MaxScript = 4
  Resps = {"204", "timeout", "429", "429ra7", "400", "404", "500"}
  Drops = {TRUE, FALSE}
  Attempts0 = {0}
  MaxAges = {1}
  MaxTicks = 2
  SegCap = 2
  PeriodicAdv = FALSE
  PeriodicFix = TRUE
  EnqAnywhere = TRUE
  Record = FALSE
  MaxPre = 1
INVARIANTS TypeOK OnlyLegalRemovals AcceptedOnly204InOrder DropOnly400 PurgeOnlyOld QueueInOrder PostInOrder WaitFollowsRule NoStrandedBatch
VIEW View
CHECK_DEADLOCK FALSE
