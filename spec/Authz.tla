------------------------------- MODULE Authz -------------------------------
(* Constant-level operators shared by AuthzPerm.tla (C28) and AuthzSvc.tla (C29).                          *)
(*                                                                                                          *)
(* A permission / request is a record  [act, typ, org, id]                                                  *)
(*   act in {"read","write"}, typ a resource type name, org and id in 0..n with 0 = "not set" (nil).        *)
(* Org ids and resource ids are abstract: only equality matters; the Go driver concretises them.            *)
(*                                                                                                          *)
(* Implementation layer: Matches / Allowed, transcribed branch by branch from                               *)
(*   /repo/authz.go  Permission.matchesV1 (l.232)  and  PermissionAllowed / PermissionSet.Allowed (l.37,217)*)
(* Contract layer (C28): GrantAllowed (the "only if" of the statement), MustGrant (the converse, only on   *)
(*   the three unambiguous grant forms), and the two named corollaries.                                     *)
EXTENDS Integers, Sequences, FiniteSets

Nil == 0
Instance == "instance"
Actions == {"read", "write"}

\* ------------------------------------------------------------------ implementation layer
\* func (p Permission) matchesV1(perm Permission) bool
Matches(p, r) ==
  IF p.act # r.act THEN FALSE                               \* if p.Action != perm.Action { return false }
  ELSE IF p.typ = Instance THEN TRUE                        \* if p.Resource.Type == InstanceResourceType { return true }
  ELSE IF p.typ # r.typ THEN FALSE                          \* if p.Resource.Type != perm.Resource.Type { return false }
  ELSE IF p.org = Nil /\ p.id = Nil THEN TRUE               \* type-wide
  ELSE IF p.org # Nil /\ p.id = Nil /\ r.org # Nil /\ p.org = r.org THEN TRUE     \* org-scoped, no ID
  ELSE IF p.id # Nil /\ r.id # Nil /\ p.id = r.id THEN TRUE                       \* names the resource ID
  ELSE FALSE

\* func PermissionAllowed(perm Permission, ps []Permission) bool   (ps: a sequence or a set)
AllowedSeq(ps, r) == \E i \in 1..Len(ps) : Matches(ps[i], r)
AllowedSet(ps, r) == \E p \in ps : Matches(p, r)

\* ------------------------------------------------------------------ contract layer (C28)
\* "A permission grants a request only if the actions are equal and the permission is instance-wide, or has
\*  the same resource type and is either type-wide, scoped to the request's organization, or names the
\*  requested resource ID."
InstanceWide(p)  == p.typ = Instance
TypeWide(p)      == p.org = Nil /\ p.id = Nil
ScopedToOrgOf(p, r) == p.org # Nil /\ p.org = r.org
NamesIdOf(p, r)  == p.id # Nil /\ p.id = r.id
GrantAllowed(p, r) ==
  /\ p.act = r.act
  /\ \/ InstanceWide(p)
     \/ /\ p.typ = r.typ
        /\ (TypeWide(p) \/ ScopedToOrgOf(p, r) \/ NamesIdOf(p, r))

\* converse, only where the statement is unambiguous: instance-wide, type-wide, org-scoped WITHOUT id, id-named.
\* (a permission carrying both org and id is unspecified for same-org / different-id requests)
MustGrant(p, r) ==
  /\ p.act = r.act
  /\ \/ InstanceWide(p)
     \/ /\ p.typ = r.typ
        /\ \/ TypeWide(p)
           \/ (p.org # Nil /\ p.id = Nil /\ p.org = r.org)
           \/ NamesIdOf(p, r)

\* "an organization-scoped permission": scoped by organization and not naming a single resource
OrgScoped(p) == p.typ # Instance /\ p.org # Nil /\ p.id = Nil
=============================================================================
