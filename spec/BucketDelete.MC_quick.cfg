SPECIFICATION Spec
CONSTANTS
  Series = {1, 2}
  Times = {1, 2, 3}
  Preds <- PredsMCq
  Ranges <- RangesMCq
  InitFam <- FamMC
  Inits <- InitsMCq3
  WTimeSets <- WTimeSetsMC
  NWriters = 2
  MaxWrites = 2
  PlanMode = FALSE
  KeepHist = FALSE
  HookGran = FALSE
INVARIANTS TypeOK ExactData MetadataExact NonConflictingWriteNeverBlocked NonConflictingWriteEnabled DeleteWaitsForEarlierWriters ConflictingWriteWaits
VIEW View
