---------------------------- MODULE CredPassword ----------------------------
(* C44, first sentence - "a user's password check succeeds only for the password most recently set,        *)
(* including after a compare-and-set change".                                                               *)
(*                                                                                                          *)
(* Implementation layer: tenant.UserSvc  SetPassword / ComparePassword / CompareAndSetPassword / DeleteUser *)
(* (tenant/service_user.go:200-280): one stored hash per user, overwritten by SetPassword; ComparePassword *)
(* and the compare half of CompareAndSetPassword read the user, then the hash; a missing user is            *)
(* "incorrect user", a missing hash "incorrect password"; DeleteUser removes the hash in the same           *)
(* transaction.  One action per service call (one KV transaction each; CompareAndSet = View then Update).   *)
(* Contract layer: Latest(u, h) - the password of the last successful set in the history h, computed from   *)
(* the history alone; ComparePassword(u, p) succeeds  <=>  p = Latest.                                      *)
(* Passwords are abstract ids (0 = none); the bcrypt hash is an abstract injective function - the driver    *)
(* concretises ids into strings (shared prefixes, 72-byte boundary, unicode ...).                           *)
EXTENDS Integers, Sequences, TLC

CONSTANTS Users,      \* e.g. {1, 2}
          MainUser,   \* the user that gets every operation; the others only Set/Compare (isolation between users)
          Pws,        \* passwords that may be set, e.g. {1, 2}
          OtherPws,   \* passwords the other users may set (a subset of Pws; keeps the history count down)
          Wrong,      \* a password id that is never set (only offered to Compare / as `old`)
          MaxOps

VARIABLES pw,     \* user -> stored password id (0 = no hash stored)
          live,   \* users that exist
          hist
vars == <<pw, live, hist>>

None == 0

Init == /\ pw = [u \in Users |-> None]
        /\ live = Users
        /\ hist = <<>>

CanStep == Len(hist) < MaxOps
Log(rec) == hist' = Append(hist, rec)

\* SetPassword: strength check (driver uses admissible passwords), hash, then Update{ GetUser -> EIncorrectUser ; put }
SetPassword(u, p) ==
  /\ CanStep
  /\ IF u \in live
     THEN /\ pw' = [pw EXCEPT ![u] = p] /\ UNCHANGED live
          /\ Log([a |-> "Set", u |-> u, p |-> p, exp |-> [ok |-> TRUE]])
     ELSE /\ UNCHANGED <<pw, live>>
          /\ Log([a |-> "Set", u |-> u, p |-> p, exp |-> [ok |-> FALSE]])

\* comparePasswordNoStrengthCheck
Matches(u, p) == u \in live /\ pw[u] # None /\ pw[u] = p

ComparePassword(u, p) ==
  /\ CanStep
  /\ UNCHANGED <<pw, live>>
  /\ Log([a |-> "Compare", u |-> u, p |-> p, exp |-> [ok |-> Matches(u, p)]])

\* CompareAndSetPassword: compare old, then SetPassword(new)
CompareAndSet(u, old, new) ==
  /\ CanStep
  /\ IF Matches(u, old)
     THEN /\ pw' = [pw EXCEPT ![u] = new] /\ UNCHANGED live
          /\ Log([a |-> "CAS", u |-> u, old |-> old, p |-> new, exp |-> [ok |-> TRUE]])
     ELSE /\ UNCHANGED <<pw, live>>
          /\ Log([a |-> "CAS", u |-> u, old |-> old, p |-> new, exp |-> [ok |-> FALSE]])

\* DeleteUser removes the stored hash with the user
DeleteUser(u) ==
  /\ CanStep /\ u \in live
  /\ live' = live \ {u} /\ pw' = [pw EXCEPT ![u] = None]
  /\ Log([a |-> "DeleteUser", u |-> u, exp |-> [ok |-> TRUE]])

Next ==
  \/ \E p \in Pws : SetPassword(MainUser, p)
  \/ \E u \in Users \ {MainUser}, p \in OtherPws : SetPassword(u, p)
  \/ \E p \in Pws \cup {Wrong} : ComparePassword(MainUser, p)
  \/ \E u \in Users \ {MainUser}, p \in Pws : ComparePassword(u, p)
  \/ \E old \in Pws \cup {Wrong}, new \in Pws : CompareAndSet(MainUser, old, new)
  \/ DeleteUser(MainUser)

Spec == Init /\ [][Next]_vars

\* ------------------------------------------------------------------ contract, computed from the history alone
RECURSIVE Latest(_, _)
Latest(u, h) ==
  IF h = <<>> THEN None
  ELSE LET r == h[Len(h)] IN
       IF r.u = u /\ r.a = "DeleteUser" THEN None
       ELSE IF r.u = u /\ r.a \in {"Set", "CAS"} /\ r.exp.ok THEN r.p
       ELSE Latest(u, SubSeq(h, 1, Len(h) - 1))

\* "succeeds only for the password most recently set" (and for it, it does)
CompareOnlyLatest ==
  \A i \in 1..Len(hist) :
     hist[i].a = "Compare" => (hist[i].exp.ok <=> (Latest(hist[i].u, SubSeq(hist, 1, i - 1)) = hist[i].p /\ hist[i].p # None))
\* a compare-and-set goes through only when `old` is the current password, and a refused one changes nothing
CASOnlyWithCurrent ==
  \A i \in 1..Len(hist) :
     hist[i].a = "CAS" => (hist[i].exp.ok <=> Latest(hist[i].u, SubSeq(hist, 1, i - 1)) = hist[i].old /\ hist[i].old # None)
StoredIsLatest == \A u \in Users : pw[u] = Latest(u, hist)
NeverSetNeverMatches == \A i \in 1..Len(hist) : (hist[i].a = "Compare" /\ hist[i].p = Wrong) => ~hist[i].exp.ok
=============================================================================
