SPECIFICATION Spec
CONSTANTS
  Keys = {"k1", "k2"}
  Times = {1, 2, 3}
  SegSize = 4
  Menu <- MenuQuick
  MaxOps = 4
  MaxEntries = 2
  MaxPending = 2
  HoleQuirk = FALSE
  Record = TRUE
INVARIANTS TypeOK
CHECK_DEADLOCK FALSE
