SPECIFICATION Spec
CONSTANTS
  Keys = {"k1", "k2"}
  Times = {0}
  Types = {"n", "b"}
  Threads = {"w1", "w2", "s1", "d1", "r1"}
  Writers = {"w1", "w2"}
  Snappers = {"s1"}
  Deleters = {"d1"}
  Readers = {"r1"}
  Limit = 60
  Sequential = FALSE
  SplitLoads = FALSE
  Fused = TRUE
  BKeys = {"k1"}
  PerWriter = 1
  RandomPick = FALSE
  Rich = FALSE
  MaxWrites = 2
  MaxSnaps = 1
  MaxDeletes = 1
  MaxReads = 1
  MaxSizes = 0
  MaxOps = 4
INVARIANTS ValuesContract SizeAccounting PresenceOK CountersNonNegative EntriesTyped
PROPERTIES RejectedStoresNothing TypeConflictOneKey WriteOutcomeStep LimitStep
VIEW View
CHECK_DEADLOCK FALSE
