SPECIFICATION Spec
CONSTANTS
  Series = {1, 2, 3}
  Times = {1, 2, 3}
  Preds <- PredsAll
  Ranges <- RangesAll
  InitFam <- Fam3
  Inits <- InitsAny
  WTimeSets <- WTimeSetsAll
  NWriters = 0
  MaxWrites = 0
  PlanMode = FALSE
  KeepHist = FALSE
  HookGran = FALSE
INVARIANTS TypeOK ExactData MetadataExact
VIEW View
