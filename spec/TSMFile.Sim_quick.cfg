SPECIFICATION Spec
CONSTANTS
  NK = 3
  MaxT = 2
  Files <- TombQuick
  MaxOps = 4
  CrashPts <- CrashSome
  KeepPts <- KeepSome
  KeepHist = TRUE
  Mode = "tomb"
INVARIANTS EmitMaximal
CHECK_DEADLOCK FALSE
