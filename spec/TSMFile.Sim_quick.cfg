SPECIFICATION Spec
CONSTANTS
  NK = 3
  MaxT = 2
  Files <- TombQuick
  MaxOps = 3
  CrashPts <- CrashSome
  KeepHist = TRUE
  Mode = "tomb"
INVARIANTS EmitMaximal
CHECK_DEADLOCK FALSE
