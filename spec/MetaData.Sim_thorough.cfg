\* Simulation: random behaviours of the model with the quirks of the code; refused and idle operations are steps too.
\* Names and durations together (checks/XMETA.py passes -simulate num=.. -depth ..).
SPECIFICATION Spec
CONSTANTS
  DBs = {"d1", "d2"}
  RPs = {"autogen", "r2", "r3"}
  WithEmptyDB = TRUE
  CDurs = {0, 1, 5, 6, 10}
  CSGDs = {0, 1, 4}
  CReps = {0, 1, 2}
  XNames = {"", "r2"}
  XDurs = {99, 0, 6}
  XSGDs = {0, 4}
  XReps = {99}
  UNames = {"-", "", "autogen", "r2", "r3"}
  UDurs = {99, 0, 1, 2, 9}
  USGDs = {99, 0, 1, 4}
  UFull = FALSE
  AutoCreate = TRUE
  MaxSG = 2
  MaxOps = 20
  Record = TRUE
  Probing = FALSE
  NoOpSteps = TRUE
  DropKeepsDefault = TRUE
  RenameKeepsDefault = TRUE
  HalfYearIsLong = TRUE
  RenameAcceptsEmpty = TRUE
INVARIANTS Inv_ShardGroups Inv_Durations
CHECK_DEADLOCK FALSE
