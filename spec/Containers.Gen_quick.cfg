SPECIFICATION Spec
CONSTANTS
  Kinds = {"rhh", "bloom", "radix", "idset"}
  MaxRhh = 5
  MaxBloom = 4
  MaxRadix = 4
  MaxIdset = 3
INVARIANTS TypeOK RhhLastWriteWins RadixOrder IdsetAlgebra
CHECK_DEADLOCK FALSE
