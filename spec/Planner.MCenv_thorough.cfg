SPECIFICATION Spec
CONSTANTS
  MaxGens = 2
  MinInit = 1
  Lvls = {1, 2, 3, 4}
  Shapes <- ShapesAll
  Tombs = {TRUE, FALSE}
  MaxEnv = 2
  OutShapes <- ShapesTwo
  KeepHist = FALSE
  MaxHist = 0
  NoIdle = FALSE
INVARIANTS TypeOK InUseIsHeld HeldPairwiseDisjoint
PROPERTIES HandOutOK
VIEW View
CHECK_DEADLOCK FALSE
