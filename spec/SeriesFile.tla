---------------------------- MODULE SeriesFile ----------------------------
(* tsdb.SeriesFile: series key <-> series id (C13).                                                    *)
(*                                                                                                      *)
(* Implementation layer (per partition p; the real file has 8, ids of partition p are p+1+8n):          *)
(*   segs[p]  durable log: sequence of segments, each a sequence of entries  Insert(id,key) | Tomb(id)   *)
(*   snap[p]  durable index snapshot written by the compactor (header maxID/maxOff + the two maps)       *)
(*   seq[p], mem[p]  volatile: next id, in-memory keyIDMap / idOffsetMap / tombstones since the snapshot *)
(*   comp[p]  the compactor's private clone between its two critical sections                            *)
(* Actions = critical sections of series_partition.go: CreateList (both passes of                        *)
(* CreateSeriesListIfNotExists, per partition), Delete, SegmentRoll (createSegment on a full segment),   *)
(* CompactBegin / CompactEnd (RLock clone; Lock swap+Recover), Reopen (Close+Open: openSegments          *)
(* recomputes seq from the max insert id, SeriesIndex.Open reads the snapshot, Recover replays the log  *)
(* after maxOff), CrashCreate (a create in flight: per partition a prefix of its new entries persisted,  *)
(* the next one possibly torn at field granularity; then recovery).                                      *)
(* Contract layer (exactly what C13 names): cur (key -> id as observed through SeriesID / create),       *)
(* issued (every id ever exposed).  StableID, Injective, NeverReused, CrashPreservesCreated below.       *)
EXTENDS Integers, Sequences, FiniteSets, TLC

CONSTANTS PA, PB,            \* the two partition numbers modelled (PB = PA: one partition)
          KA, KB,            \* keys that hash to PA / PB (disjoint sets of strings)
          Prefill,           \* filler series per partition created and acknowledged before the history starts
          MaxOps, MaxBatch, MaxRolls, MaxCompactions, MaxCrashes,
          TwoPhaseCompact,   \* TRUE: other actions may run between the compactor's two critical sections
          EmptyKeyEndsLog,   \* TRUE: an insert entry with zero key length ends the log (repair of F7); FALSE: code as found
          Tears              \* torn forms CrashCreate explores, subset of {"none","id7","id8","key"}

VARIABLES segs, snap, seq, mem, comp,     \* implementation
          cur, issued,                    \* contract
          nops, nroll, ncomp, ncrash,     \* bounds
          hist

vars == <<segs, snap, seq, mem, comp, cur, issued, nops, nroll, ncomp, ncrash, hist>>

N == 8
Parts == {PA, PB}
Keys == KA \cup KB
Part(k) == IF k \in KA THEN PA ELSE PB
PartOfID(id) == (id - 1) % N
Max2(a, b) == IF a > b THEN a ELSE b
SetMax(S) == CHOOSE x \in S : \A y \in S : y <= x
Range(s) == {s[i] : i \in DOMAIN s}

Ins(id, k) == [t |-> "ins", id |-> id, key |-> k]
Tomb(id) == [t |-> "tomb", id |-> id, key |-> ""]
FillKey(p, i) == "f" \o ToString(p) \o "_" \o ToString(i)
FillID(p, i) == p + 1 + N * (i - 1)
Fillers(p) == [i \in 1..Prefill |-> Ins(FillID(p, i), FillKey(p, i))]
FillPairs == {<<FillKey(p, i), FillID(p, i)>> : p \in Parts, i \in 1..Prefill}

\* offsets: segment index (1-based) * 1000 + position in segment (1-based); numeric order = log order
Off(s, i) == s * 1000 + i
EntryAt(ss, off) == ss[off \div 1000][off % 1000]
RECURSIVE FlatFrom(_, _)
FlatFrom(ss, s) == IF s > Len(ss) THEN <<>>
                   ELSE [i \in 1..Len(ss[s]) |-> [e |-> ss[s][i], off |-> Off(s, i)]] \o FlatFrom(ss, s + 1)
Flat(ss) == FlatFrom(ss, 1)
AppendEntry(ss, e) == [ss EXCEPT ![Len(ss)] = Append(@, e)]
NextOff(ss) == Off(Len(ss), Len(ss[Len(ss)]) + 1)

\* finite maps as sets of pairs (rhh Put / Go map assignment overwrite)
GetPair(S, a) == IF \E pr \in S : pr[1] = a THEN (CHOOSE pr \in S : pr[1] = a)[2] ELSE 0
PutPair(S, a, b) == {pr \in S : pr[1] # a} \cup {<<a, b>>}

NoSnap == [maxID |-> 0, maxOff |-> 0, ents |-> {}]
NoComp == [on |-> FALSE, tombs |-> {}, i2o |-> {}, maxOff |-> 0, snap |-> NoSnap]

\* ---------------- SeriesIndex lookups (series_index.go) ----------------
DiskOff(sn, id) == IF \E e \in sn.ents : e.id = id THEN (CHOOSE e \in sn.ents : e.id = id).off ELSE 0
DiskID(sn, ss, key) == IF \E e \in sn.ents : EntryAt(ss, e.off).key = key
                       THEN (CHOOSE e \in sn.ents : EntryAt(ss, e.off).key = key).id ELSE 0
FindOff(m, sn, id) == LET o == GetPair(m.i2o, id) IN IF o # 0 THEN o ELSE DiskOff(sn, id)
IsDeleted(m, sn, id) == id \in m.tombs \/ FindOff(m, sn, id) = 0
FindID(m, sn, ss, key) ==
  LET a == GetPair(m.k2i, key) IN
  IF a # 0 /\ ~IsDeleted(m, sn, a) THEN a
  ELSE LET d == DiskID(sn, ss, key) IN IF d # 0 /\ ~IsDeleted(m, sn, d) THEN d ELSE 0

\* execEntry
Exec(m, x) ==
  IF x.e.t = "ins"
  THEN [m EXCEPT !.k2i = PutPair(@, x.e.key, x.e.id), !.i2o = PutPair(@, x.e.id, x.off),
                 !.maxID = Max2(@, x.e.id), !.maxOff = Max2(@, x.off)]
  ELSE [m EXCEPT !.tombs = @ \cup {x.e.id}]
RECURSIVE Replay(_, _, _)
Replay(m, fl, after) == IF fl = <<>> THEN m
                        ELSE Replay(IF Head(fl).off > after THEN Exec(m, Head(fl)) ELSE m, Tail(fl), after)
\* SeriesIndex.Open + Recover
OpenMem(ss, sn) == Replay([k2i |-> {}, i2o |-> {}, tombs |-> {}, maxID |-> sn.maxID, maxOff |-> sn.maxOff],
                          Flat(ss), sn.maxOff)
\* openSegments: newest segment whose max insert id reaches the partition's first id decides seq
MaxIns(seg) == LET ids == {seg[i].id : i \in {j \in 1..Len(seg) : seg[j].t = "ins"}} IN
               IF ids = {} THEN 0 ELSE SetMax(ids)
RECURSIVE SeqFrom(_, _, _)
SeqFrom(p, ss, s) == IF s = 0 THEN p + 1
                     ELSE IF MaxIns(ss[s]) >= p + 1 THEN MaxIns(ss[s]) + N ELSE SeqFrom(p, ss, s - 1)
OpenSeq(p, ss) == SeqFrom(p, ss, Len(ss))

\* what SeriesFile.SeriesID / SeriesKey return in the current state
LookupID(k) == FindID(mem[Part(k)], snap[Part(k)], segs[Part(k)], k)
LookupKey(id) == LET p == PartOfID(id) IN
                 IF p \notin Parts THEN ""
                 ELSE LET o == FindOff(mem[p], snap[p], id) IN IF o = 0 THEN "" ELSE EntryAt(segs[p], o).key

\* ---------------- contract ----------------
Obs(c) == [ids |-> c]
Log(rec) == hist' = Append(hist, rec) /\ nops' = nops + 1
Quiet == \A p \in Parts : ~comp[p].on      \* no compaction between its two critical sections

Init == /\ segs = [p \in Parts |-> <<Fillers(p)>>]
        /\ snap = [p \in Parts |-> NoSnap]
        /\ seq = [p \in Parts |-> OpenSeq(p, <<Fillers(p)>>)]
        /\ mem = [p \in Parts |-> OpenMem(<<Fillers(p)>>, NoSnap)]
        /\ comp = [p \in Parts |-> NoComp]
        /\ cur = [k \in Keys |-> 0]
        /\ issued = {pr[2] : pr \in FillPairs}
        /\ nops = 0 /\ nroll = 0 /\ ncomp = 0 /\ ncrash = 0
        /\ hist = <<>>

Batches == UNION {[1..n -> Keys] : n \in 1..MaxBatch}

\* CreateSeriesListIfNotExists in partition p: ids of existing keys, duplicates inside the batch share the new id,
\* new keys are appended to the log (id = seq, seq += 8); the index is updated only after the flush.
RECURSIVE CreateIn(_, _, _, _)
CreateIn(p, batch, i, st) ==
  IF i > Len(batch) THEN st
  ELSE IF Part(batch[i]) # p THEN CreateIn(p, batch, i + 1, st)
  ELSE LET k == batch[i]
           ex == FindID(mem[p], snap[p], segs[p], k)
           dup == GetPair(st.new, k)
       IN IF ex # 0 THEN CreateIn(p, batch, i + 1, [st EXCEPT !.ret = PutPair(@, i, ex)])
          ELSE IF dup # 0 THEN CreateIn(p, batch, i + 1, [st EXCEPT !.ret = PutPair(@, i, dup)])
          ELSE CreateIn(p, batch, i + 1,
                 [ss |-> AppendEntry(st.ss, Ins(st.sq, k)), sq |-> st.sq + N,
                  new |-> st.new \cup {<<k, st.sq>>}, ret |-> PutPair(st.ret, i, st.sq),
                  added |-> Append(st.added, [e |-> Ins(st.sq, k), off |-> NextOff(st.ss)])])
CreateRes(p, batch) == CreateIn(p, batch, 1, [ss |-> segs[p], sq |-> seq[p], new |-> {}, ret |-> {}, added |-> <<>>])
RECURSIVE ExecAll(_, _)
ExecAll(m, xs) == IF xs = <<>> THEN m ELSE ExecAll(Exec(m, Head(xs)), Tail(xs))

CreateList(batch) ==
  /\ nops < MaxOps
  /\ LET resA == CreateRes(PA, batch)
         resB == IF PB = PA THEN resA ELSE CreateRes(PB, batch)
         retS == resA.ret \cup resB.ret
         ret == [i \in 1..Len(batch) |-> GetPair(retS, i)]
         cur1 == [k \in Keys |-> IF \E i \in 1..Len(batch) : batch[i] = k
                                 THEN ret[CHOOSE i \in 1..Len(batch) : batch[i] = k /\ \A j \in 1..Len(batch) : batch[j] = k => j <= i]
                                 ELSE cur[k]]
     IN /\ segs' = [p \in Parts |-> IF p = PA THEN resA.ss ELSE resB.ss]
        /\ seq' = [p \in Parts |-> IF p = PA THEN resA.sq ELSE resB.sq]
        /\ mem' = [p \in Parts |-> ExecAll(mem[p], IF p = PA THEN resA.added ELSE resB.added)]
        /\ cur' = cur1
        /\ issued' = issued \cup Range(ret)
        /\ Log([a |-> "create", keys |-> batch, ret |-> ret, exp |-> Obs(cur1)])
  /\ UNCHANGED <<snap, comp, nroll, ncomp, ncrash>>

\* exposed ids that belong(ed) to a key of the history (prefill and roll fillers are never deleted)
KeyIDs == {id \in issued : \E p \in Parts : \E s \in 1..Len(segs[p]) : \E i \in 1..Len(segs[p][s]) :
                            segs[p][s][i].t = "ins" /\ segs[p][s][i].id = id /\ segs[p][s][i].key \in Keys}

\* DeleteSeriesID: no-op when already deleted, else tombstone entry + in-memory tombstone
Delete(id) ==
  /\ nops < MaxOps
  /\ id \in KeyIDs /\ PartOfID(id) \in Parts
  /\ LET p == PartOfID(id)
         cur1 == [k \in Keys |-> IF cur[k] = id THEN 0 ELSE cur[k]]
     IN /\ IF IsDeleted(mem[p], snap[p], id)
           THEN UNCHANGED <<segs, mem>>
           ELSE /\ segs' = [segs EXCEPT ![p] = AppendEntry(@, Tomb(id))]
                /\ mem' = [mem EXCEPT ![p].tombs = @ \cup {id}]
        /\ cur' = cur1
        /\ Log([a |-> "delete", id |-> id, exp |-> Obs(cur1)])
  /\ UNCHANGED <<snap, seq, comp, issued, nroll, ncomp, ncrash>>

\* the active segment is full: createSegment, and the entry that did not fit (a filler series) goes to the new segment
SegmentRoll(p) ==
  /\ nops < MaxOps /\ nroll < MaxRolls
  /\ segs[p][Len(segs[p])] # <<>>
  /\ LET id == seq[p]
         e == Ins(id, "r" \o ToString(id))
         ss1 == Append(segs[p], <<e>>)
     IN /\ segs' = [segs EXCEPT ![p] = ss1]
        /\ seq' = [seq EXCEPT ![p] = id + N]
        /\ mem' = [mem EXCEPT ![p] = Exec(@, [e |-> e, off |-> Off(Len(ss1), 1)])]
        /\ issued' = issued \cup {id}
  /\ nroll' = nroll + 1
  /\ Log([a |-> "roll", p |-> p, exp |-> Obs(cur)])
  /\ UNCHANGED <<snap, comp, cur, ncomp, ncrash>>

\* the active segment is full and the entry that does not fit is a TOMBSTONE: the new segment starts with it and holds no
\* insert entry (openSegments must then find the max series id in an older segment)
DeleteRoll(id) ==
  /\ nops < MaxOps /\ nroll < MaxRolls
  /\ id \in KeyIDs /\ PartOfID(id) \in Parts
  /\ LET p == PartOfID(id)
         cur1 == [k \in Keys |-> IF cur[k] = id THEN 0 ELSE cur[k]]
     IN /\ ~IsDeleted(mem[p], snap[p], id)
        /\ segs[p][Len(segs[p])] # <<>>
        /\ segs' = [segs EXCEPT ![p] = Append(@, <<Tomb(id)>>)]
        /\ mem' = [mem EXCEPT ![p].tombs = @ \cup {id}]
        /\ cur' = cur1
        /\ Log([a |-> "deleteroll", id |-> id, exp |-> Obs(cur1)])
  /\ nroll' = nroll + 1
  /\ UNCHANGED <<snap, seq, comp, issued, ncomp, ncrash>>

\* crash right after the roll-over: the new segment file exists (created, synced, renamed) but the entry that did not
\* fit never reached it; volatile state is lost and the file is opened again with an EMPTY newest segment
CrashRoll(p) ==
  /\ nops < MaxOps /\ nroll < MaxRolls /\ ncrash < MaxCrashes
  /\ segs[p][Len(segs[p])] # <<>>
  /\ LET ss1 == [segs EXCEPT ![p] = Append(@, <<>>)]
     IN /\ segs' = ss1
        /\ seq' = [q \in Parts |-> OpenSeq(q, ss1[q])]
        /\ mem' = [q \in Parts |-> OpenMem(ss1[q], snap[q])]
  /\ comp' = [q \in Parts |-> NoComp]
  /\ nroll' = nroll + 1 /\ ncrash' = ncrash + 1
  /\ Log([a |-> "crashroll", p |-> p, exp |-> Obs(cur)])
  /\ UNCHANGED <<snap, cur, issued, ncomp>>

\* SeriesPartitionCompactor.Compact, first critical section (RLock): clone segments + index
Clone(p) == [on |-> TRUE, tombs |-> mem[p].tombs, i2o |-> mem[p].i2o, maxOff |-> mem[p].maxOff, snap |-> snap[p]]
\* compactIndexTo: every insert entry up to the cloned maxOffset; header = the LAST insert processed; deleted ids skipped
NewSnap(ss, cl) ==
  LET cm == [k2i |-> {}, i2o |-> cl.i2o, tombs |-> cl.tombs, maxID |-> 0, maxOff |-> cl.maxOff]
      fl == Flat(ss)
      insIdx == {i \in 1..Len(fl) : fl[i].e.t = "ins" /\ fl[i].off <= cl.maxOff}
      last == IF insIdx = {} THEN 0 ELSE SetMax(insIdx)
  IN [maxID |-> IF last = 0 THEN 0 ELSE fl[last].e.id,
      maxOff |-> IF last = 0 THEN 0 ELSE fl[last].off,
      ents |-> {[id |-> fl[i].e.id, off |-> fl[i].off] : i \in {j \in insIdx : ~IsDeleted(cm, cl.snap, fl[j].e.id)}}]
\* second critical section (Lock): rename, index.Open, Recover
Swap(p, cl) ==
  LET sn == NewSnap(segs[p], cl) IN
  /\ snap' = [snap EXCEPT ![p] = sn]
  /\ mem' = [mem EXCEPT ![p] = OpenMem(segs[p], sn)]

CompactBegin(p) ==
  /\ TwoPhaseCompact
  /\ nops < MaxOps /\ ncomp < MaxCompactions /\ ~comp[p].on
  /\ comp' = [comp EXCEPT ![p] = Clone(p)]
  /\ ncomp' = ncomp + 1
  /\ Log([a |-> "compactbegin", p |-> p, exp |-> Obs(cur)])
  /\ UNCHANGED <<segs, snap, seq, mem, cur, issued, nroll, ncrash>>
CompactEnd(p) ==
  /\ TwoPhaseCompact
  /\ comp[p].on
  /\ Swap(p, comp[p])
  /\ comp' = [comp EXCEPT ![p] = NoComp]
  /\ Log([a |-> "compactend", p |-> p, exp |-> Obs(cur)])
  /\ UNCHANGED <<segs, seq, cur, issued, nroll, ncomp, ncrash>>
CompactAtomic(p) ==
  /\ ~TwoPhaseCompact
  /\ nops < MaxOps /\ ncomp < MaxCompactions
  /\ Swap(p, Clone(p))
  /\ ncomp' = ncomp + 1
  /\ Log([a |-> "compact", p |-> p, exp |-> Obs(cur)])
  /\ UNCHANGED <<segs, seq, comp, cur, issued, nroll, ncrash>>

\* Close (waits for the compactor) + Open
Reopen ==
  /\ nops < MaxOps /\ Quiet
  /\ seq' = [p \in Parts |-> OpenSeq(p, segs[p])]
  /\ mem' = [p \in Parts |-> OpenMem(segs[p], snap[p])]
  /\ Log([a |-> "reopen", exp |-> Obs(cur)])
  /\ UNCHANGED <<segs, snap, comp, cur, issued, nroll, ncomp, ncrash>>

\* what recovery parses from a torn entry (the segment is preallocated: the unwritten rest reads as zeros)
\*   id7: flag + 7 id bytes   -> insert entry, id with the low byte zero, zero-length key
\*   id8: flag + all id bytes -> insert entry, the in-flight id, zero-length key
\*   key: header + part of key -> insert entry, the in-flight id, a garbage key
TornEntry(e, tear) ==
  IF tear = "key" THEN <<Ins(e.id, "?")>>
  ELSE IF EmptyKeyEndsLog THEN <<>>
  ELSE IF tear = "id7" THEN <<Ins((e.id \div 256) * 256, "")>>
  ELSE IF tear = "id8" THEN <<Ins(e.id, "")>>
  ELSE <<>>
RECURSIVE AppendAll(_, _)
AppendAll(ss, es) == IF es = <<>> THEN ss ELSE AppendAll(AppendEntry(ss, Head(es)), Tail(es))

\* a create is in flight when the process/machine dies: in every partition a prefix cut[p] of its new entries is
\* durable, in partition tp the next entry is torn as `tear`; nothing is acknowledged; then the file is opened again.
CrashCreate(batch) ==
  /\ nops < MaxOps /\ ncrash < MaxCrashes
  /\ LET resA == CreateRes(PA, batch)
         resB == IF PB = PA THEN resA ELSE CreateRes(PB, batch)
         newA == [i \in 1..Len(resA.added) |-> resA.added[i].e]
         newB == [i \in 1..Len(resB.added) |-> resB.added[i].e]
     IN /\ Len(newA) + Len(newB) > 0
        /\ \E cutA \in 0..Len(newA) : \E cutB \in (IF PA = PB THEN {cutA} ELSE 0..Len(newB)) :
           \E tt \in {<<PA, "none">>} \cup {<<PA, t>> : t \in IF cutA < Len(newA) THEN Tears \ {"none"} ELSE {}}
                                      \cup {<<PB, t>> : t \in IF PA # PB /\ cutB < Len(newB) THEN Tears \ {"none"} ELSE {}} :
           LET tp == tt[1]
               tear == tt[2]
               new == [p \in Parts |-> IF p = PA THEN newA ELSE newB]
               cut == [p \in Parts |-> IF p = PA THEN cutA ELSE cutB]
               ssOf(p) == AppendAll(segs[p], SubSeq(new[p], 1, cut[p])
                                            \o (IF p = tp /\ tear # "none" THEN TornEntry(new[p][cut[p] + 1], tear) ELSE <<>>))
               ssA == ssOf(PA)
               ssB == IF PB = PA THEN ssA ELSE ssOf(PB)
               ss1 == [p \in Parts |-> IF p = PA THEN ssA ELSE ssB]
               memA == OpenMem(ssA, snap[PA])
               memB == IF PB = PA THEN memA ELSE OpenMem(ssB, snap[PB])
               mem1 == [p \in Parts |-> IF p = PA THEN memA ELSE memB]
               cur1 == [k \in Keys |-> IF Part(k) = PA THEN FindID(memA, snap[PA], ssA, k) ELSE FindID(memB, snap[PB], ssB, k)]
           IN /\ segs' = ss1
              /\ seq' = [p \in Parts |-> OpenSeq(p, ss1[p])]
              /\ mem' = mem1
              /\ cur' = cur1
              /\ issued' = issued \cup {cur1[k] : k \in {x \in Keys : cur1[x] # 0}}
              /\ Log([a |-> "crashcreate", keys |-> batch, cutA |-> cutA, cutB |-> cutB, tp |-> tp, tear |-> tear,
                      exp |-> Obs(cur1)])
  /\ comp' = [p \in Parts |-> NoComp]
  /\ ncrash' = ncrash + 1
  /\ UNCHANGED <<snap, nroll, ncomp>>

\* constant bound of the ids a history can reach (lets TLC report Delete as an action of its own)
IDSpace == 1..(N * (Prefill + (MaxOps + 2) * MaxBatch + MaxRolls + 2))
Next == \/ \E b \in Batches : CreateList(b)
        \/ \E id \in IDSpace : Delete(id)
        \/ \E id \in IDSpace : DeleteRoll(id)
        \/ \E p \in Parts : CrashRoll(p)
        \/ \E p \in Parts : SegmentRoll(p) \/ CompactBegin(p) \/ CompactEnd(p) \/ CompactAtomic(p)
        \/ Reopen
        \/ \E b \in Batches : CrashCreate(b)

Spec == Init /\ [][Next]_vars

\* ---------------- properties (C13) ----------------
\* the implementation's lookups agree with what was acknowledged, both directions, fillers included
Agree == /\ \A k \in Keys : LookupID(k) = cur[k]
         /\ \A k \in Keys : cur[k] # 0 => LookupKey(cur[k]) = k
         /\ \A pr \in FillPairs : FindID(mem[PartOfID(pr[2])], snap[PartOfID(pr[2])], segs[PartOfID(pr[2])], pr[1]) = pr[2]
                                  /\ LookupKey(pr[2]) = pr[1]
Injective == \A k1, k2 \in Keys : (k1 # k2 /\ cur[k1] # 0) => cur[k1] # cur[k2]
IdsInPartition == \A k \in Keys : cur[k] # 0 => PartOfID(cur[k]) = Part(k)
\* a key keeps its id until exactly that id is deleted (covers reopen, compaction and CrashPreservesCreated)
StableID == [][\A k \in Keys : (cur[k] # 0 /\ cur'[k] # cur[k]) =>
                    (cur'[k] = 0 /\ hist'[Len(hist')].a \in {"delete", "deleteroll"} /\ hist'[Len(hist')].id = cur[k])]_vars
\* an id handed to a key is one that was never exposed before; exposed ids are never forgotten
NeverReused == [][/\ issued \subseteq issued'
                  /\ \A k \in Keys : (cur'[k] # cur[k] /\ cur'[k] # 0) => (cur'[k] \notin issued /\ cur'[k] \in issued')]_vars
\* duplicates inside one batch share an id
BatchDupShareID == [][hist' # hist /\ hist'[Len(hist')].a = "create" =>
                        LET r == hist'[Len(hist')] IN
                        \A i, j \in 1..Len(r.keys) : r.keys[i] = r.keys[j] => r.ret[i] = r.ret[j]]_vars

View == <<segs, snap, seq, mem, comp, cur, issued, nops, nroll, ncomp, ncrash>>
=============================================================================
