------------------------------ MODULE KVIndex ------------------------------
(* The generic secondary index of the kv layer (kv/index.go: Index.Insert / Delete / Walk / Verify, kv/index_migration.go: *)
(* IndexMigration.Up / Down / Populate) and its writers, with the user-resource-mapping index of tenant/storage_urm.go as  *)
(* the instance where the primary key embeds the foreign key.                                                              *)
(*                                                                                                                          *)
(* Implementation layer (what the code does).  Two buckets of one kv store:                                                 *)
(*   src  the source bucket, a set of <<pk, fk>> (primary key -> record; of the record only its foreign key matters),       *)
(*        functional in pk;                                                                                                  *)
(*   idx  the index bucket, a set of <<fk, pk>> (key fk ++ "/" ++ pk, value pk); it exists iff mig (IndexMigration.Up        *)
(*        creates it, Down deletes it);                                                                                      *)
(*   rd   the read path of the Index object in use (WithIndexReadPathEnabled).                                               *)
(* Operations (Apply is the transition function, written in the order of the code because the error a caller sees is       *)
(* part of the observation).  Every writer runs in ONE update transaction of the store:                                     *)
(*   put   source.Put(pk, rec(fk)) then, with ix, Index.Insert(fk, pk)      (order of tenant.Store.CreateURM)               *)
(*   del   with ix Index.Delete(fk, pk), then source.Delete(pk)             (order of tenant.Store.DeleteURM)               *)
(*   ins / rem   Index.Insert / Index.Delete alone                                                                           *)
(*   ab = TRUE: the transaction function returns an error after its writes.                                                  *)
(*   ix = FALSE models writers that do not know the index (data written before the index existed).                           *)
(*   up / pop / down   IndexMigration.Up (create bucket, Populate), Populate, Down; cl = WithIndexMigrationCleanup           *)
(*   walk(fk), verify, enable (an Index object with the read path enabled takes over)                                        *)
(* Facts of the code modelled as they are:                                                                                   *)
(*  - Walk with the read path disabled touches no bucket and visits nothing.  With it enabled it collects the VALUES of the *)
(*    index entries whose key splits (at the first "/") into exactly fk, fetches them from the source with GetBatch and     *)
(*    SKIPS the ones that are not there (dangling entries are not an error).  It does not look at the foreign key of the     *)
(*    record it found.                                                                                                        *)
(*  - Verify: MissingFromIndex = source records whose <<fk(rec), pk>> is not in the index; MissingFromSource = index         *)
(*    entries whose pk is not a key of the source AT ALL.  An entry <<fk1, pk>> whose record says fk2 is in neither set.     *)
(*    Populate inserts MissingFromIndex and, with cleanup, deletes MissingFromSource: it never removes such an entry.        *)
(*    (Restamp: clients for which the foreign key of a primary key can change reach these states; for the URM index the      *)
(*    primary key embeds the user id, for telegraf / DBRP the organisation of a record is immutable.)                        *)
(*  - Keys containing "/" (BadFKs, BadPKs): Insert / Delete refuse them (ErrKeyInvalidCharacters) after the bucket lookup;   *)
(*    Populate fails on the first such missing entry before anything is flushed (default batch size 100 > |missing|).        *)
(*  - Transactions: a bolt store rolls a failed update back (Atomic); the in-memory store applies every write at once and    *)
(*    has no roll-back ("TODO: make transactions actually transactional"): Apply(S, op, FALSE).                              *)
(*  - Urm (tenant): CreateURM refuses an existing mapping ("exists") before it writes, the service's delete refuses a        *)
(*    missing one ("notfound"); ListURMs by user filters the visited records by user id.                                     *)
(* Contract layer: the clauses C_* below (outcome of one operation in one state) and Inv_Synced.                             *)
EXTENDS Integers, Sequences, FiniteSets, TLC

CONSTANTS FKs,           \* foreign keys (strings)
          Rs,            \* primary keys (Tied = FALSE) / resources (Tied = TRUE)
          Tied,          \* TRUE: primary keys are pairs <<r, fk>>: the primary key determines the foreign key (URM)
          Urm,           \* TRUE: the writers with ix are tenant's CreateURM / DeleteUserResourceMapping
          BadFKs, BadPKs,\* keys the driver concretises with a "/" inside
          Atomic,        \* TRUE: a failed update transaction leaves no trace (bolt); FALSE: the in-memory store
          Restamp,       \* TRUE: a primary key may be written / indexed under a foreign key other than the one it has
          WithAbort,     \* TRUE: writers also come in the variant whose transaction function fails at the end
          MaxOps, Record, Probing, NoOpSteps

VARIABLES src, idx, mig, rd,
          lvl,           \* what the writers so far guarantee: 0 nothing, 1 populated (nothing missing), 2 populated with cleanup
          nops, hist, leaf

vars == <<src, idx, mig, rd, lvl, nops, hist, leaf>>

NoKey == "-"
NoPK == IF Tied THEN <<"-", "-">> ELSE "-"       \* (TLC compares the pk fields of two operations: one shape per configuration)
PKs == IF Tied THEN Rs \X FKs ELSE Rs
Fits(pk, fk) == IF Tied THEN pk[2] = fk ELSE TRUE

Dom(s) == {e[1] : e \in s}
FkOf(s, pk) == (CHOOSE e \in s : e[1] = pk)[2]
Proj(s) == {<<e[2], e[1]>> : e \in s}               \* the index a source bucket asks for
Bad(fk, pk) == fk \in BadFKs \/ pk \in BadPKs
St(s, i, m, r) == [src |-> s, idx |-> i, mig |-> m, rd |-> r]
Cur == St(src, idx, mig, rd)

\* ---------------------------------------------------------------- reads
WalkOut(S, fk) ==
  IF ~S.rd THEN [err |-> "ok", vis |-> {}]
  ELSE IF ~S.mig THEN [err |-> "nobucket", vis |-> {}]
  ELSE [err |-> "ok",
        vis |-> {e[2] : e \in {x \in S.idx : x[1] = fk /\ x[2] \in Dom(S.src) /\ (Urm => <<x[2], fk>> \in S.src)}}]

MissIdx(S) == Proj(S.src) \ S.idx
MissSrc(S) == {e \in S.idx : e[2] \notin Dom(S.src)}

VerifyOut(S) ==
  IF ~S.mig THEN [err |-> "nobucket", mi |-> {}, ms |-> {}, co |-> {}]
  ELSE [err |-> "ok", mi |-> MissIdx(S), ms |-> MissSrc(S),
        co |-> {f \in FKs : (\E e \in MissIdx(S) : e[1] = f) /\ (\E e \in S.idx : e[1] = f)}]     \* IndexDiff.Corrupt()

\* what the driver reads back after every step (besides the two buckets themselves)
Obs(S) == [w |-> UNION {{<<f, w.err, w.vis>> : w \in {WalkOut(S, f)}} : f \in FKs}, v |-> VerifyOut(S)]

\* ---------------------------------------------------------------- writers
R(S, err, n, vis) == [st |-> S, err |-> err, n |-> n, vis |-> vis]

IxErr(S, op) == IF ~S.mig THEN "nobucket" ELSE IF Bad(op.fk, op.pk) THEN "invalid" ELSE "ok"

\* at = the store rolls a failed transaction back
DoPut(S, op, at) ==
  LET src1 == {e \in S.src : e[1] # op.pk} \cup {<<op.pk, op.fk>>}
      ixe  == IF op.ix THEN IxErr(S, op) ELSE "ok"
      idx1 == IF op.ix /\ ixe = "ok" THEN S.idx \cup {<<op.fk, op.pk>>} ELSE S.idx
      err  == IF ixe # "ok" THEN ixe ELSE IF op.ab THEN "aborted" ELSE "ok"
  IN IF Urm /\ op.ix /\ op.pk \in Dom(S.src) THEN R(S, "exists", 0, {})
     ELSE IF err = "ok" \/ ~at THEN R([S EXCEPT !.src = src1, !.idx = idx1], err, 0, {})
     ELSE R(S, err, 0, {})

DoDel(S, op, at) ==
  LET ixe  == IF op.ix THEN IxErr(S, op) ELSE "ok"
      idx1 == IF op.ix /\ ixe = "ok" THEN S.idx \ {<<op.fk, op.pk>>} ELSE S.idx
      src1 == IF ixe = "ok" THEN {e \in S.src : e[1] # op.pk} ELSE S.src       \* the index comes first
      err  == IF ixe # "ok" THEN ixe ELSE IF op.ab THEN "aborted" ELSE "ok"
  IN IF Urm /\ op.ix /\ op.pk \notin Dom(S.src) THEN R(S, "notfound", 0, {})
     ELSE IF err = "ok" \/ ~at THEN R([S EXCEPT !.src = src1, !.idx = idx1], err, 0, {})
     ELSE R(S, err, 0, {})

DoIns(S, op, at) ==
  LET ixe == IxErr(S, op)
      err == IF ixe # "ok" THEN ixe ELSE IF op.ab THEN "aborted" ELSE "ok"
  IN IF ixe = "ok" /\ (err = "ok" \/ ~at) THEN R([S EXCEPT !.idx = @ \cup {<<op.fk, op.pk>>}], err, 0, {}) ELSE R(S, err, 0, {})

DoRem(S, op, at) ==
  LET ixe == IxErr(S, op)
      err == IF ixe # "ok" THEN ixe ELSE IF op.ab THEN "aborted" ELSE "ok"
  IN IF ixe = "ok" /\ (err = "ok" \/ ~at) THEN R([S EXCEPT !.idx = @ \ {<<op.fk, op.pk>>}], err, 0, {}) ELSE R(S, err, 0, {})

\* IndexMigration.Populate: verify (missing source only with cleanup), insert what is missing, then remove the dangling entries
DoPop(S, op) ==
  IF ~S.mig THEN R(S, "nobucket", 0, {})
  ELSE IF \E e \in MissIdx(S) : Bad(e[1], e[2]) THEN R(S, "invalid", 0, {})
  ELSE R([S EXCEPT !.idx = (@ \cup MissIdx(S)) \ (IF op.cl THEN MissSrc(S) ELSE {})], "ok", Cardinality(MissIdx(S)), {})

DoUp(S, op) == DoPop([S EXCEPT !.mig = TRUE], op)
DoDown(S) == R([S EXCEPT !.mig = FALSE, !.idx = {}], "ok", 0, {})

Apply(S, op, at) ==
  CASE op.a = "put"    -> DoPut(S, op, at)
    [] op.a = "del"    -> DoDel(S, op, at)
    [] op.a = "ins"    -> DoIns(S, op, at)
    [] op.a = "rem"    -> DoRem(S, op, at)
    [] op.a = "pop"    -> DoPop(S, op)
    [] op.a = "up"     -> DoUp(S, op)
    [] op.a = "down"   -> DoDown(S)
    [] op.a = "enable" -> R([S EXCEPT !.rd = TRUE], "ok", 0, {})
    [] op.a = "walk"   -> LET w == WalkOut(S, op.fk) IN R(S, w.err, Cardinality(w.vis), w.vis)
    [] op.a = "verify" -> R(S, VerifyOut(S).err, 0, {})

\* ---------------------------------------------------------------- operations
Op(a, pk, fk, ix, ab, cl) == [a |-> a, pk |-> pk, fk |-> fk, ix |-> ix, ab |-> ab, cl |-> cl]
Aborts == IF WithAbort THEN BOOLEAN ELSE {FALSE}
Pairs == {p \in PKs \X FKs : Fits(p[1], p[2])}

OpsPut    == {Op("put", p[1], p[2], ix, ab, FALSE) : p \in Pairs, ix \in BOOLEAN, ab \in Aborts}
OpsDel    == {Op("del", p[1], p[2], ix, ab, FALSE) : p \in Pairs, ix \in BOOLEAN, ab \in Aborts}
OpsIns    == {Op("ins", p[1], p[2], TRUE, ab, FALSE) : p \in Pairs, ab \in Aborts}
OpsRem    == {Op("rem", p[1], p[2], TRUE, ab, FALSE) : p \in Pairs, ab \in Aborts}
OpsPop    == {Op("pop", NoPK, NoKey, FALSE, FALSE, cl) : cl \in BOOLEAN}
OpsUp     == {Op("up", NoPK, NoKey, FALSE, FALSE, cl) : cl \in BOOLEAN}
OpsDown   == {Op("down", NoPK, NoKey, FALSE, FALSE, FALSE)}
OpsEnable == {Op("enable", NoPK, NoKey, FALSE, FALSE, FALSE)}
OpsWalk   == {Op("walk", NoPK, f, FALSE, FALSE, FALSE) : f \in FKs}
OpsVerify == {Op("verify", NoPK, NoKey, FALSE, FALSE, FALSE)}
Ops == OpsPut \cup OpsDel \cup OpsIns \cup OpsRem \cup OpsPop \cup OpsUp \cup OpsDown \cup OpsEnable \cup OpsWalk \cup OpsVerify

\* every entry that mentions pk, in either bucket, gives it the foreign key fk
Compatible(S, pk, fk) == (\A e \in S.src : e[1] = pk => e[2] = fk) /\ (\A e \in S.idx : e[2] = pk => e[1] = fk)

Allowed(S, op) ==
  /\ op.a \in {"put", "ins"} => (Restamp \/ Compatible(S, op.pk, op.fk))
  /\ op.a = "del" => (op.pk \in Dom(S.src) => op.fk = FkOf(S.src, op.pk))   \* a writer deletes the entry of the record it deletes
  /\ op.a = "enable" => ~Urm

\* ---------------------------------------------------------------- contract: the outcome r of op in state S
IsWriter(op) == op.a \in {"put", "del", "ins", "rem"}
ErrClasses == {"ok", "nobucket", "invalid", "aborted", "exists", "notfound"}

\* a failed transaction changes nothing (Up is two transactions: the bucket it created stays)
C_Tx(S, op, r) == r.err # "ok" => (IF op.a = "up" THEN r.st = [S EXCEPT !.mig = TRUE] ELSE r.st = S)

\* an operation touches the entries it names and nothing else
C_Frame(S, op, r) ==
  /\ r.err \in ErrClasses
  /\ IsWriter(op) =>
        /\ {e \in r.st.src : e[1] # op.pk} = {e \in S.src : e[1] # op.pk}
        /\ r.st.idx \ {<<op.fk, op.pk>>} = S.idx \ {<<op.fk, op.pk>>}
        /\ r.st.mig = S.mig /\ r.st.rd = S.rd
  /\ op.a \in {"ins", "rem", "pop", "up", "down", "enable", "walk", "verify"} => r.st.src = S.src
  /\ op.a \in {"enable", "walk", "verify"} => r.st.idx = S.idx
  /\ op.a \notin {"up", "down"} => r.st.mig = S.mig
  /\ op.a # "enable" => r.st.rd = S.rd

\* effects of the accepted writers
C_Effect(S, op, r) ==
  r.err = "ok" =>
    /\ op.a = "put" => (<<op.pk, op.fk>> \in r.st.src /\ (op.ix => <<op.fk, op.pk>> \in r.st.idx))
    /\ op.a = "del" => (op.pk \notin Dom(r.st.src) /\ (op.ix => <<op.fk, op.pk>> \notin r.st.idx))
    /\ op.a = "ins" => <<op.fk, op.pk>> \in r.st.idx
    /\ op.a = "rem" => <<op.fk, op.pk>> \notin r.st.idx
    /\ op.a = "down" => (~r.st.mig /\ r.st.idx = {})
    /\ op.a = "enable" => r.st.rd

\* doing it again changes nothing more
C_Idem(S, op, r) == op.a \notin {"walk", "verify"} => \A r2 \in {Apply(r.st, op, Atomic)} : r2.st = r.st /\ (r.err = "ok" /\ op.a \in {"pop", "up"} => r2.n = 0)

\* Populate: afterwards nothing is missing; with cleanup nothing dangles; it counts what it inserted; it only adds what is
\* missing and only removes what dangles
C_Populate(S, op, r) ==
  (op.a \in {"pop", "up"} /\ r.err = "ok") =>
    /\ Proj(S.src) \subseteq r.st.idx
    /\ r.st.idx \subseteq S.idx \cup Proj(S.src)
    /\ r.n = Cardinality(r.st.idx \ S.idx)
    /\ (op.cl => \A e \in r.st.idx : e[2] \in Dom(S.src))
    /\ (~op.cl => S.idx \subseteq r.st.idx)
    /\ \A e \in S.idx \ r.st.idx : e[2] \notin Dom(S.src)

\* Walk never hands out a deleted record; with the read path disabled it visits nothing; on a complete index it visits exactly
\* the records of the foreign key (n = number of visits: each once)
C_Walk(S, op, r) ==
  op.a = "walk" =>
    /\ r.vis \subseteq Dom(S.src) /\ r.n = Cardinality(r.vis)
    /\ ~S.rd => (r.err = "ok" /\ r.vis = {})
    /\ (S.rd /\ S.mig /\ Proj(S.src) \subseteq S.idx) => (r.err = "ok" /\ r.vis = {e[1] : e \in {x \in S.src : x[2] = op.fk}})

\* Verify reports the symmetric difference of the index and the projection of the source
C_Verify(S) ==
  \A v \in {VerifyOut(S)} : v.err = "ok" => (v.mi = Proj(S.src) \ S.idx /\ v.ms = S.idx \ Proj(S.src))

OutcomeOK(S, op, r) == C_Tx(S, op, r) /\ C_Frame(S, op, r) /\ C_Effect(S, op, r) /\ C_Idem(S, op, r) /\ C_Populate(S, op, r) /\ C_Walk(S, op, r)

\* ---------------------------------------------------------------- behaviour
Init == src = {} /\ idx = {} /\ mig = FALSE /\ rd = Urm /\ lvl = 0 /\ nops = 0 /\ hist = <<>> /\ leaf = <<>>

NextLvl(S, op, r) ==
  IF r.err # "ok" THEN (IF r.st = S \/ (op.a = "up" /\ r.st = [S EXCEPT !.mig = TRUE]) THEN lvl ELSE 0)
  ELSE CASE op.a \in {"put", "del"} -> IF op.ix THEN lvl ELSE 0
         [] op.a \in {"ins", "rem", "down"} -> 0
         [] op.a \in {"pop", "up"} -> IF op.cl THEN 2 ELSE IF lvl > 1 THEN lvl ELSE 1
         [] OTHER -> lvl

Rec(op, r) == [op |-> op, err |-> r.err, n |-> r.n, vis |-> r.vis, st |-> r.st, obs |-> Obs(r.st)]

\* Model checking and generation advance only by operations that change something (the outcome of every other operation is
\* covered by Inv_Outcomes / by the probes); simulation (NoOpSteps) also takes refused and idle operations.
Step(op) ==
  /\ leaf = <<>> /\ nops < MaxOps /\ Allowed(Cur, op)
  /\ \E S \in {Cur} : \E r \in {Apply(S, op, Atomic)} : \E l \in {NextLvl(S, op, r)} :     \* (bound by quantifiers: TLC does not cache LET definitions)
        /\ (NoOpSteps \/ r.st # S \/ l # lvl)
        /\ src' = r.st.src /\ idx' = r.st.idx /\ mig' = r.st.mig /\ rd' = r.st.rd
        /\ lvl' = l
        /\ hist' = IF Record THEN Append(hist, Rec(op, r)) ELSE hist
  /\ nops' = nops + 1
  /\ UNCHANGED leaf

\* generation only: the outcome of op in this state, as a state of its own without successors.  The outcome is the one of
\* the store kind of the configuration (Atomic); alt is the state the OTHER store kind is left in, when that differs.
Probe(op) ==
  /\ Probing /\ leaf = <<>> /\ Allowed(Cur, op)
  /\ \E S \in {Cur} : \E r \in {Apply(S, op, Atomic)} : \E q \in {Apply(S, op, ~Atomic)} :
        leaf' = <<[op |-> op, err |-> r.err, n |-> r.n, vis |-> r.vis, st |-> r.st, obs |-> Obs(r.st),
                   alt |-> IF q.st = r.st THEN <<>> ELSE <<q.st, Obs(q.st)>>]>>
  /\ hist' = <<>>
  /\ UNCHANGED <<src, idx, mig, rd, lvl, nops>>

Put     == leaf = <<>> /\ \E op \in OpsPut : Step(op)
Del     == leaf = <<>> /\ \E op \in OpsDel : Step(op)
Ins     == leaf = <<>> /\ \E op \in OpsIns : Step(op)
Rem     == leaf = <<>> /\ \E op \in OpsRem : Step(op)
Pop     == leaf = <<>> /\ \E op \in OpsPop : Step(op)
Up      == leaf = <<>> /\ \E op \in OpsUp : Step(op)
Down    == leaf = <<>> /\ \E op \in OpsDown : Step(op)
Enable  == leaf = <<>> /\ \E op \in OpsEnable : Step(op)
Walk    == leaf = <<>> /\ \E op \in OpsWalk : Step(op)
Verify  == leaf = <<>> /\ \E op \in OpsVerify : Step(op)
Probes  == leaf = <<>> /\ \E op \in Ops : Probe(op)

\* (a probe state has no successors; every action says so first, which spares TLC the enumeration of the operations there)
Next == Put \/ Del \/ Ins \/ Rem \/ Pop \/ Up \/ Down \/ Enable \/ Walk \/ Verify \/ Probes

Spec == Init /\ [][Next]_vars

\* simulation: one operation drawn at random per step (TLC's simulator would otherwise build every successor to pick one)
SimNext == leaf = <<>> /\ \E op \in {RandomElement({o \in Ops : Allowed(Cur, o)})} : Step(op)
SimSpec == Init /\ [][SimNext]_vars

\* ---------------------------------------------------------------- contract: invariants
TypeOK ==
  /\ src \subseteq PKs \X FKs /\ idx \subseteq FKs \X PKs
  /\ \A e, f \in src : e[1] = f[1] => e = f
  /\ \A e \in idx : ~Bad(e[1], e[2])
  /\ (~mig => idx = {})
  /\ (Tied => (\A e \in src : Fits(e[1], e[2])) /\ (\A e \in idx : Fits(e[2], e[1])))

\* the outcome of every operation in every state reached with fewer than MaxOps steps
Inv_Outcomes == (leaf = <<>> /\ nops < MaxOps) => \A S \in {Cur} : \A op \in Ops : Allowed(S, op) => \A r \in {Apply(S, op, Atomic)} : OutcomeOK(S, op, r)
Inv_Verify   == leaf = <<>> => C_Verify(Cur)

\* Populate establishes and the writers that maintain the index preserve: nothing is missing (lvl >= 1); with cleanup the
\* index is exactly the projection of the source (lvl = 2)
Inv_Synced == leaf = <<>> => /\ (lvl >= 1 => (mig /\ Proj(src) \subseteq idx))
                              /\ (lvl = 2 => idx = Proj(src))

\* the same clauses on a probe state (lead configurations: the offending operation is then part of the counterexample)
LeafR == [st |-> leaf[1].st, err |-> leaf[1].err, n |-> leaf[1].n, vis |-> leaf[1].vis]
InvP_Tx     == leaf # <<>> => C_Tx(Cur, leaf[1].op, LeafR)
InvP_Walk   == leaf # <<>> => C_Walk(Cur, leaf[1].op, LeafR)
InvP_Verify == (leaf # <<>> /\ leaf[1].op.a = "verify") => C_Verify(Cur)

\* Generation (one TLC worker = strict breadth-first order): lvl, nops and hist hidden, so every state of the two buckets is kept
\* once, with a shortest witness history.  Model checking: lvl and nops stay visible.
View  == <<src, idx, mig, rd, leaf>>
ViewN == <<src, idx, mig, rd, lvl, nops, leaf>>
=============================================================================
