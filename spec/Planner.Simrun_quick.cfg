SPECIFICATION Spec
CONSTANTS
  MaxGens = 7
  MinInit = 4
  Lvls = {2, 3}
  Shapes <- ShapesSmall
  Tombs = {TRUE, FALSE}
  MaxEnv = 3
  OutShapes <- ShapesSmall
  KeepHist = TRUE
  MaxHist = 11
  NoIdle = TRUE
INVARIANTS EmitMaximal
CHECK_DEADLOCK FALSE
