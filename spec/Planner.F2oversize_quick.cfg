SPECIFICATION Spec
CONSTANTS
  MaxGens = 3
  MinInit = 3
  Lvls = {2, 3, 4}
  Shapes <- ShapesTwo
  Tombs = {TRUE, FALSE}
  MaxEnv = 0
  OutShapes <- ShapesSmall
  KeepHist = TRUE
  MaxHist = 5
  NoIdle = TRUE
INVARIANTS TypeOK
PROPERTIES NoOverSizeGap
CHECK_DEADLOCK FALSE
