SPECIFICATION Spec
CONSTANTS
  DBs = {d1}
  RPs = {r1}
  IDs = {i1}
  Series = {s1}
  Times = {t1}
  MaxOps = 5
  MaxWrites = 1
  MaxNoops = 5
PROPERTIES StrongDeleteDatabase
VIEW View
CHECK_DEADLOCK FALSE
