SPECIFICATION Spec
CONSTANTS
  MaxGens = 5
  MinInit = 4
  Lvls = {1, 2, 3, 4}
  Shapes <- ShapesSmall
  Tombs = {FALSE}
  MaxEnv = 1
  OutShapes <- ShapesTwo
  KeepHist = FALSE
  MaxHist = 0
  NoIdle = FALSE
INVARIANTS TypeOK InUseIsHeld HeldPairwiseDisjoint
PROPERTIES HandOutOK
VIEW View
CHECK_DEADLOCK FALSE
