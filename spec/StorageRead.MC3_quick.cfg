\* C21 quick, three-shard stratum (the check generates the same text): a series with a gap in the middle shard while another
\* series of the same measurement+field has points there
SPECIFICATION Spec
CONSTANTS
  SeriesIdx = {1, 3, 6}
  Patterns = {{}, {1, 9}, {5, 6}, {3, 4, 8}, {10}}
  RangeIdx = {8, 9, 10}
  PredIdx = {1, 3, 5, 8, 9, 11}
  H = 4
  NShards = 3
INVARIANTS FilterContract GroupContract Partition
CHECK_DEADLOCK FALSE
