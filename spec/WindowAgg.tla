------------------------------ MODULE WindowAgg ------------------------------
(* Windowed aggregates of the storage layer (C20) and the Flux storage reader's window tables (C41).      *)
(*                                                                                                        *)
(* Integers only.  A series is a sorted sequence of points [t, v]; a window is (every, offset) with       *)
(* period = every (the storage request has no separate period): window i = [offset + i*every,             *)
(* offset + (i+1)*every).                                                                                  *)
(*                                                                                                        *)
(* Contract layer                                                                                         *)
(*   C20  Direct(P, e, o, agg): group the raw points by window, aggregate each non-empty window.          *)
(*        count/sum/mean rows are stamped with the window stop, selectors min/max/first/last with the     *)
(*        point's own time (first point among equal minima/maxima); mean is the pair <<sum, count>>.      *)
(*   C41  TableDirect(c): one row per non-empty window (per window meeting the bounds when createEmpty),  *)
(*        _start/_stop clipped to the query bounds, value = aggregate of the raw points of the filter     *)
(*        read (qs <= t < qe) in that window, empty => null (0 for count).                                *)
(* Implementation layer (mirrors the code, quirks included)                                               *)
(*   CallNext    one call of *Window{Count,Sum,Min,Max,Mean,First,Last}ArrayCursor.Next                   *)
(*               (storage/reads/array_cursor.gen.go): consumes the carried-over remainder `tmp`, then     *)
(*               input arrays, until OutCap rows are produced or the input is exhausted; the partial      *)
(*               window is carried across input arrays inside one call, `tmp` (and, for first/last,       *)
(*               windowEnd) across calls.                                                                 *)
(*   BuildTable  what storage/flux makes of the cursor's arrays: *WindowTable (aggregates:                *)
(*               createNextBufferTimes + mergeValues/isInWindow), *WindowSelectorTable,                   *)
(*               *EmptyWindowSelectorTable (buffers of OutCap rows), then splitWindows.                   *)
(* Deliberate deviations, named: OutCap is MaxPointsPerBlock = 1000 in the code and 1..3 here (the        *)
(* replay driver stretches each abstract window into 500 concrete ones to reach the real boundary);       *)
(* a series without any point inside the bounds yields no table at all, also with createEmpty (the        *)
(* reader never learns about it); with a time column (aggregateWindow) selectors never produce rows       *)
(* for empty windows.  Calendar windows and time zones are outside this model.                            *)
EXTENDS Integers, Sequences, FiniteSets, TLC

CONSTANTS MaxT,        \* timestamps are 0..MaxT
          Everys,      \* window sizes
          ValPats,     \* value patterns (value as a function of the timestamp)
          Aggs,        \* aggregates
          OutCap,      \* capacity of an output array / table buffer
          Mode,        \* "cursor" (C20) or "table" (C41)
          QStarts, QStops, TimeCols,  \* C41: query bounds and time column ("none", "start", "stop")
          EWSAsFound   \* TRUE: *EmptyWindowSelectorTable.advance as found (F39, before the repair); FALSE: repaired

VARIABLES c,       \* the case (inputs)
          inp,     \* cursor: input arrays not yet handed out by the underlying cursor
          tmp,     \* cursor: carried-over remainder of an input array
          wend,    \* cursor: windowEnd field (first/last cursors only)
          outs,    \* cursor: arrays returned by Next() so far
          done,    \* cursor: Next() returned an empty array
          exp,     \* contract: expected cursor rows (C20)
          ready,   \* exp/texp have been computed
          tbl,     \* table rows produced by the implementation layer (C41)
          tdone,
          texp     \* contract: expected table rows (C41)

vars == <<c, ready, inp, tmp, wend, outs, done, exp, tbl, tdone, texp>>

NoWend    == -1000                       \* math.MinInt64
Selectors == {"min", "max", "first", "last"}
Max2(a, b) == IF a > b THEN a ELSE b
Min2(a, b) == IF a < b THEN a ELSE b

ASSUME (-3) \div 2 = -2 /\ (-3) % 2 = 1   \* floor division, as interval.Window.lastIndex

RECURSIVE SortSet(_)
SortSet(S) == IF S = {} THEN <<>>
              ELSE LET m == CHOOSE x \in S : \A y \in S : x <= y IN <<m>> \o SortSet(S \ {m})

RECURSIVE Concat(_)
Concat(ss) == IF ss = <<>> THEN <<>> ELSE Head(ss) \o Concat(Tail(ss))

Val(vp, t) == CASE vp = "up"   -> t - 2
                [] vp = "down" -> 3 - t
                [] vp = "zig"  -> <<-2, 1, 1, -2, 0, -2, 1, -1, 2, 2>>[t + 1]   \* ties (adjacent and apart), sign changes
Pts(S, vp) == LET ts == SortSet(S) IN [i \in 1..Len(ts) |-> [t |-> ts[i], v |-> Val(vp, ts[i])]]

\* ------------------------------------------------------------------ windows
WStart(t, e, o) == ((t - o) \div e) * e + o          \* GetLatestBounds(t).Start()
WStop(t, e, o)  == WStart(t, e, o) + e               \* GetLatestBounds(t).Stop()

\* ------------------------------------------------------------------ contract: aggregates of one window
RECURSIVE SumV(_)
SumV(Q) == IF Q = <<>> THEN 0 ELSE Head(Q).v + SumV(Tail(Q))
MinIdx(Q) == CHOOSE i \in 1..Len(Q) : (\A j \in 1..Len(Q) : Q[i].v <= Q[j].v) /\ (\A j \in 1..(i-1) : Q[j].v > Q[i].v)
MaxIdx(Q) == CHOOSE i \in 1..Len(Q) : (\A j \in 1..Len(Q) : Q[i].v >= Q[j].v) /\ (\A j \in 1..(i-1) : Q[j].v < Q[i].v)

\* Q: the (non-empty) raw points of window [ws, ws+e).  Row: w = window start, t = stamp, v = value
\* (the sum for mean), n = number of raw points (the count of the mean's pair).
AggRow(agg, Q, ws, e) ==
  LET n == Len(Q)
      sel(i) == [w |-> ws, t |-> Q[i].t, v |-> Q[i].v, n |-> n]
  IN CASE agg = "count" -> [w |-> ws, t |-> ws + e, v |-> n, n |-> n]
       [] agg = "sum"   -> [w |-> ws, t |-> ws + e, v |-> SumV(Q), n |-> n]
       [] agg = "mean"  -> [w |-> ws, t |-> ws + e, v |-> SumV(Q), n |-> n]
       [] agg = "min"   -> sel(MinIdx(Q))
       [] agg = "max"   -> sel(MaxIdx(Q))
       [] agg = "first" -> sel(1)
       [] agg = "last"  -> sel(n)

InWindow(P, ws, e) == SelectSeq(P, LAMBDA p : p.t >= ws /\ p.t < ws + e)

Direct(P, e, o, agg) ==
  LET wss == SortSet({WStart(P[i].t, e, o) : i \in 1..Len(P)})
  IN [k \in 1..Len(wss) |-> AggRow(agg, InWindow(P, wss[k], e), wss[k], e)]

\* what the property compares of a cursor row
Obs(agg, r) == IF agg = "mean" THEN <<r.t, r.v, r.n>> ELSE <<r.t, r.v>>
ObsSeq(agg, rs) == [i \in 1..Len(rs) |-> Obs(agg, rs[i])]

\* ------------------------------------------------------------------ implementation: window array cursors
Acc0 == [has |-> FALSE, sum |-> 0, n |-> 0, bt |-> 0, bv |-> 0]
AccAdd(agg, a, p) ==
  LET better == ~a.has \/ (agg = "min" /\ p.v < a.bv) \/ (agg = "max" /\ p.v > a.bv)
  IN [has |-> TRUE, sum |-> a.sum + p.v, n |-> a.n + 1,
      bt |-> IF better THEN p.t ELSE a.bt, bv |-> IF better THEN p.v ELSE a.bv]
Emit(agg, a, we) ==
  CASE agg \in {"min", "max"} -> [t |-> a.bt, v |-> a.bv, n |-> a.n]
    [] agg = "count"          -> [t |-> we, v |-> a.n, n |-> a.n]
    [] OTHER                  -> [t |-> we, v |-> a.sum, n |-> a.n]      \* sum; mean = sum/count

\* count, sum, min, max, mean: the WINDOWS loop.  a = current input array, i = rowIdx, we = windowEnd
RECURSIVE Scan(_, _, _, _, _, _, _, _, _)
Scan(agg, e, o, a, i, acc, we, res, rest) ==
  IF i > Len(a)
  THEN \* made it through an array: tmp is cleared, get the next chunk
       IF rest = <<>>
       THEN [res |-> IF acc.has THEN Append(res, Emit(agg, acc, we)) ELSE res,     \* write the final point
             tmp |-> <<>>, inp |-> <<>>, wend |-> NoWend]
       ELSE Scan(agg, e, o, Head(rest), 1, acc, we, res, Tail(rest))
  ELSE IF a[i].t >= we
       THEN \* new window detected, close the current one; no point for empty windows
            IF acc.has
            THEN LET res1 == Append(res, Emit(agg, acc, we))
                 IN IF Len(res1) >= OutCap
                    THEN [res |-> res1, tmp |-> SubSeq(a, i, Len(a)), inp |-> rest, wend |-> NoWend]
                    ELSE Scan(agg, e, o, a, i, Acc0, WStop(a[i].t, e, o), res1, rest)
            ELSE Scan(agg, e, o, a, i, Acc0, WStop(a[i].t, e, o), res, rest)
       ELSE Scan(agg, e, o, a, i + 1, AccAdd(agg, acc, a[i]), we, res, rest)

\* first: keep the first point at or after windowEnd
RECURSIVE FirstScan(_, _, _, _, _, _, _)
FirstScan(e, o, a, i, we, res, rest) ==
  IF i > Len(a)
  THEN IF rest = <<>> THEN [res |-> res, tmp |-> <<>>, inp |-> <<>>, wend |-> we]
       ELSE FirstScan(e, o, Head(rest), 1, we, res, Tail(rest))
  ELSE IF a[i].t < we THEN FirstScan(e, o, a, i + 1, we, res, rest)
       ELSE LET res1 == Append(res, [t |-> a[i].t, v |-> a[i].v, n |-> 0])
                we1  == WStop(a[i].t, e, o)
            IN IF Len(res1) = OutCap
               THEN [res |-> res1, tmp |-> SubSeq(a, i + 1, Len(a)), inp |-> rest, wend |-> we1]
               ELSE FirstScan(e, o, a, i + 1, we1, res1, rest)

\* last: overwrite slot cur until a point at or after windowEnd opens the next slot
RECURSIVE LastScan(_, _, _, _, _, _, _)
LastScan(e, o, a, i, we, res, rest) ==
  IF i > Len(a)
  THEN IF rest = <<>> THEN [res |-> res, tmp |-> <<>>, inp |-> <<>>, wend |-> we]
       ELSE LastScan(e, o, Head(rest), 1, we, res, Tail(rest))
  ELSE LET new == a[i].t >= we
           cur == IF new THEN Len(res) + 1 ELSE Len(res)
       IN IF cur = OutCap + 1
          THEN [res |-> res, tmp |-> SubSeq(a, i, Len(a)), inp |-> rest, wend |-> we]
          ELSE LET pt   == [t |-> a[i].t, v |-> a[i].v, n |-> 0]
                   res1 == IF new THEN Append(res, pt) ELSE [res EXCEPT ![cur] = pt]
               IN LastScan(e, o, a, i + 1, WStop(a[i].t, e, o), res1, rest)

\* one call of Next(): a = tmp if it is non-empty, else the next input array (empty at end of input)
CursorNext(agg, e, o, tm, in, we) ==
  LET a    == IF tm # <<>> THEN tm ELSE IF in # <<>> THEN Head(in) ELSE <<>>
      rest == IF tm # <<>> THEN in ELSE IF in # <<>> THEN Tail(in) ELSE <<>>
  IN IF a = <<>> THEN [res |-> <<>>, tmp |-> <<>>, inp |-> <<>>, wend |-> we]
     ELSE CASE agg = "first" -> FirstScan(e, o, a, 1, we, <<>>, rest)
            [] agg = "last"  -> LastScan(e, o, a, 1, we, <<>>, rest)
            [] OTHER         -> Scan(agg, e, o, a, 1, Acc0, WStop(a[1].t, e, o), <<>>, rest)

\* ------------------------------------------------------------------ chunkings of the input
Chunk(P, cuts) == LET cs == SortSet(cuts \cup {Len(P)})
                  IN [k \in 1..Len(cs) |-> SubSeq(P, (IF k = 1 THEN 1 ELSE cs[k - 1] + 1), cs[k])]
Chunkings(P) == IF P = <<>> THEN {<<>>} ELSE {Chunk(P, cuts) : cuts \in SUBSET (1..(Len(P) - 1))}

\* ------------------------------------------------------------------ C41 contract: table rows
InBounds(P, qs, qe) == SelectSeq(P, LAMBDA p : p.t >= qs /\ p.t < qe)
EffCreateEmpty(cc) == cc.ce /\ ~(cc.agg \in Selectors /\ cc.tc # "none")
TableDirect(cc) ==
  LET QP  == InBounds(cc.pts, cc.qs, cc.qe)
      wss == IF QP = <<>> THEN <<>>
             ELSE IF EffCreateEmpty(cc)
                  THEN SortSet({ws \in (cc.qs - cc.e + 1)..(cc.qe - 1) : (ws - cc.o) % cc.e = 0})
                  ELSE SortSet({WStart(QP[i].t, cc.e, cc.o) : i \in 1..Len(QP)})
      row(ws) == LET Q == InWindow(QP, ws, cc.e)
                     s == Max2(ws, cc.qs)
                     e == Min2(ws + cc.e, cc.qe)
                 IN IF Q = <<>>
                    THEN [s |-> s, e |-> e, null |-> cc.agg # "count", t |-> 0, v |-> 0, n |-> 0]
                    ELSE LET r == AggRow(cc.agg, Q, ws, cc.e)
                         IN [s |-> s, e |-> e, null |-> FALSE, t |-> r.t, v |-> r.v, n |-> r.n]
  IN [k \in 1..Len(wss) |-> row(wss[k])]

\* what the property compares of a table row (the selector's own time is not named by the property)
TObs(cc, r) == IF r.null THEN <<r.s, r.e, "null">>
               ELSE IF cc.agg = "mean" THEN <<r.s, r.e, r.v, r.n>> ELSE <<r.s, r.e, r.v>>
TObsSeq(cc, rs) == [i \in 1..Len(rs) |-> TObs(cc, rs[i])]

\* ------------------------------------------------------------------ C41 implementation: storage/flux tables
\* isInWindow(stop, ts) of *WindowTable for an aggregate: ts is the (unclipped) window stop stamped by storage
IsInWindowAgg(stop, ts, e, o) == LET bs == WStart(stop - 1, e, o) IN bs < ts /\ ts <= bs + e

\* *WindowTable with createEmpty: every window from the one holding qs while its clipped start < qe, in ONE buffer;
\* mergeValues walks the cursor rows and the intervals in lock step.
RECURSIVE MergeValues(_, _, _, _)
MergeValues(cc, wins, rows, acc) ==
  IF wins = <<>> THEN acc       \* cursor rows left over are never looked at again
  ELSE LET ws == Head(wins)
           s  == Max2(ws, cc.qs)
           e  == Min2(ws + cc.e, cc.qe)
       IN IF rows # <<>> /\ IsInWindowAgg(e, Head(rows).t, cc.e, cc.o)
          THEN MergeValues(cc, Tail(wins), Tail(rows),
                           Append(acc, [s |-> s, e |-> e, null |-> FALSE, t |-> Head(rows).t, v |-> Head(rows).v, n |-> Head(rows).n]))
          ELSE MergeValues(cc, Tail(wins), rows,
                           Append(acc, [s |-> s, e |-> e, null |-> cc.agg # "count", t |-> 0, v |-> 0, n |-> 0]))
RECURSIVE WindowsFrom(_, _, _)
WindowsFrom(ws, e, qe) == IF ws >= qe THEN <<>> ELSE <<ws>> \o WindowsFrom(ws + e, e, qe)

WindowTableRows(cc, arrs) ==
  IF arrs = <<>> THEN <<>>                                    \* advance(): !nextBuffer() => no table
  ELSE IF cc.ce
       THEN MergeValues(cc, WindowsFrom(WStart(cc.qs, cc.e, cc.o), cc.e, cc.qe), Concat(arrs), <<>>)
       ELSE \* one buffer per cursor array; bounds = PrevBounds(GetLatestBounds(stamp)) clipped
            LET rows == Concat(arrs)
            IN [k \in 1..Len(rows) |->
                 LET ws == WStart(rows[k].t, cc.e, cc.o) - cc.e
                     s  == Max2(ws, cc.qs)
                     e  == Min2(ws + cc.e, cc.qe)
                 IN IF IsInWindowAgg(e, rows[k].t, cc.e, cc.o)
                    THEN [s |-> s, e |-> e, null |-> FALSE, t |-> rows[k].t, v |-> rows[k].v, n |-> rows[k].n]
                    ELSE [s |-> s, e |-> e, null |-> cc.agg # "count", t |-> 0, v |-> 0, n |-> 0]]

\* *WindowSelectorTable: one row per cursor row
SelectorTableRows(cc, arrs) ==
  LET rows == Concat(arrs)
  IN [k \in 1..Len(rows) |->
        [s |-> Max2(WStart(rows[k].t, cc.e, cc.o), cc.qs), e |-> Min2(WStop(rows[k].t, cc.e, cc.o), cc.qe),
         null |-> FALSE, t |-> rows[k].t, v |-> rows[k].v, n |-> rows[k].n]]

\* *EmptyWindowSelectorTable: arr = cur.Next() in the constructor; advance() fills one buffer of at most OutCap
\* windows and returns false as soon as the current cursor array is empty.
RECURSIVE EWSFill(_, _, _, _, _, _)
EWSFill(cc, arr, idx, rest, wb, buf) ==      \* returns [buf, arr, idx, rest, wb]
  IF wb >= cc.qe \/ Len(buf) = OutCap THEN [buf |-> buf, arr |-> arr, idx |-> idx, rest |-> rest, wb |-> wb]
  ELSE LET s   == Max2(wb, cc.qs)
           e   == Min2(wb + cc.e, cc.qe)
           hit == arr # <<>> /\ wb <= arr[idx].t /\ arr[idx].t < wb + cc.e
           row == IF hit THEN [s |-> s, e |-> e, null |-> FALSE, t |-> arr[idx].t, v |-> arr[idx].v, n |-> arr[idx].n]
                  ELSE [s |-> s, e |-> e, null |-> TRUE, t |-> 0, v |-> 0, n |-> 0]
           idx1 == IF hit THEN idx + 1 ELSE idx
           adv  == arr # <<>> /\ idx1 = Len(arr) + 1          \* read in its entirety: call Next()
           arr2 == IF adv THEN (IF rest = <<>> THEN <<>> ELSE Head(rest)) ELSE arr
           rest2 == IF adv /\ rest # <<>> THEN Tail(rest) ELSE rest
           idx2 == IF adv THEN 1 ELSE idx1
       IN EWSFill(cc, arr2, idx2, rest2, wb + cc.e, Append(buf, row))
\* advance(): as found, `t.arr.Len() == 0 => return false` (F39: the empty windows after the buffer in which the cursor ran
\* dry were lost); repaired, an exhausted cursor ends the table only before the first window (no data at all) or once every
\* window of the range has been produced (windowBounds.Start() <= rangeStart \/ >= rangeStop).
RECURSIVE EWSAdvance(_, _, _, _, _, _)
EWSAdvance(cc, arr, idx, rest, wb, rows) ==
  IF arr = <<>> /\ (EWSAsFound \/ wb <= cc.qs \/ wb >= cc.qe) THEN rows
  ELSE LET r == EWSFill(cc, arr, idx, rest, wb, <<>>)
       IN IF r.buf = <<>> THEN rows ELSE EWSAdvance(cc, r.arr, r.idx, r.rest, r.wb, rows \o r.buf)
EmptySelectorTableRows(cc, arrs) ==
  IF arrs = <<>> THEN <<>> ELSE EWSAdvance(cc, Head(arrs), 1, Tail(arrs), WStart(cc.qs, cc.e, cc.o), <<>>)

\* windowAggregateIterator.handleRead: choice of the table implementation (ForceAggregate not modelled)
TableImpl(cc, arrs) ==
  IF cc.agg \notin Selectors THEN WindowTableRows(cc, arrs)
  ELSE IF cc.ce /\ cc.tc = "none" THEN EmptySelectorTableRows(cc, arrs)
  ELSE SelectorTableRows(cc, arrs)

\* ------------------------------------------------------------------ state machine
InitCursor ==
  /\ \E S \in SUBSET (0..MaxT), vp \in ValPats, e \in Everys, agg \in Aggs :
     \E o \in (1 - e)..(e - 1) :
     \E ch \in Chunkings(Pts(S, vp)) :
        /\ c = [pts |-> Pts(S, vp), e |-> e, o |-> o, agg |-> agg, chunks |-> ch,
                qs |-> -1000, qe |-> 1000, ce |-> FALSE, tc |-> "none"]
        /\ inp = ch

\* C41: the cursor sees the points inside the bounds (the filter read), as one array (chunking independence is C20)
InitTable ==
  /\ \E S \in SUBSET (0..MaxT), vp \in ValPats, e \in Everys, agg \in Aggs :
     \E o \in (1 - e)..(e - 1) :
     \E qs \in QStarts, qe \in QStops, ce \in BOOLEAN, tc \in TimeCols :
        /\ qs < qe
        /\ c = [pts |-> Pts(S, vp), e |-> e, o |-> o, agg |-> agg, chunks |-> <<>>,
                qs |-> qs, qe |-> qe, ce |-> ce, tc |-> tc]
        /\ inp = (IF InBounds(Pts(S, vp), qs, qe) = <<>> THEN <<>> ELSE <<InBounds(Pts(S, vp), qs, qe)>>)

Init == /\ IF Mode = "cursor" THEN InitCursor ELSE InitTable
        /\ ready = FALSE /\ exp = <<>> /\ texp = <<>>
        /\ tmp = <<>> /\ wend = NoWend /\ outs = <<>> /\ done = FALSE
        /\ tbl = <<>> /\ tdone = FALSE

\* the contract layer's answer for this case (a separate step only so that TLC's workers compute it in parallel)
Expect ==
  /\ ~ready /\ ready' = TRUE
  /\ exp' = Direct(InBounds(c.pts, c.qs, c.qe), c.e, c.o, c.agg)
  /\ texp' = IF Mode = "table" THEN TableDirect(c) ELSE <<>>
  /\ UNCHANGED <<c, inp, tmp, wend, outs, done, tbl, tdone>>

CallNext ==
  /\ ready /\ ~done
  /\ LET r == CursorNext(c.agg, c.e, c.o, tmp, inp, wend)
     IN /\ IF r.res = <<>> THEN done' = TRUE /\ outs' = outs
                           ELSE done' = FALSE /\ outs' = Append(outs, r.res)
        /\ tmp' = r.tmp /\ inp' = r.inp /\ wend' = r.wend
  /\ UNCHANGED <<c, ready, exp, tbl, tdone, texp>>

BuildTable ==
  /\ Mode = "table" /\ done /\ ~tdone
  /\ tbl' = TableImpl(c, outs)
  /\ tdone' = TRUE
  /\ UNCHANGED <<c, ready, inp, tmp, wend, outs, done, exp, texp>>

Next == Expect \/ CallNext \/ BuildTable
Spec == Init /\ [][Next]_vars

\* ------------------------------------------------------------------ properties checked by TLC
IsPrefix(s, t) == Len(s) <= Len(t) /\ SubSeq(t, 1, Len(s)) = s
TypeOK == /\ \A i \in 1..Len(outs) : Len(outs[i]) \in 1..OutCap
          /\ ready => Len(outs) <= Len(exp)
\* C20: for every chunking and every output capacity the concatenated arrays are the direct aggregation
CursorPrefix   == ready => IsPrefix(ObsSeq(c.agg, Concat(outs)), ObsSeq(c.agg, exp))
CursorContract == done => ObsSeq(c.agg, Concat(outs)) = ObsSeq(c.agg, exp)
\* every full call returns a full array (drift-level fact used by the stretched replay)
FullArrays == \A i \in 1..(Len(outs) - 1) : Len(outs[i]) = OutCap

\* C41
TableContract == tdone => TObsSeq(c, tbl) = TObsSeq(c, texp)
\* F18 (globally F39, known_findings.d/C41.json; repaired in /repo): with EWSAsFound the createEmpty selector table stops at the
\* end of the buffer in which the cursor ran dry, dropping the remaining (empty) windows.  The shape of that failure, as a
\* predicate (kept for the as-found lead configuration WindowAgg.Lead_F18.cfg; with EWSAsFound = FALSE TableContract holds):
F18Shape == /\ c.agg \in Selectors /\ c.ce /\ c.tc = "none"
            /\ Len(tbl) < Len(texp) /\ Len(tbl) % OutCap = 0
            /\ IsPrefix(TObsSeq(c, tbl), TObsSeq(c, texp))
            /\ \A k \in (Len(tbl) + 1)..Len(texp) : texp[k].null
TableContractModuloF18 == tdone => (TObsSeq(c, tbl) = TObsSeq(c, texp) \/ F18Shape)

=============================================================================
