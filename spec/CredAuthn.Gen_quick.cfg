SPECIFICATION Spec
CONSTANTS
  Users = {1, 2}
  MaxT = 0
  MaxOps = 3
  Renewals = {TRUE, FALSE}
  SessLens = {"short", "long"}
  Forms = {"none", "token", "bearer", "phc", "basic", "jwt"}
  Mgmt = {"token", "user", "session"}

CHECK_DEADLOCK FALSE
