SPECIFICATION Spec
CONSTANTS
  Users = {1, 2}
  MaxT = 0
  MaxOps = 3
  Renewals = {TRUE, FALSE}
  SessLens = {"short", "long"}

CHECK_DEADLOCK FALSE
