SPECIFICATION Spec
CONSTANTS
  Names = {"n1", "n2"}
  MaxOps = 4
  MaxOrgs = 2
  MaxUsers = 2
  MaxBkts = 2
  SysTargets = {"_tasks", "_monitoring"}
  WithRemove = TRUE
INVARIANTS TypeOK
CHECK_DEADLOCK FALSE
