\* Lead: the model with the quirks of the code violates the contract (Inv_Default: DropRetentionPolicy of the default policy).  The counterexample is replayed on the real
\* client and counts only if it reproduces there (known finding default_rp_dangling_after_drop).  Run with one worker: the shortest counterexample.
SPECIFICATION Spec
CONSTANTS
  DBs = {"d1", "d2"}
  RPs = {"autogen", "r2", "r3"}
  WithEmptyDB = TRUE
  CDurs = {0, 7}
  CSGDs = {0}
  CReps = {1}
  XNames = {"", "r2"}
  XDurs = {99, 7}
  XSGDs = {0}
  XReps = {99}
  UNames = {"-", "autogen", "r2", "r3"}
  UDurs = {99, 3}
  USGDs = {99}
  UFull = FALSE
  AutoCreate = TRUE
  MaxSG = 1
  MaxOps = 3
  Record = TRUE
  Probing = FALSE
  NoOpSteps = FALSE
  DropKeepsDefault = TRUE
  RenameKeepsDefault = FALSE
  HalfYearIsLong = TRUE
  RenameAcceptsEmpty = TRUE
INVARIANTS Inv_Default
VIEW View
CHECK_DEADLOCK FALSE
