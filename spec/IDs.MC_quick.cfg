SPECIFICATION SpecGen
CONSTANTS
  Callers = {c1, c2, c3}
  MaxClock = 2
  MaxBack = 1
  SeqMax = 1
  MachMax = 1
  Machine = 1
  MaxAttempts = 2
  MaxCalls = 1
  UseCAS = TRUE
  AssumeNoFallbackOverflow = TRUE
  L = 3
  MaxLen = 5
INVARIANTS AllDistinct NonZero PerCallerIncreasing
PROPERTIES StateMonotone SuccLegal
CHECK_DEADLOCK FALSE
