SPECIFICATION Spec
CONSTANTS
  Slots = {1, 2}
  Scheds = {1, 2}
  MaxOps = 6
  CreateSkipsInactive = TRUE
INVARIANTS TypeOK OnlyActiveScheduled
VIEW View
CHECK_DEADLOCK FALSE
