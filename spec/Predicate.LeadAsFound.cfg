\* lead: the matcher as found (F36, bare measurement name popped like a tag pair): ModelAgrees is expected to be violated
SPECIFICATION Spec
CONSTANTS
  MeasSet <- AllStr
  KeySet <- Heavy4
  ValSet <- Heavy4
  TagCounts = {0, 1}
  LeafMode = "series"
  Shape = "leaf"
  SkipName = FALSE
  PredKeys <- Plain
  PredVals <- Plain
INVARIANTS KeyRoundTrips ModelAgrees
CHECK_DEADLOCK FALSE
