------------------------------ MODULE FieldSet ------------------------------
(* Field schema of a shard (tsdb.MeasurementFieldSet), its snapshot file fields.idx and change log fields.idxl,  *)
(* and partial writes (tsdb.Shard.WritePoints -> validateSeriesAndFields -> ValidateAndCreateFields).           *)
(* Properties C10 (one type per field, durably) and C40 (partial writes store exactly the accepted points).     *)
(*                                                                                                              *)
(* Implementation layer (what the code does, quirks included):                                                  *)
(*   mem    in-memory fields  Measurement -> (Field -> Type)         (volatile)                                  *)
(*   idx    fields.idx snapshot (absent = empty)                     (durable)                                   *)
(*   idxl   fields.idxl: sequence of change sets (AddField / DeleteMeasurement records)  (durable, O_SYNC)       *)
(*   trunc  the change manager's changeFileSize is 0 after open: the first append truncates what is there       *)
(*   stored points in cache+WAL+TSM (durable)                                                                    *)
(*   writers: Begin / Field (one LoadOrStore of CreateFieldIfNotExists) / Save (append change set) / Eng        *)
(*   sq     save requests are served one at a time, first come first served (the single SaveWriter goroutine)  *)
(*   maintenance: Drop (data + cleanupMeasurement) / DLog (Save(deletions)) / Close / C1 (rename tmp -> idx) /  *)
(*                C2 (remove idxl) / Open (load + ApplyChanges) / O2 (rebuild from data when empty) / Crash      *)
(*   QUIRK modelled with LogDeletes = FALSE: marshalFieldChanges drops DeleteMeasurement records (they have no   *)
(*   Field), so Save(deletions) appends an EMPTY change set.  LogDeletes = TRUE is the repaired design.          *)
(*   ReplayOverwrites = TRUE additionally lets a later change record win on replay (needed when a crash between  *)
(*   C1 and C2 leaves a new snapshot next to the old log).                                                       *)
(* Contract layer: ack (types carried by acknowledged writes and types of the fields they created, also by a     *)
(*   point that was then rejected -- they are saved with the batch; cleared by an acknowledged drop), touched (field *)
(*   types created since the last acknowledged drop), stored = accepted points, dropped counts.                  *)
(* Mode "input" (C40): the state is a case: pre-existing schema x key validation x batch, expected outcome.     *)
EXTENDS Integers, Sequences, FiniteSets, TLC

CONSTANTS Mode,          \* "hist" | "input"
          Meas, Fields,  \* {"m1","m2"}, {"f1","f2"}
          Writers,       \* hist: writer ids
          MaxOps,        \* hist: bound on operations (Begin, Drop, Close, Crash)
          MaxBatch,      \* points per batch
          LogDeletes,    \* FALSE: as the code is
          ReplayOverwrites, \* FALSE: as the code is (a contradicting AddField record aborts ApplyChanges); TRUE: later record wins
          PointSetName,  \* hist: "all" = HistPoints; "phantom" = three points that exercise a field created by a rejected point
          NoMaint,       \* hist: TRUE disables Drop and Close (directed generation configs)
          UseIds,        \* TRUE: every stored point carries the id of its write (generation); FALSE: ids 0 (checking)
          SchemaNames,   \* input: pre-existing schemas
          VKs            \* input: values of Config.ValidateKeys

VARIABLES up, mem, idx, idxl, trunc, stored, wr, sq, mt, loadErr,   \* implementation
          ack, touched,                                          \* contract
          nops, nextId, hist,                                    \* bookkeeping
          inp, out                                               \* input mode

implVars == <<up, mem, idx, idxl, trunc, stored, wr, sq, mt, loadErr>>
vars == <<up, mem, idx, idxl, trunc, stored, wr, sq, mt, loadErr, ack, touched, nops, nextId, hist, inp, out>>

Types == {"float", "int"}
None == "none"
EmptyM == [f \in Fields |-> None]
EmptySchema == [m \in Meas |-> EmptyM]
FT(f, t) == [f |-> f, t |-> t]
Pt(m, s, k, fs) == [m |-> m, s |-> s, k |-> k, fs |-> fs]
IsEmptySchema(s) == \A m \in Meas, f \in Fields : s[m][f] = None

\* ------------------------------------------------------------------ point universes
\* history mode: normal points, series tag determined by the types so that one (m, s, f) never changes type
STag(t1, t2) == IF t1 = "float" THEN (IF t2 = "float" THEN "ff" ELSE "fi") ELSE (IF t2 = "float" THEN "if" ELSE "ii")
HistPoints == {Pt(m, t, "n", <<FT(f, t)>>) : m \in Meas, f \in Fields, t \in Types}
         \cup {Pt(m, STag(t1, t2), "n", <<FT("f1", t1), FT("f2", t2)>>) : m \in Meas, t1 \in Types, t2 \in Types}
\* directed universe: P1 sets f2, P2 creates f1 and is then rejected on f2, P3 conflicts with the f1 that P2 left behind
PhantomPoints == {Pt("m1", "float", "n", <<FT("f2", "float")>>),
                  Pt("m1", "fi", "n", <<FT("f1", "float"), FT("f2", "int")>>),
                  Pt("m1", "int", "n", <<FT("f1", "int")>>)}
ThePoints == IF PointSetName = "phantom" THEN PhantomPoints ELSE HistPoints
\* input mode: the point classes of validateSeriesAndFields / ValidateAndCreateFields
C40Points == {
    Pt("m1", "a", "n", <<FT("f1", "float")>>),                       \* valid, or conflicting with an int f1
    Pt("m1", "a", "n", <<FT("f1", "int")>>),                         \* valid, or conflicting with a float f1
    Pt("m1", "b", "n", <<FT("f2", "float"), FT("f1", "int")>>),      \* two fields: f2 is created/checked before f1
    Pt("m2", "a", "n", <<FT("f1", "float")>>),                       \* another measurement
    Pt("m1", "a", "timetag", <<FT("f1", "float")>>),                 \* tag named `time`
    Pt("m1", "a", "n", <<FT("time", "float")>>),                     \* only field is named `time`
    Pt("m1", "c", "n", <<FT("time", "float"), FT("f1", "float")>>),  \* `time` field plus a valid field
    Pt("m1", "c", "n", <<FT("f1", "float"), FT("f2", "longstr")>>),  \* valid field, then an over-long string
    Pt("m1", "a", "badutf8", <<FT("f1", "float")>>),                 \* invalid UTF-8 in the key
    Pt("m1", "a", "n", <<>>) }                                       \* no fields at all
Batches(S) == UNION {[1..k -> S] : k \in 1..MaxBatch}
SchemaOf(n) == CASE n = "s0" -> EmptySchema
                 [] n = "s1" -> [EmptySchema EXCEPT !["m1"]["f1"] = "float"]
                 [] n = "s2" -> [EmptySchema EXCEPT !["m1"]["f1"] = "int", !["m1"]["f2"] = "int"]

\* ------------------------------------------------------------------ validation of one point / one batch (pure)
RECURSIVE ValFields(_, _, _)
\* ValidateAndCreateFields: size check, `time` skipped, LoadOrStore; returns at the first rejection, keeping what was created
ValFields(sch, fs, created) ==
    IF fs = <<>> THEN [sch |-> sch, created |-> created, ok |-> TRUE, why |-> "ok"]
    ELSE LET x == Head(fs) IN
         IF x.t = "longstr" THEN [sch |-> sch, created |-> created, ok |-> FALSE, why |-> "toolong"]
         ELSE IF x.f = "time" THEN ValFields(sch, Tail(fs), created)
         ELSE IF sch[x.f] = None THEN ValFields([sch EXCEPT ![x.f] = x.t], Tail(fs), Append(created, x))
         ELSE IF sch[x.f] = x.t THEN ValFields(sch, Tail(fs), created)
         ELSE [sch |-> sch, created |-> created, ok |-> FALSE, why |-> "conflict"]
HasTimeField(p) == \E i \in 1..Len(p.fs) : p.fs[i].f = "time"
ValidatePoint(sm, p, vk) ==
    IF p.k = "timetag" THEN [mem |-> sm, ok |-> FALSE, created |-> <<>>, why |-> "timetag"]
    ELSE IF p.k = "badutf8" /\ vk THEN [mem |-> sm, ok |-> FALSE, created |-> <<>>, why |-> "badutf8"]
    ELSE IF \A i \in 1..Len(p.fs) : p.fs[i].f = "time" THEN [mem |-> sm, ok |-> FALSE, created |-> <<>>, why |-> "nofield"]
    ELSE LET r == ValFields(sm[p.m], p.fs, <<>>) IN
         [mem |-> [sm EXCEPT ![p.m] = r.sch], ok |-> r.ok,
          created |-> [i \in 1..Len(r.created) |-> [c |-> "add", m |-> p.m, f |-> r.created[i].f, t |-> r.created[i].t]],
          why |-> IF r.ok /\ HasTimeField(p) THEN "timestripped" ELSE r.why]
RECURSIVE ValBatch(_, _, _, _, _)
ValBatch(sm, batch, i, vk, a) ==
    IF i > Len(batch) THEN [mem |-> sm, acc |-> a.acc, dropped |-> a.dropped, created |-> a.created, whys |-> a.whys]
    ELSE LET r == ValidatePoint(sm, batch[i], vk) IN
         ValBatch(r.mem, batch, i + 1, vk,
                  [acc |-> IF r.ok THEN Append(a.acc, i) ELSE a.acc, dropped |-> IF r.ok THEN a.dropped ELSE a.dropped + 1,
                   created |-> a.created \o r.created, whys |-> Append(a.whys, r.why)])
\* what an accepted point stores and is readable back (a field named `time` is not readable: H10, drift only)
StoredOf(p, id) == {[m |-> p.m, s |-> p.s, f |-> p.fs[j].f, t |-> p.fs[j].t, id |-> id] : j \in {k \in 1..Len(p.fs) : p.fs[k].f # "time"}}

\* ------------------------------------------------------------------ load: idx + change log
ApplyChange(r, c) ==
    IF r.err THEN r
    ELSE IF c.c = "del" THEN [r EXCEPT !.mem[c.m] = EmptyM]
    ELSE IF r.mem[c.m][c.f] = None THEN [r EXCEPT !.mem[c.m][c.f] = c.t]
    ELSE IF r.mem[c.m][c.f] = c.t THEN r
    ELSE IF ReplayOverwrites THEN [r EXCEPT !.mem[c.m][c.f] = c.t]
    ELSE [r EXCEPT !.err = TRUE]            \* "failed creating ...": ApplyChanges returns, the rest of the log is ignored
RECURSIVE ApplySet(_, _)
ApplySet(r, cs) == IF cs = <<>> THEN r ELSE ApplySet(ApplyChange(r, Head(cs)), Tail(cs))
RECURSIVE ApplyLog(_, _)
ApplyLog(r, log) == IF log = <<>> THEN r ELSE ApplyLog(ApplySet(r, Head(log)), Tail(log))
Load(sidx, log) == ApplyLog([mem |-> sidx, err |-> FALSE], log)
\* LoadMetadataIndex when the field set is empty: field types from the stored data
FromStored(st) == [m \in Meas |-> [f \in Fields |->
                     IF \E p \in st : p.m = m /\ p.f = f THEN (CHOOSE p \in st : p.m = m /\ p.f = f).t ELSE None]]

\* ------------------------------------------------------------------ history mode
IdleW == [pc |-> "idle", batch |-> <<>>, pi |-> 1, fi |-> 1, created |-> <<>>, acc |-> <<>>, dropped |-> 0, id |-> 0]
AllIdle == \A w \in Writers : wr[w].pc = "idle"
MtIdle == mt.pc = "idle"
Quiescent == up /\ AllIdle /\ MtIdle
\* observation after a step: implementation (mem, stored, loadErr) and contract (ack, touched)
ObsP(m2, s2, a2, t2, i2, l2, e2) == [mem |-> m2, stored |-> s2, ack |-> a2, touched |-> t2, loadErr |-> e2]

InitHist == /\ up = TRUE /\ mem = EmptySchema /\ idx = EmptySchema /\ idxl = <<>> /\ trunc = FALSE /\ stored = {}
            /\ wr = [w \in Writers |-> IdleW] /\ sq = <<>> /\ mt = [pc |-> "idle", m |-> "", next |-> ""] /\ loadErr = FALSE
            /\ ack = EmptySchema /\ touched = [m \in Meas |-> {}]
            /\ nops = 0 /\ nextId = 1 /\ hist = <<>> /\ inp = <<>> /\ out = <<>>

Begin(w, b) ==
    /\ up /\ MtIdle /\ wr[w].pc = "idle" /\ nops < MaxOps
    /\ wr' = [wr EXCEPT ![w] = [IdleW EXCEPT !.pc = "val", !.batch = b, !.id = IF UseIds THEN nextId ELSE 0]]
    /\ nops' = nops + 1 /\ nextId' = nextId + 1
    /\ hist' = Append(hist, [a |-> "begin", w |-> w, batch |-> b, id |-> IF UseIds THEN nextId ELSE 0])
    /\ UNCHANGED <<up, mem, idx, idxl, trunc, stored, sq, mt, loadErr, ack, touched, inp, out>>

\* one CreateFieldIfNotExists (LoadOrStore) of writer w
Field(w) ==
    /\ up /\ wr[w].pc = "val"
    /\ LET s  == wr[w]
           p  == s.batch[s.pi]
           x  == p.fs[s.fi]
           cur == mem[p.m][x.f]
           conflict == cur # None /\ cur # x.t
           lastF == s.fi = Len(p.fs)
           s1 == IF conflict THEN [s EXCEPT !.dropped = @ + 1, !.pi = @ + 1, !.fi = 1]
                 ELSE LET sc == IF cur = None THEN [s EXCEPT !.created = Append(@, [c |-> "add", m |-> p.m, f |-> x.f, t |-> x.t])] ELSE s
                      IN IF lastF THEN [sc EXCEPT !.acc = Append(@, s.pi), !.pi = @ + 1, !.fi = 1] ELSE [sc EXCEPT !.fi = @ + 1]
           s2 == IF s1.pi > Len(s.batch) THEN [s1 EXCEPT !.pc = IF s1.created # <<>> THEN "save" ELSE "eng"] ELSE s1
       IN /\ mem' = IF cur = None THEN [mem EXCEPT ![p.m][x.f] = x.t] ELSE mem
          /\ touched' = IF cur = None THEN [touched EXCEPT ![p.m] = @ \cup {<<x.f, x.t>>}] ELSE touched
          /\ wr' = [wr EXCEPT ![w] = s2]
          /\ sq' = IF s2.pc = "save" THEN Append(sq, w) ELSE sq
          /\ hist' = Append(hist, [a |-> "field", w |-> w, pc |-> s2.pc])
    /\ UNCHANGED <<up, idx, idxl, trunc, stored, mt, loadErr, ack, nops, nextId, inp, out>>

AppendLog(cs) == /\ idxl' = IF trunc THEN <<cs>> ELSE Append(idxl, cs)
                 /\ trunc' = FALSE

Save(w) ==
    /\ up /\ wr[w].pc = "save" /\ sq # <<>> /\ Head(sq) = w
    /\ AppendLog(wr[w].created)
    /\ wr' = [wr EXCEPT ![w].pc = "eng"]
    /\ sq' = Tail(sq)
    /\ hist' = Append(hist, [a |-> "save", w |-> w])
    /\ UNCHANGED <<up, mem, idx, stored, mt, loadErr, ack, touched, nops, nextId, inp, out>>

RECURSIVE AckOf(_, _, _)
AckOf(a, batch, acc) == IF acc = <<>> THEN a
                        ELSE LET p == batch[Head(acc)] IN
                             AckOf([a EXCEPT ![p.m] = [f \in Fields |-> IF \E j \in 1..Len(p.fs) : p.fs[j].f = f
                                                                          THEN (CHOOSE x \in {p.fs[j] : j \in 1..Len(p.fs)} : x.f = f).t
                                                                          ELSE @[f]]], batch, Tail(acc))
Eng(w) ==
    /\ up /\ wr[w].pc = "eng"
    /\ LET s == wr[w]
           st2 == stored \cup UNION {StoredOf(s.batch[s.acc[i]], s.id * 10 + s.acc[i]) : i \in 1..Len(s.acc)}
           \* types carried by the accepted points, and the fields this write created in memory: they were appended to the
           \* change log with the batch (createdFieldsToSave) even when the creating point was then rejected
           a1 == AckOf(ack, s.batch, s.acc)
           a2 == [m \in Meas |-> [f \in Fields |-> IF \E i \in 1..Len(s.created) : s.created[i].m = m /\ s.created[i].f = f
                                                    THEN (CHOOSE c \in {s.created[i] : i \in 1..Len(s.created)} : c.m = m /\ c.f = f).t
                                                    ELSE a1[m][f]]]
       IN /\ stored' = st2 /\ ack' = a2
          /\ hist' = Append(hist, [a |-> "ack", w |-> w, dropped |-> s.dropped, exp |-> ObsP(mem, st2, a2, touched, idx, idxl, loadErr)])
    /\ wr' = [wr EXCEPT ![w] = IdleW]
    /\ UNCHANGED <<up, mem, idx, idxl, trunc, sq, mt, loadErr, touched, nops, nextId, inp, out>>

\* Shard.DeleteMeasurement: series data, index, cleanupMeasurement (in-memory delete) ...
Drop(m) ==
    /\ Quiescent /\ nops < MaxOps /\ mem[m] # EmptyM /\ ~NoMaint
    /\ \E p \in stored : p.m = m      \* the measurement has series with data (otherwise DeleteMeasurement finds nothing to do)
    /\ stored' = {p \in stored : p.m # m}
    /\ mem' = [mem EXCEPT ![m] = EmptyM]
    /\ mt' = [pc |-> "dlog", m |-> m, next |-> ""]
    /\ nops' = nops + 1
    /\ hist' = Append(hist, [a |-> "drop", m |-> m])
    /\ UNCHANGED <<up, idx, idxl, trunc, wr, sq, loadErr, ack, touched, nextId, inp, out>>
\* ... then fieldset.Save(MeasurementsToFieldChangeDeletions)
DLog ==
    /\ up /\ mt.pc = "dlog"
    /\ AppendLog(IF LogDeletes THEN <<[c |-> "del", m |-> mt.m, f |-> "", t |-> ""]>> ELSE <<>>)
    /\ ack' = [ack EXCEPT ![mt.m] = EmptyM]
    /\ touched' = [touched EXCEPT ![mt.m] = {}]
    /\ mt' = [pc |-> "idle", m |-> "", next |-> ""]
    /\ hist' = Append(hist, [a |-> "dlog", m |-> mt.m, exp |-> ObsP(mem, stored, ack', touched', idx, idxl', loadErr)])
    /\ UNCHANGED <<up, mem, idx, stored, wr, sq, loadErr, nops, nextId, inp, out>>

\* Engine.Close -> MeasurementFieldSet.Close: WriteToFile iff the change log exists
Close ==
    /\ Quiescent /\ nops < MaxOps /\ ~NoMaint
    /\ up' = FALSE
    /\ mt' = IF idxl # <<>> THEN [pc |-> "c1", m |-> "", next |-> "closed"] ELSE [pc |-> "closed", m |-> "", next |-> ""]
    /\ nops' = nops + 1
    /\ hist' = Append(hist, [a |-> "close"])
    /\ UNCHANGED <<mem, idx, idxl, trunc, stored, wr, sq, loadErr, ack, touched, nextId, inp, out>>
\* WriteToFile: tmp file renamed over fields.idx (or fields.idx removed when there are no fields) ...
C1 ==
    /\ mt.pc = "c1"
    /\ idx' = mem
    /\ mt' = [mt EXCEPT !.pc = "c2"]
    /\ hist' = Append(hist, [a |-> "c1"])
    /\ UNCHANGED <<up, mem, idxl, trunc, stored, wr, sq, loadErr, ack, touched, nops, nextId, inp, out>>
\* ... then the change log is removed
C2 ==
    /\ mt.pc = "c2"
    /\ idxl' = <<>>
    /\ mt' = [pc |-> mt.next, m |-> "", next |-> ""]
    /\ hist' = Append(hist, [a |-> "c2"])
    /\ UNCHANGED <<up, mem, idx, trunc, stored, wr, sq, loadErr, ack, touched, nops, nextId, inp, out>>

\* NewMeasurementFieldSet: load fields.idx, ApplyChanges; WriteToFile when there were change sets and no error
Open ==
    /\ ~up /\ mt.pc \in {"closed", "crashed"}
    /\ LET r == Load(idx, idxl) IN
       /\ mem' = r.mem /\ loadErr' = r.err
       /\ mt' = IF r.err \/ idxl = <<>> THEN [pc |-> "o2", m |-> "", next |-> ""] ELSE [pc |-> "c1", m |-> "", next |-> "o2"]
    /\ trunc' = TRUE
    /\ hist' = Append(hist, [a |-> "open"])
    /\ UNCHANGED <<up, idx, idxl, stored, wr, sq, ack, touched, nops, nextId, inp, out>>
\* LoadMetadataIndex: rebuild from the data iff the field set is empty (then WriteToFile); the shard is up
O2 ==
    /\ mt.pc = "o2"
    /\ LET rebuild == IsEmptySchema(mem) /\ stored # {}
           m2 == IF rebuild THEN FromStored(stored) ELSE mem
           i2 == IF rebuild THEN m2 ELSE idx
           l2 == IF rebuild THEN <<>> ELSE idxl
       IN /\ mem' = m2 /\ idx' = i2 /\ idxl' = l2
          /\ hist' = Append(hist, [a |-> "up", exp |-> ObsP(m2, stored, ack, touched, i2, l2, loadErr)])
    /\ up' = TRUE
    /\ mt' = [pc |-> "idle", m |-> "", next |-> ""]
    /\ UNCHANGED <<trunc, stored, wr, sq, loadErr, ack, touched, nops, nextId, inp, out>>

\* process crash: volatile state is lost; every durable write already made stays (appends are O_SYNC);
\* a torn append is the state before the Save / DLog step (an incomplete change set is ignored by the loader)
Crash ==
    /\ nops < MaxOps /\ mt.pc # "crashed" /\ hist # <<>>
    /\ up' = FALSE /\ mem' = EmptySchema /\ loadErr' = FALSE
    /\ wr' = [w \in Writers |-> IdleW] /\ sq' = <<>>
    /\ mt' = [pc |-> "crashed", m |-> "", next |-> ""]
    /\ nops' = nops + 1
    /\ hist' = Append(hist, [a |-> "crash"])
    /\ UNCHANGED <<idx, idxl, trunc, stored, ack, touched, nextId, inp, out>>

InputStutter == Mode = "input" /\ UNCHANGED vars

\* ------------------------------------------------------------------ input mode (C40)
InitInput ==
    /\ up = TRUE /\ idx = EmptySchema /\ idxl = <<>> /\ trunc = FALSE /\ stored = {} /\ mem = EmptySchema
    /\ wr = [w \in Writers |-> IdleW] /\ sq = <<>> /\ mt = [pc |-> "idle", m |-> "", next |-> ""] /\ loadErr = FALSE
    /\ ack = EmptySchema /\ touched = [m \in Meas |-> {}] /\ nops = 0 /\ nextId = 1 /\ hist = <<>>
    /\ inp \in {[schema |-> n, vk |-> v, batch |-> b] : n \in SchemaNames, v \in VKs, b \in Batches(C40Points)}
    /\ LET r == ValBatch(SchemaOf(inp.schema), inp.batch, 1, inp.vk, [acc |-> <<>>, dropped |-> 0, created |-> <<>>, whys |-> <<>>])
       IN out = [dropped |-> r.dropped, acc |-> r.acc, mem |-> r.mem, whys |-> r.whys, created |-> r.created,
                 stored |-> UNION {StoredOf(inp.batch[r.acc[i]], r.acc[i]) : i \in 1..Len(r.acc)}]

Init == IF Mode = "input" THEN InitInput ELSE InitHist
\* (in input mode MaxOps = 0 disables every history action)
Next == \/ \E w \in Writers : \E b \in Batches(ThePoints) : Begin(w, b)
        \/ \E w \in Writers : Field(w)
        \/ \E w \in Writers : Save(w)
        \/ \E w \in Writers : Eng(w)
        \/ \E m \in Meas : Drop(m)
        \/ DLog \/ Close \/ C1 \/ C2 \/ Open \/ O2 \/ Crash
        \/ InputStutter
Spec == Init /\ [][Next]_vars

\* ------------------------------------------------------------------ contract (C10), evaluated in quiescent states
\* one type per field among the stored points
SingleType == \A p \in stored, q \in stored : (p.m = q.m /\ p.f = q.f) => p.t = q.t
\* what is stored is readable under the recorded type
StoredMatchesSchema == Quiescent => \A p \in stored : mem[p.m][p.f] = p.t
\* types carried by acknowledged writes survive restarts, clean or not
SchemaDurable == Quiescent => \A m \in Meas, f \in Fields : ack[m][f] # None => mem[m][f] = ack[m][f]
\* after an acknowledged drop nothing older than the drop comes back
DropIsDurable == Quiescent => \A m \in Meas, f \in Fields : mem[m][f] # None => <<f, mem[m][f]>> \in touched[m]
\* the loader never meets contradicting change records
LoadNeverFails == ~loadErr
\* a conflicting write is rejected: (acknowledged) dropped counts are checked by construction of Field; C40 contract:
C40Contract == Mode = "input" =>
    /\ out.dropped + Len(out.acc) = Len(inp.batch)
    /\ \A p \in out.stored : out.mem[p.m][p.f] = p.t

TypeOK == /\ up \in BOOLEAN /\ nops \in 0..MaxOps
View == <<up, mem, idx, idxl, trunc, stored, wr, sq, mt, loadErr, ack, touched, nops>>
=============================================================================
