SPECIFICATION Spec
CONSTANTS
  MaxT = 5
  MaxLen = 4
  Vals <- Vals3
  Cases <- AllCases
  ModeQuirk = FALSE
INVARIANTS TypeOK MachineFollowsDefinition NeverTooManyRows
CHECK_DEADLOCK FALSE
