SPECIFICATION Spec
CONSTANTS
  Family = "arrays"
  NTs = 7
  NFiles = 1
  NKeys = 1
  MaxBlocks = 1
  TombMode = "none"
  KeyMode = "full"
  MaxLen = 6
  PPBs <- PPBSmall
  NPicks = 0
  PickAt <- NoPick
INVARIANTS ArraysImplIsContract ArrayLemmas
CHECK_DEADLOCK FALSE
