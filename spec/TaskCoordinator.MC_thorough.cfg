SPECIFICATION Spec
CONSTANTS
  Slots = {1, 2, 3}
  Scheds = {1, 2}
  MaxOps = 8
  CreateSkipsInactive = TRUE
INVARIANTS TypeOK OnlyActiveScheduled
VIEW View
CHECK_DEADLOCK FALSE
