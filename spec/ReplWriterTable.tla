---------------------------- MODULE ReplWriterTable ----------------------------
(* Input-shaped table for C27's delay rule: every (answer, attempts, dropNonRetryable) - the state is the case, the     *)
(* expected (ok, wait) is WExp.  Replayed on the real remotewrite.NewWriter(...).Write(data, attempts).                 *)
EXTENDS Integers, ReplWriterRules
CONSTANTS Resps, MaxAtt
VARIABLES wcase, wexp
Init == /\ wcase \in [r : Resps, att : 0..MaxAtt, drop : BOOLEAN]
        /\ wexp = WriteResult(wcase.r, wcase.att, wcase.drop)
Next == UNCHANGED <<wcase, wexp>>
Spec == Init /\ [][Next]_<<wcase, wexp>>
\* the transcription of Write agrees with the contract form of the rule
WContract == /\ wexp.ok <=> (wcase.r = "204" \/ (wcase.r = "400" /\ wcase.drop))
             /\ ~wexp.ok => wexp.wait = ContractWait(wcase.r, wcase.att)
             /\ wexp.ok => wexp.wait = 0
=============================================================================
