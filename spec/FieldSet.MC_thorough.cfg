\* C10 design check, deeper
SPECIFICATION Spec
CONSTANTS
  Mode = "hist"
  Meas = {"m1", "m2"}
  Fields = {"f1", "f2"}
  Writers = {1}
  MaxOps = 4
  MaxBatch = 1
  LogDeletes = TRUE
  ReplayOverwrites = TRUE
  PointSetName = "all"
  NoMaint = FALSE
  UseIds = FALSE
  SchemaNames = {}
  VKs = {}
INVARIANTS TypeOK SingleType StoredMatchesSchema SchemaDurable DropIsDurable
VIEW View
CHECK_DEADLOCK FALSE
