SPECIFICATION Spec
CONSTANTS
  MaxGens = 3
  MinInit = 2
  Lvls = {1, 2, 3, 4}
  Shapes <- ShapesTwo
  Tombs = {TRUE, FALSE}
  MaxEnv = 1
  OutShapes <- ShapesTwo
  KeepHist = TRUE
  MaxHist = 3
  NoIdle = TRUE
INVARIANTS TypeOK EmitMaximal
CHECK_DEADLOCK FALSE
