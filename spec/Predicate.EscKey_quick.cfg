\* escape focus, tag keys range over every string of length <= 2; leaf predicates
SPECIFICATION Spec
CONSTANTS
  MeasSet <- Heavy4
  KeySet <- AllStr
  ValSet <- Heavy4
  TagCounts = {0, 1}
  LeafMode = "series"
  Shape = "leaf"
  PredKeys <- Plain
  PredVals <- Plain
INVARIANTS KeyRoundTrips ModelAgreesUnlessMeasEq
CHECK_DEADLOCK FALSE
