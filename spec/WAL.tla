------------------------------- MODULE WAL -------------------------------
(* The tsm1 write-ahead log: tsdb/engine/tsm1/wal.go (WAL, WALSegmentWriter, WALSegmentReader) and the replay of   *)
(* its segments by CacheLoader (cache.go).  Extension module XWAL (deepens C02, crash safety).                      *)
(*                                                                                                                   *)
(* Implementation layer (what the code keeps):                                                                       *)
(*   disk    durable segment files `_%05d.wal`, ordered by id: [id, items, g]; an item is the number of an operation *)
(*           (a whole entry: type byte + length + snappy block) or 0 = bytes that do not decode (a torn tail, or,    *)
(*           with HoleQuirk, the zero hole an append leaves after a truncation); g = size of those bytes             *)
(*   wr      id of the segment the open writer handle is on (0 = currentSegmentWriter is nil)        [volatile]     *)
(*   curId   WAL.currentSegmentID                                                                   [volatile]     *)
(*   buf     entries appended to the segment writer's bufio buffer whose callers wait for the fsync  [volatile]     *)
(*           (the pending-sync set of scheduleSync / syncWaiters, in append order)                                   *)
(*   wsize   WALSegmentWriter.size (the roll-over test reads it; after a reopen it is the file size *before* the    *)
(*           loader truncates a torn tail, so it can overstate the file)                             [volatile]     *)
(*   gap     HoleQuirk only: distance between the end of the file and the writer's file offset       [volatile]     *)
(*   up      the process runs and the WAL is open                                                                    *)
(* Sizes are abstract units; they decide which appends roll over.  The driver gives each decision its byte value:    *)
(* before an append it sets WAL.SegmentSize to the writer's current size (no roll-over) or to one byte less (roll).  *)
(*                                                                                                                   *)
(* Contract layer: `acked` (operations whose call returned nil, in append order), `dropped` (operations whose        *)
(* segment was handed to Remove), `maybe` (operations in flight when the process crashed).                           *)
(*   ReplayEqualsAcked   replaying the segments (CacheLoader: segment order, entry order, a segment ends at its     *)
(*                       first undecodable byte) yields exactly the acknowledged, not removed operations in order,   *)
(*                       plus at most operations that were in flight at a crash                                      *)
(*   AckedBeforeGarbage  a torn tail never hides an acknowledged entry                                               *)
(*   CurrentSegmentKept  Remove never takes the file the writer is on (RemovedOnlyClosed)                            *)
(*   SegmentIdsIncrease  files are created with ids above every id on disk                                           *)
(*   NoEntrySpansSegments every entry lies wholly in one segment, once                                               *)
(*   RollBound           a segment exceeds SegSize by at most its last entry                                         *)
EXTENDS Integers, Sequences, FiniteSets, TLC

CONSTANTS Keys, Times,
          SegSize,      \* WAL.SegmentSize in units
          Menu,         \* operation templates a client may issue
          MaxOps,       \* bound on the history length
          MaxEntries,   \* bound on the number of operations issued
          MaxPending,   \* bound on the number of callers waiting for one fsync
          Record,       \* TRUE: keep the history (generation configs); FALSE: only count steps (checking configs)
          HoleQuirk     \* TRUE: model WAL.Open seeking to the end of a torn segment before CacheLoader truncates it

VARIABLES disk, wr, curId, buf, wsize, gap, up, ops, acked, dropped, maybe, steps, hist
vars == <<disk, wr, curId, buf, wsize, gap, up, ops, acked, dropped, maybe, steps, hist>>

\* ---------------------------------------------------------------- operation templates
W(pts, sz)          == [kind |-> "w",  pts |-> pts, keys |-> {},   min |-> 0,  max |-> 0,  sz |-> sz]
DR(keys, lo, hi, sz) == [kind |-> "dr", pts |-> {},  keys |-> keys, min |-> lo, max |-> hi, sz |-> sz]
D(keys, sz)         == [kind |-> "d",  pts |-> {},  keys |-> keys, min |-> 0,  max |-> 0,  sz |-> sz]

MenuQuick == { W({<<"k1", 1>>}, 2),
               W({<<"k1", 2>>, <<"k2", 2>>}, 2),
               W({<<"k1", 1>>, <<"k1", 3>>, <<"k2", 1>>, <<"k2", 2>>}, 4),
               W({<<"k2", 3>>}, 4),
               DR({"k1"}, 1, 2, 2),
               DR({"k1", "k2"}, 2, 3, 4),
               D({"k2"}, 2) }
MenuThorough == MenuQuick \cup
             { W({<<"k1", 2>>, <<"k1", 3>>}, 2),
               W({<<"k2", 1>>}, 2),
               DR({"k2"}, 1, 1, 2),
               DR({"k1"}, 3, 3, 4),
               D({"k1", "k2"}, 2),
               D({"k1"}, 4) }
MenuLead == { W({<<"k1", 1>>}, 2), W({<<"k2", 2>>}, 2) }

\* ---------------------------------------------------------------- helpers
SetOf(s) == { s[i] : i \in DOMAIN s }
Min(S) == CHOOSE x \in S : \A y \in S : x <= y
RECURSIVE SumSz(_, _)
SumSz(os, items) == IF items = <<>> THEN 0
                    ELSE (IF Head(items) = 0 THEN 0 ELSE os[Head(items)].sz) + SumSz(os, Tail(items))
FileSize(os, s) == SumSz(os, s.items) + s.g
Ids(d) == { d[i].id : i \in DOMAIN d }
MaxId(d) == IF d = <<>> THEN 0 ELSE d[Len(d)].id

\* what WALSegmentReader hands out before its first error
Valid(items) == LET bad == { i \in DOMAIN items : items[i] = 0 }
                IN IF bad = {} THEN items ELSE SubSeq(items, 1, Min(bad) - 1)
RECURSIVE ReplayIds(_)
ReplayIds(d) == IF d = <<>> THEN <<>> ELSE Valid(Head(d).items) \o ReplayIds(Tail(d))

\* the cache CacheLoader builds: (key, time) -> number of the operation whose value is visible, 0 = no point
EmptyCache == [x \in Keys \X Times |-> 0]
Apply(c, os, n) ==
  LET o == os[n] IN
  CASE o.kind = "w"  -> [x \in Keys \X Times |-> IF x \in o.pts THEN n ELSE c[x]]
    [] o.kind = "dr" -> [x \in Keys \X Times |-> IF x[1] \in o.keys /\ o.min <= x[2] /\ x[2] <= o.max THEN 0 ELSE c[x]]
    [] o.kind = "d"  -> [x \in Keys \X Times |-> IF x[1] \in o.keys THEN 0 ELSE c[x]]
RECURSIVE Fold(_, _, _)
Fold(c, os, s) == IF s = <<>> THEN c ELSE Fold(Apply(c, os, Head(s)), os, Tail(s))
CacheSet(c) == { <<x[1], x[2], c[x]>> : x \in { y \in Keys \X Times : c[y] # 0 } }
DiskCache(d, os) == CacheSet(Fold(EmptyCache, os, ReplayIds(d)))

\* append items (after a hole of gp units, if the writer's offset is beyond the end of the file) to segment id
AppendTo(d, id, its, gp) ==
  [i \in DOMAIN d |-> IF d[i].id # id THEN d[i]
                      ELSE [d[i] EXCEPT !.items = @ \o (IF gp > 0 THEN <<0>> ELSE <<>>) \o its, !.g = @ + gp]]

Closed(d, w) == Ids(d) \ {w}
Obs(d, w, os) == [segs |-> d, cur |-> w, closed |-> Closed(d, w), cache |-> DiskCache(d, os)]
\* crash images while `its` is being flushed to segment id: the cache after the first j entries, j = 0..Len(its)
FlushCaches(d, id, its, gp, os) ==
  [i \in 1..(Len(its) + 1) |-> DiskCache(AppendTo(d, id, SubSeq(its, 1, i - 1), gp), os)]

\* ---------------------------------------------------------------- the writer (records of the volatile + durable parts)
St == [disk |-> disk, wr |-> wr, curId |-> curId, buf |-> buf, wsize |-> wsize, gap |-> gap, acked |-> acked]

\* WAL.sync under the lock: flush the bufio buffer, fsync, answer every waiter
Flush(st) == IF st.buf = <<>> THEN st
             ELSE [st EXCEPT !.disk = AppendTo(st.disk, st.wr, st.buf, st.gap), !.acked = @ \o st.buf,
                             !.buf = <<>>, !.gap = 0]
\* newSegmentFile: currentSegmentID++, closeCurrentSegmentFile (sync + close), create the next file
NewSeg(st) == LET f == Flush(st) IN
              [f EXCEPT !.curId = @ + 1, !.disk = Append(@, [id |-> f.curId + 1, items |-> <<>>, g |-> 0]),
                        !.wr = f.curId + 1, !.wsize = 0, !.gap = 0]
\* the critical section of writeToLog: rollSegment, then WALSegmentWriter.Write
Rolls(st) == st.wr = 0 \/ st.wsize > SegSize
DoAppend(st, n, sz) == LET r == IF Rolls(st) THEN NewSeg(st) ELSE st
                       IN [r EXCEPT !.buf = Append(@, n), !.wsize = @ + sz]

Install(st) == /\ disk' = st.disk /\ wr' = st.wr /\ curId' = st.curId /\ buf' = st.buf
               /\ wsize' = st.wsize /\ gap' = st.gap /\ acked' = st.acked

Init == /\ disk = <<>> /\ wr = 0 /\ curId = 0 /\ buf = <<>> /\ wsize = 0 /\ gap = 0 /\ up = TRUE
        /\ ops = <<>> /\ acked = <<>> /\ dropped = {} /\ maybe = {} /\ steps = 0 /\ hist = <<>>

Budget == steps < MaxOps
Log(rec) == /\ steps' = steps + 1
            /\ hist' = IF Record THEN Append(hist, rec) ELSE hist

\* one caller, nobody else waiting: WriteMulti / DeleteRange / Delete runs to its return (append, fsync, nil)
Write(t) ==
  /\ Budget /\ up /\ buf = <<>> /\ Len(ops) < MaxEntries
  /\ LET n   == Len(ops) + 1
         os  == Append(ops, t)
         s1  == DoAppend(St, n, t.sz)
         s2  == Flush(s1)
     IN /\ ops' = os /\ Install(s2)
        /\ UNCHANGED <<up, dropped, maybe>>
        /\ Log([a |-> "write", n |-> n, rolled |-> Rolls(St), fseg |-> s1.wr, flushed |-> s1.buf,
                                 caches |-> FlushCaches(s1.disk, s1.wr, s1.buf, s1.gap, os),
                                 exp |-> Obs(s2.disk, s2.wr, os)])

\* a caller appends under the lock and then waits for the fsync other callers may share (scheduleSync)
AppendOp(t) ==
  /\ Budget /\ up /\ Len(buf) < MaxPending /\ Len(ops) < MaxEntries
  /\ LET n   == Len(ops) + 1
         os  == Append(ops, t)
         s1  == DoAppend(St, n, t.sz)
     IN /\ ops' = os /\ Install(s1)
        /\ UNCHANGED <<up, dropped, maybe>>
        \* a roll-over syncs the old segment first: everything pending there is acknowledged
        /\ Log([a |-> "append", n |-> n, rolled |-> Rolls(St), fseg |-> wr,
                                 flushed |-> IF Rolls(St) THEN buf ELSE <<>>,
                                 caches |-> FlushCaches(disk, wr, IF Rolls(St) THEN buf ELSE <<>>, gap, os),
                                 exp |-> Obs(s1.disk, s1.wr, os)])

\* the sync goroutine: one fsync answers every waiter
Sync ==
  /\ Budget /\ up /\ buf # <<>>
  /\ LET s2 == Flush(St)
     IN /\ Install(s2)
        /\ UNCHANGED <<up, ops, dropped, maybe>>
        /\ Log([a |-> "sync", fseg |-> wr, flushed |-> buf,
                                 caches |-> FlushCaches(disk, wr, buf, gap, ops),
                                 exp |-> Obs(s2.disk, s2.wr, ops)])

\* WAL.CloseSegment: a new segment unless the current one is empty
CloseSegment ==
  /\ Budget /\ up
  /\ LET s2 == IF wr = 0 \/ wsize > 0 THEN NewSeg(St) ELSE St
     IN /\ Install(s2)
        /\ UNCHANGED <<up, ops, dropped, maybe>>
        /\ Log([a |-> "closeseg", fseg |-> wr, flushed |-> buf,
                                 caches |-> FlushCaches(disk, wr, buf, gap, ops),
                                 exp |-> Obs(s2.disk, s2.wr, ops)])

\* WAL.Remove(files) with files taken from WAL.ClosedSegments()
Remove(S) ==
  /\ Budget /\ up /\ S # {} /\ S \subseteq Closed(disk, wr)
  /\ LET d2 == SelectSeq(disk, LAMBDA s : s.id \notin S)
         gone == UNION { SetOf(disk[i].items) : i \in { j \in DOMAIN disk : disk[j].id \in S } }
     IN /\ disk' = d2
        /\ dropped' = dropped \cup (gone \ {0})
        /\ UNCHANGED <<wr, curId, buf, wsize, gap, up, ops, acked, maybe>>
        /\ Log([a |-> "remove", ids |-> S, exp |-> Obs(d2, wr, ops)])

\* WAL.Close: sync, answer the waiters, close the handle; the process ends
Close ==
  /\ Budget /\ up
  /\ LET s2 == Flush(St)
     IN /\ disk' = s2.disk /\ acked' = s2.acked
        /\ wr' = 0 /\ curId' = 0 /\ buf' = <<>> /\ wsize' = 0 /\ gap' = 0 /\ up' = FALSE
        /\ UNCHANGED <<ops, dropped, maybe>>
        /\ Log([a |-> "close", fseg |-> wr, flushed |-> buf,
                                 caches |-> FlushCaches(disk, wr, buf, gap, ops),
                                 exp |-> Obs(s2.disk, 0, ops)])

\* process crash: of the buffered entries the first j reached the file, and tz units of the next one (0 = none)
TornSizes(sz) == {0, 1, sz - 1}
Crash(j, tz) ==
  /\ Budget /\ up
  /\ j \in 0..Len(buf)
  /\ IF j < Len(buf) THEN tz \in TornSizes(ops[buf[j + 1]].sz) ELSE tz = 0
  /\ LET its == SubSeq(buf, 1, j) \o (IF tz > 0 THEN <<0>> ELSE <<>>)
         d1  == IF its = <<>> THEN disk ELSE AppendTo(disk, wr, its, gap)
         d2  == [i \in DOMAIN d1 |-> IF d1[i].id = wr THEN [d1[i] EXCEPT !.g = @ + tz] ELSE d1[i]]
     IN /\ disk' = d2
        /\ maybe' = maybe \cup SetOf(buf)
        /\ wr' = 0 /\ curId' = 0 /\ buf' = <<>> /\ wsize' = 0 /\ gap' = 0 /\ up' = FALSE
        /\ UNCHANGED <<ops, acked, dropped>>
        /\ Log([a |-> "crash", j |-> j, tz |-> tz, fseg |-> wr, inflight |-> buf,
                                 exp |-> Obs(d2, 0, ops)])

\* a new process, in the order Engine.Open uses: WAL.Open (continue the last segment, or delete it when it is empty),
\* then CacheLoader.Load over every segment file (truncating each at its first undecodable byte)
Reopen ==
  /\ Budget /\ ~up
  /\ LET n     == Len(disk)
         empty == n > 0 /\ FileSize(ops, disk[n]) = 0
         d1    == IF empty THEN SubSeq(disk, 1, n - 1) ELSE disk
         wr1   == IF n = 0 \/ empty THEN 0 ELSE disk[n].id
         ws    == IF wr1 = 0 THEN 0 ELSE FileSize(ops, disk[n])
         d2    == [i \in DOMAIN d1 |-> [d1[i] EXCEPT !.items = Valid(@), !.g = 0]]
         gp    == IF HoleQuirk /\ wr1 # 0 THEN ws - FileSize(ops, d2[Len(d2)]) ELSE 0
     IN /\ disk' = d2 /\ wr' = wr1 /\ curId' = MaxId(disk) /\ wsize' = ws /\ gap' = gp
        /\ buf' = <<>> /\ up' = TRUE
        /\ UNCHANGED <<ops, acked, dropped, maybe>>
        /\ Log([a |-> "reopen", loaded |-> DiskCache(disk, ops), exp |-> Obs(d2, wr1, ops)])

Next == \/ \E t \in Menu : Write(t)
        \/ \E t \in Menu : AppendOp(t)
        \/ Sync
        \/ CloseSegment
        \/ \E S \in SUBSET (1..MaxOps) : Remove(S)
        \/ Close
        \/ \E j \in 0..MaxPending : \E tz \in 0..3 : Crash(j, tz)
        \/ Reopen

Spec == Init /\ [][Next]_vars

\* ---------------------------------------------------------------- contract
Live == SelectSeq(acked, LAMBDA n : n \notin dropped)
ReplayEqualsAcked ==
  LET r == ReplayIds(disk)
  IN /\ SelectSeq(r, LAMBDA n : n \notin maybe) = Live
     /\ \A i \in DOMAIN r : r[i] \in SetOf(acked) \cup maybe
AckedBeforeGarbage ==
  \A s \in DOMAIN disk : \A i \in DOMAIN disk[s].items :
      disk[s].items[i] \in SetOf(acked) => \A j \in 1..(i - 1) : disk[s].items[j] # 0
CurrentSegmentKept == (up /\ wr # 0) => wr \in Ids(disk)
\* while the process runs, the file that disappears is never the one the writer is on
RemovedOnlyClosed == [][(up /\ up' /\ wr # 0) => wr \in Ids(disk')]_vars
IdsSorted == \A i \in 1..(Len(disk) - 1) : disk[i].id < disk[i + 1].id
SegmentIdsIncrease == [][\A id \in Ids(disk') \ Ids(disk) : \A o \in Ids(disk) : id > o]_vars
WriterOnLast == (up /\ wr # 0) => wr = MaxId(disk)
NoEntrySpansSegments ==
  \A n \in 1..Len(ops) :
     Cardinality({ p \in { <<s, i>> : s \in DOMAIN disk, i \in 1..MaxEntries + 2 } :
                     p[2] \in DOMAIN disk[p[1]].items /\ disk[p[1]].items[p[2]] = n }) <= 1
RollBound == \A s \in DOMAIN disk :
                LET v == disk[s].items IN
                (v # <<>> /\ \A i \in DOMAIN v : v[i] # 0) => SumSz(ops, SubSeq(v, 1, Len(v) - 1)) <= SegSize
PendingAreUnacked == SetOf(buf) \cap SetOf(acked) = {}
TypeOK == /\ wr \in Nat /\ curId \in Nat /\ wsize \in Nat /\ gap \in Nat /\ up \in BOOLEAN
          /\ (~up => (wr = 0 /\ buf = <<>>))
          /\ (buf # <<>> => wr # 0)

View == <<disk, wr, curId, buf, wsize, gap, up, ops, acked, dropped, maybe>>
=============================================================================
