------------------------------- MODULE Tenant -------------------------------
(* Tenant metadata of influxdb (package tenant over a kv store): organizations, buckets, users and    *)
(* organization memberships (user resource mappings, URMs), with the name indexes the code keeps.     *)
(*                                                                                                    *)
(* Implementation layer: one record table and one name index per kind, updated the way the code does  *)
(*   organizationsv1 / organizationindexv1   (storage_org.go)                                         *)
(*   bucketsv1 / bucketindexv1 keyed by (org, name)   (storage_bucket.go)                             *)
(*   usersv1 / userindexv1   (storage_user.go),  userresourcemappingsv1 keyed (resource, user)        *)
(* Service level operations are single actions (the property is about sequential histories; the       *)
(* several kv transactions of CreateOrganization / DeleteOrganization are not interleaved here).      *)
(* Contract layer (C30): the invariants at the end.                                                   *)
(* Ids are opaque in the code; here the k-th successfully created object of a kind has id k and the   *)
(* two system buckets of organization o have ids SysId(o, name).                                      *)
EXTENDS Integers, Sequences, FiniteSets, TLC

CONSTANTS Names,      \* user-chosen names (strings), shared by orgs, buckets and users
          MaxOps,     \* bound on the history length
          MaxOrgs, MaxUsers, MaxBkts,   \* bounds on successful creations per kind
          SysTargets, \* which system buckets the delete/rename attempts address (subset of SysNames)
          WithRemove  \* BOOLEAN: include explicit membership removal

VARIABLES orgs,     \* live org id -> name
          orgIdx,   \* name -> org id
          bkts,     \* live bucket id -> [o |-> org id, n |-> name]
          bktIdx,   \* <<org id, name>> -> bucket id
          users,    \* live user id -> name
          userIdx,  \* name -> user id
          urms,     \* set of <<user id, org id>>   (resource type orgs)
          nOrg, nUser, nBkt,   \* successful creations so far (ids 1..n were handed out)
          hist

vars == <<orgs, orgIdx, bkts, bktIdx, users, userIdx, urms, nOrg, nUser, nBkt, hist>>

SysNames == {"_tasks", "_monitoring"}
SysId(o, n) == IF n = "_tasks" THEN 100 + 2 * o ELSE 101 + 2 * o
IsSys(b) == b >= 100
Empty == [x \in {} |-> 0]
Without(f, k) == [x \in DOMAIN f \ {k} |-> f[x]]
With(f, k, v) == [x \in DOMAIN f \cup {k} |-> IF x = k THEN v ELSE f[x]]

EverOrgs == 1..nOrg
EverUsers == 1..nUser
EverBkts == (1..nBkt) \cup {SysId(o, n) : o \in EverOrgs, n \in SysTargets}

\* ---------------------------------------------------------------- observation (what a client can list)
Counts == <<Cardinality(DOMAIN orgs), Cardinality(DOMAIN bkts), Cardinality(DOMAIN users), Cardinality(urms)>>
Log(a, args, ok) == hist' = Append(hist, [a |-> a, x |-> args, ok |-> ok, c |-> Counts'])
Same == UNCHANGED <<orgs, orgIdx, bkts, bktIdx, users, userIdx, urms, nOrg, nUser, nBkt>>

Init == /\ orgs = Empty /\ orgIdx = Empty /\ bkts = Empty /\ bktIdx = Empty
        /\ users = Empty /\ userIdx = Empty /\ urms = {}
        /\ nOrg = 0 /\ nUser = 0 /\ nBkt = 0 /\ hist = <<>>

\* ---------------------------------------------------------------- organizations
\* OrgSvc.CreateOrganization: Store.CreateOrg (uniqueOrgName on the index), then the two system buckets.
CreateOrg(n) ==
  /\ Len(hist) < MaxOps
  /\ nOrg < MaxOrgs
  /\ IF n \in DOMAIN orgIdx
     THEN Same /\ Log("createOrg", <<n>>, FALSE)
     ELSE LET o == nOrg + 1 IN
          /\ nOrg' = o
          /\ orgs' = With(orgs, o, n)
          /\ orgIdx' = With(orgIdx, n, o)
          /\ bkts' = [b \in DOMAIN bkts \cup {SysId(o, s) : s \in SysNames} |->
                        IF b \in DOMAIN bkts THEN bkts[b]
                        ELSE [o |-> o, n |-> (IF b = SysId(o, "_tasks") THEN "_tasks" ELSE "_monitoring")]]
          /\ bktIdx' = [k \in DOMAIN bktIdx \cup {<<o, s>> : s \in SysNames} |->
                        IF k \in DOMAIN bktIdx THEN bktIdx[k] ELSE SysId(o, k[2])]
          /\ UNCHANGED <<users, userIdx, urms, nUser, nBkt>>
          /\ Log("createOrg", <<n>>, TRUE)

\* Store.UpdateOrg: same name is a no-op; otherwise uniqueOrgName, delete old index key, put new one.
RenameOrg(o, n) ==
  /\ Len(hist) < MaxOps
  /\ o \in EverOrgs
  /\ IF o \notin DOMAIN orgs THEN Same /\ Log("renameOrg", <<o, n>>, FALSE)
     ELSE IF orgs[o] = n THEN Same /\ Log("renameOrg", <<o, n>>, TRUE)
     ELSE IF n \in DOMAIN orgIdx THEN Same /\ Log("renameOrg", <<o, n>>, FALSE)
     ELSE /\ orgIdx' = With(Without(orgIdx, orgs[o]), n, o)
          /\ orgs' = [orgs EXCEPT ![o] = n]
          /\ UNCHANGED <<bkts, bktIdx, users, userIdx, urms, nOrg, nUser, nBkt>>
          /\ Log("renameOrg", <<o, n>>, TRUE)

\* OrgSvc.DeleteOrganization: buckets of the org (found through the bucket index, system buckets included),
\* the org record and its index entry, then the memberships whose resource is the org.
DeleteOrg(o) ==
  /\ Len(hist) < MaxOps
  /\ o \in EverOrgs
  /\ IF o \notin DOMAIN orgs THEN Same /\ Log("deleteOrg", <<o>>, FALSE)
     ELSE LET gone == {bktIdx[k] : k \in {kk \in DOMAIN bktIdx : kk[1] = o}} IN
          /\ bkts' = [b \in DOMAIN bkts \ gone |-> bkts[b]]
          /\ bktIdx' = [k \in {kk \in DOMAIN bktIdx : kk[1] # o} |-> bktIdx[k]]
          /\ orgIdx' = Without(orgIdx, orgs[o])
          /\ orgs' = Without(orgs, o)
          /\ urms' = {m \in urms : m[2] # o}
          /\ UNCHANGED <<users, userIdx, nOrg, nUser, nBkt>>
          /\ Log("deleteOrg", <<o>>, TRUE)

\* ---------------------------------------------------------------- buckets
\* BucketSvc.CreateBucket (type user): org must exist, names starting with '_' are reserved, unique per org.
CreateBkt(o, n) ==
  /\ Len(hist) < MaxOps
  /\ o \in EverOrgs /\ nBkt < MaxBkts
  /\ IF o \notin DOMAIN orgs \/ n \in SysNames \/ <<o, n>> \in DOMAIN bktIdx
     THEN Same /\ Log("createBkt", <<o, n>>, FALSE)
     ELSE LET b == nBkt + 1 IN
          /\ nBkt' = b
          /\ bkts' = With(bkts, b, [o |-> o, n |-> n])
          /\ bktIdx' = With(bktIdx, <<o, n>>, b)
          /\ UNCHANGED <<orgs, orgIdx, users, userIdx, urms, nOrg, nUser>>
          /\ Log("createBkt", <<o, n>>, TRUE)

\* Store.UpdateBucket: same name no-op (also for system buckets); system buckets cannot be renamed;
\* reserved names refused; unique within the org; index key moved.
RenameBkt(b, n) ==
  /\ Len(hist) < MaxOps
  /\ b \in EverBkts
  /\ IF b \notin DOMAIN bkts THEN Same /\ Log("renameBkt", <<b, n>>, FALSE)
     ELSE IF bkts[b].n = n THEN Same /\ Log("renameBkt", <<b, n>>, TRUE)
     ELSE IF IsSys(b) \/ n \in SysNames \/ <<bkts[b].o, n>> \in DOMAIN bktIdx
          THEN Same /\ Log("renameBkt", <<b, n>>, FALSE)
     ELSE /\ bktIdx' = With(Without(bktIdx, <<bkts[b].o, bkts[b].n>>), <<bkts[b].o, n>>, b)
          /\ bkts' = [bkts EXCEPT ![b].n = n]
          /\ UNCHANGED <<orgs, orgIdx, users, userIdx, urms, nOrg, nUser, nBkt>>
          /\ Log("renameBkt", <<b, n>>, TRUE)

\* BucketSvc.DeleteBucket through the public API (not the internal context): system buckets refused.
DeleteBkt(b) ==
  /\ Len(hist) < MaxOps
  /\ b \in EverBkts
  /\ IF b \notin DOMAIN bkts \/ IsSys(b) THEN Same /\ Log("deleteBkt", <<b>>, FALSE)
     ELSE /\ bktIdx' = Without(bktIdx, <<bkts[b].o, bkts[b].n>>)
          /\ bkts' = Without(bkts, b)
          /\ UNCHANGED <<orgs, orgIdx, users, userIdx, urms, nOrg, nUser, nBkt>>
          /\ Log("deleteBkt", <<b>>, TRUE)

\* ---------------------------------------------------------------- users
CreateUser(n) ==
  /\ Len(hist) < MaxOps
  /\ nUser < MaxUsers
  /\ IF n \in DOMAIN userIdx THEN Same /\ Log("createUser", <<n>>, FALSE)
     ELSE LET u == nUser + 1 IN
          /\ nUser' = u
          /\ users' = With(users, u, n)
          /\ userIdx' = With(userIdx, n, u)
          /\ UNCHANGED <<orgs, orgIdx, bkts, bktIdx, urms, nOrg, nBkt>>
          /\ Log("createUser", <<n>>, TRUE)

RenameUser(u, n) ==
  /\ Len(hist) < MaxOps
  /\ u \in EverUsers
  /\ IF u \notin DOMAIN users THEN Same /\ Log("renameUser", <<u, n>>, FALSE)
     ELSE IF users[u] = n THEN Same /\ Log("renameUser", <<u, n>>, TRUE)
     ELSE IF n \in DOMAIN userIdx THEN Same /\ Log("renameUser", <<u, n>>, FALSE)
     ELSE /\ userIdx' = With(Without(userIdx, users[u]), n, u)
          /\ users' = [users EXCEPT ![u] = n]
          /\ UNCHANGED <<orgs, orgIdx, bkts, bktIdx, urms, nOrg, nUser, nBkt>>
          /\ Log("renameUser", <<u, n>>, TRUE)

\* Store.DeleteUser also removes the user's memberships (by-user index walk).
DeleteUser(u) ==
  /\ Len(hist) < MaxOps
  /\ u \in EverUsers
  /\ IF u \notin DOMAIN users THEN Same /\ Log("deleteUser", <<u>>, FALSE)
     ELSE /\ userIdx' = Without(userIdx, users[u])
          /\ users' = Without(users, u)
          /\ urms' = {m \in urms : m[1] # u}
          /\ UNCHANGED <<orgs, orgIdx, bkts, bktIdx, nOrg, nUser, nBkt>>
          /\ Log("deleteUser", <<u>>, TRUE)

\* ---------------------------------------------------------------- memberships
\* Store.CreateURM checks the user, not the resource: only generated for live organizations (DESIGN 5.18).
AddMember(u, o) ==
  /\ Len(hist) < MaxOps
  /\ u \in EverUsers /\ o \in DOMAIN orgs
  /\ IF u \notin DOMAIN users \/ <<u, o>> \in urms THEN Same /\ Log("addMember", <<u, o>>, FALSE)
     ELSE /\ urms' = urms \cup {<<u, o>>}
          /\ UNCHANGED <<orgs, orgIdx, bkts, bktIdx, users, userIdx, nOrg, nUser, nBkt>>
          /\ Log("addMember", <<u, o>>, TRUE)

RemoveMember(u, o) ==
  /\ Len(hist) < MaxOps
  /\ WithRemove
  /\ u \in EverUsers /\ o \in EverOrgs
  /\ IF <<u, o>> \notin urms THEN Same /\ Log("removeMember", <<u, o>>, FALSE)
     ELSE /\ urms' = urms \ {<<u, o>>}
          /\ UNCHANGED <<orgs, orgIdx, bkts, bktIdx, users, userIdx, nOrg, nUser, nBkt>>
          /\ Log("removeMember", <<u, o>>, TRUE)

\* the quantifier domains are constant sets so that TLC reports coverage per action; the actions themselves guard on
\* the ids handed out so far
OrgIds == 1..MaxOrgs
UserIds == 1..MaxUsers
BktIds == (1..MaxBkts) \cup {SysId(o, n) : o \in OrgIds, n \in SysTargets}
BktNames == Names \cup {"_tasks"}
Next == \/ \E n \in Names : CreateOrg(n)
        \/ \E o \in OrgIds, n \in Names : RenameOrg(o, n)
        \/ \E o \in OrgIds : DeleteOrg(o)
        \/ \E o \in OrgIds, n \in BktNames : CreateBkt(o, n)
        \/ \E b \in BktIds, n \in BktNames : RenameBkt(b, n)
        \/ \E b \in BktIds : DeleteBkt(b)
        \/ \E n \in Names : CreateUser(n)
        \/ \E u \in UserIds, n \in Names : RenameUser(u, n)
        \/ \E u \in UserIds : DeleteUser(u)
        \/ \E u \in UserIds, o \in OrgIds : AddMember(u, o)
        \/ \E u \in UserIds, o \in OrgIds : RemoveMember(u, o)

Spec == Init /\ [][Next]_vars

\* ---------------------------------------------------------------- contract (C30)
UniqueOrgNames  == \A a, b \in DOMAIN orgs : a # b => orgs[a] # orgs[b]
UniqueUserNames == \A a, b \in DOMAIN users : a # b => users[a] # users[b]
UniqueBktNamesPerOrg ==
    \A a, b \in DOMAIN bkts : (a # b /\ bkts[a].o = bkts[b].o) => bkts[a].n # bkts[b].n
\* every name lookup agrees with the record it indexes: the index is exactly the inverse of the table
LookupAgrees ==
    /\ \A n \in DOMAIN orgIdx : orgIdx[n] \in DOMAIN orgs /\ orgs[orgIdx[n]] = n
    /\ \A o \in DOMAIN orgs : orgs[o] \in DOMAIN orgIdx /\ orgIdx[orgs[o]] = o
    /\ \A n \in DOMAIN userIdx : userIdx[n] \in DOMAIN users /\ users[userIdx[n]] = n
    /\ \A u \in DOMAIN users : users[u] \in DOMAIN userIdx /\ userIdx[users[u]] = u
    /\ \A k \in DOMAIN bktIdx : bktIdx[k] \in DOMAIN bkts /\ bkts[bktIdx[k]].o = k[1] /\ bkts[bktIdx[k]].n = k[2]
    /\ \A b \in DOMAIN bkts : <<bkts[b].o, bkts[b].n>> \in DOMAIN bktIdx /\ bktIdx[<<bkts[b].o, bkts[b].n>>] = b
\* deleting an organization removes its buckets and memberships: nothing refers to a dead organization
NoOrphans ==
    /\ \A b \in DOMAIN bkts : bkts[b].o \in DOMAIN orgs
    /\ \A m \in urms : m[2] \in DOMAIN orgs /\ m[1] \in DOMAIN users
\* system buckets of a live organization are always there, under their own names
SystemBucketsIntact ==
    \A o \in DOMAIN orgs : \A s \in SysNames :
        SysId(o, s) \in DOMAIN bkts /\ bkts[SysId(o, s)] = [o |-> o, n |-> s]
TypeOK == nOrg \in 0..MaxOrgs /\ nUser \in 0..MaxUsers /\ nBkt \in 0..MaxBkts

View == <<orgs, orgIdx, bkts, bktIdx, users, userIdx, urms, nOrg, nUser, nBkt>>
=============================================================================
