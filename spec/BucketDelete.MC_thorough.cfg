SPECIFICATION Spec
CONSTANTS
  Series = {1, 2, 3}
  Times = {1, 2, 3}
  Preds <- PredsMC3
  Ranges <- RangesMCq
  InitFam <- FamMC
  Inits <- InitsMCq
  WTimeSets <- WTimeSetsMC
  NWriters = 2
  MaxWrites = 2
  PlanMode = FALSE
  KeepHist = FALSE
  HookGran = FALSE
INVARIANTS TypeOK ExactData MetadataExact NonConflictingWriteNeverBlocked NonConflictingWriteEnabled DeleteWaitsForEarlierWriters ConflictingWriteWaits
VIEW View
