\* Generation: the model as the code behaves (a primary key may change its foreign key: stale entries included).  One witness history per distinct state of the two buckets (VIEW hides hist, lvl, nops) plus one probe state per operation and state.
SPECIFICATION Spec
CONSTANTS
  FKs = {"f1", "f2"}
  Rs = {"p1", "p2", "p3"}
  Tied = FALSE
  Urm = FALSE
  BadFKs = {}
  BadPKs = {}
  Atomic = TRUE
  Restamp = TRUE
  WithAbort = TRUE
  MaxOps = 9
  Record = TRUE
  Probing = TRUE
  NoOpSteps = FALSE
INVARIANTS TypeOK
VIEW View
CHECK_DEADLOCK FALSE
