------------------------------ MODULE TSMEngine ------------------------------
(* Specification of the tsm1 storage engine of one shard (tsdb/engine/tsm1): cache (hot store + snapshot), *)
(* WAL segments, TSM files ordered by (generation, sequence) with tombstones, the cache-snapshot commit     *)
(* sequence, the compaction of a group of files, range deletes, reads, and clean close/open.               *)
(*                                                                                                         *)
(* CONTRACT LAYER (what properties C01 / C03 name)                                                         *)
(*   model    last-write-wins map of acknowledged points, deletes applied at their acknowledgement         *)
(*   written  every acknowledged point <<key, time, value>> (values are numbered, so they are unique)      *)
(*   dead     points covered by an acknowledged delete (written before the delete began)                   *)
(*   C01  ReadEqualsModel : whenever no write/delete is half-applied, every read (key, lo..hi, asc|desc)    *)
(*        returns exactly the model's points in range, in time order.                                      *)
(*   C03  NoResurrection  : a dead point is never visible again.                                           *)
(*                                                                                                         *)
(* IMPLEMENTATION LAYER (one action per critical section of the anchored code, engine.go unless noted)     *)
(*   Write | CacheWrite ; WriteAck          WritePoints: Cache.WriteMulti ; WAL.WriteMulti (under mu.RLock) *)
(*   SnapBegin      doWriteSnapshot: under mu.Lock  WAL.CloseSegment + ClosedSegments + Cache.Snapshot      *)
(*   SnapWrite      writeSnapshotAndCommit: Compactor.WriteSnapshot (tmp files; FileStore.NextGeneration)  *)
(*   SnapReplace    mu.RLock ; FileStore.Replace(nil, newFiles)                                            *)
(*   SnapClear      Cache.ClearSnapshot(true)                 (still under mu.RLock)                       *)
(*   SnapWALRemove  WAL.Remove(closed segments) ; mu.RUnlock                                               *)
(*   CompactStart   a compactionStrategy is started on a contiguous group (the planner is C05's subject)   *)
(*   CompactMerge   Compactor.CompactFull/CompactFast: merge as the readers (tombstones applied) see it     *)
(*   CompactReplace FileStore.Replace(group, newFiles): output = (max generation, its sequence + 1)        *)
(*   CompactAbort   compaction interrupted by Compactor.DisableCompactions (a delete began)                *)
(*   DeleteCall     DeleteSeriesRange: disableLevelCompactions(true) = mu.Lock, Compactor.DisableCompactions,*)
(*                  then wait for running compactions -- NOT for snapshots (comment at engine.go:1521)      *)
(*   DeleteProceed  the wait for running compactions is over                                               *)
(*   DeleteTombstone deleteSeriesRange: tombstones on the TSM files present in the FileStore now           *)
(*   DeleteCache    Cache.DeleteRange: filters the hot store only (the snapshot store is not touched)      *)
(*   DeleteWAL      WAL.DeleteRange entry for the keys that were found in the hot store (none => no entry) *)
(*   DeleteAck      enableLevelCompactions(true) = mu.Lock ; return nil                                    *)
(*   Reopen         Shard.Close (no flush) ; Shard.Open: FileStore.Open, WAL replay into the cache          *)
(*   Visible        exactly how the read path composes a series: TSM files in (generation, sequence) order, *)
(*                  later file wins, each file's tombstones mask only that file; then Cache.Values =        *)
(*                  snapshot store then hot store, last occurrence wins; cache wins over TSM on equal time. *)
(*                                                                                                         *)
(* DELIBERATE ABSTRACTIONS                                                                                 *)
(*   - a cache entry is the map time -> value (arrival-ordered values + Deduplicate(last wins) = overwrite) *)
(*   - one TSM file per snapshot / compaction output (small data), blocks are TSMMerge.tla's subject        *)
(*   - at most one compaction and one delete in flight (the code allows several compactions on disjoint    *)
(*     groups; C39 will generalise cj to a set of jobs); one snapshot at a time is the code's own rule       *)
(*     (Cache.Snapshot returns ErrSnapshotInProgress)                                                      *)
(*   - a tombstone is recorded per point it masks (the code records [min,max] ranges per key)              *)
(*   - the engine mutex mu is modelled by MuFree: mu.Lock-takers are instantaneous, RLock is held by a      *)
(*     half-applied write and by the snapshot commit from SnapReplace to SnapWALRemove                     *)
(*   - environment restrictions are CONSTANTS: SnapDeleteOverlap (may a delete and a snapshot be in flight  *)
(*     together -- defect F1 lives there), SplitWrites; no write touches the points of a delete in flight   *)
(*     (that race is C39's).  Crash, backup/restore/export are added by C02 / C38.                         *)
EXTENDS Integers, Sequences, FiniteSets, TLC

CONSTANTS
  Keys,               \* 1..n : abstract series keys (integers, so that batches have a canonical order)
  Times,              \* 1..m : abstract timestamps (the driver maps them around 0 / MinNanoTime / MaxNanoTime)
  BatchSizes,         \* subset of {1, 2}: points per write
  DupInBatch,         \* TRUE: a 2-point batch may write the same (key, time) twice (the later value wins)
  MaxPoints, MaxSnaps, MaxCompacts, MaxDeletes, MaxReopens,
  MinGroup,           \* least number of files in a compaction group (1: single-file rewrites allowed)
  SplitWrites,        \* TRUE: a write is CacheWrite ; WriteAck (C02/C39); FALSE: one atomic step
  SnapDeleteOverlap,  \* TRUE: a delete and a cache snapshot may be in flight at the same time
  MaxOps              \* bound on Len(hist); larger than any history in checking configs

VARIABLES
  hot,      \* Cache.store           : Keys -> Times -> value or None
  snap,     \* Cache.snapshot.store  : same shape; Empty when no snapshot is being written
  sj,       \* snapshot job  [pc, gen, nclosed]     pc: idle | snapped | written | replaced | cleared
  files,    \* FileStore.files : sequence of [gen, seq, data, tomb], sorted by (gen, seq)
  nextGen,  \* FileStore.currentGeneration + 1
  wal,      \* sequence of segments (last one is the current segment); a segment is a sequence of entries
  cj,       \* compaction job [pc, lo, hi, out]     pc: idle | planned | merged ; group = files[lo..hi]
  dj,       \* delete job     [pc, k, lo, hi, wkeys] pc: idle | called | begun | tombstoned | cached | logged
  wj,       \* write in flight [pc, pts]            pc: idle | cached
  model, written, dead,     \* contract layer
  nw, ns, nc, nd, nr,       \* operation counters (bounds)
  hist                      \* history for replay: sequence of [a, <args>, exp]

vars == <<hot, snap, sj, files, nextGen, wal, cj, dj, wj, model, written, dead, nw, ns, nc, nd, nr, hist>>
View == <<hot, snap, sj, files, nextGen, wal, cj, dj, wj, model, written, dead, nw, ns, nc, nd, nr>>

None   == 0
Empty  == [k \in Keys |-> [t \in Times |-> None]]
Points == Keys \X Times
MinT   == CHOOSE t \in Times : \A u \in Times : t <= u
MaxT   == CHOOSE t \in Times : \A u \in Times : u <= t
InRange(t, lo, hi) == lo <= t /\ t <= hi

\* ------------------------------------------------------------------ data maps
RECURSIVE ApplyPts(_, _)
ApplyPts(m, pts) == IF pts = <<>> THEN m
                    ELSE ApplyPts([m EXCEPT ![pts[1][1]][pts[1][2]] = pts[1][3]], Tail(pts))
Filter(m, k, lo, hi) == [m EXCEPT ![k] = [t \in Times |-> IF InRange(t, lo, hi) THEN None ELSE @[t]]]
FilterKeys(m, ks, lo, hi) == [k \in Keys |-> IF k \in ks THEN [t \in Times |-> IF InRange(t, lo, hi) THEN None ELSE m[k][t]]
                                             ELSE m[k]]
Overlay(below, above) == [k \in Keys |-> [t \in Times |-> IF above[k][t] # None THEN above[k][t] ELSE below[k][t]]]
HasKey(m, k) == \E t \in Times : m[k][t] # None

\* ------------------------------------------------------------------ the read path
FileVisible(f) == [k \in Keys |-> [t \in Times |-> IF <<k, t>> \in f.tomb THEN None ELSE f.data[k][t]]]
RECURSIVE FilesVisible(_, _, _)
\* files fs[lo..hi] merged in order: the later file wins (KeyCursor / TSMBatchKeyIterator)
FilesVisible(fs, lo, hi) == IF hi < lo THEN Empty ELSE Overlay(FilesVisible(fs, lo, hi - 1), FileVisible(fs[hi]))
TSMVisible   == FilesVisible(files, 1, Len(files))
CacheVisible == Overlay(snap, hot)                 \* Cache.Values: snapshot entries, then hot entries, dedup keeps the last
Visible      == Overlay(TSMVisible, CacheVisible)  \* array cursors: the cache wins over TSM on equal timestamps

ASSUME Times = MinT..MaxT /\ Keys = 1..Cardinality(Keys)
SortedTimes == [i \in 1..(MaxT - MinT + 1) |-> MinT + i - 1]
ReadFrom(m, k, lo, hi, asc) ==
  LET Test(t) == InRange(t, lo, hi) /\ m[k][t] # None
      ts == SelectSeq(SortedTimes, Test)
      n  == Len(ts)
  IN [i \in 1..n |-> LET t == IF asc THEN ts[i] ELSE ts[n + 1 - i] IN <<t, m[k][t]>>]
Read(k, lo, hi, asc)      == ReadFrom(Visible, k, lo, hi, asc)   \* what Engine.CreateCursorIterator -> array cursor returns
ModelRead(k, lo, hi, asc) == ReadFrom(model, k, lo, hi, asc)     \* what C01 says it must return

\* ------------------------------------------------------------------ contract
Quiescent == wj.pc = "idle" /\ dj.pc = "idle"       \* no write and no delete is half-applied
VisibleEqualsModel == Quiescent => Visible = model
ReadEqualsModel ==                                   \* C01, as the property words it (equivalent to VisibleEqualsModel)
  Quiescent => \A k \in Keys, lo \in Times, hi \in Times, asc \in BOOLEAN :
                  lo <= hi => Read(k, lo, hi, asc) = ModelRead(k, lo, hi, asc)
\* while a delete is half-applied: its points are each still there or already gone, everything else is exact
DuringDelete ==
  (dj.pc # "idle" /\ wj.pc = "idle") =>
     \A k \in Keys, t \in Times :
        IF k = dj.k /\ InRange(t, dj.lo, dj.hi) THEN Visible[k][t] \in {model[k][t], None}
        ELSE Visible[k][t] = model[k][t]
\* while a write is half-applied (cache written, WAL not yet): the batch is visible, nothing else changed
DuringWrite == (wj.pc = "cached" /\ dj.pc = "idle") => Visible = ApplyPts(model, wj.pts)
\* C39: while a write stands before the engine (Close possibly waiting) nothing of it is visible, and Close has not happened
CloseExcludesWrite == (wj.pc \in {"entered", "closing"}) => Visible = model
NoResurrection == \A p \in dead : Visible[p[1]][p[2]] # p[3]     \* C03
\* What the model will be once the half-applied write / delete (if any) are acknowledged. Only issuing a new write or
\* delete changes it (FinStable, an action property): so a history that stops in the middle of some jobs can be judged
\* after letting the real jobs run to their end -- the reads must then equal FinModel of its last state.
FinModel == LET m1 == IF wj.pc = "idle" THEN model ELSE ApplyPts(model, wj.pts)
            IN IF dj.pc = "idle" THEN m1 ELSE Filter(m1, dj.k, dj.lo, dj.hi)

\* what the replay driver compares reads with after each step: the model, and what is half-applied (if anything)
PtsOf(m) == [k \in Keys |-> ReadFrom(m, k, MinT, MaxT, TRUE)]
Exp(m, w, d) == [m |-> PtsOf(m),
                 w |-> IF w.pc = "idle" THEN <<>> ELSE w.pts,
                 d |-> IF d.pc = "idle" THEN <<>> ELSE <<d.k, d.lo, d.hi>>]

\* ------------------------------------------------------------------ implementation-layer helpers
IdleS == [pc |-> "idle", gen |-> 0, nclosed |-> 0]
IdleC == [pc |-> "idle", lo |-> 0, hi |-> 0, out |-> Empty]
IdleD == [pc |-> "idle", k |-> 0, lo |-> 0, hi |-> 0, wkeys |-> {}]
IdleW == [pc |-> "idle", pts |-> <<>>]
\* Engine.mu: RLock is held by a half-applied write and by the snapshot commit after FileStore.Replace
MuFree == sj.pc \notin {"replaced", "cleared"} /\ wj.pc = "idle"

WEntry(pts)       == [op |-> "w", pts |-> pts, keys |-> {}, lo |-> 0, hi |-> 0]
DEntry(ks, lo, hi) == [op |-> "d", pts |-> <<>>, keys |-> ks, lo |-> lo, hi |-> hi]
AppendEntry(w, e) == [w EXCEPT ![Len(w)] = Append(@, e)]
ReplayEntry(m, e) == IF e.op = "w" THEN ApplyPts(m, e.pts) ELSE FilterKeys(m, e.keys, e.lo, e.hi)
RECURSIVE ReplaySeg(_, _), ReplayWal(_, _)
ReplaySeg(m, s) == IF s = <<>> THEN m ELSE ReplaySeg(ReplayEntry(m, Head(s)), Tail(s))
ReplayWal(m, w) == IF w = <<>> THEN m ELSE ReplayWal(ReplaySeg(m, Head(w)), Tail(w))   \* CacheLoader.Load

PLess(p, q) == p[1] < q[1] \/ (p[1] = q[1] /\ p[2] < q[2])
Batches == (IF 1 \in BatchSizes THEN {<<p>> : p \in Points} ELSE {})
           \cup (IF 2 \in BatchSizes THEN {<<x[1], x[2]>> : x \in {y \in Points \X Points : PLess(y[1], y[2])}} ELSE {})
           \cup (IF 2 \in BatchSizes /\ DupInBatch THEN {<<p, p>> : p \in Points} ELSE {})
Stamp(b) == [i \in 1..Len(b) |-> <<b[i][1], b[i][2], nw + i>>]       \* values are numbered by writing order
\* environment: no write touches the points of a delete that is in flight
WriteAllowed(b) == /\ nw + Len(b) <= MaxPoints
                   /\ wj.pc = "idle"
                   /\ \A i \in 1..Len(b) : ~(dj.pc # "idle" /\ b[i][1] = dj.k /\ InRange(b[i][2], dj.lo, dj.hi))
MaxGen == IF files = <<>> THEN 0 ELSE files[Len(files)].gen
\* some series of file f has tombstoned and live points (only then does the compactor see tombstone ranges: a series
\* whose points are all tombstoned is removed from the file's in-memory index)
PartialTomb(f) == \E k \in Keys : /\ \E t \in Times : <<k, t>> \in f.tomb
                                  /\ \E t \in Times : f.data[k][t] # None /\ <<k, t>> \notin f.tomb
Log(rec) == hist' = Append(hist, rec)
\* C39 close race (MC_C39_closerace.cfg overrides CloseRace with CloseRaceOn): a Shard.Close that arrives while a write is
\* between its field validation and its engine write.  FALSE in every other configuration: the three extra pcs never occur.
CloseRace   == FALSE
CloseRaceOn == TRUE
InCloseRace == wj.pc \in {"entered", "closing", "closewait"}
CanStep == Len(hist) < MaxOps /\ ~InCloseRace

\* ------------------------------------------------------------------ Init
Init == /\ hot = Empty /\ snap = Empty /\ sj = IdleS
        /\ files = <<>> /\ nextGen = 1
        /\ wal = << <<>> >>
        /\ cj = IdleC /\ dj = IdleD /\ wj = IdleW
        /\ model = Empty /\ written = {} /\ dead = {}
        /\ nw = 0 /\ ns = 0 /\ nc = 0 /\ nd = 0 /\ nr = 0
        /\ hist = <<>>

\* ------------------------------------------------------------------ writes
Write(b) ==
  /\ CanStep /\ ~SplitWrites /\ WriteAllowed(b)
  /\ LET pts == Stamp(b) IN
     /\ hot' = ApplyPts(hot, pts)
     /\ wal' = AppendEntry(wal, WEntry(pts))
     /\ model' = ApplyPts(model, pts)
     /\ written' = written \cup {pts[i] : i \in 1..Len(pts)}
     /\ nw' = nw + Len(pts)
     /\ Log([a |-> "Write", pts |-> pts, exp |-> Exp(ApplyPts(model, pts), wj, dj)])
  /\ UNCHANGED <<snap, sj, files, nextGen, cj, dj, wj, dead, ns, nc, nd, nr>>

CacheWrite(b) ==
  /\ CanStep /\ SplitWrites /\ WriteAllowed(b)
  /\ LET pts == Stamp(b) IN
     /\ hot' = ApplyPts(hot, pts)
     /\ wj' = [pc |-> "cached", pts |-> pts]
     /\ nw' = nw + Len(pts)
     /\ Log([a |-> "CacheWrite", pts |-> pts, exp |-> Exp(model, [pc |-> "cached", pts |-> pts], dj)])
  /\ UNCHANGED <<snap, sj, files, nextGen, wal, cj, dj, model, written, dead, ns, nc, nd, nr>>

WriteAck ==
  /\ CanStep /\ wj.pc = "cached"
  /\ wal' = AppendEntry(wal, WEntry(wj.pts))
  /\ model' = ApplyPts(model, wj.pts)
  /\ written' = written \cup {wj.pts[i] : i \in 1..Len(wj.pts)}
  /\ wj' = IdleW
  /\ Log([a |-> "WriteAck", exp |-> Exp(ApplyPts(model, wj.pts), IdleW, dj)])
  /\ UNCHANGED <<hot, snap, sj, files, nextGen, cj, dj, dead, nw, ns, nc, nd, nr>>

\* ------------------------------------------------------------------ cache snapshot
SnapBegin ==
  /\ CanStep /\ sj.pc = "idle" /\ ns < MaxSnaps /\ MuFree
  /\ hot # Empty                                      \* an empty snapshot returns at once (snapshot.Size() = 0)
  /\ SnapDeleteOverlap \/ dj.pc = "idle"
  /\ LET w1 == IF wal[Len(wal)] = <<>> THEN wal ELSE Append(wal, <<>>) IN   \* WAL.CloseSegment rolls only a non-empty segment
     /\ wal' = w1
     /\ sj' = [pc |-> "snapped", gen |-> 0, nclosed |-> Len(w1) - 1]         \* WAL.ClosedSegments: every segment but the current
  /\ snap' = hot /\ hot' = Empty                                              \* Cache.Snapshot swaps the stores
  /\ ns' = ns + 1
  /\ Log([a |-> "SnapBegin", snap |-> PtsOf(hot), exp |-> Exp(model, wj, dj)])
  /\ UNCHANGED <<files, nextGen, cj, dj, wj, model, written, dead, nw, nc, nd, nr>>

SnapWrite ==
  /\ CanStep /\ sj.pc = "snapped"
  /\ sj' = [sj EXCEPT !.pc = "written", !.gen = nextGen]
  /\ nextGen' = nextGen + 1
  /\ Log([a |-> "SnapWrite", exp |-> Exp(model, wj, dj)])
  /\ UNCHANGED <<hot, snap, files, wal, cj, dj, wj, model, written, dead, nw, ns, nc, nd, nr>>

SnapReplace ==
  /\ CanStep /\ sj.pc = "written"
  /\ files' = Append(files, [gen |-> sj.gen, seq |-> 1, data |-> snap, tomb |-> {}])
  /\ sj' = [sj EXCEPT !.pc = "replaced"]
  /\ Log([a |-> "SnapReplace", exp |-> Exp(model, wj, dj)])
  /\ UNCHANGED <<hot, snap, nextGen, wal, cj, dj, wj, model, written, dead, nw, ns, nc, nd, nr>>

SnapClear ==
  /\ CanStep /\ sj.pc = "replaced"
  /\ snap' = Empty
  /\ sj' = [sj EXCEPT !.pc = "cleared"]
  /\ Log([a |-> "SnapClear", exp |-> Exp(model, wj, dj)])
  /\ UNCHANGED <<hot, files, nextGen, wal, cj, dj, wj, model, written, dead, nw, ns, nc, nd, nr>>

SnapWALRemove ==
  /\ CanStep /\ sj.pc = "cleared"
  /\ wal' = SubSeq(wal, sj.nclosed + 1, Len(wal))
  /\ sj' = IdleS
  /\ Log([a |-> "SnapWALRemove", exp |-> Exp(model, wj, dj)])
  /\ UNCHANGED <<hot, snap, files, nextGen, cj, dj, wj, model, written, dead, nw, ns, nc, nd, nr>>

\* ------------------------------------------------------------------ compaction of a contiguous group files[lo..hi]
CompactStart(lo, hi) ==
  /\ CanStep /\ cj.pc = "idle" /\ nc < MaxCompacts
  /\ dj.pc = "idle"                                   \* level compactions are disabled while a delete runs
  /\ 1 <= lo /\ lo <= hi /\ hi <= Len(files) /\ hi - lo + 1 >= MinGroup
  /\ cj' = [pc |-> "planned", lo |-> lo, hi |-> hi, out |-> Empty]
  /\ nc' = nc + 1
  /\ Log([a |-> "CompactStart", lo |-> lo, hi |-> hi, exp |-> Exp(model, wj, dj)])
  /\ UNCHANGED <<hot, snap, sj, files, nextGen, wal, dj, wj, model, written, dead, nw, ns, nd, nr>>

CompactMerge ==
  /\ CanStep /\ cj.pc = "planned"
  /\ dj.pc = "idle"                                   \* after Compactor.DisableCompactions only CompactAbort is possible
  /\ cj' = [cj EXCEPT !.pc = "merged", !.out = FilesVisible(files, cj.lo, cj.hi)]
  /\ Log([a |-> "CompactMerge", ptomb |-> (\E i \in cj.lo..cj.hi : PartialTomb(files[i])), exp |-> Exp(model, wj, dj)])
  /\ UNCHANGED <<hot, snap, sj, files, nextGen, wal, dj, wj, model, written, dead, nw, ns, nc, nd, nr>>

CompactReplace ==
  /\ CanStep /\ cj.pc = "merged"
  /\ LET outf == IF cj.out = Empty THEN <<>>          \* nothing survived: no output file
                 ELSE << [gen |-> files[cj.hi].gen, seq |-> files[cj.hi].seq + 1, data |-> cj.out, tomb |-> {}] >>
     IN files' = SubSeq(files, 1, cj.lo - 1) \o outf \o SubSeq(files, cj.hi + 1, Len(files))
  /\ cj' = IdleC
  /\ Log([a |-> "CompactReplace", exp |-> Exp(model, wj, dj)])
  /\ UNCHANGED <<hot, snap, sj, nextGen, wal, dj, wj, model, written, dead, nw, ns, nc, nd, nr>>

CompactAbort ==
  /\ CanStep /\ cj.pc = "planned" /\ dj.pc = "called"
  /\ cj' = IdleC
  /\ Log([a |-> "CompactAbort", exp |-> Exp(model, wj, dj)])
  /\ UNCHANGED <<hot, snap, sj, files, nextGen, wal, dj, wj, model, written, dead, nw, ns, nc, nd, nr>>

\* ------------------------------------------------------------------ range delete of one series
DeleteCall(k, lo, hi) ==
  /\ CanStep /\ dj.pc = "idle" /\ nd < MaxDeletes /\ lo <= hi /\ MuFree
  /\ SnapDeleteOverlap \/ sj.pc = "idle"
  /\ LET d == [pc |-> IF cj.pc = "idle" THEN "begun" ELSE "called", k |-> k, lo |-> lo, hi |-> hi, wkeys |-> {}] IN
     /\ dj' = d
     /\ Log([a |-> "DeleteCall", k |-> k, lo |-> lo, hi |-> hi, blocked |-> (cj.pc # "idle"), exp |-> Exp(model, wj, d)])
  /\ nd' = nd + 1
  /\ UNCHANGED <<hot, snap, sj, files, nextGen, wal, cj, wj, model, written, dead, nw, ns, nc, nr>>

DeleteProceed ==
  /\ CanStep /\ dj.pc = "called" /\ cj.pc = "idle"
  /\ dj' = [dj EXCEPT !.pc = "begun"]
  /\ Log([a |-> "DeleteProceed", exp |-> Exp(model, wj, dj)])
  /\ UNCHANGED <<hot, snap, sj, files, nextGen, wal, cj, wj, model, written, dead, nw, ns, nc, nd, nr>>

DeleteTombstone ==
  /\ CanStep /\ dj.pc = "begun"
  /\ files' = [i \in 1..Len(files) |->
                 [files[i] EXCEPT !.tomb = @ \cup {<<dj.k, t>> : t \in {u \in Times : InRange(u, dj.lo, dj.hi) /\ files[i].data[dj.k][u] # None}}]]
  /\ dj' = [dj EXCEPT !.pc = "tombstoned"]
  /\ Log([a |-> "DeleteTombstone", n |-> Cardinality({<<i, t>> \in (1..Len(files)) \X Times : InRange(t, dj.lo, dj.hi) /\ FileVisible(files[i])[dj.k][t] # None}),
          exp |-> Exp(model, wj, dj)])
  /\ UNCHANGED <<hot, snap, sj, nextGen, wal, cj, wj, model, written, dead, nw, ns, nc, nd, nr>>

DeleteCache ==
  /\ CanStep /\ dj.pc = "tombstoned"
  /\ hot' = Filter(hot, dj.k, dj.lo, dj.hi)
  /\ dj' = [dj EXCEPT !.pc = "cached", !.wkeys = IF HasKey(hot, dj.k) THEN {dj.k} ELSE {}]
  /\ Log([a |-> "DeleteCache", n |-> Cardinality({t \in Times : InRange(t, dj.lo, dj.hi) /\ hot[dj.k][t] # None}), exp |-> Exp(model, wj, dj)])
  /\ UNCHANGED <<snap, sj, files, nextGen, wal, cj, wj, model, written, dead, nw, ns, nc, nd, nr>>

DeleteWAL ==
  /\ CanStep /\ dj.pc = "cached"
  /\ wal' = IF dj.wkeys = {} THEN wal ELSE AppendEntry(wal, DEntry(dj.wkeys, dj.lo, dj.hi))
  /\ dj' = [dj EXCEPT !.pc = "logged"]
  /\ Log([a |-> "DeleteWAL", logged |-> (dj.wkeys # {}), exp |-> Exp(model, wj, dj)])
  /\ UNCHANGED <<hot, snap, sj, files, nextGen, cj, wj, model, written, dead, nw, ns, nc, nd, nr>>

DeleteAck ==
  /\ CanStep /\ dj.pc = "logged" /\ MuFree
  /\ model' = Filter(model, dj.k, dj.lo, dj.hi)
  /\ dead' = dead \cup {p \in written : p[1] = dj.k /\ InRange(p[2], dj.lo, dj.hi)}
  /\ dj' = IdleD
  /\ Log([a |-> "DeleteAck", exp |-> Exp(Filter(model, dj.k, dj.lo, dj.hi), wj, IdleD)])
  /\ UNCHANGED <<hot, snap, sj, files, nextGen, wal, cj, wj, written, nw, ns, nc, nd, nr>>

\* ------------------------------------------------------------------ clean close / open
Reopen ==
  /\ CanStep /\ nr < MaxReopens
  /\ sj.pc = "idle" /\ cj.pc = "idle" /\ dj.pc = "idle" /\ wj.pc = "idle"
  /\ hot' = ReplayWal(Empty, wal)
  /\ snap' = Empty
  /\ nextGen' = MaxGen + 1
  /\ nr' = nr + 1
  /\ Log([a |-> "Reopen", exp |-> Exp(model, wj, dj)])
  /\ UNCHANGED <<sj, files, wal, cj, dj, wj, model, written, dead, nw, ns, nc, nd>>

\* ------------------------------------------------------------------ Shard.Close vs a write in flight (C39)
\* Shard.WritePoints holds Shard.mu.RLock from its first line to its return; Shard.Close takes Shard.mu.Lock.  WriteEnter: the
\* write has validated its series and fields and stands before Engine.WritePoints (hook shard.write.before_engine): nothing of
\* it is in the cache or the WAL yet.  CloseTry: Close is called and waits.  WriteFinish: the write runs to its end against the
\* open engine and is acknowledged; only then (pc closewait) can the pending Close complete (Reopen).
WriteEnter(b) ==
  /\ CloseRace /\ Len(hist) < MaxOps /\ WriteAllowed(b) /\ nr < MaxReopens
  /\ sj.pc = "idle" /\ cj.pc = "idle" /\ dj.pc = "idle"
  /\ LET pts == Stamp(b) IN
     /\ wj' = [pc |-> "entered", pts |-> pts]
     /\ nw' = nw + Len(pts)
     /\ Log([a |-> "WriteEnter", pts |-> pts, exp |-> Exp(model, IdleW, dj)])
  /\ UNCHANGED <<hot, snap, sj, files, nextGen, wal, cj, dj, model, written, dead, ns, nc, nd, nr>>

CloseTry ==
  /\ Len(hist) < MaxOps /\ wj.pc = "entered"
  /\ wj' = [wj EXCEPT !.pc = "closing"]
  /\ Log([a |-> "CloseTry", exp |-> Exp(model, IdleW, dj)])
  /\ UNCHANGED <<hot, snap, sj, files, nextGen, wal, cj, dj, model, written, dead, nw, ns, nc, nd, nr>>

WriteFinish ==
  /\ Len(hist) < MaxOps /\ wj.pc \in {"entered", "closing"}
  /\ hot' = ApplyPts(hot, wj.pts)
  /\ wal' = AppendEntry(wal, WEntry(wj.pts))
  /\ model' = ApplyPts(model, wj.pts)
  /\ written' = written \cup {wj.pts[i] : i \in 1..Len(wj.pts)}
  /\ wj' = IF wj.pc = "closing" THEN [pc |-> "closewait", pts |-> <<>>] ELSE IdleW
  /\ Log([a |-> "WriteFinish", closing |-> (wj.pc = "closing"), exp |-> Exp(ApplyPts(model, wj.pts), IdleW, dj)])
  /\ UNCHANGED <<snap, sj, files, nextGen, cj, dj, dead, nw, ns, nc, nd, nr>>

\* the pending Close completes (everything the write did is in the WAL), then Shard.Open
CloseDoneReopen ==
  /\ Len(hist) < MaxOps /\ wj.pc = "closewait"
  /\ hot' = ReplayWal(Empty, wal)
  /\ snap' = Empty
  /\ nextGen' = MaxGen + 1
  /\ nr' = nr + 1
  /\ wj' = IdleW
  /\ Log([a |-> "Reopen", exp |-> Exp(model, IdleW, dj)])
  /\ UNCHANGED <<sj, files, wal, cj, dj, model, written, dead, nw, ns, nc, nd>>

Next == \/ \E b \in Batches : Write(b)
        \/ \E b \in Batches : WriteEnter(b)
        \/ CloseTry \/ WriteFinish \/ CloseDoneReopen
        \/ \E b \in Batches : CacheWrite(b)
        \/ WriteAck
        \/ SnapBegin \/ SnapWrite \/ SnapReplace \/ SnapClear \/ SnapWALRemove
        \/ \E lo \in 1..MaxSnaps, hi \in 1..MaxSnaps : CompactStart(lo, hi)    \* at most MaxSnaps files exist
        \/ CompactMerge \/ CompactReplace \/ CompactAbort
        \/ \E k \in Keys, lo \in Times, hi \in Times : DeleteCall(k, lo, hi)
        \/ DeleteProceed \/ DeleteTombstone \/ DeleteCache \/ DeleteWAL \/ DeleteAck
        \/ Reopen

Spec == Init /\ [][Next]_vars

FinStable == [][nw' # nw \/ nd' # nd \/ FinModel' = FinModel]_vars

\* ------------------------------------------------------------------ implementation-layer invariants
TypeOK == /\ sj.pc \in {"idle", "snapped", "written", "replaced", "cleared"}
          /\ cj.pc \in {"idle", "planned", "merged"}
          /\ dj.pc \in {"idle", "called", "begun", "tombstoned", "cached", "logged"}
          /\ wj.pc \in {"idle", "cached", "entered", "closing", "closewait"}
          /\ Len(wal) >= 1
          /\ (sj.pc = "idle" => snap = Empty)
FilesSorted == \A i \in 1..(Len(files) - 1) :
                  files[i].gen < files[i + 1].gen \/ (files[i].gen = files[i + 1].gen /\ files[i].seq < files[i + 1].seq)
GenFresh == \A i \in 1..Len(files) : files[i].gen < nextGen
\* a clean restart changes nothing a reader can see: replaying the WAL rebuilds the hot store
WALMatchesCache == (sj.pc = "idle" /\ Quiescent) => ReplayWal(Empty, wal) = hot
=============================================================================
