\* Model-level reproduction of finding F18 (not run by any check): CreateShardGroup as it was before the repair
\* (ClampMin = FALSE) around MinNanoTime.  The group created for a write at MinNanoTime starts below the int64 range
\* (C18_WellFormed, left out here, already fails); after Write;Reload its start has wrapped to the far future and TLC
\* reports C18_DataStaysContained violated (24 states).  Phases are those of a 24h tick (driver mode "phases").
SPECIFICATION Spec
CONSTANTS
  Base = "Min"
  AnchorTick = 2
  Ph2 = 0
  Ph3 = 0
  Ph5 = 3
  D0 = 2
  SGDs = {2, 3, 5}
  R0 = 0
  Rets = {}
  PointPos = {9, 12, 13, 16, 21, 24}
  TruncPos = {}
  QPos = {9, 12, 16, 21, 28}
  QCodes = {909, 1212, 1316, 2124, 928, 1221}
  MaxBatch = 1
  MaxOps = 3
  MaxWrites = 2
  MaxTrunc = 0
  CheckEnabled = FALSE
  Record = FALSE
  ClampMin = FALSE
INVARIANTS TypeOK C18_RoutedContains C18_DataStaysContained C18_Disjoint C18_ReloadIsIdentity C18_QueriesFindData
VIEW View
CHECK_DEADLOCK FALSE
