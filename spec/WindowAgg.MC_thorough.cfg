\* C20 thorough: the check runs this once per aggregate (Aggs = {one}) to keep each dump small, plus OutCap 1 and 3 on MaxT = 5
SPECIFICATION Spec
CONSTANTS
  MaxT = 7
  Everys = {1, 2, 3, 4}
  ValPats = {"up", "down", "zig"}
  Aggs = {"count", "sum", "min", "max", "first", "last", "mean"}
  OutCap = 2
  Mode = "cursor"
  QStarts = {0}
  QStops = {1}
  TimeCols = {"none"}
  EWSAsFound = FALSE
INVARIANTS TypeOK CursorPrefix CursorContract FullArrays
CHECK_DEADLOCK FALSE
