SPECIFICATION Spec
CONSTANTS
  MaxT = 3
  MaxLen = 3
  Vals = {0, 1}
  Cases <- ModeCases
  ModeQuirk = TRUE
INVARIANTS TypeOK MachineFollowsDefinition
CHECK_DEADLOCK FALSE
