SPECIFICATION Spec
CONSTANTS
  Tasks = {1, 2}
  NW = 2
  Profiles <- ProfilesMCQuick
  Backs = {0, 2}
  MaxTime = 3
  MaxSched = 3
  MaxOps = 5
  NegReset = FALSE
  RefreshOnRemove = TRUE
  Discipline = TRUE
  Record = TRUE
INVARIANTS TypeOK OncePerDueTime NoSelfConcurrency WorkerOfClass NoDispatchAfterRelease AtRest NoSpin MockSafe

CHECK_DEADLOCK FALSE
