SPECIFICATION Spec
CONSTANTS
  MaxGens = 9
  MinInit = 9
  Lvls = {1, 2}
  Shapes <- ShapesSmall
  Tombs = {FALSE}
  MaxEnv = 0
  OutShapes <- ShapesSmall
  KeepHist = FALSE
  MaxHist = 0
  NoIdle = FALSE
INVARIANTS TypeOK InUseIsHeld HeldPairwiseDisjoint
PROPERTIES HandOutOK
VIEW View
CHECK_DEADLOCK FALSE
