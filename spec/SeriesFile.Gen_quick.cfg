SPECIFICATION Spec
CONSTANTS
  PA = 0
  PB = 7
  KA = {"a", "b"}
  KB = {"c"}
  Prefill = 0
  MaxOps = 2
  MaxBatch = 2
  MaxRolls = 1
  MaxCompactions = 1
  MaxCrashes = 1
  TwoPhaseCompact = FALSE
  EmptyKeyEndsLog = TRUE
  Tears = {"none", "id7", "id8", "key"}
INVARIANTS Agree Injective IdsInPartition
PROPERTIES StableID NeverReused BatchDupShareID

CHECK_DEADLOCK FALSE
