\* C01 checking, thorough
SPECIFICATION Spec
CONSTANTS
  Keys = {1, 2}
  Times = {1, 2, 3}
  BatchSizes = {1, 2}
  DupInBatch = TRUE
  MaxPoints = 4
  MaxSnaps = 2
  MaxCompacts = 2
  MaxDeletes = 0
  MaxReopens = 1
  MinGroup = 1
  SplitWrites = FALSE
  SnapDeleteOverlap = FALSE
  MaxOps = 1000
INVARIANTS TypeOK FilesSorted GenFresh WALMatchesCache VisibleEqualsModel ReadEqualsModel DuringDelete DuringWrite NoResurrection
PROPERTIES FinStable
VIEW View
CHECK_DEADLOCK FALSE
