\* Generation: the model with the quirks of the code (quirk constants TRUE).  One witness history per distinct meta data
\* (VIEW hides hist / nops) plus one probe state per operation and meta data; names in focus.
SPECIFICATION Spec
CONSTANTS
  DBs = {"d1", "d2"}
  RPs = {"autogen", "r2", "r3"}
  WithEmptyDB = TRUE
  CDurs = {0, 7}
  CSGDs = {0}
  CReps = {1}
  XNames = {"", "r2"}
  XDurs = {99, 7}
  XSGDs = {0}
  XReps = {99}
  UNames = {"-", "", "autogen", "r2", "r3"}
  UDurs = {99, 3}
  USGDs = {99}
  UFull = FALSE
  AutoCreate = TRUE
  MaxSG = 1
  MaxOps = 2
  Record = TRUE
  Probing = TRUE
  NoOpSteps = FALSE
  DropKeepsDefault = TRUE
  RenameKeepsDefault = TRUE
  HalfYearIsLong = TRUE
  RenameAcceptsEmpty = TRUE
INVARIANTS Inv_ShardGroups Inv_Durations
VIEW View
CHECK_DEADLOCK FALSE
