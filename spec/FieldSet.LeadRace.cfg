\* C10 lead: two writers: a write acknowledged on a field another writer created in memory but has not appended yet
SPECIFICATION Spec
CONSTANTS
  Mode = "hist"
  Meas = {"m1"}
  Fields = {"f1", "f2"}
  Writers = {1, 2}
  MaxOps = 4
  MaxBatch = 1
  LogDeletes = TRUE
  ReplayOverwrites = TRUE
  PointSetName = "all"
  NoMaint = FALSE
  UseIds = FALSE
  SchemaNames = {}
  VKs = {}
INVARIANTS SchemaDurable
VIEW View
CHECK_DEADLOCK FALSE
