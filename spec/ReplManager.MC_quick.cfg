SPECIFICATION Spec
CONSTANTS
  Ids = {"r1", "r2"}
  Lens = {7}
  MaxSizes = {19, 20, 24}
  SegMax = 10
  MaxBatches = 2
  MaxOps = 0
  Menu = {"init", "delete", "update", "enq", "deliver", "track", "untrack", "storeset", "closeall", "crash", "start"}
  Prefix <- NoPrefix
  Refusals = {"exists", "notfound", "toosmall", "full", "startup"}
  KickOnOpen = TRUE
  InitLeavesDir = TRUE
  Record = FALSE
INVARIANTS TypeOK PendingIsWant OpenHasDir DownHasNoQueue NoStrandedBatch HeldHasBatch SizesAreDiskUsage
PROPERTIES StartContract FailedStartKeeps DownKeepsDisk RefusalChangesNothing DeleteContract UpdateContract EnqContract DeliverContract
VIEW View
CHECK_DEADLOCK FALSE
