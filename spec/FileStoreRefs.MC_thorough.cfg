SPECIFICATION Spec
CONSTANTS
  Keys = {"k1", "k2"}
  Slots = {1, 2}
  InitMenu <- InitMC
  NewMenu <- NewFocus
  SeekSlots = {1, 2}
  MaxFiles = 4
  MaxNew = 1
  MaxCursors = 2
  MaxOpen = 2
  MaxReplaces = 2
  MaxStepwise = 1
  MaxOps = 99
  Record = FALSE
  Fine = TRUE
  Reads = FALSE
  WithStats = TRUE
  WithClose = TRUE
  Mut = "none"
INVARIANTS TypeOK RefsMatch ReferencedFilesUsable CursorSnapshot StoreFilesUsable ListIsLive StatsFresh Quiescent NoStrayTmp TombstoneFollowsFile NamesUnique
PROPERTIES RemovedOnlyUnreferenced
VIEW View
CHECK_DEADLOCK FALSE
