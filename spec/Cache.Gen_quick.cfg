SPECIFICATION Spec
CONSTANTS
  Keys = {"k1", "k2"}
  Times = {0, 1}
  Types = {"n", "b"}
  Threads = {"t1"}
  Writers = {"t1"}
  Snappers = {"t1"}
  Deleters = {"t1"}
  Readers = {"t1"}
  Limit = 60
  Sequential = TRUE
  SplitLoads = FALSE
  Fused = TRUE
  BKeys = {"k1"}
  PerWriter = 9
  RandomPick = FALSE
  Rich = FALSE
  MaxWrites = 3
  MaxSnaps = 2
  MaxDeletes = 2
  MaxReads = 2
  MaxSizes = 0
  MaxOps = 3
INVARIANTS ValuesContract SizeAccounting PresenceOK CountersNonNegative EntriesTyped WriteOutcome LimitAsObserved
PROPERTIES RejectedStoresNothing TypeConflictOneKey WriteOutcomeStep LimitStep
VIEW ViewGen
CHECK_DEADLOCK FALSE
