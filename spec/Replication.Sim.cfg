SPECIFICATION Spec
CONSTANTS
  MaxBatches = 3
  MaxScript = 5
  Resps = {"204", "timeout", "reset", "429", "429ra0", "429ra1", "429ra7", "429rax", "400", "401", "404", "500", "503ra9"}
  Drops = {TRUE, FALSE}
  Attempts0 = {0, 8}
  MaxAges = {1}
  MaxTicks = 2
  SegCap = 2
  PeriodicAdv = FALSE
  PeriodicFix = TRUE
  EnqAnywhere = FALSE
  Record = TRUE
  MaxPre = 1
INVARIANTS TypeOK OnlyLegalRemovals PostInOrderH FirstAcceptInOrderH WaitFollowsRule PurgeOnlyOld

CHECK_DEADLOCK FALSE
