\* C38 lead: restore skips every archive entry that is not a .tsm file (readFileFromBackup), i.e. tombstone files are not restored
\* TLC is expected to find the contract invariant violated; the counterexample is replayed on the real engine
SPECIFICATION BSpec
CONSTANTS
  Keys = {1, 2}
  Times = {1, 2}
  BatchSizes = {1, 2}
  DupInBatch = FALSE
  MaxPoints = 3
  MaxSnaps = 1
  MaxCompacts = 1
  MaxDeletes = 1
  MaxReopens = 0
  MinGroup = 1
  SplitWrites = FALSE
  SnapDeleteOverlap = FALSE
  MaxOps = 1000
  MaxBackups = 1
  StopAfterBackup = FALSE
  SinceChoices = "all"
  RestoreKeepsTombstones = FALSE
  ExportWholeBlocks = FALSE
  ExportTombstoneBug = FALSE
INVARIANTS BTypeOK BaseInvariants RestoreOK BackupComplete ExportOK
VIEW BView
CHECK_DEADLOCK FALSE
