\* C03 generation, quick: a delete interleaved freely with a snapshot, a compaction and a reopen; the contract is judged on the real engine
SPECIFICATION Spec
CONSTANTS
  Keys = {1, 2}
  Times = {1, 2}
  BatchSizes = {1}
  DupInBatch = FALSE
  MaxPoints = 2
  MaxSnaps = 1
  MaxCompacts = 1
  MaxDeletes = 1
  MaxReopens = 1
  MinGroup = 1
  SplitWrites = FALSE
  SnapDeleteOverlap = TRUE
  MaxOps = 1000
INVARIANTS TypeOK FilesSorted GenFresh
PROPERTIES FinStable
VIEW View
CHECK_DEADLOCK FALSE
