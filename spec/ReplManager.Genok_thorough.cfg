SPECIFICATION Spec
CONSTANTS
  Ids = {"r1", "r2", "r3"}
  Lens = {100}
  MaxSizes = {20971520, 25165824}
  SegMax = 10485760
  MaxBatches = 8
  MaxOps = 20
  Menu = {"init", "delete", "update", "enq", "deliver", "track", "untrack", "storeset", "closeall", "crash", "start"}
  Prefix <- NoPrefix
  Refusals = {}
  KickOnOpen = TRUE
  InitLeavesDir = TRUE
  Record = TRUE
INVARIANTS TypeOK PendingIsWant NoStrandedBatch
CHECK_DEADLOCK FALSE
