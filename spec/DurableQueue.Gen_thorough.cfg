SPECIFICATION Spec
CONSTANTS
  Lens = {1, 3, 12}
  MaxSeg = 24
  MaxSize = 60
  MaxOps = 6
  MaxTime = 1
  MaxAppends = 5
INVARIANTS TypeOK
CHECK_DEADLOCK FALSE
