\* C10 generation: every history of 3 operations, one writer, code as it is (terminal histories are all replayed)
SPECIFICATION Spec
CONSTANTS
  Mode = "hist"
  Meas = {"m1", "m2"}
  Fields = {"f1", "f2"}
  Writers = {1}
  MaxOps = 3
  MaxBatch = 1
  LogDeletes = FALSE
  ReplayOverwrites = FALSE
  PointSetName = "all"
  NoMaint = FALSE
  UseIds = TRUE
  SchemaNames = {}
  VKs = {}
INVARIANTS TypeOK

CHECK_DEADLOCK FALSE
