SPECIFICATION Spec
CONSTANTS
  DBs = {d1, d2}
  RPs = {r1, r2}
  IDs = {i1, i2}
  Series = {s1, s2}
  Times = {t1}
  MaxOps = 5
  MaxWrites = 3
  MaxNoops = 1
SYMMETRY SymFull
INVARIANTS TypeOK
CHECK_DEADLOCK FALSE
