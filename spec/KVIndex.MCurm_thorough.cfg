\* Model checking of the contract for the user-resource-mapping instance: 3 resources x 2 users.  VIEW hides hist.
SPECIFICATION Spec
CONSTANTS
  FKs = {"u1", "u2"}
  Rs = {"r1", "r2", "r3"}
  Tied = TRUE
  Urm = TRUE
  BadFKs = {}
  BadPKs = {}
  Atomic = TRUE
  Restamp = FALSE
  WithAbort = TRUE
  MaxOps = 10
  Record = FALSE
  Probing = FALSE
  NoOpSteps = FALSE
INVARIANTS TypeOK Inv_Outcomes Inv_Verify Inv_Synced
VIEW ViewN
CHECK_DEADLOCK FALSE
