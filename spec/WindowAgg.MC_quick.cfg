\* C20 quick (the check generates the same text: checks/C20.py cfg_text)
SPECIFICATION Spec
CONSTANTS
  MaxT = 5
  Everys = {1, 2, 3, 4}
  ValPats = {"up", "zig"}
  Aggs = {"count", "sum", "min", "max", "first", "last", "mean"}
  OutCap = 2
  Mode = "cursor"
  QStarts = {0}
  QStops = {1}
  TimeCols = {"none"}
  EWSAsFound = FALSE
INVARIANTS TypeOK CursorPrefix CursorContract FullArrays
CHECK_DEADLOCK FALSE
