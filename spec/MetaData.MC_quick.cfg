\* Model checking of the contract on the intended design (quirk constants FALSE), names in focus: 2 databases x 3 policy names, few durations.  VIEW hides hist.
SPECIFICATION Spec
CONSTANTS
  DBs = {"d1", "d2"}
  RPs = {"autogen", "r2", "r3"}
  WithEmptyDB = TRUE
  CDurs = {0, 7}
  CSGDs = {0}
  CReps = {1}
  XNames = {"", "r2"}
  XDurs = {99, 7}
  XSGDs = {0}
  XReps = {99}
  UNames = {"-", "", "autogen", "r2", "r3"}
  UDurs = {99, 3}
  USGDs = {99}
  UFull = FALSE
  AutoCreate = TRUE
  MaxSG = 1
  MaxOps = 4
  Record = FALSE
  Probing = FALSE
  NoOpSteps = FALSE
  DropKeepsDefault = FALSE
  RenameKeepsDefault = FALSE
  HalfYearIsLong = FALSE
  RenameAcceptsEmpty = FALSE
INVARIANTS Inv_Names Inv_ShardGroups Inv_Default Inv_Durations Inv_Outcomes
VIEW ViewN
CHECK_DEADLOCK FALSE
