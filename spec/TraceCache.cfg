SPECIFICATION TSpec
CONSTANTS
  Keys = {"k1", "k2"}
  Times = {0, 1, 2}
  Types = {"n", "b"}
  Threads = {"t1", "t2", "t3", "t4"}
  Writers = {}
  Snappers = {}
  Deleters = {}
  Readers = {}
  Limit = 90
  Sequential = FALSE
  SplitLoads = TRUE
  Fused = FALSE
  BKeys = {}
  PerWriter = 0
  RandomPick = FALSE
  Rich = FALSE
  MaxWrites = 0
  MaxSnaps = 0
  MaxDeletes = 0
  MaxReads = 0
  MaxSizes = 0
  MaxOps = 0
INVARIANTS ValuesContract SizeAccounting PresenceOK EntriesTyped WriteOutcome LimitAsObserved
CONSTRAINT Mark
POSTCONDITION Accepted
CHECK_DEADLOCK FALSE
