\* C03 generation, thorough
SPECIFICATION Spec
CONSTANTS
  Keys = {1, 2}
  Times = {1, 2}
  BatchSizes = {1}
  DupInBatch = FALSE
  MaxPoints = 3
  MaxSnaps = 1
  MaxCompacts = 1
  MaxDeletes = 1
  MaxReopens = 1
  MinGroup = 1
  SplitWrites = FALSE
  SnapDeleteOverlap = TRUE
  MaxOps = 1000
INVARIANTS TypeOK FilesSorted GenFresh
PROPERTIES FinStable
VIEW View
CHECK_DEADLOCK FALSE
