\* C03 lead: deletes may overlap a snapshot; TLC is expected to find NoResurrection violated (F1); the trace is replayed on the real engine
SPECIFICATION Spec
CONSTANTS
  Keys = {1, 2}
  Times = {1, 2}
  BatchSizes = {1}
  DupInBatch = FALSE
  MaxPoints = 2
  MaxSnaps = 1
  MaxCompacts = 1
  MaxDeletes = 1
  MaxReopens = 1
  MinGroup = 1
  SplitWrites = FALSE
  SnapDeleteOverlap = TRUE
  MaxOps = 1000
INVARIANTS TypeOK FilesSorted GenFresh NoResurrection
PROPERTIES FinStable
VIEW View
CHECK_DEADLOCK FALSE
