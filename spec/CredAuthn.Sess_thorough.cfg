\* session-focused histories with time: only session management, cookie headers; every history to the bound
SPECIFICATION Spec
CONSTANTS
  Users = {1}
  MaxT = 2
  MaxOps = 6
  Renewals = {TRUE, FALSE}
  SessLens = {"short", "long"}
  Forms = {"none"}
  Mgmt = {"session"}
CHECK_DEADLOCK FALSE
