SPECIFICATION Spec
CONSTANTS
  MaxT = 5
  MaxLen = 5
  Vals <- Vals5
  Cases <- AllCases
  ModeQuirk = FALSE
INVARIANTS TypeOK MachineFollowsDefinition NeverTooManyRows
CHECK_DEADLOCK FALSE
