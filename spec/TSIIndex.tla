------------------------------ MODULE TSIIndex ------------------------------
(* tsi1 index of one shard (tsdb/index/tsi1): C14.                                                        *)
(*                                                                                                        *)
(* Contract layer: `live` (the series the shard holds, at log-entry granularity), `tornM` (measurements   *)
(* whose drop flow was cut by a crash), and ExpObs = the projections of `live` the property names:        *)
(* measurement names, series per measurement / tag key / tag value, tag keys, tag values.                 *)
(* Implementation layer: the partition's file set (newest first; file 1 is the active LogFile), every     *)
(* file with the element tables the code keeps (measurement elems, tag key elems, tag value elems with    *)
(* deleted flags and series sets, series id set, series tombstone set); log entries and LogFile.execEntry;*)
(* LogFile.CompactTo, IndexFiles.CompactTo (pairwise, MaxIndexMergeCount = 2), the FileSet merge rules of *)
(* every reader, Partition.seriesIDSet, the tag-value series-id cache of Index, the engine's drop flow    *)
(* (DropSeries(id,key,false) each; DropMeasurementIfSeriesNotExist each; SeriesFile.DeleteSeriesID) as a *)
(* multi-step operation, log roll-over, reopen and a crash that truncates the active log at any entry.    *)
(* Series identity = series key (an index into SeriesTab); in SfileDelete mode the consumer-side filter   *)
(* FilterUndeletedSeriesIDIterator is modelled by intersecting with `sfl` (keys with an undeleted id).    *)
EXTENDS Integers, Sequences, FiniteSets, TLC, Json

CONSTANTS NS,             \* series keys = SeriesTab[1..NS]
          MaxGen,         \* a key gets a new series id when it is re-created after its id was deleted from the series file; ids per key <= MaxGen+1
          MaxOps,         \* bound on API operations (length of hist)
          MaxFiles,       \* bound on files in the file set (bounds RollLog)
          MaxCreate,      \* max series per CreateSeriesListIfNotExists
          SfileDelete,    \* TRUE: dropped ids are deleted from the series file (single shard); FALSE: kept (id lives on in another shard)
          CacheOn,        \* tag value series-id cache enabled
          FixCacheOnDrop, \* TRUE: DropSeries(cascade=false) updates the cache (repaired code); FALSE: it returns before (F11)
          FixNewestTomb,  \* TRUE: FileSet.TagValueSeriesIDIterator also applies the newest file's series tombstones (repaired); FALSE: H12
          RecHist,        \* TRUE: record hist (generation configs); FALSE: hist stays empty (checking configs)
          Internal,       \* enable RollLog / CompactLog / CompactLevel / roll at reopen
          WithCrash

Meas == {"m1", "m2"}
Keys == {"k1", "k2"}
Vals == {"a", "b"}
KeyOrder == <<"k1", "k2">>
ValOrder == <<"a", "b">>
MeasOrder == <<"m1", "m2">>
SeriesTab == <<
  [m |-> "m1", t |-> [k1 |-> "a", k2 |-> ""]],
  [m |-> "m1", t |-> [k1 |-> "b", k2 |-> ""]],
  [m |-> "m1", t |-> [k1 |-> "a", k2 |-> "b"]],
  [m |-> "m2", t |-> [k1 |-> "a", k2 |-> ""]],
  [m |-> "m1", t |-> [k1 |-> "",  k2 |-> ""]],
  [m |-> "m2", t |-> [k1 |-> "",  k2 |-> "b"]] >>
S == 1..NS                          \* series keys
IDs == 1..(NS * (MaxGen + 1))       \* series ids: id x is incarnation (x-1) \div NS of key Key(x)
Key(x) == ((x - 1) % NS) + 1
MOf(x) == SeriesTab[Key(x)].m
TagOf(x, k) == SeriesTab[Key(x)].t[k]
MK == Meas \X Keys
MKV == Meas \X Keys \X Vals
MaxLevel == 6

VARIABLES live,    \* contract: series held by the shard (entry granularity)
          tornM,   \* contract: measurements that may still be listed although empty (their drop flow was cut by a crash)
          tornT,   \* contract: measurements whose tag key/value tombstones may outlive a measurement drop cut by a crash
          sfl,     \* ids not deleted in the series file
          gen,     \* [S -> number of ids allocated for the key so far]
          files,   \* file set, newest first
          pset,    \* Partition.seriesIDSet
          cache,   \* Index.tagValueCache: [MKV -> [has, set]]
          flow,    \* the engine drop flow in progress
          nent,    \* number of log entries acknowledged so far (global, all files)
          nops,    \* number of API operations so far
          hist
vars == <<live, tornM, tornT, sfl, gen, files, pset, cache, flow, nent, nops, hist>>

Min(X) == CHOOSE x \in X : \A y \in X : x <= y
RECURSIVE SortedSeq(_)
SortedSeq(X) == IF X = {} THEN <<>> ELSE <<Min(X)>> \o SortedSeq(X \ {Min(X)})
SeqSet(q) == {q[i] : i \in 1..Len(q)}
MeasSeqOf(X) == SelectSeq(MeasOrder, LAMBDA m : \E s \in X : MOf(s) = m)

\* ------------------------------------------------------------------ contract layer
LiveOf(L, m) == {s \in L : MOf(s) = m}
MeasIn(L) == {MOf(s) : s \in L}
ExpObs(L, V, T, TT) ==
  [ms    |-> MeasIn(L),
   msOpt |-> T,
   tagOpt |-> TT,
   mser  |-> [m \in Meas |-> {Key(s) : s \in LiveOf(V, m)}],
   kser  |-> [m \in Meas |-> [k \in Keys |-> {Key(s) : s \in {x \in LiveOf(V, m) : TagOf(x, k) # ""}}]],
   vser  |-> [m \in Meas |-> [k \in Keys |-> [v \in Vals |-> {Key(s) : s \in {x \in LiveOf(V, m) : TagOf(x, k) = v}}]]],
   keys  |-> [m \in Meas |-> {k \in Keys : \E s \in LiveOf(V, m) : TagOf(s, k) # ""}],
   vals  |-> [m \in Meas |-> [k \in Keys |-> {v \in Vals : \E s \in LiveOf(V, m) : TagOf(s, k) = v}]]]
Vis == IF SfileDelete THEN live \cap sfl ELSE live
Exp == ExpObs(live, Vis, tornM, tornT)

\* ------------------------------------------------------------------ one file
EmptySt == [mm    |-> [m \in Meas |-> [ex |-> FALSE, del |-> FALSE, ser |-> {}]],
            tk    |-> [x \in MK |-> [ex |-> FALSE, del |-> FALSE]],
            tv    |-> [x \in MKV |-> [ex |-> FALSE, del |-> FALSE, ser |-> {}]],
            sids  |-> {},
            tombs |-> {}]

\* LogFile.execSeriesEntry (insert and series tombstone): note mm.deleted = false in both cases
ExecSeries(st, s, deleted) ==
  LET m  == MOf(s)
      ks == {k \in Keys : TagOf(s, k) # ""}
  IN [mm    |-> [st.mm EXCEPT ![m] = [ex |-> TRUE, del |-> FALSE, ser |-> IF deleted THEN @.ser \ {s} ELSE @.ser \cup {s}]],
      tk    |-> [x \in MK |-> IF x[1] = m /\ x[2] \in ks THEN [st.tk[x] EXCEPT !.ex = TRUE] ELSE st.tk[x]],
      tv    |-> [x \in MKV |-> IF x[1] = m /\ x[2] \in ks /\ x[3] = TagOf(s, x[2])
                               THEN [st.tv[x] EXCEPT !.ex = TRUE, !.ser = IF deleted THEN @ \ {s} ELSE @ \cup {s}]
                               ELSE st.tv[x]],
      sids  |-> IF deleted THEN st.sids \ {s} ELSE st.sids \cup {s},
      tombs |-> IF deleted THEN st.tombs \cup {s} ELSE st.tombs \ {s}]

\* LogFile.execEntry
Exec(st, e) ==
  CASE e.t = "add"   -> ExecSeries(st, e.s, FALSE)
    [] e.t = "tomb"  -> ExecSeries(st, e.s, TRUE)
    [] e.t = "mtomb" -> [st EXCEPT !.mm[e.m] = [ex |-> TRUE, del |-> TRUE, ser |-> {}],
                                   !.tk = [x \in MK |-> IF x[1] = e.m THEN [ex |-> FALSE, del |-> FALSE] ELSE st.tk[x]],
                                   !.tv = [x \in MKV |-> IF x[1] = e.m THEN [ex |-> FALSE, del |-> FALSE, ser |-> {}] ELSE st.tv[x]]]
    [] e.t = "ktomb" -> [st EXCEPT !.mm[e.m].ex = TRUE, !.tk[<<e.m, e.k>>] = [ex |-> TRUE, del |-> TRUE]]
    [] e.t = "vtomb" -> [st EXCEPT !.mm[e.m].ex = TRUE, !.tk[<<e.m, e.k>>].ex = TRUE,
                                   !.tv[<<e.m, e.k, e.v>>].ex = TRUE, !.tv[<<e.m, e.k, e.v>>].del = TRUE]
RECURSIVE Replay(_, _)
Replay(st, es) == IF es = <<>> THEN st ELSE Replay(Exec(st, Head(es)), Tail(es))

Ent(t, s, m, k, v, lv, tm, tt) == [t |-> t, s |-> s, m |-> m, k |-> k, v |-> v, lv |-> lv, tm |-> tm, tt |-> tt]
NewLog(lv, tm, tt) == [kind |-> "log", level |-> 0, st |-> EmptySt, ents |-> <<>>, lv0 |-> lv, tm0 |-> tm, tt0 |-> tt]

\* LogFile.CompactTo: the values of a deleted tag key are not written
CompactLogSt(st) ==
  [st EXCEPT !.tv = [x \in MKV |-> IF st.tk[<<x[1], x[2]>>].ex /\ st.tk[<<x[1], x[2]>>].del
                                   THEN [ex |-> FALSE, del |-> FALSE, ser |-> {}] ELSE st.tv[x]]]

\* File interface
FKeyElem(f, m, k) == f.st.mm[m].ex /\ f.st.tk[<<m, k>>].ex
FValElem(f, m, k, v) == FKeyElem(f, m, k) /\ f.st.tv[<<m, k, v>>].ex
FTagValueSet(f, m, k, v) == IF FValElem(f, m, k, v) THEN f.st.tv[<<m, k, v>>].ser ELSE {}
FTagKeySeries(f, m, k) == IF FKeyElem(f, m, k) THEN UNION {f.st.tv[<<m, k, v>>].ser : v \in Vals} ELSE {}

\* IndexFiles.CompactTo for two files (a newer than b)
MergeIdx(a, b, lvl) ==
  LET ka(m, k) == FKeyElem(a, m, k)
      kb(m, k) == FKeyElem(b, m, k)
      st == [mm |-> [m \in Meas |-> [ex  |-> a.st.mm[m].ex \/ b.st.mm[m].ex,
                                     del |-> IF a.st.mm[m].ex THEN a.st.mm[m].del ELSE b.st.mm[m].del,
                                     ser |-> a.st.mm[m].ser \cup b.st.mm[m].ser]],
             tk |-> [x \in MK |-> [ex  |-> ka(x[1], x[2]) \/ kb(x[1], x[2]),
                                   del |-> IF ka(x[1], x[2]) THEN a.st.tk[x].del
                                           ELSE IF kb(x[1], x[2]) THEN b.st.tk[x].del ELSE FALSE]],
             tv |-> [x \in MKV |->
                      LET m == x[1]  k == x[2]  v == x[3]
                          \* tagKeyMergeElem.TagValueIterator: value iterators newest first, stop after a deleted key elem
                          va == FValElem(a, m, k, v)
                          vb == FValElem(b, m, k, v) /\ ~(ka(m, k) /\ a.st.tk[<<m, k>>].del)
                      IN IF va \/ vb
                         THEN [ex  |-> TRUE,
                               del |-> IF va THEN a.st.tv[x].del ELSE b.st.tv[x].del,
                               ser |-> FTagValueSet(a, m, k, v) \cup FTagValueSet(b, m, k, v)]   \* union, tombstones not applied
                         ELSE [ex |-> FALSE, del |-> FALSE, ser |-> {}]],
             \* IndexFiles.buildSeriesIDSets
             sids  |-> (b.st.sids \ a.st.tombs) \cup a.st.sids,
             tombs |-> (b.st.tombs \cup a.st.tombs) \ a.st.sids]
  IN [kind |-> "idx", level |-> lvl, st |-> st, ents |-> <<>>, lv0 |-> {}, tm0 |-> {}, tt0 |-> {}]

\* ------------------------------------------------------------------ FileSet readers (F = file sequence, newest first)
NF(F) == 1..Len(F)
RawMeas(F) == {m \in Meas : \E i \in NF(F) : /\ F[i].st.mm[m].ex /\ ~F[i].st.mm[m].del
                                              /\ \A j \in 1..(i-1) : ~F[j].st.mm[m].ex}
RawMeasSeries(F, m) == UNION {F[i].st.mm[m].ser : i \in NF(F)}                 \* union; series tombstones are not applied
RawTagKeySeries(F, m, k) == UNION {FTagKeySeries(F[i], m, k) : i \in NF(F)}     \* union; series tombstones are not applied
RECURSIVE TVS(_, _, _, _, _)
TVS(F, i, m, k, v) ==    \* FileSet.TagValueSeriesIDIterator: oldest to newest, tombstones of file i+1 applied before merging file i
  IF i > Len(F) THEN {}
  ELSE (TVS(F, i + 1, m, k, v) \ (IF i < Len(F) THEN F[i + 1].st.tombs ELSE {})) \cup FTagValueSet(F[i], m, k, v)
RawTVS(F, m, k, v) == IF FixNewestTomb THEN TVS(F, 1, m, k, v) \ F[1].st.tombs ELSE TVS(F, 1, m, k, v)
RawTagKeysAll(F, m) == {k \in Keys : \E i \in NF(F) : FKeyElem(F[i], m, k)}
RawTagKeys(F, m) == {k \in Keys : \E i \in NF(F) : /\ FKeyElem(F[i], m, k) /\ ~F[i].st.tk[<<m, k>>].del
                                                   /\ \A j \in 1..(i-1) : ~FKeyElem(F[j], m, k)}
RawTagValues(F, m, k) == {v \in Vals : \E i \in NF(F) : /\ FValElem(F[i], m, k, v) /\ ~F[i].st.tv[<<m, k, v>>].del
                                                        /\ \A j \in 1..(i-1) : ~FValElem(F[j], m, k, v)}
MeasHasSeries(F, ps, m) == \E i \in NF(F) : F[i].st.mm[m].ser \cap ps # {}
RECURSIVE BuildPset(_, _)
BuildPset(F, i) == IF i > Len(F) THEN {} ELSE (BuildPset(F, i + 1) \ F[i].st.tombs) \cup F[i].st.sids

\* Index.TagValueSeriesIDIterator with the cache
NoCache == [x \in MKV |-> [has |-> FALSE, set |-> {}]]
CachedTV(F, c, m, k, v) == IF CacheOn /\ c[<<m, k, v>>].has THEN c[<<m, k, v>>].set ELSE RawTVS(F, m, k, v)
\* the observer queries every (m,k,v) after every API operation, which fills the cache
CacheFill(F, c) == IF CacheOn THEN [x \in MKV |-> IF c[x].has THEN c[x] ELSE [has |-> TRUE, set |-> RawTVS(F, x[1], x[2], x[3])]]
                   ELSE c
CacheAdd(c, s) == [x \in MKV |-> IF c[x].has /\ x[1] = MOf(s) /\ TagOf(s, x[2]) = x[3] THEN [c[x] EXCEPT !.set = @ \cup {s}] ELSE c[x]]
CacheDel(c, s) == [x \in MKV |-> IF c[x].has /\ x[1] = MOf(s) /\ TagOf(s, x[2]) = x[3] THEN [c[x] EXCEPT !.set = @ \ {s}] ELSE c[x]]

RECURSIVE CacheAddAll(_, _)
CacheAddAll(c, q) == IF q = <<>> THEN c ELSE CacheAddAll(CacheAdd(c, Head(q)), Tail(q))

\* consumer view (tsdb.IndexSet: FilterUndeletedSeriesIDIterator over the series file)
Filter(X) == IF SfileDelete THEN X \cap sfl ELSE X
DMser(m) == Filter(RawMeasSeries(files, m))
DKser(m, k) == Filter(RawTagKeySeries(files, m, k))
DVser(m, k, v) == Filter(CachedTV(files, cache, m, k, v))
DKeys(m) == {k \in RawTagKeysAll(files, m) : DKser(m, k) # {}}        \* MeasurementTagKeysByExpr(nil) + TagKeyHasAuthorizedSeries
DVals(m, k) == {v \in RawTagValues(files, m, k) : DVser(m, k, v) # {}} \* MeasurementTagKeyValuesByExpr(auth, nil)
DMeas == RawMeas(files)

\* ------------------------------------------------------------------ actions
Log(rec) == /\ nops' = nops + 1
            /\ hist' = IF RecHist THEN Append(hist, rec) ELSE hist

Idle == [pc |-> "idle", todo |-> <<>>, batch |-> {}, ms |-> <<>>, ents |-> <<>>, done |-> {}]
AppendEnt(F, e) == [F EXCEPT ![1].ents = Append(@, e), ![1].st = Exec(@, e)]
RECURSIVE ApplyEnts(_, _)
ApplyEnts(F, es) == IF es = <<>> THEN F ELSE ApplyEnts(AppendEnt(F, Head(es)), Tail(es))
HEnts(es) == IF ~RecHist THEN <<>> ELSE [i \in 1..Len(es) |-> [k |-> es[i].t, exp |-> ExpObs(es[i].lv, es[i].lv, es[i].tm, es[i].tt)]]

Init == /\ live = {} /\ tornM = {} /\ tornT = {} /\ sfl = {} /\ gen = [s \in S |-> 0]
        /\ files = <<NewLog({}, {}, {})>>
        /\ pset = {}
        /\ cache = NoCache
        /\ flow = Idle
        /\ nent = 0 /\ nops = 0
        /\ hist = <<>>

\* Index.CreateSeriesListIfNotExists (the series file hands out the key's undeleted id, or a new one)
CurId(s) == {x \in sfl : Key(x) = s}
IdFor(s) == IF CurId(s) # {} THEN CHOOSE x \in CurId(s) : TRUE ELSE s + NS * gen[s]
CreateSeries(L) ==
  /\ flow.pc = "idle" /\ nops < MaxOps
  /\ L # {} /\ L \subseteq S /\ Cardinality(L) <= MaxCreate
  /\ \A s \in L : CurId(s) = {} => gen[s] <= MaxGen
  /\ LET q    == SortedSeq(L)
         ids  == [i \in 1..Len(q) |-> IdFor(q[i])]
         idset == SeqSet(ids)
         new  == SelectSeq(ids, LAMBDA x : x \notin pset)
         es   == [i \in 1..Len(new) |-> Ent("add", new[i], "", "", "", live \cup {new[j] : j \in 1..i},
                                            tornM \ {MOf(new[j]) : j \in 1..i}, tornT)]
         F1   == ApplyEnts(files, es)
         c1   == CacheAddAll(cache, new)
         live1 == live \cup idset
         torn1 == tornM \ {MOf(x) : x \in idset}
         sfl1  == sfl \cup idset
     IN /\ files' = F1
        /\ pset' = pset \cup idset
        /\ live' = live1 /\ tornM' = torn1 /\ sfl' = sfl1
        /\ gen' = [s \in S |-> IF s \in L /\ CurId(s) = {} THEN gen[s] + 1 ELSE gen[s]]
        /\ cache' = CacheFill(F1, c1)
        /\ nent' = nent + Len(new)
        /\ Log([a |-> "create", ss |-> q, ents |-> HEnts(es),
                                 exp |-> ExpObs(live1, IF SfileDelete THEN live1 \cap sfl1 ELSE live1, torn1, tornT)])
        /\ UNCHANGED <<flow, tornT>>

\* engine drop flow (Engine.deleteSeriesRange tail): batch of series of this shard
BeginDrop(B) ==
  /\ flow.pc = "idle" /\ nops < MaxOps
  /\ B # {} /\ B \subseteq Vis          \* the engine finds the series through the series file: ids deleted there are out of reach
  /\ Cardinality(B) = 1 \/ \E m \in Meas : B = LiveOf(Vis, m)
  /\ flow' = [pc |-> "series", todo |-> SortedSeq(B), batch |-> B, ms |-> MeasSeqOf(B), ents |-> <<>>, done |-> {}]
  /\ UNCHANGED <<live, tornM, tornT, sfl, gen, files, pset, cache, nent, nops, hist>>

\* measurements the running flow has emptied but not yet tombstoned
Pend(L, touched, done) == {m \in touched : LiveOf(L, m) = {}} \ done

PendNow == IF flow.pc \in {"series", "meas"}
           THEN Pend(live, {MOf(x) : x \in flow.batch \ SeqSet(flow.todo)}, flow.done) ELSE {}

\* Index.DropSeries(id, key, false): log tombstone, seriesIDSet.Remove, (repaired) cache update
DropStep ==
  /\ flow.pc = "series"
  /\ LET s     == Head(flow.todo)
         rest  == Tail(flow.todo)
         live1 == live \ {s}
         touched == {MOf(x) : x \in flow.batch \ SeqSet(rest)}
         e     == Ent("tomb", s, "", "", "", live1, tornM \cup Pend(live1, touched, {}), tornT)
     IN /\ files' = AppendEnt(files, e)
        /\ pset' = pset \ {s}
        /\ live' = live1
        /\ cache' = IF FixCacheOnDrop THEN CacheDel(cache, s) ELSE cache
        /\ flow' = [flow EXCEPT !.todo = rest, !.ents = @ \o HEnts(<<e>>), !.pc = IF rest = <<>> THEN "meas" ELSE "series"]
        /\ nent' = nent + 1
  /\ UNCHANGED <<tornM, tornT, sfl, gen, nops, hist>>

\* Partition.DropMeasurement: entries written for measurement m, computed from the file set as it is when the call starts
KEnts(F, m, k, lv, tm, tt) ==
  LET has == {i \in NF(F) : FKeyElem(F[i], m, k)}
  IN IF has = {} THEN <<>>
     ELSE LET i0   == Min(has)
              kdel == F[i0].st.tk[<<m, k>>].del
              vf   == {i \in has : \A j \in has : j < i => ~F[j].st.tk[<<m, k>>].del}
              VEnt(v) == LET hv == {i \in vf : F[i].st.tv[<<m, k, v>>].ex}
                         IN IF hv = {} THEN <<>>
                            ELSE IF F[Min(hv)].st.tv[<<m, k, v>>].del THEN <<>>
                            ELSE <<Ent("vtomb", 0, m, k, v, lv, tm, tt)>>
          IN (IF kdel THEN <<>> ELSE <<Ent("ktomb", 0, m, k, "", lv, tm, tt)>>) \o VEnt(ValOrder[1]) \o VEnt(ValOrder[2])
DropMeasEnts(F, m, lv, tmBefore, tmAfter, tt) ==
  LET ser == SortedSeq(RawMeasSeries(F, m))
  IN KEnts(F, m, KeyOrder[1], lv, tmBefore, tt \cup {m}) \o KEnts(F, m, KeyOrder[2], lv, tmBefore, tt \cup {m})
     \o [i \in 1..Len(ser) |-> Ent("tomb", ser[i], "", "", "", lv, tmBefore, tt \cup {m})]
     \o <<Ent("mtomb", 0, m, "", "", lv, tmAfter, tt \ {m})>>

\* Index.DropMeasurementIfSeriesNotExist(m)
DropMeasStep ==
  /\ flow.pc = "meas"
  /\ LET m    == Head(flow.ms)
         rest == Tail(flow.ms)
         touched == {MOf(x) : x \in flow.batch}
         drop == ~MeasHasSeries(files, pset, m)
         es   == IF drop THEN DropMeasEnts(files, m, live, tornM \cup Pend(live, touched, flow.done),
                                           tornM \cup Pend(live, touched, flow.done \cup {m}), tornT)
                 ELSE <<>>
     IN /\ files' = ApplyEnts(files, es)
        /\ flow' = [flow EXCEPT !.ms = rest, !.ents = @ \o HEnts(es), !.done = IF drop THEN @ \cup {m} ELSE @,
                                !.pc = IF rest = <<>> THEN "end" ELSE "meas"]
        /\ nent' = nent + Len(es)
        /\ tornT' = IF drop THEN tornT \ {m} ELSE tornT
  /\ UNCHANGED <<live, tornM, sfl, gen, pset, cache, nops, hist>>

\* SeriesFile.DeleteSeriesID for ids no other shard holds; the observer then reads everything
EndDrop ==
  /\ flow.pc = "end"
  /\ LET sfl1 == IF SfileDelete THEN sfl \ flow.batch ELSE sfl
     IN /\ sfl' = sfl1
        /\ cache' = CacheFill(files, cache)
        /\ Log([a |-> "drop", ss |-> [i \in 1..Len(SortedSeq(flow.batch)) |-> Key(SortedSeq(flow.batch)[i])], ents |-> flow.ents,
                                 exp |-> ExpObs(live, IF SfileDelete THEN live \cap sfl1 ELSE live, tornM, tornT)])
  /\ flow' = Idle
  /\ UNCHANGED <<live, tornM, tornT, gen, files, pset, nent>>

\* marker for the driver: Index.Compact() + Wait() until quiescent (what it does is the internal actions below)
MarkCompact ==
  /\ flow.pc = "idle" /\ nops < MaxOps
  /\ RecHist /\ hist # <<>> /\ hist[Len(hist)].a # "compact"
  /\ Log([a |-> "compact", exp |-> Exp])
  /\ UNCHANGED <<live, tornM, tornT, sfl, gen, files, pset, cache, flow, nent>>

\* Partition.prependActiveLogFile (CheckLogFile after a write, compact(), or Open when the first log is over the threshold)
RollLog ==
  /\ Internal
  /\ Len(files[1].ents) > 0 /\ Len(files) < MaxFiles
  /\ files' = <<NewLog(live, tornM \cup PendNow, tornT)>> \o files
  /\ UNCHANGED <<live, tornM, tornT, sfl, gen, pset, cache, flow, nent, nops, hist>>

\* Partition.compactLogFile
CompactLog(i) ==
  /\ Internal
  /\ i \in 2..Len(files) /\ files[i].kind = "log"
  /\ files' = [files EXCEPT ![i] = [kind |-> "idx", level |-> 1, st |-> CompactLogSt(@.st), ents |-> <<>>, lv0 |-> {}, tm0 |-> {}, tt0 |-> {}]]
  /\ UNCHANGED <<live, tornM, tornT, sfl, gen, pset, cache, flow, nent, nops, hist>>

\* Partition.compactToLevel on the two oldest files LastContiguousIndexFilesByLevel(lvl) collects (scan from the oldest file,
\* pass over higher levels, stop at the first lower level; MaxIndexMergeCount = 2). FileSet.MustReplace panics unless adjacent.
Collected(lvl) == {i \in 1..Len(files) : files[i].level = lvl /\ \A j \in (i + 1)..Len(files) : files[j].level >= lvl}
CompactLevel(lvl) ==
  /\ Internal
  /\ lvl \in 1..MaxLevel
  /\ LET run == Collected(lvl)
     IN /\ Cardinality(run) >= 2
        /\ LET ib == CHOOSE i \in run : \A j \in run : j <= i     \* oldest
               ia == CHOOSE i \in run \ {ib} : \A j \in run \ {ib} : j <= i
           IN /\ ia = ib - 1
              /\ files' = SubSeq(files, 1, ia - 1) \o <<MergeIdx(files[ia], files[ib], lvl + 1)>> \o SubSeq(files, ib + 1, Len(files))
  /\ UNCHANGED <<live, tornM, tornT, sfl, gen, pset, cache, flow, nent, nops, hist>>

\* Close + Open: files from the manifest, log files replayed, seriesIDSet rebuilt, new Index object (empty cache)
Reopen(roll) ==
  /\ flow.pc = "idle" /\ nops < MaxOps
  /\ roll => (Internal /\ Len(files[1].ents) > 0 /\ Len(files) < MaxFiles)
  /\ LET F1 == IF roll THEN <<NewLog(live, tornM, tornT)>> \o files ELSE files
     IN /\ files' = F1
        /\ pset' = BuildPset(F1, 1)
        /\ cache' = CacheFill(F1, NoCache)
  /\ Log([a |-> "reopen", exp |-> Exp])
  /\ UNCHANGED <<live, tornM, tornT, sfl, gen, flow, nent>>

\* crash image at an operation boundary whose active log lost everything after its first j entries, then Open
Crash(j) ==
  /\ WithCrash
  /\ flow.pc = "idle" /\ nops < MaxOps
  /\ j \in 0..(Len(files[1].ents) - 1)
  /\ LET A     == files[1]
         kept  == SubSeq(A.ents, 1, j)
         A1    == [A EXCEPT !.ents = kept, !.st = Replay(EmptySt, kept)]
         F1    == <<A1>> \o Tail(files)
         live1 == IF j = 0 THEN A.lv0 ELSE A.ents[j].lv
         torn1 == IF j = 0 THEN A.tm0 ELSE A.ents[j].tm
         tt1   == IF j = 0 THEN A.tt0 ELSE A.ents[j].tt
         n1    == nent - (Len(A.ents) - j)
     IN /\ files' = F1
        /\ live' = live1 /\ tornM' = torn1 /\ tornT' = tt1
        /\ pset' = BuildPset(F1, 1)
        /\ cache' = CacheFill(F1, NoCache)
        /\ nent' = n1
        /\ Log([a |-> "crash", n |-> n1,
                                 exp |-> ExpObs(live1, IF SfileDelete THEN live1 \cap sfl ELSE live1, torn1, tt1)])
  /\ UNCHANGED <<sfl, gen, flow>>

Next == \/ \E L \in SUBSET S : CreateSeries(L)
        \/ \E B \in SUBSET IDs : BeginDrop(B)
        \/ DropStep \/ DropMeasStep \/ EndDrop
        \/ MarkCompact
        \/ RollLog
        \/ \E i \in 2..MaxFiles : CompactLog(i)
        \/ \E l \in 1..MaxLevel : CompactLevel(l)
        \/ \E r \in BOOLEAN : Reopen(r)
        \/ \E j \in 0..(MaxOps * 8) : Crash(j)

Spec == Init /\ [][Next]_vars

\* ------------------------------------------------------------------ invariants (C14 on the model)
IdleNow == flow.pc = "idle"
TypeOK == /\ live \subseteq IDs /\ pset \subseteq IDs /\ sfl \subseteq IDs
          /\ \A x, y \in live \cap sfl : Key(x) = Key(y) => x = y
          /\ Len(files) >= 1 /\ files[1].kind = "log"
          /\ \A i \in 1..Len(files) : (files[i].kind = "log") = (files[i].level = 0)
\* MustReplace would panic on a non-adjacent pair
InvAdjacent == \A lvl \in 1..MaxLevel :
                 LET run == Collected(lvl)
                 IN Cardinality(run) >= 2 =>
                      LET ib == CHOOSE i \in run : \A j \in run : j <= i
                      IN (ib - 1) \in run
\* expected projections (same definitions as ExpObs, evaluated pointwise)
EM(m) == LiveOf(Vis, m)
EK(m, k) == {s \in EM(m) : TagOf(s, k) # ""}
EV(m, k, v) == {s \in EM(m) : TagOf(s, k) = v}
\* equality, except that a measurement whose drop flow was cut by a crash may under-list (stale tag key/value tombstones)
EqT(m, got, want) == got \subseteq want /\ (m \notin tornT => got = want)

InvMeas == IdleNow => /\ MeasIn(live) \subseteq DMeas
                      /\ DMeas \subseteq MeasIn(live) \cup tornM
InvVser == \A m \in Meas, k \in Keys, v \in Vals : EqT(m, DVser(m, k, v), EV(m, k, v))
InvVals == IdleNow => \A m \in Meas, k \in Keys : EqT(m, DVals(m, k), {v \in Vals : EV(m, k, v) # {}})
\* (in SfileDelete mode the series file deletions close the flow, so these two are op-boundary properties there)
InvMser == (SfileDelete => IdleNow) => \A m \in Meas : DMser(m) = EM(m)
InvKser == (SfileDelete => IdleNow) => \A m \in Meas, k \in Keys : EqT(m, DKser(m, k), EK(m, k))
InvKeys == IdleNow => \A m \in Meas : EqT(m, DKeys(m), {k \in Keys : EK(m, k) # {}})
InvPset == pset = live
\* raw tag iterators keep names until the measurement is dropped: supersets only
InvRawSuper == IdleNow => \A m \in Meas : m \notin tornT =>
                             /\ {k \in Keys : EK(m, k) # {}} \subseteq RawTagKeysAll(files, m)
                             /\ \A k \in Keys : {v \in Vals : EV(m, k, v) # {}} \subseteq {v \in Vals : \E i \in NF(files) : FValElem(files[i], m, k, v)}

\* generation configs: every maximal history is printed once (as JSON) when TLC evaluates this "invariant"
Emit == (RecHist /\ IdleNow /\ nops = MaxOps) => PrintT("@@J" \o ToJson(hist))

\* Directed generation (configs with CONSTRAINT FollowsScript / INVARIANT EmitScript): a fixed handful of histories that are
\* always replayed. Shape: a log holding series tombstones (of ids the series file may already have forgotten) is compacted,
\* the index is reopened (Partition.seriesIDSet rebuilt from the files' series / tombstone sets), then the drop that must
\* remove the measurement - or the re-creation that must make the series visible again - follows.
SOp(a, ss) == [a |-> a, ss |-> ss]
Scripts == {
  <<SOp("create", {1, 2}), SOp("drop", {1}), SOp("compact", {}), SOp("reopen", {}), SOp("drop", {2})>>,
  <<SOp("create", {1, 2}), SOp("compact", {}), SOp("drop", {1}), SOp("compact", {}), SOp("reopen", {}), SOp("drop", {2})>>,
  <<SOp("create", {1}), SOp("create", {2}), SOp("drop", {2}), SOp("compact", {}), SOp("reopen", {}), SOp("drop", {1}), SOp("reopen", {})>>,
  <<SOp("create", {1, 2}), SOp("drop", {1}), SOp("compact", {}), SOp("reopen", {}), SOp("create", {1}), SOp("drop", {1, 2})>>,
  <<SOp("create", {1, 3}), SOp("create", {2}), SOp("drop", {1, 2, 3}), SOp("compact", {}), SOp("reopen", {}), SOp("create", {2}), SOp("compact", {})>>,
  <<SOp("create", {1, 2}), SOp("drop", {2}), SOp("create", {2}), SOp("compact", {}), SOp("reopen", {}), SOp("drop", {1}), SOp("drop", {2})>> }
HMatch(h, o) == h.a = o.a /\ (o.a \in {"create", "drop"} => SeqSet(h.ss) = o.ss)
OnScript(sc) == Len(hist) <= Len(sc) /\ \A i \in 1..Len(hist) : HMatch(hist[i], sc[i])
FollowsScript == \E sc \in Scripts : OnScript(sc)
EmitScript == (RecHist /\ IdleNow /\ \E sc \in Scripts : OnScript(sc) /\ Len(hist) = Len(sc)) => PrintT("@@J" \o ToJson(hist))

View == <<live, tornM, tornT, sfl, gen, files, pset, cache, flow>>
=============================================================================
