SPECIFICATION GenSpec
CONSTANTS
  MaxT = 5
  MaxLen = 4
  Vals <- Vals3
  Cases <- AllCases
  ModeQuirk = FALSE
CHECK_DEADLOCK FALSE
