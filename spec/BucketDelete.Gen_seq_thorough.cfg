SPECIFICATION Spec
CONSTANTS
  Series = {1, 2, 3, 4}
  Times = {1, 2, 3}
  Preds <- PredsAll
  Ranges <- RangesAll
  InitFam <- FamFull
  Inits <- InitsAny
  WTimeSets <- WTimeSetsAll
  NWriters = 0
  MaxWrites = 0
  PlanMode = FALSE
  KeepHist = TRUE
  HookGran = TRUE
INVARIANTS TypeOK ExactData MetadataExact
