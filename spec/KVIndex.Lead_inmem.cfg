\* Lead: on the in-memory store (Atomic = FALSE) a failed update transaction keeps its writes (known finding inmem_failed_tx_keeps_writes).  The counterexample is replayed on the real kv.Index and counts only if it reproduces there.  Run with one worker: the shortest counterexample.
SPECIFICATION Spec
CONSTANTS
  FKs = {"f1", "f2"}
  Rs = {"p1", "p2"}
  Tied = FALSE
  Urm = FALSE
  BadFKs = {}
  BadPKs = {}
  Atomic = FALSE
  Restamp = FALSE
  WithAbort = TRUE
  MaxOps = 3
  Record = TRUE
  Probing = TRUE
  NoOpSteps = FALSE
INVARIANTS InvP_Tx
VIEW View
CHECK_DEADLOCK FALSE
