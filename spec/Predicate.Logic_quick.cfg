\* connective focus: AND/OR trees of depth <= 2 with at most one composite child over 6 fixed leaves, 0..2 tags
SPECIFICATION Spec
CONSTANTS
  MeasSet <- Plain
  KeySet <- Plain
  ValSet <- Plain
  TagCounts = {0, 1, 2}
  LeafMode = "fixed"
  Shape = "d2lin"
  SkipName = TRUE
  PredKeys <- Plain
  PredVals <- OnlyA
INVARIANTS KeyRoundTrips ModelAgrees
CHECK_DEADLOCK FALSE
