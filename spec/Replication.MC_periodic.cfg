SPECIFICATION Spec
CONSTANTS
  MaxBatches = 3
  MaxScript = 2
  Resps = {"204", "500", "400"}
  Drops = {TRUE, FALSE}
  Attempts0 = {0}
  MaxAges = {1}
  MaxTicks = 1
  SegCap = 2
  PeriodicAdv = TRUE
  PeriodicFix = TRUE
  EnqAnywhere = TRUE
  Record = TRUE
  MaxPre = 1
INVARIANTS TypeOK OnlyLegalRemovals AcceptedOnly204InOrder DropOnly400 PurgeOnlyOld QueueInOrder PostInOrder WaitFollowsRule NoStrandedBatch
VIEW View
CHECK_DEADLOCK FALSE
