----------------------------- MODULE CredAuthn -----------------------------
(* C44, second sentence - "a request is authenticated only with a token that exists and is active, or with  *)
(* an unexpired session, and never on behalf of an inactive user".                                           *)
(*                                                                                                          *)
(* Implementation layer (http/authentication_middleware.go:82-166, auth.go:107, session.go:47,             *)
(* session/service.go, session/storage.go, inmem/session_store.go, authorization/service.go):              *)
(*   a request is two steps, AuthBegin (AuthenticationHandler.ServeHTTP up to the call of the wrapped        *)
(*   handler: ProbeAuthScheme, extractAuthorization / extractSession incl. session renewal, isUserActive)   *)
(*   and AuthEnd (the first permission check of the wrapped handler: Authorizer.PermissionSet(), which is   *)
(*   where an inactive token and an expired session object are refused).  Anything may happen in between    *)
(*   (time passes, token deactivated, user deactivated): the authorizer placed on the request context is a  *)
(*   snapshot.  Token, user and session management calls are one action each.  Time is a counter; a session *)
(*   is in the store while now < exp (the in-memory store deletes on a timer).                              *)
(* Contract layer: Current(h) - the credential presented is current at AuthBegin - and, for sessions, still  *)
(*   unexpired at AuthEnd; Authenticated <=> these.                                                         *)
(*                                                                                                          *)
(* Token t and session key k belong to user t resp. k.  Id 3 is a token / key that was never issued.        *)
EXTENDS Integers, Sequences, TLC

CONSTANTS Users,       \* {1, 2}
          MaxT,        \* time runs 0..MaxT
          MaxOps,
          Renewals,    \* subset of BOOLEAN: values of ~SessionRenewDisabled explored
          SessLens,    \* subset of {"short","long"}: configured session length explored
          Forms,       \* header forms offered to AuthBegin (subset of {"none","token","bearer","phc","basic","jwt"})
          Mgmt         \* management call groups enabled (subset of {"token","user","session"}); focused configs switch some off

VARIABLES users,     \* user -> "active" | "inactive" | "absent"
          tokens,    \* token -> "none" | "active" | "inactive"
          sessions,  \* key -> [st: "none" | "live" | "gone", exp]
          now,
          req,       \* the request in flight: [phase: "idle" | "held", kind, good, snapExp, cur]  (cur: contract ghost)
          cfg,       \* [renew, slen]  (constant over a behaviour)
          hist
vars == <<users, tokens, sessions, now, req, cfg, hist>>

ShortLen == 1      \* a short session expires before the next tick
LongLen  == 1000   \* a long one never within a behaviour
RenewLen == 2      \* RenewSessionTime: alive through the next tick, gone at the one after
Max(a, b) == IF a > b THEN a ELSE b
Idle == [phase |-> "idle", kind |-> "none", good |-> FALSE, snapExp |-> 0, cur |-> FALSE]

\* header classes: [form, t, k]   form: how the Authorization header looks; t: which token it carries; k: session cookie (0 = none)
AllHeaders ==
  {[form |-> "none", t |-> 0, k |-> k] : k \in 0..3} \cup
  {[form |-> "token", t |-> t, k |-> 0] : t \in 1..3} \cup
  {[form |-> "token", t |-> 1, k |-> 1], [form |-> "token", t |-> 3, k |-> 1]} \cup     \* token wins over the cookie
  {[form |-> "bearer", t |-> t, k |-> 0] : t \in 1..2} \cup
  {[form |-> "phc", t |-> 1, k |-> 0]} \cup                 \* the stored hash of token 1 presented as a token
  {[form |-> "basic", t |-> 1, k |-> k] : k \in 0..1} \cup  \* unknown scheme: no token is extracted, a cookie still counts
  {[form |-> "jwt", t |-> 0, k |-> k] : k \in 0..1}         \* well-formed JWT signed with an unknown key
Headers == {h \in AllHeaders : h.form \in Forms}

HasTok(h)    == h.form \in {"token", "bearer", "phc", "jwt"}
HasCookie(h) == h.k # 0
InStore(k)   == k \in Users /\ sessions[k].st = "live" /\ now < sessions[k].exp

\* ------------------------------------------------------------------ contract
Current(h) ==
  IF HasTok(h) THEN h.form \in {"token", "bearer"} /\ h.t \in Users /\ tokens[h.t] = "active" /\ users[h.t] = "active"
  ELSE IF HasCookie(h) THEN InStore(h.k) /\ users[h.k] = "active"
  ELSE FALSE

Init ==
  /\ users = [u \in Users |-> "active"]
  /\ tokens = [t \in Users |-> IF t = 1 THEN "active" ELSE "none"]
  /\ sessions = [k \in Users |-> [st |-> "none", exp |-> 0]]
  /\ now = 0
  /\ req = Idle
  /\ \E r \in Renewals, l \in SessLens : cfg = [renew |-> r, slen |-> l]
  /\ hist = <<>>

CanStep == Len(hist) < MaxOps
Log(rec) == hist' = Append(hist, rec)

\* ------------------------------------------------------------------ management calls
\* authorization.Service.CreateAuthorization: the owning user must exist
TokenCreate(t) ==
  /\ CanStep /\ tokens[t] = "none"
  /\ IF users[t] # "absent"
     THEN tokens' = [tokens EXCEPT ![t] = "active"] /\ Log([a |-> "TokenCreate", t |-> t, exp |-> [ok |-> TRUE]])
     ELSE UNCHANGED tokens /\ Log([a |-> "TokenCreate", t |-> t, exp |-> [ok |-> FALSE]])
  /\ UNCHANGED <<users, sessions, now, req, cfg>>
\* UpdateAuthorization{Status}
TokenSetStatus(t, s) ==
  /\ CanStep /\ tokens[t] \notin {"none", s}
  /\ tokens' = [tokens EXCEPT ![t] = s]
  /\ Log([a |-> "TokenSetStatus", t |-> t, s |-> s, exp |-> [ok |-> TRUE]])
  /\ UNCHANGED <<users, sessions, now, req, cfg>>
TokenDelete(t) ==
  /\ CanStep /\ tokens[t] # "none"
  /\ tokens' = [tokens EXCEPT ![t] = "none"]
  /\ Log([a |-> "TokenDelete", t |-> t, exp |-> [ok |-> TRUE]])
  /\ UNCHANGED <<users, sessions, now, req, cfg>>
\* UpdateUser{Status}
UserSetStatus(u, s) ==
  /\ CanStep /\ users[u] \notin {"absent", s}
  /\ users' = [users EXCEPT ![u] = s]
  /\ Log([a |-> "UserSetStatus", u |-> u, s |-> s, exp |-> [ok |-> TRUE]])
  /\ UNCHANGED <<tokens, sessions, now, req, cfg>>
\* DeleteUser: tokens and sessions of the user are left in their stores
UserDelete(u) ==
  /\ CanStep /\ users[u] # "absent"
  /\ users' = [users EXCEPT ![u] = "absent"]
  /\ Log([a |-> "UserDelete", u |-> u, exp |-> [ok |-> TRUE]])
  /\ UNCHANGED <<tokens, sessions, now, req, cfg>>
\* session.Service.CreateSession(user name): the user must exist; one session per key slot
SessionCreate(k) ==
  /\ CanStep /\ sessions[k].st = "none"
  /\ IF users[k] # "absent"
     THEN /\ sessions' = [sessions EXCEPT ![k] = [st |-> "live", exp |-> now + (IF cfg.slen = "short" THEN ShortLen ELSE LongLen)]]
          /\ Log([a |-> "SessionCreate", k |-> k, exp |-> [ok |-> TRUE]])
     ELSE UNCHANGED sessions /\ Log([a |-> "SessionCreate", k |-> k, exp |-> [ok |-> FALSE]])
  /\ UNCHANGED <<users, tokens, now, req, cfg>>
\* session.Service.ExpireSession(key)  (sign-out): fails when the key is not in the store
SessionExpire(k) ==
  /\ CanStep /\ sessions[k].st # "none"
  /\ IF InStore(k)
     THEN sessions' = [sessions EXCEPT ![k].st = "gone"] /\ Log([a |-> "SessionExpire", k |-> k, exp |-> [ok |-> TRUE]])
     ELSE UNCHANGED sessions /\ Log([a |-> "SessionExpire", k |-> k, exp |-> [ok |-> FALSE]])
  /\ UNCHANGED <<users, tokens, now, req, cfg>>
Tick ==
  /\ CanStep /\ now < MaxT
  /\ now' = now + 1
  /\ Log([a |-> "Tick", exp |-> [now |-> now + 1]])
  /\ UNCHANGED <<users, tokens, sessions, req, cfg>>

\* ------------------------------------------------------------------ a request
Refuse(h, status) ==
  /\ Log([a |-> "AuthBegin", h |-> h, exp |-> [status |-> status, current |-> Current(h)]])
  /\ UNCHANGED req
Hold(h, kind, good, snapExp) ==
  /\ Log([a |-> "AuthBegin", h |-> h, exp |-> [status |-> "held", current |-> Current(h)]])
  /\ req' = [phase |-> "held", kind |-> kind, good |-> good, snapExp |-> snapExp, cur |-> Current(h)]

AuthBegin(h) ==
  /\ CanStep /\ req.phase = "idle"
  /\ UNCHANGED <<users, tokens, now, cfg>>
  /\ IF HasTok(h)
     THEN \* token scheme: a well-formed JWT fails verification (no keys); anything else is looked up as a token
          /\ UNCHANGED sessions
          /\ IF h.form \in {"token", "bearer"} /\ h.t \in Users /\ tokens[h.t] # "none"
             THEN \* found, whatever its status; only the USER's status is checked by the middleware
                  IF users[h.t] = "active" THEN Hold(h, "token", tokens[h.t] = "active", 0)
                  ELSE Refuse(h, "forbidden")
             ELSE Refuse(h, "unauth")
     ELSE IF HasCookie(h)
     THEN IF InStore(h.k)
          THEN \* FindSession, then RenewSession (store only; the session object in hand keeps its expiry), then the user check
               /\ sessions' = IF cfg.renew THEN [sessions EXCEPT ![h.k].exp = Max(@, now + RenewLen)] ELSE sessions
               /\ IF users[h.k] = "active" THEN Hold(h, "session", TRUE, sessions[h.k].exp)
                  ELSE Refuse(h, "forbidden")
          ELSE UNCHANGED sessions /\ Refuse(h, "unauth")
     ELSE UNCHANGED sessions /\ Refuse(h, "unauth")

\* the wrapped handler's permission check: Authorization.PermissionSet() refuses an inactive token,
\* Session.PermissionSet() refuses when the session object in hand has expired
AuthEnd ==
  /\ CanStep /\ req.phase = "held"
  /\ LET ok == IF req.kind = "token" THEN req.good ELSE now < req.snapExp
     IN Log([a |-> "AuthEnd", exp |-> [status |-> IF ok THEN "ok" ELSE "refused"]])
  /\ req' = Idle
  /\ UNCHANGED <<users, tokens, sessions, now, cfg>>

Next ==
  \/ "token" \in Mgmt /\ \E t \in Users : TokenCreate(t)
  \/ "token" \in Mgmt /\ \E t \in Users, s \in {"active", "inactive"} : TokenSetStatus(t, s)
  \/ "token" \in Mgmt /\ \E t \in Users : TokenDelete(t)
  \/ "user" \in Mgmt /\ \E u \in Users, s \in {"active", "inactive"} : UserSetStatus(u, s)
  \/ "user" \in Mgmt /\ \E u \in Users : UserDelete(u)
  \/ "session" \in Mgmt /\ \E k \in Users : SessionCreate(k)
  \/ "session" \in Mgmt /\ \E k \in Users : SessionExpire(k)
  \/ Tick
  \/ \E h \in Headers : AuthBegin(h)
  \/ AuthEnd

Spec == Init /\ [][Next]_vars

\* ------------------------------------------------------------------ checked on the specification
\* (action properties: they look at one step, so they are insensitive to the VIEW that hides the history)
LastRec == hist'[Len(hist')]
Began(h) == AuthBegin(h) /\ LastRec.h = h
\* authenticated => the credential was current when it was presented (req.cur is the contract's verdict taken at AuthBegin)
OnlyCurrentAuthenticates ==
  [][(AuthEnd /\ LastRec.exp.status = "ok") => req.cur]_vars
\* ... and a session additionally has not run out by the time the handler checks it
SessionStillUnexpired ==
  [][(AuthEnd /\ LastRec.exp.status = "ok" /\ req.kind = "session") => now < req.snapExp]_vars
\* the middleware never lets a request through on behalf of an inactive or deleted user
NeverForInactiveUser ==
  [][\A h \in Headers : (Began(h) /\ req'.phase = "held") =>
        /\ (IF HasTok(h) THEN h.t ELSE h.k) \in Users
        /\ users[IF HasTok(h) THEN h.t ELSE h.k] = "active"]_vars
\* never-issued tokens / keys, stored hashes and unverifiable JWTs never get past the middleware
UnknownNeverHeld ==
  [][\A h \in Headers : (Began(h) /\ req'.phase = "held") =>
        /\ h.form \notin {"phc", "jwt"}
        /\ (HasTok(h) => h.t # 3) /\ (~HasTok(h) => h.k # 3)]_vars
\* converse (model level): a current credential is let through by the middleware, and authenticates unless it is a
\* session that runs out before the handler looks
CurrentIsHeld ==
  [][\A h \in Headers : (Began(h) /\ Current(h)) => req'.phase = "held"]_vars
CurrentAuthenticates ==
  [][(AuthEnd /\ req.cur /\ (req.kind = "token" \/ now < req.snapExp)) => LastRec.exp.status = "ok"]_vars
\* a deactivated or deleted token presented afresh is never authenticated: there is no step that ends "ok" for a
\* request whose token was not active at AuthBegin
TokenGoodIffActiveAtBegin ==
  [][\A h \in Headers : (Began(h) /\ req'.phase = "held" /\ req'.kind = "token") => (req'.good <=> tokens[h.t] = "active")]_vars

View == <<users, tokens, sessions, now, req, cfg, Len(hist)>>
=============================================================================
