-------------------------------- MODULE DBRP --------------------------------
(* v1 database / retention-policy mappings of influxdb (package dbrp over a kv store).                *)
(*                                                                                                    *)
(* Implementation layer (dbrp/service.go):                                                            *)
(*   maps     the mapping records (kv bucket dbrpv1), id -> [org, db, rp, bucket]                     *)
(*   defIdx   the default register (kv bucket dbrpdefaultv1), <<org, db>> -> id                       *)
(*   the by-(org,db) and by-org indexes are derived from maps (they are maintained by every write)    *)
(*   Buckets  constant: the buckets the bucket service knows; every bucket also yields a *virtual*    *)
(*            mapping derived from its name ("db/rp", or "db" = rp autogen and default) which         *)
(*            FindMany merges into its result unless a stored mapping with the same db/rp shadows it  *)
(*   Create / Update / Delete with the default bookkeeping of the code: the first mapping of an       *)
(*   (org,db) becomes the default whatever was asked; setting default moves the register; unsetting   *)
(*   or deleting the default promotes the first (lowest id) other mapping of the same (org,db).       *)
(* Contract layer (C43): the invariants at the end, stated over what FindMany / FindByID return.      *)
EXTENDS Integers, Sequences, FiniteSets, TLC

CONSTANTS DBs1, DBs2, \* database names organization 1 / organization 2 may use (DBs2 = {} : one organization only)
          RPs,       \* retention policy names
          VirtOrgs,  \* organizations that own, besides their two target buckets, a bucket named "d1" and one named "d1/r1"
          CollideOrgs, \* organizations that also own a bucket named "d1/autogen": its virtual mapping collides with the one of
                     \* the bucket "d1" (a name without a slash means retention policy autogen)
          MaxOps, MaxMaps,
          KeepObs    \* BOOLEAN: carry the read-API observation in the state (generation configs); checking configs
                     \* evaluate it inside the invariants instead

VARIABLES maps, defIdx, nMap,
          obs,       \* what the read API returns in the current state (computed by the operators below)
          hist

vars == <<maps, defIdx, nMap, obs, hist>>

\* the <<org, db>> pairs operations address
Keys == {<<1, d>> : d \in DBs1} \cup {<<2, d>> : d \in DBs2}
Orgs == {k[1] : k \in Keys}
\* the buckets the bucket service knows: [id, org, name parsed as db/rp, plain = no slash in the name]
Buckets == {[id |-> 10 * o + j, org |-> o, db |-> (IF j = 1 THEN "t1" ELSE "t2"), rp |-> "autogen", plain |-> TRUE] : o \in Orgs, j \in {1, 2}}
           \cup {[id |-> 10 * o + 3, org |-> o, db |-> "d1", rp |-> "autogen", plain |-> TRUE] : o \in VirtOrgs}
           \cup {[id |-> 10 * o + 4, org |-> o, db |-> "d1", rp |-> "r1", plain |-> FALSE] : o \in VirtOrgs}
           \cup {[id |-> 10 * o + 5, org |-> o, db |-> "d1", rp |-> "autogen", plain |-> FALSE] : o \in CollideOrgs}
DBsOf(o) == {k[2] : k \in {kk \in Keys : kk[1] = o}}
Without(f, k) == [x \in DOMAIN f \ {k} |-> f[x]]
With(f, k, v) == [x \in DOMAIN f \cup {k} |-> IF x = k THEN v ELSE f[x]]
Min(S) == CHOOSE x \in S : \A y \in S : x <= y
\* the bucket a new mapping of organization o points at (two target buckets per organization, alternating)
Target(o, k) == 10 * o + 1 + (k % 2)

\* ---------------------------------------------------------------- the read API
IsDefault(ms, di, i) == <<ms[i].org, ms[i].db>> \in DOMAIN di /\ di[<<ms[i].org, ms[i].db>>] = i
\* a stored mapping as returned to clients
Phys(ms, di, i) == [id |-> i, org |-> ms[i].org, db |-> ms[i].db, rp |-> ms[i].rp, bucket |-> ms[i].bucket,
                    default |-> IsDefault(ms, di, i), virtual |-> FALSE]
\* filter: org (0 = any), db ("" = any), rp ("" = any), def (0 = any, 1 = TRUE)
Match(m, f) == /\ (f.org = 0 \/ m.org = f.org) /\ (f.db = "" \/ m.db = f.db)
               /\ (f.rp = "" \/ m.rp = f.rp) /\ (f.def = 0 \/ m.default)
\* Service.FindMany with an organization filter: stored mappings through the index, then the buckets of the organization
\* in listing order (by id here; the driver's bucket service and the tenant service's by-name index agree with it for
\* these names), each yielding one virtual mapping unless a mapping already in the result has the same db/rp: a returned
\* stored mapping, or the virtual mapping of an earlier bucket that passed the filter ("d1" wins over "d1/autogen").
\* A virtual mapping is the default of its database only if its bucket name has no slash and no returned stored mapping
\* is the default.
FindMany(ms, di, f) ==
  LET phys == {m \in {Phys(ms, di, i) : i \in DOMAIN ms} : Match(m, f)}
      VirtOf(b) == [id |-> b.id, org |-> b.org, db |-> b.db, rp |-> b.rp, bucket |-> b.id,
                    default |-> b.plain /\ ~(\E m \in phys : m.db = b.db /\ m.default), virtual |-> TRUE]
      cand == {b \in Buckets : /\ b.org = f.org
                               /\ ~(\E m \in phys : m.db = b.db /\ m.rp = b.rp)
                               /\ Match(VirtOf(b), f)}
      virt == {VirtOf(b) : b \in {bb \in cand : ~(\E b2 \in cand : b2.id < bb.id /\ b2.db = bb.db /\ b2.rp = bb.rp)}}
  IN phys \cup virt
\* Service.FindByID(org, id) for ids of stored mappings (ever created)
FindByID(ms, di, o, i) == IF i \in DOMAIN ms /\ ms[i].org = o THEN <<TRUE, IsDefault(ms, di, i)>> ELSE <<FALSE, FALSE>>

F(o, db, rp, def) == [org |-> o, db |-> db, rp |-> rp, def |-> def]
DBs == DBs1 \cup DBs2
\* compact form (sets of tuples, only what is found) of: the listing per organization restricted to the databases under
\* test (the target buckets' own virtual mappings live in databases t1, t2), the listing per (org, db), the empty-rp
\* lookup per (org, db), the resolution of every (org, db, rp), FindByID of every id handed out under either organization
Obs(ms, di, n) ==
  [list  |-> UNION {{<<o, m.id, m.db, m.rp, m.bucket, m.default, m.virtual>> :
                        m \in {mm \in FindMany(ms, di, F(o, "", "", 0)) : mm.db \in DBs}} : o \in Orgs},
   bydb  |-> UNION {{<<k[1], k[2], m.id>> : m \in FindMany(ms, di, F(k[1], k[2], "", 0))} : k \in Keys},
   defl  |-> UNION {{<<k[1], k[2], m.id>> : m \in FindMany(ms, di, F(k[1], k[2], "", 1))} : k \in Keys},
   res   |-> UNION {{<<k[1], k[2], r, m.id, m.bucket>> : m \in FindMany(ms, di, F(k[1], k[2], r, 0))} : k \in Keys, r \in RPs},
   byid  |-> {<<p[1], p[2], FindByID(ms, di, p[2], p[1])[2]>> : p \in {q \in (1..n) \X Orgs : FindByID(ms, di, q[2], q[1])[1]}}]

Empty == [x \in {} |-> 0]
Init == /\ maps = Empty /\ defIdx = Empty /\ nMap = 0
        /\ obs = IF KeepObs THEN Obs(Empty, Empty, 0) ELSE <<>>
        /\ hist = <<>>

Log(a, args, ok) == hist' = Append(hist, [a |-> a, x |-> args, ok |-> ok])
Commit == obs' = IF KeepObs THEN Obs(maps', defIdx', nMap') ELSE <<>>
Same == UNCHANGED <<maps, defIdx, nMap, obs>>
Others(i) == {j \in DOMAIN maps : j # i /\ maps[j].org = maps[i].org /\ maps[j].db = maps[i].db}

\* Service.Create
Create(k, rp, def) ==
  /\ Len(hist) < MaxOps /\ nMap < MaxMaps
  /\ IF \E j \in DOMAIN maps : maps[j].org = k[1] /\ maps[j].db = k[2] /\ maps[j].rp = rp
     THEN Same /\ Log("create", <<k[1], k[2], rp, def, Target(k[1], nMap + 1)>>, FALSE)
     ELSE LET i == nMap + 1 IN
          /\ nMap' = i
          /\ maps' = With(maps, i, [org |-> k[1], db |-> k[2], rp |-> rp, bucket |-> Target(k[1], i)])
          /\ defIdx' = IF k \notin DOMAIN defIdx \/ def THEN With(defIdx, k, i) ELSE defIdx
          /\ Commit
          /\ Log("create", <<k[1], k[2], rp, def, Target(k[1], i)>>, TRUE)

\* Service.Update(id, retention policy, default) by the owning organization
Update(i, rp, def) ==
  /\ Len(hist) < MaxOps /\ i \in 1..nMap
  /\ IF i \notin DOMAIN maps \/ (\E j \in Others(i) : maps[j].rp = rp)
     THEN Same /\ Log("update", <<i, rp, def>>, FALSE)
     ELSE LET k == <<maps[i].org, maps[i].db>> IN
          /\ maps' = [maps EXCEPT ![i].rp = rp]
          /\ defIdx' = IF def THEN With(defIdx, k, i)
                       ELSE IF IsDefault(maps, defIdx, i) /\ Others(i) # {} THEN With(defIdx, k, Min(Others(i)))
                       ELSE defIdx
          /\ UNCHANGED nMap
          /\ Commit
          /\ Log("update", <<i, rp, def>>, TRUE)

\* Service.Delete(org, id): no error whether or not the mapping exists / belongs to that organization
Delete(i, own) ==
  /\ Len(hist) < MaxOps /\ i \in 1..nMap
  /\ IF i \notin DOMAIN maps \/ ~own
     THEN Same /\ Log("delete", <<i, own>>, TRUE)
     ELSE LET k == <<maps[i].org, maps[i].db>> IN
          /\ maps' = Without(maps, i)
          /\ defIdx' = IF ~IsDefault(maps, defIdx, i) THEN defIdx
                       ELSE IF Others(i) # {} THEN With(defIdx, k, Min(Others(i)))
                       ELSE Without(defIdx, k)
          /\ UNCHANGED nMap
          /\ Commit
          /\ Log("delete", <<i, own>>, TRUE)

Next == \/ \E k \in Keys, rp \in RPs, def \in BOOLEAN : Create(k, rp, def)
        \/ \E i \in 1..MaxMaps, rp \in RPs, def \in BOOLEAN : Update(i, rp, def)
        \/ \E i \in 1..MaxMaps, own \in BOOLEAN : Delete(i, own)

Spec == Init /\ [][Next]_vars

\* ---------------------------------------------------------------- contract (C43), over the read API
Stored(k) == {i \in DOMAIN maps : maps[i].org = k[1] /\ maps[i].db = k[2]}
Res(ob, k, r) == {<<t[4], t[5]>> : t \in {tt \in ob.res : tt[1] = k[1] /\ tt[2] = k[2] /\ tt[3] = r}}
Listed(ob, k) == {t \in ob.list : t[1] = k[1] /\ t[3] = k[2]}
Defl(ob, k) == {t[3] : t \in {tt \in ob.defl : tt[1] = k[1] /\ tt[2] = k[2]}}
\* each (database, retention policy) pair of an organization resolves to at most one bucket: by lookup, and in the listing
AtMostOneBucketP(ob) == /\ \A k \in Keys : \A r \in RPs : Cardinality(Res(ob, k, r)) <= 1
                        /\ \A k \in Keys : \A a, b \in Listed(ob, k) : a[4] = b[4] => a = b
\* a stored mapping is what its pair resolves to
StoredResolvesP(ob) == \A i \in DOMAIN maps : Res(ob, <<maps[i].org, maps[i].db>>, maps[i].rp) = {<<i, maps[i].bucket>>}
\* each database with at least one stored mapping has exactly one default among everything listed for it, it is a stored
\* one, and the lookup with an empty retention policy returns exactly it
ExactlyOneDefaultP(ob) ==
    \A k \in Keys : Stored(k) # {} =>
        LET defs == {t \in Listed(ob, k) : t[6]} IN
        /\ Cardinality(defs) = 1
        /\ \A t \in defs : t[2] \in Stored(k) /\ ~t[7] /\ Defl(ob, k) = {t[2]}
\* databases that only have virtual mappings: never more than one default
AtMostOneDefaultP(ob) == \A k \in Keys : Cardinality({t \in Listed(ob, k) : t[6]}) <= 1 /\ Cardinality(Defl(ob, k)) <= 1
\* FindByID agrees with the records
ByIdAgreesP(ob) == \A i \in 1..nMap : \A o \in Orgs :
                      (\E t \in ob.byid : t[1] = i /\ t[2] = o) = (i \in DOMAIN maps /\ maps[i].org = o)
\* the contract, evaluated on what the read API returns in the current state
ReadContract == LET ob == Obs(maps, defIdx, nMap) IN
                /\ AtMostOneBucketP(ob) /\ StoredResolvesP(ob) /\ ExactlyOneDefaultP(ob)
                /\ AtMostOneDefaultP(ob) /\ ByIdAgreesP(ob)
\* deleting (or unsetting) the default promotes another mapping of the same database if one exists:
\* the register never points at a missing mapping and is never empty while mappings exist
RegisterSound == /\ \A k \in DOMAIN defIdx : defIdx[k] \in Stored(k)
                 /\ \A i \in DOMAIN maps : <<maps[i].org, maps[i].db>> \in DOMAIN defIdx
TypeOK == nMap \in 0..MaxMaps

View == <<maps, defIdx, nMap>>
=============================================================================
