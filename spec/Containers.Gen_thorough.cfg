SPECIFICATION Spec
CONSTANTS
  Kinds = {"rhh", "bloom", "radix", "idset"}
  MaxRhh = 6
  MaxBloom = 5
  MaxRadix = 5
  MaxIdset = 3
INVARIANTS TypeOK RhhLastWriteWins RadixOrder IdsetAlgebra
CHECK_DEADLOCK FALSE
