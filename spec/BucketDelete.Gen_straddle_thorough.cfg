SPECIFICATION Spec
CONSTANTS
  Series = {1, 2, 3}
  Times = {1, 2, 3}
  Preds <- PredsAll
  Ranges <- RangesMid
  InitFam <- FamConc
  Inits <- InitsAny
  WTimeSets <- WTimeSetsStraddle
  NWriters = 3
  MaxWrites = 3
  PlanMode = TRUE
  KeepHist = TRUE
  HookGran = TRUE
INVARIANTS TypeOK ExactData MetadataExact NonConflictingWriteNeverBlocked DeleteWaitsForEarlierWriters ConflictingWriteWaits
