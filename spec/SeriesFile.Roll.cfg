SPECIFICATION Spec
CONSTANTS
  PA = 7
  PB = 7
  KA = {"a", "b"}
  KB = {}
  Prefill = 0
  MaxOps = 4
  MaxBatch = 1
  MaxRolls = 1
  MaxCompactions = 0
  MaxCrashes = 1
  TwoPhaseCompact = FALSE
  EmptyKeyEndsLog = TRUE
  Tears = {"none"}
INVARIANTS Agree Injective IdsInPartition
PROPERTIES StableID NeverReused BatchDupShareID
CHECK_DEADLOCK FALSE
