--------------------------- MODULE TraceScheduler ---------------------------
(* Trace validation (code -> spec) for C24: an ndjson trace recorded from a real TreeScheduler under a     *)
(* concurrent workload is accepted iff it is a behaviour of Scheduler.tla: every logged line is consumed   *)
(* by the matching action of the base specification; timer fires, loop iterations and hand-offs to workers *)
(* are unlogged internal steps; API calls are call/ret pairs whose effect (the base action) is an internal *)
(* step between the two lines; the value returned by When() must equal `when` at that step.               *)
(* Lines: prof (first line of each trace), call/ret (g, op, t, back / v), add (one clock tick, taken at a  *)
(* quiescent point), recv (worker got a run), start/end (Executor.Execute entered / returned), ckpt        *)
(* (UpdateLastScheduled), reset (end of a trace).                                                          *)
EXTENDS Scheduler, Json

VARIABLES l,        \* next line to consume
          pend,     \* goroutine -> pending API call
          relRet,   \* tasks whose Release has returned (ret line consumed) and no Schedule call line since
          lateT,    \* <<t, sf>> of start lines consumed while t \in relRet
          ck        \* workers whose ckpt line was consumed and that have not yet reached their receive
tvars == <<l, pend, relRet, lateT, ck>>
allvars == <<vars, tvars>>

Trace == ndJsonDeserialize("trace.ndjson")
G == {"g1", "g2", "g3", "g4"}
NoCall == [op |-> "none", t |-> 0, back |-> 0, done |-> FALSE, res |-> 0, clean |-> FALSE]
ProfOf(ln) == [every |-> ln.every, offset |-> ln.offset, cls |-> ln.cls]
IsLine(k) == l <= Len(Trace) /\ Trace[l].ev = k

TInit == /\ TLCSet(1, 0)
         /\ Trace[1].ev = "prof"
         /\ InitWith(ProfOf(Trace[1]))
         /\ l = 2 /\ pend = [g \in G |-> NoCall] /\ relRet = {} /\ lateT = {} /\ ck = {}

\* `clean` of a pending Release(t): no Schedule(t) call overlaps it (an overlapping Schedule may take effect after the
\* Release, so the task may legitimately be scheduled when the Release returns)
TCall == /\ IsLine("call")
         /\ LET ln == Trace[l]
                overl(op, t) == \E g \in G : pend[g].op = op /\ pend[g].t = t
            IN
            /\ pend[ln.g] = NoCall
            /\ pend' = [g \in G |->
                          IF g = ln.g THEN [op |-> ln.op, t |-> ln.t, back |-> ln.back, done |-> FALSE, res |-> 0,
                                            clean |-> (ln.op = "release" /\ ~overl("schedule", ln.t))]
                          ELSE IF ln.op = "schedule" /\ pend[g].op = "release" /\ pend[g].t = ln.t THEN [pend[g] EXCEPT !.clean = FALSE]
                          ELSE pend[g]]
            /\ relRet' = IF ln.op = "schedule" THEN relRet \ {ln.t} ELSE relRet
         /\ l' = l + 1 /\ UNCHANGED <<vars, lateT, ck>>

\* the effect of a pending call (its critical section under s.mu)
TLin(g) == /\ pend[g] # NoCall /\ ~pend[g].done
           /\ LET p == pend[g] IN
              \/ /\ p.op = "schedule" /\ Schedule(p.t, p.back)
                 /\ pend' = [pend EXCEPT ![g].done = TRUE]
              \/ /\ p.op = "release" /\ ReleaseCore(p.t)
                 /\ pend' = [pend EXCEPT ![g].done = TRUE]
              \/ /\ p.op = "when" /\ UNCHANGED vars
                 /\ pend' = [pend EXCEPT ![g].done = TRUE, ![g].res = when]
           /\ UNCHANGED <<l, relRet, lateT, ck>>

TRet == /\ IsLine("ret")
        /\ LET ln == Trace[l]
               p  == pend[ln.g]
           IN /\ p # NoCall /\ p.done /\ p.op = ln.op
              /\ (p.op = "when" => p.res = ln.v)
              /\ pend' = [pend EXCEPT ![ln.g] = NoCall]
              /\ relRet' = IF p.op = "release" /\ p.clean THEN relRet \cup {p.t} ELSE relRet
        /\ l' = l + 1 /\ UNCHANGED <<vars, lateT, ck>>

TAdd == /\ IsLine("add") /\ Advance
        /\ l' = l + 1 /\ UNCHANGED <<pend, relRet, lateT, ck>>

TRecv == /\ IsLine("recv")
         /\ \E w \in Workers : wk[w].st = "got" /\ wk[w].t = Trace[l].t /\ wk[w].sf = Trace[l].sf
         /\ l' = l + 1 /\ UNCHANGED <<vars, pend, relRet, lateT, ck>>

TStart == /\ IsLine("start")
          /\ \E w \in Workers : /\ wk[w].st = "got" /\ wk[w].t = Trace[l].t /\ wk[w].sf = Trace[l].sf /\ wk[w].ra = Trace[l].ra
                                /\ Start(w)
          /\ lateT' = IF Trace[l].t \in relRet THEN lateT \cup {<<Trace[l].t, Trace[l].sf>>} ELSE lateT
          /\ l' = l + 1 /\ UNCHANGED <<pend, relRet, ck>>

TEnd == /\ IsLine("end")
        /\ \E w \in Workers : wk[w].st = "exec" /\ wk[w].t = Trace[l].t /\ wk[w].sf = Trace[l].sf /\ Finish(w)
        /\ l' = l + 1 /\ UNCHANGED <<pend, relRet, lateT, ck>>

\* the checkpoint is the last thing a worker does before it blocks in its receive again; it reaches the receive some time
\* after the ckpt line (TReady), possibly while the loop is iterating over the due items (Pass with a cut)
TCkpt == /\ IsLine("ckpt")
         /\ \E w \in Workers : wk[w].st = "post" /\ w \notin ck /\ wk[w].t = Trace[l].t /\ wk[w].sf = Trace[l].sf /\ ck' = ck \cup {w}
         /\ l' = l + 1 /\ UNCHANGED <<vars, pend, relRet, lateT>>
TReady == \E w \in ck : Ready(w) /\ ck' = ck \ {w} /\ UNCHANGED <<l, pend, relRet, lateT>>

TInternal == \/ (TimerFire \/ LoopWake) /\ UNCHANGED tvars
             \/ /\ Pass
                /\ \A w \in Workers : (wk[w].st = "post" /\ wk'[w].st = "got") => w \in ck    \* only a worker that has checkpointed receives
                /\ ck' = {w \in ck : wk'[w].st = "post"}
                /\ UNCHANGED <<l, pend, relRet, lateT>>
             \/ TReady

\* end of one trace: the next trace starts from the initial state with its own profile
TReset == /\ IsLine("reset")
          /\ \A g \in G : pend[g] = NoCall
          /\ IF l = Len(Trace)
             THEN l' = l + 1 /\ UNCHANGED <<vars, pend, relRet, lateT, ck>>
             ELSE /\ Trace[l + 1].ev = "prof"
                  /\ prof' = ProfOf(Trace[l + 1]) /\ now' = 0 /\ queue' = [t \in Tasks |-> NoItem]
                  /\ when' = None /\ timer' = None /\ tick' = FALSE /\ lpc' = "wait" /\ wk' = [w \in Workers |-> Idle]
                  /\ epoch' = [t \in Tasks |-> 0] /\ last' = [t \in Tasks |-> 0] /\ disp' = [t \in Tasks |-> 0]
                  /\ released' = {} /\ late' = {} /\ stale' = {} /\ spins' = 0 /\ calls' = 0 /\ nsched' = 0
                  /\ runs' = <<>> /\ hist' = <<>>
                  /\ l' = l + 2 /\ pend' = pend /\ relRet' = {} /\ lateT' = {} /\ ck' = {}

TNext == TCall \/ TRet \/ TAdd \/ TRecv \/ TStart \/ TEnd \/ TCkpt \/ TReset \/ TInternal \/ \E g \in G : TLin(g)
TSpec == TInit /\ [][TNext]_allvars

Mark == TLCSet(1, IF TLCGet(1) < l THEN l ELSE TLCGet(1))
Accepted == /\ PrintT("@@HW " \o ToString(TLCGet(1) - 1) \o " of " \o ToString(Len(Trace)))
            /\ TLCGet(1) = Len(Trace) + 1
\* trace-level contract: Execute is not entered after a Release of that task returned
TraceNoStartAfterRelease == lateT = {}
=============================================================================
