------------------------------ MODULE TraceIDs ------------------------------
(* Validation of ids recorded from the real generators (pkg/snowflake.Generator.Next, snowflake.IDGenerator.ID)  *)
(* under concurrent use against the generator specification (IDsBase / IDs.tla).                                *)
(* The recorder decomposes every returned id into its fields (time relative to the smallest time of the run,    *)
(* machine, sequence) and writes, per generator, a "gen" line followed by the ids ordered by (time, sequence):   *)
(* the installed state only grows (IDs!StateMonotone), so this is the order in which the ids were installed.     *)
(* A trace is accepted iff every line can be consumed:                                                            *)
(*   NonZero      the raw id is not 0                                                                             *)
(*   machine      the machine field is the generator's machine id (no fallback overflow, assumption H11)          *)
(*   AllDistinct / successor: the state of each id is a LegalSucc of the previous one (strictly larger, and a     *)
(*                value one CAS iteration or the fallback can install)                                            *)
(*   per caller   the calls of one caller appear in their program order                                           *)
(* Bulk runs (hundreds of thousands of ids) are summarised per time value ("run" lines, see RunLine).              *)
(* The trace is linear: one successor per state.                                                                  *)
EXTENDS IDsBase, Sequences, TLC, Json

VARIABLES i, prev, have, mach, last
vars == <<i, prev, have, mach, last>>

Trace == ndJsonDeserialize("trace.ndjson")
MaxCallers == 16

Init == /\ TLCSet(1, 0)
        /\ i = 1 /\ prev = St(0, 0, 0) /\ have = FALSE /\ mach = 0
        /\ last = [c \in 1..MaxCallers |-> 0]

GenLine == /\ i <= Len(Trace) /\ Trace[i].ev = "gen"
           /\ mach' = Trace[i].machine /\ have' = FALSE /\ prev' = St(0, 0, 0)
           /\ last' = [c \in 1..MaxCallers |-> 0]
           /\ i' = i + 1

IdLine == /\ i <= Len(Trace) /\ Trace[i].ev = "id"
          /\ LET r == Trace[i]
                 s == St(r.t, 0, r.s)
             IN /\ ~r.zero
                /\ r.m = mach
                /\ r.s \in 0..SeqMax /\ r.t >= 0
                /\ have => LegalSucc(prev, s)
                /\ r.c \in 1..MaxCallers /\ r.n = last[r.c] + 1
                /\ prev' = s /\ have' = TRUE
                /\ last' = [last EXCEPT ![r.c] = r.n]
          /\ UNCHANGED mach
          /\ i' = i + 1

\* summary of all ids of one generator that carry the same time value (bulk runs: too many ids for one line each).
\* A chain of LegalSucc steps enters a time value at sequence 0 (Compute with a later clock, or the bump) and stays in it
\* only by Inc, so the ids of one time value are exactly sequence 0..n-1: n ids, smallest 0, largest n-1 - a repeated
\* id (AllDistinct) or a skipped state makes the count disagree with the range.
RunLine == /\ i <= Len(Trace) /\ Trace[i].ev = "run"
           /\ LET r == Trace[i]
              IN /\ ~r.zero
                 /\ r.mmin = mach /\ r.mmax = mach
                 /\ r.smin = 0 /\ r.smax <= SeqMax /\ r.n = r.smax + 1
                 /\ have => LegalSucc(prev, St(r.t, 0, 0))
                 /\ prev' = St(r.t, 0, r.smax) /\ have' = TRUE
           /\ UNCHANGED <<mach, last>>
           /\ i' = i + 1

Next == GenLine \/ IdLine \/ RunLine
Spec == Init /\ [][Next]_vars

Mark == TLCSet(1, IF TLCGet(1) < i THEN i ELSE TLCGet(1))
Accepted == /\ PrintT(<<"@@HW", TLCGet(1) - 1, "of", Len(Trace)>>)
            /\ TLCGet(1) = Len(Trace) + 1
=============================================================================
