SPECIFICATION Spec
CONSTANTS
  Tasks = {1, 2}
  NW = 2
  Profiles <- ProfilesLead
  Backs = {0}
  MaxTime = 3
  MaxSched = 2
  MaxOps = 8
  NegReset = TRUE
  RefreshOnRemove = TRUE
  Discipline = TRUE
  Record = TRUE
INVARIANTS NoSpin
CONSTRAINT SpinBound
CHECK_DEADLOCK FALSE
