\* Generation: the model with the quirks of the code (quirk constants TRUE).  One witness history per distinct meta data
\* (VIEW hides hist / nops) plus one probe state per operation and meta data; durations in focus.
SPECIFICATION Spec
CONSTANTS
  DBs = {"d1"}
  RPs = {"autogen", "r2"}
  WithEmptyDB = FALSE
  CDurs = {0, 1, 2, 5, 6, 10, 11}
  CSGDs = {0, 1, 2, 8}
  CReps = {0, 1}
  XNames = {"r2"}
  XDurs = {99, 1, 10}
  XSGDs = {0, 8}
  XReps = {99}
  UNames = {"-", "r2"}
  UDurs = {99, 0, 1, 2, 9}
  USGDs = {99, 0, 1, 2, 4}
  UFull = TRUE
  AutoCreate = FALSE
  MaxSG = 0
  MaxOps = 2
  Record = TRUE
  Probing = TRUE
  NoOpSteps = FALSE
  DropKeepsDefault = TRUE
  RenameKeepsDefault = TRUE
  HalfYearIsLong = TRUE
  RenameAcceptsEmpty = TRUE
INVARIANTS Inv_ShardGroups Inv_Durations
VIEW View
CHECK_DEADLOCK FALSE
