------------------------------ MODULE Planner ------------------------------
(* Compaction planner of the TSM engine: tsm1.DefaultPlanner (tsdb/engine/tsm1/compact.go), property C05.   *)
(*                                                                                                            *)
(* Contract layer (exactly what C05 names): every compaction group handed out is                              *)
(*   - made of whole generations of the file store it was planned on          (WholeGenerations),             *)
(*   - disjoint from every group that is still held and from its siblings     (DisjointFromHeld),             *)
(*   - contiguous in generation order                                         (Contiguous).                   *)
(* Implementation layer: transcription of FindGenerations order, groupAdjacentGenerations (both level test    *)
(* functions), TsmGenerations.chunk, PlanLevel (orphan rule), Plan (forced / cold full branch, lastPlanCheck   *)
(* short cut, level-4 branch), PlanOptimize (generationsFullyCompacted), acquire, Release, ForceFull, and      *)
(* environment actions that evolve the file store while groups are held: a cache snapshot adds a generation,  *)
(* a held compaction finishes and replaces its group (Compactor.compact: output = max generation of the       *)
(* group, max sequence + 1).                                                                                   *)
(*                                                                                                            *)
(* Abstraction of sizes: one unit = 512 MiB, MaxTSMFileSize = 4 units; files of a generation share size and    *)
(* first-block count.  fbc: 0 = below DefaultMaxPointsPerBlock, 1 = exactly 1000, 2 = above (aggressive).      *)
(* A file is <<generation id, sequence>>; its path is the code's %09d-%09d.tsm.                                *)
EXTENDS Integers, Sequences, FiniteSets, TLC, Json

CONSTANTS MaxGens,    \* bound on the number of generations in the file store
          Lvls,       \* sequence numbers (levels) initial generations may have, subset of 1..4
          Shapes,     \* shapes of initial generations: set of [fsz, fbc, nf]
          Tombs,      \* subset of BOOLEAN: tombstone flags of initial generations
          MinInit,    \* initial stores have MinInit..MaxGens generations
          MaxEnv,     \* bound on the number of environment steps (snapshots + finished compactions)
          OutShapes,  \* shapes a finished compaction may produce
          KeepHist,   \* TRUE: record the history (generation / simulation configs)
          MaxHist,    \* bound on Len(hist) when KeepHist
          NoIdle      \* TRUE: drop calls that return nothing and change nothing (generation configs)

VARIABLES gens,       \* file store: sequence of [id, seq, fsz, fbc, nf, tomb], ascending id (FindGenerations order)
          inUse,      \* DefaultPlanner.filesInUse: set of files <<id, seq>>
          forceFull,  \* DefaultPlanner.forceFull
          dirty,      \* ~ lastPlanCheck.After(FileStore.LastModified())
          nextId,     \* FileStore.NextGeneration
          nenv,       \* number of environment steps taken (bounds the exploration only)
          held,       \* contract: groups handed out and not yet released: set of [kind, g]
          phase,      \* "setup": the initial file store is being chosen, "run": planner calls and environment steps
          hist

vars == <<gens, inUse, forceFull, dirty, nextId, nenv, held, phase, hist>>

MaxTSM == 4
\* shape sets for the configs (a cfg file cannot contain record literals): Shapes <- ShapesWide etc.
Sh(fsz, fbc, nf) == [fsz |-> fsz, fbc |-> fbc, nf |-> nf]
ShSmall == Sh(1, 0, 1)          \* one small file
ShBig   == Sh(6, 1, 1)          \* one file over MaxTSMFileSize whose first block is full
ShapesSmall == {ShSmall}
ShapesTwo   == {ShSmall, ShBig}
ShapesWide  == {ShSmall, ShBig, Sh(1, 0, 2)}
ShapesAll   == {ShSmall, ShBig, Sh(1, 0, 2), Sh(4, 1, 1), Sh(6, 0, 1), Sh(1, 2, 2), Sh(4, 2, 2)}
SeqToSet(s) == {s[i] : i \in 1..Len(s)}
N == Len(gens)

\* ------------------------------------------------------------------ generations and files
Lvl(i) == IF gens[i].seq < 4 THEN gens[i].seq ELSE 4            \* tsmGeneration.level()
Size(i) == gens[i].fsz * gens[i].nf                             \* tsmGeneration.size()
Full(i) == gens[i].fbc >= 1                                     \* files[0].FirstBlockCount >= DefaultMaxPointsPerBlock
FilesOfGen(g) == {<<g.id, g.seq + k>> : k \in 0..(g.nf - 1)}
FileSeqOfGen(g) == [k \in 1..g.nf |-> <<g.id, g.seq + k - 1>>]
IsInUse(i) == FilesOfGen(gens[i]) \cap inUse # {}              \* DefaultPlanner.isInUse
AnyTomb(S) == \E i \in S : gens[i].tomb
MaxLvl(S) == IF S = {} THEN 0 ELSE CHOOSE m \in {Lvl(i) : i \in S} : \A i \in S : Lvl(i) <= m
GroupLvl(g) == MaxLvl(SeqToSet(g))                              \* TsmGenerations.level()

RECURSIVE FilesOfIdx(_)
\* files of a sequence of generation indices, generation order then sequence order
\* (= the sort.Strings order of the zero padded names)
FilesOfIdx(g) == IF g = <<>> THEN <<>> ELSE FileSeqOfGen(gens[Head(g)]) \o FilesOfIdx(Tail(g))
RECURSIVE MapFiles(_)
MapFiles(gs) == IF gs = <<>> THEN <<>> ELSE <<FilesOfIdx(Head(gs))>> \o MapFiles(Tail(gs))

\* ------------------------------------------------------------------ contract layer (C05)
GenIds(G) == {G[i].id : i \in 1..Len(G)}
GroupIds(g) == {g[k][1] : k \in 1..Len(g)}
AllFiles(G) == UNION {FilesOfGen(G[i]) : i \in 1..Len(G)}
HeldFiles(H) == UNION {SeqToSet(h.g) : h \in H}
\* the group names only files of the store and takes every file of each generation it touches
WholeGenerations(g, G) ==
  /\ SeqToSet(g) \subseteq AllFiles(G)
  /\ \A i \in 1..Len(G) : G[i].id \in GroupIds(g) => FilesOfGen(G[i]) \subseteq SeqToSet(g)
  /\ Cardinality(SeqToSet(g)) = Len(g)
\* positions (in generation order) of the generations of the group form an interval
Positions(g, G) == {i \in 1..Len(G) : G[i].id \in GroupIds(g)}
Contiguous(g, G) == LET P == Positions(g, G) IN \A i \in P, j \in P : \A k \in i..j : k \in P
DisjointFrom(g, files) == SeqToSet(g) \cap files = {}
\* the generations a group jumps over
Gaps(g, G) == LET P == Positions(g, G) IN {k \in 1..Len(G) : k \notin P /\ \E i \in P, j \in P : i < k /\ k < j}

\* ------------------------------------------------------------------ groupAdjacentGenerations(generations, levelTestFn)
Test(kind, cur, cand) == IF kind = "eq" THEN cur = cand ELSE cur >= cand
RECURSIVE GA(_, _, _, _)
GA(kind, i, cur, acc) ==
  LET close == IF Len(cur) > 0 THEN Append(acc, cur) ELSE acc IN
  IF i > N THEN close
  ELSE IF IsInUse(i) THEN GA(kind, i + 1, <<>>, close)
  ELSE IF \/ Len(cur) = 0
          \/ Test(kind, GroupLvl(cur), Lvl(i))
          \/ (i < N /\ Lvl(i) < Lvl(i + 1))
       THEN GA(kind, i + 1, Append(cur, i), acc)
       ELSE GA(kind, i + 1, <<i>>, close)
AdjGroups(kind) == GA(kind, 1, <<>>, <<>>)

\* TsmGenerations.chunk(size)
RECURSIVE Chunk(_, _)
Chunk(g, size) == IF Len(g) = 0 THEN <<>>
                  ELSE IF Len(g) >= size THEN <<SubSeq(g, 1, size)>> \o Chunk(SubSeq(g, size + 1, Len(g)), size)
                  ELSE <<g>>

\* ------------------------------------------------------------------ PlanLevel(generations, level)
PlanLevelIdx(level) ==
  IF forceFull THEN <<>>
  ELSE IF N <= 1 /\ ~AnyTomb(1..N) THEN <<>>
  ELSE
    LET groups == AdjGroups("eq")
        minGen == IF level = 1 THEN 8 ELSE 4
        LaterHigher(gi) == \E j \in (gi + 1)..Len(groups) : GroupLvl(groups[j]) >= level
        Accept(gi, ch) == Len(ch) >= minGen \/ AnyTomb(SeqToSet(ch)) \/ LaterHigher(gi)
        RECURSIVE Keep(_, _)
        Keep(chs, gi) == IF Len(chs) = 0 THEN <<>>
                         ELSE (IF Accept(gi, Head(chs)) THEN <<Head(chs)>> ELSE <<>>) \o Keep(Tail(chs), gi)
        RECURSIVE Walk(_)
        Walk(gi) == IF gi > Len(groups) THEN <<>>
                    ELSE (IF GroupLvl(groups[gi]) = level THEN Keep(Chunk(groups[gi], minGen), gi) ELSE <<>>)
                         \o Walk(gi + 1)
    IN Walk(1)

\* ------------------------------------------------------------------ Plan(): forced / cold full branch
FullBranch(cold) == forceFull \/ (cold /\ N > 1)
OverSizeSkip(i) == /\ N > 2 /\ Size(i) > MaxTSM /\ Full(i) /\ ~gens[i].tomb
                   /\ ~(i < N /\ Lvl(i + 1) <= 3)
RECURSIVE SortedSeq(_)
SortedSeq(S) == IF S = {} THEN <<>> ELSE LET m == CHOOSE x \in S : \A y \in S : x <= y IN <<m>> \o SortedSeq(S \ {m})
PlanFullIdx ==
  LET picked == {i \in 1..N : ~IsInUse(i) /\ ~OverSizeSkip(i)}
      nfiles == Len(FilesOfIdx(SortedSeq(picked)))
  IN IF nfiles <= 1 \/ Cardinality(picked) <= 1 THEN <<>> ELSE <<SortedSeq(picked)>>

\* ------------------------------------------------------------------ Plan(): level-4 branch
PlanL4Idx ==
  IF N <= 1 /\ ~AnyTomb(1..N) THEN <<>>
  ELSE
    LET lvl4 == {i \in 1..N : Lvl(i) >= 4}
        end == IF lvl4 = {} THEN 0 ELSE CHOOSE m \in lvl4 : \A i \in lvl4 : i <= m
        RECURSIVE Scan(_, _, _)
        Scan(i, start, seenTomb) ==
          IF i > end THEN start
          ELSE LET st == seenTomb \/ gens[i].tomb IN
               IF st THEN Scan(i + 1, start, st)
               ELSE LET s1 == IF Size(i) > MaxTSM /\ Full(i) THEN i ELSE start IN
                    IF i > 1 /\ Size(i) * 2 < Size(i - 1) THEN i - 1
                    ELSE Scan(i + 1, s1, st)
        start == Scan(1, 0, FALSE)
        RECURSIVE Take(_, _, _)
        Take(i, j, cur) == IF j >= 4 \/ i + j > end THEN cur
                           ELSE LET g == i + j IN
                                IF IsInUse(g) \/ (Size(g) >= MaxTSM /\ Full(g) /\ ~gens[g].tomb) THEN cur
                                ELSE Take(i, j + 1, Append(cur, g))
        RECURSIVE Grp(_, _)
        Grp(i, acc) == IF i > end THEN acc
                       ELSE LET cur == Take(i, 0, <<>>) IN
                            IF Len(cur) > 0 THEN Grp(i + Len(cur), Append(acc, cur)) ELSE Grp(i + 1, acc)
        groups == Grp(start + 1, <<>>)
        RECURSIVE Filter(_)
        Filter(gs) == IF Len(gs) = 0 THEN <<>>
                      ELSE (IF Len(Head(gs)) >= 4 \/ AnyTomb(SeqToSet(Head(gs))) THEN <<Head(gs)>> ELSE <<>>)
                           \o Filter(Tail(gs))
    IN Filter(groups)

\* ------------------------------------------------------------------ PlanOptimize
FullyCompacted ==                                  \* generationsFullyCompacted
  IF N > 1 THEN FALSE
  ELSE IF AnyTomb(1..N) THEN FALSE
  ELSE IF N = 1 /\ gens[1].nf > 1
       THEN LET aggr  == IF gens[1].fbc > 1 THEN gens[1].nf ELSE 0
                under == IF gens[1].fsz < MaxTSM THEN gens[1].nf ELSE 0
            IN IF aggr = gens[1].nf THEN TRUE
               ELSE IF under > 1 /\ aggr < gens[1].nf THEN FALSE
               ELSE TRUE
       ELSE TRUE
PlanOptimizeIdx(cold) ==
  IF forceFull THEN <<>>
  ELSE IF FullyCompacted \/ ~cold THEN <<>>
  ELSE LET groups == AdjGroups("ge")
           RECURSIVE Sel(_)
           Sel(gs) == IF gs = <<>> THEN <<>>
                      ELSE (IF GroupLvl(Head(gs)) = 4 \/ N = 1 THEN <<Head(gs)>> ELSE <<>>) \o Sel(Tail(gs))
       IN Sel(groups)

\* ------------------------------------------------------------------ acquire
GroupsFiles(fgs) == UNION {SeqToSet(fgs[k]) : k \in 1..Len(fgs)}
AcquireOK(fgs) == fgs = <<>> \/ GroupsFiles(fgs) \cap inUse = {}
\* what the call returns
Returned(fgs) == IF AcquireOK(fgs) THEN fgs ELSE <<>>

Log(rec) == hist' = IF KeepHist THEN Append(hist, rec) ELSE hist
Room == phase = "run" /\ (~KeepHist \/ Len(hist) < MaxHist)

HandOut(kind, fgs) ==
  LET ret == Returned(fgs) IN
  /\ inUse' = inUse \cup GroupsFiles(ret)
  /\ held' = held \cup {[kind |-> kind, g |-> ret[k]] : k \in 1..Len(ret)}

Changed == <<inUse', forceFull', dirty', held'>> # <<inUse, forceFull, dirty, held>>

\* ------------------------------------------------------------------ planner actions
DoPlanLevel(level) ==
  /\ Room
  /\ LET fgs == MapFiles(PlanLevelIdx(level)) IN
     /\ HandOut("level", fgs)
     /\ Log([a |-> "planLevel", level |-> level, cold |-> FALSE, dirty |-> dirty,
             exp |-> [groups |-> Returned(fgs), branch |-> "level"]])
  /\ UNCHANGED <<gens, forceFull, dirty, nextId, nenv, phase>>
  /\ NoIdle => Changed

DoPlan(cold) ==
  /\ Room
  /\ IF FullBranch(cold)
     THEN LET fgs == MapFiles(PlanFullIdx) IN
          /\ forceFull' = FALSE
          /\ HandOut("full", fgs)
          /\ UNCHANGED dirty
          /\ Log([a |-> "plan", level |-> 0, cold |-> cold, dirty |-> dirty,
                  exp |-> [groups |-> Returned(fgs), branch |-> "full"]])
     ELSE IF ~dirty /\ ~AnyTomb(1..N)
     THEN /\ UNCHANGED <<forceFull, dirty, inUse, held>>
          /\ Log([a |-> "plan", level |-> 0, cold |-> cold, dirty |-> dirty,
                  exp |-> [groups |-> <<>>, branch |-> "unchanged"]])
     ELSE LET fgs == MapFiles(PlanL4Idx) IN
          /\ dirty' = FALSE
          /\ HandOut("l4", fgs)
          /\ UNCHANGED forceFull
          /\ Log([a |-> "plan", level |-> 0, cold |-> cold, dirty |-> dirty,
                  exp |-> [groups |-> Returned(fgs), branch |-> "l4"]])
  /\ UNCHANGED <<gens, nextId, nenv, phase>>
  /\ NoIdle => Changed

DoPlanOptimize(cold) ==
  /\ Room
  /\ LET fgs == MapFiles(PlanOptimizeIdx(cold)) IN
     /\ HandOut("optimize", fgs)
     /\ Log([a |-> "planOptimize", level |-> 0, cold |-> cold, dirty |-> dirty,
             exp |-> [groups |-> Returned(fgs), branch |-> "optimize"]])
  /\ UNCHANGED <<gens, forceFull, dirty, nextId, nenv, phase>>
  /\ NoIdle => Changed

DoForceFull ==
  /\ Room
  /\ forceFull' = TRUE
  /\ UNCHANGED <<gens, inUse, dirty, nextId, nenv, held, phase>>
  /\ Log([a |-> "forceFull"])
  /\ NoIdle => ~forceFull

\* Release([]CompactionGroup{g})
DoRelease(h) ==
  /\ Room
  /\ h \in held
  /\ inUse' = inUse \ SeqToSet(h.g)
  /\ held' = held \ {h}
  /\ UNCHANGED <<gens, forceFull, dirty, nextId, nenv, phase>>
  /\ Log([a |-> "release", g |-> h.g])

\* ------------------------------------------------------------------ environment
SnapShape == [fsz |-> 1, fbc |-> 0, nf |-> 1]
MkGen(id, seq, sh, tomb) == [id |-> id, seq |-> seq, fsz |-> sh.fsz, fbc |-> sh.fbc, nf |-> sh.nf, tomb |-> tomb]

\* Engine.WriteSnapshot: a new level-1 generation at the end
DoSnapshot ==
  /\ Room
  /\ N < MaxGens /\ nenv < MaxEnv
  /\ LET g == MkGen(nextId, 1, SnapShape, FALSE) IN
     /\ gens' = Append(gens, g)
     /\ Log([a |-> "snapshot", gen |-> g])
  /\ nextId' = nextId + 1
  /\ nenv' = nenv + 1
  /\ dirty' = TRUE
  /\ UNCHANGED <<inUse, forceFull, held, phase>>

RECURSIVE SortGens(_)
SortGens(S) == IF S = {} THEN <<>>
               ELSE LET m == CHOOSE x \in S : \A y \in S : x.id <= y.id IN <<m>> \o SortGens(S \ {m})

\* a held compaction finishes: FileStore.Replace(old files, new files); the group stays in filesInUse until Release
DoFinish(h, sh) ==
  /\ Room
  /\ h \in held
  /\ nenv < MaxEnv
  /\ SeqToSet(h.g) \subseteq AllFiles(gens)
  /\ LET ids == GroupIds(h.g)
         mx == CHOOSE m \in ids : \A x \in ids : x <= m
         mxseq == CHOOSE s \in {f[2] : f \in {x \in SeqToSet(h.g) : x[1] = mx}} :
                     \A f \in SeqToSet(h.g) : f[1] = mx => f[2] <= s
         ng == MkGen(mx, mxseq + 1, sh, FALSE)
         rest == {gens[i] : i \in {j \in 1..N : gens[j].id \notin ids}}
     IN /\ gens' = SortGens(rest \cup {ng})
        /\ Log([a |-> "finish", g |-> h.g, gen |-> ng])
  /\ dirty' = TRUE
  /\ nenv' = nenv + 1
  /\ UNCHANGED <<inUse, forceFull, nextId, held, phase>>

\* the initial file store is chosen generation by generation (so that simulation can draw random stores)
DoSetupAdd(seq, sh, tomb) ==
  /\ phase = "setup" /\ N < MaxGens
  /\ gens' = Append(gens, MkGen(N + 1, seq, sh, tomb))
  /\ nextId' = N + 2
  /\ UNCHANGED <<inUse, forceFull, dirty, nenv, held, phase, hist>>
DoStart ==
  /\ phase = "setup" /\ N >= MinInit
  /\ phase' = "run"
  /\ hist' = IF KeepHist THEN <<[a |-> "init", gens |-> gens]>> ELSE <<>>
  /\ UNCHANGED <<gens, inUse, forceFull, dirty, nextId, nenv, held>>

ReleaseAny == \E h \in held : DoRelease(h)
FinishAny == \E h \in held, sh \in OutShapes : DoFinish(h, sh)

Next == \/ \E seq \in Lvls, sh \in Shapes, tomb \in Tombs : DoSetupAdd(seq, sh, tomb)
        \/ DoStart
        \/ \E l \in 1..3 : DoPlanLevel(l)
        \/ \E c \in BOOLEAN : DoPlan(c)
        \/ \E c \in BOOLEAN : DoPlanOptimize(c)
        \/ DoForceFull
        \/ ReleaseAny
        \/ DoSnapshot
        \/ FinishAny

Init == /\ gens = <<>> /\ phase = "setup"
        /\ inUse = {} /\ forceFull = FALSE /\ dirty = TRUE
        /\ nextId = 1 /\ nenv = 0
        /\ held = {}
        /\ hist = <<>>

Spec == Init /\ [][Next]_vars

\* ------------------------------------------------------------------ properties
TypeOK == /\ \A i \in 1..(N - 1) : gens[i].id < gens[i + 1].id
          /\ \A i \in 1..N : gens[i].id < nextId
\* filesInUse is exactly the union of the held groups (acquire / Release bookkeeping)
InUseIsHeld == inUse = HeldFiles(held)
HeldPairwiseDisjoint == \A a \in held, b \in held : a # b => SeqToSet(a.g) \cap SeqToSet(b.g) = {}

New == held' \ held
\* every gap of a full-plan group is a generation the full branch skipped: in use, or over-size with a full first block
GapExplained(k) == IsInUse(k) \/ OverSizeSkip(k)
\* C05 on every hand-out, with the full-plan branch held to the weaker "gaps are exactly the skipped generations"
HandOutOK ==
  [][\A h \in New :
        /\ WholeGenerations(h.g, gens)
        /\ DisjointFrom(h.g, HeldFiles(held))
        /\ \A h2 \in New : h2 # h => SeqToSet(h.g) \cap SeqToSet(h2.g) = {}
        /\ (h.kind # "full" => Contiguous(h.g, gens))
        /\ (h.kind = "full" => \A k \in Gaps(h.g, gens) : GapExplained(k))]_vars
\* C05 as stated; violated by the full branch (finding F2) - used to obtain the counterexample that is replayed
HandOutContiguous == [][\A h \in New : Contiguous(h.g, gens)]_vars
\* the two shapes of F2, separately
NoInUseGap   == [][\A h \in New : \A k \in Gaps(h.g, gens) : ~IsInUse(k)]_vars
NoOverSizeGap == [][\A h \in New : \A k \in Gaps(h.g, gens) : IsInUse(k)]_vars

\* generation configs: print histories as JSON lines (read back by checks/C05.py)
EmitMaximal == (KeepHist /\ phase = "run" /\ Len(hist) >= MaxHist) => PrintT("@@J" \o ToJson(hist))
EmitAll == (KeepHist /\ phase = "run") => PrintT("@@J" \o ToJson(hist))

View == <<gens, inUse, forceFull, dirty, nextId, nenv, held, phase>>
=============================================================================
