\* Model checking of the C18/C19 contract on ShardGroups.tla (VIEW hides hist).  Template: checks/C18.py and C19.py
\* replace Base/AnchorTick/Ph*/PointPos/... per anchor (Min, Epoch, Max, Now) with phases computed by the driver.
SPECIFICATION Spec
CONSTANTS
  Base = "Epoch"
  AnchorTick = 6
  Ph2 = 0
  Ph3 = 0
  Ph5 = 2
  D0 = 2
  SGDs = {2, 3, 5}
  R0 = 0
  Rets = {}
  PointPos = {16, 20, 21, 24, 25, 28}
  TruncPos = {21, 25}
  QPos = {16, 21, 24, 25, 33}
  QCodes = {2424, 2525, 2021, 1624, 1633, 2128}
  MaxBatch = 2
  MaxOps = 4
  MaxWrites = 2
  MaxTrunc = 0
  CheckEnabled = FALSE
  Record = FALSE
  ClampMin = TRUE
INVARIANTS TypeOK C18_RoutedContains C18_DataStaysContained C18_Disjoint C18_WellFormed C18_ReloadIsIdentity C18_QueriesFindData
  C19_RejectIff C19_DeleteIff C19_OnlyDeletedShards C19_LiveDataKept
VIEW View
CHECK_DEADLOCK FALSE
