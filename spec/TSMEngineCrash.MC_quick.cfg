\* C02 checking, quick: crash in every state (CrashSafe) and as a step (Crash ; CrashReopen ; continue); file-by-file replace
\* and tombstone commits; a write is CacheWrite ; WriteAck so that a crash can hit the window before the WAL append
SPECIFICATION CSpec
CONSTANTS
  Keys = {1, 2}
  Times = {1, 2}
  BatchSizes = {1, 2}
  DupInBatch = FALSE
  MaxPoints = 2
  MaxSnaps = 1
  MaxCompacts = 1
  MaxDeletes = 1
  MaxReopens = 0
  MinGroup = 1
  SplitWrites = TRUE
  SnapDeleteOverlap = FALSE
  MaxOps = 1000
  MaxCrashes = 1
  Fine = TRUE
  CrashKeep = {TRUE, FALSE}
INVARIANTS CTypeOK UpInvariants CrashSafe RecOK NoPhantom WritableAfterRecovery TmpsOwned
PROPERTIES CFinStable
VIEW CView
CHECK_DEADLOCK FALSE
