SPECIFICATION SpecCodecPoint
CONSTANTS
  Callers = {c1}
  MaxClock = 0
  MaxBack = 0
  SeqMax = 1
  MachMax = 1
  Machine = 1
  MaxAttempts = 1
  MaxCalls = 0
  UseCAS = TRUE
  AssumeNoFallbackOverflow = TRUE
  L = 3
  MaxLen = 5
INVARIANTS PointOK
CHECK_DEADLOCK FALSE
