SPECIFICATION Spec
CONSTANTS
  MaxBatches = 3
  MaxScript = 0
  Resps = {"204"}
  Drops = {FALSE}
  Attempts0 = {0}
  MaxAges = {1}
  MaxTicks = 0
  SegCap = 2
  PeriodicAdv = TRUE
  PeriodicFix = TRUE
  EnqAnywhere = FALSE
  Record = TRUE
  MaxPre = 1
INVARIANTS TypeOK

CHECK_DEADLOCK FALSE
