\* C39, Shard.Close against a write in flight: WriteEnter ; CloseTry ; WriteFinish ; Reopen (Shard.mu: WritePoints holds RLock, Close waits). Checked and dumped.
SPECIFICATION Spec
CONSTANTS
  Keys = {1, 2}
  Times = {1, 2}
  BatchSizes = {1, 2}
  DupInBatch = FALSE
  MaxPoints = 3
  MaxSnaps = 1
  MaxCompacts = 0
  MaxDeletes = 0
  MaxReopens = 1
  MinGroup = 2
  SplitWrites = FALSE
  SnapDeleteOverlap = FALSE
  MaxOps = 1000
  CloseRace <- CloseRaceOn
INVARIANTS TypeOK FilesSorted GenFresh WALMatchesCache VisibleEqualsModel ReadEqualsModel CloseExcludesWrite DuringWrite NoResurrection
PROPERTIES FinStable
VIEW View
CHECK_DEADLOCK FALSE
