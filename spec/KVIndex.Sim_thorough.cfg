\* Simulation: random behaviours, refused / failed / idle operations are steps too (checks/XKVINDEX.py passes -simulate num=.. -depth .. and sets Atomic to the store kind it replays on).
SPECIFICATION SimSpec
CONSTANTS
  FKs = {"f1", "f2", "fx"}
  Rs = {"p1", "p2", "p3", "px"}
  Tied = FALSE
  Urm = FALSE
  BadFKs = {"fx"}
  BadPKs = {"px"}
  Atomic = TRUE
  Restamp = TRUE
  WithAbort = TRUE
  MaxOps = 24
  Record = TRUE
  Probing = FALSE
  NoOpSteps = TRUE
INVARIANTS TypeOK

CHECK_DEADLOCK FALSE
