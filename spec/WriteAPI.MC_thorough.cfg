SPECIFICATION Spec
CONSTANTS
  Limit = 8
  MaxLines = 4
INVARIANTS TypeOK BadLine400 TooLarge413 WithinLimitAccepted NoContentMeansAllStored WellFormedOutcome
CHECK_DEADLOCK FALSE
