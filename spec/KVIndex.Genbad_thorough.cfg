\* Generation with keys that contain a "/": Insert / Delete refuse them, Populate fails on them.
SPECIFICATION Spec
CONSTANTS
  FKs = {"f1", "f2", "fx"}
  Rs = {"p1", "px"}
  Tied = FALSE
  Urm = FALSE
  BadFKs = {"fx"}
  BadPKs = {"px"}
  Atomic = TRUE
  Restamp = TRUE
  WithAbort = TRUE
  MaxOps = 7
  Record = TRUE
  Probing = TRUE
  NoOpSteps = FALSE
INVARIANTS TypeOK
VIEW View
CHECK_DEADLOCK FALSE
