\* C39 classification of a REJECTED trace only (known finding stale_value_during_inflight_delete): Relaxed = TRUE; the constants of TSMEngine.tla that the contract layer uses (the recorder's abstract domains)
SPECIFICATION TSpec
CONSTANTS
  Keys = {1, 2, 3}
  Times = {1, 2, 3, 4}
  BatchSizes = {1}
  DupInBatch = FALSE
  MaxPoints = 0
  MaxSnaps = 0
  MaxCompacts = 0
  MaxDeletes = 0
  MaxReopens = 0
  MinGroup = 1
  SplitWrites = FALSE
  SnapDeleteOverlap = FALSE
  MaxOps = 0
  Relaxed = TRUE
INVARIANTS TModelTyped
CONSTRAINT Mark
POSTCONDITION Accepted
CHECK_DEADLOCK FALSE
