\* C38 checking, thorough: the intended design (tombstone files restored, point-exact export, export of tombstoned files works)
\* satisfies RestoreOK / BackupComplete / ExportOK in every quiescent state of every history
SPECIFICATION BSpec
CONSTANTS
  Keys = {1, 2}
  Times = {1, 2}
  BatchSizes = {1, 2}
  DupInBatch = FALSE
  MaxPoints = 3
  MaxSnaps = 2
  MaxCompacts = 1
  MaxDeletes = 1
  MaxReopens = 0
  MinGroup = 1
  SplitWrites = FALSE
  SnapDeleteOverlap = FALSE
  MaxOps = 1000
  MaxBackups = 1
  StopAfterBackup = FALSE
  SinceChoices = "all"
  RestoreKeepsTombstones = TRUE
  ExportWholeBlocks = FALSE
  ExportTombstoneBug = FALSE
INVARIANTS BTypeOK BaseInvariants RestoreOK BackupComplete ExportOK
VIEW BView
CHECK_DEADLOCK FALSE
