SPECIFICATION Spec
CONSTANTS
  Ids = {"r1"}
  Lens = {7340032}
  MaxSizes = {20971520, 25165824}
  SegMax = 10485760
  MaxBatches = 5
  MaxOps = 7
  Menu = {"init", "update", "enq", "deliver", "track", "storeset", "closeall", "start"}
  Prefix <- PrefixInitTrack
  Refusals = {"full"}
  KickOnOpen = TRUE
  InitLeavesDir = TRUE
  Record = TRUE
INVARIANTS TypeOK PendingIsWant NoStrandedBatch
CHECK_DEADLOCK FALSE
