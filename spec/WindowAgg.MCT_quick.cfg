\* C41 quick (the check generates the same text: checks/C41.py cfg_text)
SPECIFICATION Spec
CONSTANTS
  MaxT = 4
  Everys = {1, 2, 3}
  ValPats = {"zig"}
  Aggs = {"count", "sum", "min", "max", "first", "last", "mean"}
  OutCap = 2
  Mode = "table"
  QStarts = {0, 1, 2}
  QStops = {3, 5, 6}
  TimeCols = {"none", "start", "stop"}
  EWSAsFound = FALSE
INVARIANTS TypeOK CursorContract TableContract
CHECK_DEADLOCK FALSE
