SPECIFICATION Spec
CONSTANTS
  MaxBatches = 3
  MaxScript = 2
  Resps = {"204", "500", "400"}
  Drops = {TRUE}
  Attempts0 = {0}
  MaxAges = {1}
  MaxTicks = 2
  SegCap = 2
  PeriodicAdv = FALSE
  PeriodicFix = TRUE
  EnqAnywhere = FALSE
  Record = TRUE
  MaxPre = 1
INVARIANTS TypeOK OnlyLegalRemovals PostInOrderH FirstAcceptInOrderH WaitFollowsRule PurgeOnlyOld

CHECK_DEADLOCK FALSE
