SPECIFICATION Spec
CONSTANTS
  NK = 3
  MaxT = 3
  Files <- TombThorough
  MaxOps = 2
  CrashPts <- Points
  KeepHist = FALSE
  Mode = "tomb"
INVARIANTS TypeOK HidesExactly MemoryIsDurable AtomicTombstoneCommit IndexConsistent
VIEW View
CHECK_DEADLOCK FALSE
