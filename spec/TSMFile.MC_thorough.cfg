SPECIFICATION Spec
CONSTANTS
  NK = 3
  MaxT = 3
  Files <- TombThorough
  MaxOps = 2
  CrashPts <- Points
  KeepPts <- KeepAll
  KeepHist = FALSE
  Mode = "tomb"
INVARIANTS TypeOK HidesExactly MemoryIsDurable AtomicTombstoneCommit StaleTmpHarmless IndexConsistent
VIEW View
CHECK_DEADLOCK FALSE
