------------------------------ MODULE InfluxQLFn ------------------------------
(* C23 - InfluxQL transformation functions follow their definitions.                                        *)
(*                                                                                                          *)
(* One state = one case (fn, par, w, series) plus `exp`, the rows the DOCUMENTED DEFINITION of the function  *)
(* gives (contract layer: closed forms written with sets, CHOOSE, order statistics and exact rationals).     *)
(* The implementation layer is the streaming machine the code uses (influxql/query: *Reducer types with      *)
(* Aggregate(p)/Emit(), the reduce iterator that feeds one GROUP BY time window at a time and stamps the     *)
(* window start on points without a time, the stream iterator that calls Emit after every Aggregate and      *)
(* Close at the end).  TLC steps the machine over the series and checks  done => Matches(out, exp)  on every *)
(* series of <= MaxLen points over timestamps 0..MaxT (strictly increasing: one series from storage has      *)
(* unique timestamps) and values Vals.                                                                       *)
(*                                                                                                          *)
(* Values are integers; results that are rationals are <<num, den>> in lowest terms with den > 0; a row is   *)
(* <<t, num, den>> (den = 0: null) or <<t, num, den, 1>> (optional row, see integral).  stddev rows carry    *)
(* the exact sample VARIANCE (the driver compares the square of the code's result).                          *)
(* Row times are abstract ticks: 0 is the start of the queried range (the epoch when there is no WHERE       *)
(* clause), k*w the start of window k.                                                                       *)
(*                                                                                                          *)
(* Documented definitions used (InfluxQL function reference):                                                *)
(*   derivative(u)            (v[k]-v[k-1]) / ((t[k]-t[k-1])/u) at t[k];  non_negative_: negative results dropped *)
(*   difference               v[k]-v[k-1] at t[k];                       non_negative_: negative results dropped *)
(*   moving_average(n)        mean of v[k-n+1..k] at t[k], k >= n                                            *)
(*   cumulative_sum           v[1]+..+v[k] at t[k]                                                           *)
(*   elapsed(u)               (t[k]-t[k-1]) div u at t[k]  (integer, 0 when the unit is larger)              *)
(*   integral(u)              area under the piecewise-linear curve through the points, per unit u; under    *)
(*                            GROUP BY time the curve is cut at the window boundaries (linear interpolation) *)
(*   percentile(N)            the value of rank round-half-up(n*N/100) in (value, time) order, none if rank 0 *)
(*   median                   middle value, mean of the two middle values for an even count                  *)
(*   mode                     most frequent value; ties -> the value with the earliest timestamp             *)
(*   spread                   max - min;   stddev: sample standard deviation (null for < 2 points)           *)
(*   distinct                 the distinct values (order of first appearance)                                *)
(*   top(n)/bottom(n)         the n greatest/least values, ties -> earliest timestamp; rows keep their times *)
(* Output timestamps: per-point functions carry the point's time; aggregates the window start (range start   *)
(* without GROUP BY time); percentile the selected point's time without GROUP BY time and the window start   *)
(* with it; top/bottom always the points' own times.                                                         *)
(*                                                                                                          *)
(* Deliberate limits (named deviations):                                                                     *)
(*  - integral under GROUP BY time: the curve is cut at the END OF THE WINDOW OF EACH POINT; when the next     *)
(*    point lies beyond one or more wholly empty windows, the area from that cut up to the next point is     *)
(*    credited to the next point's window and the empty windows produce no row (this is what the unchanged   *)
(*    code does; the documentation does not define the case).  If that next point is the last one and lies   *)
(*    exactly on its window start, Close() discards the window together with the credited area: optional row. *)
(*  - ORDER BY time DESC is modelled for top/bottom (Cases with desc = 1): the points reach the reducer      *)
(*    newest first, the selection is the same, the rows come out in descending time order.                   *)
(*  - a window whose part of the curve is a single instant (one lone point; or last point exactly on the     *)
(*    window start) has area 0; whether a row is produced is not documented: the row is optional (4th field).*)
(*  - ModeQuirk = TRUE models mode() as it is at the pinned commit (section 8, F13): TLC then reports the     *)
(*    tie-break counterexample on the model (InfluxQLFn.ModeLead.cfg); FALSE is the repaired scan.           *)
EXTENDS Integers, Sequences, FiniteSets, TLC

CONSTANTS MaxT,        \* timestamps 0..MaxT
          MaxLen,      \* series length bound
          Vals,        \* value domain
          Cases,       \* set of <<fn, par, w, desc>>  (desc = 1: ORDER BY time DESC, points reach the reducer newest first)
          ModeQuirk    \* BOOLEAN

VARIABLES fn, par, w, desc, series, exp,   \* the case and the definition's rows (contract layer)
          i, st, out, done             \* the machine: points consumed, reducer/iterator state, rows emitted
vars == <<fn, par, w, desc, series, exp, i, st, out, done>>
Reverse(s) == [k \in 1..Len(s) |-> s[Len(s) + 1 - k]]
\* the order in which the iterators deliver the points
Input == IF desc = 1 THEN Reverse(series) ELSE series

\* ---------------------------------------------------------------------------------------------- helpers
T(p) == p[1]
V(p) == p[2]
Abs(x) == IF x < 0 THEN -x ELSE x
MinOf(S) == CHOOSE x \in S : \A y \in S : x <= y
MaxOf(S) == CHOOSE x \in S : \A y \in S : x >= y
Range(s) == {s[k] : k \in DOMAIN s}
RECURSIVE SortSet(_)
SortSet(S) == IF S = {} THEN <<>> ELSE LET m == MinOf(S) IN <<m>> \o SortSet(S \ {m})
RECURSIVE SumSeq(_)
SumSeq(s) == IF s = <<>> THEN 0 ELSE Head(s) + SumSeq(Tail(s))
RECURSIVE Flatten(_)
Flatten(ss) == IF ss = <<>> THEN <<>> ELSE Head(ss) \o Flatten(Tail(ss))
ValsOf(s) == [k \in DOMAIN s |-> V(s[k])]

\* rationals <<num, den>>, den > 0, lowest terms
RECURSIVE GCD(_, _)
GCD(a, b) == IF b = 0 THEN a ELSE GCD(b, a % b)
RNorm(r) == IF r[2] = 0 THEN <<0, 0>>
            ELSE LET s == IF r[2] < 0 THEN -1 ELSE 1
                     g == GCD(Abs(r[1]), Abs(r[2]))
                 IN <<(s * r[1]) \div g, (s * r[2]) \div g>>
RInt(n) == <<n, 1>>
RAdd(a, b) == RNorm(<<a[1] * b[2] + b[1] * a[2], a[2] * b[2]>>)
RSub(a, b) == RNorm(<<a[1] * b[2] - b[1] * a[2], a[2] * b[2]>>)
RMul(a, b) == RNorm(<<a[1] * b[1], a[2] * b[2]>>)
RDivI(a, n) == RNorm(<<a[1], a[2] * n>>)
Row(t, r) == <<t, r[1], r[2]>>
IRow(t, n) == <<t, n, 1>>

WinIdx(t, ww) == IF ww = 0 THEN 0 ELSE t \div ww
WinEnd(k, ww) == IF ww = 0 THEN MaxT + 1 ELSE (k + 1) * ww

StreamFns == {"derivative", "non_negative_derivative", "difference", "non_negative_difference",
              "moving_average", "cumulative_sum", "elapsed"}
Kind(f) == IF f \in StreamFns THEN "stream" ELSE IF f = "integral" THEN "integral" ELSE "reduce"

\* ============================================================================================ CONTRACT LAYER
\* ---- per-point transformations
PairRows(s, F(_, _)) == [k \in 1..(Len(s) - 1) |-> F(s[k], s[k + 1])]
NonNeg(rows) == LET Keep(r) == r[2] >= 0 IN SelectSeq(rows, Keep)

DerivDef(s, u) == LET F(a, b) == Row(T(b), RNorm(<<(V(b) - V(a)) * u, T(b) - T(a)>>)) IN PairRows(s, F)
DiffDef(s) == LET F(a, b) == IRow(T(b), V(b) - V(a)) IN PairRows(s, F)
ElapsedDef(s, u) == LET F(a, b) == IRow(T(b), (T(b) - T(a)) \div u) IN PairRows(s, F)
MovAvgDef(s, n) == [k \in 1..(Len(s) - n + 1) |->
                      Row(T(s[k + n - 1]), RNorm(<<SumSeq(SubSeq(ValsOf(s), k, k + n - 1)), n>>))]
CumSumDef(s) == [k \in 1..Len(s) |-> IRow(T(s[k]), SumSeq(SubSeq(ValsOf(s), 1, k)))]

StreamDef(f, a, s) ==
  CASE f = "derivative" -> DerivDef(s, a)
    [] f = "non_negative_derivative" -> NonNeg(DerivDef(s, a))
    [] f = "difference" -> DiffDef(s)
    [] f = "non_negative_difference" -> NonNeg(DiffDef(s))
    [] f = "moving_average" -> MovAvgDef(s, a)
    [] f = "cumulative_sum" -> CumSumDef(s)
    [] f = "elapsed" -> ElapsedDef(s, a)

\* ---- integral: exact area of the piecewise-linear interpolant over [lo, hi], divided by the unit
\* value of the line through a and b at x, as a rational
LineAt(a, b, x) == RNorm(<<V(a) * (T(b) - T(a)) + (V(b) - V(a)) * (x - T(a)), T(b) - T(a)>>)
SegArea(a, b, lo, hi) ==           \* area of segment a-b clipped to [lo, hi]
  LET l == IF T(a) > lo THEN T(a) ELSE lo
      h == IF T(b) < hi THEN T(b) ELSE hi
  IN IF l >= h THEN RInt(0)
     ELSE RMul(RMul(RAdd(LineAt(a, b, l), LineAt(a, b, h)), <<1, 2>>), RInt(h - l))
RECURSIVE AreaFrom(_, _, _, _)
AreaFrom(s, k, lo, hi) == IF k >= Len(s) THEN RInt(0)
                          ELSE RAdd(SegArea(s[k], s[k + 1], lo, hi), AreaFrom(s, k + 1, lo, hi))
IntegralDef(s, u, ww) ==
  LET ws == SortSet({WinIdx(T(s[k]), ww) : k \in DOMAIN s})
      RowOf(k) ==
        LET inw == {j \in DOMAIN s : WinIdx(T(s[j]), ww) = k}
            f  == MinOf(inw)
            l  == MaxOf(inw)
            lo == IF f > 1 THEN WinEnd(WinIdx(T(s[f - 1]), ww), ww) ELSE T(s[f])   \* = k * ww unless windows were skipped
            hi == IF l < Len(s) THEN WinEnd(k, ww) ELSE T(s[l])
            ar == RDivI(AreaFrom(s, 1, lo, hi), u)
        IN IF lo = hi THEN <<k * ww, 0, 1, 1>>
           ELSE IF hi = k * ww THEN <<k * ww, ar[1], ar[2], 1>>   \* last point of the series on its window start after skipped
                                                                  \* windows: Close() discards the window (and the credited area)
           ELSE Row(k * ww, ar)
  IN [j \in 1..Len(ws) |-> RowOf(ws[j])]

\* ---- aggregates and selectors over the points of one window
RECURSIVE RSum(_)
RSum(s) == IF s = <<>> THEN RInt(0) ELSE RAdd(Head(s), RSum(Tail(s)))
Before(y, x) == V(y) < V(x) \/ (V(y) = V(x) /\ T(y) < T(x))        \* (value, time) order
OS(pts, r) == CHOOSE x \in Range(pts) : Cardinality({y \in Range(pts) : Before(y, x)}) = r - 1
Freq(pts, v) == Cardinality({p \in Range(pts) : V(p) = v})
First(pts, v) == MinOf({T(p) : p \in {q \in Range(pts) : V(q) = v}})
VSet(pts) == {V(p) : p \in Range(pts)}

PercentileDef(pts, N, t0, keep) ==
  LET n == Len(pts)
      R == {r \in 0..n : 100 * (2 * r - 1) <= 2 * n * N /\ 2 * n * N < 100 * (2 * r + 1)}   \* round half up
      r == CHOOSE x \in R : TRUE
  IN IF R = {} \/ r = 0 THEN <<>>
     ELSE LET x == OS(pts, r) IN <<IRow(IF keep THEN T(x) ELSE t0, V(x))>>
MedianDef(pts, t0) ==
  LET n == Len(pts)
  IN IF n % 2 = 1 THEN <<IRow(t0, V(OS(pts, (n + 1) \div 2)))>>
     ELSE <<Row(t0, RNorm(<<V(OS(pts, n \div 2)) + V(OS(pts, n \div 2 + 1)), 2>>))>>
ModeDef(pts, t0) ==
  LET vs == VSet(pts)
      m == CHOOSE v \in vs : \A u \in vs \ {v} :
              Freq(pts, v) > Freq(pts, u) \/ (Freq(pts, v) = Freq(pts, u) /\ First(pts, v) < First(pts, u))
  IN <<IRow(t0, m)>>
SpreadDef(pts, t0) == <<IRow(t0, MaxOf(VSet(pts)) - MinOf(VSet(pts)))>>
StddevDef(pts, t0) ==                   \* exact sample variance  sum (x - mean)^2 / (n - 1)
  LET n == Len(pts)
      mean == RNorm(<<SumSeq(ValsOf(pts)), n>>)
      sq == [k \in 1..n |-> LET d == RSub(RInt(V(pts[k])), mean) IN RMul(d, d)]
  IN IF n < 2 THEN <<<<t0, 0, 0>>>> ELSE <<Row(t0, RDivI(RSum(sq), n - 1))>>
DistinctDef(pts, t0) ==
  LET firsts == SortSet({First(pts, v) : v \in VSet(pts)})
      ValAt(t) == V(CHOOSE p \in Range(pts) : T(p) = t)
  IN [j \in 1..Len(firsts) |-> IRow(t0, ValAt(firsts[j]))]
TopBottomDef(pts, n, top) ==
  LET Better(y, x) == IF top THEN V(y) > V(x) \/ (V(y) = V(x) /\ T(y) < T(x))
                      ELSE V(y) < V(x) \/ (V(y) = V(x) /\ T(y) < T(x))
      S == {x \in Range(pts) : Cardinality({y \in Range(pts) : Better(y, x)}) < n}
      ts == SortSet({T(x) : x \in S})
  IN [j \in 1..Len(ts) |-> LET x == CHOOSE p \in S : T(p) = ts[j] IN IRow(T(x), V(x))]

AggDef(f, a, ww, pts, t0) ==
  CASE f = "percentile" -> PercentileDef(pts, a, t0, ww = 0)
    [] f = "median" -> MedianDef(pts, t0)
    [] f = "mode" -> ModeDef(pts, t0)
    [] f = "spread" -> SpreadDef(pts, t0)
    [] f = "stddev" -> StddevDef(pts, t0)
    [] f = "distinct" -> DistinctDef(pts, t0)
    [] f = "top" -> TopBottomDef(pts, a, TRUE)
    [] f = "bottom" -> TopBottomDef(pts, a, FALSE)

DefAsc(f, a, ww, s) ==
  IF s = <<>> THEN <<>>
  ELSE IF Kind(f) = "stream" THEN StreamDef(f, a, s)
  ELSE IF f = "integral" THEN IntegralDef(s, a, ww)
  ELSE LET ws == SortSet({WinIdx(T(s[k]), ww) : k \in DOMAIN s})
           InW(k) == LET Test(p) == WinIdx(T(p), ww) = k IN SelectSeq(s, Test)
       IN Flatten([j \in 1..Len(ws) |-> AggDef(f, a, ww, InW(ws[j]), ws[j] * ww)])

Def(f, a, ww, dd, s) == IF dd = 1 THEN Reverse(DefAsc(f, a, ww, s)) ELSE DefAsc(f, a, ww, s)

\* rows produced match the definition's rows (optional rows may be missing)
RECURSIVE Matches(_, _)
Matches(o, e) ==
  IF e = <<>> THEN o = <<>>
  ELSE LET h == Head(e)
           core == <<h[1], h[2], h[3]>>
       IN IF o # <<>> /\ Head(o) = core THEN Matches(Tail(o), Tail(e))
          ELSE IF Len(h) = 4 THEN Matches(o, Tail(e))
          ELSE FALSE

\* ====================================================================================== IMPLEMENTATION LAYER
Nil == <<>>
\* ---- stream reducers (functions.go): state [prev, curr] / moving average ring / running sum
InitStream(f, a) ==
  CASE f = "moving_average" -> [buf |-> <<>>, pos |-> 0, sum |-> 0, time |-> 0]
    [] f = "cumulative_sum" -> [sum |-> 0, time |-> 0, nil |-> TRUE]
    [] OTHER -> [prev |-> Nil, curr |-> Nil]

AggStream(f, a, s, p) ==
  CASE f = "moving_average" ->
         LET full == Len(s.buf) = a
             buf1 == IF full THEN [s.buf EXCEPT ![s.pos + 1] = V(p)] ELSE Append(s.buf, V(p))
             sum1 == (IF full THEN s.sum - s.buf[s.pos + 1] ELSE s.sum) + V(p)
         IN [buf |-> buf1, pos |-> (s.pos + 1) % a, sum |-> sum1, time |-> T(p)]
    [] f = "cumulative_sum" -> [sum |-> s.sum + V(p), time |-> T(p), nil |-> FALSE]
    [] f = "elapsed" -> [prev |-> s.curr, curr |-> p]
    [] OTHER ->   \* derivative / difference: a point that does not advance the stream is skipped
         IF s.curr # Nil /\ T(s.curr) = T(p) THEN s ELSE [prev |-> s.curr, curr |-> p]

\* Emit returns [rows, st]
EmitStream(f, a, s) ==
  CASE f \in {"derivative", "non_negative_derivative"} ->
         IF s.prev = Nil THEN [rows |-> <<>>, st |-> s]
         ELSE LET diff == V(s.curr) - V(s.prev)
                  el == T(s.curr) - T(s.prev)
                  s1 == [s EXCEPT !.prev = Nil]                  \* marked as read
              IN IF f = "non_negative_derivative" /\ diff < 0 THEN [rows |-> <<>>, st |-> s1]
                 ELSE [rows |-> <<Row(T(s.curr), RNorm(<<diff * a, el>>))>>, st |-> s1]
    [] f \in {"difference", "non_negative_difference"} ->
         IF s.prev = Nil THEN [rows |-> <<>>, st |-> s]
         ELSE LET diff == V(s.curr) - V(s.prev)
              IN IF f = "non_negative_difference" /\ diff < 0 THEN [rows |-> <<>>, st |-> s]   \* prev stays unread
                 ELSE [rows |-> <<IRow(T(s.curr), diff)>>, st |-> [s EXCEPT !.prev = Nil]]
    [] f = "elapsed" ->
         IF s.prev = Nil THEN [rows |-> <<>>, st |-> s]
         ELSE [rows |-> <<IRow(T(s.curr), (T(s.curr) - T(s.prev)) \div a)>>, st |-> s]
    [] f = "moving_average" ->
         IF Len(s.buf) # a THEN [rows |-> <<>>, st |-> s]
         ELSE [rows |-> <<Row(s.time, RNorm(<<s.sum, Len(s.buf)>>))>>, st |-> s]
    [] f = "cumulative_sum" ->
         IF s.nil THEN [rows |-> <<>>, st |-> s] ELSE [rows |-> <<IRow(s.time, s.sum)>>, st |-> s]

\* ---- integral reducer (FloatIntegralReducer; the Integer/Unsigned variants are meant to be the same machine):
\* prev = <<t, value as rational>>, running sum, current window, a one-slot channel
InitIntegral == [prev |-> Nil, sum |-> RInt(0), ws |-> 0, we |-> 0, ch |-> <<>>]
Trapezium(v1, v2, dt, u) == RDivI(RMul(RMul(RAdd(v1, v2), <<1, 2>>), RInt(dt)), u)
AggIntegral(u, ww, s, p) ==
  LET pv == RInt(V(p))
      k  == WinIdx(T(p), ww)
  IN IF s.prev = Nil THEN [s EXCEPT !.prev = <<T(p), pv>>, !.ws = k * ww, !.we = WinEnd(k, ww)]
     ELSE IF T(s.prev) = T(p) THEN [s EXCEPT !.prev = <<T(p), pv>>]
     ELSE IF T(p) >= s.we THEN
            \* interpolate to the end of the window, emit it, start the window of p
            LET cut == T(s.prev) # s.we
                \* linearFloat: value of the line prev -> p at the window end
                val == RAdd(s.prev[2], RDivI(RMul(RSub(pv, s.prev[2]), RInt(s.we - T(s.prev))), T(p) - T(s.prev)))
                sum1 == IF cut THEN RAdd(s.sum, Trapezium(val, s.prev[2], s.we - T(s.prev), u)) ELSE s.sum
                prev1 == IF cut THEN <<s.we, val>> ELSE s.prev
                sum2 == Trapezium(pv, prev1[2], T(p) - T(prev1), u)
            IN [prev |-> <<T(p), pv>>, sum |-> sum2, ws |-> k * ww, we |-> WinEnd(k, ww),
                ch |-> Append(s.ch, Row(s.ws, sum1))]
     ELSE [s EXCEPT !.sum = RAdd(s.sum, Trapezium(pv, s.prev[2], T(p) - T(s.prev), u)), !.prev = <<T(p), pv>>]
EmitIntegral(s) == IF s.ch = <<>> THEN [rows |-> <<>>, st |-> s]
                   ELSE [rows |-> <<Head(s.ch)>>, st |-> [s EXCEPT !.ch = Tail(s.ch)]]
CloseIntegral(s) == IF s.prev # Nil /\ T(s.prev) # s.ws THEN [s EXCEPT !.ch = Append(s.ch, Row(s.ws, s.sum))] ELSE s

\* ---- reduce iterator (iterator.gen.go *Reduce*Iterator.reduce): one window at a time
InitReduce == [win |-> -1, pts |-> <<>>, lo |-> 0, hi |-> 0, seen |-> <<>>, heap |-> {}]

\* top/bottom keep a bounded heap whose root is the least wanted element
Worse(top, x, y) ==   \* cmp(x, y) of the code: x sorts before y
  IF top THEN V(x) < V(y) \/ (V(x) = V(y) /\ T(x) > T(y))
  ELSE V(x) > V(y) \/ (V(x) = V(y) /\ T(x) > T(y))
AggReduce(f, a, s, p) ==
  CASE f \in {"percentile", "median", "mode", "stddev"} -> [s EXCEPT !.pts = Append(@, p)]
    [] f = "spread" -> IF s.pts = <<>> THEN [s EXCEPT !.pts = <<p>>, !.lo = V(p), !.hi = V(p)]
                       ELSE [s EXCEPT !.lo = IF V(p) < @ THEN V(p) ELSE @, !.hi = IF V(p) > @ THEN V(p) ELSE @]
    [] f = "distinct" -> IF \E k \in DOMAIN s.seen : V(s.seen[k]) = V(p) THEN s ELSE [s EXCEPT !.seen = Append(@, p)]
    [] f \in {"top", "bottom"} ->
         IF Cardinality(s.heap) = a
         THEN LET root == CHOOSE x \in s.heap : \A y \in s.heap \ {x} : Worse(f = "top", x, y)
              IN IF Worse(f = "top", root, p) THEN [s EXCEPT !.heap = (@ \ {root}) \cup {p}] ELSE s
         ELSE [s EXCEPT !.heap = @ \cup {p}]

\* stable insertion sort by value (sort.Sort on <= 12 elements is an insertion sort)
InsertByValue(ss, p) == LET k == Cardinality({j \in DOMAIN ss : V(ss[j]) <= V(p)})
                        IN SubSeq(ss, 1, k) \o <<p>> \o SubSeq(ss, k + 1, Len(ss))
RECURSIVE SortByValue(_)
SortByValue(s) == IF s = <<>> THEN <<>> ELSE InsertByValue(SortByValue(SubSeq(s, 1, Len(s) - 1)), s[Len(s)])

\* mode scan over the sorted slice; m = [mostFreq, currFreq, currMode, mostMode, mostTime, currTime]
RECURSIVE ModeScan(_, _, _)
ModeScan(a, k, m) ==
  IF k > Len(a) THEN m.mostMode
  ELSE LET p == a[k]
       IN IF ModeQuirk
          THEN IF V(p) # m.currMode
               THEN ModeScan(a, k + 1, [m EXCEPT !.currFreq = 1, !.currMode = V(p), !.currTime = T(p)])  \* `continue`
               ELSE LET cf == m.currFreq + 1
                    IN IF m.mostFreq > cf \/ (m.mostFreq = cf /\ m.currTime > m.mostTime)
                       THEN ModeScan(a, k + 1, [m EXCEPT !.currFreq = cf])
                       ELSE ModeScan(a, k + 1, [m EXCEPT !.currFreq = cf, !.mostFreq = cf, !.mostMode = V(p), !.mostTime = T(p)])
          ELSE LET new == V(p) # m.currMode
                   cf == IF new THEN 1 ELSE m.currFreq + 1
                   ct == IF new THEN T(p) ELSE IF T(p) < m.currTime THEN T(p) ELSE m.currTime
                   m1 == [m EXCEPT !.currFreq = cf, !.currMode = V(p), !.currTime = ct]
               IN IF m.mostFreq > cf \/ (m.mostFreq = cf /\ ct > m.mostTime)
                  THEN ModeScan(a, k + 1, m1)
                  ELSE ModeScan(a, k + 1, [m1 EXCEPT !.mostFreq = cf, !.mostMode = V(p), !.mostTime = ct])

\* incremental mean of IntegerStddevReduceSlice, in exact arithmetic
RECURSIVE IncMean(_, _, _)
IncMean(pts, k, mean) == IF k > Len(pts) THEN mean
                         ELSE IncMean(pts, k + 1, RAdd(mean, RDivI(RSub(RInt(V(pts[k])), mean), k)))
RECURSIVE SqDev(_, _, _)
SqDev(pts, k, mean) == IF k > Len(pts) THEN RInt(0)
                       ELSE LET d == RSub(RInt(V(pts[k])), mean) IN RAdd(RMul(d, d), SqDev(pts, k + 1, mean))

\* Emit of the reducer: rows <<time or "zero", num, den>>; ZeroT marks "no time provided"
ZeroT == -1
EmitReduce(f, a, s) ==
  CASE f = "percentile" ->
         LET n == Len(s.pts)
             idx == ((2 * n * a + 100) \div 200) - 1        \* int(floor(n*p/100 + 0.5)) - 1
         IN IF idx < 0 \/ idx >= n THEN <<>>
            ELSE LET x == SortByValue(s.pts)[idx + 1] IN <<IRow(T(x), V(x))>>
    [] f = "median" ->
         LET n == Len(s.pts)
             a2 == SortByValue(s.pts)
         IN IF n = 1 THEN <<IRow(ZeroT, V(s.pts[1]))>>
            ELSE IF n % 2 = 0
                 THEN LET lo == V(a2[n \div 2]) hi == V(a2[n \div 2 + 1]) IN <<Row(ZeroT, RNorm(<<2 * lo + (hi - lo), 2>>))>>
                 ELSE <<IRow(ZeroT, V(a2[n \div 2 + 1]))>>
    [] f = "mode" ->
         IF Len(s.pts) = 1 THEN <<IRow(ZeroT, V(s.pts[1]))>>
         ELSE LET a2 == SortByValue(s.pts)
                  m0 == [mostFreq |-> 0, currFreq |-> 0, currMode |-> V(a2[1]), mostMode |-> V(a2[1]),
                         mostTime |-> T(a2[1]), currTime |-> T(a2[1])]
              IN <<IRow(ZeroT, ModeScan(a2, 1, m0))>>
    [] f = "spread" -> <<IRow(ZeroT, s.hi - s.lo)>>
    [] f = "stddev" ->
         IF Len(s.pts) < 2 THEN <<<<ZeroT, 0, 0>>>>
         ELSE LET mean == IncMean(s.pts, 1, RInt(0))
              IN <<Row(ZeroT, RDivI(SqDev(s.pts, 1, mean), Len(s.pts) - 1))>>
    [] f = "distinct" -> [k \in 1..Len(s.seen) |-> IRow(T(s.seen[k]), V(s.seen[k]))]
    [] f \in {"top", "bottom"} ->
         LET ts0 == SortSet({T(x) : x \in s.heap})           \* the iterator sorts the emitted points by time
             ts == IF desc = 1 THEN Reverse(ts0) ELSE ts0
         IN [j \in 1..Len(ts) |-> LET x == CHOOSE p \in s.heap : T(p) = ts[j] IN IRow(T(x), V(x))]

\* time stamping done above the reducer: points without a time get the window start; a selector's own time is kept
\* only for top/bottom and for percentile without GROUP BY time, distinct is stamped like an aggregate
Stamp(f, ww, rows, t0) ==
  LET keep == f \in {"top", "bottom"} \/ (f = "percentile" /\ ww = 0)
  IN [k \in 1..Len(rows) |-> IF keep /\ rows[k][1] # ZeroT THEN rows[k] ELSE <<t0, rows[k][2], rows[k][3]>>]

\* ---------------------------------------------------------------------------------------------- the case space
RECURSIVE MkSeries(_, _)
MkSeries(ts, f) == IF ts = <<>> THEN <<>> ELSE <<<<Head(ts), f[Head(ts)]>>>> \o MkSeries(Tail(ts), f)

CaseOK(f, ww, s) == TRUE      \* (no series is excluded any more)

InitMachine(f, a) == IF Kind(f) = "stream" THEN InitStream(f, a)
                     ELSE IF f = "integral" THEN InitIntegral ELSE InitReduce

Init ==
  \E c \in Cases : \E TS \in SUBSET (0..MaxT) :
    /\ Cardinality(TS) <= MaxLen
    /\ \E f \in [TS -> Vals] :
         LET s == MkSeries(SortSet(TS), f)
         IN /\ CaseOK(c[1], c[3], s)
            /\ fn = c[1] /\ par = c[2] /\ w = c[3] /\ desc = c[4]
            /\ series = s
            /\ exp = Def(c[1], c[2], c[3], c[4], s)
            /\ i = 0 /\ st = InitMachine(c[1], c[2]) /\ out = <<>> /\ done = FALSE

\* ---------------------------------------------------------------------------------------------- machine steps
\* stream iterator: Aggregate(p) then Emit()
FeedStream ==
  /\ ~done /\ Kind(fn) = "stream" /\ i < Len(series)
  /\ LET e == EmitStream(fn, par, AggStream(fn, par, st, Input[i + 1]))
     IN st' = e.st /\ out' = out \o e.rows
  /\ i' = i + 1
  /\ UNCHANGED <<fn, par, w, desc, series, exp, done>>
FeedIntegral ==
  /\ ~done /\ fn = "integral" /\ i < Len(series)
  /\ LET e == EmitIntegral(AggIntegral(par, w, st, Input[i + 1]))
     IN st' = e.st /\ out' = out \o e.rows
  /\ i' = i + 1
  /\ UNCHANGED <<fn, par, w, desc, series, exp, done>>
\* end of input: Close() flushes the integral reducer, then Emit()
FinishStream ==
  /\ ~done /\ Kind(fn) \in {"stream", "integral"} /\ i = Len(series)
  /\ IF fn = "integral"
     THEN LET e == EmitIntegral(CloseIntegral(st)) IN st' = e.st /\ out' = out \o e.rows
     ELSE UNCHANGED <<st, out>>
  /\ done' = TRUE
  /\ UNCHANGED <<fn, par, w, desc, series, exp, i>>
\* reduce iterator: all points of the current window go to one reducer ...
FeedReduce ==
  /\ ~done /\ Kind(fn) = "reduce" /\ i < Len(series)
  /\ LET p == Input[i + 1]
         k == WinIdx(T(p), w)
     IN /\ st.win \in {-1, k}
        /\ st' = AggReduce(fn, par, [st EXCEPT !.win = k], p)
  /\ i' = i + 1
  /\ UNCHANGED <<fn, par, w, desc, series, exp, out, done>>
\* ... whose Emit() is taken when the window ends; the rows are stamped
FlushReduce ==
  /\ ~done /\ Kind(fn) = "reduce" /\ st.win # -1
  /\ (IF i = Len(series) THEN TRUE ELSE WinIdx(T(Input[i + 1]), w) # st.win)
  /\ out' = out \o Stamp(fn, w, EmitReduce(fn, par, st), st.win * w)
  /\ st' = InitReduce
  /\ UNCHANGED <<fn, par, w, desc, series, exp, i, done>>
FinishReduce ==
  /\ ~done /\ Kind(fn) = "reduce" /\ i = Len(series) /\ st.win = -1
  /\ done' = TRUE
  /\ UNCHANGED <<fn, par, w, desc, series, exp, i, st, out>>

Next == FeedStream \/ FeedIntegral \/ FinishStream \/ FeedReduce \/ FlushReduce \/ FinishReduce
Spec == Init /\ [][Next]_vars

\* generation: the cases only (machine variables stay initial)
GenSpec == Init /\ [][UNCHANGED vars]_vars

\* ---------------------------------------------------------------------------------------------- properties
MachineFollowsDefinition == done => Matches(out, exp)
\* rows come out in the order of the definition (optional rows aside): never more rows than the definition has
NeverTooManyRows == Len(out) <= Len(exp)
TypeOK == /\ i \in 0..Len(series) /\ done \in BOOLEAN
          /\ \A k \in DOMAIN exp : Len(exp[k]) \in {3, 4} /\ exp[k][3] >= 0

\* ---------------------------------------------------------------------------------------------- case sets
StreamCases == {<<"derivative", 1, 0, 0>>, <<"derivative", 2, 0, 0>>,
                <<"non_negative_derivative", 1, 0, 0>>, <<"non_negative_derivative", 2, 0, 0>>,
                <<"difference", 0, 0, 0>>, <<"non_negative_difference", 0, 0, 0>>,
                <<"moving_average", 2, 0, 0>>, <<"moving_average", 3, 0, 0>>, <<"moving_average", 4, 0, 0>>,   \* n = 1 is rejected by the compiler
                <<"cumulative_sum", 0, 0, 0>>,
                <<"elapsed", 1, 0, 0>>, <<"elapsed", 2, 0, 0>>, <<"elapsed", 3, 0, 0>>}
IntegralCases == {<<"integral", u, ww, 0>> : u \in {1, 2}, ww \in {0, 2, 3}}
AggCases == {<<f, 0, ww, 0>> : f \in {"median", "mode", "spread", "stddev", "distinct"}, ww \in {0, 2, 3}}
PercentileCases == {<<"percentile", p, ww, 0>> : p \in {1, 25, 50, 75, 90, 100}, ww \in {0, 2}}
TopBottomCases == {<<f, n, ww, dd>> : f \in {"top", "bottom"}, n \in {1, 2, 3}, ww \in {0, 2}, dd \in {0, 1}}
AllCases == StreamCases \cup IntegralCases \cup AggCases \cup PercentileCases \cup TopBottomCases
ModeCases == {<<"mode", 0, 0, 0>>, <<"mode", 0, 3, 0>>}
Vals5 == -2..2          \* (negative literals cannot be written in a cfg)
Vals3 == -1..1
=============================================================================
