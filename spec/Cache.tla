------------------------------- MODULE Cache -------------------------------
(* Specification of tsdb/engine/tsm1.Cache (cache.go, ring.go) for property C09.                              *)
(*                                                                                                             *)
(* Implementation layer (mirrors the code, one action per critical section):                                   *)
(*   - the cache owns exactly two ring stores which swap roles at every Snapshot (c.store / c.snapshot.store);  *)
(*     `ring[s][k]` is the entry of key k in store s: the values in arrival order, NOT sorted and NOT           *)
(*     de-duplicated until a reader (Values) or a range delete (entry.filter) does it in place;                 *)
(*   - `size`, `snapshotSize` are the two atomic byte counters; `snapObjSize` is c.snapshot.size (decides       *)
(*     whether Snapshot() hands out the previous, failed snapshot again); `snapshotting`;                       *)
(*   - WriteMulti is the code's sequence  load size / load snapshotSize + limit test / capture c.store /        *)
(*     increaseSize(batch) / store.write(k) per key in map order (type conflict: refund that key's bytes);      *)
(*     ClearSnapshot is  reset the snapshot store key by key (outside c.mu) / finish under c.mu;  Size() is     *)
(*     two loads;  Values is  de-duplicate in place / copy and merge;  Snapshot is  swap + snapshotSize:=Size() /  *)
(*     reset + size:=0 (c.mu held in between);  DeleteRange is a single step.                                    *)
(* Contract layer (C09): `amap` = newest-wins map per store, maintained by the abstract meaning of each step;   *)
(*     ValuesContract : what the code's lazy sort/dedup returns = snapshot map overridden by hot map;           *)
(*     Accounted      : bytes of values and keys actually held; SizeAccounting ties the counters to it;         *)
(*     a write rejected by the limit stores nothing; a type conflict drops exactly that key.                    *)
(*                                                                                                             *)
(* Known, named deviations of the code from the contract that this spec models instead of hiding:               *)
(*   lost    : bytes dropped by a reader-triggered entry.deduplicate() stay in the counters (DESIGN F8);         *)
(*   strayed : a WriteMulti that captured c.store before a Snapshot swap stores into / refunds against the      *)
(*             wrong counters (unreachable through Engine, which excludes writes during Cache.Snapshot).        *)
(*   glitched: store.write(k) is lookup (entry pointer) / entry.add; DeleteRange is, per key and under c.mu,     *)
(*             e.size() / e.filter / count==0 ? remove : -, decreaseSize.  Writers do not take c.mu, so an add   *)
(*             can fall between those steps: the bytes given back are computed from a stale size, and an add      *)
(*             after the entry left the map lands in an orphan -- acknowledged values are lost (DESIGN F17 window). *)
(* Deliberately not modelled: the entry pointers Values holds between its lookup and its copy.                   *)
EXTENDS Integers, Sequences, FiniteSets, TLC

CONSTANTS Keys,          \* subset of {"k1","k2","k3"}
          Times,         \* abstract timestamps (small naturals)
          Types,         \* subset of {"n","b","s"}: value classes of 16, 9 and 11 bytes
          Threads,       \* all thread names
          Writers, Snappers, Deleters, Readers,   \* which threads may start which operation (model checking)
          Limit,         \* Cache.maxSize, 0 = unlimited
          Sequential,    \* TRUE: an operation starts only when no other is in flight (sequential histories)
          SplitLoads,    \* TRUE: Size() is its two atomic loads; FALSE: one step
          Fused,         \* TRUE: the thread-local Start step is merged with the operation's first shared step (model checking)
          BKeys,         \* keys that may be written with a non-"n" class (small-scope choice of the generated batches)
          PerWriter,     \* writes per writer thread
          RandomPick,    \* TRUE (simulation only): a write draws one random batch shape instead of branching over all of them
          Rich,          \* TRUE: multi-value batches (unsorted, duplicate timestamp, mixed type)
          MaxWrites, MaxSnaps, MaxDeletes, MaxReads, MaxSizes, MaxOps

VARIABLES ring,          \* [1..2 -> [Keys -> Seq(value)]]; <<>> = no entry
          hotId,         \* which store is c.store; the other one is c.snapshot.store
          size, snapshotSize, snapObjSize, snapshotting,
          th,            \* per-thread state of the operation in flight
          amap,          \* contract: [1..2 -> [Keys -> [Times -> value | NoVal]]]
          lost,          \* ghost: [hot, snap] bytes dropped by reader dedup that are still inside size / snapshotSize
          strayed,       \* ghost: some write spanned a Snapshot swap
          ent,           \* entry objects: [gen |-> [1..2 -> [Keys -> Nat]]  generation of the entry object mapped at (store, key),
                         \*                 vt  |-> [1..2 -> [Keys -> type | "-"]]  its vtype, "-" = no entry in the map,
                         \*                 glitched |-> ghost: a store.write raced with DeleteRange/reset on the same entry]
          cnt, nextId, hist   \* model-checking bookkeeping: budgets, value numbering, history

core == <<ring, hotId, size, snapshotSize, snapObjSize, snapshotting, th, amap, lost, strayed, ent>>
aux  == <<cnt, nextId, hist>>
vars == <<ring, hotId, size, snapshotSize, snapObjSize, snapshotting, th, amap, lost, strayed, ent, cnt, nextId, hist>>

snapId == 3 - hotId

TSize(ty)  == CASE ty = "n" -> 16 [] ty = "b" -> 9 [] ty = "s" -> 11
KeyLen(k)  == CASE k = "k1" -> 3 [] k = "k2" -> 5 [] OTHER -> 7
KeyIdx(k)  == CASE k = "k1" -> 0 [] k = "k2" -> 1 [] OTHER -> 2

NoVal  == [ts |-> -1, ty |-> "-", id |-> 0]
Store0 == [k \in Keys |-> <<>>]
AMap0  == [k \in Keys |-> [t \in Times |-> NoVal]]

RECURSIVE Bytes(_)
Bytes(vs) == IF vs = <<>> THEN 0 ELSE TSize(Head(vs).ty) + Bytes(Tail(vs))
RECURSIVE SumOver(_, _)
SumOver(S, f) == IF S = {} THEN 0 ELSE LET x == CHOOSE y \in S : TRUE IN f[x] + SumOver(S \ {x}, f)
BatchBytes(b) == SumOver(DOMAIN b, [k \in DOMAIN b |-> Bytes(b[k])])

\* ------------------------------------------------------------------ implementation layer: Values.Deduplicate
Ascending(vs) == \A i \in 1..(Len(vs) - 1) : vs[i].ts < vs[i + 1].ts
RECURSIVE InsertStable(_, _)
InsertStable(sorted, v) ==
  IF sorted = <<>> THEN <<v>>
  ELSE IF Head(sorted).ts <= v.ts THEN <<Head(sorted)>> \o InsertStable(Tail(sorted), v)
  ELSE <<v>> \o sorted
RECURSIVE StableSort(_)
StableSort(vs) == IF vs = <<>> THEN <<>> ELSE InsertStable(StableSort(SubSeq(vs, 1, Len(vs) - 1)), vs[Len(vs)])
RECURSIVE KeepLast(_)
KeepLast(s) == IF Len(s) <= 1 THEN s
               ELSE IF s[1].ts = s[2].ts THEN KeepLast(Tail(s)) ELSE <<s[1]>> \o KeepLast(Tail(s))
\* sort.Stable + "the later of equal timestamps overwrites"; no work when already strictly ascending
Dedup(vs) == IF Len(vs) <= 1 \/ Ascending(vs) THEN vs ELSE KeepLast(StableSort(vs))
Exclude(vs, lo, hi) == SelectSeq(vs, LAMBDA v : v.ts < lo \/ v.ts > hi)

\* Cache.Values: snapshot entry then hot entry, each de-duplicated, concatenated, de-duplicated again
ImplRead(k) == Dedup(Dedup(ring[snapId][k]) \o Dedup(ring[hotId][k]))

\* ------------------------------------------------------------------ contract layer
RECURSIVE Override(_, _)
Override(m, vs) == IF vs = <<>> THEN m ELSE Override([m EXCEPT ![Head(vs).ts] = Head(vs)], Tail(vs))
RECURSIVE Asc(_)
Asc(S) == IF S = {} THEN <<>> ELSE LET m == CHOOSE x \in S : \A y \in S : x <= y IN <<m>> \o Asc(S \ {m})
ContractRead(k) ==
  LET m == [t \in Times |-> IF amap[hotId][k][t] # NoVal THEN amap[hotId][k][t] ELSE amap[snapId][k][t]]
      ts == Asc({t \in Times : m[t] # NoVal})
  IN [i \in 1..Len(ts) |-> m[ts[i]]]

EntryBytes(s, k) == IF ring[s][k] = <<>> THEN 0 ELSE KeyLen(k) + Bytes(ring[s][k])
Accounted == SumOver({1, 2} \X Keys, [p \in {1, 2} \X Keys |-> EntryBytes(p[1], p[2])])
Reported  == size + snapshotSize

\* ------------------------------------------------------------------ threads
Idle == [pc |-> "idle", op |-> "none", b |-> <<>>, ks |-> {}, k |-> "", lo |-> 0, hi |-> 0, full |-> FALSE, succ |-> FALSE,
         seen |-> 0, cap |-> 0, egen |-> 0, etype |-> "-", todo |-> {}, added |-> 0, conf |-> {}, stored |-> {},
         err |-> "", vals |-> <<>>, n |-> 0]
AllIdle == \A t \in Threads : th[t].pc = "idle"
CanStart(t) == th[t].pc = "idle" /\ (Sequential => AllIdle)
Step(t, r) == th' = [th EXCEPT ![t] = r]
\* with Fused (concurrent model checking) results are not needed: the operation returns with its last step; the
\* outcome invariants WriteOutcome / LimitAsObserved are then expressed on the last step (see *Step properties)
Done(r) == IF Fused /\ ~Sequential THEN Idle ELSE [r EXCEPT !.pc = "done"]
Pairs(vs) == [i \in 1..Len(vs) |-> <<vs[i].ts, vs[i].id>>]

\* Every operation is: Start (records the call; purely thread-local), its internal steps (below, "...On(t, r)" takes the
\* thread record explicitly so that model checking can fuse the local Start with the first shared step), Return.
Rest0 == UNCHANGED <<ring, hotId, size, snapshotSize, snapObjSize, snapshotting, amap, lost, strayed, ent>>
FirstPc(op) == CASE op = "write" -> (IF SplitLoads THEN "w_load1" ELSE "w_check")
                 [] op = "snapshot" -> "s_snap" [] op = "clear" -> "c_reset" [] op = "delete" -> "d_del"
                 [] op = "values" -> "r_dedup" [] op = "size" -> (IF SplitLoads THEN "z_load1" ELSE "z_load2")
New(op) == [Idle EXCEPT !.pc = FirstPc(op), !.op = op]
NewWrite(b) == [New("write") EXCEPT !.b = b, !.added = BatchBytes(b)]
NewClear(success) == [New("clear") EXCEPT !.succ = success]
NewDelete(ks, lo, hi, full) == [New("delete") EXCEPT !.ks = ks, !.lo = lo, !.hi = hi, !.full = full]
NewRead(k) == [New("values") EXCEPT !.k = k]

MidWrite == \E u \in Threads : th[u].pc \in {"w_reserve", "w_store", "w_add", "w_slow"}
\* some Snapshot() or DeleteRange() is inside its critical section (holds c.mu exclusively)
SnapLocked == \E u \in Threads : th[u].pc \in {"s_zero", "d_next", "d_filter", "d_check"}
Present(s, k) == ent.vt[s][k] # "-"
\* a DeleteRange is between e.size() and its decreaseSize for key k of the hot store
DelInProgress(s, k) == s = hotId /\ \E u \in Threads : th[u].pc \in {"d_filter", "d_check"} /\ th[u].k = k
Ent0 == [gen |-> [s \in {1, 2} |-> [k \in Keys |-> 0]], vt |-> [s \in {1, 2} |-> [k \in Keys |-> "-"]], glitched |-> FALSE]
DropEntry(e, s, k) == [e EXCEPT !.gen[s][k] = @ + 1, !.vt[s][k] = "-"]
RECURSIVE DropAll(_, _, _)
DropAll(e, s, ks) == IF ks = {} THEN e ELSE LET k == CHOOSE x \in ks : TRUE IN DropAll(DropEntry(e, s, k), s, ks \ {k})

\* ---- WriteMulti(b): b is a function from a non-empty set of keys to non-empty value sequences
WLoad1On(t, r) ==
  /\ r.pc = "w_load1"
  /\ Step(t, [r EXCEPT !.pc = "w_check", !.seen = size])
  /\ Rest0
\* n := c.Size() + addedSize; if limit > 0 && n > limit: reject (uint64: a wrapped-around counter is "huge")
WCheckOn(t, r) ==
  /\ r.pc = "w_check"
  /\ LET n == (IF SplitLoads THEN r.seen ELSE size) + snapshotSize + r.added
     IN IF Limit > 0 /\ (n > Limit \/ n < 0)
        THEN Step(t, Done([r EXCEPT !.err = "limit", !.n = n]))
        ELSE Step(t, [r EXCEPT !.pc = "w_capture", !.n = n])
  /\ Rest0
WCapture(t) ==
  /\ th[t].pc = "w_capture" /\ ~SnapLocked
  /\ Step(t, [th[t] EXCEPT !.pc = "w_reserve", !.cap = hotId])
  /\ Rest0
WReserve(t) ==
  /\ th[t].pc = "w_reserve"
  /\ size' = size + th[t].added
  /\ Step(t, [th[t] EXCEPT !.pc = "w_store", !.todo = DOMAIN th[t].b])
  /\ UNCHANGED <<ring, hotId, snapshotSize, snapObjSize, snapshotting, amap, lost, strayed, ent>>
\* store.write(k, v) = partition.write: (1) look the entry up under the partition read lock; (2a) found: entry.add on that
\* pointer -- the entry may have left the map meanwhile (DeleteRange emptied/removed it, the store was reset): the values then
\* land in an orphan; (2b) not found: under the partition write lock look again and add, or create it (newEntryValues).
Mixed(vs, vt) == \E i \in 1..Len(vs) : vs[i].ty # vt
WLookup(t, k) ==
  /\ th[t].pc = "w_store" /\ k \in th[t].todo
  /\ LET s == th[t].cap
     IN IF Present(s, k)
        THEN Step(t, [th[t] EXCEPT !.pc = "w_add", !.k = k, !.egen = ent.gen[s][k], !.etype = ent.vt[s][k]])
        ELSE Step(t, [th[t] EXCEPT !.pc = "w_slow", !.k = k])
  /\ Rest0
\* outcome of one key: r is the thread record after the key is done
FinKey(r) == LET r1 == [r EXCEPT !.todo = @ \ {r.k}, !.k = "", !.pc = "w_store"]
             IN IF r1.todo = {} THEN Done([r1 EXCEPT !.err = IF r1.conf = {} THEN "ok" ELSE "conflict"]) ELSE r1
\* add vs to the entry mapped at (s, k) (it exists)
AddMapped(t, s, k, vs) ==
  IF Mixed(vs, ent.vt[s][k])
  THEN /\ size' = size - Bytes(vs)
       /\ Step(t, FinKey([th[t] EXCEPT !.conf = @ \cup {k}]))
       /\ UNCHANGED <<ring, amap, ent>>
  ELSE /\ ring' = [ring EXCEPT ![s][k] = @ \o vs]
       /\ amap' = [amap EXCEPT ![s][k] = Override(@, vs)]
       /\ ent' = [ent EXCEPT !.glitched = @ \/ DelInProgress(s, k)]
       /\ Step(t, FinKey([th[t] EXCEPT !.stored = @ \cup {k}]))
       /\ UNCHANGED size
WAdd(t) ==
  /\ th[t].pc = "w_add"
  /\ LET s == th[t].cap
         k == th[t].k
         vs == th[t].b[k]
     IN IF Present(s, k) /\ ent.gen[s][k] = th[t].egen
        THEN AddMapped(t, s, k, vs)
        ELSE IF Mixed(vs, th[t].etype)
        THEN /\ size' = size - Bytes(vs)
             /\ Step(t, FinKey([th[t] EXCEPT !.conf = @ \cup {k}]))
             /\ UNCHANGED <<ring, amap, ent>>
        ELSE \* orphan: WriteMulti reports success, nothing is held, the reserved bytes stay in `size`
             /\ ent' = [ent EXCEPT !.glitched = TRUE]
             /\ Step(t, FinKey([th[t] EXCEPT !.stored = @ \cup {k}]))
             /\ UNCHANGED <<ring, amap, size>>
  /\ UNCHANGED <<hotId, snapshotSize, snapObjSize, snapshotting, lost, strayed>>
WSlow(t) ==
  /\ th[t].pc = "w_slow"
  /\ LET s == th[t].cap
         k == th[t].k
         vs == th[t].b[k]
     IN IF Present(s, k)
        THEN AddMapped(t, s, k, vs)
        ELSE IF Mixed(vs, vs[1].ty)
        THEN /\ size' = size - Bytes(vs)
             /\ Step(t, FinKey([th[t] EXCEPT !.conf = @ \cup {k}]))
             /\ UNCHANGED <<ring, amap, ent>>
        ELSE /\ ring' = [ring EXCEPT ![s][k] = vs]
             /\ amap' = [amap EXCEPT ![s][k] = Override(@, vs)]
             /\ ent' = [ent EXCEPT !.vt[s][k] = vs[1].ty]
             /\ size' = size + KeyLen(k)
             /\ Step(t, FinKey([th[t] EXCEPT !.stored = @ \cup {k}]))
  /\ UNCHANGED <<hotId, snapshotSize, snapObjSize, snapshotting, lost, strayed>>

\* ---- Snapshot(): one critical section under c.mu, but the counters are atomics that writers update without c.mu:
\*      (1) swap the stores, snapshotSize := Size()   (2) reset the new hot store, size := 0.
\*      An increaseSize/decreaseSize of a write in flight that falls between (1) and (2) is wiped out by `size := 0`.
\*      While a thread is between (1) and (2) it holds c.mu: steps that take c.mu (capture of c.store, DeleteRange, the entry
\*      lookup of Values, the second half of ClearSnapshot, another Snapshot) wait.
SSnapOn(t, r) ==
  /\ r.pc = "s_snap" /\ ~SnapLocked
  /\ IF snapshotting
     THEN /\ Step(t, Done([r EXCEPT !.err = "inprogress"]))
          /\ Rest0
     ELSE /\ snapshotting' = TRUE
          /\ IF snapObjSize # 0
             THEN \* a prior snapshot failed: hand it out again, nothing moves
                  /\ Step(t, Done([r EXCEPT !.err = "ok"]))
                  /\ UNCHANGED <<ring, hotId, size, snapshotSize, snapObjSize, amap, lost, strayed, ent>>
             ELSE \* swap stores; everything accounted so far moves to snapshotSize
                  /\ Step(t, [r EXCEPT !.pc = "s_zero"])
                  /\ hotId' = snapId
                  /\ snapshotSize' = size + snapshotSize
                  /\ snapObjSize' = size + snapshotSize
                  /\ lost' = [hot |-> 0, snap |-> lost.hot + lost.snap]
                  /\ strayed' = (strayed \/ MidWrite)
                  /\ UNCHANGED <<ring, size, amap, ent>>
SZero(t) ==
  /\ th[t].pc = "s_zero"
  /\ ring' = [ring EXCEPT ![hotId] = Store0]
  /\ amap' = [amap EXCEPT ![hotId] = AMap0]
  /\ size' = 0
  /\ ent' = DropAll(ent, hotId, Keys)
  /\ Step(t, Done([th[t] EXCEPT !.err = "ok"]))
  /\ UNCHANGED <<hotId, snapshotSize, snapObjSize, snapshotting, lost, strayed>>

\* ---- ClearSnapshot(success): reset of the snapshot store outside c.mu, then the critical section
\* snapStore.reset() runs outside c.mu and resets the 16 partitions one after the other: a reader can see one key gone and
\* another still there, so the reset is one step per key, in any order (the partition of a key is not known to the spec)
CResetOn(t, r) ==
  /\ r.pc = "c_reset" /\ ~SnapLocked
  /\ IF r.succ THEN Step(t, [r EXCEPT !.pc = "c_resetting", !.todo = Keys])
               ELSE Step(t, [r EXCEPT !.pc = "c_finish"])
  /\ Rest0
CResetKey(t, k) ==
  /\ th[t].pc = "c_resetting" /\ k \in th[t].todo
  /\ ring' = [ring EXCEPT ![snapId][k] = <<>>]
  /\ amap' = [amap EXCEPT ![snapId][k] = [x \in Times |-> NoVal]]
  /\ ent' = DropEntry(ent, snapId, k)
  /\ Step(t, [th[t] EXCEPT !.todo = @ \ {k}, !.pc = IF th[t].todo = {k} THEN "c_finish" ELSE "c_resetting"])
  /\ UNCHANGED <<hotId, size, snapshotSize, snapObjSize, snapshotting, lost, strayed>>
CFinish(t) ==
  /\ th[t].pc = "c_finish" /\ ~SnapLocked
  /\ Step(t, Done([th[t] EXCEPT !.err = "ok"]))
  /\ snapshotting' = FALSE
  /\ IF th[t].succ
     THEN /\ snapObjSize' = 0 /\ snapshotSize' = 0 /\ lost' = [lost EXCEPT !.snap = 0]
     ELSE UNCHANGED <<snapObjSize, snapshotSize, lost>>
  /\ UNCHANGED <<ring, hotId, size, amap, strayed, ent>>

\* ---- DeleteRange(ks, lo, hi) / Delete(ks) (full = the MinInt64..MaxInt64 fast path): hot store only, c.mu held throughout;
\*      per key (in slice order = key order): e := entry(k), origSize := e.size() / e.filter(lo, hi) / count = 0 ? remove and
\*      give back origSize + len(k) : give back origSize - e.size().  The fast path skips the filter and removes.
MinKey(S) == CHOOSE k \in S : \A j \in S : KeyIdx(k) <= KeyIdx(j)
DDeleteOn(t, r) ==
  /\ r.pc = "d_del" /\ ~SnapLocked
  /\ Step(t, [r EXCEPT !.pc = "d_next", !.todo = r.ks])
  /\ Rest0
DNext(t) ==
  /\ th[t].pc = "d_next"
  /\ IF th[t].todo = {}
     THEN Step(t, Done([th[t] EXCEPT !.err = "ok"]))
     ELSE LET k == MinKey(th[t].todo)
          IN IF ~Present(hotId, k)
             THEN Step(t, [th[t] EXCEPT !.todo = @ \ {k}])
             ELSE Step(t, [th[t] EXCEPT !.k = k, !.seen = Bytes(ring[hotId][k]), !.pc = IF th[t].full THEN "d_check" ELSE "d_filter"])
  /\ Rest0
DFilter(t) ==
  /\ th[t].pc = "d_filter"
  /\ LET k == th[t].k IN
     /\ ring' = [ring EXCEPT ![hotId][k] = Exclude(Dedup(@), th[t].lo, th[t].hi)]
     /\ amap' = [amap EXCEPT ![hotId][k] = [x \in Times |-> IF x >= th[t].lo /\ x <= th[t].hi THEN NoVal ELSE @[x]]]
  /\ Step(t, [th[t] EXCEPT !.pc = "d_check"])
  /\ UNCHANGED <<hotId, size, snapshotSize, snapObjSize, snapshotting, lost, strayed, ent>>
DCheck(t) ==
  /\ th[t].pc = "d_check"
  /\ LET k == th[t].k
         e == ring[hotId][k]
     IN IF th[t].full \/ e = <<>>
        THEN /\ ring' = [ring EXCEPT ![hotId][k] = <<>>]
             /\ amap' = [amap EXCEPT ![hotId][k] = [x \in Times |-> NoVal]]
             /\ ent' = DropEntry(ent, hotId, k)
             /\ size' = size - (th[t].seen + KeyLen(k))
        ELSE /\ size' = size - (th[t].seen - Bytes(e))
             /\ UNCHANGED <<ring, amap, ent>>
  /\ Step(t, [th[t] EXCEPT !.pc = "d_next", !.todo = @ \ {th[t].k}, !.k = ""])
  /\ UNCHANGED <<hotId, snapshotSize, snapObjSize, snapshotting, lost, strayed>>

\* ---- Values(k): (1) entry.deduplicate() of the hot and the snapshot entry in place -- no size refund: `lost` --
\*      (2) copy both under their read locks, merge, de-duplicate the copy
RDedupOn(t, r) ==
  /\ r.pc = "r_dedup" /\ ~SnapLocked
  /\ LET k == r.k
         h == ring[hotId][k]
         s == ring[snapId][k]
     IN /\ ring' = [ring EXCEPT ![hotId][k] = Dedup(h), ![snapId][k] = Dedup(s)]
        /\ lost' = [hot |-> lost.hot + Bytes(h) - Bytes(Dedup(h)), snap |-> lost.snap + Bytes(s) - Bytes(Dedup(s))]
  /\ Step(t, [r EXCEPT !.pc = "r_copy"])
  /\ UNCHANGED <<hotId, size, snapshotSize, snapObjSize, snapshotting, amap, strayed, ent>>
RCopy(t) ==
  /\ th[t].pc = "r_copy"
  /\ Step(t, Done([th[t] EXCEPT !.err = "ok", !.vals = Pairs(ImplRead(th[t].k))]))
  /\ Rest0

\* ---- Size(): atomic.Load(size) + atomic.Load(snapshotSize)
ZLoad1On(t, r) ==
  /\ r.pc = "z_load1"
  /\ Step(t, [r EXCEPT !.pc = "z_load2", !.seen = size])
  /\ Rest0
ZLoad2On(t, r) ==
  /\ r.pc = "z_load2"
  /\ Step(t, Done([r EXCEPT !.err = "ok", !.n = (IF SplitLoads THEN r.seen ELSE size) + snapshotSize]))
  /\ Rest0

\* first shared step of an operation whose thread record is r
FirstOn(t, r) == \/ WLoad1On(t, r) \/ WCheckOn(t, r) \/ SSnapOn(t, r) \/ CResetOn(t, r) \/ DDeleteOn(t, r) \/ RDedupOn(t, r)
                 \/ ZLoad1On(t, r) \/ ZLoad2On(t, r)
WLoad1(t) == WLoad1On(t, th[t])
WCheck(t) == WCheckOn(t, th[t])
SSnap(t) == SSnapOn(t, th[t])
CReset(t) == CResetOn(t, th[t])
DDelete(t) == DDeleteOn(t, th[t])
RDedup(t) == RDedupOn(t, th[t])
ZLoad1(t) == ZLoad1On(t, th[t])
ZLoad2(t) == ZLoad2On(t, th[t])

\* Start(t, r): the call is made (r = New...(args)).  With Fused the thread-local Start is merged with the first shared step.
Start(t, r) == /\ CanStart(t)
               /\ IF Fused THEN FirstOn(t, r) ELSE (Step(t, r) /\ Rest0)

\* any internal step of thread t (used as the linearization steps of TraceCache)
Internal(t) == \/ WLoad1(t) \/ WCheck(t) \/ WCapture(t) \/ WReserve(t) \/ (\E k \in Keys : WLookup(t, k)) \/ WAdd(t) \/ WSlow(t)
               \/ SSnap(t) \/ SZero(t) \/ CReset(t) \/ (\E k \in Keys : CResetKey(t, k)) \/ CFinish(t) \/ DDelete(t) \/ DNext(t) \/ DFilter(t) \/ DCheck(t) \/ RDedup(t) \/ RCopy(t) \/ ZLoad1(t) \/ ZLoad2(t)
Return(t) ==
  /\ th[t].pc = "done"
  /\ Step(t, Idle)
  /\ Rest0

CoreInit ==
  /\ ring = [s \in {1, 2} |-> Store0] /\ hotId = 1
  /\ size = 0 /\ snapshotSize = 0 /\ snapObjSize = 0 /\ snapshotting = FALSE
  /\ th = [t \in Threads |-> Idle]
  /\ amap = [s \in {1, 2} |-> AMap0]
  /\ lost = [hot |-> 0, snap |-> 0] /\ strayed = FALSE
  /\ ent = Ent0

\* ------------------------------------------------------------------ model checking / history generation
HotKeys == {k \in Keys : ring[hotId][k] # <<>>}
Obs == [size  |-> Accounted,                       \* contract: what Size() must report
        isize |-> Reported,                        \* what this model of the code's counters reports
        lost  |-> lost.hot + lost.snap,            \* part of (isize - size) explained by reader dedup (F8)
        keys  |-> HotKeys,
        snapkeys |-> {k \in Keys : ring[snapId][k] # <<>>},
        vals  |-> [k \in Keys |-> Pairs(ImplRead(k))]]

Shapes1 == {<< <<a, y>> >> : a \in Times, y \in Types}
Shapes2 == UNION { { << <<1, y>>, <<0, y>> >>, << <<0, y>>, <<0, y>> >>, << <<0, y>>, <<1, y>> >> } : y \in Types }
             \cup (IF Cardinality(Types) > 1
                   THEN LET y1 == CHOOSE y \in Types : TRUE
                            y2 == CHOOSE y \in Types : y # y1
                        IN { << <<0, y1>>, <<1, y2>> >> }
                   ELSE {})
Shapes == IF Rich THEN Shapes1 \cup Shapes2 ELSE Shapes1
MkVals(sh, base) == [i \in 1..Len(sh) |-> [ts |-> sh[i][1], ty |-> sh[i][2], id |-> base + i]]
ShapeOK(k, sh) == k \in BKeys \/ \A i \in 1..Len(sh) : sh[i][2] = "n"
\* constant-level (evaluated once): every batch shape = function from a non-empty key set to value-list shapes
BatchShapes == UNION { {g \in [ks -> Shapes] : \A k \in ks : ShapeOK(k, g[k])} : ks \in (SUBSET Keys) \ {{}} }
Materialize(g, base) == [k \in DOMAIN g |-> MkVals(g[k], base + 2 * KeyIdx(k))]
Ranges == {<<lo, hi>> \in Times \X Times : lo <= hi}

Init == /\ CoreInit
        /\ cnt = [w |-> 0, s |-> 0, d |-> 0, r |-> 0, z |-> 0, ops |-> 0, pw |-> [t \in Writers |-> 0]]
        /\ nextId = 0 /\ hist = <<>>

Budget == cnt.ops < MaxOps
Bump(f) == cnt' = [cnt EXCEPT ![f] = @ + 1, !.ops = @ + 1]

\* (simulation picks uniformly among successor states, so argument choices are drawn instead of enumerated; two draws
\*  for writes keep them at about 40% of the operations)
Pick(S) == IF RandomPick THEN {RandomElement(S)} ELSE S
BatchChoices == IF RandomPick THEN {RandomElement(BatchShapes), RandomElement(BatchShapes)} ELSE BatchShapes
DelArgs == {<<r[1], r[2], FALSE>> : r \in Ranges} \cup {<<0, 0, TRUE>>}
DoStartWrite == \E t \in Writers : \E g \in BatchChoices :
                  /\ Budget /\ cnt.w < MaxWrites /\ cnt.pw[t] < PerWriter /\ Start(t, NewWrite(Materialize(g, nextId)))
                  /\ cnt' = [cnt EXCEPT !.w = @ + 1, !.ops = @ + 1, !.pw[t] = @ + 1]
                  /\ nextId' = nextId + 2 * Cardinality(Keys) /\ UNCHANGED hist
DoStartSnapshot == \E t \in Snappers : /\ Budget /\ cnt.s < MaxSnaps /\ Start(t, New("snapshot")) /\ Bump("s")
                                       /\ UNCHANGED <<nextId, hist>>
\* ClearSnapshot is only called by the holder of a successful Snapshot()
DoStartClear == \E t \in Snappers : \E ok \in Pick(BOOLEAN) :
                  /\ Budget /\ snapshotting /\ \A u \in Threads : th[u].op \notin {"clear", "snapshot"}
                  /\ Start(t, NewClear(ok)) /\ cnt' = [cnt EXCEPT !.ops = @ + 1] /\ UNCHANGED <<nextId, hist>>
DoStartDelete == \E t \in Deleters : \E ks \in Pick((SUBSET Keys) \ {{}}) : \E a \in Pick(DelArgs) :
                  /\ Budget /\ cnt.d < MaxDeletes
                  /\ Start(t, NewDelete(ks, a[1], a[2], a[3]))
                  /\ Bump("d") /\ UNCHANGED <<nextId, hist>>
DoStartRead == \E t \in Readers : \E k \in Pick(Keys) :
                  /\ Budget /\ cnt.r < MaxReads /\ Start(t, NewRead(k)) /\ Bump("r") /\ UNCHANGED <<nextId, hist>>
DoStartSize == \E t \in Readers : /\ Budget /\ cnt.z < MaxSizes /\ Start(t, New("size")) /\ Bump("z") /\ UNCHANGED <<nextId, hist>>
IWLoad1   == \E t \in Threads : WLoad1(t) /\ UNCHANGED aux
IWCheck   == \E t \in Threads : WCheck(t) /\ UNCHANGED aux
IWCapture == \E t \in Threads : WCapture(t) /\ UNCHANGED aux
IWReserve == \E t \in Threads : WReserve(t) /\ UNCHANGED aux
IWLookup  == \E t \in Threads : \E k \in Keys : WLookup(t, k) /\ UNCHANGED aux
IWAdd     == \E t \in Threads : WAdd(t) /\ UNCHANGED aux
IWSlow    == \E t \in Threads : WSlow(t) /\ UNCHANGED aux
ISSnap    == \E t \in Threads : SSnap(t) /\ UNCHANGED aux
ISZero    == \E t \in Threads : SZero(t) /\ UNCHANGED aux
ICReset   == \E t \in Threads : CReset(t) /\ UNCHANGED aux
ICResetK  == \E t \in Threads : \E k \in Keys : CResetKey(t, k) /\ UNCHANGED aux
ICFinish  == \E t \in Threads : CFinish(t) /\ UNCHANGED aux
IDDelete  == \E t \in Threads : DDelete(t) /\ UNCHANGED aux
IDNext    == \E t \in Threads : DNext(t) /\ UNCHANGED aux
IDFilter  == \E t \in Threads : DFilter(t) /\ UNCHANGED aux
IDCheck   == \E t \in Threads : DCheck(t) /\ UNCHANGED aux
IRDedup   == \E t \in Threads : RDedup(t) /\ UNCHANGED aux
IRCopy    == \E t \in Threads : RCopy(t) /\ UNCHANGED aux
IZLoad1   == \E t \in Threads : ZLoad1(t) /\ UNCHANGED aux
IZLoad2   == \E t \in Threads : ZLoad2(t) /\ UNCHANGED aux
\* the history entry is written when the operation returns; exp = observation of the state it leaves behind
DoReturn == \E t \in Threads :
              /\ Return(t)
              /\ hist' = IF Sequential
                         THEN Append(hist, [a |-> th[t].op, b |-> th[t].b, k |-> th[t].k, ks |-> th[t].ks, lo |-> th[t].lo,
                                            hi |-> th[t].hi, full |-> th[t].full, succ |-> th[t].succ,
                                            err |-> th[t].err, conf |-> th[t].conf, vals |-> th[t].vals, n |-> th[t].n,
                                            exp |-> Obs])
                         ELSE hist
              /\ UNCHANGED <<cnt, nextId>>

Next == \/ DoStartWrite \/ DoStartSnapshot \/ DoStartClear \/ DoStartDelete \/ DoStartRead \/ DoStartSize
        \/ IWLoad1 \/ IWCheck \/ IWCapture \/ IWReserve \/ IWLookup \/ IWAdd \/ IWSlow \/ ISSnap \/ ISZero \/ ICReset \/ ICResetK \/ ICFinish \/ IDDelete \/ IDNext \/ IDFilter \/ IDCheck
        \/ IRDedup \/ IRCopy \/ IZLoad1 \/ IZLoad2 \/ DoReturn
Spec == Init /\ [][Next]_vars

\* ------------------------------------------------------------------ properties checked by TLC
\* reading = de-duplicated union of snapshot and hot values, hot winning (for every key, in every reachable state)
ValuesContract == \A k \in Keys : ImplRead(k) = ContractRead(k)
\* no write between increaseSize and its last store.write, no ClearSnapshot between its two halves
Quiescent == \A t \in Threads : th[t].pc \notin {"w_store", "w_add", "w_slow", "s_zero", "c_resetting", "c_finish",
                                                   "d_next", "d_filter", "d_check"}
\* the counters equal the bytes actually held, up to the two named deviations
SizeAccounting == (Quiescent /\ ~strayed /\ ~ent.glitched) => Reported = Accounted + lost.hot + lost.snap
\* the map holds an entry exactly for the keys that have values (an empty entry exists only inside a DeleteRange)
PresenceOK == \A s \in {1, 2} : \A k \in Keys : (Present(s, k) = (ring[s][k] # <<>>)) \/ DelInProgress(s, k)
\* the strict contract of C09 (expected to FAIL on the model: leads F8 / stray write; used by the *_lead configs)
StrictSize == Quiescent => Reported = Accounted
StrictSizeNoStray == (Quiescent /\ ~strayed /\ ~ent.glitched) => Reported = Accounted
\* lead: the write/DeleteRange entry race alone breaks the strict contract
StrictSizeNoDedupNoStray == (Quiescent /\ ~strayed /\ lost.hot = 0 /\ lost.snap = 0) => Reported = Accounted
StrictSizeNoDedup == (Quiescent /\ ~ent.glitched /\ lost.hot = 0 /\ lost.snap = 0) => Reported = Accounted
NoStray == ~strayed
CountersNonNegative == (~strayed /\ ~ent.glitched) => (size >= 0 /\ snapshotSize >= 0)
\* every entry holds values of one type; no empty batch is ever stored
EntriesTyped == \A s \in {1, 2} : \A k \in Keys : \A i \in 1..Len(ring[s][k]) : ring[s][k][i].ty = ring[s][k][1].ty
\* a finished write: limit rejection stored nothing; otherwise every key was stored or (conflict) dropped alone
WriteOutcome == \A t \in Threads : (th[t].pc = "done" /\ th[t].op = "write") =>
                  IF th[t].err = "limit" THEN th[t].stored = {} /\ th[t].conf = {}
                  ELSE /\ th[t].stored \cup th[t].conf = DOMAIN th[t].b /\ th[t].stored \cap th[t].conf = {}
                       /\ (th[t].err = "conflict") = (th[t].conf # {})
\* the same two statements on the last step of a write (needed when Fused removes the "done" state)
WriteOutcomeStep ==
  [][\A t \in Threads : (th[t].pc \in {"w_add", "w_slow"} /\ th'[t].pc \in {"idle", "done"}) =>
        (th[t].todo = {th[t].k} /\ th[t].stored \cup th[t].conf \cup {th[t].k} = DOMAIN th[t].b)]_vars
LimitStep ==
  [][\A t \in Threads : (th[t].pc = "w_check" /\ th'[t].pc # "w_check") =>
        LET n == (IF SplitLoads THEN th[t].seen ELSE size) + snapshotSize + th[t].added
        IN (th'[t].pc = "w_capture") = (Limit = 0 \/ (n >= 0 /\ n <= Limit))]_vars
\* a write rejected by the limit changes neither store nor counters
RejectedStoresNothing ==
  [][\A t \in Threads : (th[t].pc = "w_check" /\ th'[t].pc \in {"done", "idle"}) =>
        (ring' = ring /\ size' = size /\ snapshotSize' = snapshotSize /\ amap' = amap)]_vars
\* a type conflict on k leaves every entry untouched and gives back exactly the bytes of that key's values
TypeConflictOneKey ==
  [][\A t \in Threads : (th[t].pc \in {"w_add", "w_slow"} /\ th'[t] # th[t]) =>
        LET k == th[t].k
            c == th[t].cap
            vs == th[t].b[k]
        IN /\ \A s \in {1, 2} : \A j \in Keys : (s # c \/ j # k) => ring'[s][j] = ring[s][j]     \* no other entry is touched
           /\ \/ ring' = ring /\ amap' = amap /\ size' = size - Bytes(vs)                        \* conflict: this key only, refunded
              \/ ring' = ring /\ amap' = amap /\ size' = size /\ ent'.glitched                    \* orphaned (named deviation)
              \/ ring'[c][k] = ring[c][k] \o vs /\ size' = size + (IF Present(c, k) THEN 0 ELSE KeyLen(k))]_vars
\* the limit test is check-then-reserve: the guarantee is relative to the size the write observed (two racing writes
\* may both pass and together exceed the limit -- allowed, the API cannot do better)
LimitAsObserved == \A t \in Threads : th[t].op = "write" =>
                     /\ (th[t].pc \in {"w_capture", "w_reserve", "w_store", "w_add", "w_slow"} \/ (th[t].pc = "done" /\ th[t].err # "limit"))
                          => (Limit = 0 \/ (th[t].n >= 0 /\ th[t].n <= Limit))
                     /\ (th[t].pc = "done" /\ th[t].err = "limit") => (Limit > 0 /\ (th[t].n > Limit \/ th[t].n < 0))

\* generation of sequential histories: two histories are merged only if they also agree on every result returned so far
ViewGen == <<ring, hotId, size, snapshotSize, snapObjSize, snapshotting, th, amap, lost, strayed, ent, cnt, nextId,
             [i \in DOMAIN hist |-> <<hist[i].a, hist[i].err, hist[i].n, hist[i].vals>>]>>
View == <<ring, hotId, size, snapshotSize, snapObjSize, snapshotting, th, amap, lost, strayed, ent, cnt, nextId>>
=============================================================================
