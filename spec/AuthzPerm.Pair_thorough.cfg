SPECIFICATION Spec
CONSTANTS
  Types = {"authorizations","buckets","dashboards","orgs","sources","tasks","telegrafs","users","variables","scrapers","secrets","labels","views","documents","notificationRules","notificationEndpoints","checks","dbrp","notebooks","annotations","remotes","replications","instance"}
  SetTypes = {"buckets","orgs","instance"}
  Ids = {0,1,2,3}
  Mode = "pair"
  MaxLen = 2
INVARIANTS OnlyIfNamed UnambiguousGrantsHold ReadNeverImpliesWrite ActionsNeverMix OrgScopedNeverCrossesOrgs TypeNeverCrosses EmptyGrantsNothing BoundsConsistent
CHECK_DEADLOCK FALSE
