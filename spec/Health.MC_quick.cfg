\* Concurrent model checking of the C33 contract: two request processes whose snapshot/eval/finish steps interleave with
\* registration, gate signalling, shard progress and health changes (VIEW hides hist and the operation counter).
SPECIFICATION Spec
CONSTANTS
  Gates = {"bolt", "engine"}
  Prog = {}
  HGen = {"aa", "zz"}
  HPulse = {}
  HShards = {}
  Reqs = {"r1", "r2"}
  MaxOps = 4
  MaxReq = 2
  PreReg = FALSE
  Atomic = FALSE
  Record = FALSE
INVARIANTS TypeOK C33_ReadyCode C33_HealthCode C33_Window C33_TrueAggregate
VIEW View
CHECK_DEADLOCK FALSE
