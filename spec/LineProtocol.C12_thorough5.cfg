INIT Init12
NEXT Next12
CONSTANTS
  MaxLen = 5
  NameLen = 0
  PairLen = 0
  LongLen = 0
  SecLen = 3
  ValLen = 4
  BatchLen = 3
INVARIANTS NoUnmodelled AcceptedPointsWellFormed BatchCompositional ClassTable
CHECK_DEADLOCK FALSE
