-------------------------------- MODULE IDs --------------------------------
(* C31. Two specifications in one module.                                                                   *)
(*                                                                                                          *)
(* SpecGen - the snowflake id generator (pkg/snowflake/gen.go Generator.Next, used by snowflake.IDGenerator):*)
(*   every caller runs the loop the code runs: read the clock; load the state; compute; CAS; on failure     *)
(*   retry, after MaxAttempts failures fall back to an atomic increment.  The clock may stall, advance or   *)
(*   step back.  Contract: ids handed out are non-zero and pairwise distinct (AllDistinct, NonZero); per    *)
(*   caller they increase.  H11: the fallback increment can carry the sequence into the machine bits and   *)
(*   alias another id; with AssumeNoFallbackOverflow the fallback is assumed not to hit a full sequence.   *)
(*   UseCAS = FALSE replaces the CAS by a plain store (the mutation the binding must catch).               *)
(*                                                                                                          *)
(* SpecCodec - kit/platform ID text codec over abstract strings: a string is a sequence of character       *)
(*   classes  Z '0' | D '1'..'9' | L 'a'..'f' | U 'A'..'F' | X anything else; abstract length L stands for  *)
(*   16 characters (L-1: 15, L+1: 17, 0: empty, other lengths: any other length).  Contract: exactly the    *)
(*   strings of length L over {Z,D,L} that are not all Z decode, and they encode back to themselves.       *)
EXTENDS IDsBase, Sequences, FiniteSets, TLC

CONSTANTS Callers, MaxClock, MaxBack, Machine, MaxAttempts, MaxCalls,
          UseCAS, AssumeNoFallbackOverflow,
          L, MaxLen

VARIABLES st, clock, back, pc, loc, ncalls, returned, dup, rets,    \* generator
          str, verdict                                              \* codec

gvars == <<st, clock, back, pc, loc, ncalls, returned, dup, rets>>
cvars == <<str, verdict>>
vars == <<gvars, cvars>>

RECURSIVE BitOr(_, _)
BitOr(a, b) == IF a = 0 THEN b ELSE IF b = 0 THEN a
               ELSE (IF a % 2 = 1 \/ b % 2 = 1 THEN 1 ELSE 0) + 2 * BitOr(a \div 2, b \div 2)
\* the id handed to the caller: state | machine
IdOf(s) == St(s.t, BitOr(s.m, Machine), s.s)
Zero == St(0, 0, 0)

\* ------------------------------------------------------------------ generator
GenInit == /\ st = Zero
           /\ clock \in 0..1
           /\ back = 0
           /\ pc = [c \in Callers |-> "idle"]
           /\ loc = [c \in Callers |-> [t |-> 0, cur |-> Zero, new |-> Zero, att |-> 0]]
           /\ ncalls = [c \in Callers |-> 0]
           /\ returned = {} /\ dup = FALSE
           /\ rets = [c \in Callers |-> <<>>]

Tick == clock < MaxClock /\ clock' = clock + 1 /\ UNCHANGED <<st, back, pc, loc, ncalls, returned, dup, rets, cvars>>
StepBack == clock > 0 /\ back < MaxBack /\ clock' = clock - 1 /\ back' = back + 1
            /\ UNCHANGED <<st, pc, loc, ncalls, returned, dup, rets, cvars>>

\* Next() is entered / an attempt starts: t := now()
ReadClock(c) == /\ pc[c] \in {"idle", "retry"}
                /\ pc[c] = "idle" => ncalls[c] < MaxCalls
                /\ loc' = [loc EXCEPT ![c].t = clock, ![c].att = IF pc[c] = "idle" THEN 0 ELSE @]
                /\ pc' = [pc EXCEPT ![c] = "load"]
                /\ UNCHANGED <<st, clock, back, ncalls, returned, dup, rets, cvars>>
\* current := atomic.LoadUint64(&g.state); compute the candidate
LoadState(c) == /\ pc[c] = "load"
                /\ loc' = [loc EXCEPT ![c].cur = st, ![c].new = Compute(st, loc[c].t)]
                /\ pc' = [pc EXCEPT ![c] = "cas"]
                /\ UNCHANGED <<st, clock, back, ncalls, returned, dup, rets, cvars>>
Return(c, s) == /\ returned' = returned \cup {IdOf(s)}
                /\ dup' = (dup \/ IdOf(s) \in returned)
                /\ rets' = [rets EXCEPT ![c] = Append(@, IdOf(s))]
                /\ ncalls' = [ncalls EXCEPT ![c] = @ + 1]
                /\ pc' = [pc EXCEPT ![c] = "idle"]
\* atomic.CompareAndSwapUint64(&g.state, current, state)
Cas(c) == /\ pc[c] = "cas"
          /\ IF (~UseCAS) \/ st = loc[c].cur
             THEN /\ st' = loc[c].new
                  /\ Return(c, loc[c].new)
                  /\ UNCHANGED <<loc>>
             ELSE /\ loc' = [loc EXCEPT ![c].att = @ + 1]
                  /\ pc' = [pc EXCEPT ![c] = IF loc[c].att + 1 >= MaxAttempts THEN "fallback" ELSE "retry"]
                  /\ UNCHANGED <<st, ncalls, returned, dup, rets>>
          /\ UNCHANGED <<clock, back, cvars>>
\* state = atomic.AddUint64(&g.state, 1)
Fallback(c) == /\ pc[c] = "fallback"
               /\ AssumeNoFallbackOverflow => st.s < SeqMax
               /\ st' = Inc(st)
               /\ Return(c, Inc(st))
               /\ UNCHANGED <<loc, clock, back, cvars>>

GenNext == \/ Tick \/ StepBack
           \/ \E c \in Callers : ReadClock(c) \/ LoadState(c) \/ Cas(c) \/ Fallback(c)

SpecGen == GenInit /\ str = <<>> /\ verdict = "n/a" /\ [][GenNext]_vars

AllDistinct == ~dup
NonZero == Zero \notin returned
\* the installed state only grows, so ids of one caller grow
PerCallerIncreasing == \A c \in Callers : \A i \in 1..(Len(rets[c]) - 1) : Less(rets[c][i], rets[c][i + 1])
StateMonotone == [][st' = st \/ Less(st, st')]_vars
\* every installed state is a legal successor (what TraceIDs checks on recorded ids)
SuccLegal == [][st' = st \/ LegalSucc(st, st')]_vars
GenView == <<st, clock, back, pc, loc, ncalls, returned, dup>>

\* ------------------------------------------------------------------ codec
CharClass == {"Z", "D", "L", "U", "X"}
Strings == UNION {[1..n -> CharClass] : n \in 0..MaxLen}
Canonical(s) == Len(s) = L /\ (\A i \in 1..L : s[i] \in {"Z", "D", "L"}) /\ (\E i \in 1..L : s[i] # "Z")
\* contract: ID.Decode / DecodeFromString / IDFromString accept exactly the canonical strings
DecodeVerdict(s) == IF Canonical(s) THEN "ok" ELSE "reject"
\* which error the code is expected to report (an implementation-layer projection, compared as DRIFT only)
ErrKind(s) == IF Len(s) # L THEN "length" ELSE IF Canonical(s) THEN "none" ELSE "invalid"

CodecInit == /\ str \in Strings
             /\ verdict = [decode |-> DecodeVerdict(str), err |-> ErrKind(str),
                           reencodesTo |-> IF Canonical(str) THEN str ELSE <<>>]
SpecCodec == CodecInit /\ GenInit /\ clock = 0 /\ [][UNCHANGED vars]_vars

\* SpecCodecPoint - strings of the real length (16): a few canonical shapes with ONE position replaced by every class.
\* The driver puts every byte value of that class at that position (byte-exhaustive single-position mutations).
PointL == 16
Bases == {[i \in 1..PointL |-> "D"],
          [i \in 1..PointL |-> IF i = PointL THEN "D" ELSE "Z"],
          [i \in 1..PointL |-> IF i = 1 THEN "L" ELSE "Z"],
          [i \in 1..PointL |-> IF i % 3 = 0 THEN "L" ELSE IF i % 3 = 1 THEN "D" ELSE "Z"]}
CanonicalN(s, n) == Len(s) = n /\ (\A i \in 1..n : s[i] \in {"Z", "D", "L"}) /\ (\E i \in 1..n : s[i] # "Z")
PointInit == \E b \in Bases, p \in 1..PointL, c \in CharClass :
               /\ str = [b EXCEPT ![p] = c]
               /\ verdict = [decode |-> IF CanonicalN([b EXCEPT ![p] = c], PointL) THEN "ok" ELSE "reject",
                             err |-> IF CanonicalN([b EXCEPT ![p] = c], PointL) THEN "none" ELSE "invalid",
                             reencodesTo |-> IF CanonicalN([b EXCEPT ![p] = c], PointL) THEN [b EXCEPT ![p] = c] ELSE <<>>,
                             pos |-> p]
SpecCodecPoint == PointInit /\ GenInit /\ clock = 0 /\ [][UNCHANGED vars]_vars
PointOK == /\ Len(str) = PointL
           /\ str[verdict.pos] \in {"U", "X"} => verdict.decode = "reject"

\* sanity of the model: accepted strings are fixed points of encode(decode(.)), nothing of another length is accepted
CodecOK == /\ verdict.decode = "ok" => verdict.reencodesTo = str /\ Len(str) = L
           /\ (\E i \in 1..Len(str) : str[i] \in {"U", "X"}) => verdict.decode = "reject"
=============================================================================
