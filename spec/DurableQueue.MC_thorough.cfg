SPECIFICATION Spec
CONSTANTS
  Lens = {1, 3, 12}
  MaxSeg = 24
  MaxSize = 60
  MaxOps = 10
  MaxTime = 2
  MaxAppends = 7
INVARIANTS TypeOK DeliveredIsAppendOrder CurrentIsOldestUnadvanced NoStall
PROPERTIES RejectedAppendChangesNothing PurgeKeepsYoung
VIEW View
CHECK_DEADLOCK FALSE
