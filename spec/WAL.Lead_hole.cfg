SPECIFICATION Spec
CONSTANTS
  Keys = {"k1", "k2"}
  Times = {1, 2, 3}
  SegSize = 4
  Menu <- MenuLead
  MaxOps = 4
  MaxEntries = 2
  MaxPending = 1
  HoleQuirk = TRUE
  Record = TRUE
INVARIANTS TypeOK ReplayEqualsAcked
CHECK_DEADLOCK FALSE
