SPECIFICATION Spec
CONSTANTS
  Ids = {"r1", "r2"}
  Lens = {100}
  MaxSizes = {20971520}
  SegMax = 10485760
  MaxBatches = 3
  MaxOps = 8
  Menu = {"init", "delete", "enq", "deliver", "track", "untrack", "closeall", "crash", "start"}
  Prefix <- PrefixTwoQueues
  Refusals = {}
  KickOnOpen = TRUE
  InitLeavesDir = TRUE
  Record = TRUE
INVARIANTS TypeOK PendingIsWant NoStrandedBatch
CHECK_DEADLOCK FALSE
