SPECIFICATION Spec
CONSTANTS
  Names = {"n1", "n2", "n3"}
  MaxOps = 10
  MaxOrgs = 3
  MaxUsers = 3
  MaxBkts = 3
  SysTargets = {"_tasks", "_monitoring"}
  WithRemove = TRUE
INVARIANTS TypeOK UniqueOrgNames UniqueUserNames UniqueBktNamesPerOrg LookupAgrees NoOrphans SystemBucketsIntact
VIEW View
CHECK_DEADLOCK FALSE
