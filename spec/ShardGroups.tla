---------------------------- MODULE ShardGroups ----------------------------
(* Shard groups of one retention policy: routing of writes (coordinator.PointsWriter.MapShards),         *)
(* creation (meta.Data.CreateShardGroup: truncate / clip against neighbours / clamp to the time domain), *)
(* persistence (ShardGroupInfo.marshal/unmarshal through meta.Client), retention enforcement             *)
(* (retention.Service.DeletionCheck: ExpiredShardGroups -> DeleteShardGroup -> TSDBStore.DeleteShard ->  *)
(* DropShard -> PruneShardGroups).                                        Properties C18 and C19.        *)
(*                                                                                                        *)
(* TIME.  TLC integers are 32 bit, the code's time is int64 nanoseconds.  The spec only ORDERS time:     *)
(* a time value is a position p = 4*tick + sub on a window of ticks placed by the replay driver around   *)
(* a symbolic anchor (Base).  One tick is a real duration U chosen by the driver (1h, 24h, 7d ...);      *)
(*    sub = 0 : the tick's grid instant            G + tick*U                                            *)
(*    sub = 1 :                                    G + tick*U + r       (r: offset of the anchor in its  *)
(*    sub = 2 :                                    G + tick*U + r + 1ns      tick, or a seeded jitter)   *)
(*    sub = 3 : the wall clock `now` (somewhere well inside the tick; only Now and Now - k*U live here)  *)
(* Adding k ticks to a position is +4k.  Base = "Min": position 4*AnchorTick+1 IS models.MinNanoTime,    *)
(* "Max": 4*AnchorTick+1 IS models.MaxNanoTime (and sub 2 is MaxNanoTime+1 = MaxInt64), "Epoch":         *)
(* 4*AnchorTick IS Unix 0, "Now": 4*AnchorTick+3 is time.Now() during the whole replay.                   *)
(* time.Time.Truncate(d) is relative to the absolute zero time, so where the d-grid falls inside the     *)
(* window is a fact of the calendar: the driver computes it and passes it as Ph2/Ph3/Ph5.                *)
(*                                                                                                        *)
(* Contract layer: obs (what the last operation reported), data (which accepted point went to which     *)
(* group) and the invariants at the end.  Implementation layer: everything else.                         *)
EXTENDS Integers, Sequences, FiniteSets, TLC

CONSTANTS Base,            \* "Min" | "Epoch" | "Max" | "Now"
          AnchorTick,
          Ph2, Ph3, Ph5,   \* Truncate(t, D ticks) = tick - ((tick + PhD) % D)
          D0, SGDs,        \* initial shard group duration (ticks); durations UpdateRetentionPolicy may switch to
          R0, Rets,        \* initial retention (ticks, 0 = infinite); retentions UpdateRetentionPolicy may switch to
          PointPos,        \* positions at which points are written
          TruncPos,        \* positions TruncateShardGroups may be called with
          QPos,            \* bounds of the time range queries the contract quantifies over
          QCodes,          \* set of 100*lo + hi: the queries whose results are recorded in hist for replay
          MaxBatch, MaxOps, MaxWrites, MaxTrunc,
          CheckEnabled,    \* retention service runs
          Record,          \* TRUE: keep the replay history in hist (generation configs); FALSE: hist stays empty
          ClampMin         \* TRUE: CreateShardGroup clamps the start at MinNanoTime (code as repaired for F18)

VARIABLES groups,   \* set of [id, start, end, trunc, del, sh]: meta data of the retention policy
          nextId,   \* MaxShardGroupID + 1 (= MaxShardID + 1: one shard per group)
          sgd, ret, \* current ShardGroupDuration / Duration of the policy (ticks)
          store,    \* shard ids present in the TSDB store ("on disk")
          data,     \* contract: set of [t, gid] -- accepted points and the group they were routed to
          obs,      \* contract: observation made by the last operation
          nops, nwrites, ntrunc,
          hist

vars == <<groups, nextId, sgd, ret, store, data, obs, nops, nwrites, ntrunc, hist>>

None == -9999
PosInf == 9000     \* where an int64 overflow lands (the other end of the time line)
NegInf == -9000

ASSUME Base \in {"Min", "Epoch", "Max", "Now"}
ASSUME Base # "Now" => (R0 = 0 /\ Rets = {} /\ ~CheckEnabled)

MinNanoPos == IF Base = "Min" THEN 4 * AnchorTick + 1 ELSE -1000
MaxNanoPos == IF Base = "Max" THEN 4 * AnchorTick + 1 ELSE 1000
ZeroPos    == IF Base = "Epoch" THEN 4 * AnchorTick ELSE -2000
Now        == 4 * AnchorTick + 3          \* meaningful for Base = "Now" only

Tick(p) == p \div 4
Phase(D) == CASE D = 2 -> Ph2 [] D = 3 -> Ph3 [] D = 5 -> Ph5
TruncTo(p, D) == 4 * (Tick(p) - ((Tick(p) + Phase(D)) % D))

SetMax(S) == CHOOSE x \in S : \A y \in S : y <= x
SetMin(S) == CHOOSE x \in S : \A y \in S : x <= y

Live(g)   == g.del = "no"
EffEnd(g) == IF g.trunc # None THEN g.trunc ELSE g.end
Contains(g, t) == g.start <= t /\ t < g.end                 \* ShardGroupInfo.Contains

\* RetentionPolicyInfo.ShardGroupByTimestamp
ByTimestamp(gs, t) == {g \in gs : Contains(g, t) /\ Live(g) /\ (g.trunc = None \/ t < g.trunc)}

\* Data.CreateShardGroup: bounds of the group created for timestamp t
NewBounds(gs, t, D) ==
  LET s0 == TruncTo(t, D)
      e0 == s0 + 4 * D
      e1 == IF e0 > MaxNanoPos THEN MaxNanoPos + 1 ELSE e0
      s1 == IF ClampMin /\ s0 < MinNanoPos THEN MinNanoPos ELSE s0
      lower == {EffEnd(g) : g \in {h \in gs : Live(h) /\ EffEnd(h) <= t /\ EffEnd(h) > s1}}
      upper == {g.start : g \in {h \in gs : Live(h) /\ h.start > t /\ h.start < e1}}
  IN [start |-> SetMax(lower \cup {s1}), end |-> SetMin(upper \cup {e1})]

\* ---- retention predicates
\* MapShards: min = now - Duration; p.Time().Before(min)
TooOld(t, r) == r > 0 /\ t < Now - 4 * r
\* RetentionPolicyInfo.ExpiredShardGroups: EndTime.Add(Duration).Before(now)
ExpiredImpl(g, r) == r > 0 /\ g.end + 4 * r < Now
\* C19 as stated: "the group's entire time range is older than now minus the retention period"
ExpiredContract(g, r) == r > 0 /\ \A p \in g.start..(g.end - 1) : p < Now - 4 * r

\* ---- MapShards, one request.  st = [gs, nid, list]; list = ids of the sgList of this request.
\* sgList.Covers / ShardGroupAt look at [StartTime, EndTime) only (not at TruncatedAt).
ListCovers(gs, list, t) == \E g \in gs : g.id \in list /\ Contains(g, t)
MapStep(st, t, D, r) ==
  IF TooOld(t, r) \/ ListCovers(st.gs, st.list, t) THEN st
  ELSE LET ex == ByTimestamp(st.gs, t)
       IN IF ex # {} THEN [st EXCEPT !.list = @ \cup {g.id : g \in ex}]
          ELSE LET b == NewBounds(st.gs, t, D)
                   g == [id |-> st.nid, start |-> b.start, end |-> b.end, trunc |-> None, del |-> "no", sh |-> TRUE]
               IN [gs |-> st.gs \cup {g}, nid |-> st.nid + 1, list |-> st.list \cup {st.nid}]
RECURSIVE MapAll(_, _, _, _)
MapAll(st, ts, D, r) == IF ts = <<>> THEN st ELSE MapAll(MapStep(st, Head(ts), D, r), Tail(ts), D, r)

\* Where the request writes point t.  DELIBERATE DEVIATION (finding F19): the code's second loop maps a point that is
\* too old whenever a group fetched for a sibling point of the same request covers it; the spec follows the property
\* (too old => dropped and counted).
Routes(st, t, r) == IF TooOld(t, r) THEN {} ELSE {g.id : g \in {h \in st.gs : h.id \in st.list /\ Contains(h, t)}}

\* ---- marshal / unmarshal of one time field (MarshalTime = UnixNano, wraps outside int64)
Representable(p) == p >= MinNanoPos /\ p <= MaxNanoPos + 1
RT(p) == IF Representable(p) THEN p ELSE IF p < MinNanoPos THEN PosInf ELSE NegInf   \* Start/End: 0 is special-cased
RTtrunc(p) == IF p = None \/ p = ZeroPos THEN None ELSE RT(p)                        \* TruncatedAt: 0 means "not set"
ReloadG(g) == [g EXCEPT !.start = RT(g.start), !.end = RT(g.end), !.trunc = RTtrunc(g.trunc)]

\* ---- Client.ShardGroupsByTimeRange (ShardGroupInfo.Overlaps uses EndTime)
ByRange(gs, lo, hi) == {g.id : g \in {h \in gs : Live(h) /\ h.start <= hi /\ h.end > lo}}
RECURSIVE AscSeq(_)
AscSeq(S) == IF S = {} THEN <<>> ELSE LET m == SetMin(S) IN <<m>> \o AscSeq(S \ {m})
QPairs == LET cs == AscSeq(QCodes) IN [i \in 1..Len(cs) |-> <<cs[i] \div 100, cs[i] % 100>>]   \* ascending by code
QRes(gs) == [i \in 1..Len(QPairs) |-> ByRange(gs, QPairs[i][1], QPairs[i][2])]

\* what replay compares after every step (kept terse: the dump is parsed by the check):
\*   g = groups as <<id, start, end, trunc, deleted>>, s = shard ids in the store, q = results of QPairs
Proj(gs) == {<<g.id, g.start, g.end, g.trunc, IF Live(g) THEN 0 ELSE 1>> : g \in gs}
Common(gs, st) == [g |-> Proj(gs), s |-> st, q |-> QRes(gs)]

Log(rec) == nops' = nops + 1 /\ hist' = IF Record THEN Append(hist, rec) ELSE hist

Init == /\ groups = {} /\ nextId = 1 /\ sgd = D0 /\ ret = R0 /\ store = {} /\ data = {}
        /\ obs = [a |-> "init"] /\ nops = 0 /\ nwrites = 0 /\ ntrunc = 0 /\ hist = <<>>

Batches == UNION {[1..n -> PointPos] : n \in 1..MaxBatch}

\* PointsWriter.WritePointsPrivileged: MapShards, then WriteToShard per mapped shard (creating it in the store on demand)
Write(ts) ==
  /\ nops < MaxOps /\ nwrites < MaxWrites
  /\ \A i, j \in 1..Len(ts) : i # j => ts[i] # ts[j]
  /\ LET st == MapAll([gs |-> groups, nid |-> nextId, list |-> {}], ts, sgd, ret)
         routes == [i \in 1..Len(ts) |-> Routes(st, ts[i], ret)]
         dropped == Cardinality({i \in 1..Len(ts) : routes[i] = {}})
         store1 == store \cup UNION {routes[i] : i \in 1..Len(ts)}
         o == [a |-> "write", ts |-> ts, routes |-> routes, dropped |-> dropped, ret |-> ret]
     IN /\ groups' = st.gs /\ nextId' = st.nid
        /\ store' = store1
        \* the driver writes each point to one of the allowed groups; the model records the least id
        /\ data' = data \cup {[t |-> ts[i], gid |-> SetMin(routes[i])] : i \in {j \in 1..Len(ts) : routes[j] # {}}}
        /\ obs' = o
        /\ Log([a |-> "write", ts |-> ts, exp |-> [routes |-> routes, dropped |-> dropped] @@ Common(st.gs, store1)])
        /\ nwrites' = nwrites + 1
        /\ UNCHANGED <<sgd, ret, ntrunc>>

\* meta.Client closed and re-opened on the same store: every group goes through marshal + unmarshal
Reload ==
  /\ nops < MaxOps
  /\ obs.a # "reload"
  /\ LET gs == {ReloadG(g) : g \in groups}
     IN /\ groups' = gs
        /\ obs' = [a |-> "reload", same |-> (gs = groups)]
        /\ Log([a |-> "reload", exp |-> Common(gs, store)])
  /\ UNCHANGED <<nextId, sgd, ret, store, data, nwrites, ntrunc>>

\* Client.UpdateRetentionPolicy(ShardGroupDuration)
SetSGD(D) ==
  /\ nops < MaxOps /\ D # sgd
  /\ (ret > 0 => ret >= D)                                 \* ErrIncompatibleDurations otherwise
  /\ sgd' = D
  /\ obs' = [a |-> "setsgd"]
  /\ Log([a |-> "setsgd", d |-> D, exp |-> Common(groups, store)])
  /\ UNCHANGED <<groups, nextId, ret, store, data, nwrites, ntrunc>>

\* Client.UpdateRetentionPolicy(Duration)
SetRet(R) ==
  /\ nops < MaxOps /\ R # ret
  /\ (R > 0 => R >= sgd)
  /\ ret' = R
  /\ obs' = [a |-> "setret"]
  /\ Log([a |-> "setret", r |-> R, exp |-> Common(groups, store)])
  /\ UNCHANGED <<groups, nextId, sgd, store, data, nwrites, ntrunc>>

\* Client.TruncateShardGroups(t)  (no caller in this tree; kept because CreateShardGroup honours TruncatedAt)
Truncate(t) ==
  /\ nops < MaxOps /\ ntrunc < MaxTrunc /\ groups # {}
  /\ LET tr(g) == IF ~(t < g.end) \/ ~Live(g) \/ (g.trunc # None /\ g.trunc < t) THEN g
                  ELSE [g EXCEPT !.trunc = IF t <= g.start THEN g.start ELSE t]
         gs == {tr(g) : g \in groups}
     IN /\ groups' = gs
        /\ Log([a |-> "truncate", t |-> t, exp |-> Common(gs, store)])
  /\ obs' = [a |-> "truncate"]
  /\ ntrunc' = ntrunc + 1
  /\ UNCHANGED <<nextId, sgd, ret, store, data, nwrites>>

\* retention.Service.DeletionCheck, one pass
RetentionCheck ==
  /\ CheckEnabled /\ nops < MaxOps
  /\ obs.a # "check"
  /\ LET expired  == {g \in groups : Live(g) /\ ExpiredImpl(g, ret)}
         should   == {g.id : g \in {h \in groups : Live(h) /\ ExpiredContract(h, ret)}}
         delIds   == {g.id : g \in {h \in groups : (~Live(h) \/ h \in expired) /\ h.sh}}
         toDelete == delIds \cap store                        \* TSDBStore.DeleteShard calls
         g1(g) == [g EXCEPT !.del = IF g \in expired THEN "recent" ELSE @,
                            !.sh  = IF g.id \in delIds THEN FALSE ELSE @]     \* DropShard, also for phantom shards
         gs1 == {g1(g) : g \in groups}
         gs2 == {g \in gs1 : ~(g.del = "old" /\ ~g.sh)}       \* PruneShardGroups
         store1 == store \ toDelete
         o == [a |-> "check", deleted |-> {g.id : g \in expired}, should |-> should, delShards |-> toDelete,
               notLive |-> {g.id : g \in {h \in gs1 : ~Live(h)}},
               lost |-> {d \in data : d.gid \in {g.id : g \in expired} /\ ~TooOld(d.t, ret)}]
     IN /\ groups' = gs2 /\ store' = store1
        /\ obs' = o
        /\ Log([a |-> "check",
                                 exp |-> [deleted |-> o.deleted, delShards |-> toDelete,
                                          pruned |-> {g.id : g \in gs1 \ gs2}] @@ Common(gs2, store1)])
  /\ UNCHANGED <<nextId, sgd, ret, data, nwrites, ntrunc>>

\* two weeks pass for the deletion stamps (the driver rewrites DeletedAt through Client.SetData)
AgeDeleted ==
  /\ CheckEnabled /\ nops < MaxOps
  /\ \E g \in groups : g.del = "recent"
  /\ groups' = {[g EXCEPT !.del = IF @ = "recent" THEN "old" ELSE @] : g \in groups}
  /\ obs' = [a |-> "age"]
  /\ Log([a |-> "age", exp |-> Common(groups', store)])
  /\ UNCHANGED <<nextId, sgd, ret, store, data, nwrites, ntrunc>>

Next == \/ \E ts \in Batches : Write(ts)
        \/ Reload
        \/ \E D \in SGDs : SetSGD(D)
        \/ \E R \in Rets : SetRet(R)
        \/ \E t \in TruncPos : Truncate(t)
        \/ RetentionCheck
        \/ AgeDeleted

Spec == Init /\ [][Next]_vars

\* ------------------------------------------------------------------ contract
TypeOK == /\ \A g \in groups : g.id \in 1..(nextId - 1) /\ g.del \in {"no", "recent", "old"}
          /\ \A g, h \in groups : g.id = h.id => g = h
          /\ store \subseteq 1..(nextId - 1)

GroupOf(id) == CHOOSE g \in groups : g.id = id
HasGroup(id) == \E g \in groups : g.id = id

\* C18: each accepted point is routed to a group whose [start, end) contains it ...
C18_RoutedContains ==
  obs.a = "write" =>
     \A i \in 1..Len(obs.ts) :
        /\ (~TooOld(obs.ts[i], obs.ret)) => obs.routes[i] # {}
        /\ \A id \in obs.routes[i] : HasGroup(id) /\ Live(GroupOf(id)) /\ Contains(GroupOf(id), obs.ts[i])
\* ... and stays inside that group's bounds for as long as the group exists (in particular across reload)
C18_DataStaysContained == \A d \in data : HasGroup(d.gid) => Contains(GroupOf(d.gid), d.t)
\* live groups never overlap (a truncated group ends at TruncatedAt; an empty range overlaps nothing)
C18_Disjoint ==
  \A g, h \in groups : (g # h /\ Live(g) /\ Live(h) /\ g.start < EffEnd(g) /\ h.start < EffEnd(h))
                        => ~(g.start < EffEnd(h) /\ h.start < EffEnd(g))
C18_WellFormed == \A g \in groups : g.start < g.end /\ Representable(g.start) /\ Representable(g.end)
C18_ReloadIsIdentity == obs.a = "reload" => obs.same
\* time range queries find every live group holding data in the range
C18_QueriesFindData ==
  \A d \in data : (HasGroup(d.gid) /\ Live(GroupOf(d.gid))) =>
     \A lo \in QPos, hi \in QPos : (lo <= d.t /\ d.t <= hi) => d.gid \in ByRange(groups, lo, hi)

\* C19: rejected exactly when older than now - retention, with the dropped count
C19_RejectIff ==
  obs.a = "write" =>
     /\ \A i \in 1..Len(obs.ts) : (obs.routes[i] = {}) <=> TooOld(obs.ts[i], obs.ret)
     /\ obs.dropped = Cardinality({i \in 1..Len(obs.ts) : TooOld(obs.ts[i], obs.ret)})
\* a group is deleted exactly when its whole range is older than now - retention
C19_DeleteIff == obs.a = "check" => obs.deleted = obs.should
\* shards removed from disk are shards of deleted groups only; no other shard is touched
C19_OnlyDeletedShards ==
  /\ obs.a = "check" => obs.delShards \subseteq obs.notLive
  /\ \A g \in groups : (Live(g) /\ \E d \in data : d.gid = g.id) => g.id \in store
\* retention enforcement never removes a point that a write would still accept
C19_LiveDataKept == obs.a = "check" => obs.lost = {}

View == <<groups, nextId, sgd, ret, store, data, obs, nwrites, ntrunc>>   \* nops and hist hidden (BFS reaches a state first with the fewest operations)
=============================================================================
