---------------------------- MODULE TraceCache ----------------------------
(* Trace validation for C09: call/ret traces recorded from a real tsm1.Cache driven by free-running goroutines    *)
(* (harness/cmd/cache, mode `record`) are explained by Cache.tla.  A `call` line starts the operation (Start), the   *)
(* internal steps of Cache.tla are taken as linearization steps anywhere between call and ret, a `ret` line must      *)
(* carry exactly the result the model computed (error class, Values result, Size result).  Traces are concatenated;   *)
(* each ends with a quiescent `final` observation (Values of every key, then Size, Keys) and a `reset` line.          *)
(* Accepted iff the last line is reachable (high-water mark in TLC register 1, DESIGN A.3).                           *)
EXTENDS Cache, Json

VARIABLES l
tvars == <<ring, hotId, size, snapshotSize, snapObjSize, snapshotting, th, amap, lost, strayed, ent, cnt, nextId, hist, l>>

Trace == ndJsonDeserialize("trace.ndjson")
N == Len(Trace)
SetOf(q) == {q[i] : i \in 1..Len(q)}

TInit == /\ TLCSet(1, 0) /\ Init /\ l = 1

NewOf(ln) == CASE ln.op = "write"    -> NewWrite(ln.b)
               [] ln.op = "snapshot" -> New("snapshot")
               [] ln.op = "clear"    -> NewClear(ln.succ)
               [] ln.op = "delete"   -> NewDelete(SetOf(ln.ks), ln.lo, ln.hi, ln.full)
               [] ln.op = "values"   -> NewRead(ln.k)
               [] ln.op = "size"     -> New("size")

TCall == /\ l <= N /\ Trace[l].ev = "call"
         /\ Start(Trace[l].t, NewOf(Trace[l]))
         /\ l' = l + 1 /\ UNCHANGED aux
TLin  == /\ \E t \in Threads : Internal(t)
         /\ UNCHANGED <<aux, l>>
TRet  == /\ l <= N /\ Trace[l].ev = "ret"
         /\ LET t == Trace[l].t IN
            /\ th[t].pc = "done"
            /\ th[t].err = Trace[l].err
            /\ (th[t].op = "values" => th[t].vals = Trace[l].vals)
            /\ (th[t].op = "size" => th[t].n = Trace[l].n)
            /\ Return(t)
         /\ l' = l + 1 /\ UNCHANGED aux
\* quiescent end of a trace: the recorder read every key (de-duplicating every entry), then Size() and Keys()
DedupAll == [s \in {1, 2} |-> [k \in Keys |-> Dedup(ring[s][k])]]
LostIn(s) == SumOver(Keys, [k \in Keys |-> Bytes(ring[s][k]) - Bytes(Dedup(ring[s][k]))])
LostAll  == LostIn(1) + LostIn(2)
TFinal == /\ l <= N /\ Trace[l].ev = "final"
          /\ AllIdle
          /\ \A k \in Keys : Pairs(ImplRead(k)) = Trace[l].all[k]
          /\ Reported = Trace[l].n
          /\ HotKeys = SetOf(Trace[l].keys)
          /\ ring' = DedupAll
          /\ lost' = [hot |-> lost.hot + LostIn(hotId), snap |-> lost.snap + LostIn(snapId)]
          /\ LET acc == Accounted - LostAll      \* bytes of values and keys held after the final reads
                 lst == lost.hot + lost.snap + LostAll
             IN IF Reported = acc
                THEN PrintT(<<"@@EXACT", Trace[l].tr, strayed, ent.glitched>>)
                ELSE PrintT(<<"@@LEAK", Trace[l].tr, Reported - acc, lst, strayed, ent.glitched>>)
          /\ l' = l + 1
          /\ UNCHANGED <<hotId, size, snapshotSize, snapObjSize, snapshotting, th, amap, strayed, ent, cnt, nextId, hist>>
TReset == /\ l <= N /\ Trace[l].ev = "reset"
          /\ AllIdle
          /\ ring' = [s \in {1, 2} |-> Store0] /\ hotId' = 1
          /\ size' = 0 /\ snapshotSize' = 0 /\ snapObjSize' = 0 /\ snapshotting' = FALSE
          /\ amap' = [s \in {1, 2} |-> AMap0]
          /\ lost' = [hot |-> 0, snap |-> 0] /\ strayed' = FALSE /\ ent' = Ent0
          /\ l' = l + 1 /\ UNCHANGED <<th, cnt, nextId, hist>>

TNext == TCall \/ TLin \/ TRet \/ TFinal \/ TReset
TSpec == TInit /\ [][TNext]_tvars

Mark == TLCSet(1, IF TLCGet(1) < l THEN l ELSE TLCGet(1))
Accepted == IF TLCGet(1) = N + 1 THEN TRUE
            ELSE PrintT("@@HW " \o ToString(TLCGet(1)) \o " of " \o ToString(N)) /\ FALSE
=============================================================================
