SPECIFICATION Spec
CONSTANTS
  Variants = {"influxdb2-sha256", "influxdb2-sha512"}
  Secrets = {1, 2, 3}
INVARIANTS VerifiesExactlyOwn HashIsNotASecret
CHECK_DEADLOCK FALSE
