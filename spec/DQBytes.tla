---- MODULE DQBytes ----
\* Byte-level model of ONE durablequeue segment (pkg/durablequeue/queue.go): the file is a sequence of bytes;
\* segment.open() and segment.repair() are transcribed as operators over it; a crash persists any prefix of the
\* single in-place write an Append / Advance makes.  Contract (C26): after recovery the queue hands out
\* appended[i..j] with i <= nadv+1 and j >= Len(appended) (at-least-once, in order, nothing foreign).
EXTENDS Integers, Sequences, FiniteSets, TLC

CONSTANTS BodyVals,   \* byte values bodies are drawn from
          MaxBody,    \* max body length
          MaxAppends, \* max number of appends
          VerifyAll   \* TRUE: verifyBlockFn accepts everything

HUGE == 100000
NOPOS == -1

Enc(n) == <<0,0,0,0,0,0, n \div 256, n % 256>>
Sub(f, a, b) == IF a > b THEN <<>> ELSE SubSeq(f, a, b)   \* 1-based inclusive

\* read big-endian uint64 at byte offset off (0-based); -2 = read error
U64(f, off) ==
  IF off + 8 > Len(f) THEN -2
  ELSE IF \E i \in 1..6 : f[off+i] # 0 THEN HUGE
  ELSE f[off+7] * 256 + f[off+8]


VARIABLES file,      \* durable bytes
          pos,       \* volatile head position
          appended,  \* acked blocks, in order
          nadv,      \* number of acked advances
          inflight,  \* block being appended at crash time
          infl,      \* TRUE iff an append was in flight at the crash
          phase,     \* "run" | "crashed"
          crashK,    \* number of bytes of the in-flight write that reached the disk (-1: none in flight)
          obs        \* at a crash: what the transcribed open()/repair()/drain hand out ([ok, delivered])
vars == <<file, pos, appended, nadv, inflight, infl, phase, crashK, obs>>

\* ---------- repair() ----------
RECURSIVE Walk(_, _)
\* returns [off, trunc]
Walk(f, off) ==
  LET size == Len(f) IN
  IF off = size - 8 THEN [off |-> off, trunc |-> FALSE]
  ELSE LET rs == U64(f, off) IN
       IF rs = -2 THEN [off |-> off, trunc |-> TRUE]
       ELSE LET np == off + 8 + rs IN
            IF np > size - 8 THEN [off |-> off, trunc |-> TRUE]
            ELSE Walk(f, np)

Repair(f) ==
  LET w == Walk(f, 0) IN
  \* truncate (or not) at w.off, then write footer 0 at w.off
  Sub(f, 1, w.off) \o Enc(0)

\* ---------- open() ----------
Verify(block, ok) == VerifyAll \/ block \in ok

RECURSIVE Open(_, _, _)
\* returns [ok, file, pos]; fuel bounds recursion
Open(f, okset, fuel) ==
  LET size == Len(f) IN
  IF fuel = 0 THEN [ok |-> FALSE, file |-> f, pos |-> NOPOS, why |-> "fuel"]
  ELSE IF size = 0 THEN [ok |-> TRUE, file |-> Enc(0), pos |-> 0, why |-> "new"]
  ELSE IF size < 8 THEN [ok |-> FALSE, file |-> f, pos |-> NOPOS, why |-> "short"]
  ELSE
    LET p0 == U64(f, size - 8)
        f1 == IF p0 > size - 8 THEN Repair(f) ELSE f
        p1 == IF p0 > size - 8 THEN 0 ELSE p0
        s1 == Len(f1)
    IN IF p1 >= s1 - 8 THEN [ok |-> TRUE, file |-> f1, pos |-> p1, why |-> "end"]
       ELSE LET cs == U64(f1, p1) IN
            IF cs = -2 THEN [ok |-> FALSE, file |-> f1, pos |-> NOPOS, why |-> "readerr"]
            ELSE IF cs > s1 - 8 - p1 THEN Open(Repair(f1), okset, fuel - 1)
            ELSE IF p1 + 8 + cs > s1 THEN Open(Repair(f1), okset, fuel - 1)  \* readBytes short
            ELSE LET block == Sub(f1, p1 + 8 + 1, p1 + 8 + cs) IN
                 IF Verify(block, okset) THEN [ok |-> TRUE, file |-> f1, pos |-> p1, why |-> "ok"]
                 ELSE Open(Sub(f1, 1, p1) \o Enc(0), okset, fuel - 1)

\* ---------- reading everything from pos (current/advance loop) ----------
RECURSIVE Drain(_, _, _)
\* returns sequence of blocks, or <<"ERR">> appended marker on read error
Drain(f, p, fuel) ==
  LET size == Len(f) IN
  IF fuel = 0 THEN << <<"FUEL">> >>
  ELSE IF p = size - 8 THEN <<>>
  ELSE IF p > size - 8 THEN <<>>            \* advanceTo returns EOF
  ELSE LET sz == U64(f, p) IN
       IF sz = -2 \/ sz = HUGE THEN << <<"ERR">> >>
       ELSE IF p + 8 + sz > size THEN << <<"ERR">> >>
       ELSE << Sub(f, p + 8 + 1, p + 8 + sz) >> \o Drain(f, p + 8 + sz, fuel - 1)

SetOf(s) == { s[i] : i \in 1..Len(s) }
ObsOf(f, allb) == LET r == Open(f, SetOf(allb), 6) IN
                  [ok |-> r.ok, delivered |-> IF r.ok THEN Drain(r.file, r.pos, 12) ELSE <<>>]
BodiesUpTo(m) == UNION { [1..n -> BodyVals] : n \in 0..m }
Bodies == BodiesUpTo(IF Len(appended) = 0 THEN 1 ELSE MaxBody)
\* ---------- actions ----------
Init == /\ file = Enc(0) /\ pos = 0 /\ appended = <<>> /\ nadv = 0
        /\ inflight = <<>> /\ infl = FALSE /\ phase = "run"
        /\ crashK = -1 /\ obs = [ok |-> TRUE, delivered |-> <<>>]

AppendBytes(b) == Enc(Len(b)) \o b \o Enc(pos)

DoAppend(b) ==
  /\ phase = "run" /\ Len(appended) < MaxAppends
  /\ file' = Sub(file, 1, Len(file) - 8) \o AppendBytes(b)
  /\ appended' = Append(appended, b)
  /\ UNCHANGED <<pos, nadv, inflight, infl, phase, crashK, obs>>

\* crash after k bytes of the append's single write reached the disk (in-place overwrite of old footer)
CrashInAppend(b, k) ==
  /\ phase = "run" /\ Len(appended) < MaxAppends
  /\ LET w == AppendBytes(b)
         base == Len(file) - 8
         oldfoot == Sub(file, base + 1, Len(file))
         written == Sub(w, 1, k)
         tail == IF k < 8 THEN Sub(oldfoot, k + 1, 8) ELSE <<>>
     IN file' = Sub(file, 1, base) \o written \o tail
  /\ inflight' = b /\ infl' = TRUE
  /\ phase' = "crashed" /\ crashK' = k
  /\ obs' = ObsOf(file', Append(appended, b))
  /\ UNCHANGED <<pos, appended, nadv>>

Advance ==
  /\ phase = "run" /\ pos < Len(file) - 8
  /\ LET sz == U64(file, pos) IN
     /\ sz >= 0 /\ sz # HUGE
     /\ pos' = pos + 8 + sz
     /\ file' = Sub(file, 1, Len(file) - 8) \o Enc(pos + 8 + sz)
  /\ nadv' = nadv + 1
  /\ UNCHANGED <<appended, inflight, infl, phase, crashK, obs>>

CrashClean == /\ phase = "run" /\ phase' = "crashed" /\ obs' = ObsOf(file, appended)
              /\ UNCHANGED <<file, pos, appended, nadv, inflight, infl, crashK>>

\* crash while Advance overwrites the footer in place: k bytes of the new footer, rest old
CrashInAdvance(k) ==
  /\ phase = "run" /\ pos < Len(file) - 8
  /\ LET sz == U64(file, pos) IN
     /\ sz >= 0 /\ sz # HUGE
     /\ LET nf == Enc(pos + 8 + sz)
            base == Len(file) - 8
        IN file' = Sub(file, 1, base) \o Sub(nf, 1, k) \o Sub(file, base + k + 1, Len(file))
  /\ phase' = "crashed" /\ crashK' = k
  /\ obs' = ObsOf(file', appended)
  /\ UNCHANGED <<pos, appended, nadv, inflight, infl>>

Next == \/ \E b \in Bodies : DoAppend(b)
        \/ \E b \in Bodies : \E k \in 0..(Len(b) + 15) : CrashInAppend(b, k)
        \/ Advance
        \/ \E k \in 0..7 : CrashInAdvance(k)
        \/ CrashClean

Spec == Init /\ [][Next]_vars

\* ---------- contract, evaluated on crashed states ----------
All == IF ~infl THEN appended ELSE Append(appended, inflight)
OkSet == { All[i] : i \in 1..Len(All) }

Delivered == obs.delivered

OpenSucceeds == phase = "crashed" => obs.ok

\* delivered = All[i..j] with i <= nadv+1 (redelivery allowed) and j >= Len(appended) (acked not lost)
IsRun(d) == \E i \in 1..(nadv + 1) : \E j \in Len(appended)..Len(All) :
               d = Sub(All, i, j)
DeliveryOK == (phase = "crashed" /\ obs.ok) => IsRun(Delivered)
NoForeign == (phase = "crashed" /\ obs.ok) =>
               \A n \in 1..Len(Delivered) : Delivered[n] \in OkSet
====
