\* Thorough concurrent model checking of the C33 contract: adds the progress-reporting "shards" ready checker (three more state changes, a third name in every snapshot).
SPECIFICATION Spec
CONSTANTS
  Gates = {"bolt", "engine"}
  Prog = {"shards"}
  HGen = {"aa", "zz"}
  HPulse = {}
  HShards = {}
  Reqs = {"r1", "r2"}
  MaxOps = 4
  MaxReq = 2
  PreReg = FALSE
  Atomic = FALSE
  Record = FALSE
INVARIANTS TypeOK C33_ReadyCode C33_HealthCode C33_Window C33_TrueAggregate
VIEW View
CHECK_DEADLOCK FALSE
