\* C10 lead: deletions logged but a contradicting AddField still aborts ApplyChanges: crash between rename and log removal
SPECIFICATION Spec
CONSTANTS
  Mode = "hist"
  Meas = {"m1", "m2"}
  Fields = {"f1", "f2"}
  Writers = {1}
  MaxOps = 5
  MaxBatch = 1
  LogDeletes = TRUE
  ReplayOverwrites = FALSE
  PointSetName = "all"
  NoMaint = FALSE
  UseIds = FALSE
  SchemaNames = {}
  VKs = {}
INVARIANTS DropIsDurable
VIEW View
CHECK_DEADLOCK FALSE
