\* escape focus, two tags per series (splitting of consecutive escaped pairs); depth-1 predicates over the series' own strings
SPECIFICATION Spec
CONSTANTS
  MeasSet <- Heavy4
  KeySet <- Heavy4
  ValSet <- Heavy4
  TagCounts = {2}
  LeafMode = "series"
  Shape = "leaf"
  SkipName = TRUE
  PredKeys = {}
  PredVals = {}
INVARIANTS KeyRoundTrips ModelAgrees
CHECK_DEADLOCK FALSE
