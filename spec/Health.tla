------------------------------ MODULE Health ------------------------------
(* /ready and /health of influxd: kit/check.Check (registry + evaluate), kit/check.ReadyGate (latch),      *)
(* http.HealthReadyHandler (status code, body), cmd/influxd/run StartupProgressLogger ("shards" ready and   *)
(* health checkers) and SchedulerPulseCheck ("task-scheduler").                              Property C33. *)
(*                                                                                                          *)
(* Implementation layer: a request is NOT atomic.  Check.evaluate copies the checker list under the read   *)
(* lock (ReqStart), then calls every checker without the lock (one ReqEval per checker: a ReadyGate read  *)
(* is one atomic load), then sorts (fail before pass, then by name) and the handler renders (ReqFinish).   *)
(* Registration, gate signalling and health changes interleave freely with the steps of in-flight requests.*)
(* Statuses are pass/fail only (H9: evaluate would fold any other status, the handler tests only `fail`).  *)
(*                                                                                                          *)
(* Contract layer: last[r] = the response a request returned, together with what the property says about  *)
(* it (fields win / agg), and the invariants at the end.                                                   *)
EXTENDS Integers, Sequences, FiniteSets, TLC

CONSTANTS Gates,        \* names of check.ReadyGate latches registered for /ready
          Prog,         \* {} or {"shards"}: the progress-reporting ready checker (StartupProgressLogger.ReadyChecker)
          HGen,         \* generic health checks (status and message set by the subsystem)
          HPulse,       \* {} or {"task-scheduler"}: SchedulerPulseCheck
          HShards,      \* {} or {"shards"}: StartupProgressLogger.HealthChecker
          Reqs,         \* request processes
          MaxOps,       \* bound on completed operations (history length)
          MaxReq,       \* bound on requests
          PreReg,       \* TRUE: every checker is registered before the first step, in descending name order
          Atomic,       \* TRUE: a request runs to completion before anything else happens (sequential histories)
          Record        \* TRUE: keep hist

VARIABLES gate,    \* Gates -> "unsignalled" | "ready" | "unready"
          prog,    \* "waiting" | "loading" | "done" | "failed"
          hs,      \* health checker -> abstract state
          regR,    \* registered ready checkers, registration order
          regH,    \* registered health checkers, registration order
          req,     \* Reqs -> in-flight request
          last,    \* Reqs -> last response + contract verdicts
          nops, nreq,
          hist

vars == <<gate, prog, hs, regR, regH, req, last, nops, nreq, hist>>

ReadyNames  == Gates \cup Prog
HealthNames == HGen \cup HPulse \cup HShards

GenStates == {[st |-> "pass", msg |-> ""], [st |-> "fail", msg |-> ""], [st |-> "fail", msg |-> "mA"], [st |-> "fail", msg |-> "mB"]}
HStates(h) == IF h \in HGen THEN GenStates
              ELSE IF h \in HPulse THEN {[st |-> "pass", msg |-> "idle"], [st |-> "pass", msg |-> "next"], [st |-> "fail", msg |-> "stalled"]}
              ELSE {[st |-> "pass", msg |-> ""], [st |-> "fail", msg |-> "failed1"], [st |-> "fail", msg |-> "failed2"]}
HInit(h) == IF h \in HPulse THEN [st |-> "pass", msg |-> "idle"] ELSE [st |-> "pass", msg |-> ""]
\* transitions the real subsystems can make: shard load errors only accumulate
HTrans(h, a, b) == IF h \in HShards THEN (a.msg = "" /\ b.msg = "failed1") \/ (a.msg = "failed1" /\ b.msg = "failed2") ELSE a # b
ProgTrans(a, b) == \/ a = "waiting" /\ b \in {"loading", "done", "failed"}
                   \/ a = "loading" /\ b \in {"done", "failed"}

\* what Check() of a ready / health checker returns in the current state
RResp(n) == IF n \in Gates
            THEN IF gate[n] = "ready" THEN [name |-> n, st |-> "pass", msg |-> ""] ELSE [name |-> n, st |-> "fail", msg |-> "not ready"]
            ELSE CASE prog = "waiting" -> [name |-> n, st |-> "fail", msg |-> "waiting"]
                   [] prog = "loading" -> [name |-> n, st |-> "fail", msg |-> "loading"]
                   [] prog = "done"    -> [name |-> n, st |-> "pass", msg |-> "ready"]
                   [] prog = "failed"  -> [name |-> n, st |-> "fail", msg |-> "loadfailed"]
HResp(n) == [name |-> n, st |-> hs[n].st, msg |-> hs[n].msg]
Resp(k, n) == IF k = "ready" THEN RResp(n) ELSE HResp(n)

\* names are plain lower-case ASCII; TLC cannot compare strings, so the order of the names in use is spelled out
NameRank(n) == CASE n = "aa" -> 1 [] n = "bolt" -> 2 [] n = "engine" -> 3 [] n = "mm" -> 4 [] n = "query" -> 5
                 [] n = "shards" -> 6 [] n = "task-scheduler" -> 7 [] n = "zz" -> 8
RECURSIVE DescSeq(_)
DescSeq(S) == IF S = {} THEN <<>>
              ELSE LET m == CHOOSE x \in S : \A y \in S : NameRank(y) <= NameRank(x) IN <<m>> \o DescSeq(S \ {m})

\* sort.Sort(Responses): failing before passing ("fail" < "pass"), then by name
Less(a, b) == IF a.st = b.st THEN NameRank(a.name) < NameRank(b.name) ELSE a.st = "fail"
RECURSIVE SortRes(_)
SortRes(S) == IF S = {} THEN <<>>
              ELSE LET m == CHOOSE x \in S : \A y \in S \ {x} : Less(x, y) IN <<m>> \o SortRes(S \ {m})

\* firstFailureMessage
FirstFail(sorted) == IF sorted # <<>> /\ sorted[1].st = "fail"
                     THEN IF sorted[1].msg # "" THEN sorted[1].msg ELSE "fail"
                     ELSE "starting"

\* what the handler renders from the collected responses rs (a set of [name, st, msg])
Render(k, rs) ==
  LET sorted == SortRes(rs)
      anyFail == \E x \in rs : x.st = "fail"
  IN [code |-> IF anyFail THEN 503 ELSE 200,
      failing |-> {x.name : x \in {y \in rs : y.st = "fail"}},
      msg |-> IF k = "health" THEN (IF anyFail THEN FirstFail(sorted) ELSE "healthy") ELSE "",
      order |-> [j \in 1..Len(sorted) |-> sorted[j].name]]
\* the answers two requests made right now, with nothing else running, would get (recorded in hist for sequential replay)
ExpNow == [ready  |-> Render("ready",  {RResp(regR[j]) : j \in 1..Len(regR)}),
           health |-> Render("health", {HResp(regH[j]) : j \in 1..Len(regH)})]

\* <<ready code, ready failing, health code, health message, health failing>> (terse: the dump is parsed by the check)
TerseExp == <<ExpNow.ready.code, ExpNow.ready.failing, ExpNow.health.code, ExpNow.health.msg, ExpNow.health.failing>>

Idle == [k |-> "none"]
NoResp == [k |-> "none"]

Init == /\ gate = [g \in Gates |-> "unsignalled"]
        /\ prog = "waiting"
        /\ hs = [h \in HealthNames |-> HInit(h)]
        /\ regR = (IF PreReg THEN DescSeq(ReadyNames) ELSE <<>>)
        /\ regH = (IF PreReg THEN DescSeq(HealthNames) ELSE <<>>)
        /\ req = [r \in Reqs |-> Idle]
        /\ last = [r \in Reqs |-> NoResp]
        /\ nops = 0 /\ nreq = 0 /\ hist = <<>>

InFlight == {r \in Reqs : req[r].k # "none"}
Quiet == ~Atomic \/ InFlight = {}
\* Log must be the last conjunct of an action (ExpNow' reads the new state)
Log(rec) == nops' = nops + 1 /\ hist' = IF Record THEN Append(hist, rec @@ [exp |-> TerseExp']) ELSE hist
Range(s) == {s[i] : i \in 1..Len(s)}

\* a state change of checker n (kind k) while requests are in flight: they may or may not see it
Disturb(k, n, st) ==
  req' = [r \in Reqs |-> IF req[r].k = k
                         THEN [req[r] EXCEPT !.seen = @ \cup {<<n, st>>}, !.dist = TRUE]
                         ELSE req[r]]
DisturbReg(k) == req' = [r \in Reqs |-> IF req[r].k = k THEN [req[r] EXCEPT !.dist = TRUE] ELSE req[r]]

\* Check.AddNamedReadyCheck / AddNamedHealthCheck (write lock)
RegisterReady(n) ==
  /\ Quiet /\ nops < MaxOps /\ n \in ReadyNames /\ n \notin Range(regR)
  /\ regR' = Append(regR, n)
  /\ DisturbReg("ready")
  /\ UNCHANGED <<gate, prog, hs, regH, last, nreq>>
  /\ Log([a |-> "regready", n |-> n])
RegisterHealth(n) ==
  /\ Quiet /\ nops < MaxOps /\ n \in HealthNames /\ n \notin Range(regH)
  /\ regH' = Append(regH, n)
  /\ DisturbReg("health")
  /\ UNCHANGED <<gate, prog, hs, regR, last, nreq>>
  /\ Log([a |-> "reghealth", n |-> n])

\* ReadyGate.Ready / Unready: one atomic store
Signal(g) ==
  /\ Quiet /\ nops < MaxOps /\ gate[g] # "ready"
  /\ gate' = [gate EXCEPT ![g] = "ready"]
  /\ Disturb("ready", g, "pass")
  /\ UNCHANGED <<prog, hs, regR, regH, last, nreq>>
  /\ Log([a |-> "signal", n |-> g])
Unsignal(g) ==
  /\ Quiet /\ nops < MaxOps /\ gate[g] = "ready"
  /\ gate' = [gate EXCEPT ![g] = "unready"]
  /\ Disturb("ready", g, "fail")
  /\ UNCHANGED <<prog, hs, regR, regH, last, nreq>>
  /\ Log([a |-> "unsignal", n |-> g])
\* StartupProgressLogger: AddShard / CompletedShard / Finish(nil) / Finish(err)
Progress(p) ==
  /\ Quiet /\ nops < MaxOps /\ Prog # {} /\ ProgTrans(prog, p)
  /\ prog' = p
  /\ Disturb("ready", CHOOSE n \in Prog : TRUE, IF p = "done" THEN "pass" ELSE "fail")
  /\ UNCHANGED <<gate, hs, regR, regH, last, nreq>>
  /\ Log([a |-> "progress", p |-> p])
\* a subsystem's health changes
SetHealth(h, s) ==
  /\ Quiet /\ nops < MaxOps /\ s \in HStates(h) /\ HTrans(h, hs[h], s)
  /\ hs' = [hs EXCEPT ![h] = s]
  /\ Disturb("health", h, s.st)
  /\ UNCHANGED <<gate, prog, regR, regH, last, nreq>>
  /\ Log([a |-> "sethealth", n |-> h, st |-> s.st, msg |-> s.msg])

\* Check.evaluate, step 1: snapshot of the checker list under RLock
ReqStart(r, k) ==
  /\ Quiet /\ nops < MaxOps /\ nreq < MaxReq /\ req[r].k = "none"
  /\ LET snap == IF k = "ready" THEN regR ELSE regH
     IN req' = [req EXCEPT ![r] = [k |-> k, snap |-> snap, i |-> 1, res |-> <<>>,
                                   seen |-> {<<snap[j], Resp(k, snap[j]).st>> : j \in 1..Len(snap)}, dist |-> FALSE]]
  /\ nreq' = nreq + 1
  /\ UNCHANGED <<gate, prog, hs, regR, regH, last, nops, hist>>

\* step 2..n+1: one checker is called, lock free
ReqEval(r) ==
  /\ req[r].k # "none" /\ req[r].i <= Len(req[r].snap)
  /\ req' = [req EXCEPT ![r].res = Append(@, Resp(req[r].k, req[r].snap[req[r].i])), ![r].i = @ + 1]
  /\ UNCHANGED <<gate, prog, hs, regR, regH, last, nops, nreq, hist>>

\* the aggregate state the property talks about, as of now
AllReadyNow == \A j \in 1..Len(regR) : RResp(regR[j]).st = "pass"
NotReadyNow == {regR[j] : j \in {i \in 1..Len(regR) : RResp(regR[i]).st = "fail"}}
AllPassNow == \A j \in 1..Len(regH) : hs[regH[j]].st = "pass"

\* writeReady / writeHealth
ReqFinish(r) ==
  /\ req[r].k # "none" /\ req[r].i > Len(req[r].snap)
  /\ LET q == req[r]
         rs == Range(q.res)
         out == Render(q.k, rs)
         \* contract verdicts
         win == \A x \in rs : <<x.name, x.st>> \in q.seen
         agg == q.dist \/ (IF q.k = "ready"
                           THEN (out.code = 200 <=> AllReadyNow) /\ out.failing = NotReadyNow
                           ELSE (out.code = 200 <=> AllPassNow))
         resp == [k |-> q.k, code |-> out.code, failing |-> out.failing, msg |-> out.msg, order |-> out.order,
                  snap |-> q.snap, res |-> q.res, win |-> win, agg |-> agg]
     IN /\ last' = [last EXCEPT ![r] = resp]
        /\ req' = [req EXCEPT ![r] = Idle]
        /\ UNCHANGED <<gate, prog, hs, regR, regH, nreq>>
        /\ Log([a |-> q.k, code |-> out.code, failing |-> out.failing, msg |-> out.msg, order |-> out.order])

Next == \/ \E n \in ReadyNames : RegisterReady(n)
        \/ \E n \in HealthNames : RegisterHealth(n)
        \/ \E g \in Gates : Signal(g) \/ Unsignal(g)
        \/ \E p \in {"loading", "done", "failed"} : Progress(p)
        \/ \E h \in HealthNames : \E s \in HStates(h) : SetHealth(h, s)
        \/ \E r \in Reqs : \E k \in {"ready", "health"} : ReqStart(r, k)
        \/ \E r \in Reqs : ReqEval(r) \/ ReqFinish(r)

Spec == Init /\ [][Next]_vars

\* ------------------------------------------------------------------ contract (C33)
Responses == {last[r] : r \in {x \in Reqs : last[x].k # "none"}}

\* /ready: 200 exactly when every gate of the request's snapshot was found ready; the body lists exactly the others
C33_ReadyCode ==
  \A p \in {x \in Responses : x.k = "ready"} :
     /\ (p.code = 200) <=> (\A j \in 1..Len(p.res) : p.res[j].st = "pass")
     /\ p.code \in {200, 503}
     /\ p.failing = {p.res[j].name : j \in {i \in 1..Len(p.res) : p.res[i].st = "fail"}}
     /\ Len(p.res) = Len(p.snap)
\* /health: 200 exactly when every check passed; otherwise the message of the first failing check (fail/name order)
C33_HealthCode ==
  \A p \in {x \in Responses : x.k = "health"} :
     /\ (p.code = 200) <=> (\A j \in 1..Len(p.res) : p.res[j].st = "pass")
     /\ (p.code = 200) => p.msg = "healthy"
     /\ (p.code = 503) =>
           \E j \in 1..Len(p.res) :
              /\ p.res[j].st = "fail"
              /\ \A i \in 1..Len(p.res) : (p.res[i].st = "fail" /\ i # j) => NameRank(p.res[j].name) < NameRank(p.res[i].name)
              /\ p.msg = (IF p.res[j].msg = "" THEN "fail" ELSE p.res[j].msg)
\* under concurrency: every reported status is one the checker had between the request's start and its end
C33_Window == \A p \in Responses : p.win
\* with nothing changing during the request, the answer is the true aggregate state
C33_TrueAggregate == \A p \in Responses : p.agg

TypeOK == /\ \A g \in Gates : gate[g] \in {"unsignalled", "ready", "unready"}
          /\ Range(regR) \subseteq ReadyNames /\ Range(regH) \subseteq HealthNames

View == <<gate, prog, hs, regR, regH, req, last, nreq>>
=============================================================================
