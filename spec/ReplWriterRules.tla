---------------------------- MODULE ReplWriterRules ----------------------------
(* C27, writer half: replications/remotewrite/writer.go - what writer.Write(data, attempts) returns for each remote    *)
(* answer.  Constant module shared by Replication.tla (queue + run loop) and ReplWriterTable.tla (input table).        *)
(* Answers: "204"; "timeout" (client timeout, no response); "reset" (connection closed, no response); "429" without    *)
(* header, "429raN" with Retry-After: N, "429rax" unparsable header; "400"; "401"/"404" other 4xx; "500"; "503ra9"      *)
(* (5xx with a Retry-After header, which the writer ignores).                                                          *)
EXTENDS Integers
AllResps == {"204", "timeout", "reset", "429", "429ra0", "429ra1", "429ra7", "429rax", "400", "401", "404", "500", "503ra9"}

\* ------------------------------------------------------------------ writer.Write: status handling and backoff
RECURSIVE Pow2(_)
Pow2(n) == IF n = 0 THEN 1 ELSE 2 * Pow2(n - 1)
MaxAttempts  == 10
MaxBackoffMs == 900000                     \* 15 min
\* writer.backoff: 0.5 s * 2^(n-1)  =  250 ms * 2^n ; beyond maximumAttempts the maximum
Backoff(n) == IF n > MaxAttempts THEN MaxBackoffMs ELSE 250 * Pow2(n)
Status(r) == CASE r = "204" -> 204 [] r \in {"timeout", "reset"} -> 0
               [] r \in {"429", "429ra0", "429ra1", "429ra7", "429rax"} -> 429
               [] r = "400" -> 400 [] r = "401" -> 401 [] r = "404" -> 404 [] r = "500" -> 500 [] r = "503ra9" -> 503
\* the Retry-After header value: "" absent
RetryAfter(r) == CASE r = "429ra0" -> "0" [] r = "429ra1" -> "1" [] r = "429ra7" -> "7" [] r = "429rax" -> "soon"
                   [] r = "503ra9" -> "9" [] OTHER -> ""
\* waitTimeFromHeader: 0 = not set
HeaderWait(r) == LET h == RetryAfter(r) IN
                 CASE h = "" -> 0 [] h = "0" -> Backoff(1) [] h = "1" -> 1000 [] h = "7" -> 7000 [] h = "9" -> 9000
                   [] OTHER -> 0
\* transcription of writer.Write after PostWrite
WriteResult(r, n, drop) ==
  IF Status(r) = 204 THEN [ok |-> TRUE, acc |-> TRUE, drp |-> FALSE, wait |-> 0]
  ELSE IF Status(r) = 400 /\ drop THEN [ok |-> TRUE, acc |-> FALSE, drp |-> TRUE, wait |-> 0]
  ELSE LET hw == IF Status(r) = 429 THEN HeaderWait(r) ELSE 0
       IN [ok |-> FALSE, acc |-> FALSE, drp |-> FALSE, wait |-> IF hw # 0 THEN hw ELSE Backoff(n)]

\* contract form of the delay rule ("documented backoff and Retry-After rules")
ContractWait(r, n) ==
  IF r \in {"429ra1", "429ra7"} THEN (IF r = "429ra1" THEN 1 ELSE 7) * 1000         \* Retry-After seconds
  ELSE IF r = "429ra0" THEN 500                                                       \* "0" => minimal backoff
  ELSE IF n > 10 THEN 900000 ELSE 250 * (2 ^ n)                                       \* 0.5 s * 2^(attempts-1), capped after 10

=============================================================================
