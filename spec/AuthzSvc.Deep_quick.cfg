\* permission code = act*54 + type*9 + org*3 + id ; act: read=0 write=1 ; type: authorizations=0 buckets=1 orgs=2 users=3 tasks=4 instance=5
\* grants: {} | read buckets org1 (12) | write buckets org1 (66) | read bucket id1 (10) | read buckets org2 (15) | write instance (99) | read buckets type-wide (9) | read buckets org1 + read org 1 (12,19) | read+write buckets org1 (12,66) | read buckets org1 + write instance (12,99) | read bucket id1 + write buckets org1 (10,66)
\* AuthPairs: org*10+user
SPECIFICATION Spec
CONSTANTS
  CallerMode = "explicit"
  Callers = {{66,102,90},{99},{63,84,12},{57,85,9}}
  CallerActive = {TRUE, FALSE}
  Grants = {{}, {12}, {66}, {10}, {15}, {99}, {12,66}, {12,99}, {10,66}}
  AuthPairs = {11,21,12}
  MaxOps = 4
  StopAtFailure = FALSE
INVARIANTS NoEscalation ReadOnlyCallerNeverMutates InactiveCallerSeesNothing OrgIsolation
PROPERTIES DeniedChangesNothing
CHECK_DEADLOCK FALSE
