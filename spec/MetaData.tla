------------------------------ MODULE MetaData ------------------------------
(* Database and retention-policy meta data of v1/services/meta (Client + Data): CreateDatabase,              *)
(* CreateDatabaseWithRetentionPolicy, DropDatabase, CreateRetentionPolicy, UpdateRetentionPolicy,            *)
(* DropRetentionPolicy, CreateShardGroup (only as far as a policy owns shard groups), Reload.               *)
(*                                                                                                            *)
(* Implementation layer: the meta data as the code keeps it -- a SEQUENCE of databases, each with the name   *)
(* of its default policy and a SEQUENCE of policies; lookups take the first match, creation appends, drop    *)
(* removes the first match; every client call works on a clone and commits (Index + 1, snapshot to the kv    *)
(* store) or discards it.  Apply(ds, g, op) is the transition function; it is written in the order of the    *)
(* code's checks because the error class a caller sees is part of the observation.                           *)
(* Contract layer: OutcomeOK (outcome of one operation) and the invariants Inv_* below.                       *)
(*                                                                                                            *)
(* WHAT THE CODE DOES where the contract wants something else (quirk constants, TRUE = as the code):          *)
(*  - DropRetentionPolicy of the default policy removes the policy and KEEPS DefaultRetentionPolicy: the      *)
(*    default then names no policy (a lookup of the default finds nothing), and a policy created later under *)
(*    that name is the default again without makeDefault.                      (DropKeepsDefault, XM1)        *)
(*  - UpdateRetentionPolicy(rename of the default policy, makeDefault = FALSE) keeps the OLD name as default. *)
(*                                                                             (RenameKeepsDefault, XM2)      *)
(*  - shardGroupDuration puts exactly 180d into the 7d class (documented: <= 6 months -> 1d).                 *)
(*                                                                             (HalfYearIsLong, XM3)          *)
(*  - UpdateRetentionPolicy does not validate the new name: the empty name is stored, and the collision test  *)
(*    for it looks at the DEFAULT policy (DatabaseInfo.RetentionPolicy of the empty name).                    *)
(*                                                                             (RenameAcceptsEmpty, XM4)      *)
(* The model checking configurations set them FALSE and check the contract; lead configurations switch one  *)
(* on and must violate it; generation / simulation configurations set all TRUE and are replayed on the code.  *)
(* Further facts of the code modelled as they are (no contract issue): CreateDatabase of an existing database *)
(* returns it without committing. DropDatabase / DropRetentionPolicy of a missing object succeed AND commit.   *)
(* CreateRetentionPolicy identical to an existing policy succeeds (commits) unless makeDefault would change    *)
(* the default (conflict). An empty policy name in a RetentionPolicySpec means autogen. UpdateRetentionPolicy  *)
(* compares the new retention with the RAW new shard group duration, then stores the normalised one.          *)
(*                                                                                                            *)
(* DURATIONS are points on an ordered scale which the replay driver maps to real time.Duration values        *)
(* (interval points get seed-dependent values inside the interval):                                          *)
(*    0  zero (retention: infinite; shard group duration: "not given")                                       *)
(*    1  non-zero and below MinRetentionPolicyDuration (also negative values)                                *)
(*    2  1h = MinRetentionPolicyDuration      3  in (1h, 1d)        4  1d         5  in (1d, 2d)             *)
(*    6  2d                                   7  in (2d, 7d)        8  7d         9  in (7d, 180d)           *)
(*   10  180d ("6 months")                   11  longer than 180d                                            *)
(* 99 stands for a nil pointer (field not given; the cfg grammar has no negative numbers).                    *)
EXTENDS Integers, Sequences, FiniteSets, TLC

CONSTANTS DBs, RPs,                \* database names, policy names (strings); "autogen" is the code's default policy name
          WithEmptyDB,             \* CreateDatabase* may also be called with the empty name
          CDurs, CSGDs, CReps,     \* CreateRetentionPolicy: durations, shard group durations, replica counts
          XNames, XDurs, XSGDs, XReps,   \* CreateDatabaseWithRetentionPolicy: policy names ("" = not given), durations / replica counts (99 = nil)
          UNames, UDurs, USGDs,    \* UpdateRetentionPolicy: new names ("-" = nil, "" = the empty name), durations, shard group durations (99 = nil)
          UFull,                   \* TRUE: every combination of update fields; FALSE: rename alone or durations alone
          AutoCreate,              \* Config.RetentionAutoCreate
          MaxSG, MaxOps,
          Record,                  \* TRUE: the witness history is kept in hist (generation, simulation, leads)
          Probing,                 \* TRUE: generation of probe states
          NoOpSteps,               \* TRUE: operations that leave the meta data as it is are steps too (simulation)
          \* ---- quirks of the code (TRUE = as the code behaves, FALSE = as the contract wants it)
          DropKeepsDefault,        \* DropRetentionPolicy leaves DefaultRetentionPolicy naming the dropped policy
          RenameKeepsDefault,      \* UpdateRetentionPolicy(rename of the default policy, makeDefault = FALSE) leaves the old name as default
          HalfYearIsLong,          \* shardGroupDuration: exactly 180d defaults to 7d (documented rule: <= 6 months -> 1d)
          RenameAcceptsEmpty       \* UpdateRetentionPolicy renames a policy to "" (CreateRetentionPolicy never stores an empty name)

VARIABLES dbs,     \* Seq of [n, def, rps: Seq of [n, dur, sgd, rep, sg]]   (sg = ids of the policy's shard groups)
          nsg,     \* Data.MaxShardGroupID
          nops,
          hist,    \* witness history: Seq of [op, err, bump, dbs, nsg]
          leaf     \* <<>> in ordinary states; <<[op, err, bump, dbs, nsg]>> in a probe state (generation only)

vars == <<dbs, nsg, nops, hist, leaf>>

Hour == 2  Day == 4  TwoDays == 6  Week == 8  HalfYear == 10
MinDur == Hour
Nil == 99
NoName == "-"
Autogen == "autogen"

\* ---------------------------------------------------------------- duration rules
TooLow(d) == d # 0 /\ d < MinDur
\* the documented defaulting rule: < 2 days -> 1h, <= 6 months -> 1 day, longer or infinite -> 7 days
DocDefault(d) == IF d = 0 \/ d > HalfYear THEN Week ELSE IF d >= TwoDays THEN Day ELSE Hour
\* meta.shardGroupDuration
CodeDefault(d) == IF d = 0 \/ d >= HalfYear THEN Week ELSE IF d >= TwoDays THEN Day ELSE Hour
Default(d) == IF HalfYearIsLong THEN CodeDefault(d) ELSE DocDefault(d)
\* meta.NormalisedShardDuration(sgd, d)
Norm(s, d) == IF s = 0 THEN Default(d) ELSE IF s < MinDur THEN Default(MinDur) ELSE s
DocNorm(s, d) == IF s = 0 THEN DocDefault(d) ELSE IF s < MinDur THEN Hour ELSE s

\* ---------------------------------------------------------------- sequences with first-match lookup
Idx(seq, name) == IF \E i \in 1..Len(seq) : seq[i].n = name
                  THEN CHOOSE i \in 1..Len(seq) : seq[i].n = name /\ \A j \in 1..(i - 1) : seq[j].n # name
                  ELSE 0
RemoveAt(seq, i) == SubSeq(seq, 1, i - 1) \o SubSeq(seq, i + 1, Len(seq))

R(ds, g, err, bump) == [dbs |-> ds, nsg |-> g, err |-> err, bump |-> bump]

\* ---------------------------------------------------------------- Data.CreateRetentionPolicy(database, rpi, makeDefault)
\* returns [ds, err]; rp = [n, dur, sgd (raw), rep]
DataCreateRP(ds, db, rp, mk) ==
  IF rp.rep < 1 THEN [ds |-> ds, err |-> "replica"]
  ELSE LET s == Norm(rp.sgd, rp.dur)
           i == Idx(ds, db)
       IN IF rp.dur > 0 /\ rp.dur < s THEN [ds |-> ds, err |-> "incompatible"]
          ELSE IF i = 0 THEN [ds |-> ds, err |-> "dbnotfound"]
          ELSE LET j == Idx(ds[i].rps, rp.n)
               IN IF j # 0
                  THEN LET e == ds[i].rps[j]
                       IN IF e.rep # rp.rep \/ e.dur # rp.dur \/ e.sgd # s THEN [ds |-> ds, err |-> "exists"]
                          ELSE IF mk /\ ds[i].def # rp.n THEN [ds |-> ds, err |-> "conflict"]
                          ELSE [ds |-> ds, err |-> "ok"]
                  ELSE [ds |-> [ds EXCEPT ![i].rps = Append(@, [n |-> rp.n, dur |-> rp.dur, sgd |-> s, rep |-> rp.rep, sg |-> {}]),
                                          ![i].def = IF mk THEN rp.n ELSE @],
                        err |-> "ok"]

NewDB(name) == [n |-> name, def |-> "", rps |-> <<>>]

\* Client.CreateDatabase
DoCreateDB(ds, g, op) ==
  IF Idx(ds, op.db) # 0 THEN R(ds, g, "ok", FALSE)               \* exists: returned as is, nothing committed
  ELSE IF op.db = "" THEN R(ds, g, "namerequired", FALSE)
  ELSE LET ds1 == Append(ds, NewDB(op.db))
           r   == DataCreateRP(ds1, op.db, [n |-> Autogen, dur |-> 0, sgd |-> 0, rep |-> 1], TRUE)
       IN IF AutoCreate THEN R(r.ds, g, "ok", TRUE) ELSE R(ds1, g, "ok", TRUE)

\* RetentionPolicySpec.Matches(rpi)
Matches(op, e) == /\ (op.rp = "" \/ op.rp = e.n)
                  /\ (op.dur = Nil \/ op.dur = e.dur)
                  /\ (op.rep = Nil \/ op.rep = e.rep)
                  /\ Norm(op.sgd, e.dur) = e.sgd

\* Client.CreateDatabaseWithRetentionPolicy
DoCreateDBRP(ds, g, op) ==
  IF op.dur # Nil /\ TooLow(op.dur) THEN R(ds, g, "toolow", FALSE)
  ELSE IF Idx(ds, op.db) = 0 /\ op.db = "" THEN R(ds, g, "namerequired", FALSE)
  ELSE LET ds1 == IF Idx(ds, op.db) = 0 THEN Append(ds, NewDB(op.db)) ELSE ds
           i   == Idx(ds1, op.db)
           rpi == [n   |-> IF op.rp = "" THEN Autogen ELSE op.rp,
                   dur |-> IF op.dur = Nil THEN 0 ELSE op.dur,
                   sgd |-> op.sgd,
                   rep |-> IF op.rep = Nil THEN 1 ELSE op.rep]
       IN IF Len(ds1[i].rps) = 0
          THEN LET r == DataCreateRP(ds1, op.db, rpi, TRUE)
               IN IF r.err # "ok" THEN R(ds, g, r.err, FALSE) ELSE R(r.ds, g, "ok", TRUE)
          ELSE LET j == Idx(ds1[i].rps, rpi.n)
               IN IF j = 0 THEN R(ds, g, "conflict", FALSE)
                  ELSE IF ~Matches(op, ds1[i].rps[j]) THEN R(ds, g, "conflict", FALSE)
                  ELSE IF ds1[i].def # rpi.n THEN R(ds, g, "conflict", FALSE)
                  ELSE R(ds1, g, "ok", TRUE)

\* Client.DropDatabase (commits also when there is nothing to drop)
DoDropDB(ds, g, op) ==
  LET i == Idx(ds, op.db) IN R(IF i = 0 THEN ds ELSE RemoveAt(ds, i), g, "ok", TRUE)

\* Client.CreateRetentionPolicy
DoCreateRP(ds, g, op) ==
  IF TooLow(op.dur) THEN R(ds, g, "toolow", FALSE)
  ELSE LET r == DataCreateRP(ds, op.db, [n |-> op.rp, dur |-> op.dur, sgd |-> op.sgd, rep |-> op.rep], op.mk)
       IN IF r.err # "ok" THEN R(ds, g, r.err, FALSE) ELSE R(r.ds, g, "ok", TRUE)

\* Client.DropRetentionPolicy (no error for an unknown database or policy; commits in every case)
DoDropRP(ds, g, op) ==
  LET i == Idx(ds, op.db)
  IN IF i = 0 THEN R(ds, g, "ok", TRUE)
     ELSE LET j == Idx(ds[i].rps, op.rp)
          IN IF j = 0 THEN R(ds, g, "ok", TRUE)
             ELSE R([ds EXCEPT ![i].rps = RemoveAt(@, j),
                                ![i].def = IF @ = op.rp /\ ~DropKeepsDefault THEN "" ELSE @], g, "ok", TRUE)

\* DatabaseInfo.RetentionPolicy(name) # nil: the empty name stands for the default policy
Taken(d, name) == IF name = "" THEN d.def # "" /\ Idx(d.rps, d.def) # 0 ELSE Idx(d.rps, name) # 0

\* Client.UpdateRetentionPolicy(database, name, rpu{Name, Duration, ShardGroupDuration}, makeDefault)
DoUpdateRP(ds, g, op) ==
  LET i == Idx(ds, op.db)
  IN IF i = 0 THEN R(ds, g, "dbnotfound", FALSE)
     ELSE LET j == Idx(ds[i].rps, op.rp)
          IN IF j = 0 THEN R(ds, g, "rpnotfound", FALSE)
             ELSE LET e == ds[i].rps[j]
                  IN IF op.nn = "" /\ ~RenameAcceptsEmpty THEN R(ds, g, "namerequired", FALSE)
                     ELSE IF op.nn # NoName /\ op.nn # op.rp /\ Taken(ds[i], op.nn) THEN R(ds, g, "nameexists", FALSE)
                     ELSE IF op.dur # Nil /\ TooLow(op.dur) THEN R(ds, g, "toolow", FALSE)
                     ELSE IF \/ /\ op.dur # Nil /\ op.dur > 0
                                /\ \/ (op.sgd # Nil /\ op.dur < op.sgd)          \* the RAW new shard group duration
                                   \/ (op.sgd = Nil /\ op.dur < e.sgd)
                             \/ /\ op.dur = Nil /\ e.dur > 0 /\ op.sgd # Nil /\ e.dur < op.sgd
                          THEN R(ds, g, "incompatible", FALSE)
                     ELSE LET name1 == IF op.nn # NoName THEN op.nn ELSE e.n
                              dur1  == IF op.dur # Nil THEN op.dur ELSE e.dur
                              sgd1  == IF op.sgd # Nil THEN Norm(op.sgd, dur1) ELSE e.sgd
                              def0  == ds[i].def
                              def1  == IF op.mk THEN name1
                                       ELSE IF def0 = e.n /\ name1 # e.n /\ ~RenameKeepsDefault THEN name1
                                       ELSE def0
                          IN R([ds EXCEPT ![i].rps[j] = [e EXCEPT !.n = name1, !.dur = dur1, !.sgd = sgd1],
                                          ![i].def = def1], g, "ok", TRUE)

\* Client.CreateShardGroup(database, policy, <a time no group of the policy covers>)
DoAddSG(ds, g, op) ==
  LET i == Idx(ds, op.db)
  IN IF i = 0 THEN R(ds, g, "dbnotfound", FALSE)
     ELSE LET j == Idx(ds[i].rps, op.rp)
          IN IF j = 0 THEN R(ds, g, "rpnotfound", FALSE)
             ELSE R([ds EXCEPT ![i].rps[j].sg = @ \cup {g + 1}], g + 1, "ok", TRUE)

\* close + open of the client on the same kv store (or Client.Reload): what was committed is what is there
DoReload(ds, g, op) == R(ds, g, "ok", FALSE)

Apply(ds, g, op) ==
  CASE op.a = "createdb"   -> DoCreateDB(ds, g, op)
    [] op.a = "createdbrp" -> DoCreateDBRP(ds, g, op)
    [] op.a = "dropdb"     -> DoDropDB(ds, g, op)
    [] op.a = "createrp"   -> DoCreateRP(ds, g, op)
    [] op.a = "droprp"     -> DoDropRP(ds, g, op)
    [] op.a = "updaterp"   -> DoUpdateRP(ds, g, op)
    [] op.a = "addsg"      -> DoAddSG(ds, g, op)
    [] op.a = "reload"     -> DoReload(ds, g, op)

\* ---------------------------------------------------------------- operations (one record shape for all)
Op(a, db, rp, nn, dur, sgd, rep, mk) == [a |-> a, db |-> db, rp |-> rp, nn |-> nn, dur |-> dur, sgd |-> sgd, rep |-> rep, mk |-> mk]
DBArgs == IF WithEmptyDB THEN DBs \cup {""} ELSE DBs

OpsCreateDB   == {Op("createdb", d, "", NoName, Nil, Nil, Nil, FALSE) : d \in DBArgs}
OpsDropDB     == {Op("dropdb", d, "", NoName, Nil, Nil, Nil, FALSE) : d \in DBs}
OpsCreateDBRP == {Op("createdbrp", d, r, NoName, du, s, re, TRUE) : d \in DBArgs, r \in XNames, du \in XDurs, s \in XSGDs, re \in XReps}
OpsCreateRP   == {Op("createrp", d, r, NoName, du, s, re, mk) : d \in DBs, r \in RPs, du \in CDurs, s \in CSGDs, re \in CReps, mk \in BOOLEAN}
OpsDropRP     == {Op("droprp", d, r, NoName, Nil, Nil, Nil, FALSE) : d \in DBs, r \in RPs}
UpdShapes     == IF UFull THEN UNames \X UDurs \X USGDs
                 ELSE ((UNames \ {NoName}) \X {Nil} \X {Nil}) \cup ({NoName} \X UDurs \X USGDs)
OpsUpdateRP   == {Op("updaterp", d, r, sh[1], sh[2], sh[3], Nil, mk) : d \in DBs, r \in RPs, sh \in UpdShapes, mk \in BOOLEAN}
OpsAddSG      == {Op("addsg", d, r, NoName, Nil, Nil, Nil, FALSE) : d \in DBs, r \in RPs}
OpsReload     == {Op("reload", "", "", NoName, Nil, Nil, Nil, FALSE)}
Ops == OpsCreateDB \cup OpsDropDB \cup OpsCreateDBRP \cup OpsCreateRP \cup OpsDropRP \cup OpsUpdateRP \cup OpsAddSG \cup OpsReload

Allowed(op) == op.a = "addsg" => nsg < MaxSG

\* ---------------------------------------------------------------- contract: helpers, outcome of one operation
Names(seq) == {seq[i].n : i \in 1..Len(seq)}
HasDB(ds, d) == Idx(ds, d) # 0
DBOf(ds, d) == ds[Idx(ds, d)]
HasRP(ds, d, r) == HasDB(ds, d) /\ Idx(DBOf(ds, d).rps, r) # 0
RPOf(ds, d, r) == DBOf(ds, d).rps[Idx(DBOf(ds, d).rps, r)]

\* outcome of every operation in the current state
OutcomeOK(op, r) ==
     /\ r.err \in {"ok", "namerequired", "toolow", "replica", "incompatible", "dbnotfound", "rpnotfound", "exists", "nameexists", "conflict"}
     \* a refused operation changes nothing and commits nothing
     /\ r.err # "ok" => (r.dbs = dbs /\ r.nsg = nsg /\ ~r.bump)
     \* whatever happens, happens to the named database only
     /\ \A k \in (Names(dbs) \cup Names(r.dbs)) \ {op.db} :
           /\ HasDB(dbs, k) = HasDB(r.dbs, k)
           /\ HasDB(dbs, k) => DBOf(dbs, k) = DBOf(r.dbs, k)
     \* reload is the identity
     /\ op.a = "reload" => (r.dbs = dbs /\ r.nsg = nsg)
     \* error classes mean what they say
     /\ r.err = "dbnotfound" => ~HasDB(dbs, op.db)
     /\ r.err = "rpnotfound" => ~HasRP(dbs, op.db, op.rp)
     /\ r.err = "toolow" => TooLow(op.dur)
     /\ r.err = "nameexists" => HasRP(dbs, op.db, op.nn)
     /\ r.err = "exists" => HasRP(dbs, op.db, op.rp)
     \* effects of the accepted operations
     /\ (r.err = "ok" /\ op.a \in {"createdb", "createdbrp"}) => HasDB(r.dbs, op.db)
     /\ (r.err = "ok" /\ op.a = "dropdb") => ~HasDB(r.dbs, op.db)
     /\ (r.err = "ok" /\ op.a = "droprp") => ~HasRP(r.dbs, op.db, op.rp)
     /\ (r.err = "ok" /\ op.a = "createrp") =>
           /\ HasRP(r.dbs, op.db, op.rp)
           /\ LET p == RPOf(r.dbs, op.db, op.rp)
              IN p.dur = op.dur /\ p.rep = op.rep /\ p.sgd = DocNorm(op.sgd, op.dur)
           /\ op.mk => DBOf(r.dbs, op.db).def = op.rp
           /\ (~op.mk /\ HasDB(dbs, op.db)) => DBOf(r.dbs, op.db).def = DBOf(dbs, op.db).def
     /\ (r.err = "ok" /\ op.a = "createdbrp") =>
           LET name == IF op.rp = "" THEN Autogen ELSE op.rp
           IN /\ HasRP(r.dbs, op.db, name) /\ DBOf(r.dbs, op.db).def = name
              /\ LET p == RPOf(r.dbs, op.db, name)
                 IN /\ (op.dur # Nil => p.dur = op.dur) /\ (op.rep # Nil => p.rep = op.rep)
                    /\ p.sgd = DocNorm(op.sgd, p.dur)
     /\ (r.err = "ok" /\ op.a = "updaterp") =>
           LET name == IF op.nn = NoName THEN op.rp ELSE op.nn
               old  == RPOf(dbs, op.db, op.rp)
           IN /\ HasRP(r.dbs, op.db, name)
              /\ (name # op.rp => ~HasRP(r.dbs, op.db, op.rp))
              /\ LET p == RPOf(r.dbs, op.db, name)
                 IN /\ p.dur = (IF op.dur = Nil THEN old.dur ELSE op.dur)
                    /\ p.sgd = (IF op.sgd = Nil THEN old.sgd ELSE DocNorm(op.sgd, p.dur))
                    /\ p.rep = old.rep /\ p.sg = old.sg
              /\ op.mk => DBOf(r.dbs, op.db).def = name
     \* the other policies of the database are untouched, in every case
     /\ (HasDB(dbs, op.db) /\ HasDB(r.dbs, op.db) /\ op.a # "dropdb") =>
           \A q \in Names(DBOf(dbs, op.db).rps) \ {op.rp, op.nn, IF op.rp = "" THEN Autogen ELSE op.rp} :
              HasRP(r.dbs, op.db, q) /\ RPOf(r.dbs, op.db, q) = RPOf(dbs, op.db, q)

\* ---------------------------------------------------------------- behaviour
Init == dbs = <<>> /\ nsg = 0 /\ nops = 0 /\ hist = <<>> /\ leaf = <<>>

Rec(op, r) == [op |-> op, err |-> r.err, bump |-> r.bump, dbs |-> r.dbs, nsg |-> r.nsg]

\* Model checking and generation advance only by operations that change the meta data (the outcome of every other
\* operation is covered by Inv_Outcomes / by the probes); simulation (NoOpSteps) also takes refused and idle operations.
Step(op) ==
  /\ leaf = <<>> /\ nops < MaxOps /\ Allowed(op)
  /\ LET r == Apply(dbs, nsg, op)
     IN /\ (NoOpSteps \/ r.dbs # dbs \/ r.nsg # nsg)
        /\ dbs' = r.dbs /\ nsg' = r.nsg
        /\ hist' = IF Record THEN Append(hist, Rec(op, r)) ELSE hist
  /\ nops' = nops + 1
  /\ UNCHANGED leaf

\* generation only: the outcome of op in this state, as a state of its own without successors.  VIEW keeps one
\* witness history per distinct (dbs, nsg); the probes then cover EVERY operation in every such state.
\* (same = TRUE: the meta data after the operation is the meta data before it; it is then not printed again)
Probe(op) ==
  /\ Probing /\ leaf = <<>> /\ Allowed(op)
  /\ LET r == Apply(dbs, nsg, op)
         same == r.dbs = dbs /\ r.nsg = nsg
     IN leaf' = <<[op |-> op, err |-> r.err, bump |-> r.bump, same |-> same, dbs |-> IF same THEN <<>> ELSE r.dbs, nsg |-> r.nsg]>>
  /\ hist' = <<>>
  /\ UNCHANGED <<dbs, nsg, nops>>

CreateDB   == \E op \in OpsCreateDB : Step(op)
CreateDBRP == \E op \in OpsCreateDBRP : Step(op)
DropDB     == \E op \in OpsDropDB : Step(op)
CreateRP   == \E op \in OpsCreateRP : Step(op)
DropRP     == \E op \in OpsDropRP : Step(op)
UpdateRP   == \E op \in OpsUpdateRP : Step(op)
AddSG      == \E op \in OpsAddSG : Step(op)
Reload     == \E op \in OpsReload : Step(op)
Probes     == \E op \in Ops : Probe(op)

\* (a probe state has no successors; saying so first spares TLC the enumeration of the operations there)
Next == leaf = <<>> /\ (CreateDB \/ CreateDBRP \/ DropDB \/ CreateRP \/ DropRP \/ UpdateRP \/ AddSG \/ Reload \/ Probes)

Spec == Init /\ [][Next]_vars

\* ---------------------------------------------------------------- contract: invariants
\* names are unique per level and never empty; shard group ids are issued once
Inv_Names ==
  leaf = <<>> =>
  /\ \A i, j \in 1..Len(dbs) : dbs[i].n = dbs[j].n => i = j
  /\ \A i \in 1..Len(dbs) : /\ dbs[i].n # ""
                            /\ \A j, k \in 1..Len(dbs[i].rps) : dbs[i].rps[j].n = dbs[i].rps[k].n => j = k
                            /\ \A j \in 1..Len(dbs[i].rps) : dbs[i].rps[j].n # ""
Inv_ShardGroups ==
  leaf = <<>> =>
  \A i, i2 \in 1..Len(dbs) : \A j \in 1..Len(dbs[i].rps), j2 \in 1..Len(dbs[i2].rps) :
      /\ dbs[i].rps[j].sg \subseteq 1..nsg
      /\ (<<i, j>> # <<i2, j2>>) => dbs[i].rps[j].sg \cap dbs[i2].rps[j2].sg = {}

\* a database's default policy, when set, names one of its policies
Inv_Default == leaf = <<>> => \A i \in 1..Len(dbs) : dbs[i].def = "" \/ dbs[i].def \in Names(dbs[i].rps)

\* stored policies obey the duration rules
Inv_Durations ==
  leaf = <<>> =>
  \A i \in 1..Len(dbs) : \A j \in 1..Len(dbs[i].rps) :
     LET p == dbs[i].rps[j]
     IN /\ (p.dur = 0 \/ p.dur >= MinDur)
        /\ p.sgd >= MinDur
        /\ (p.dur = 0 \/ p.sgd <= p.dur)
        /\ p.rep >= 1

\* the outcome of every operation in every state reached with fewer than MaxOps changing operations
\* (r is bound by a quantifier: TLC does not cache LET definitions while it evaluates an invariant)
Inv_Outcomes == (leaf = <<>> /\ nops < MaxOps) => \A op \in Ops : Allowed(op) => \A r \in {Apply(dbs, nsg, op)} : OutcomeOK(op, r)

\* the same contract on a probe state (lead configurations: the offending operation is then part of the counterexample)
Inv_ProbeOutcomes ==
  leaf # <<>> => \A l \in {leaf[1]} :
     OutcomeOK(l.op, [dbs |-> IF l.same THEN dbs ELSE l.dbs, nsg |-> l.nsg, err |-> l.err, bump |-> l.bump])


\* Generation (one TLC worker = strict breadth-first order): nops and hist hidden, so every meta data state is kept once, with a
\* shortest witness history.  Model checking (several workers): nops stays visible, which makes the set of explored states
\* independent of the scheduling of the workers (a state reached again after more operations is simply explored again).
View  == <<dbs, nsg, leaf>>
ViewN == <<dbs, nsg, nops, leaf>>
=============================================================================
