------------------------------- MODULE InfluxQL -------------------------------
(* C22 - reference semantics of an InfluxQL SELECT subset, written as a TLA+ evaluator.                       *)
(*                                                                                                            *)
(*   SELECT v | f(v) | f(v), g(v)  FROM m         (f, g in count sum mean min max first last)                 *)
(*   WHERE time >= tlo AND time < thi AND host (=|!=) 'x' AND v (>|>=|<|<=|=|!=) k                             *)
(*   GROUP BY time(w [, off]) [, host]  fill(null | none | previous | <n>)                                    *)
(*   ORDER BY time DESC   LIMIT n OFFSET n   SLIMIT n SOFFSET n                                               *)
(*                                                                                                            *)
(* over a dataset of <= 3 series (measurement m, tag host, integer field v) with <= MaxPts points each on     *)
(* ticks 0..11; ticks 0..5 are stored in shard 1, ticks 6..11 in shard 2.                                     *)
(*                                                                                                            *)
(* TLC is used in -simulate mode as generator AND evaluator: every state carries (data, q, exp) where          *)
(* exp = Eval(data, q) is the expected result: a sequence of <<host-or-"", rows>>, a row is <<t, num, den>>   *)
(* (den = 0: null; mean is the rational sum/count; t = Epoch for "the epoch").  The driver renders q as text,  *)
(* runs it on a real two-shard tsdb.Store through query.Select and compares.  During the simulation TLC also   *)
(* checks language-level laws of the evaluator (invariants below).                                            *)
(*                                                                                                            *)
(* Semantics (InfluxQL reference; points that the text leaves open were fixed by probing, see DESIGN 5.14):   *)
(*  - output series: one per host value under GROUP BY host (ascending, descending under ORDER BY time DESC),  *)
(*    otherwise one series without tags; a series without rows is not output.                                 *)
(*  - SLIMIT/SOFFSET select, in ascending order, among the series that satisfy the tag predicate and are       *)
(*    stored in a shard the time range reads, whether or not they have rows left after the time/field         *)
(*    filters; without GROUP BY host there is one candidate.  SOFFSET is only generated together with SLIMIT   *)
(*    (documented requirement).  (The code applies SLIMIT per shard: when two shards are read and hold         *)
(*    different series the result differs - known finding slimit_applied_per_shard.)                          *)
(*  - raw rows are ordered by time; the order of rows of different series at the same timestamp is NOT        *)
(*    defined (the driver compares such groups as multisets; LIMIT/OFFSET are dropped by Normalize when they  *)
(*    could cut through such a group).                                                                        *)
(*  - count/sum/mean without GROUP BY time carry the lower time bound (the epoch without one); min/max/first/ *)
(*    last carry the selected point's time (min/max: earliest among equal values); under GROUP BY time every   *)
(*    row carries the window start.  Which of two points of different series with the same earliest/latest     *)
(*    timestamp first()/last() take is NOT defined: Normalize adds GROUP BY host to such queries.              *)
(*  - windows are [off + k*w, off + (k+1)*w); the windows output are those that intersect [tlo, thi).         *)
(*  - fill applies to windows without points of a series that has at least one point in range: null, none     *)
(*    (row omitted), previous (value of the previous row of the same series IN OUTPUT ORDER, null if none),    *)
(*    <n>.  count() fills with 0 under fill(null).                                                            *)
(*  - LIMIT/OFFSET apply per output series, after fill and ordering.                                          *)
(*  - with two calls in the SELECT list a row is <<t, num1, den1, num2, den2>>: every row carries the lower    *)
(*    time bound / the epoch / the window start (a selector no longer gives its point's time), fill works      *)
(*    column by column (count() fills with 0 under fill(null), previous takes each column's previous value).  *)
(* GROUP BY time is only generated with both time bounds (an open upper bound means now()); OFFSET only with    *)
(* LIMIT and SOFFSET only with SLIMIT (the reference documents both requirements: results are otherwise          *)
(* "inconsistent", which the probes confirm).                                                                  *)
EXTENDS Integers, Sequences, FiniteSets, TLC

CONSTANTS MaxPts,      \* points per series
          QPerData,    \* queries generated per dataset
          Focus        \* "none": the whole subset; "fill": only GROUP BY time(w), host with fill(previous|<n>|null), no filters
                       \* (a stratum that is rare in the general mix: windows without points inside multi-series results)

VARIABLES data,        \* sequence of [host, pts: Seq(<<t, v>>)] sorted by host, pts sorted by t (unique t per series)
          q,           \* abstract query record
          exp,         \* Eval(data, q)
          n,           \* number of cases generated so far in this behaviour
          seed, phase  \* generation: Pick chooses a seed (the simulator's random choice), Gen derives the case from it
vars == <<data, q, exp, n, seed, phase>>

Ticks == 0..11
Vals == -2..4          \* few values: ties between equal values (min/max) and equal sums are frequent
HostSeq == <<"a", "b", "c">>
Hosts == {"a", "b", "c"}
Epoch == -1000
Sels == <<"raw", "count", "sum", "mean", "min", "max", "first", "last">>
IsSelector(s) == s \in {"min", "max", "first", "last"}

\* ---------------------------------------------------------------------------------------------- helpers
T(p) == p[1]
V(p) == p[2]
MinOf(S) == CHOOSE x \in S : \A y \in S : x <= y
MaxOf(S) == CHOOSE x \in S : \A y \in S : x >= y
RECURSIVE SortSet(_)
SortSet(S) == IF S = {} THEN <<>> ELSE LET m == MinOf(S) IN <<m>> \o SortSet(S \ {m})
RECURSIVE SumV(_)
SumV(S) == IF S = {} THEN 0 ELSE LET x == CHOOSE y \in S : TRUE IN x[2] + SumV(S \ {x})     \* sum of the values of a set of points
Range(s) == {s[k] : k \in DOMAIN s}
Reverse(s) == [k \in 1..Len(s) |-> s[Len(s) + 1 - k]]
RECURSIVE Flatten(_)
Flatten(ss) == IF ss = <<>> THEN <<>> ELSE Head(ss) \o Flatten(Tail(ss))
HostIdx(h) == CHOOSE k \in 1..3 : HostSeq[k] = h
Min2(a, b) == IF a < b THEN a ELSE b

\* ---------------------------------------------------------------------------------------------- evaluator
TagOK(qq, h) == CASE qq.tagop = "none" -> TRUE
                  [] qq.tagop = "eq" -> h = qq.tagv
                  [] qq.tagop = "ne" -> h # qq.tagv
FieldOK(qq, v) == CASE qq.fop = "none" -> TRUE
                    [] qq.fop = "gt" -> v > qq.fk
                    [] qq.fop = "ge" -> v >= qq.fk
                    [] qq.fop = "lt" -> v < qq.fk
                    [] qq.fop = "le" -> v <= qq.fk
                    [] qq.fop = "eq" -> v = qq.fk
                    [] qq.fop = "ne" -> v # qq.fk
TimeOK(qq, t) == (qq.tlo < 0 \/ t >= qq.tlo) /\ (qq.thi < 0 \/ t < qq.thi)

\* the points (as <<t, v, host>>) a group of hosts contributes to the query
PointsOf(d, qq, hs) ==
  UNION {{<<T(s.pts[k]), V(s.pts[k]), s.host>> : k \in {j \in DOMAIN s.pts : TimeOK(qq, T(s.pts[j])) /\ FieldOK(qq, V(s.pts[j]))}}
         : s \in {x \in Range(d) : x.host \in hs}}

\* candidate output series (sets of hosts), in ascending order, after SLIMIT/SOFFSET
\* shard 0 holds ticks 0..5, shard 1 ticks 6..11; a shard is read iff it overlaps the time range of the query
ShardRead(qq, sh) == /\ (qq.tlo < 0 \/ qq.thi < 0 \/ qq.tlo < qq.thi)
                     /\ IF sh = 0 THEN qq.tlo < 6 /\ (qq.thi < 0 \/ qq.thi > 0)
                        ELSE qq.thi < 0 \/ qq.thi > 6
Stored(qq, s) == \E k \in DOMAIN s.pts : ShardRead(qq, T(s.pts[k]) \div 6)
Candidates(d, qq) ==
  LET hs == {s.host : s \in {x \in Range(d) : TagOK(qq, x.host) /\ Stored(qq, x)}}
      all == IF hs = {} THEN <<>>
             ELSE IF qq.gtag THEN [k \in 1..Cardinality(hs) |-> {HostSeq[SortSet({HostIdx(h) : h \in hs})[k]]}]
             ELSE <<hs>>
  IN IF qq.slimit = 0 /\ qq.soffset = 0 THEN all
     ELSE SubSeq(all, qq.soffset + 1, Min2(Len(all), qq.soffset + qq.slimit))

\* --- one value from a non-empty set of points
AggValue(sel, P) ==
  CASE sel = "count" -> <<Cardinality(P), 1>>
    [] sel = "sum" -> <<SumV(P), 1>>
    [] sel = "mean" -> <<SumV(P), Cardinality(P)>>
    [] OTHER -> <<0, 0>>
\* the point a selector picks
Pick(sel, P) ==
  CASE sel = "min" -> CHOOSE p \in P : \A r \in P : V(p) < V(r) \/ (V(p) = V(r) /\ T(p) <= T(r))
    [] sel = "max" -> CHOOSE p \in P : \A r \in P : V(p) > V(r) \/ (V(p) = V(r) /\ T(p) <= T(r))
    [] sel = "first" -> CHOOSE p \in P : \A r \in P : T(p) < T(r) \/ (T(p) = T(r) /\ V(p) >= V(r))
    [] sel = "last" -> CHOOSE p \in P : \A r \in P : T(p) > T(r) \/ (T(p) = T(r) /\ V(p) >= V(r))
\* (several series can hold the same <<t, v>>: P is a set of <<t, v, host>>, so compare on (t, v) only)
PickTV(sel, P) == LET TV == {<<T(p), V(p)>> : p \in P} IN Pick(sel, TV)

\* --- raw rows
\* order by (time, host): the order inside a group of equal times is not significant (see header)
RECURSIVE OrdPairs(_)
OrdPairs(S) == IF S = {} THEN <<>>
               ELSE LET m == CHOOSE x \in S : \A y \in S : x[1] < y[1] \/ (x[1] = y[1] /\ x[2] <= y[2])
                    IN <<m>> \o OrdPairs(S \ {m})
RawRows(qq, P) ==
  LET key == {<<T(p), HostIdx(p[3])>> : p \in P}
      ks == OrdPairs(key)
      ValAt(k) == V(CHOOSE p \in P : T(p) = k[1] /\ HostIdx(p[3]) = k[2])
  IN [j \in 1..Len(ks) |-> <<ks[j][1], ValAt(ks[j]), 1>>]

\* --- windows
WStart(qq, t) == t - ((t - qq.off) % qq.w)
Windows(qq) == LET f == WStart(qq, qq.tlo)
                   l == WStart(qq, qq.thi - 1)
               IN [k \in 1..((l - f) \div qq.w + 1) |-> f + (k - 1) * qq.w]

\* value of one window, before fill: <<num, den>> or "empty"
Empty == <<0, -1>>
WinValue(qq, P, ws) ==
  LET PW == {p \in P : T(p) >= ws /\ T(p) < ws + qq.w}
  IN IF PW = {} THEN Empty
     ELSE IF IsSelector(qq.sel) THEN <<V(PickTV(qq.sel, PW)), 1>>
     ELSE AggValue(qq.sel, PW)

\* fill over the rows in output order; rows are <<t, num, den>> with Empty values still to be filled
RECURSIVE FillRows(_, _, _)
FillRows(qq, rows, prev) ==
  IF rows = <<>> THEN <<>>
  ELSE LET r == Head(rows)
           isE == <<r[2], r[3]>> = Empty
       IN IF ~isE THEN <<r>> \o FillRows(qq, Tail(rows), <<r[2], r[3]>>)
          ELSE CASE qq.fill = "none" -> FillRows(qq, Tail(rows), prev)
                 [] qq.fill = "null" -> <<IF qq.sel = "count" THEN <<r[1], 0, 1>> ELSE <<r[1], 0, 0>>>> \o FillRows(qq, Tail(rows), prev)
                 [] qq.fill = "num" -> <<<<r[1], qq.filln, 1>>>> \o FillRows(qq, Tail(rows), prev)
                 [] qq.fill = "previous" -> <<<<r[1], prev[1], prev[2]>>>> \o FillRows(qq, Tail(rows), prev)

LimitRows(qq, rows) ==
  LET from == qq.offset + 1
      to == IF qq.limit = 0 THEN Len(rows) ELSE Min2(Len(rows), qq.offset + qq.limit)
  IN SubSeq(rows, from, to)

\* rows of one output series (before LIMIT/OFFSET)
SeriesRows(qq, P) ==
  IF P = {} THEN <<>>
  ELSE IF qq.sel = "raw" THEN (IF qq.desc THEN Reverse(RawRows(qq, P)) ELSE RawRows(qq, P))
  ELSE IF qq.w = 0
       THEN IF IsSelector(qq.sel) THEN LET p == PickTV(qq.sel, P) IN <<<<T(p), V(p), 1>>>>
            ELSE LET a == AggValue(qq.sel, P) IN <<<<IF qq.tlo >= 0 THEN qq.tlo ELSE Epoch, a[1], a[2]>>>>
  ELSE LET wsq == IF qq.desc THEN Reverse(Windows(qq)) ELSE Windows(qq)
           rows == [k \in 1..Len(wsq) |-> LET v == WinValue(qq, P, wsq[k]) IN <<wsq[k], v[1], v[2]>>]
       IN FillRows(qq, rows, <<0, 0>>)

\* one value of a call over a non-empty set of points
CallValue(sel, P) == IF IsSelector(sel) THEN <<V(PickTV(sel, P)), 1>> ELSE AggValue(sel, P)
\* two calls: both columns see the same points, so the same windows are empty and the single-column row
\* sequences (fill included) have the same times
SeriesRows2(qq, P) ==
  IF qq.sel2 = "none" THEN SeriesRows(qq, P)
  ELSE IF P = {} THEN <<>>
  ELSE IF qq.w = 0
       THEN LET a == CallValue(qq.sel, P)
                b == CallValue(qq.sel2, P)
            IN <<<<IF qq.tlo >= 0 THEN qq.tlo ELSE Epoch, a[1], a[2], b[1], b[2]>>>>
  ELSE LET r1 == SeriesRows(qq, P)
           r2 == SeriesRows([qq EXCEPT !.sel = qq.sel2], P)
       IN [k \in 1..Len(r1) |-> <<r1[k][1], r1[k][2], r1[k][3], r2[k][2], r2[k][3]>>]

Eval(d, qq) ==
  LET cs == Candidates(d, qq)
      one(hs) == LET rows == LimitRows(qq, SeriesRows2(qq, PointsOf(d, qq, hs)))
                 IN IF rows = <<>> THEN <<>>
                    ELSE <<<<IF qq.gtag THEN CHOOSE h \in hs : TRUE ELSE "", rows>>>>
      out == Flatten([k \in 1..Len(cs) |-> one(cs[k])])
  IN IF qq.desc THEN Reverse(out) ELSE out

\* raw rows of different series at the same time: their order is undefined, so LIMIT/OFFSET over them is too
HasTie(d, qq) ==
  \E k \in 1..Len(Candidates(d, qq)) :
     LET P == PointsOf(d, qq, Candidates(d, qq)[k])
     IN \E p1, p2 \in P : p1 # p2 /\ T(p1) = T(p2)

\* ---------------------------------------------------------------------------------------------- generation
\* r: a sequence of random naturals; every choice is derived from one of them
Pick1(r, k, S) == S[(r[k] % Len(S)) + 1]
MkQuery(r) ==
  LET sel == IF r[1] % 4 = 0 THEN "raw" ELSE Sels[(r[2] % 7) + 2]
      wnd == IF sel = "raw" \/ r[3] % 5 < 2 THEN 0 ELSE Pick1(r, 4, <<2, 3, 4, 5, 6, 4>>)
      lo0 == IF r[5] % 3 = 0 THEN -1 ELSE r[6] % 10
      hi0 == IF r[7] % 3 = 0 THEN -1 ELSE IF lo0 >= 0 /\ r[7] % 3 = 1 THEN Min2(12, lo0 + 1 + (r[8] % 8)) ELSE (r[8] % 12) + 1
      lo == IF wnd > 0 /\ lo0 < 0 THEN r[6] % 6 ELSE lo0
      hi1 == IF wnd > 0 /\ hi0 < 0 THEN 12 - (r[8] % 5) ELSE hi0
      hi == IF wnd > 0 /\ hi1 <= lo THEN lo + 1 + (r[8] % 5) ELSE hi1
      sl == IF r[17] % 4 = 0 THEN 1 + (r[18] % 2) ELSE 0
      lim == IF r[21] % 3 = 0 THEN 1 + (r[22] % 3) ELSE 0
  IN [sel |-> sel,
      sel2 |-> IF sel # "raw" /\ r[3] % 4 = 3 /\ Sels[(r[1] % 7) + 2] # sel THEN Sels[(r[1] % 7) + 2] ELSE "none",   \* (two identical calls are one call)
      tlo |-> lo, thi |-> hi,
      tagop |-> Pick1(r, 9, <<"none", "none", "none", "eq", "ne">>),
      tagv |-> Pick1(r, 10, <<"a", "b", "c", "a", "b", "c", "zz">>),
      fop |-> Pick1(r, 11, <<"none", "none", "none", "gt", "ge", "lt", "le", "eq", "ne">>),
      fk |-> (r[12] % 7) - 2,
      w |-> wnd,
      off |-> IF wnd = 0 \/ r[13] % 2 = 0 THEN 0 ELSE (r[14] % 11) - 4,
      gtag |-> r[15] % 2 = 0,
      fill |-> IF wnd = 0 THEN "null" ELSE Pick1(r, 16, <<"null", "none", "previous", "num">>),
      filln |-> Pick1(r, 19, <<0, 7, -1>>),
      desc |-> r[20] % 3 = 0,
      limit |-> lim,
      offset |-> IF lim > 0 /\ r[23] % 2 = 0 THEN 1 + (r[24] % 2) ELSE 0,      \* OFFSET requires LIMIT (documented)
      slimit |-> sl,
      soffset |-> IF sl > 0 /\ r[25] % 2 = 0 THEN 1 ELSE 0]

\* first()/last() over several series: which of two points of DIFFERENT series at the selected (earliest/latest)
\* timestamp is taken is not defined by the language (without GROUP BY time the engine takes the first point of an
\* unordered merge); such a query is only generated with GROUP BY host, where every output series is one stored series
ExtremeAmbiguous(sel, P) ==
  P # {} /\ LET t == IF sel = "first" THEN MinOf({T(p) : p \in P}) ELSE MaxOf({T(p) : p \in P})
            IN Cardinality({V(p) : p \in {x \in P : T(x) = t}}) > 1
FLAmbiguous(d, qq) ==
  \E sel \in {qq.sel, qq.sel2} \cap {"first", "last"} :
    \E k \in 1..Len(Candidates(d, qq)) :
       LET P == PointsOf(d, qq, Candidates(d, qq)[k])
       IN IF qq.w = 0 THEN ExtremeAmbiguous(sel, P)
          ELSE \E j \in 1..Len(Windows(qq)) :
                  ExtremeAmbiguous(sel, {p \in P : T(p) >= Windows(qq)[j] /\ T(p) < Windows(qq)[j] + qq.w})

Normalize(d, q0) ==
  LET qq == IF ~q0.gtag /\ FLAmbiguous(d, q0) THEN [q0 EXCEPT !.gtag = TRUE] ELSE q0
  IN IF qq.sel = "raw" /\ (qq.limit > 0 \/ qq.offset > 0) /\ HasTie(d, qq)
     THEN [qq EXCEPT !.limit = 0, !.offset = 0] ELSE qq

FocusFill(r, qq) ==
  LET wnd == Pick1(r, 4, <<2, 3, 4, 5, 2, 3>>)
      lo == r[6] % 4
  IN [qq EXCEPT !.sel = Sels[(r[2] % 7) + 2], !.sel2 = IF r[3] % 2 = 0 /\ Sels[(r[1] % 7) + 2] # Sels[(r[2] % 7) + 2] THEN Sels[(r[1] % 7) + 2] ELSE "none", !.w = wnd, !.off = IF r[13] % 3 = 0 THEN (r[14] % 5) - 2 ELSE 0,
                !.tlo = lo, !.thi = 12 - (r[8] % 3), !.gtag = TRUE,
                !.fill = Pick1(r, 16, <<"previous", "previous", "num", "null">>),
                !.tagop = "none", !.fop = IF r[11] % 4 = 0 THEN "gt" ELSE "none", !.fk = (r[12] % 5) - 2,
                !.slimit = 0, !.soffset = 0]

\* pseudo-random stream derived from the seed (TLC's own RandomElement is re-seeded identically at every step, so
\* the randomness comes from the simulator's choice of `seed` and this generator spreads it over the fields)
RECURSIVE LCG(_, _)
LCG(x, k) == IF k = 0 THEN <<>> ELSE LET y == (x * 1105 + 12345) % 65536 IN <<y \div 16>> \o LCG(y, k - 1)
Stream(sd, k) == LCG((sd * 31 + 17) % 65536, k)     \* sd < 2^16 + 8

\* dataset from a stream: host h (index i) has a point at tick t iff the stream says so, at most MaxPts per series
MkData(r) ==
  LET TicksOf(i) == {t \in Ticks : r[i * 12 + t + 1 - 12] % 5 < 2}
      Cut(S) == IF Cardinality(S) <= MaxPts THEN S ELSE {t \in S : Cardinality({u \in S : u < t}) < MaxPts}
      Present(i) == r[37 + i] % 8 # 0
      hs == SortSet({i \in 1..3 : Present(i) /\ TicksOf(i) # {}})
  IN [k \in 1..Len(hs) |->
        LET i == hs[k]
            ts == SortSet(Cut(TicksOf(i)))
        IN [host |-> HostSeq[i], pts |-> [j \in 1..Len(ts) |-> <<ts[j], (r[40 + i * 12 + ts[j] + 1 - 12] % 7) - 2>>]]]

Q0 == MkQuery([k \in 1..25 |-> 1])

Init == /\ data = <<>> /\ q = Q0 /\ exp = <<>> /\ n = 0 /\ seed = 0 /\ phase = "p1"

\* two random bytes per case (the simulator picks one successor at random; 256 cheap successors per step)
PickSeed == /\ phase \in {"p1", "p2"}
            /\ \E b \in 0..255 : seed' = (seed * 256 + b) % 65536
            /\ phase' = IF phase = "p1" THEN "p2" ELSE "gen"
            /\ UNCHANGED <<data, q, exp, n>>

Gen == /\ phase = "gen"
       /\ LET r == Stream(seed, 25)
              d == IF n % QPerData = 0 THEN MkData(Stream(seed + 7, 80)) ELSE data
              q0 == MkQuery(r)
              qq == Normalize(d, IF Focus = "fill" THEN FocusFill(r, q0) ELSE q0)
          IN /\ data' = d
             /\ q' = qq
             /\ exp' = Eval(d, qq)
       /\ n' = n + 1
       /\ phase' = "p1"
       /\ UNCHANGED seed

Next == PickSeed \/ Gen

Spec == Init /\ [][Next]_vars

\* ---------------------------------------------------------------------------------------------- laws checked by TLC
AllRows == Flatten([k \in 1..Len(exp) |-> exp[k][2]])
RowsOrdered == \A k \in 1..Len(exp) : \A j \in 1..(Len(exp[k][2]) - 1) :
                  IF q.desc THEN exp[k][2][j][1] >= exp[k][2][j + 1][1] ELSE exp[k][2][j][1] <= exp[k][2][j + 1][1]
SeriesOrdered == \A k \in 1..(Len(exp) - 1) :
                    IF q.desc THEN HostIdx(exp[k][1]) > HostIdx(exp[k + 1][1]) ELSE HostIdx(exp[k][1]) < HostIdx(exp[k + 1][1])
LimitRespected == q.limit > 0 => \A k \in 1..Len(exp) : Len(exp[k][2]) <= q.limit
SLimitRespected == q.slimit > 0 => Len(exp) <= q.slimit
NoEmptySeries == \A k \in 1..Len(exp) : exp[k][2] # <<>>
RECURSIVE SumCol2(_)
SumCol2(rows) == IF rows = <<>> THEN 0 ELSE Head(rows)[2] + SumCol2(Tail(rows))
\* count conservation: without LIMIT/OFFSET the counts add up to the number of selected points of the output series
CountConservation ==
  (q.sel = "count" /\ q.limit = 0 /\ q.offset = 0 /\ q.fill \in {"null", "none"} /\ n > 0 /\ phase = "p1") =>
     LET cs == Candidates(data, q)
         tot == Cardinality(UNION {PointsOf(data, q, cs[k]) : k \in 1..Len(cs)})
     IN SumCol2(AllRows) = tot
\* fill(none) returns exactly the non-filled rows of fill(null) (sum: a null row is a filled row)
FillNoneIsSubset ==
  (q.w > 0 /\ q.sel = "sum" /\ q.sel2 = "none" /\ q.limit = 0 /\ q.offset = 0 /\ n > 0 /\ phase = "p1") =>
     LET a == Eval(data, [q EXCEPT !.fill = "none"])
         b == Eval(data, [q EXCEPT !.fill = "null"])
         NonNull(rows) == LET Keep(r) == r[3] # 0 IN SelectSeq(rows, Keep)
     IN /\ Len(a) = Len(b)
        /\ \A k \in 1..Len(a) : a[k][1] = b[k][1] /\ a[k][2] = NonNull(b[k][2])
\* ORDER BY time DESC reverses a result that has no fill(previous) and no LIMIT/OFFSET/SLIMIT
DescIsReverse ==
  (phase = "p1" /\ q.limit = 0 /\ q.offset = 0 /\ q.fill # "previous" /\ n > 0 /\ ~(q.sel = "raw" /\ HasTie(data, q))) =>
     LET a == Eval(data, [q EXCEPT !.desc = FALSE])
         b == Eval(data, [q EXCEPT !.desc = TRUE])
     IN /\ Len(a) = Len(b)
        /\ \A k \in 1..Len(a) : b[Len(a) + 1 - k][1] = a[k][1] /\ b[Len(a) + 1 - k][2] = Reverse(a[k][2])
=============================================================================
