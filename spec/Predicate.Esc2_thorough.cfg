\* escape focus, two tags per series, thorough: larger key and measurement sets
SPECIFICATION Spec
CONSTANTS
  MeasSet <- Heavy
  KeySet <- Heavy
  ValSet <- Heavy4
  TagCounts = {2}
  LeafMode = "series"
  Shape = "leaf"
  SkipName = TRUE
  PredKeys = {}
  PredVals = {}
INVARIANTS KeyRoundTrips ModelAgrees
CHECK_DEADLOCK FALSE
