\* escape focus, two tags per series, thorough: larger key and measurement sets
SPECIFICATION Spec
CONSTANTS
  MeasSet <- Heavy
  KeySet <- Heavy
  ValSet <- Heavy4
  TagCounts = {2}
  LeafMode = "series"
  Shape = "leaf"
  PredKeys = {}
  PredVals = {}
INVARIANTS KeyRoundTrips ModelAgreesUnlessMeasEq
CHECK_DEADLOCK FALSE
