SPECIFICATION Spec
CONSTANTS
  Keys = {"k1", "k2"}
  Times = {1, 2, 3}
  SegSize = 4
  Menu <- MenuThorough
  MaxOps = 14
  MaxEntries = 7
  MaxPending = 3
  HoleQuirk = FALSE
  Record = TRUE
INVARIANTS TypeOK ReplayEqualsAcked
CHECK_DEADLOCK FALSE
