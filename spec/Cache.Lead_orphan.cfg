SPECIFICATION Spec
CONSTANTS
  Keys = {"k1", "k2"}
  Times = {0}
  Types = {"n", "b"}
  Threads = {"w1", "w2", "d1"}
  Writers = {"w1", "w2"}
  Snappers = {}
  Deleters = {"d1"}
  Readers = {}
  Limit = 60
  Sequential = FALSE
  SplitLoads = FALSE
  Fused = TRUE
  BKeys = {}
  PerWriter = 1
  RandomPick = FALSE
  Rich = FALSE
  MaxWrites = 2
  MaxSnaps = 0
  MaxDeletes = 1
  MaxReads = 0
  MaxSizes = 0
  MaxOps = 3
INVARIANTS StrictSizeNoDedupNoStray
VIEW View
CHECK_DEADLOCK FALSE
