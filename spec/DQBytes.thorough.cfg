SPECIFICATION Spec
CONSTANTS
  BodyVals = {0, 8, 17}
  MaxBody = 5
  MaxAppends = 2
  VerifyAll = TRUE

CHECK_DEADLOCK FALSE
