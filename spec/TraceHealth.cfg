\* Trace validation of recorded /ready and /health runs (see TraceHealth.tla). Run with -workers 1 and the StateDeque queue.
SPECIFICATION TSpec
CONSTANTS
  Gates = {"bolt", "engine", "query"}
  Prog = {"shards"}
  HGen = {"aa", "mm", "zz"}
  HPulse = {"task-scheduler"}
  HShards = {"shards"}
  Reqs = {"t1", "t2", "t3", "t4"}
  MaxOps = 1000000
  MaxReq = 1000000
  PreReg = FALSE
  Atomic = FALSE
  Record = FALSE
INVARIANTS C33_ReadyCode C33_HealthCode C33_Window C33_TrueAggregate
CONSTRAINT Mark
POSTCONDITION Accepted
CHECK_DEADLOCK FALSE
