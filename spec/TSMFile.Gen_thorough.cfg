SPECIFICATION SpecPristine
CONSTANTS
  NK = 4
  MaxT = 2
  Files <- PristineThorough
  MaxOps = 0
  CrashPts <- Points
  KeepPts <- KeepAll
  KeepHist = TRUE
  Mode = "pristine"
INVARIANTS PristineLemmas EmitPristine
CHECK_DEADLOCK FALSE
