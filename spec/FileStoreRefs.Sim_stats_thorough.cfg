SPECIFICATION Spec
CONSTANTS
  Keys = {"k1", "k2"}
  Slots = {1, 2, 3}
  InitMenu <- InitThorough
  NewMenu <- NewThorough
  SeekSlots = {1, 2, 3}
  MaxFiles = 7
  MaxNew = 1
  MaxCursors = 1
  MaxOpen = 1
  MaxReplaces = 4
  MaxStepwise = 1
  MaxOps = 11
  Record = TRUE
  Fine = FALSE
  Reads = FALSE
  WithStats = TRUE
  WithClose = TRUE
  Mut = "none"
INVARIANTS TypeOK RefsMatch CursorSnapshot
CHECK_DEADLOCK FALSE
