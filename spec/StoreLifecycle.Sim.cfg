SPECIFICATION SimSpec
CONSTANTS
  DBs = {d1, d2}
  RPs = {r1, r2}
  IDs = {i1, i2, i3}
  Series = {s1, s2, s3, s4}
  Times = {t1, t2}
  MaxOps = 12
  MaxWrites = 6
  MaxNoops = 2
INVARIANTS TypeOK ShardIdUnique SeriesFileCovers SeriesFileExact IdsInjective LayoutConsistent
CHECK_DEADLOCK FALSE
