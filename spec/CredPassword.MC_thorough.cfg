SPECIFICATION Spec
CONSTANTS
  Users = {1, 2}
  MainUser = 1
  Pws = {1, 2}
  OtherPws = {1}
  Wrong = 3
  MaxOps = 5
INVARIANTS CompareOnlyLatest CASOnlyWithCurrent StoredIsLatest NeverSetNeverMatches
CHECK_DEADLOCK FALSE
