---------------------------- MODULE DurableQueue ----------------------------
(* Record-level specification of pkg/durablequeue (Queue, segment, scanner).                         *)
(*                                                                                                    *)
(* Implementation layer: segments as the code keeps them (blocks, head position as a block count,     *)
(* file size, per-segment capacity), the shared byte counter, segment roll-over, head trimming,       *)
(* clean close / open with removal of empty segments.                                                 *)
(* Contract layer (C26): `appended` (every acknowledged append, in order), `nadv` (acknowledged      *)
(* advances); what the queue hands out must be appended[nadv+1 ..] in order, across reopen.          *)
(* Crash/torn writes are modelled at byte level in DQBytes.tla.                                       *)
EXTENDS Integers, Sequences, FiniteSets, TLC

CONSTANTS Lens,          \* body lengths an append may use (>= 1)
          MaxSeg,        \* maxSegmentSize (bytes)
          MaxSize,       \* maxSize (bytes), >= 2*MaxSeg
          MaxOps,        \* bound on history length
          MaxAppends,
          MaxTime        \* logical clock bound (0 = no Tick/Purge actions)

VARIABLES segs,      \* sequence of [id, blocks: Seq([n, len, at]), adv: Nat, cap: Nat, mt: Nat]  (mt = file mtime, logical)
          now,       \* logical clock (seconds)
          nextId,    \* next block number (distinguishable payloads)
          total,     \* the SharedCount
          appended,  \* contract: acknowledged appends  (sequence of [n, len])
          nadv,      \* contract: acknowledged advances (number of blocks advanced past)
          hist       \* history for replay: sequence of [a, ..., exp]

vars == <<segs, now, nextId, total, appended, nadv, hist>>

Footer == 8
RECURSIVE SumLen(_)
SumLen(bs) == IF bs = <<>> THEN 0 ELSE Head(bs).len + 8 + SumLen(Tail(bs))
Size(s) == Footer + SumLen(s.blocks)
Empty(s) == s.adv = Len(s.blocks)
Full(s) == Size(s) >= s.cap
NewSeg(id) == [id |-> id, blocks |-> <<>>, adv |-> 0, cap |-> MaxSeg, mt |-> now]
RECURSIVE SumSize(_)
SumSize(ss) == IF ss = <<>> THEN 0 ELSE Size(Head(ss)) + SumSize(Tail(ss))
MaxSegId == IF segs = <<>> THEN 0 ELSE segs[Len(segs)].id

\* ---- what the queue hands out (implementation view) ----
HeadSeg == segs[1]
Current == IF Empty(HeadSeg) THEN [eof |-> TRUE, n |-> 0, len |-> 0]
           ELSE [eof |-> FALSE, n |-> HeadSeg.blocks[HeadSeg.adv + 1].n, len |-> HeadSeg.blocks[HeadSeg.adv + 1].len]
\* everything a consumer would get by Current/Advance until EOF
RECURSIVE Pending(_)
Pending(ss) == IF ss = <<>> THEN <<>>
               ELSE SubSeq(Head(ss).blocks, Head(ss).adv + 1, Len(Head(ss).blocks)) \o Pending(Tail(ss))

\* ---- contract ----
Expected == SubSeq(appended, nadv + 1, Len(appended))
DeliveredIsAppendOrder == Pending(segs) = Expected
CurrentIsOldestUnadvanced ==
    IF Expected = <<>> THEN Current.eof ELSE (~Current.eof /\ Current.n = Expected[1].n)

Obs == [cur |-> [eof |-> Current.eof, n |-> Current.n, len |-> Current.len], nsegs |-> Len(segs),
        pending |-> [i \in 1..Len(Pending(segs)) |-> Pending(segs)[i].n]]

Init == /\ now = 0
        /\ segs = <<[id |-> 1, blocks |-> <<>>, adv |-> 0, cap |-> MaxSeg, mt |-> 0]>>
        /\ nextId = 1
        /\ total = 0
        /\ appended = <<>> /\ nadv = 0
        /\ hist = <<>>

Log(rec) == hist' = Append(hist, rec)

\* Queue.Append: the limit test reads the shared counter; ErrSegmentFull rolls to a new segment.
DoAppend(L) ==
  /\ Len(hist) < MaxOps /\ Len(appended) < MaxAppends
  /\ IF total + L > MaxSize
     THEN /\ UNCHANGED <<segs, now, nextId, total, appended, nadv>>
          /\ Log([a |-> "append", n |-> nextId, len |-> L, err |-> "full", exp |-> Obs])
     ELSE LET tail == segs[Len(segs)]
              blk  == [n |-> nextId, len |-> L, at |-> now]
              segs1 == IF Size(tail) > tail.cap
                       THEN Append(segs, [NewSeg(tail.id + 1) EXCEPT !.blocks = <<blk>>])
                       ELSE [segs EXCEPT ![Len(segs)].blocks = Append(@, blk), ![Len(segs)].mt = now]
          IN /\ segs' = segs1
             /\ nextId' = nextId + 1
             /\ total' = total + L + 8
             /\ appended' = Append(appended, blk)
             /\ UNCHANGED <<nadv, now>>
             /\ hist' = Append(hist, [a |-> "append", n |-> nextId, len |-> L, err |-> "ok",
                                      exp |-> [cur |-> (IF Empty(segs1[1]) THEN [eof |-> TRUE, n |-> 0, len |-> 0]
                                                        ELSE [eof |-> FALSE, n |-> segs1[1].blocks[segs1[1].adv + 1].n,
                                                              len |-> segs1[1].blocks[segs1[1].adv + 1].len]),
                                               nsegs |-> Len(segs1),
                                               pending |-> [i \in 1..Len(Pending(segs1)) |-> Pending(segs1)[i].n]]])

\* trimHead(force = FALSE)
Trim(ss, tot) ==
  LET ss1 == IF Len(ss) = 1 /\ Full(ss[1]) THEN Append(ss, NewSeg(ss[Len(ss)].id + 1)) ELSE ss
  IN IF Len(ss1) > 1 THEN [segs |-> Tail(ss1), total |-> tot - Size(ss1[1])]
     ELSE [segs |-> ss1, total |-> tot]

\* Queue.Advance (assumed to be called only when Current returned a block: see DESIGN C26)
DoAdvance ==
  /\ Len(hist) < MaxOps
  /\ ~Empty(HeadSeg)
  /\ LET ss1 == [segs EXCEPT ![1].adv = @ + 1, ![1].mt = now]
         r   == IF Empty(ss1[1]) THEN Trim(ss1, total) ELSE [segs |-> ss1, total |-> total]
     IN /\ segs' = r.segs /\ total' = r.total
        /\ nadv' = nadv + 1
        /\ UNCHANGED <<nextId, appended, now>>
        /\ hist' = Append(hist, [a |-> "advance", exp |-> [pending |-> [i \in 1..Len(Pending(r.segs)) |-> Pending(r.segs)[i].n],
                                                            nsegs |-> Len(r.segs)]])

\* Scanner: NewScanner; Next x k over the head segment; Advance (bulk advance past the k blocks read)
DoScan(k) ==
  /\ Len(hist) < MaxOps
  /\ ~Empty(HeadSeg)
  /\ k \in 1..(Len(HeadSeg.blocks) - HeadSeg.adv)
  /\ LET read == SubSeq(HeadSeg.blocks, HeadSeg.adv + 1, HeadSeg.adv + k)
         ss1 == [segs EXCEPT ![1].adv = @ + k, ![1].mt = now]
         r   == IF Empty(ss1[1]) THEN Trim(ss1, total) ELSE [segs |-> ss1, total |-> total]
     IN /\ segs' = r.segs /\ total' = r.total
        /\ nadv' = nadv + k
        /\ UNCHANGED <<nextId, appended, now>>
        /\ hist' = Append(hist, [a |-> "scan", k |-> k,
                                 exp |-> [read |-> [i \in 1..k |-> read[i].n],
                                          pending |-> [i \in 1..Len(Pending(r.segs)) |-> Pending(r.segs)[i].n],
                                          nsegs |-> Len(r.segs)]])

\* Close + new process + Open: empty segments are removed from disk, capacity is re-derived from file sizes,
\* the shared counter restarts from the disk usage (not added when the head is at EOF).
RECURSIVE NonEmpty(_)
NonEmpty(ss) == IF ss = <<>> THEN <<>>
                ELSE (IF Empty(Head(ss)) THEN <<>> ELSE <<[Head(ss) EXCEPT !.cap = IF Size(Head(ss)) > MaxSeg THEN Size(Head(ss)) ELSE MaxSeg]>>)
                     \o NonEmpty(Tail(ss))
DoReopen ==
  /\ Len(hist) < MaxOps
  /\ LET kept == NonEmpty(segs)
         ss1  == IF kept = <<>> THEN <<NewSeg(MaxSegId + 1)>> ELSE kept
     IN /\ segs' = ss1
        /\ total' = IF Empty(ss1[1]) THEN 0 ELSE SumSize(ss1)
        /\ UNCHANGED <<nextId, appended, nadv, now>>
        /\ hist' = Append(hist, [a |-> "reopen", exp |-> [pending |-> [i \in 1..Len(Pending(ss1)) |-> Pending(ss1)[i].n],
                                                           nsegs |-> Len(ss1)]])

\* the clock advances (file mtimes have one-second granularity in PurgeOlderThan)
DoTick ==
  /\ Len(hist) < MaxOps /\ now < MaxTime
  /\ now' = now + 1
  /\ UNCHANGED <<segs, nextId, total, appended, nadv>>
  /\ hist' = Append(hist, [a |-> "tick", exp |-> [pending |-> [i \in 1..Len(Pending(segs)) |-> Pending(segs)[i].n], nsegs |-> Len(segs)]])

\* Queue.PurgeOlderThan(c): drop head segments whose mtime is before the cutoff, whatever they still hold
RECURSIVE PurgeLoop(_, _, _)
PurgeLoop(ss, tot, c) ==
  IF ss[1].mt >= c THEN [segs |-> ss, total |-> tot]
  ELSE LET ss1 == IF Len(ss) = 1 THEN Append(ss, NewSeg(ss[1].id + 1)) ELSE ss
       IN PurgeLoop(Tail(ss1), tot - Size(ss1[1]), c)
DoPurge(c) ==
  /\ Len(hist) < MaxOps /\ c \in 1..now
  /\ LET r == PurgeLoop(segs, total, c)
         dropped == Len(Pending(segs)) - Len(Pending(r.segs))
     IN /\ segs' = r.segs /\ total' = r.total
        /\ nadv' = nadv + dropped
        /\ UNCHANGED <<nextId, appended, now>>
        /\ hist' = Append(hist, [a |-> "purge", c |-> c,
                                 exp |-> [pending |-> [i \in 1..Len(Pending(r.segs)) |-> Pending(r.segs)[i].n],
                                          nsegs |-> Len(r.segs),
                                          mustKeep |-> {appended[i].n : i \in {j \in (nadv + 1)..Len(appended) : appended[j].at >= c}}]])

Next == \/ \E L \in Lens : DoAppend(L)
        \/ DoTick
        \/ \E c \in 1..MaxTime : DoPurge(c)
        \/ DoAdvance
        \/ \E k \in 1..3 : DoScan(k)
        \/ DoReopen

Spec == Init /\ [][Next]_vars

\* ---- invariants ----
\* purge only drops a prefix of the pending entries, and never an entry appended at or after the cutoff
PurgeKeepsYoung ==
   [][\A c \in 1..MaxTime : DoPurge(c) =>
        /\ \E d \in 0..Len(Pending(segs)) : Pending(segs') = SubSeq(Pending(segs), d + 1, Len(Pending(segs)))
        /\ \A i \in 1..Len(Pending(segs)) : Pending(segs)[i].at >= c =>
               \E j \in 1..Len(Pending(segs')) : Pending(segs')[j].n = Pending(segs)[i].n]_vars
TypeOK == Len(segs) >= 1   \* (the shared counter can go negative in the code: a fresh queue does not count its first footer)
RejectedAppendChangesNothing ==
   [][\A L \in Lens : (DoAppend(L) /\ total + L > MaxSize) => UNCHANGED <<segs, appended, nadv>>]_vars
\* an empty head is only possible when it is the only segment (otherwise consumers would stall)
NoStall == (Len(segs) > 1) => ~Empty(HeadSeg)

View == <<segs, now, nextId, total, appended, nadv>>
=============================================================================
