SPECIFICATION Spec
CONSTANTS
  MaxGens = 8
  MinInit = 2
  Lvls = {1, 2, 3, 4}
  Shapes <- ShapesAll
  Tombs = {TRUE, FALSE}
  MaxEnv = 6
  OutShapes <- ShapesTwo
  KeepHist = TRUE
  MaxHist = 21
  NoIdle = TRUE
INVARIANTS EmitMaximal
CHECK_DEADLOCK FALSE
