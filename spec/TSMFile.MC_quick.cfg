SPECIFICATION Spec
CONSTANTS
  NK = 2
  MaxT = 2
  Files <- TombQuick
  MaxOps = 2
  CrashPts <- Points
  KeepPts <- KeepAll
  KeepHist = FALSE
  Mode = "tomb"
INVARIANTS TypeOK HidesExactly MemoryIsDurable AtomicTombstoneCommit StaleTmpHarmless IndexConsistent
VIEW View
CHECK_DEADLOCK FALSE
