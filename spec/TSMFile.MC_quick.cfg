SPECIFICATION Spec
CONSTANTS
  NK = 2
  MaxT = 2
  Files <- TombQuick
  MaxOps = 2
  CrashPts <- Points
  KeepHist = FALSE
  Mode = "tomb"
INVARIANTS TypeOK HidesExactly MemoryIsDurable AtomicTombstoneCommit IndexConsistent
VIEW View
CHECK_DEADLOCK FALSE
