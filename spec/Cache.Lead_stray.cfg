SPECIFICATION Spec
CONSTANTS
  Keys = {"k1", "k2"}
  Times = {0}
  Types = {"n", "b"}
  Threads = {"w1", "s1"}
  Writers = {"w1"}
  Snappers = {"s1"}
  Deleters = {}
  Readers = {}
  Limit = 60
  Sequential = FALSE
  SplitLoads = FALSE
  Fused = TRUE
  BKeys = {}
  PerWriter = 1
  RandomPick = FALSE
  Rich = FALSE
  MaxWrites = 1
  MaxSnaps = 1
  MaxDeletes = 0
  MaxReads = 0
  MaxSizes = 0
  MaxOps = 3
INVARIANTS StrictSizeNoDedup
VIEW View
CHECK_DEADLOCK FALSE
