\* Model checking of the contract on a transactional store, Restamp = FALSE: 3 foreign keys x 4 primary keys, one of each with a "/" inside.  VIEW hides hist.
SPECIFICATION Spec
CONSTANTS
  FKs = {"f1", "f2", "fx"}
  Rs = {"p1", "p2", "p3", "px"}
  Tied = FALSE
  Urm = FALSE
  BadFKs = {"fx"}
  BadPKs = {"px"}
  Atomic = TRUE
  Restamp = FALSE
  WithAbort = TRUE
  MaxOps = 10
  Record = FALSE
  Probing = FALSE
  NoOpSteps = FALSE
INVARIANTS TypeOK Inv_Outcomes Inv_Verify Inv_Synced
VIEW ViewN
CHECK_DEADLOCK FALSE
