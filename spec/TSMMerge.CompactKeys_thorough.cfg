SPECIFICATION Spec
CONSTANTS
  Family = "compact"
  NTs = 3
  NFiles = 2
  NKeys = 2
  MaxBlocks = 2
  TombMode = "none"
  KeyMode = "small"
  MaxLen = 0
  PPBs <- PPBSmall
  NPicks = 0
  PickAt <- NoPick
INVARIANTS LWWIsFold CompactLemmas
CHECK_DEADLOCK FALSE
