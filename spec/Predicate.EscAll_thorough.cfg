\* escape focus, thorough: measurement, tag key and tag value all range over every string of length <= 2
\* (the check runs one TLC per part of MeasSet: SWa SWb SWsp SWcm SWeq)
SPECIFICATION Spec
CONSTANTS
  MeasSet <- AllStr
  KeySet <- AllStr
  ValSet <- AllStr
  TagCounts = {0, 1}
  LeafMode = "series"
  Shape = "leaf"
  SkipName = TRUE
  PredKeys <- Plain
  PredVals <- Plain
INVARIANTS KeyRoundTrips ModelAgrees
CHECK_DEADLOCK FALSE
