\* escape focus, measurement names range over every string of length <= 2; leaf predicates
SPECIFICATION Spec
CONSTANTS
  MeasSet <- AllStr
  KeySet <- Heavy4
  ValSet <- Heavy4
  TagCounts = {0, 1}
  LeafMode = "series"
  Shape = "leaf"
  SkipName = TRUE
  PredKeys <- Plain
  PredVals <- Plain
INVARIANTS KeyRoundTrips ModelAgrees
CHECK_DEADLOCK FALSE
