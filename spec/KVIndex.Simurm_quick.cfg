\* Simulation: random behaviours, refused / failed / idle operations are steps too (checks/XKVINDEX.py passes -simulate num=.. -depth .. and sets Atomic to the store kind it replays on).
SPECIFICATION SimSpec
CONSTANTS
  FKs = {"u1", "u2"}
  Rs = {"r1", "r2", "r3"}
  Tied = TRUE
  Urm = TRUE
  BadFKs = {}
  BadPKs = {}
  Atomic = TRUE
  Restamp = FALSE
  WithAbort = TRUE
  MaxOps = 14
  Record = TRUE
  Probing = FALSE
  NoOpSteps = TRUE
INVARIANTS TypeOK

CHECK_DEADLOCK FALSE
