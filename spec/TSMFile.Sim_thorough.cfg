SPECIFICATION Spec
CONSTANTS
  NK = 3
  MaxT = 3
  Files <- TombThorough
  MaxOps = 5
  CrashPts <- CrashSome
  KeepPts <- KeepSome
  KeepHist = TRUE
  Mode = "tomb"
INVARIANTS EmitMaximal
CHECK_DEADLOCK FALSE
