SPECIFICATION Spec
CONSTANTS
  NK = 3
  MaxT = 3
  Files <- TombThorough
  MaxOps = 4
  CrashPts <- CrashSome
  KeepHist = TRUE
  Mode = "tomb"
INVARIANTS EmitMaximal
CHECK_DEADLOCK FALSE
