SPECIFICATION Spec
CONSTANTS
  DBs1 = {"d1"}
  DBs2 = {}
  RPs = {"r1", "r2", "autogen"}
  VirtOrgs = {1}
  CollideOrgs = {1}
  MaxOps = 5
  MaxMaps = 3
  KeepObs = TRUE
INVARIANTS TypeOK
CHECK_DEADLOCK FALSE
