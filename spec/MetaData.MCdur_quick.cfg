\* Model checking of the contract on the intended design (quirk constants FALSE), durations in focus: 1 database x 2 policy names, every point of the duration scale that sits on a branch of the rules.  VIEW hides hist.
SPECIFICATION Spec
CONSTANTS
  DBs = {"d1"}
  RPs = {"autogen", "r2"}
  WithEmptyDB = FALSE
  CDurs = {0, 1, 2, 5, 6, 9, 10, 11}
  CSGDs = {0, 1, 3, 8}
  CReps = {0, 1}
  XNames = {"r2"}
  XDurs = {99, 0, 1, 6, 10}
  XSGDs = {0, 1, 8}
  XReps = {99, 2}
  UNames = {"-", "r2"}
  UDurs = {99, 0, 1, 2, 5, 9}
  USGDs = {99, 0, 1, 4, 9}
  UFull = TRUE
  AutoCreate = FALSE
  MaxSG = 0
  MaxOps = 3
  Record = FALSE
  Probing = FALSE
  NoOpSteps = FALSE
  DropKeepsDefault = FALSE
  RenameKeepsDefault = FALSE
  HalfYearIsLong = FALSE
  RenameAcceptsEmpty = FALSE
INVARIANTS Inv_Names Inv_ShardGroups Inv_Default Inv_Durations Inv_Outcomes
VIEW ViewN
CHECK_DEADLOCK FALSE
