---------------------------- MODULE BucketDelete ----------------------------
(* C17 -- bucket delete (time range + predicate) across the shards of a bucket, with concurrent writers.   *)
(*                                                                                                          *)
(* Anchors: tsdb/store.go Store.DeleteSeriesWithPredicate / Store.WriteToShard, tsdb/epoch_tracker.go,     *)
(* tsdb/guard.go, tsdb/engine/tsm1/engine.go deleteSeriesRange (data removal + index reconciliation).      *)
(*                                                                                                          *)
(* Implementation layer (what the code does, one action per critical section):                              *)
(*   - one epochTracker per shard: `epoch` counter, `largest` delete generation, the pending delete with    *)
(*     its `pending` count (= e.writes at WaitDelete time: the code waits for EVERY write that is in        *)
(*     flight on that shard, conflicting or not -- only later writers are filtered by the guard);           *)
(*   - WriteToShard = WriteBegin (StartWrite: epoch++, collect the guards of pending deletes) ... WriteEnd  *)
(*     (wait for matching guards, Shard.WritePoints, EndWrite);                                             *)
(*   - DeleteSeriesWithPredicate = DeleteStart (one goroutine per shard, serialized by limiter.NewFixed(1)) *)
(*     then per shard, in either order: DeleteInstall (limiter taken, WaitDelete: guard newGuard(min,max,   *)
(*     nil,nil) installed), DeleteWaited (waiter.Wait returned), DeleteShard (data removed),                *)
(*     DeleteReconcileIndex (series without remaining data dropped from the shard index, measurement        *)
(*     dropped when it has no series left), DeleteDone (waiter.Done: guard released, limiter released);     *)
(*     DeleteEnd (call returns).                                                                            *)
(*   Deliberate deviations: the per-measurement / per-batch loop inside one shard is collapsed into one     *)
(*   DeleteShard + one DeleteReconcileIndex (non-conflicting writes commute with both); reconciliation is   *)
(*   atomic (the code comment at engine.go "inherently racy" window between Cache.Keys() and DropSeries     *)
(*   has no schedule point and is not modelled).                                                            *)
(*                                                                                                          *)
(* Contract layer (C17): `written` (ghost: last acknowledged write per point, with the flag "its StartWrite *)
(* came after the delete's guard was installed on that shard") gives the expected readable data            *)
(* `Expected`; ExactData, MetadataExact, NonConflictingWriteNeverBlocked, DeleteWaitsForEarlierWriters.     *)
(* "Conflict" = the write has a timestamp inside the delete's [lo,hi] (series are not part of the guard).  *)
EXTENDS Integers, Sequences, FiniteSets, TLC

CONSTANTS Series,      \* subset of 1..4, indexes into SeriesTable
          Times,       \* timestamps data can have (1..3); range bounds are taken from 0..4
          Preds,       \* set of predicates (records [m, op, k]); use one of the Preds* operators below
          Ranges,      \* set of <<lo, hi>>
          InitFam,     \* family of time sets (ascending tuples) an initial (shard, series) cell can hold
          Inits,       \* filter on complete initial datasets (InitsAny = none); use an Inits* operator below
          NWriters,
          MaxWrites,   \* total number of writes (free mode)
          PlanMode,    \* TRUE: each writer performs exactly the one write chosen in Init (balanced simulation)
          WTimeSets,   \* family of timestamp sets one write can carry
          KeepHist,    \* FALSE in pure model-checking configs (history not recorded)
          HookGran     \* TRUE: only schedules executable with the store-level park points (no writer step
                       \*       between DeleteShard(i) and DeleteDone(i))

VARIABLES model,     \* [Shards -> [Series \X Times -> Nat]]  stored value per point, 0 = absent   (contract level data)
          live,      \* [Shards -> SUBSET Series]             series present in the shard index
          meas,      \* [Shards -> SUBSET STRING]             measurements present in the shard index
          written,   \* ghost: [Shards -> [Series \X Times -> [v: Nat, ag: BOOLEAN]]]
          epoch,     \* [Shards -> Nat]        epochTracker.epoch
          largest,   \* [Shards -> Nat]        epochTracker.largest
          dgen,      \* [Shards -> Nat]        generation of the pending delete
          dpending,  \* [Shards -> Int]        epochDeleteState.pending
          wst,       \* [Writers -> record]    writer state
          nw,        \* number of writes begun
          dphase,    \* "idle" | "running" | "done"
          dpred, drange,       \* the delete's arguments (fixed in Init)
          dstep,     \* [Shards -> "none"|"entered"|"installed"|"guarded"|"deleted"|"reconciled"|"done"]
          init0,     \* the initial dataset (constant along a behaviour; part of the replay case)
          plan,      \* [Writers -> <<shard, series, T>>]: the one write each writer performs (PlanMode only)
          setup,     \* set-up phase counter: the delete's arguments and the plans are chosen one per step before
                     \* anything runs (keeps the branching of every later step small, so that random simulation
                     \* spreads over schedules instead of over arguments)
          hist

vars == <<model, live, meas, written, epoch, largest, dgen, dpending, wst, nw, dphase, dpred, drange, dstep, init0, plan, setup, hist>>

Shards  == {1, 2}
Writers == 1..NWriters
SeriesTable == << [m |-> "m1", k |-> "a"], [m |-> "m1", k |-> "b"], [m |-> "m2", k |-> "a"], [m |-> "m2", k |-> "b"] >>
MeasOf(s) == SeriesTable[s].m
TagOf(s)  == SeriesTable[s].k
Points == Series \X Times

\* ---- predicate and range domains -------------------------------------------------------------
PMatch(p, s) == /\ (p.m = "*" \/ p.m = MeasOf(s))
                /\ (p.k = "*" \/ (IF p.op = "=" THEN TagOf(s) = p.k ELSE TagOf(s) # p.k))
PredsEq   == [m : {"*", "m1", "m2"}, op : {"="}, k : {"*", "a", "b", "c"}]
PredsNeq  == [m : {"*", "m1", "m2"}, op : {"!="}, k : {"a", "b", "c"}]
PredsAll  == PredsEq \cup PredsNeq
PredsMC   == { [m |-> "*", op |-> "=", k |-> "*"], [m |-> "m1", op |-> "=", k |-> "*"],
               [m |-> "*", op |-> "=", k |-> "a"], [m |-> "m1", op |-> "=", k |-> "b"],
               [m |-> "*", op |-> "!=", k |-> "a"] }
RangesAll == { <<lo, hi>> \in (0..4) \X (0..4) : lo <= hi }
RangesMC  == { <<0, 4>>, <<1, 3>>, <<2, 2>>, <<1, 2>>, <<3, 4>>, <<0, 0>> }
\* time sets are carried as tuples (ascending) inside states
FamFull   == { <<>>, <<1, 2, 3>>, <<2>>, <<1, 3>> }
FamMC     == { <<>>, <<1, 2, 3>> }
FamConc   == { <<1, 2, 3>>, <<2>> }
Elems(q)  == { q[j] : j \in 1..Len(q) }
Fam3      == { <<>>, <<1, 2, 3>>, <<2>> }
InitsOf(F)  == [Shards \X Series -> F]
InitsAny    == InitsOf(FamFull)        \* no restriction beyond the cell family
\* four hand-picked datasets for the quick model-checking config: everything everywhere / each series in one shard
\* only / one shard empty / one series absent
InitsMCq    == { f \in InitsOf(FamMC) :
                   LET ne == { c \in Shards \X Series : f[c] # <<>> } IN
                   \/ ne = Shards \X Series
                   \/ ne = { c \in Shards \X Series : c[1] = 1 }
                   \/ \E s0 \in Series : ne = { c \in Shards \X Series : (c[1] = 1) = (c[2] = s0) }
                   \/ \E s0 \in Series : ne = { c \in Shards \X Series : c[2] # s0 } }
PredsMC3    == { [m |-> "*", op |-> "=", k |-> "*"], [m |-> "*", op |-> "=", k |-> "a"], [m |-> "m1", op |-> "=", k |-> "b"] }
PredsMCq    == { [m |-> "*", op |-> "=", k |-> "*"], [m |-> "*", op |-> "=", k |-> "a"] }
RangesMCq   == { <<2, 2>>, <<1, 3>>, <<0, 0>> }
RangesMC4   == { <<0, 4>>, <<2, 2>>, <<1, 2>>, <<0, 0>> }
AnySeries0  == CHOOSE s \in Series : \A x \in Series : s <= x
\* three of the datasets above (quick tier): everything everywhere / shard 2 empty / first series only in shard 1
InitsMCq3   == { f \in InitsMCq :
                   LET ne == { c \in Shards \X Series : f[c] # <<>> } IN
                   \/ ne = Shards \X Series
                   \/ ne = { c \in Shards \X Series : c[1] = 1 }
                   \/ ne = { c \in Shards \X Series : (c[1] = 1) = (c[2] = AnySeries0) }}
\* a write is a batch carrying a SET of timestamps (ascending tuple); it conflicts with the delete iff SOME timestamp of the
\* batch lies inside [lo,hi] (guard.Matches tests point by point) -- a batch that straddles the range, e.g. <<1,3>> against
\* [2,2], does not conflict
WTimeSetsAll == { <<1>>, <<2>>, <<3>>, <<1, 2>>, <<2, 3>>, <<1, 3>>, <<1, 2, 3>> }
WTimeSetsStraddle == { <<1, 3>>, <<2>> }
RangesMid    == { <<2, 2>> }
WTimeSetsMC  == { <<2>>, <<1, 3>> }

InRange(t) == drange[1] <= t /\ t <= drange[2]
InDel(x)   == PMatch(dpred, x[1]) /\ InRange(x[2])

\* ---- contract layer ---------------------------------------------------------------------------
Applied(i) == dstep[i] \in {"deleted", "reconciled", "done"}
Expected(i) == [x \in Points |-> IF Applied(i) /\ InDel(x) /\ ~written[i][x].ag THEN 0 ELSE written[i][x].v]
HasData(i, s) == \E t \in Times : model[i][<<s, t>>] # 0

\* removed points = exactly {matching series} x range (points of writes ordered after the delete excepted), all else readable
ExactData == \A i \in Shards : model[i] = Expected(i)
\* metadata lists a series (measurement) iff it has remaining data; only the window between data removal and
\* reconciliation of the same shard is exempt
MetadataExact == \A i \in Shards : dstep[i] # "deleted" =>
                    /\ live[i] = {s \in Series : HasData(i, s)}
                    /\ meas[i] = {MeasOf(s) : s \in live[i]}
\* bucket-level listing (what MeasurementNames / series iterators over all shards return)
ListedSeries == UNION {live[i] : i \in Shards}
ListedMeas   == UNION {meas[i] : i \in Shards}

InMap(i) == dstep[i] \in {"installed", "guarded", "deleted", "reconciled"}      \* delete present in epochTracker.deletes
Started(w) == wst[w].st = "started"
Blocked(w) == Started(w) /\ wst[w].waits /\ dstep[wst[w].sh] # "done"         \* guard.Wait() has not returned
Conflicts(T) == \E t \in Elems(T) : InRange(t)
NonConflictingWriteNeverBlocked == \A w \in Writers : Blocked(w) => Conflicts(wst[w].T)
DeleteWaitsForEarlierWriters ==
    \A i \in Shards : dstep[i] \in {"guarded", "deleted", "reconciled"} =>
        ~ \E w \in Writers : Started(w) /\ wst[w].sh = i /\ wst[w].gen < dgen[i]
\* a conflicting writer that saw the guard does not get through before the guard is released
ConflictingWriteWaits ==
    \A w \in Writers : (Started(w) /\ wst[w].ag /\ InMap(wst[w].sh) /\ wst[w].gen > dgen[wst[w].sh] /\ Conflicts(wst[w].T)) => Blocked(w)

NActive(i) == Cardinality({w \in Writers : Started(w) /\ wst[w].sh = i})

TypeOK == /\ \A i \in Shards : dpending[i] >= 0 /\ epoch[i] >= largest[i]
          /\ nw \in 0..(MaxWrites + NWriters)
          /\ dphase \in {"idle", "running", "done"}

\* ---- observation recorded after every step (contract observables + schedule state for the driver) ----------
DataSet == { <<i, x[1], x[2], model[i][x]>> : i \in Shards, x \in Points }
Obs == [ data    |-> { q \in DataSet : q[4] # 0 },
         live    |-> { p \in { <<i, s>> : i \in Shards, s \in Series } : p[2] \in live[p[1]] },
         meas    |-> { p \in { <<i, m>> : i \in Shards, m \in {"m1", "m2"} } : p[2] \in meas[p[1]] },
         blocked |-> { w \in Writers : Blocked(w) },
         dstep   |-> dstep,
         pending |-> dpending ]

\* ---- initial states ---------------------------------------------------------------------------------------
IdleW == [st |-> "idle"]
Choices == Shards \X Series \X WTimeSets

\* set-up phase: steps 1..NCells choose the initial dataset cell by cell, then the predicate, the range and (PlanMode)
\* one plan per writer; nothing else runs before the set-up is complete
NS == Cardinality(Series)
NCells == 2 * NS
SeriesSeq == [j \in 1..NS |-> CHOOSE s \in Series : Cardinality({x \in Series : x < s}) = j - 1]
CellOf(n) == << ((n - 1) \div NS) + 1, SeriesSeq[((n - 1) % NS) + 1] >>
SetupSteps == NCells + 2 + (IF PlanMode THEN NWriters ELSE 0)
Ready == setup = SetupSteps
AnySeries == CHOOSE s \in Series : TRUE

Init == /\ init0 = [c \in Shards \X Series |-> <<>>]
        /\ dpred = [m |-> "*", op |-> "=", k |-> "*"]
        /\ drange = <<0, 0>>
        /\ plan = [w \in Writers |-> <<1, AnySeries, <<>> >>]
        /\ setup = 0
        /\ model = [i \in Shards |-> [x \in Points |-> 0]]
        /\ written = [i \in Shards |-> [x \in Points |-> [v |-> 0, ag |-> FALSE]]]
        /\ live = [i \in Shards |-> {}]
        /\ meas = [i \in Shards |-> {}]
        /\ epoch = [i \in Shards |-> 0] /\ largest = [i \in Shards |-> 0]
        /\ dgen = [i \in Shards |-> 0] /\ dpending = [i \in Shards |-> 0]
        /\ wst = [w \in Writers |-> IdleW]
        /\ nw = 0
        /\ dphase = "idle"
        /\ dstep = [i \in Shards |-> "none"]
        /\ hist = <<>>

\* ---- set-up phase (not part of the recorded history) -------------------------------------------------------
ChooseInit  == /\ setup < NCells
               /\ \E q \in InitFam : init0' = [init0 EXCEPT ![CellOf(setup + 1)] = q]
               /\ setup' = setup + 1
               /\ UNCHANGED <<model, live, meas, written, epoch, largest, dgen, dpending, wst, nw, dphase, dpred, drange, dstep, plan, hist>>
\* the initial dataset is loaded (value 1 everywhere) when the predicate is chosen
ChoosePred  == /\ setup = NCells /\ init0 \in Inits
               /\ dpred' \in Preds /\ setup' = setup + 1
               /\ model' = [i \in Shards |-> [x \in Points |-> IF x[2] \in Elems(init0[<<i, x[1]>>]) THEN 1 ELSE 0]]
               /\ written' = [i \in Shards |-> [x \in Points |-> [v |-> IF x[2] \in Elems(init0[<<i, x[1]>>]) THEN 1 ELSE 0, ag |-> FALSE]]]
               /\ live' = [i \in Shards |-> {s \in Series : init0[<<i, s>>] # <<>>}]
               /\ meas' = [i \in Shards |-> {MeasOf(s) : s \in {s2 \in Series : init0[<<i, s2>>] # <<>>}}]
               /\ UNCHANGED <<epoch, largest, dgen, dpending, wst, nw, dphase, drange, dstep, init0, plan, hist>>
ChooseRange == /\ setup = NCells + 1 /\ drange' \in Ranges /\ setup' = setup + 1
               /\ UNCHANGED <<model, live, meas, written, epoch, largest, dgen, dpending, wst, nw, dphase, dpred, dstep, init0, plan, hist>>
ChoosePlan  == /\ PlanMode /\ setup >= NCells + 2 /\ setup < SetupSteps
               /\ \E c \in Choices : plan' = [plan EXCEPT ![setup - NCells - 1] = c]
               /\ setup' = setup + 1
               /\ UNCHANGED <<model, live, meas, written, epoch, largest, dgen, dpending, wst, nw, dphase, dpred, drange, dstep, init0, hist>>

Log(rec) == hist' = IF KeepHist THEN Append(hist, rec) ELSE hist
NoParkPoint == \E i \in Shards : dstep[i] \in {"deleted", "reconciled"}
WriterMayStep == ~HookGran \/ ~NoParkPoint
\* a writer whose guard has just been released runs to completion without a park point: in HookGran mode nothing
\* else is scheduled before it has ended
ReleasedW(w) == Started(w) /\ wst[w].waits /\ dstep[wst[w].sh] = "done"
Quiet == ~HookGran \/ ~\E w \in Writers : ReleasedW(w)

\* ---- writers ----------------------------------------------------------------------------------------------
\* Store.WriteToShard up to and including epoch.StartWrite()
WriteBegin(w, i, s, T) ==
  /\ Ready /\ Quiet
  /\ wst[w].st = "idle"
  /\ WriterMayStep
  /\ IF PlanMode THEN plan[w] = <<i, s, T>>
                 ELSE nw < MaxWrites /\ \A w2 \in Writers : w2 < w => wst[w2].st # "idle"    \* writer ids are interchangeable
  /\ LET gen   == epoch[i] + 1
         waits == InMap(i) /\ Conflicts(T)                  \* guards collected from e.deletes; guard.Matches = time overlap
         ag    == dstep[i] \notin {"none", "entered"}
     IN /\ epoch' = [epoch EXCEPT ![i] = gen]
        /\ wst' = [wst EXCEPT ![w] = [st |-> "started", sh |-> i, s |-> s, T |-> T, gen |-> gen, v |-> nw + 2, waits |-> waits, ag |-> ag]]
        /\ nw' = nw + 1
        /\ UNCHANGED <<model, live, meas, written, largest, dgen, dpending, dphase, dpred, drange, dstep, init0, plan, setup>>
        /\ Log([a |-> "wbegin", w |-> w, sh |-> i, s |-> s, T |-> T, v |-> nw + 2, conflicts |-> Conflicts(T), exp |-> Obs'])

\* guard.Wait() returned (or no matching guard), Shard.WritePoints, epoch.EndWrite(gen)
WriteEnd(w) ==
  /\ Started(w)
  /\ ~Blocked(w)
  /\ WriterMayStep /\ (Quiet \/ ReleasedW(w))
  /\ LET i == wst[w].sh  s == wst[w].s  T == wst[w].T
     IN /\ model' = [model EXCEPT ![i] = [x \in Points |-> IF x[1] = s /\ x[2] \in Elems(T) THEN wst[w].v ELSE @[x]]]
        /\ written' = [written EXCEPT ![i] = [x \in Points |-> IF x[1] = s /\ x[2] \in Elems(T) THEN [v |-> wst[w].v, ag |-> wst[w].ag] ELSE @[x]]]
        /\ live' = [live EXCEPT ![i] = @ \cup {s}]
        /\ meas' = [meas EXCEPT ![i] = @ \cup {MeasOf(s)}]
        /\ dpending' = IF wst[w].gen <= largest[i] /\ InMap(i) /\ wst[w].gen <= dgen[i]
                       THEN [dpending EXCEPT ![i] = @ - 1] ELSE dpending
        /\ wst' = [wst EXCEPT ![w] = IF PlanMode THEN [st |-> "finished"] ELSE IdleW]
        /\ UNCHANGED <<epoch, largest, dgen, nw, dphase, dpred, drange, dstep, init0, plan, setup>>
        /\ Log([a |-> "wend", w |-> w, sh |-> i, exp |-> Obs'])

\* ---- the delete -------------------------------------------------------------------------------------------
DeleteStart ==
  /\ Ready
  /\ dphase = "idle"
  /\ dphase' = "running"
  /\ dstep' = [i \in Shards |-> "entered"]
  /\ UNCHANGED <<model, live, meas, written, epoch, largest, dgen, dpending, wst, nw, dpred, drange, init0, plan, setup>>
  /\ Log([a |-> "dstart", pred |-> dpred, lo |-> drange[1], hi |-> drange[2], exp |-> Obs'])

\* limit.Take + epochs[sh.id].WaitDelete(newGuard(min, max, nil, nil))
DeleteInstall(i) ==
  /\ Quiet
  /\ dphase = "running" /\ dstep[i] = "entered"
  /\ \A j \in Shards \ {i} : dstep[j] \in {"entered", "done"}
  /\ epoch' = [epoch EXCEPT ![i] = @ + 1]
  /\ dgen' = [dgen EXCEPT ![i] = epoch[i] + 1]
  /\ largest' = [largest EXCEPT ![i] = epoch[i] + 1]
  /\ dpending' = [dpending EXCEPT ![i] = NActive(i)]
  /\ dstep' = [dstep EXCEPT ![i] = "installed"]
  /\ UNCHANGED <<model, live, meas, written, wst, nw, dphase, dpred, drange, init0, plan, setup>>
  /\ Log([a |-> "dinstall", sh |-> i, exp |-> Obs'])

\* waiter.Wait() returns
DeleteWaited(i) ==
  /\ Quiet
  /\ dstep[i] = "installed" /\ dpending[i] = 0
  /\ dstep' = [dstep EXCEPT ![i] = "guarded"]
  /\ UNCHANGED <<model, live, meas, written, epoch, largest, dgen, dpending, wst, nw, dphase, dpred, drange, init0, plan, setup>>
  /\ Log([a |-> "dwaited", sh |-> i, exp |-> Obs'])

\* Shard.DeleteSeriesRange: TSM tombstones + Cache.DeleteRange + WAL delete entry for every matching series
DeleteShard(i) ==
  /\ dstep[i] = "guarded"
  /\ model' = [model EXCEPT ![i] = [x \in Points |-> IF InDel(x) THEN 0 ELSE @[x]]]
  /\ dstep' = [dstep EXCEPT ![i] = "deleted"]
  /\ UNCHANGED <<live, meas, written, epoch, largest, dgen, dpending, wst, nw, dphase, dpred, drange, init0, plan, setup>>
  /\ Log([a |-> "dshard", sh |-> i, exp |-> Obs'])

\* index reconciliation: DropSeries for matching series with no remaining data, DropMeasurementIfSeriesNotExist
DeleteReconcileIndex(i) ==
  /\ dstep[i] = "deleted"
  /\ LET cand == {s \in live[i] : PMatch(dpred, s)}
         gone == {s \in cand : ~HasData(i, s)}
         keep == live[i] \ gone
     IN /\ live' = [live EXCEPT ![i] = keep]
        /\ meas' = [meas EXCEPT ![i] = {m \in @ : (\E s \in gone : MeasOf(s) = m) => (\E s \in keep : MeasOf(s) = m)}]
  /\ dstep' = [dstep EXCEPT ![i] = "reconciled"]
  /\ UNCHANGED <<model, written, epoch, largest, dgen, dpending, wst, nw, dphase, dpred, drange, init0, plan, setup>>
  /\ Log([a |-> "dreconcile", sh |-> i, exp |-> Obs'])

\* waiter.Done(): delete removed from the tracker, guard released; limit.Release()
DeleteDone(i) ==
  /\ dstep[i] = "reconciled"
  /\ dstep' = [dstep EXCEPT ![i] = "done"]
  /\ UNCHANGED <<model, live, meas, written, epoch, largest, dgen, dpending, wst, nw, dphase, dpred, drange, init0, plan, setup>>
  /\ Log([a |-> "ddone", sh |-> i, exp |-> Obs'])

DeleteEnd ==
  /\ Quiet
  /\ dphase = "running" /\ \A i \in Shards : dstep[i] = "done"
  /\ dphase' = "done"
  /\ UNCHANGED <<model, live, meas, written, epoch, largest, dgen, dpending, wst, nw, dstep, dpred, drange, init0, plan, setup>>
  /\ Log([a |-> "dend", exp |-> Obs'])

WritesExhausted == IF PlanMode THEN \A w \in Writers : wst[w].st = "finished" ELSE nw >= MaxWrites
\* the bounded model has run to completion (so that TLC's deadlock check means: the protocol cannot get stuck)
Terminated == /\ dphase = "done" /\ (\A w \in Writers : ~Started(w)) /\ WritesExhausted
              /\ UNCHANGED vars

\* a dataset outside the configured filter is not explored further
Rejected == setup = NCells /\ init0 \notin Inits /\ UNCHANGED vars

Next == \/ Rejected
        \/ ChooseInit \/ ChoosePred \/ ChooseRange \/ ChoosePlan
        \/ \E w \in Writers, c \in Choices : WriteBegin(w, c[1], c[2], c[3])
        \/ \E w \in Writers : WriteEnd(w)
        \/ DeleteStart
        \/ \E i \in Shards : DeleteInstall(i) \/ DeleteWaited(i) \/ DeleteShard(i) \/ DeleteReconcileIndex(i) \/ DeleteDone(i)
        \/ DeleteEnd
        \/ Terminated

Spec == Init /\ [][Next]_vars

\* the never-blocked claim in its direct form (model-checking configs, HookGran = FALSE): a started writer without a
\* timestamp in the delete's range can always finish, and a new write can always start
NonConflictingWriteEnabled ==
    \A w \in Writers : (Started(w) /\ ~Conflicts(wst[w].T)) => ENABLED WriteEnd(w)

View == <<model, live, meas, written, epoch, largest, dgen, dpending, wst, nw, dphase, dpred, drange, dstep, init0, plan, setup>>

=============================================================================
