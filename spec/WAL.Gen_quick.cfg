SPECIFICATION Spec
CONSTANTS
  Keys = {"k1", "k2"}
  Times = {1, 2, 3}
  SegSize = 4
  Menu <- MenuQuick
  MaxOps = 10
  MaxEntries = 5
  MaxPending = 2
  HoleQuirk = FALSE
  Record = TRUE
INVARIANTS TypeOK ReplayEqualsAcked
CHECK_DEADLOCK FALSE
