SPECIFICATION Spec
CONSTANTS
  Tasks = {1, 2}
  NW = 2
  Profiles <- ProfilesAll2
  Backs = {0, 1, 2, 3}
  MaxTime = 8
  MaxSched = 6
  MaxOps = 24
  NegReset = FALSE
  RefreshOnRemove = TRUE
  Discipline = TRUE
  Record = TRUE
INVARIANTS TypeOK OncePerDueTime NoSelfConcurrency WorkerOfClass NoDispatchAfterRelease AtRest NoSpin MockSafe

CHECK_DEADLOCK FALSE
