------------------------------ MODULE TSMFile ------------------------------
(* TSM file index (tsm1 writer.go / reader.go: tsmWriter, TSMReader, indirectIndex) and the tombstoner commit   *)
(* (tombstone.go), property C08.                                                                                 *)
(*                                                                                                               *)
(* Contract layer:                                                                                               *)
(*   - a written file reads back with the same keys, types, index entries and values, and Contains,              *)
(*     ContainsValue, Seek, KeyAt, Entries, TimeRange, KeyRange, KeyCount, Type agree with that content;         *)
(*   - tombstones hide exactly the requested key/time ranges:  Visible(k) = Pts(k) \ Hidden(reqs, k);            *)
(*   - they persist across reopen, and after a crash anywhere in the tombstone commit the reopened file shows    *)
(*     exactly the old or exactly the new tombstone set (AtomicTombstoneCommit).                                 *)
(* Implementation layer: the index as the code keeps it after deletes (live offsets, per key tombstone ranges:   *)
(* indirectIndex.DeleteRange with its key/time guards, full-key removal and the "contiguous window" rule;        *)
(* batchDelete guards; Tombstoner.AddRange filter), and the v4 commit as one action per step: create tmp (O_EXCL),*)
(* copy the old tombstone file, flush, fsync, rename, sync directory; crash; reopen (engine cleanup removes *.tmp).*)
(*                                                                                                               *)
(* Keys are 1..NK (sorted order = numeric order), times 0..MaxT; NegInf / PosInf stand for math.MinInt64 /        *)
(* math.MaxInt64.  The driver concretises keys (escaped, long) and times (around 0, Min/MaxNanoTime).             *)
EXTENDS Integers, Sequences, FiniteSets, TLC, Json

CONSTANTS NK,          \* key universe 1..NK
          MaxT,        \* data times 0..MaxT
          Files,       \* set of files to start from: [1..NK -> layouts]; a layout is a sequence of blocks (sets of times)
          MaxOps,      \* bound on delete operations per behaviour
          CrashPts,    \* commit points at which a behaviour may crash and restart through the engine (cleanup removes *.tmp)
          KeepPts,     \* commit points at which a behaviour may crash and reopen only the reader: a stale .tombstone.tmp stays
          KeepHist,
          Mode         \* "pristine": input shaped (no actions);  "tomb": delete / crash / reopen behaviours

VARIABLES file,        \* the TSM file content (never changes after Init)
          ix,          \* volatile: in-memory index [live, ts]
          tombFile,    \* durable: entries of the committed tombstone file (<<>> = no file)
          tmp,         \* durable: the .tombstone.tmp file  [exists, copied, new]
          pc,          \* "idle" | commit points | "crashed"
          cur,         \* operation in flight: [op, entries] or NoOp
          reqs,        \* contract: delete requests in effect (acknowledged, or recovered as "new" after a crash)
          nops,
          hist

vars == <<file, ix, tombFile, tmp, pc, cur, reqs, nops, hist>>

NegInf == -100
PosInf == 100
Points == {"created", "copied", "flushed", "synced", "renamed", "dirsynced"}
CrashSome == {"renamed"}                \* simulation configs: engine restart after the rename (new outcome) ...
KeepSome == {"synced"}                  \* ... reader reopen with the complete temp file left behind (old outcome)
KeepAll == {"created", "copied", "flushed", "synced"}
NoOp == [op |-> [a |-> "none", keys |-> {}, lo |-> 0, hi |-> 0], entries |-> <<>>]
NoTmp == [exists |-> FALSE, copied |-> 0, new |-> "none"]
Times == 0..MaxT
ProbeT == (-1)..(MaxT + 1)
K == 1..NK

Min(S) == CHOOSE x \in S : \A y \in S : x <= y
Max(S) == CHOOSE x \in S : \A y \in S : x >= y
RECURSIVE SortSet(_)
SortSet(S) == IF S = {} THEN <<>> ELSE <<Min(S)>> \o SortSet(S \ {Min(S)})
SeqToSet(s) == {s[i] : i \in 1..Len(s)}

\* ------------------------------------------------------------------ layouts (writer invariant: blocks ordered, disjoint)
Blocks(S) == SUBSET S \ {{}}
WellFormedLayout(l) == \A i \in 1..Len(l) : l[i] # {} /\ (i < Len(l) => Max(l[i]) < Min(l[i + 1]))
LayoutsUpTo(n) == {l \in UNION {[1..m -> Blocks(Times)] : m \in 0..n} : WellFormedLayout(l)}
\* catalogues used by the configs (cfg files cannot contain these literals)
LA == <<{0, 1, 2}>>
LB == <<{1}>>
LC == <<{0}, {2}>>
LD == <<{0, 1}, {2}>>
LE == <<{0, 1, 2, 3}>>
LF == <<{0, 1}, {3}>>
LG == <<{1}, {2, 3}>>
AllFilesOver(L) == {f \in [K -> L \cup {<<>>}] : \E k \in K : f[k] # <<>>}
PristineQuick == AllFilesOver({LB, LD})
PristineThorough == AllFilesOver(LayoutsUpTo(2))
Pad(f) == [k \in K |-> IF k \in DOMAIN f THEN f[k] ELSE <<>>]
TombQuick == {Pad(<<LA, LC>>), Pad(<<LD, <<>>, LB>>), Pad(<<<<>>, LC, LA>>)}
TombThorough == {Pad(<<LE, LF>>), Pad(<<LG, <<>>, LE>>), Pad(<<<<>>, LF, LG>>), Pad(<<LE, LE, LB>>), Pad(<<LF, LG, LF>>)}

\* ------------------------------------------------------------------ the file as written
Keys(f) == {k \in K : f[k] # <<>>}
Pts(f, k) == UNION {f[k][i] : i \in 1..Len(f[k])}
AllPts(f) == UNION {Pts(f, k) : k \in K}
Entries(f, k) == [i \in 1..Len(f[k]) |-> [min |-> Min(f[k][i]), max |-> Max(f[k][i]), n |-> Cardinality(f[k][i])]]
MinKey(f) == Min(Keys(f))
MaxKey(f) == Max(Keys(f))
FileMinT(f) == Min(AllPts(f))
FileMaxT(f) == Max(AllPts(f))                    \* exact also when every time is negative (F21 repaired in reader.go)
KMin(f, k) == Min(Pts(f, k))                     \* entries[0].MinTime
KMax(f, k) == Max(Pts(f, k))                     \* entries[len-1].MaxTime
TypeOf(k) == k % 5                                \* block type of the key (the driver maps 0..4 to the five TSM types)

\* ------------------------------------------------------------------ index lookups (indirectIndex)
IxInit(f) == [live |-> Keys(f), ts |-> [k \in K |-> <<>>]]
KeyCount(x) == Cardinality(x.live)
KeySeq(x) == SortSet(x.live)                                             \* KeyAt(0..)
Seek(x, k) == Cardinality({j \in x.live : j < k})                        \* contract: position of the first live key >= k
\* implementation: bytesutil.SearchBytesFixed never returns a position past the last element, so a key greater than
\* every live key yields the index of the LAST key instead of KeyCount (callers re-compare the key they find)
SeekImpl(x, k) == IF x.live # {} /\ Seek(x, k) = KeyCount(x) THEN KeyCount(x) - 1 ELSE Seek(x, k)
Contains(f, x, k) == k \in x.live                                        \* len(Entries(key)) > 0
EntryAt(f, x, k, t) == k \in x.live /\ \E i \in 1..Len(f[k]) : Min(f[k][i]) <= t /\ t <= Max(f[k][i])
InRanges(rs, t) == \E i \in 1..Len(rs) : rs[i].lo <= t /\ t <= rs[i].hi
ContainsValue(f, x, k, t) == EntryAt(f, x, k, t) /\ ~InRanges(x.ts[k], t)
\* ReadAll: blocks minus tombstoned ranges
VisibleImpl(f, x, k) == IF k \in x.live THEN {t \in Pts(f, k) : ~InRanges(x.ts[k], t)} ELSE {}

\* ------------------------------------------------------------------ deletes: what is recorded, how the index applies it
\* operation: [a |-> "deleteRange" | "delete", keys (set), lo, hi]
Full(e) == e.lo = NegInf /\ e.hi = PosInf
InKeyRange(f, k) == MinKey(f) <= k /\ k <= MaxKey(f)                       \* indirectIndex.ContainsKey = Tombstoner.FilterFn
RECURSIVE EntriesFor(_, _, _, _)
EntriesFor(f, ks, lo, hi) == IF ks = <<>> THEN <<>>
                             ELSE (IF InKeyRange(f, Head(ks)) THEN <<[k |-> Head(ks), lo |-> lo, hi |-> hi]>> ELSE <<>>)
                                  \o EntriesFor(f, Tail(ks), lo, hi)
\* TSMReader.DeleteRange -> batchDelete.DeleteRange guards -> Tombstoner.AddRange;  TSMReader.Delete -> Tombstoner.Add
Recorded(f, op) ==
  IF op.keys = {} THEN <<>>
  ELSE IF op.a = "delete" THEN EntriesFor(f, SortSet(op.keys), NegInf, PosInf)
  ELSE IF ~(MinKey(f) <= Max(op.keys) /\ MaxKey(f) >= Min(op.keys)) THEN <<>>
  ELSE IF ~(FileMinT(f) <= op.hi /\ FileMaxT(f) >= op.lo) THEN <<>>
  ELSE EntriesFor(f, SortSet(op.keys), op.lo, op.hi)

\* sort.Slice(newTs, by Min then Max)
RLess(a, b) == a.lo < b.lo \/ (a.lo = b.lo /\ a.hi <= b.hi)
RECURSIVE InsertSorted(_, _)
InsertSorted(rs, r) == IF rs = <<>> THEN <<r>>
                       ELSE IF RLess(Head(rs), r) THEN <<Head(rs)>> \o InsertSorted(Tail(rs), r)
                       ELSE <<r>> \o rs
\* the window rule: all tombstones line up (adjacent or overlapping pairwise neighbours) and span the key's time range
RECURSIVE Window(_, _, _, _)
Window(rs, j, mn, mx) ==
  IF j > Len(rs) THEN [ok |-> TRUE, mn |-> mn, mx |-> mx]
  ELSE LET p == rs[j - 1]
           t == rs[j] IN
       IF p.hi # t.lo - 1 /\ ~(p.lo <= t.hi /\ p.hi >= t.lo) THEN [ok |-> FALSE, mn |-> 0, mx |-> 0]
       ELSE Window(rs, j + 1, IF t.lo < mn THEN t.lo ELSE mn, IF t.hi > mx THEN t.hi ELSE mx)
Covers(rs, kmin, kmax) == LET w == Window(rs, 2, rs[1].lo, rs[1].hi) IN w.ok /\ w.mn <= kmin /\ w.mx >= kmax

\* indirectIndex.DeleteRange for one key (Delete when the range is the full int64 range)
ApplyEntry(f, x, e) ==
  IF Full(e) THEN [x EXCEPT !.live = @ \ {e.k}]
  ELSE IF e.lo > FileMaxT(f) \/ e.hi < FileMinT(f) THEN x
  ELSE IF e.k \notin x.live THEN x
  ELSE IF e.lo > KMax(f, e.k) \/ e.hi < KMin(f, e.k) THEN x
  ELSE IF e.lo <= KMin(f, e.k) /\ e.hi >= KMax(f, e.k) THEN [x EXCEPT !.live = @ \ {e.k}]
  ELSE LET newTs == InsertSorted(x.ts[e.k], [lo |-> e.lo, hi |-> e.hi]) IN
       [live |-> IF Covers(newTs, KMin(f, e.k), KMax(f, e.k)) THEN x.live \ {e.k} ELSE x.live,
        ts |-> [x.ts EXCEPT ![e.k] = newTs]]
RECURSIVE ApplyAll(_, _, _)
ApplyAll(f, x, es) == IF es = <<>> THEN x ELSE ApplyAll(f, ApplyEntry(f, x, Head(es)), Tail(es))
\* NewTSMReader: applyTombstones walks the whole tombstone file
Load(f, es) == ApplyAll(f, IxInit(f), es)

\* ------------------------------------------------------------------ contract
Hidden(rq, k) == UNION {{t \in Times : rq[i].lo <= t /\ t <= rq[i].hi} : i \in {j \in 1..Len(rq) : k \in rq[j].keys}}
Visible(f, rq, k) == Pts(f, k) \ Hidden(rq, k)
AsReq(op) == [keys |-> op.keys, lo |-> IF op.a = "delete" THEN NegInf ELSE op.lo, hi |-> IF op.a = "delete" THEN PosInf ELSE op.hi]

\* ------------------------------------------------------------------ observations exported for replay
VisMap(f, x) == [k \in K |-> SortSet(VisibleImpl(f, x, k))]
Obs(f, x, es) ==
  [keys |-> KeySeq(x), contains |-> [k \in K |-> Contains(f, x, k)], seek |-> [k \in K |-> Seek(x, k)],
   seekImpl |-> [k \in K |-> SeekImpl(x, k)],
   visible |-> VisMap(f, x),
   cv |-> [k \in K |-> [i \in 1..(MaxT + 3) |-> ContainsValue(f, x, k, i - 2)]],
   hastomb |-> es # <<>>]
FileOut(f) == [k \in K |-> [i \in 1..Len(f[k]) |-> SortSet(f[k][i])]]
PristineObs(f) ==
  [file |-> FileOut(f), types |-> [k \in K |-> TypeOf(k)],
   entries |-> [k \in K |-> Entries(f, k)],
   trange |-> <<FileMinT(f), FileMaxT(f)>>, krange |-> <<MinKey(f), MaxKey(f)>>,
   obs |-> Obs(f, IxInit(f), <<>>)]

Log(rec) == hist' = IF KeepHist THEN Append(hist, rec) ELSE hist

\* ------------------------------------------------------------------ actions (Mode = "tomb")
\* keep: the crash leaves the temp file behind (reader level reopen); err: the call fails, nothing is acknowledged
OpRecX(op, crash, keep, err, x, es, newx) ==
  [a |-> op.a, keys |-> SortSet(op.keys), lo |-> op.lo, hi |-> op.hi, crash |-> crash, keep |-> keep, err |-> err,
   exp |-> Obs(file, x, es), new |-> VisMap(file, newx)]
OpRec(op, crash, x, es, newx) == OpRecX(op, crash, FALSE, FALSE, x, es, newx)

\* TSMReader.DeleteRange / Delete up to prepareV4's O_EXCL create (nothing is created when every key is filtered out)
Begin(op) ==
  /\ Mode = "tomb" /\ pc = "idle" /\ nops < MaxOps
  /\ nops' = nops + 1
  /\ LET es == Recorded(file, op) IN
     IF es = <<>>
     THEN /\ reqs' = Append(reqs, AsReq(op))                  \* acknowledged, nothing to record
          /\ Log(OpRec(op, "none", ix, tombFile, ix))
          /\ UNCHANGED <<file, ix, tombFile, tmp, pc, cur>>
     ELSE IF tmp.exists
     \* prepareV4 opens the temp file with O_EXCL: while a stale temp file is around the call fails with "file exists";
     \* nothing is recorded, nothing is acknowledged (the engine's cleanup removes the file at the next restart)
     THEN /\ Log(OpRecX(op, "none", FALSE, TRUE, ix, tombFile, ApplyAll(file, ix, es)))
          /\ UNCHANGED <<file, ix, tombFile, tmp, pc, cur, reqs>>
     ELSE /\ cur' = [op |-> op, entries |-> es]
          /\ tmp' = [exists |-> TRUE, copied |-> 0, new |-> "none"]
          /\ pc' = "created"
          /\ UNCHANGED <<file, ix, tombFile, reqs, hist>>
\* prepareV4: io.Copy(tmp, old tombstone file)
Copy == /\ pc = "created"
        /\ tmp' = [tmp EXCEPT !.copied = Len(tombFile)]
        /\ pc' = "copied"
        /\ UNCHANGED <<file, ix, tombFile, cur, reqs, nops, hist>>
\* commit: gz.Close + bw.Flush - the new gzip member reaches the tmp file (unsynced)
Flush == /\ pc = "copied"
         /\ tmp' = [tmp EXCEPT !.new = "full"]
         /\ pc' = "flushed"
         /\ UNCHANGED <<file, ix, tombFile, cur, reqs, nops, hist>>
Fsync == /\ pc = "flushed" /\ pc' = "synced"
         /\ UNCHANGED <<file, ix, tombFile, tmp, cur, reqs, nops, hist>>
Rename == /\ pc = "synced"
          /\ tombFile' = tombFile \o cur.entries
          /\ tmp' = NoTmp
          /\ pc' = "renamed"
          /\ UNCHANGED <<file, ix, cur, reqs, nops, hist>>
SyncDir == /\ pc = "renamed" /\ pc' = "dirsynced"
           /\ UNCHANGED <<file, ix, tombFile, tmp, cur, reqs, nops, hist>>
\* applyTombstones (DeleteRange) / index.Delete (Delete); the call returns nil: the request is acknowledged
Apply == /\ pc = "dirsynced"
         /\ LET x1 == ApplyAll(file, ix, cur.entries) IN
            /\ ix' = x1
            /\ Log(OpRec(cur.op, "none", x1, tombFile, x1))
         /\ reqs' = Append(reqs, AsReq(cur.op))
         /\ cur' = NoOp /\ pc' = "idle"
         /\ UNCHANGED <<file, tombFile, tmp, nops>>
\* process / power failure at a commit point, then restart: Engine.cleanup removes *.tmp, NewTSMReader loads the file
CrashReopen ==
  /\ pc \in CrashPts
  /\ LET took == pc \in {"renamed", "dirsynced"}
         x1 == Load(file, tombFile) IN
     /\ ix' = x1
     /\ reqs' = IF took THEN Append(reqs, AsReq(cur.op)) ELSE reqs
     /\ Log(OpRec(cur.op, pc, x1, tombFile, ApplyAll(file, Load(file, tombFile), IF took THEN <<>> ELSE cur.entries)))
  /\ tmp' = NoTmp /\ cur' = NoOp /\ pc' = "idle"
  /\ UNCHANGED <<file, tombFile, nops>>
\* the same failure, but only the reader is reopened (TSMReader / Tombstoner level: nothing removes .tombstone.tmp)
CrashReopenKeep ==
  /\ pc \in KeepPts \cap {"created", "copied", "flushed", "synced"}
  /\ LET x1 == Load(file, tombFile) IN
     /\ ix' = x1
     /\ Log(OpRecX(cur.op, pc, TRUE, FALSE, x1, tombFile, ApplyAll(file, x1, cur.entries)))
  /\ tmp' = [tmp EXCEPT !.new = IF pc \in {"flushed", "synced"} THEN "full" ELSE "none"]
  /\ cur' = NoOp /\ pc' = "idle"
  /\ UNCHANGED <<file, tombFile, reqs, nops>>
\* clean close + engine restart (cleanup removes a stale temp file)
Reopen == /\ Mode = "tomb" /\ pc = "idle" /\ nops > 0
          /\ (KeepHist => (Len(hist) > 0 /\ hist[Len(hist)].a # "reopen"))
          /\ ix' = Load(file, tombFile)
          /\ tmp' = NoTmp
          /\ Log([a |-> "reopen", keys |-> <<>>, lo |-> 0, hi |-> 0, crash |-> "none", keep |-> FALSE, err |-> FALSE,
                  exp |-> Obs(file, Load(file, tombFile), tombFile), new |-> VisMap(file, Load(file, tombFile))])
          /\ UNCHANGED <<file, tombFile, pc, cur, reqs, nops>>

Bounds == {NegInf, PosInf} \cup ProbeT
Ops == {[a |-> "deleteRange", keys |-> ks, lo |-> lo, hi |-> hi] :
            ks \in SUBSET K \ {{}}, lo \in Bounds \ {PosInf}, hi \in Bounds \ {NegInf}}
       \cup {[a |-> "delete", keys |-> ks, lo |-> NegInf, hi |-> PosInf] : ks \in SUBSET K \ {{}}}
GoodOp(op) == op.lo <= op.hi

BeginAny == \E op \in Ops : GoodOp(op) /\ Begin(op)
Next == \/ BeginAny
        \/ Copy \/ Flush \/ Fsync \/ Rename \/ SyncDir \/ Apply
        \/ CrashReopen
        \/ CrashReopenKeep
        \/ Reopen

Init == /\ file \in Files
        /\ ix = IxInit(file)
        /\ tombFile = <<>> /\ tmp = NoTmp /\ pc = "idle" /\ cur = NoOp
        /\ reqs = <<>> /\ nops = 0
        /\ hist = <<>>

Spec == Init /\ [][Next]_vars
\* input shaped: the state is the case
SpecPristine == Init /\ [][UNCHANGED vars]_vars

\* ------------------------------------------------------------------ properties
TypeOK == /\ ix.live \subseteq Keys(file)
          /\ pc \in Points \cup {"idle"}
\* tombstones hide exactly the requested ranges (checked whenever no commit is in flight)
HidesExactly == pc = "idle" => \A k \in K : VisibleImpl(file, ix, k) = Visible(file, reqs, k)
\* what is in memory is what a reopen would load (persistence across reopen)
MemoryIsDurable == pc = "idle" => \A k \in K : VisibleImpl(file, ix, k) = VisibleImpl(file, Load(file, tombFile), k)
\* the committed file is always exactly the old or exactly the new tombstone set; the tmp file never carries the name
AtomicTombstoneCommit ==
  /\ pc \in {"idle", "created", "copied", "flushed", "synced"} => \A k \in K :
        VisibleImpl(file, Load(file, tombFile), k) = Visible(file, reqs, k)
  /\ pc \in {"renamed", "dirsynced"} => \A k \in K :
        VisibleImpl(file, Load(file, tombFile), k) = Visible(file, Append(reqs, AsReq(cur.op)), k)
\* a removed key has no visible point left, a visible point is reported by ContainsValue
\* a stale temp file never changes what a reopen shows, and a delete refused because of it changes nothing
StaleTmpHarmless == (pc = "idle" /\ tmp.exists) => \A k \in K : VisibleImpl(file, Load(file, tombFile), k) = Visible(file, reqs, k)
IndexConsistent == \A k \in K : /\ (pc = "idle" /\ k \notin ix.live) => Visible(file, reqs, k) = {}
                                 /\ \A t \in VisibleImpl(file, ix, k) : ContainsValue(file, ix, k, t)

\* lemmas of the pristine file (Mode = "pristine")
PristineLemmas ==
  /\ \A k \in K : Contains(file, IxInit(file), k) <=> Pts(file, k) # {}
  /\ \A k \in K : Seek(IxInit(file), k) <= KeyCount(IxInit(file))
  /\ \A k \in Keys(file) : KeySeq(IxInit(file))[Seek(IxInit(file), k) + 1] = k
  /\ \A k \in K, t \in Times : t \in Pts(file, k) => ContainsValue(file, IxInit(file), k, t)

EmitPristine == (KeepHist /\ Mode = "pristine") => PrintT("@@J" \o ToJson(PristineObs(file)))
EmitMaximal == (KeepHist /\ Mode = "tomb" /\ pc = "idle" /\ nops >= MaxOps /\ Len(hist) > 0 /\ hist[Len(hist)].a = "reopen")
                  => PrintT("@@J" \o ToJson([file |-> FileOut(file), init |-> Obs(file, IxInit(file), <<>>), steps |-> hist]))

View == <<file, ix, tombFile, tmp, pc, cur, reqs, nops>>
=============================================================================
