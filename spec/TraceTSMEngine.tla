--------------------------- MODULE TraceTSMEngine ---------------------------
(* C39 -- trace validation: call/ret traces recorded from a real tsdb.Shard (tsm1 engine with its real background   *)
(* compaction loops) driven by 3-6 free-running goroutines (harness/cmd/engine record) are explained by the contract  *)
(* layer of TSMEngine.tla: `model`, the last-write-wins map of the points, updated by writes and range deletes.        *)
(*                                                                                                                  *)
(* A `call` line starts an operation, its effect is taken as internal step(s) somewhere between its call and its ret   *)
(* line, a `ret` line must carry exactly the result the model computed:                                              *)
(*   write     one step per series key of the batch (Cache.WriteMulti stores key by key; single-series reads cannot    *)
(*             observe anything finer), each applying that key's points to `model`                                   *)
(*   delete    one step per point of the range (the delete tombstones file by file, then filters the cache: a reader   *)
(*             overlapping the delete may find each point still there or already gone -- DuringDelete of TSMEngine)   *)
(*   read      ONE step: the result is ReadFrom(model, key, lo, hi, asc) at that moment -- so every read returns a     *)
(*             state that a serial order of the operations completed or in flight at that moment produces, ordered by  *)
(*             time; and reads of one goroutine never go back in time                                                *)
(*   snapshot, compact (ScheduleFullCompaction), backup     no effect on `model` (that is C01/C38's claim, judged here *)
(*             under concurrency by the reads around them); any result                                               *)
(*   close     no write is half-applied (Shard.WritePoints excludes Close); afterwards every operation fails without    *)
(*             effect, except a range delete that Close overtook (the delete methods do not exclude Close): it goes on   *)
(*             or fails, and having failed it may have deleted any part of its range                                   *)
(*   final     (after Close and a reopen) every key reads exactly `model`: what the concurrent run acknowledged is    *)
(*             what a restart serves                                                                                 *)
(* Accepted iff the last line is reachable (high-water mark in TLC register 1, DESIGN A.3): -workers 1, StateDeque.    *)
(* The implementation-layer variables of TSMEngine are not used (they stay at their initial values).                 *)
(*                                                                                                                  *)
(* Relaxed = TRUE (used ONLY to classify a trace that the strict validation rejected; known finding                  *)
(* stale_value_during_inflight_delete): a read that takes its step while a range delete of the same series is in      *)
(* flight may, for each point of that delete's range, return no value or ANY value a write of the trace ever stored    *)
(* there (the delete tombstones the TSM files one by one in parallel: with the newest file already masked and an older  *)
(* one not yet, the cursor serves the older file's overwritten value). Every other point stays exact.                *)
EXTENDS TSMEngine, Json

CONSTANT Relaxed

VARIABLES l,       \* next trace line
          pend,    \* thread -> operation in flight
          closed,  \* the shard was closed
          ever     \* Keys -> Times -> set of the values ever stored by a write step

tvars == <<vars, l, pend, closed, ever>>

Trace == ndJsonDeserialize("trace.ndjson")
N == Len(Trace)
Threads == {"t1", "t2", "t3", "t4", "t5", "t6"}
NoEver == [t \in Times |-> {}]
NoSnap == [t \in Times |-> None]
NoOp == [op |-> "none", pts |-> <<>>, k |-> 0, lo |-> 0, hi |-> 0, asc |-> TRUE, todo |-> {}, started |-> FALSE,
         done |-> FALSE, ok |-> TRUE, res |-> <<>>, loose |-> {}, evr |-> NoEver, snp |-> NoSnap]
SetOfSeq(q) == {q[i] : i \in 1..Len(q)}

TInit == /\ TLCSet(1, 0) /\ Init /\ l = 1 /\ pend = [t \in Threads |-> NoOp] /\ closed = FALSE
         /\ ever = [k \in Keys |-> NoEver]

Impl == <<hot, snap, sj, files, nextGen, wal, cj, dj, wj, written, dead, nw, ns, nc, nd, nr, hist>>

OpOf(ln) ==
  CASE ln.op = "write"  -> [NoOp EXCEPT !.op = "write", !.pts = ln.pts, !.todo = {ln.pts[i][1] : i \in 1..Len(ln.pts)}]
    [] ln.op = "delete" -> [NoOp EXCEPT !.op = "delete", !.k = ln.k, !.lo = ln.lo, !.hi = ln.hi,
                                        !.todo = {u \in Times : InRange(u, ln.lo, ln.hi)}]
    [] ln.op = "read"   -> [NoOp EXCEPT !.op = "read", !.k = ln.k, !.lo = ln.lo, !.hi = ln.hi, !.asc = ln.asc]
    [] OTHER            -> [NoOp EXCEPT !.op = ln.op]

TCall == /\ l <= N /\ Trace[l].ev = "call"
         /\ pend[Trace[l].t] = NoOp
         /\ pend' = [pend EXCEPT ![Trace[l].t] = OpOf(Trace[l])]
         /\ l' = l + 1 /\ UNCHANGED <<model, closed, ever, Impl>>

\* Shard.WritePoints keeps the shard open while it runs (s.mu.RLock): Close never finds a write half-applied.  The delete methods
\* do not (known finding delete_racing_close_...): Close may come while a delete is half-applied; that delete then goes on or
\* gives up with an error, and as it was never acknowledged each point of its range may be deleted or not (C02's rule).
HalfApplied(p) == p.op = "write" /\ p.started /\ ~p.done

Lin(t) ==
  LET p == pend[t] IN
  /\ p.op # "none" /\ ~p.done
  /\ \/ /\ p.op = "write" /\ (~closed \/ p.started)
        /\ \E k \in p.todo :
             LET mine == SelectSeq(p.pts, LAMBDA x : x[1] = k)
                 rest == p.todo \ {k}
             IN /\ model' = ApplyPts(model, mine)
                /\ ever' = [ever EXCEPT ![k] = [u \in Times |-> @[u] \cup {mine[i][3] : i \in {j \in 1..Len(mine) : mine[j][2] = u}}]]
                /\ pend' = [pend EXCEPT ![t].todo = rest, ![t].started = TRUE, ![t].done = (rest = {})]
        /\ UNCHANGED closed
     \/ /\ p.op = "delete" /\ (~closed \/ p.started)
        /\ \E u \in p.todo :
             LET rest == p.todo \ {u}
             IN /\ model' = [model EXCEPT ![p.k][u] = None]
                /\ pend' = [pend EXCEPT ![t].todo = rest, ![t].started = TRUE]
        /\ UNCHANGED <<closed, ever>>
     \/ /\ p.op = "delete" /\ p.started /\ p.todo = {}             \* every point of the range is gone: the delete returns nil
        /\ pend' = [pend EXCEPT ![t].done = TRUE]
        /\ UNCHANGED <<model, closed, ever>>
     \/ /\ p.op = "delete" /\ closed /\ p.started              \* overtaken by Close: fails (its last act, the WAL entry, or earlier), whatever part of its range it had deleted
        /\ pend' = [pend EXCEPT ![t].done = TRUE, ![t].ok = FALSE]
        /\ UNCHANGED <<model, closed, ever>>
     \/ /\ p.op = "read" /\ ~closed
        /\ pend' = [pend EXCEPT ![t].done = TRUE, ![t].res = ReadFrom(model, p.k, p.lo, p.hi, p.asc),
                                ![t].snp = model[p.k], ![t].evr = ever[p.k],
                                ![t].loose = {u \in Times : \E d \in Threads : /\ pend[d].op = "delete" /\ pend[d].k = p.k
                                                                              /\ InRange(u, pend[d].lo, pend[d].hi)}]
        /\ UNCHANGED <<model, closed, ever>>
     \/ /\ p.op \in {"write", "delete", "read"} /\ closed /\ ~p.started
        /\ pend' = [pend EXCEPT ![t].done = TRUE, ![t].ok = FALSE]
        /\ UNCHANGED <<model, closed, ever>>
     \/ /\ p.op \in {"snapshot", "compact", "backup"}
        /\ pend' = [pend EXCEPT ![t].done = TRUE]
        /\ UNCHANGED <<model, closed, ever>>
     \/ /\ p.op = "close"
        /\ \A u \in Threads : ~HalfApplied(pend[u])
        /\ closed' = TRUE
        /\ pend' = [pend EXCEPT ![t].done = TRUE]
        /\ UNCHANGED <<model, ever>>
  /\ UNCHANGED <<l, Impl>>

TLin == \E t \in Threads : Lin(t)

\* Relaxed only: the logged points are in time order inside the range; a point outside the ranges of the deletes that were in
\* flight at the read's step is exactly the model's, a point inside is absent or any value ever stored there
LooseMatch(p, got) ==
  LET n == Len(got)
      At(u) == IF \E i \in 1..n : got[i][1] = u THEN got[CHOOSE i \in 1..n : got[i][1] = u][2] ELSE None
  IN /\ \A i \in 1..n : InRange(got[i][1], p.lo, p.hi)
     /\ \A i \in 1..(n - 1) : IF p.asc THEN got[i][1] < got[i + 1][1] ELSE got[i][1] > got[i + 1][1]
     /\ \A u \in {v \in Times : InRange(v, p.lo, p.hi)} :
           IF u \in p.loose THEN At(u) \in p.evr[u] \cup {None} ELSE At(u) = p.snp[u]

TRet == /\ l <= N /\ Trace[l].ev = "ret"
        /\ LET t == Trace[l].t
               p == pend[t]
           IN /\ p.op # "none" /\ p.done
              /\ p.op \in {"write", "delete", "read"} => p.ok = Trace[l].ok
              /\ (p.op = "read" /\ p.ok) => IF Relaxed THEN LooseMatch(p, Trace[l].res) ELSE p.res = Trace[l].res
              /\ pend' = [pend EXCEPT ![t] = NoOp]
        /\ l' = l + 1 /\ UNCHANGED <<model, closed, ever, Impl>>

\* after Close and a reopen: every key reads exactly the model
TFinal == /\ l <= N /\ Trace[l].ev = "final"
          /\ \A t \in Threads : pend[t] = NoOp
          /\ \A k \in Keys : ReadFrom(model, k, MinT, MaxT, TRUE) = Trace[l].all[k]
          /\ l' = l + 1 /\ UNCHANGED <<model, pend, closed, ever, Impl>>

TReset == /\ l <= N /\ Trace[l].ev = "reset"
          /\ \A t \in Threads : pend[t] = NoOp
          /\ model' = Empty /\ closed' = FALSE /\ ever' = [k \in Keys |-> NoEver]
          /\ l' = l + 1 /\ UNCHANGED <<pend, Impl>>

TNext == TCall \/ TLin \/ TRet \/ TFinal \/ TReset
TSpec == TInit /\ [][TNext]_tvars

\* the contract on every state of every trace: the model only holds values that some write of the trace issued
TModelTyped == \A k \in Keys, t \in Times : model[k][t] >= 0

Mark == TLCSet(1, IF TLCGet(1) < l THEN l ELSE TLCGet(1))
Accepted == IF TLCGet(1) = N + 1 THEN TRUE
            ELSE PrintT("@@HW " \o ToString(TLCGet(1)) \o " of " \o ToString(N)) /\ FALSE
=============================================================================
