------------------------------ MODULE Predicate ------------------------------
(* Delete predicates (C16): tsdb/engine/tsm1/predicate.go, tsdb/index.go PredicateSeriesIDIterator.           *)
(*                                                                                                            *)
(* Strings are sequences of symbols over {"a","b","sp","cm","eq"} (letter, letter, space, comma, equals) so   *)
(* that escaping is explicit.  A series is a measurement name plus a list of tags sorted by key (byte order). *)
(*                                                                                                            *)
(* Contract layer: EvalPred(p, m, tags) -- truth of the predicate on the series' measurement and tags.        *)
(*   Fixed reading (DESIGN 5.9): a comparison on a tag the series does not have is NOT satisfied, for "neq"   *)
(*   as for "eq"; names/values containing a backslash are outside the domain.                                 *)
(* Implementation layer: KeyOf(m,tags) = the key PredicateSeriesIDIterator hands to the matcher               *)
(*   (`name,\x00=name,k=v,...`, models.MakeKey escaping: measurement escapes , and space; tag keys/values      *)
(*   escape , space and =), PopTag = predicatePopTagEscape, Upd = the memoising three-valued tree update,     *)
(*   MatcherModel = predicateMatcher.Matches (which first discards the bare name: SkipName).                  *)
(* Input-shaped: Init enumerates (series, predicate) pairs, the state is the case; `want` is the oracle,      *)
(* `impl` the verdict of the modelled algorithm (a difference is a lead that the replay must confirm).        *)
EXTENDS Integers, Sequences, FiniteSets, TLC

CONSTANTS MeasSet,     \* measurement names
          KeySet,      \* tag keys a series may carry
          ValSet,      \* tag values a series may carry
          TagCounts,   \* numbers of tags a series may carry (subset of 0..2)
          Shape,       \* "leaf" | "d1" | "d2lin" | "d2" : predicate shapes enumerated
          LeafMode,    \* "series": leaves use the series' own keys/values/name plus PredKeys/PredVals;
                       \* "fixed": leaves use only PredKeys (and _measurement) and PredVals
          PredKeys,    \* tag keys predicates refer to (besides _measurement)
          PredVals,    \* values predicates compare with
          SkipName     \* TRUE: Matches discards the leading bare measurement name before feeding pairs (the code since
                       \* the repair of F36); FALSE: as found, the name is popped like a tag pair (lead config)

VARIABLES meas, tags, pred, key, want, impl
vars == <<meas, tags, pred, key, want, impl>>

Letters == {"a", "b"}
Special == {"sp", "cm", "eq"}
Sym == Letters \cup Special
Str1 == {<<c>> : c \in Sym}
Str2 == {<<c, d>> : c \in Sym, d \in Sym}
AllStr == Str1 \cup Str2
\* an escape-heavy subset used where the full set would be too large
Heavy == {<<"a">>, <<"b">>, <<"a", "sp">>, <<"cm", "a">>, <<"eq">>, <<"a", "eq">>, <<"sp", "cm">>, <<"eq", "b">>}
Plain == {<<"a">>, <<"b">>}
OnlyA == {<<"a">>}
OnlyB == {<<"b">>}
Heavy4 == {<<"a">>, <<"a", "sp">>, <<"eq">>, <<"cm", "a">>}
\* partition of AllStr by first symbol (lets the check run one TLC per part in parallel)
SW(c) == {s \in AllStr : s[1] = c}
SWa == SW("a")
SWb == SW("b")
SWsp == SW("sp")
SWcm == SW("cm")
SWeq == SW("eq")
MEAS == <<"nul">>          \* the tag key \x00 under which the measurement name is presented
Nil == <<"nil">>           \* "no value seen" (distinct from the empty string <<>>)

\* ---------------------------------------------------------------- byte order of keys (models.Tags are sorted)
Ord(c) == CASE c = "nul" -> 0 [] c = "sp" -> 1 [] c = "cm" -> 2 [] c = "eq" -> 3 [] c = "a" -> 4 [] c = "b" -> 5
RECURSIVE LessStr(_, _)
LessStr(s, t) == IF s = <<>> THEN t # <<>>
                 ELSE IF t = <<>> THEN FALSE
                 ELSE IF Ord(s[1]) # Ord(t[1]) THEN Ord(s[1]) < Ord(t[1])
                 ELSE LessStr(Tail(s), Tail(t))

\* all tag lists with n tags: strictly increasing keys
TagLists(n) == IF n = 0 THEN {<<>>}
               ELSE IF n = 1 THEN {<<[k |-> k, v |-> v]>> : k \in KeySet, v \in ValSet}
               ELSE {<<[k |-> kk[1], v |-> v1], [k |-> kk[2], v |-> v2]>> :
                        kk \in {q \in KeySet \X KeySet : LessStr(q[1], q[2])}, v1 \in ValSet, v2 \in ValSet}
AllTagLists == UNION {TagLists(n) : n \in TagCounts}

\* ---------------------------------------------------------------- contract layer
HasTag(ts, k) == \E i \in 1..Len(ts) : ts[i].k = k
TagVal(ts, k) == ts[CHOOSE i \in 1..Len(ts) : ts[i].k = k].v
EvalLeaf(l, m, ts) ==
    IF l.key = MEAS THEN (IF l.op = "eq" THEN m = l.val ELSE m # l.val)
    ELSE /\ HasTag(ts, l.key)
         /\ (IF l.op = "eq" THEN TagVal(ts, l.key) = l.val ELSE TagVal(ts, l.key) # l.val)
RECURSIVE EvalPred(_, _, _)
EvalPred(p, m, ts) ==
    IF p.t = "leaf" THEN EvalLeaf(p, m, ts)
    ELSE IF p.t = "and" THEN EvalPred(p.l, m, ts) /\ EvalPred(p.r, m, ts)
    ELSE EvalPred(p.l, m, ts) \/ EvalPred(p.r, m, ts)

\* ---------------------------------------------------------------- implementation layer: the key
RECURSIVE EscWith(_, _)
EscWith(s, set) == IF s = <<>> THEN <<>>
                   ELSE (IF s[1] \in set THEN <<"bs", s[1]>> ELSE <<s[1]>>) \o EscWith(Tail(s), set)
EscMeas(s) == EscWith(s, {"cm", "sp"})          \* models.EscapeMeasurement
EscTag(s) == EscWith(s, {"cm", "sp", "eq"})     \* models.escapeTag
RECURSIVE TagsKey(_)
TagsKey(ts) == IF ts = <<>> THEN <<>>
               ELSE <<"cm">> \o EscTag(ts[1].k) \o <<"eq">> \o EscTag(ts[1].v) \o TagsKey(Tail(ts))
KeyOf(m, ts) == EscMeas(m) \o <<"cm", "nul", "eq">> \o EscTag(m) \o TagsKey(ts)

\* ---------------------------------------------------------------- implementation layer: popping tags
MinOf(S) == CHOOSE x \in S : \A y \in S : x <= y
\* first occurrence of ch that is not directly preceded by a backslash; 0 if none
FirstUnesc(s, ch) == LET I == {i \in 1..Len(s) : s[i] = ch /\ (i = 1 \/ s[i - 1] # "bs")}
                     IN IF I = {} THEN 0 ELSE MinOf(I)
RECURSIVE UnescFrom(_, _)
UnescFrom(s, i) == IF i > Len(s) THEN <<>>
                   ELSE IF s[i] = "bs" /\ i + 1 <= Len(s) /\ s[i + 1] \in Special THEN UnescFrom(s, i + 1)
                   ELSE <<s[i]>> \o UnescFrom(s, i + 1)
Unesc(s) == UnescFrom(s, 1)
Sub(s, a, b) == IF a > b THEN <<>> ELSE SubSeq(s, a, b)
\* predicatePopTagEscape: [has, tag, val, rest]
PopTag(s) ==
    LET c    == FirstUnesc(s, "cm")
        pair == IF c = 0 THEN s ELSE Sub(s, 1, c - 1)
        rest == IF c = 0 THEN <<>> ELSE Sub(s, c + 1, Len(s))
        e    == FirstUnesc(pair, "eq")
    IN IF e = 0 THEN [has |-> FALSE, tag |-> <<>>, val |-> <<>>, rest |-> rest]
       ELSE [has |-> TRUE, tag |-> Unesc(Sub(pair, 1, e - 1)), val |-> Unesc(Sub(pair, e + 1, Len(pair))), rest |-> rest]

\* ---------------------------------------------------------------- implementation layer: memoising tree update
RECURSIVE LeafKeys(_)
LeafKeys(p) == IF p.t = "leaf" THEN {p.key} ELSE LeafKeys(p.l) \cup LeafKeys(p.r)
Paths == {<<>>, <<1>>, <<2>>, <<1, 1>>, <<1, 2>>, <<2, 1>>, <<2, 2>>}
RECURSIVE Upd(_, _, _, _)
\* node p at `path`, current tag values `vals`, cache c: returns [r, c]; r in {"T","F","NM"}
Upd(p, path, vals, c) ==
    IF c[path] # "NM" THEN [r |-> c[path], c |-> c]
    ELSE IF p.t = "leaf" THEN
        LET v == vals[p.key] IN
        IF v = Nil THEN [r |-> "NM", c |-> c]
        ELSE LET res == IF (p.op = "eq") = (v = p.val) THEN "T" ELSE "F"
             IN [r |-> res, c |-> [c EXCEPT ![path] = res]]
    ELSE IF p.t = "and" THEN
        LET L == Upd(p.l, Append(path, 1), vals, c) IN
        IF L.r = "F" THEN [r |-> "F", c |-> [L.c EXCEPT ![path] = "F"]]
        ELSE IF L.r = "NM" THEN [r |-> "NM", c |-> L.c]
        ELSE LET R == Upd(p.r, Append(path, 2), vals, L.c) IN
             IF R.r = "F" THEN [r |-> "F", c |-> [R.c EXCEPT ![path] = "F"]]
             ELSE IF R.r = "NM" THEN [r |-> "NM", c |-> R.c]
             ELSE [r |-> "T", c |-> R.c]
    ELSE
        LET L == Upd(p.l, Append(path, 1), vals, c) IN
        IF L.r = "T" THEN [r |-> "T", c |-> [L.c EXCEPT ![path] = "T"]]
        ELSE LET R == Upd(p.r, Append(path, 2), vals, L.c) IN
             IF R.r = "T" THEN [r |-> "T", c |-> [R.c EXCEPT ![path] = "T"]]
             ELSE IF L.r = "F" /\ R.r = "F" THEN [r |-> "F", c |-> [R.c EXCEPT ![path] = "F"]]
             ELSE [r |-> "NM", c |-> R.c]

RECURSIVE Run(_, _, _, _)
Run(p, rest, vals, c) ==
    IF rest = <<>> THEN FALSE      \* "if it always needed more then it didn't match"
    ELSE LET pt == PopTag(rest) IN
         IF ~pt.has \/ pt.tag \notin DOMAIN vals THEN Run(p, pt.rest, vals, c)
         ELSE LET v2 == [vals EXCEPT ![pt.tag] = pt.val]
                  u  == Upd(p, <<>>, v2, c)
              IN IF u.r = "T" THEN TRUE ELSE IF u.r = "F" THEN FALSE ELSE Run(p, pt.rest, v2, u.c)
\* the key without its leading element (the bare measurement name, which is not a tag pair)
TagPart(k) == IF k = <<>> THEN k ELSE PopTag(k).rest
MatcherModel(p, k) == Run(p, IF SkipName THEN TagPart(k) ELSE k, [x \in LeafKeys(p) |-> Nil], [q \in Paths |-> "NM"])

\* ---------------------------------------------------------------- predicates enumerated for a series
KeysFor(ts) == (IF LeafMode = "series" THEN {ts[i].k : i \in 1..Len(ts)} ELSE {}) \cup {MEAS} \cup PredKeys
ValsFor(m, ts) == (IF LeafMode = "series" THEN {ts[i].v : i \in 1..Len(ts)} \cup {m} ELSE {}) \cup PredVals
Leaves(m, ts) == {[t |-> "leaf", key |-> k, op |-> o, val |-> v] : k \in KeysFor(ts), o \in {"eq", "neq"}, v \in ValsFor(m, ts)}
Comb(A, B) == {[t |-> o, l |-> x, r |-> y] : o \in {"and", "or"}, x \in A, y \in B}
PredsFor(m, ts) ==
    LET L  == Leaves(m, ts)
        D1 == Comb(L, L)
        LD == L \cup D1
    IN CASE Shape = "leaf"  -> L
         [] Shape = "d1"    -> LD
         [] Shape = "d2lin" -> LD \cup Comb(L, D1) \cup Comb(D1, L)       \* at most one composite child
         [] Shape = "d2"    -> LD \cup Comb(LD, LD)

Init == /\ meas \in MeasSet
        /\ tags \in AllTagLists
        /\ pred \in PredsFor(meas, tags)
        /\ key = KeyOf(meas, tags)
        /\ want = EvalPred(pred, meas, tags)
        /\ impl = MatcherModel(pred, key)
Next == UNCHANGED vars
Spec == Init /\ [][Next]_vars

\* ---------------------------------------------------------------- properties of the model
\* The key round-trips: after the leading bare measurement name, popping the key gives back exactly the measurement
\* (under \x00) and the tags, in order -- also for names containing '=' (not escaped in a measurement name).
RECURSIVE PopAll(_)
PopAll(s) == IF s = <<>> THEN <<>>
             ELSE LET pt == PopTag(s) IN (IF pt.has THEN <<[k |-> pt.tag, v |-> pt.val]>> ELSE <<>>) \o PopAll(pt.rest)
MeasHasEq == \E i \in 1..Len(meas) : meas[i] = "eq"
KeyRoundTrips == PopAll(TagPart(key)) = <<[k |-> MEAS, v |-> meas]>> \o tags
\* the modelled algorithm computes the contract (with SkipName = FALSE this fails exactly for '='-bearing names: F36)
ModelAgrees == impl = want
ModelAgreesUnlessMeasEq == (~MeasHasEq) => (impl = want)
=============================================================================
