SPECIFICATION Spec
CONSTANTS
  SeqMax = 4095
  MachMax = 1023
CONSTRAINT Mark
POSTCONDITION Accepted
CHECK_DEADLOCK FALSE
