\* C41: without the F18 exemption TLC finds the createEmpty selector table counterexample (expected: invariant TableContract violated)
SPECIFICATION Spec
CONSTANTS
  MaxT = 1
  Everys = {1, 2}
  ValPats = {"zig"}
  Aggs = {"first", "min"}
  OutCap = 2
  Mode = "table"
  QStarts = {0}
  QStops = {5, 6}
  TimeCols = {"none"}
  EWSAsFound = TRUE
INVARIANTS TypeOK CursorContract TableContract
CHECK_DEADLOCK FALSE
