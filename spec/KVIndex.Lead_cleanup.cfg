\* Lead: with Restamp a Populate with cleanup does not make the index the projection of the source (known finding stale_index_entry_invisible).  The counterexample is replayed on the real kv.Index and counts only if it reproduces there.  Run with one worker: the shortest counterexample.
SPECIFICATION Spec
CONSTANTS
  FKs = {"f1", "f2"}
  Rs = {"p1", "p2"}
  Tied = FALSE
  Urm = FALSE
  BadFKs = {}
  BadPKs = {}
  Atomic = TRUE
  Restamp = TRUE
  WithAbort = FALSE
  MaxOps = 5
  Record = TRUE
  Probing = FALSE
  NoOpSteps = FALSE
INVARIANTS Inv_Synced
VIEW ViewN
CHECK_DEADLOCK FALSE
