SPECIFICATION GenSpec
CONSTANTS
  MaxT = 5
  MaxLen = 5
  Vals <- Vals5
  Cases <- AllCases
  ModeQuirk = FALSE
CHECK_DEADLOCK FALSE
