SPECIFICATION Spec
CONSTANTS
  Tasks = {1, 2}
  NW = 2
  Profiles <- ProfilesLead
  Backs = {0}
  MaxTime = 3
  MaxSched = 1
  MaxOps = 8
  NegReset = FALSE
  RefreshOnRemove = TRUE
  Discipline = TRUE
  Record = TRUE
INVARIANTS NoStartAfterRelease

CHECK_DEADLOCK FALSE
