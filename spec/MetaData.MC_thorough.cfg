\* Model checking of the contract on the intended design (quirk constants FALSE), names in focus (thorough: one operation deeper, two shard groups, every combination of update fields).  VIEW hides hist.
SPECIFICATION Spec
CONSTANTS
  DBs = {"d1", "d2"}
  RPs = {"autogen", "r2", "r3"}
  WithEmptyDB = TRUE
  CDurs = {0, 7}
  CSGDs = {0}
  CReps = {1, 2}
  XNames = {"", "r2"}
  XDurs = {99, 7}
  XSGDs = {0}
  XReps = {99}
  UNames = {"-", "", "autogen", "r2", "r3"}
  UDurs = {99, 3}
  USGDs = {99}
  UFull = TRUE
  AutoCreate = TRUE
  MaxSG = 2
  MaxOps = 5
  Record = FALSE
  Probing = FALSE
  NoOpSteps = FALSE
  DropKeepsDefault = FALSE
  RenameKeepsDefault = FALSE
  HalfYearIsLong = FALSE
  RenameAcceptsEmpty = FALSE
INVARIANTS Inv_Names Inv_ShardGroups Inv_Default Inv_Durations Inv_Outcomes
VIEW ViewN
CHECK_DEADLOCK FALSE
