----------------------------- MODULE AuthzPerm -----------------------------
(* C28 - permissions grant exactly what they name.                                                          *)
(* Input-shaped property: the state IS the case.  Init enumerates every (permission list, request);        *)
(* Next stutters; `exp` carries what the specification says Permission.Matches / PermissionSet.Allowed     *)
(* must answer.  The Go driver replays every state on the real influxdb.Permission.Matches,                 *)
(* influxdb.PermissionAllowed and influxdb.PermissionSet.Allowed.                                           *)
(*                                                                                                          *)
(* Mode "pair": ps = <<p>>, p and req range over Actions x Types x Ids x Ids   (every resource type)        *)
(* Mode "set" : ps ranges over one ordering of every set of 0..MaxLen permissions over                       *)
(*              Actions x SetTypes x Ids x Ids (the driver replays a 2-element list in both orders)        *)
EXTENDS Authz, TLC, FiniteSetsExt, SequencesExt

CONSTANTS Types,      \* all resource type names (from influxdb.AllResourceTypes; includes "instance")
          SetTypes,   \* the reduced type set used in mode "set"
          Ids,        \* abstract id domain including 0 (= nil), used for both org ids and resource ids
          Mode,       \* "pair" | "set"
          MaxLen      \* maximal length of ps in mode "set"

VARIABLES ps, req, exp
vars == <<ps, req, exp>>

Perm(T) == [act : Actions, typ : T, org : Ids, id : Ids]

\* subsets of S with at most n elements (FiniteSetsExt!kSubset is limited to |S| <= 62)
RECURSIVE SubsetsUpTo(_, _)
SubsetsUpTo(S, n) == IF n = 0 THEN {{}} ELSE LET P == SubsetsUpTo(S, n - 1) IN P \cup {X \cup {a} : X \in P, a \in S}
SeqsUpTo(S, n) == {SetToSeq(X) : X \in SubsetsUpTo(S, n)}

\* allowed: what the transcribed code answers (implementation layer)
\* may / must: the contract's bounds - the statement's necessary condition, and the converse on the unambiguous forms
Expected(l, r) == [allowed |-> AllowedSeq(l, r),
                   may     |-> \E i \in 1..Len(l) : GrantAllowed(l[i], r),
                   must    |-> \E i \in 1..Len(l) : MustGrant(l[i], r)]

Init ==
  /\ \/ /\ Mode = "pair"
        /\ \E p \in Perm(Types) : ps = <<p>>
        /\ req \in Perm(Types)
     \/ /\ Mode = "set"
        /\ ps \in SeqsUpTo(Perm(SetTypes), MaxLen)
        /\ req \in Perm(SetTypes)
  /\ exp = Expected(ps, req)

Next == UNCHANGED vars
Spec == Init /\ [][Next]_vars

\* ------------------------------------------------------------------ checked on the specification
\* the statement's "only if"
OnlyIfNamed == exp.allowed => exp.may
\* converse on the unambiguous forms
UnambiguousGrantsHold == exp.must => exp.allowed
BoundsConsistent == exp.must => exp.may
\* "read never implies write" (nor write read): every granting permission has the request's action
ReadNeverImpliesWrite == exp.allowed => \E i \in 1..Len(ps) : ps[i].act = req.act /\ Matches(ps[i], req)
ActionsNeverMix == \A i \in 1..Len(ps) : ps[i].act # req.act => ~Matches(ps[i], req)
\* "an organization-scoped permission never grants access to another organization's resources"
OrgScopedNeverCrossesOrgs == \A i \in 1..Len(ps) : (OrgScoped(ps[i]) /\ Matches(ps[i], req)) => req.org = ps[i].org
\* a permission for one resource type never grants another type (except instance-wide)
TypeNeverCrosses == \A i \in 1..Len(ps) : (ps[i].typ # Instance /\ Matches(ps[i], req)) => req.typ = ps[i].typ
\* the empty permission list grants nothing
EmptyGrantsNothing == (ps = <<>>) => ~exp.allowed
=============================================================================
