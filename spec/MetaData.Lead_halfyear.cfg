\* Lead: the model with the quirks of the code violates the contract (Inv_ProbeOutcomes: the defaulted shard group duration of a 180d policy).  The counterexample is replayed on the real
\* client and counts only if it reproduces there (known finding shard_group_duration_default_at_180d).  Run with one worker: the shortest counterexample.
SPECIFICATION Spec
CONSTANTS
  DBs = {"d1"}
  RPs = {"autogen", "r2"}
  WithEmptyDB = FALSE
  CDurs = {0, 9, 10, 11}
  CSGDs = {0}
  CReps = {1}
  XNames = {"r2"}
  XDurs = {99, 0, 1, 6, 10}
  XSGDs = {0, 1, 8}
  XReps = {99, 2}
  UNames = {"-", "r2"}
  UDurs = {99, 0, 1, 2, 5, 9}
  USGDs = {99, 0, 1, 4, 9}
  UFull = TRUE
  AutoCreate = FALSE
  MaxSG = 0
  MaxOps = 1
  Record = TRUE
  Probing = TRUE
  NoOpSteps = FALSE
  DropKeepsDefault = TRUE
  RenameKeepsDefault = TRUE
  HalfYearIsLong = TRUE
  RenameAcceptsEmpty = TRUE
INVARIANTS Inv_ProbeOutcomes
VIEW View
CHECK_DEADLOCK FALSE
