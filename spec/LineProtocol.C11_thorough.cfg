INIT Init11
NEXT Next11
CONSTANTS
  MaxLen = 0
  NameLen = 3
  PairLen = 2
  LongLen = 5
  SecLen = 0
  ValLen = 0
  BatchLen = 0
INVARIANTS Inv11
CHECK_DEADLOCK FALSE
