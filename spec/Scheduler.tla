------------------------------ MODULE Scheduler ------------------------------
(* Specification of task/backend/scheduler.TreeScheduler (treescheduler.go) for property C24.          *)
(*                                                                                                      *)
(* Implementation layer (mirrors the code, one action per critical section):                            *)
(*   queue (the btree keyed by (when,id) + the nextTime index: one item per task id), `when`, the       *)
(*   timer (stopped / armed at an absolute time) and its 1-slot channel (`tick`), the main loop         *)
(*   (lpc = "wait" at the select, "pass" = inside the inner for-loop; one Pass = one iteration under     *)
(*   s.mu: Min / not-due re-arm / process() / re-arm), workers (unbuffered channel: a hand-off succeeds *)
(*   only when the worker is blocked in its receive), the clock `now` (clock.Mock advanced by ticks).   *)
(* Contract layer (exactly what C24 names): Executor.Execute calls (`Start`), TreeScheduler.When(),     *)
(*   loop iterations while nothing is due:                                                              *)
(*   OncePerDueTime, NoSelfConcurrency, NoStartAfterRelease, WhenIsEarliest, NoSpin (+ NoMissedRun).    *)
(*                                                                                                      *)
(* Deliberate abstractions: time is integer ticks; a schedule is "every e ticks, aligned" (the harness  *)
(* concretises it as `@every` or as a cron expression) plus an offset; the clock does not change during *)
(* a loop pass (the harness advances the mock clock only at quiescent points); cron errors (updateNext  *)
(* failing) and executor errors/panics are not modelled.                                                *)
EXTENDS Integers, Sequences, FiniteSets, TLC

CONSTANTS Tasks,       \* task ids: a set of positive integers (id order = integer order)
          NW,          \* number of workers (WithMaxConcurrentWorkers)
          Profiles,    \* set of [every: [Tasks -> Nat\{0}], offset: [Tasks -> Nat], cls: [Tasks -> 1..NW]]
          Backs,       \* Schedule(t, back): lastScheduled = now - back
          MaxTime,     \* the clock stops at MaxTime
          MaxSched,    \* bound on the number of Schedule calls
          MaxOps,      \* bound on the recorded history (only when Record)
          NegReset,    \* TRUE: `s.timer.Reset(ts.Sub(it.When()))` (negative duration, `when` not refreshed) as before the repair of F3
          RefreshOnRemove, \* TRUE: Release and Schedule end with refreshWhen() (repaired tree); FALSE: `when` keeps a removed head's time
          Discipline,  \* TRUE: harness-controlled actions are taken only at quiescent points (generation of replayable histories)
          Record       \* TRUE: keep the history variables hist/runs

VARIABLES prof,      \* the profile of this behaviour (constant after Init)
          now,       \* clock
          queue,     \* [Tasks -> [in, next, when, ep]]   item of task t (in = FALSE: not queued)
          when,      \* s.when (None = zero time)
          timer,     \* None = stopped, else absolute fire time
          tick,      \* a tick is buffered in timer.C
          lpc,       \* "wait" | "pass"
          wk,        \* [1..NW -> [st, t, sf, ra, ep]]  st: "ready" (blocked in receive) | "got" | "exec" | "post"
          \* ---- ghost state of the contract ----
          epoch,     \* [Tasks -> Nat] number of Schedule calls for t
          last,      \* [Tasks -> Int] lastScheduled of the latest Schedule(t)
          disp,      \* [Tasks -> Nat] runs of the current epoch handed to a worker
          released,  \* tasks for which Release returned and no Schedule since
          late,      \* runs <<t, sf>> whose Execute was called while t \in released
          stale,     \* `when` values of heads removed (Release / re-Schedule) since the loop last refreshed `when`
          spins,     \* loop passes that found nothing due since the last clock tick
          calls,     \* Schedule/Release calls since the last clock tick (each may legitimately cause one wake-up)
          nsched,    \* Schedule calls so far
          runs,      \* (Record) sequence of [t, sf, ra, ep] in Execute-call order
          hist       \* (Record) harness-controlled actions with the observation before each
vars == <<prof, now, queue, when, timer, tick, lpc, wk, epoch, last, disp, released, late, stale, spins, calls, nsched, runs, hist>>

None == -1
NoItem == [in |-> FALSE, next |-> None, when |-> None, ep |-> 0]
Idle == [st |-> "ready", t |-> 0, sf |-> None, ra |-> None, ep |-> 0]
Workers == 1..NW

Every(t) == prof.every[t]
Offset(t) == prof.offset[t]
Cls(t) == prof.cls[t]

\* next aligned multiple of e strictly after `from` (cron / aligned @every)
NextDue(e, from) == ((from \div e) + 1) * e
KthDue(e, from, k) == NextDue(e, from) + (k - 1) * e

Queued == {t \in Tasks : queue[t].in}
Before(q, t1, t2) == q[t1].when < q[t2].when \/ (q[t1].when = q[t2].when /\ t1 < t2)
HeadOf(q) == LET Q == {t \in Tasks : q[t].in} IN CHOOSE t \in Q : \A u \in Q \ {t} : Before(q, t, u)
MinWhenOf(q) == IF {t \in Tasks : q[t].in} = {} THEN None ELSE q[HeadOf(q)].when
MinWhen == MinWhenOf(queue)
DueNow == {t \in Queued : queue[t].when <= now}

\* ---------------------------------------------------------------- process(): one Ascend over the due items
RECURSIVE SortedDue(_, _)
SortedDue(q, S) == IF S = {} THEN <<>>
                   ELSE LET t == CHOOSE x \in S : \A u \in S \ {x} : Before(q, x, u)
                        IN <<t>> \o SortedDue(q, S \ {t})
RECURSIVE Dispatch(_, _, _, _, _, _)
\* hand every due item, in (when,id) order, to its worker if that worker is blocked in its receive; updateNext + re-insert.
\* A worker that has checkpointed but not yet reached its receive ("post") may reach it while the loop is iterating over
\* the due items (the hand-off is a non-blocking send per item, the worker runs concurrently): cut[c] is the number of
\* items the iteration has tried when worker c arrives, so items of its class at positions <= cut[c] are skipped and a
\* later one can be handed over. cut[c] = number of due items: the worker does not arrive during this pass.
Dispatch(s, pos, w, q, d, cut) ==
  IF s = <<>> THEN [wk |-> w, q |-> q, d |-> d]
  ELSE LET t == Head(s)
           c == Cls(t)
       IN IF w[c].st = "ready" \/ (w[c].st = "post" /\ pos > cut[c])
          THEN Dispatch(Tail(s), pos + 1,
                        [w EXCEPT ![c] = [st |-> "got", t |-> t, sf |-> q[t].next, ra |-> q[t].when, ep |-> q[t].ep]],
                        [q EXCEPT ![t].next = q[t].next + Every(t), ![t].when = q[t].next + Every(t) + Offset(t)],
                        [d EXCEPT ![t] = @ + 1], cut)
          ELSE Dispatch(Tail(s), pos + 1, w, q, d, cut)

NDue == Cardinality(DueNow)
NoArrival == [w \in Workers |-> NDue]
Cuts == [Workers -> 0..NDue]

\* result of one iteration of the inner for-loop (everything between s.mu.Lock and s.mu.Unlock)
PassResultWith(cut) ==
  IF Queued = {} THEN
     [when |-> None, timer |-> timer, lpc |-> "wait", wk |-> wk, q |-> queue, d |-> disp, idle |-> TRUE]
  ELSE IF MinWhen > now THEN
     \* head not due: repaired code re-arms at the head's time and refreshes `when`;
     \* before the repair: Reset(now - head.when) < 0 fires at once and `when` keeps its stale value
     [when |-> IF NegReset THEN when ELSE MinWhen,
      timer |-> IF NegReset THEN now ELSE MinWhen,
      lpc |-> "wait", wk |-> wk, q |-> queue, d |-> disp, idle |-> TRUE]
  ELSE LET r == Dispatch(SortedDue(queue, DueNow), 1, wk, queue, disp, cut)
           m == MinWhenOf(r.q)
       IN IF m = None THEN [when |-> None, timer |-> timer, lpc |-> "wait", wk |-> r.wk, q |-> r.q, d |-> r.d, idle |-> FALSE]
          ELSE IF m - now > 0 THEN [when |-> m, timer |-> m, lpc |-> "wait", wk |-> r.wk, q |-> r.q, d |-> r.d, idle |-> FALSE]
          ELSE [when |-> m, timer |-> timer, lpc |-> "pass", wk |-> r.wk, q |-> r.q, d |-> r.d, idle |-> FALSE]
PassResult == PassResultWith(NoArrival)

PassIsNoop == LET r == PassResult IN
  r.when = when /\ r.timer = timer /\ r.lpc = lpc /\ r.wk = wk /\ r.q = queue

\* ---------------------------------------------------------------- quiescence (nothing internal can make progress)
TimerDue == timer # None /\ timer <= now
Quiescent == /\ ~TimerDue
             /\ ~(lpc = "wait" /\ tick)
             /\ (lpc = "pass" => PassIsNoop)
             /\ \A w \in Workers : wk[w].st # "post"
Ctl == Discipline => Quiescent        \* guard of every harness-controlled action
\* clock.Mock delivers a tick with a blocking send while holding the clock's mutex: a second fire while a tick is still
\* buffered (possible only while the loop is retrying a due item whose worker is busy) would wedge the mock clock.
\* Replayable histories avoid it; the real clock drops such a tick (TimerFire below), and MC_* explore that.
MockOK(tm, tk, nw) == Discipline => ~(tk /\ tm # None /\ tm <= nw)
Spinning == lpc = "pass"               \* at a quiescent point: a due item is waiting for its busy worker

\* ---------------------------------------------------------------- observation (what the harness can see)
GotSet == {<<wk[w].t, wk[w].sf, wk[w].ra>> : w \in {x \in Workers : wk[x].st = "got"}}
RunSet == {<<wk[w].t, wk[w].sf, wk[w].ra>> : w \in {x \in Workers : wk[x].st = "exec"}}
Obs == [when |-> when, got |-> GotSet, running |-> RunSet, spin |-> Spinning, queued |-> Queued,
        stale |-> (lpc = "wait" /\ when # MinWhen)]
Log(e) == IF Record THEN hist' = Append(hist, e @@ [pre |-> Obs]) ELSE hist' = hist
OpsOK == Record => Len(hist) < MaxOps

\* ---------------------------------------------------------------- Init
InitWith(p) ==
        /\ prof = p
        /\ now = 0
        /\ queue = [t \in Tasks |-> NoItem]
        /\ when = None /\ timer = None /\ tick = FALSE /\ lpc = "wait"
        /\ wk = [w \in Workers |-> Idle]
        /\ epoch = [t \in Tasks |-> 0] /\ last = [t \in Tasks |-> 0] /\ disp = [t \in Tasks |-> 0]
        /\ released = {} /\ late = {} /\ stale = {} /\ spins = 0 /\ calls = 0 /\ nsched = 0
        /\ runs = <<>> /\ hist = <<>>
Init == \E p \in Profiles : InitWith(p)

\* ---------------------------------------------------------------- API (each holds s.mu for its whole body)
Schedule(t, back) ==
  /\ Ctl /\ OpsOK /\ nsched < MaxSched /\ now - back >= 0
  /\ LET ls == now - back
         nx == NextDue(Every(t), ls)
         w  == nx + Offset(t)
         wasHead == queue[t].in /\ HeadOf(queue) = t
         q2 == [queue EXCEPT ![t] = [in |-> TRUE, next |-> nx, when |-> w, ep |-> epoch[t] + 1]]
     IN /\ IF when = None \/ when > w
           THEN /\ when' = (IF RefreshOnRemove THEN MinWhenOf(q2) ELSE w)
                /\ timer' = IF w - now <= 0 THEN now ELSE w     \* Stop; Reset(0) or Reset(until)
           ELSE /\ when' = (IF RefreshOnRemove THEN MinWhenOf(q2) ELSE when)
                /\ UNCHANGED timer
        /\ queue' = q2
        /\ epoch' = [epoch EXCEPT ![t] = @ + 1]
        /\ last' = [last EXCEPT ![t] = ls]
        /\ disp' = [disp EXCEPT ![t] = 0]
        /\ released' = released \ {t}
        /\ stale' = IF wasHead THEN stale \cup {queue[t].when} ELSE stale
        /\ Log([a |-> "schedule", t |-> t, back |-> back, last |-> ls, every |-> Every(t), offset |-> Offset(t), cls |-> Cls(t)])
  /\ MockOK(timer', tick, now)
  /\ calls' = calls + 1 /\ nsched' = nsched + 1
  /\ UNCHANGED <<prof, now, tick, lpc, wk, late, spins, runs>>

ReleaseCore(t) ==
  /\ queue' = [queue EXCEPT ![t] = NoItem]
  /\ when' = (IF RefreshOnRemove THEN MinWhenOf([queue EXCEPT ![t] = NoItem]) ELSE when)
  /\ released' = released \cup {t}
  /\ stale' = IF queue[t].in /\ HeadOf(queue) = t THEN stale \cup {queue[t].when} ELSE stale
  /\ Log([a |-> "release", t |-> t])
  /\ calls' = calls + 1
  /\ UNCHANGED <<prof, now, timer, tick, lpc, wk, epoch, last, disp, late, spins, nsched, runs>>
\* (the model checker only releases tasks that were scheduled and not yet released: other calls change nothing)
Release(t) == Ctl /\ OpsOK /\ epoch[t] > 0 /\ t \notin released /\ ReleaseCore(t)

\* clock.Mock.Add(1 tick) at a point where no loop pass is in progress
Advance ==
  /\ Ctl /\ OpsOK /\ now < MaxTime
  /\ now' = now + 1
  /\ MockOK(timer, tick, now + 1)
  /\ Log([a |-> "advance"])
  /\ spins' = 0 /\ calls' = 0
  /\ UNCHANGED <<prof, queue, when, timer, tick, lpc, wk, epoch, last, disp, released, late, stale, nsched, runs>>

\* ---------------------------------------------------------------- timer and main loop
TimerFire ==
  /\ TimerDue
  /\ timer' = None /\ tick' = TRUE          \* (a second tick while one is buffered is dropped by a real timer)
  /\ UNCHANGED <<prof, now, queue, when, lpc, wk, epoch, last, disp, released, late, stale, spins, calls, nsched, runs, hist>>

LoopWake ==
  /\ lpc = "wait" /\ tick
  /\ tick' = FALSE /\ lpc' = "pass"
  /\ UNCHANGED <<prof, now, queue, when, timer, wk, epoch, last, disp, released, late, stale, spins, calls, nsched, runs, hist>>

Pass ==
  /\ lpc = "pass"
  /\ \E cut \in (IF \E w \in Workers : wk[w].st = "post" THEN Cuts ELSE {NoArrival}) :
     LET r == PassResultWith(cut) IN
     /\ when' = r.when /\ timer' = r.timer /\ lpc' = r.lpc /\ wk' = r.wk /\ queue' = r.q /\ disp' = r.d
     /\ spins' = IF r.idle THEN spins + 1 ELSE spins
     /\ stale' = IF NegReset /\ r.idle /\ Queued # {} THEN stale ELSE {}
  /\ UNCHANGED <<prof, now, tick, epoch, last, released, late, calls, nsched, runs, hist>>

\* ---------------------------------------------------------------- workers
\* the worker calls Executor.Execute(id, scheduledFor, runAt)
Start(w) ==
  /\ Ctl /\ OpsOK /\ wk[w].st = "got"
  /\ wk' = [wk EXCEPT ![w].st = "exec"]
  /\ late' = IF wk[w].t \in released THEN late \cup {<<wk[w].t, wk[w].sf>>} ELSE late
  /\ runs' = IF Record THEN Append(runs, [t |-> wk[w].t, sf |-> wk[w].sf, ra |-> wk[w].ra, ep |-> wk[w].ep]) ELSE runs
  /\ Log([a |-> "start", w |-> w, t |-> wk[w].t, sf |-> wk[w].sf, ra |-> wk[w].ra, afterRelease |-> wk[w].t \in released])
  /\ UNCHANGED <<prof, now, queue, when, timer, tick, lpc, epoch, last, disp, released, stale, spins, calls, nsched>>

\* Execute returns (the executor is the harness: slow executors stay in "exec" for any number of steps)
\* (replayable histories: an executor is not released while the loop is retrying two or more due items of that worker,
\*  because which of them is handed over then depends on the moment the worker reaches its receive; MC_* and the trace
\*  validation cover that race)
Finish(w) ==
  /\ Ctl /\ OpsOK /\ wk[w].st = "exec"
  /\ Discipline => Cardinality({t \in DueNow : Cls(t) = w}) <= 1
  /\ wk' = [wk EXCEPT ![w].st = "post"]
  /\ Log([a |-> "finish", w |-> w, t |-> wk[w].t, sf |-> wk[w].sf])
  /\ UNCHANGED <<prof, now, queue, when, timer, tick, lpc, epoch, last, disp, released, late, stale, spins, calls, nsched, runs>>

\* UpdateLastScheduled (checkpoint) done, the worker is back in its receive
Ready(w) ==
  /\ wk[w].st = "post"
  /\ wk' = [wk EXCEPT ![w] = Idle]
  /\ UNCHANGED <<prof, now, queue, when, timer, tick, lpc, epoch, last, disp, released, late, stale, spins, calls, nsched, runs, hist>>

\* closes a recorded history: its `pre` is the observation after the last action
End ==
  /\ Record /\ Ctl /\ Len(hist) = MaxOps
  /\ hist' = Append(hist, [a |-> "end", pre |-> Obs])
  /\ UNCHANGED <<prof, now, queue, when, timer, tick, lpc, wk, epoch, last, disp, released, late, stale, spins, calls, nsched, runs>>

Next == \/ \E t \in Tasks : \E b \in Backs : Schedule(t, b)
        \/ \E t \in Tasks : Release(t)
        \/ Advance \/ End
        \/ TimerFire \/ LoopWake \/ Pass
        \/ \E w \in Workers : Start(w) \/ Finish(w) \/ Ready(w)

Spec == Init /\ [][Next]_vars

\* ================================================================ contract
InFlight(t) == Cardinality({w \in Workers : wk[w].st = "got" /\ wk[w].t = t /\ wk[w].ep = epoch[t]})

\* each due time since lastScheduled is handed out exactly once, in increasing order, without gaps
\* (state form: the queued item is always the (disp+1)-th due time after lastScheduled)
OncePerDueTime ==
  /\ \A t \in Queued : queue[t].next = KthDue(Every(t), last[t], disp[t] + 1) /\ queue[t].when = queue[t].next + Offset(t)
  /\ Record => \A t \in Tasks : \A e \in 1..epoch[t] :
        LET sub == SelectSeq(runs, LAMBDA r : r.t = t /\ r.ep = e)
        IN \A k \in 1..Len(sub) : k > 1 => sub[k].sf = sub[k-1].sf + Every(t)
  /\ Record => \A t \in Tasks :
        LET sub == SelectSeq(runs, LAMBDA r : r.t = t /\ r.ep = epoch[t])
        IN \A k \in 1..Len(sub) : sub[k].sf = KthDue(Every(t), last[t], k) /\ sub[k].ra = sub[k].sf + Offset(t)

\* every due run has been handed to its worker unless that worker is busy (then the loop keeps trying)
NoMissedRun == Quiescent => \A t \in DueNow : wk[Cls(t)].st # "ready" /\ lpc = "pass"

NoSelfConcurrency == \A w1, w2 \in Workers : (w1 # w2 /\ wk[w1].st = "exec" /\ wk[w2].st = "exec") => wk[w1].t # wk[w2].t
WorkerOfClass == \A w \in Workers : wk[w].st # "ready" => Cls(wk[w].t) = w

\* after Release returned, Execute is not called for that task (until it is scheduled again)
NoStartAfterRelease == late = {}
\* the part of it that does not depend on the worker's scheduling: no hand-off after Release returned
NoDispatchAfterRelease == \A t \in released : ~queue[t].in

\* When() is the earliest pending due time (zero when nothing is pending) whenever the loop is at rest
WhenStrict == (Quiescent /\ lpc = "wait") => when = MinWhen
\* what the code guarantees: additionally, after the head was removed (Release / re-Schedule to a later time)
\* `when` may keep the removed head's time while that time is still in the future (the armed timer refreshes it)
WhenStaleEarly == when # MinWhen /\ when \in stale /\ when > now /\ (MinWhen = None \/ when < MinWhen)
WhenIsEarliest == (Quiescent /\ lpc = "wait") => (when = MinWhen \/ WhenStaleEarly)
SpinningWhen == (Quiescent /\ lpc = "pass") => when = MinWhen

\* the loop will wake up in time for the head of the queue
TimerCoversQueue == (Quiescent /\ lpc = "wait" /\ Queued # {}) => (timer # None /\ timer <= MinWhen /\ timer <= when)

\* the loop does not iterate while nothing is due and the clock does not move: between two clock ticks the number of
\* iterations that find nothing due is bounded by the wake-ups already pending at the tick (a woken loop, one buffered tick, one
\* armed timer) plus one per Schedule/Release call since
NoSpin == spins <= calls + 3
SpinBound == spins <= calls + 5      \* CONSTRAINT for the NegReset lead (keeps the state space finite)

\* the four at-rest clauses in one invariant (Quiescent is evaluated once per state)
AtRest ==
  Quiescent =>
     /\ \A t \in DueNow : wk[Cls(t)].st # "ready" /\ lpc = "pass"                                   \* NoMissedRun
     /\ lpc = "wait" => (when = MinWhen \/ (~RefreshOnRemove /\ WhenStaleEarly))                     \* WhenStrict / WhenIsEarliest
     /\ lpc = "pass" => when = MinWhen                                                                \* SpinningWhen
     /\ (lpc = "wait" /\ Queued # {}) => (timer # None /\ timer <= MinWhen /\ timer <= when)         \* TimerCoversQueue

\* clock.Mock sends ticks with a blocking send: a second fire with a buffered tick would block the mock (not the real clock)
MockSafe == ~(tick /\ TimerDue)

TypeOK == /\ now \in 0..MaxTime /\ lpc \in {"wait", "pass"} /\ tick \in BOOLEAN
          /\ \A w \in Workers : wk[w].st \in {"ready", "got", "exec", "post"}

\* ---------------------------------------------------------------- profiles (substituted for Profiles in the cfgs)
P(e1, e2, o1, o2, c2) == [every |-> (1 :> e1) @@ (2 :> e2), offset |-> (1 :> o1) @@ (2 :> o2), cls |-> (1 :> 1) @@ (2 :> c2)]
ProfilesQuick == {P(1, 1, 0, 0, 1), P(1, 2, 0, 1, 2), P(2, 3, 1, 0, 1), P(2, 1, 0, 0, 2), P(1, 1, 0, 1, 1)}
ProfilesMCQuick == {P(1, 1, 0, 0, 1), P(1, 2, 0, 1, 2), P(2, 1, 1, 0, 1)}
ProfilesAll2 == {P(e1, e2, o1, o2, c2) : e1 \in {1, 2, 3}, e2 \in {1, 2, 3}, o1 \in {0, 1}, o2 \in {0, 1}, c2 \in {1, 2}}
ProfilesLead == {P(1, 1, 0, 1, 2)}
P3(e, o, c) == [every |-> (1 :> e[1]) @@ (2 :> e[2]) @@ (3 :> e[3]), offset |-> (1 :> o[1]) @@ (2 :> o[2]) @@ (3 :> o[3]),
                cls |-> (1 :> 1) @@ (2 :> c[1]) @@ (3 :> c[2])]
Profiles3 == {P3(<<1, 2, 3>>, <<0, 1, 0>>, <<1, 2>>), P3(<<1, 1, 2>>, <<0, 0, 1>>, <<2, 1>>), P3(<<2, 1, 1>>, <<1, 0, 0>>, <<1, 1>>),
              P3(<<3, 2, 1>>, <<0, 0, 0>>, <<2, 2>>)}
=============================================================================
