--------------------------- MODULE TSMEngineCrash ---------------------------
(* C02 -- acknowledged writes and deletes survive a crash at any point.  Extension of TSMEngine.tla (same variables, *)
(* same actions, same contract layer) by what a process crash can see and destroy.                                  *)
(*                                                                                                                  *)
(* DURABLE state  (survives Crash):  files (TSM files with their tombstone files), wal (segments with write / delete *)
(*                entries; an entry is durable once appended: WAL.writeToLog returns after the fsync), tmps (tmp      *)
(*                files written by a snapshot or a compaction and not yet renamed), nextGen is recomputed at open.    *)
(* VOLATILE state (lost by Crash):   hot, snap (the cache), the program counters of the snapshot / compaction /       *)
(*                delete / write in flight.                                                                          *)
(*                                                                                                                  *)
(* CONTRACT LAYER (what C02 names)                                                                                  *)
(*   AllowedAfterCrash  the states a reader may find after Crash ; Reopen: the model (every acknowledged write and   *)
(*                      delete applied), and for the operations in flight (not acknowledged): the batch of an        *)
(*                      in-flight write all absent or all present (one WAL entry), each point of an in-flight range  *)
(*                      delete present (with its model value) or absent (tombstones are committed file by file).      *)
(*   CrashSafe          in EVERY reachable state, recovering from the durable state alone (remove tmp files, load the    *)
(*                      files, replay the WAL) yields a state in AllowedAfterCrash -- for both outcomes of the WAL   *)
(*                      append that may be in flight (entry absent / entry complete; a torn entry is discarded by     *)
(*                      CacheLoader and equals "absent").                                                            *)
(*   RecOK              the same judged on the behaviour: the state found after Crash ; CrashReopen was allowed.     *)
(*   NoPhantom          every visible point was issued by some write of the history.                                 *)
(*   WritableAfterRecovery / the base invariants after recovery: the reopened shard accepts writes, snapshots,       *)
(*                      compactions and deletes and C01/C03 keep holding (the model is re-synchronised with the      *)
(*                      recovered state, which RecOK proved allowed).                                                *)
(*                                                                                                                  *)
(* IMPLEMENTATION LAYER additions (Fine = TRUE; engine.go / file_store.go / tombstone.go)                            *)
(*   SnapWrite          also creates the snapshot tsm.tmp file; SnapReplace renames it (FileStore.replace)            *)
(*   CompactMerge       also creates the output tsm.tmp file                                                          *)
(*   CompactRenameNew   FileStore.replace: rename tmp -> tsm of the new file: old and new files are both on disk     *)
(*   CompactRemoveOld   FileStore.replace: one old file (TSM, then its tombstone file) removed; last one ends the job *)
(*   DeleteTombstoneFile(i) Tombstoner commit (tmp + rename) of file i; files are committed in any order             *)
(*   DeleteTombstoneDone all files done                                                                              *)
(*   Crash(kw, kd)      volatile state discarded; kw / kd: the WAL entry of the write / delete in flight was         *)
(*                      completely appended (TRUE) or not (FALSE)                                                    *)
(*   CrashReopen        Engine.cleanup removes tmp files; FileStore.Open loads the files; CacheLoader replays the WAL,   *)
(*                      truncating at the first undecodable entry                                                    *)
(* With Fine = FALSE the replace / tombstone steps are the atomic ones of TSMEngine.tla (generation configs: the     *)
(* driver takes its crash images at the hook points INSIDE those steps, so every fine state is still imaged).        *)
(*                                                                                                                  *)
(* NOT MODELLED: loss or reordering of issued-but-unsynced writes by a disk cache (process-crash model), a second     *)
(* crash during recovery, partial removal of several closed WAL segments.                                            *)
EXTENDS TSMEngine

CONSTANTS MaxCrashes,   \* bound on Crash steps
          Fine,         \* TRUE: file-by-file replace / tombstone commits (checking); FALSE: atomic (generation)
          CrashKeep     \* subset of BOOLEAN: may the WAL append in flight be complete at the crash

VARIABLES tmps,      \* set of [kind, gen, seq]: *.tmp files on disk
          crashed,   \* TRUE between Crash and CrashReopen
          allowed,   \* AllowedAfterCrash of the state that crashed
          recOK,     \* the last recovery found an allowed state
          issued,    \* every point <<k, t, v>> ever handed to a write (acknowledged or not)
          ncr,       \* number of crashes
          tdone      \* Fine: indices of the files whose tombstones of the delete in flight are committed

cvars   == <<tmps, crashed, allowed, recOK, issued, ncr, tdone>>
allvars == <<vars, cvars>>
CView   == <<View, cvars>>

\* ------------------------------------------------------------------ contract
Kill(m, S) == [k \in Keys |-> [t \in Times |-> IF <<k, t>> \in S THEN None ELSE m[k][t]]]
RangePts   == IF dj.pc = "idle" THEN {} ELSE {<<dj.k, t>> : t \in {u \in Times : InRange(u, dj.lo, dj.hi)}}
WChoices   == IF wj.pc = "idle" THEN {model} ELSE {model, ApplyPts(model, wj.pts)}
AllowedAfterCrash == {Kill(m, S) : m \in WChoices, S \in SUBSET RangePts}

\* the WAL as a crash finds it: the entry of the append in flight complete (kw / kd) or not there at all
WalWith(kw, kd) ==
  LET w1 == IF kw /\ wj.pc = "cached" THEN AppendEntry(wal, WEntry(wj.pts)) ELSE wal
  IN IF kd /\ dj.pc = "cached" /\ dj.wkeys # {} THEN AppendEntry(w1, DEntry(dj.wkeys, dj.lo, dj.hi)) ELSE w1
\* what a reader sees after recovery from the durable state: the files, and the WAL replayed into an empty cache
Recovered(w) == Overlay(TSMVisible, ReplayWal(Empty, w))

CrashSafe == ~crashed => \A kw \in BOOLEAN, kd \in BOOLEAN : Recovered(WalWith(kw, kd)) \in AllowedAfterCrash
RecOK     == recOK
NoPhantom == \A k \in Keys, t \in Times : Visible[k][t] # None => <<k, t, Visible[k][t]>> \in issued
WritableAfterRecovery ==
  (~crashed /\ ncr > 0 /\ wj.pc = "idle" /\ dj.pc = "idle" /\ nw < MaxPoints) => \E b \in Batches : WriteAllowed(b)

\* the base module's invariants hold whenever the engine is up
CTypeOK == /\ sj.pc \in {"idle", "snapped", "written", "replaced", "cleared"}
           /\ cj.pc \in {"idle", "planned", "merged", "renamed"}
           /\ dj.pc \in {"idle", "called", "begun", "tombstoned", "cached", "logged"}
           /\ wj.pc \in {"idle", "cached"}
           /\ Len(wal) >= 1
           /\ (sj.pc = "idle" => snap = Empty)
           /\ (crashed => hot = Empty /\ sj.pc = "idle" /\ cj.pc = "idle" /\ dj.pc = "idle" /\ wj.pc = "idle")
           /\ (Fine \/ tdone = {})
UpInvariants == ~crashed => /\ FilesSorted /\ GenFresh /\ WALMatchesCache /\ VisibleEqualsModel /\ ReadEqualsModel
                            /\ DuringDelete /\ DuringWrite /\ NoResurrection
\* a tmp file belongs to the job that is writing it, or is a leftover that the next open removes
TmpsOwned == ~crashed => \A f \in tmps : \/ f.kind = "snap" /\ sj.pc = "written" /\ f.gen = sj.gen
                                         \/ f.kind = "comp" /\ cj.pc = "merged"

\* ------------------------------------------------------------------ Init
CInit == /\ Init
         /\ tmps = {} /\ crashed = FALSE /\ allowed = {Empty} /\ recOK = TRUE /\ issued = {} /\ ncr = 0 /\ tdone = {}

Up == ~crashed
Same == UNCHANGED cvars
SameBut(v) == UNCHANGED v

\* ------------------------------------------------------------------ base actions, wrapped
CWrite(b) == Up /\ Write(b) /\ issued' = issued \cup {Stamp(b)[i] : i \in 1..Len(b)}
                /\ UNCHANGED <<tmps, crashed, allowed, recOK, ncr, tdone>>
CCacheWrite(b) == Up /\ CacheWrite(b) /\ issued' = issued \cup {Stamp(b)[i] : i \in 1..Len(b)}
                     /\ UNCHANGED <<tmps, crashed, allowed, recOK, ncr, tdone>>
CSnapWrite == Up /\ SnapWrite /\ tmps' = tmps \cup {[kind |-> "snap", gen |-> nextGen, seq |-> 1]}
                 /\ UNCHANGED <<crashed, allowed, recOK, issued, ncr, tdone>>
CSnapReplace == Up /\ SnapReplace /\ tmps' = {f \in tmps : f.kind # "snap"}
                   /\ UNCHANGED <<crashed, allowed, recOK, issued, ncr, tdone>>
CCompactMerge == Up /\ CompactMerge
                    /\ tmps' = (IF FilesVisible(files, cj.lo, cj.hi) = Empty THEN tmps
                                ELSE tmps \cup {[kind |-> "comp", gen |-> files[cj.hi].gen, seq |-> files[cj.hi].seq + 1]})
                    /\ UNCHANGED <<crashed, allowed, recOK, issued, ncr, tdone>>
CCompactReplace == Up /\ ~Fine /\ CompactReplace /\ tmps' = {f \in tmps : f.kind # "comp"}
                      /\ UNCHANGED <<crashed, allowed, recOK, issued, ncr, tdone>>
CCompactAbort == Up /\ CompactAbort /\ Same      \* (the aborted compaction had written nothing yet: pc = planned)
CDeleteTombstone == Up /\ ~Fine /\ DeleteTombstone /\ Same

\* ------------------------------------------------------------------ fine steps of FileStore.replace and of the tombstone commits
CompactRenameNew ==
  /\ Up /\ Fine /\ CanStep /\ cj.pc = "merged"
  /\ LET outf == IF cj.out = Empty THEN <<>>
                 ELSE << [gen |-> files[cj.hi].gen, seq |-> files[cj.hi].seq + 1, data |-> cj.out, tomb |-> {}] >>
     IN files' = SubSeq(files, 1, cj.hi) \o outf \o SubSeq(files, cj.hi + 1, Len(files))
  /\ tmps' = {f \in tmps : f.kind # "comp"}
  /\ cj' = [cj EXCEPT !.pc = "renamed"]
  /\ Log([a |-> "CompactRenameNew", exp |-> Exp(model, wj, dj)])
  /\ UNCHANGED <<hot, snap, sj, nextGen, wal, dj, wj, model, written, dead, nw, ns, nc, nd, nr>>
  /\ UNCHANGED <<crashed, allowed, recOK, issued, ncr, tdone>>

CompactRemoveOld ==
  /\ Up /\ Fine /\ CanStep /\ cj.pc = "renamed"
  /\ files' = SubSeq(files, 1, cj.lo - 1) \o SubSeq(files, cj.lo + 1, Len(files))     \* the TSM file, then its tombstone file
  /\ cj' = IF cj.lo = cj.hi THEN IdleC ELSE [cj EXCEPT !.hi = @ - 1]
  /\ Log([a |-> "CompactRemoveOld", exp |-> Exp(model, wj, dj)])
  /\ UNCHANGED <<hot, snap, sj, nextGen, wal, dj, wj, model, written, dead, nw, ns, nc, nd, nr>>
  /\ Same

DeleteTombstoneFile(i) ==
  /\ Up /\ Fine /\ CanStep /\ dj.pc = "begun" /\ i \in 1..Len(files) /\ i \notin tdone
  /\ files' = [files EXCEPT ![i].tomb = @ \cup {<<dj.k, t>> : t \in {u \in Times : InRange(u, dj.lo, dj.hi) /\ files[i].data[dj.k][u] # None}}]
  /\ tdone' = tdone \cup {i}
  /\ Log([a |-> "DeleteTombstoneFile", i |-> i, exp |-> Exp(model, wj, dj)])
  /\ UNCHANGED <<hot, snap, sj, nextGen, wal, cj, dj, wj, model, written, dead, nw, ns, nc, nd, nr>>
  /\ UNCHANGED <<tmps, crashed, allowed, recOK, issued, ncr>>

DeleteTombstoneDone ==
  /\ Up /\ Fine /\ CanStep /\ dj.pc = "begun" /\ tdone = 1..Len(files)
  /\ dj' = [dj EXCEPT !.pc = "tombstoned"]
  /\ tdone' = {}
  /\ Log([a |-> "DeleteTombstoneDone", exp |-> Exp(model, wj, dj)])
  /\ UNCHANGED <<hot, snap, sj, files, nextGen, wal, cj, wj, model, written, dead, nw, ns, nc, nd, nr>>
  /\ UNCHANGED <<tmps, crashed, allowed, recOK, issued, ncr>>

\* ------------------------------------------------------------------ crash and recovery
Crash(kw, kd) ==
  /\ Up /\ CanStep /\ ncr < MaxCrashes
  /\ kw => wj.pc = "cached"
  /\ kd => (dj.pc = "cached" /\ dj.wkeys # {})
  /\ allowed' = AllowedAfterCrash
  /\ wal' = WalWith(kw, kd)
  /\ hot' = Empty /\ snap' = Empty /\ sj' = IdleS /\ cj' = IdleC /\ dj' = IdleD /\ wj' = IdleW
  /\ tdone' = {} /\ crashed' = TRUE /\ ncr' = ncr + 1
  /\ Log([a |-> "Crash", kw |-> kw, kd |-> kd, exp |-> Exp(model, wj, dj)])
  /\ UNCHANGED <<files, nextGen, model, written, dead, nw, ns, nc, nd, nr>>
  /\ UNCHANGED <<tmps, recOK, issued>>

CrashReopen ==
  /\ crashed /\ CanStep
  /\ LET h == ReplayWal(Empty, wal)               \* CacheLoader.Load (a torn tail was never appended: WalWith)
         v == Overlay(TSMVisible, h)
     IN /\ hot' = h
        /\ recOK' = (v \in allowed)
        /\ model' = v                             \* the recovered state is what later reads are judged against
        /\ written' = written \cup {p \in issued : v[p[1]][p[2]] = p[3]}
        /\ Log([a |-> "CrashReopen", exp |-> Exp(v, IdleW, IdleD)])
  /\ tmps' = {}                                   \* Engine.cleanup
  /\ nextGen' = MaxGen + 1
  /\ crashed' = FALSE
  /\ UNCHANGED <<snap, sj, files, wal, cj, dj, wj, dead, nw, ns, nc, nd, nr>>
  /\ UNCHANGED <<allowed, issued, ncr, tdone>>

FileIdx == 1..(MaxSnaps + MaxCompacts)     \* more files than that never exist
CWriteAck       == Up /\ WriteAck /\ Same
CSnapBegin      == Up /\ SnapBegin /\ Same
CSnapClear      == Up /\ SnapClear /\ Same
CSnapWALRemove  == Up /\ SnapWALRemove /\ Same
CCompactStart(lo, hi) == Up /\ CompactStart(lo, hi) /\ Same
CDeleteCall(k, lo, hi) == Up /\ DeleteCall(k, lo, hi) /\ Same
CDeleteProceed  == Up /\ DeleteProceed /\ Same
CDeleteCache    == Up /\ DeleteCache /\ Same
CDeleteWAL      == Up /\ DeleteWAL /\ Same
CDeleteAck      == Up /\ DeleteAck /\ Same
CReopen         == Up /\ Reopen /\ tmps' = {} /\ UNCHANGED <<crashed, allowed, recOK, issued, ncr, tdone>>

CNext == \/ \E b \in Batches : CWrite(b)
         \/ \E b \in Batches : CCacheWrite(b)
         \/ CWriteAck
         \/ CSnapBegin \/ CSnapWrite \/ CSnapReplace \/ CSnapClear \/ CSnapWALRemove
         \/ \E lo \in FileIdx, hi \in FileIdx : CCompactStart(lo, hi)
         \/ CCompactMerge \/ CCompactReplace \/ CCompactAbort \/ CompactRenameNew \/ CompactRemoveOld
         \/ \E k \in Keys, lo \in Times, hi \in Times : CDeleteCall(k, lo, hi)
         \/ CDeleteProceed \/ CDeleteTombstone
         \/ \E i \in FileIdx : DeleteTombstoneFile(i)
         \/ DeleteTombstoneDone
         \/ CDeleteCache \/ CDeleteWAL \/ CDeleteAck
         \/ CReopen
         \/ \E kw \in CrashKeep, kd \in CrashKeep : Crash(kw, kd)
         \/ CrashReopen

CSpec == CInit /\ [][CNext]_allvars

CFinStable == [][crashed' \/ crashed \/ nw' # nw \/ nd' # nd \/ FinModel' = FinModel]_allvars
=============================================================================
