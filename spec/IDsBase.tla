------------------------------ MODULE IDsBase ------------------------------
(* Pure part of the snowflake generator (pkg/snowflake/gen.go) shared by IDs.tla (model checking) and        *)
(* TraceIDs.tla (validation of ids recorded from the real generators).                                      *)
(* The generator state is the 64-bit word  time(42) | machine(10) = 0 | sequence(12); it is kept here as the  *)
(* record [t, m, s] because TLC integers are 32 bit. m is non-zero only after the fallback overflowed (H11). *)
EXTENDS Integers

CONSTANTS SeqMax,    \* sequenceMask (4095 in the code)
          MachMax    \* serverMax    (1023 in the code)

St(t, m, s) == [t |-> t, m |-> m, s |-> s]

\* one iteration of the CAS loop: the value the caller tries to install, given the clock reading t and the loaded state
Compute(cur, t) ==
  IF t > cur.t THEN St(t, 0, 0)                     \* our time is in the future: that time, sequence 0
  ELSE IF cur.s = SeqMax THEN St(cur.t + 1, 0, 0)   \* sequence exhausted: bump to the next millisecond
  ELSE St(cur.t, cur.m, cur.s + 1)                  \* state + 1

\* atomic.AddUint64(&state, 1): may carry the sequence into the machine bits
Inc(cur) ==
  IF cur.s < SeqMax THEN St(cur.t, cur.m, cur.s + 1)
  ELSE IF cur.m < MachMax THEN St(cur.t, cur.m + 1, 0)
  ELSE St(cur.t + 1, 0, 0)

Less(a, b) == \/ a.t < b.t
              \/ a.t = b.t /\ a.m < b.m
              \/ a.t = b.t /\ a.m = b.m /\ a.s < b.s

\* next can directly follow prev as installed state: a successful CAS for SOME clock reading, or the fallback increment
LegalSucc(prev, next) ==
  \/ next.m = 0 /\ next.s = 0 /\ next.t > prev.t                     \* Compute with t = next.t (covers the bump)
  \/ next = Inc(prev)                                               \* Compute's state + 1, or the fallback
=============================================================================
