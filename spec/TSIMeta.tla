------------------------------ MODULE TSIMeta ------------------------------
(* C42: metadata listings of tsdb.Store over a database with two shards.                                   *)
(*                                                                                                        *)
(* Contract layer: `data` = the series that have data in each shard; Result(q) = what a listing must       *)
(* return: MeasurementNames(auth, cond), TagKeys(auth, shardIDs, cond), TagValues(auth, shardIDs, cond) as  *)
(* sets grouped by measurement: exactly the names that have >= 1 live series (in the selected shards) the   *)
(* authorizer lets the caller see and that satisfies the condition.  ("sorted, each name once" is a         *)
(* property of the returned slices alone and is checked by the replay driver on the real output.)           *)
(* Implementation layer (approximate, default index log size): the per-shard tsi1 index keeps tag keys and  *)
(* tag values in its raw iterators until the measurement is dropped from the shard (rawkv); with a nil or   *)
(* open authorizer and no WHERE filter the Store trusts those raw iterators (ImplResult): TLC shows where    *)
(* that differs from the contract (F12); with a fine-grained authorizer or a filter the path is per series.  *)
(* Histories: Write(shard, series batch) and Delete(selector, time range) - the latter stands for           *)
(* Store.DeleteSeriesWithPredicate / Store.DeleteSeries over all shards - each followed by a seeded sample   *)
(* of queries whose expected results are recorded in `hist`.                                                *)
EXTENDS Integers, Sequences, FiniteSets, TLC, Json, SequencesExt

CONSTANTS NS, MaxOps, Seed, QPerStep, RecHist

Shards == {1, 2}
Meas == {"m1", "m2"}
Keys == {"k1", "k2"}
Vals == {"a", "b"}
SeriesTab == <<
  [m |-> "m1", t |-> [k1 |-> "a", k2 |-> ""]],
  [m |-> "m1", t |-> [k1 |-> "b", k2 |-> ""]],
  [m |-> "m2", t |-> [k1 |-> "a", k2 |-> "b"]],
  [m |-> "m1", t |-> [k1 |-> "a", k2 |-> "b"]],
  [m |-> "m2", t |-> [k1 |-> "",  k2 |-> "a"]],
  [m |-> "m1", t |-> [k1 |-> "",  k2 |-> ""]] >>
S == 1..NS
MOf(s) == SeriesTab[s].m
TagOf(s, k) == SeriesTab[s].t[k]

\* ---- authorizers: nil, the open authorizer, fine-grained ones hiding a set of series
\* HideVal(k, v): exactly the series carrying tag value k=v are hidden (directed at per-value authorization scans)
HideVal(k, v) == {s \in S : TagOf(s, k) = v}
Hides == {{}, {1}, {s \in S : MOf(s) = "m1"}, S} \cup {HideVal(k, v) : k \in {"k1", "k2"}, v \in {"a", "b"}}
Auths == {[kind |-> "nil", hide |-> {}], [kind |-> "open", hide |-> {}]} \cup {[kind |-> "fine", hide |-> h] : h \in Hides}
IsOpen(a) == a.kind \in {"nil", "open"}
Allowed(a, s) == IsOpen(a) \/ s \notin a.hide

\* ---- conditions
None == [c |-> "none", x |-> "", y |-> ""]
NameConds == {None} \cup {[c |-> "nameEq", x |-> m, y |-> ""] : m \in Meas}
                    \cup {[c |-> "nameNeq", x |-> m, y |-> ""] : m \in Meas}
                    \cup {[c |-> "nameRe", x |-> "1$", y |-> ""]}       \* matches m1 only
TagLeafs == {[c |-> "tagEq", x |-> k, y |-> v] : k \in Keys, v \in Vals}
\* k =~ /^(a|b)$/ : matches every value of the key (and not the empty string, i.e. not a series without the key)
TagRes == {[c |-> "tagRe", x |-> k, y |-> ""] : k \in Keys}
Filters == {None} \cup TagLeafs \cup {[c |-> "tagNeq", x |-> k, y |-> v] : k \in Keys, v \in Vals}
KeyConds == {None} \cup {[c |-> "keyEq", x |-> k, y |-> ""] : k \in Keys}
                   \cup {[c |-> "keyNeq", x |-> k, y |-> ""] : k \in Keys}
                   \cup {[c |-> "keyIn", x |-> "k1", y |-> "k2"]}
NameOK(c, m) == CASE c.c = "none"    -> TRUE
                  [] c.c = "nameEq"  -> m = c.x
                  [] c.c = "nameNeq" -> m # c.x
                  [] c.c = "nameRe"  -> m = "m1"
KeyOK(c, k) == CASE c.c = "none"   -> TRUE
                 [] c.c = "keyEq"  -> k = c.x
                 [] c.c = "keyNeq" -> k # c.x
                 [] c.c = "keyIn"  -> k \in {c.x, c.y}
FilterOK(c, s) == CASE c.c = "none"   -> TRUE
                    [] c.c = "tagEq"  -> TagOf(s, c.x) = c.y
                    [] c.c = "tagNeq" -> TagOf(s, c.x) # c.y        \* an absent tag is ""
                    [] c.c = "tagRe"  -> TagOf(s, c.x) # ""

\* ---- queries
\* MeasurementNames takes the whole database; a name clause or one tag clause (AND of both has legacy semantics, see DESIGN)
MNQueries == {q \in {[api |-> "mn", auth |-> a, shards |-> Shards, name |-> n, key |-> None, filter |-> f] :
                        a \in Auths, n \in NameConds, f \in {None} \cup TagLeafs \cup TagRes} : q.name = None \/ q.filter = None}
TKQueries == {[api |-> "tk", auth |-> a, shards |-> sh, name |-> n, key |-> kc, filter |-> f] :
                 a \in Auths, sh \in (SUBSET Shards) \ {{}}, n \in {None, [c |-> "nameEq", x |-> "m1", y |-> ""]}, kc \in KeyConds, f \in Filters}
TVQueries == {[api |-> "tv", auth |-> a, shards |-> sh, name |-> n, key |-> kc, filter |-> f] :
                 a \in Auths, sh \in (SUBSET Shards) \ {{}}, n \in {None, [c |-> "nameEq", x |-> "m1", y |-> ""]}, kc \in KeyConds \ {None}, f \in Filters}
Queries == MNQueries \cup TKQueries \cup TVQueries
QSeq == SetToSeq(Queries)
NQ == Len(QSeq)

VARIABLES data,   \* [Shards -> SUBSET S]: series with data in the shard
          rawkv,  \* implementation layer: [Shards -> SUBSET (Meas \X Keys \X Vals)] names the shard index still lists
          nops, hist
vars == <<data, rawkv, nops, hist>>

\* ---- contract
LiveIn(d, sh) == UNION {d[i] : i \in sh}
Visible(d, q) == {s \in LiveIn(d, q.shards) : Allowed(q.auth, s) /\ FilterOK(q.filter, s)}
MNResult(d, q) == {m \in Meas : NameOK(q.name, m) /\ \E s \in Visible(d, q) : MOf(s) = m}
TKResult(d, q) == [m \in Meas |-> IF NameOK(q.name, m)
                                  THEN {k \in Keys : KeyOK(q.key, k) /\ \E s \in Visible(d, q) : MOf(s) = m /\ TagOf(s, k) # ""}
                                  ELSE {}]
TVResult(d, q) == [m \in Meas |-> IF NameOK(q.name, m)
                                  THEN {<<k, TagOf(s, k)>> : k \in {kk \in Keys : KeyOK(q.key, kk)},
                                                             s \in {x \in Visible(d, q) : MOf(x) = m}} \ {<<k, "">> : k \in Keys}
                                  ELSE {}]
\* JSON-friendly form: measurement names / per measurement the sorted-irrelevant set of keys / of [k, v] pairs
Result(d, q) == CASE q.api = "mn" -> [ms |-> MNResult(d, q)]
                  [] q.api = "tk" -> [keys |-> TKResult(d, q)]
                  [] q.api = "tv" -> [vals |-> [m \in Meas |-> {[k |-> p[1], v |-> p[2]] : p \in TVResult(d, q)[m]}]]

\* ---- implementation layer (what the Store does with an open authorizer and no filter: raw per-shard tag iterators)
RawKV(r, sh) == UNION {r[i] : i \in sh}
RawPath(q) == IsOpen(q.auth) /\ q.filter = None
ImplTV(d, r, q) == IF RawPath(q)
                   THEN [m \in Meas |-> IF NameOK(q.name, m) /\ (\E s \in LiveIn(d, q.shards) : MOf(s) = m)
                                        THEN {<<x[2], x[3]>> : x \in {y \in RawKV(r, q.shards) : y[1] = m /\ KeyOK(q.key, y[2])}} ELSE {}]
                   ELSE TVResult(d, q)
ImplTK(d, r, q) == IF RawPath(q)
                   THEN [m \in Meas |-> IF NameOK(q.name, m) /\ (\E s \in LiveIn(d, q.shards) : MOf(s) = m)
                                        THEN {x[2] : x \in {y \in RawKV(r, q.shards) : y[1] = m /\ KeyOK(q.key, y[2])}} ELSE {}]
                   ELSE TKResult(d, q)
\* representative queries for the exhaustive check of the implementation layer (every authorizer and shard selection)
MCQueries == {q \in TVQueries \cup TKQueries : /\ q.name = None
                                                /\ q.key.c \in {"none", "keyIn"}
                                                /\ q.filter \in {None, [c |-> "tagEq", x |-> "k1", y |-> "a"], [c |-> "tagNeq", x |-> "k2", y |-> "b"]}}
\* on the per-series path the listing is exact; on the raw path it may only list more (names of deleted series)
ImplExact == \A q \in MCQueries :
               IF q.api = "tv" THEN /\ ~RawPath(q) => ImplTV(data, rawkv, q) = TVResult(data, q)
                                    /\ \A m \in Meas : TVResult(data, q)[m] \subseteq ImplTV(data, rawkv, q)[m]
               ELSE /\ ~RawPath(q) => ImplTK(data, rawkv, q) = TKResult(data, q)
                    /\ \A m \in Meas : TKResult(data, q)[m] \subseteq ImplTK(data, rawkv, q)[m]
\* a listing never shows a name none of whose series the authorizer lets the caller see
NoLeak == \A q \in MCQueries :
            LET visM == {MOf(s) : s \in {x \in LiveIn(data, q.shards) : Allowed(q.auth, x)}}
            IN IF q.api = "tv" THEN \A m \in Meas : TVResult(data, q)[m] # {} => m \in visM
               ELSE \A m \in Meas : TKResult(data, q)[m] # {} => m \in visM
\* lead F12: would hold if the raw iterators forgot the names of deleted series
NoStaleNames == \A q \in MCQueries : q.api = "tv" => ImplTV(data, rawkv, q) = TVResult(data, q)

\* ---- history
Pick(j) == QSeq[((Seed * 7919 + nops * 104729 + j * 1299709 + Cardinality(data[1]) * 31 + Cardinality(data[2]) * 17) % NQ) + 1]
\* directed queries derived from the world: MeasurementNames with a regex clause matching >= 2 values of key k, under the
\* fine-grained authorizer that hides exactly the series of one of those values while another value is on a visible series
DirectedMN(d) == {q \in MNQueries :
                    /\ q.filter.c = "tagRe" /\ q.auth.kind = "fine"
                    /\ \E v \in Vals : /\ q.auth.hide = HideVal(q.filter.x, v)
                                        /\ \E s1, s2 \in LiveIn(d, Shards) : /\ MOf(s1) = MOf(s2)
                                                                            /\ TagOf(s1, q.filter.x) = v
                                                                            /\ TagOf(s2, q.filter.x) \notin {v, ""}}
Sample(d) == IF RecHist THEN [j \in 1..QPerStep |-> [q |-> Pick(j), exp |-> Result(d, Pick(j))]]
                              \o SetToSeq({[q |-> q, exp |-> Result(d, q)] : q \in DirectedMN(d)})
             ELSE <<>>
KVOf(X) == {<<MOf(s), k, TagOf(s, k)>> : s \in X, k \in Keys} \ {<<m, k, "">> : m \in Meas, k \in Keys}

Init == /\ data = [i \in Shards |-> {}]
        /\ rawkv = [i \in Shards |-> {}]
        /\ nops = 0 /\ hist = <<>>

\* Store.WriteToShard(i, one point per series of X at a time inside shard i's range)
Write(i, X) ==
  /\ nops < MaxOps
  /\ X # {} /\ X \subseteq S /\ Cardinality(X) <= 2
  /\ LET d1 == [data EXCEPT ![i] = @ \cup X]
     IN /\ data' = d1
        /\ rawkv' = [rawkv EXCEPT ![i] = @ \cup KVOf(X)]
        /\ hist' = IF RecHist THEN Append(hist, [a |-> "write", shard |-> i, ss |-> X, qs |-> Sample(d1)]) ELSE hist
  /\ nops' = nops + 1

\* delete of every point of the selected series inside a time range that covers the shards `rng`
Sel(m, k, v) == {s \in S : MOf(s) = m /\ (k # "" => TagOf(s, k) = v)}
Delete(m, k, v, rng) ==
  /\ nops < MaxOps
  /\ k = "" => v = "a"
  /\ LET D  == Sel(m, k, v)
         d1 == [i \in Shards |-> IF i \in rng THEN data[i] \ D ELSE data[i]]
         \* the engine drops a measurement from the shard index when its last series goes: its raw names go with it
         r1 == [i \in Shards |-> {x \in rawkv[i] : \E s \in d1[i] : MOf(s) = x[1]}]
     IN /\ \E i \in rng : data[i] \cap D # {}
        /\ data' = d1
        /\ rawkv' = r1
        /\ hist' = IF RecHist THEN Append(hist, [a |-> "delete", m |-> m, k |-> k, v |-> v, rng |-> rng, qs |-> Sample(d1)]) ELSE hist
  /\ nops' = nops + 1

Next == \/ \E i \in Shards, X \in SUBSET S : Write(i, X)
        \/ \E m \in Meas, k \in Keys \cup {""}, v \in Vals, rng \in (SUBSET Shards) \ {{}} : Delete(m, k, v, rng)
Spec == Init /\ [][Next]_vars

TypeOK == \A i \in Shards : data[i] \subseteq S /\ KVOf(data[i]) \subseteq rawkv[i]
View == <<data, rawkv>>
Emit == (RecHist /\ nops = MaxOps) => PrintT("@@J" \o ToJson(hist))
=============================================================================
