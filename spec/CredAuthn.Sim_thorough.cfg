SPECIFICATION Spec
CONSTANTS
  Users = {1, 2}
  MaxT = 4
  MaxOps = 12
  Renewals = {TRUE, FALSE}
  SessLens = {"short", "long"}
  Forms = {"none", "token", "bearer", "phc", "basic", "jwt"}
  Mgmt = {"token", "user", "session"}
PROPERTIES OnlyCurrentAuthenticates SessionStillUnexpired NeverForInactiveUser UnknownNeverHeld CurrentIsHeld CurrentAuthenticates TokenGoodIffActiveAtBegin
CHECK_DEADLOCK FALSE
