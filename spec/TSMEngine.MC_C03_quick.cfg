\* C03 checking, quick: a delete never overlaps a cache snapshot (the F1 window is excluded); everything else must hold
SPECIFICATION Spec
CONSTANTS
  Keys = {1, 2}
  Times = {1, 2}
  BatchSizes = {1}
  DupInBatch = FALSE
  MaxPoints = 3
  MaxSnaps = 1
  MaxCompacts = 1
  MaxDeletes = 1
  MaxReopens = 1
  MinGroup = 1
  SplitWrites = FALSE
  SnapDeleteOverlap = FALSE
  MaxOps = 1000
INVARIANTS TypeOK FilesSorted GenFresh WALMatchesCache VisibleEqualsModel ReadEqualsModel DuringDelete DuringWrite NoResurrection
PROPERTIES FinStable
VIEW View
CHECK_DEADLOCK FALSE
