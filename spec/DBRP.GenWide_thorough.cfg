SPECIFICATION Spec
CONSTANTS
  DBs1 = {"d1", "d2"}
  DBs2 = {"d1", "d2"}
  RPs = {"r1", "autogen"}
  VirtOrgs = {1}
  CollideOrgs = {}
  MaxOps = 4
  MaxMaps = 3
  KeepObs = TRUE
INVARIANTS TypeOK
CHECK_DEADLOCK FALSE
