SPECIFICATION Spec
CONSTANTS
  Slots = {1, 2}
  Scheds = {1, 2}
  MaxOps = 3
  CreateSkipsInactive = FALSE
INVARIANTS TypeOK OnlyActiveScheduled
VIEW View
CHECK_DEADLOCK FALSE
