SPECIFICATION Spec
CONSTANTS
  Keys = {"k1", "k2"}
  Times = {1, 2, 3}
  SegSize = 4
  Menu <- MenuLead
  MaxOps = 5
  MaxEntries = 2
  MaxPending = 1
  HoleQuirk = FALSE
  Record = TRUE
INVARIANTS TypeOK
CHECK_DEADLOCK FALSE
