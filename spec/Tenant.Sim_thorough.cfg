SPECIFICATION Spec
CONSTANTS
  Names = {"n1", "n2"}
  MaxOps = 7
  MaxOrgs = 3
  MaxUsers = 2
  MaxBkts = 3
  SysTargets = {"_tasks", "_monitoring"}
  WithRemove = TRUE
INVARIANTS TypeOK UniqueOrgNames UniqueUserNames UniqueBktNamesPerOrg LookupAgrees NoOrphans SystemBucketsIntact
CHECK_DEADLOCK FALSE
