SPECIFICATION Spec
CONSTANTS
  MaxGens = 10
  MinInit = 4
  Lvls = {1, 2}
  Shapes <- ShapesSmall
  Tombs = {TRUE, FALSE}
  MaxEnv = 4
  OutShapes <- ShapesSmall
  KeepHist = TRUE
  MaxHist = 15
  NoIdle = TRUE
INVARIANTS EmitMaximal
CHECK_DEADLOCK FALSE
