------------------------------ MODULE AuthzSvc ------------------------------
(* C29 - authorization wrappers never leak or modify unauthorized resources.                               *)
(*                                                                                                          *)
(* Implementation layer: the authorizing wrappers authorizer.{Bucket,Org,User,Authorization}Service        *)
(* (and their twins tenant.Authed{Bucket,Org,User}Service / authorization.AuthedAuthorizationService)      *)
(* around the tenant / authorization services: which request each wrapper builds, whether it looks the     *)
(* target up before or after authorizing, what the wrapped service then does to the stores                  *)
(* (system buckets per org, org delete cascades to buckets and memberships, CreateOrganization makes the   *)
(* calling user an owner, FindOrganizations without filter falls back to the caller's memberships ...).    *)
(* One action per wrapper call (each call is one KV transaction or a fixed sequence ending in one).        *)
(*                                                                                                          *)
(* Contract layer (exactly what C29 names):                                                                 *)
(*   readable sets (fields rb, rsys, ro, ru, ra of Vis) - a Find call may only return members of them     *)
(*   authz of a mutating call    - the call may succeed only if authz                                       *)
(*   for CreateAuthorization authz includes "every granted permission is already held" (VerifyPermissions) *)
(*   ~ok  =>  store unchanged                                                                               *)
(*                                                                                                          *)
(* Permissions use Authz.tla's records; org ids and resource ids are small integers, 0 = nil; resource id  *)
(* k of type T is "the k-th resource of type T" (ids 1,2 exist initially, created ones are numbered on).    *)
EXTENDS Authz, TLC

CONSTANTS CallerMode,     \* "single": every caller with <= 1 permission of the domain; "explicit": Callers
          Callers,        \* set of sets of permission codes (see PermOf)
          CallerActive,   \* subset of BOOLEAN: status of the caller's token
          Grants,         \* set of sets of permission codes a CreateAuthorization may ask for
          AuthPairs,      \* set of org*10+user codes used by CreateAuthorization
          MaxOps,         \* bound on history length (not counting the "init" pseudo step)
          StopAtFailure   \* TRUE: a failed call ends the history (it changed nothing, so continuing is redundant)

VARIABLES orgs,      \* live org id     -> [ver]
          buckets,   \* live bucket id  -> [org, ver]           (user buckets; every live org also has 2 system buckets)
          users,     \* live user id    -> [ver]
          auths,     \* live auth id    -> [org, user, perms, ver]
          member,    \* orgs the caller's user (user 1) is a member/owner of  (user resource mappings)
          next,      \* next id per type
          caller,    \* [perms, active]   (constant over a behaviour)
          stopped,
          hist
vars == <<orgs, buckets, users, auths, member, next, caller, stopped, hist>>

\* ------------------------------------------------------------------ permission domain
Acts == <<"read", "write">>
TypeOrder == <<"authorizations", "buckets", "orgs", "users", "tasks", "instance">>
PermOf(c) == [act |-> Acts[(c \div 54) + 1], typ |-> TypeOrder[((c % 54) \div 9) + 1], org |-> (c % 9) \div 3, id |-> c % 3]
\* the code ignores org/id of instance-wide permissions: two forms suffice
PermCodes == {c \in 0..107 : (PermOf(c).typ = Instance) => (c % 9) \in {0, 7}}
PermsOf(cs) == {PermOf(c) : c \in cs}
CallerUser == 1

\* ------------------------------------------------------------------ requests the wrappers build (authorizer/authorize.go)
ReqAt(act, typ, org, id) == [act |-> act, typ |-> typ, org |-> org, id |-> id]    \* NewPermissionAtID
ReqOrg(act, typ, org)    == [act |-> act, typ |-> typ, org |-> org, id |-> Nil]   \* NewPermission
ReqRes(act, typ, id)     == [act |-> act, typ |-> typ, org |-> Nil, id |-> id]    \* NewResourcePermission
ReqGlobal(act, typ)      == [act |-> act, typ |-> typ, org |-> Nil, id |-> Nil]   \* NewGlobalPermission

\* isAllowed: Authorization.PermissionSet() fails for an inactive token, then PermissionSet.Allowed
May(c, r) == c.active /\ AllowedSet(c.perms, r)

\* ------------------------------------------------------------------ contract: what the caller may read
MayReadBucket(c, bs, b) == May(c, ReqAt("read", "buckets", bs[b].org, b))
MayReadOrg(c, o)        == May(c, ReqRes("read", "orgs", o))          \* AuthorizeReadOrg; also guards the org's system buckets
MayReadUser(c, u)       == May(c, ReqRes("read", "users", u))
MayReadAuth(c, as, a)   == /\ May(c, ReqAt("read", "authorizations", as[a].org, a))
                           /\ May(c, ReqRes("read", "users", as[a].user))

Vis(c, o, b, u, a, m) ==
  [rb   |-> {x \in DOMAIN b : MayReadBucket(c, b, x)},
   rsys |-> {x \in DOMAIN o : MayReadOrg(c, x)},           \* orgs whose two system buckets are readable
   ro   |-> {x \in DOMAIN o : MayReadOrg(c, x)},
   ru   |-> {x \in DOMAIN u : MayReadUser(c, x)},
   ra   |-> {x \in DOMAIN a : MayReadAuth(c, a, x)},
   \* FindOrganizations with an empty filter: without the type-wide read permission the wrapper restricts the
   \* lookup to the caller's own memberships before filtering
   olist |-> IF May(c, ReqGlobal("read", "orgs")) THEN {x \in DOMAIN o : MayReadOrg(c, x)}
             ELSE {x \in DOMAIN o \cap m : MayReadOrg(c, x)}]

Store(o, b, u, a, m) == [orgs |-> o, buckets |-> b, users |-> u, auths |-> a, member |-> m]

Obs(ok, authz, o, b, u, a, m) ==
  [ok |-> ok, authz |-> authz, st |-> Store(o, b, u, a, m), vis |-> Vis(caller, o, b, u, a, m)]

\* ------------------------------------------------------------------ initial state
Orgs0    == (1 :> [ver |-> 0]) @@ (2 :> [ver |-> 0])
Buckets0 == (1 :> [org |-> 1, ver |-> 0]) @@ (2 :> [org |-> 2, ver |-> 0])
Users0   == (1 :> [ver |-> 0]) @@ (2 :> [ver |-> 0])
Auths0   == (1 :> [org |-> 1, user |-> 1, perms |-> {ReqOrg("read", "buckets", 1)}, ver |-> 0]) @@
            (2 :> [org |-> 2, user |-> 2, perms |-> {ReqOrg("read", "buckets", 2)}, ver |-> 0])
Member0  == {1}
Next0    == [orgs |-> 3, buckets |-> 3, users |-> 3, auths |-> 3]

CallerSets == IF CallerMode = "single" THEN {{}} \cup {{c} : c \in PermCodes} ELSE Callers

Init ==
  /\ orgs = Orgs0 /\ buckets = Buckets0 /\ users = Users0 /\ auths = Auths0
  /\ member = Member0 /\ next = Next0
  /\ \E cs \in CallerSets, act \in CallerActive : caller = [perms |-> PermsOf(cs), active |-> act]
  /\ stopped = FALSE
  /\ hist = <<[a |-> "init", exp |-> [ok |-> TRUE, authz |-> TRUE,
                                       st |-> Store(Orgs0, Buckets0, Users0, Auths0, Member0),
                                       vis |-> Vis(caller, Orgs0, Buckets0, Users0, Auths0, Member0)]]>>

Step == Len(hist) + 1          \* index of the record the current action appends; used as version stamp
CanStep == ~stopped /\ Len(hist) <= MaxOps

\* common tail: record the call; a failed call leaves everything else unchanged
Fail(rec, authz) ==
  /\ UNCHANGED <<orgs, buckets, users, auths, member, next, caller>>
  /\ stopped' = StopAtFailure
  /\ hist' = Append(hist, rec @@ [exp |-> Obs(FALSE, authz, orgs, buckets, users, auths, member)])

Done(rec, o, b, u, a, m, n) ==
  /\ orgs' = o /\ buckets' = b /\ users' = u /\ auths' = a /\ member' = m /\ next' = n
  /\ UNCHANGED <<caller, stopped>>
  /\ hist' = Append(hist, rec @@ [exp |-> Obs(TRUE, TRUE, o, b, u, a, m)])

Drop(f, x) == [y \in DOMAIN f \ {x} |-> f[y]]

\* ------------------------------------------------------------------ buckets   (authorizer/bucket.go)
\* CreateBucket: AuthorizeCreate(buckets, b.OrgID) then the tenant service checks the org exists
CreateBucket(o) ==
  /\ CanStep
  /\ LET authz == May(caller, ReqOrg("write", "buckets", o))
         rec   == [a |-> "CreateBucket", org |-> o, new |-> next.buckets]
     IN IF authz /\ o \in DOMAIN orgs
        THEN Done(rec, orgs, buckets @@ (next.buckets :> [org |-> o, ver |-> Step]), users, auths, member,
                  [next EXCEPT !.buckets = @ + 1])
        ELSE Fail(rec, authz)

\* UpdateBucket / DeleteBucket: FindBucketByID first (not found -> error), then AuthorizeWrite(buckets, id, b.OrgID)
UpdateBucket(b) ==
  /\ CanStep
  /\ LET authz == b \in DOMAIN buckets /\ May(caller, ReqAt("write", "buckets", buckets[b].org, b))
         rec   == [a |-> "UpdateBucket", id |-> b]
     IN IF authz THEN Done(rec, orgs, [buckets EXCEPT ![b].ver = Step], users, auths, member, next)
        ELSE Fail(rec, authz)

DeleteBucket(b) ==
  /\ CanStep
  /\ LET authz == b \in DOMAIN buckets /\ May(caller, ReqAt("write", "buckets", buckets[b].org, b))
         rec   == [a |-> "DeleteBucket", id |-> b]
     IN IF authz THEN Done(rec, orgs, Drop(buckets, b), users, auths, member, next)
        ELSE Fail(rec, authz)

\* ------------------------------------------------------------------ organizations   (authorizer/org.go)
\* CreateOrganization: AuthorizeWriteGlobal(orgs). The tenant service creates the org and its system buckets and then
\* maps the calling user as owner; when that user no longer exists the mapping fails and the call returns an error
\* AFTER the org was created (not a denial: authz holds) - modelled as it is.
CreateOrg ==
  /\ CanStep
  /\ LET authz == May(caller, ReqGlobal("write", "orgs"))
         rec   == [a |-> "CreateOrg", new |-> next.orgs]
         o2    == orgs @@ (next.orgs :> [ver |-> Step])
         n2    == [next EXCEPT !.orgs = @ + 1]
     IN IF ~authz THEN Fail(rec, FALSE)
        ELSE IF CallerUser \in DOMAIN users
        THEN Done(rec, o2, buckets, users, auths, member \cup {next.orgs}, n2)
        ELSE /\ orgs' = o2 /\ next' = n2
             /\ UNCHANGED <<buckets, users, auths, member, caller>>
             /\ stopped' = StopAtFailure
             /\ hist' = Append(hist, rec @@ [exp |-> Obs(FALSE, TRUE, o2, buckets, users, auths, member)])

\* UpdateOrganization / DeleteOrganization: AuthorizeWriteOrg(id) BEFORE the lookup
UpdateOrg(o) ==
  /\ CanStep
  /\ LET authz == May(caller, ReqRes("write", "orgs", o))
         rec   == [a |-> "UpdateOrg", id |-> o]
     IN IF authz /\ o \in DOMAIN orgs
        THEN Done(rec, [orgs EXCEPT ![o].ver = Step], buckets, users, auths, member, next)
        ELSE Fail(rec, authz)

\* delete cascades to the org's buckets (user and system) and to memberships; authorizations are left alone
DeleteOrg(o) ==
  /\ CanStep
  /\ LET authz == May(caller, ReqRes("write", "orgs", o))
         rec   == [a |-> "DeleteOrg", id |-> o]
     IN IF authz /\ o \in DOMAIN orgs
        THEN Done(rec, Drop(orgs, o), [b \in {x \in DOMAIN buckets : buckets[x].org # o} |-> buckets[b]],
                  users, auths, member \ {o}, next)
        ELSE Fail(rec, authz)

\* ------------------------------------------------------------------ users   (authorizer/user.go)
CreateUser ==
  /\ CanStep
  /\ LET authz == May(caller, ReqGlobal("write", "users"))
         rec   == [a |-> "CreateUser", new |-> next.users]
     IN IF authz THEN Done(rec, orgs, buckets, users @@ (next.users :> [ver |-> Step]), auths, member,
                           [next EXCEPT !.users = @ + 1])
        ELSE Fail(rec, authz)

UpdateUser(u) ==
  /\ CanStep
  /\ LET authz == May(caller, ReqRes("write", "users", u))
         rec   == [a |-> "UpdateUser", id |-> u]
     IN IF authz /\ u \in DOMAIN users
        THEN Done(rec, orgs, buckets, [users EXCEPT ![u].ver = Step], auths, member, next)
        ELSE Fail(rec, authz)

\* deleting a user deletes its password and memberships; its authorizations stay
DeleteUser(u) ==
  /\ CanStep
  /\ LET authz == May(caller, ReqRes("write", "users", u))
         rec   == [a |-> "DeleteUser", id |-> u]
     IN IF authz /\ u \in DOMAIN users
        THEN Done(rec, orgs, buckets, Drop(users, u), auths, IF u = CallerUser THEN {} ELSE member, next)
        ELSE Fail(rec, authz)

\* ------------------------------------------------------------------ authorizations   (authorizer/auth.go, authorization/middleware_auth.go)
\* CreateAuthorization: AuthorizeCreate(authorizations, a.OrgID), AuthorizeWriteResource(users, a.UserID),
\* VerifyPermissions(a.Permissions); the service then requires: every org-carrying permission is for a.OrgID (Valid),
\* the user exists, the org exists.  okB: the tenant-era wrapper additionally refuses instance-wide grants.
Held(g) == \A p \in g : May(caller, p)
CreateAuth(o, u, gc) ==
  /\ CanStep
  /\ LET g     == PermsOf(gc)
         authz == /\ May(caller, ReqOrg("write", "authorizations", o))
                  /\ May(caller, ReqRes("write", "users", u))
                  /\ Held(g)
         valid == \A p \in g : p.org \in {Nil, o}
         noInst == \A p \in g : p.typ # Instance
         rec   == [a |-> "CreateAuth", org |-> o, user |-> u, grant |-> g, new |-> next.auths, noInst |-> noInst]
     IN IF authz /\ valid /\ u \in DOMAIN users /\ o \in DOMAIN orgs
        THEN Done(rec, orgs, buckets, users,
                  auths @@ (next.auths :> [org |-> o, user |-> u, perms |-> g, ver |-> Step]), member,
                  [next EXCEPT !.auths = @ + 1])
        ELSE Fail(rec, authz)

\* Update/Delete: FindAuthorizationByID first, then AuthorizeWrite(authorizations, a.ID, a.OrgID) and
\* AuthorizeWriteResource(users, a.UserID)
MayWriteAuth(a) == /\ a \in DOMAIN auths
                   /\ May(caller, ReqAt("write", "authorizations", auths[a].org, a))
                   /\ May(caller, ReqRes("write", "users", auths[a].user))
UpdateAuth(a) ==
  /\ CanStep
  /\ LET rec == [a |-> "UpdateAuth", id |-> a]
     IN IF MayWriteAuth(a) THEN Done(rec, orgs, buckets, users, [auths EXCEPT ![a].ver = Step], member, next)
        ELSE Fail(rec, MayWriteAuth(a))
DeleteAuth(a) ==
  /\ CanStep
  /\ LET rec == [a |-> "DeleteAuth", id |-> a]
     IN IF MayWriteAuth(a) THEN Done(rec, orgs, buckets, users, Drop(auths, a), member, next)
        ELSE Fail(rec, MayWriteAuth(a))

\* ------------------------------------------------------------------ next-state relation
Next ==
  \/ \E o \in 1..(next.orgs - 1) : CreateBucket(o)
  \/ \E o \in 1..(next.orgs - 1) : UpdateOrg(o)
  \/ \E o \in 1..(next.orgs - 1) : DeleteOrg(o)
  \/ \E b \in 1..(next.buckets - 1) : UpdateBucket(b)
  \/ \E b \in 1..(next.buckets - 1) : DeleteBucket(b)
  \/ CreateOrg
  \/ CreateUser
  \/ \E u \in 1..(next.users - 1) : UpdateUser(u)
  \/ \E u \in 1..(next.users - 1) : DeleteUser(u)
  \/ \E ou \in AuthPairs, g \in Grants : CreateAuth(ou \div 10, ou % 10, g)
  \/ \E a \in 1..(next.auths - 1) : UpdateAuth(a)
  \/ \E a \in 1..(next.auths - 1) : DeleteAuth(a)

Spec == Init /\ [][Next]_vars

\* ------------------------------------------------------------------ checked on the specification
StoreVars == <<orgs, buckets, users, auths, member, next>>
Last == hist[Len(hist)]

\* a denied (unauthorized) call changes nothing
DeniedChangesNothing == [][(Len(hist') > Len(hist) /\ ~hist'[Len(hist')].exp.authz) => UNCHANGED StoreVars]_vars

\* no escalation: every authorization created through the wrapper holds only permissions its creator held
NoEscalation == \A a \in DOMAIN auths : a >= 3 => \A p \in auths[a].perms : May(caller, p)

\* corollaries that tie C29 to C28
HasWrite == \E p \in caller.perms : p.act = "write"
ReadOnlyCallerNeverMutates ==
  (~HasWrite \/ ~caller.active) => /\ orgs = Orgs0 /\ buckets = Buckets0 /\ users = Users0 /\ auths = Auths0
InactiveCallerSeesNothing ==
  ~caller.active => LET v == Last.exp.vis IN v.rb = {} /\ v.ro = {} /\ v.ru = {} /\ v.ra = {} /\ v.olist = {}
\* a caller whose permissions are all scoped to org 1 (and not instance-wide) never sees or touches org 2's buckets/tokens
OnlyOrg1 == \A p \in caller.perms : p.typ # Instance /\ p.org = 1 /\ p.id = Nil
OrgIsolation ==
  OnlyOrg1 => /\ \A b \in Last.exp.vis.rb : buckets[b].org = 1
              /\ \A a \in Last.exp.vis.ra : auths[a].org = 1
              /\ (2 \in DOMAIN buckets /\ buckets[2] = Buckets0[2])
              /\ (2 \in DOMAIN auths /\ auths[2] = Auths0[2])
              /\ \A b \in DOMAIN buckets : b >= 3 => buckets[b].org = 1
              /\ \A a \in DOMAIN auths : a >= 3 => auths[a].org = 1

View == <<orgs, buckets, users, auths, member, next, caller, stopped, Len(hist)>>
=============================================================================
