SPECIFICATION Spec
CONSTANTS
  Keys = {"k1", "k2"}
  Slots = {1, 2}
  InitMenu <- InitQuick
  NewMenu <- NewQuick
  SeekSlots = {1, 2}
  MaxFiles = 5
  MaxNew = 2
  MaxCursors = 3
  MaxOpen = 2
  MaxReplaces = 3
  MaxStepwise = 2
  MaxOps = 14
  Record = TRUE
  Fine = FALSE
  Reads = TRUE
  WithStats = TRUE
  WithClose = TRUE
  Mut = "none"
INVARIANTS TypeOK RefsMatch CursorSnapshot
CHECK_DEADLOCK FALSE
