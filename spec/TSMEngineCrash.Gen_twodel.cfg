\* C02 generation, two deletes on one TSM file (both tiers; FIXED, un-sampled cases): no compaction, no spec-level Crash -- the driver images every schedule point,
\* in particular the tombstone.prepare.* / tombstone.commit.* points of the SECOND delete, when the file already has a committed tombstone file of an
\* acknowledged delete
SPECIFICATION CSpec
CONSTANTS
  Keys = {1, 2}
  Times = {1, 2}
  BatchSizes = {1}
  DupInBatch = FALSE
  MaxPoints = 2
  MaxSnaps = 1
  MaxCompacts = 0
  MaxDeletes = 2
  MaxReopens = 0
  MinGroup = 1
  SplitWrites = FALSE
  SnapDeleteOverlap = FALSE
  MaxOps = 1000
  MaxCrashes = 0
  Fine = FALSE
  CrashKeep = {FALSE}
INVARIANTS CTypeOK UpInvariants CrashSafe RecOK NoPhantom WritableAfterRecovery TmpsOwned
PROPERTIES CFinStable
VIEW CView
CHECK_DEADLOCK FALSE
