\* C10 lead: the code as it is (deletions not logged): DropIsDurable is expected to be violated on the model; the replay decides
SPECIFICATION Spec
CONSTANTS
  Mode = "hist"
  Meas = {"m1", "m2"}
  Fields = {"f1", "f2"}
  Writers = {1}
  MaxOps = 4
  MaxBatch = 1
  LogDeletes = FALSE
  ReplayOverwrites = FALSE
  PointSetName = "all"
  NoMaint = FALSE
  UseIds = FALSE
  SchemaNames = {}
  VKs = {}
INVARIANTS DropIsDurable
VIEW View
CHECK_DEADLOCK FALSE
