\* escape focus, tag values range over every string of length <= 2; leaf predicates
SPECIFICATION Spec
CONSTANTS
  MeasSet <- Heavy4
  KeySet <- Heavy4
  ValSet <- AllStr
  TagCounts = {0, 1}
  LeafMode = "series"
  Shape = "leaf"
  SkipName = TRUE
  PredKeys <- Plain
  PredVals <- Plain
INVARIANTS KeyRoundTrips ModelAgrees
CHECK_DEADLOCK FALSE
