\* Lead: the model with the quirks of the code violates the contract (Inv_Names: UpdateRetentionPolicy renames a policy to the empty name).  The counterexample is replayed on the real
\* client and counts only if it reproduces there (known finding rp_renamed_to_empty_name).  Run with one worker: the shortest counterexample.
SPECIFICATION Spec
CONSTANTS
  DBs = {"d1", "d2"}
  RPs = {"autogen", "r2", "r3"}
  WithEmptyDB = TRUE
  CDurs = {0, 7}
  CSGDs = {0}
  CReps = {1}
  XNames = {"", "r2"}
  XDurs = {99, 7}
  XSGDs = {0}
  XReps = {99}
  UNames = {"-", ""}
  UDurs = {99, 3}
  USGDs = {99}
  UFull = FALSE
  AutoCreate = FALSE
  MaxSG = 1
  MaxOps = 3
  Record = TRUE
  Probing = FALSE
  NoOpSteps = FALSE
  DropKeepsDefault = FALSE
  RenameKeepsDefault = TRUE
  HalfYearIsLong = TRUE
  RenameAcceptsEmpty = TRUE
INVARIANTS Inv_Names
VIEW View
CHECK_DEADLOCK FALSE
