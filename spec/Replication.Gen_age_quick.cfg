SPECIFICATION Spec
CONSTANTS
  MaxBatches = 3
  MaxScript = 1
  Resps = {"204", "500"}
  Drops = {FALSE}
  Attempts0 = {0}
  MaxAges = {1}
  MaxTicks = 2
  SegCap = 2
  PeriodicAdv = FALSE
  PeriodicFix = TRUE
  EnqAnywhere = FALSE
  Record = TRUE
  MaxPre = 0
INVARIANTS TypeOK OnlyLegalRemovals PostInOrderH FirstAcceptInOrderH WaitFollowsRule PurgeOnlyOld

CHECK_DEADLOCK FALSE
