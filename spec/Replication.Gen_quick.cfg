SPECIFICATION Spec
CONSTANTS
  MaxBatches = 2
  MaxScript = 3
  Resps = {"204", "500", "400", "429ra1"}
  Drops = {TRUE, FALSE}
  Attempts0 = {0}
  MaxAges = {1}
  MaxTicks = 0
  SegCap = 2
  PeriodicAdv = FALSE
  PeriodicFix = TRUE
  EnqAnywhere = FALSE
  Record = TRUE
  MaxPre = 1
INVARIANTS TypeOK OnlyLegalRemovals PostInOrderH FirstAcceptInOrderH WaitFollowsRule

CHECK_DEADLOCK FALSE
