SPECIFICATION Spec
CONSTANTS
  DBs1 = {"d1", "d2"}
  DBs2 = {"d1", "d2"}
  RPs = {"r1", "r2", "autogen"}
  VirtOrgs = {1, 2}
  CollideOrgs = {1, 2}
  MaxOps = 6
  MaxMaps = 4
  KeepObs = FALSE
INVARIANTS TypeOK ReadContract RegisterSound
VIEW View
CHECK_DEADLOCK FALSE
