\* same constants as checks/C14.py uses for the quick model-checking run (keep mode); the check generates its configs itself
SPECIFICATION Spec
CONSTANTS
  NS = 3
  MaxGen = 1
  MaxOps = 3
  MaxFiles = 3
  MaxCreate = 2
  SfileDelete = FALSE
  CacheOn = TRUE
  FixCacheOnDrop = TRUE
  FixNewestTomb = TRUE
  Internal = TRUE
  RecHist = FALSE
  WithCrash = TRUE
INVARIANTS TypeOK InvAdjacent InvMeas InvVser InvVals InvPset InvRawSuper
VIEW View
CHECK_DEADLOCK FALSE
