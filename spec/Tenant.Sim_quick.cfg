SPECIFICATION Spec
CONSTANTS
  Names = {"n1", "n2"}
  MaxOps = 6
  MaxOrgs = 2
  MaxUsers = 2
  MaxBkts = 2
  SysTargets = {"_tasks", "_monitoring"}
  WithRemove = TRUE
INVARIANTS TypeOK UniqueOrgNames UniqueUserNames UniqueBktNamesPerOrg LookupAgrees NoOrphans SystemBucketsIntact
CHECK_DEADLOCK FALSE
