\* C41 thorough: run once per aggregate by the check, plus an OutCap = 3 slice
SPECIFICATION Spec
CONSTANTS
  MaxT = 5
  Everys = {1, 2, 3, 4}
  ValPats = {"zig"}
  Aggs = {"count", "sum", "min", "max", "first", "last", "mean"}
  OutCap = 2
  Mode = "table"
  QStarts = {0, 1, 2, 3}
  QStops = {3, 4, 5, 6, 7}
  TimeCols = {"none", "start", "stop"}
  EWSAsFound = FALSE
INVARIANTS TypeOK CursorContract TableContract
CHECK_DEADLOCK FALSE
