SPECIFICATION Spec
CONSTANTS
  Keys = {"k1", "k2"}
  Slots = {1, 2, 3}
  InitMenu <- InitThorough
  NewMenu <- NewQuick
  SeekSlots = {1, 2, 3}
  MaxFiles = 5
  MaxNew = 1
  MaxCursors = 4
  MaxOpen = 2
  MaxReplaces = 2
  MaxStepwise = 1
  MaxOps = 14
  Record = TRUE
  Fine = FALSE
  Reads = TRUE
  WithStats = FALSE
  WithClose = FALSE
  Mut = "none"
INVARIANTS TypeOK RefsMatch CursorSnapshot
CHECK_DEADLOCK FALSE
