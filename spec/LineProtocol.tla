---------------------------- MODULE LineProtocol ----------------------------
(* Line protocol of influxdb (models/points.go, pkg/escape) for C11 and C12.                                   *)
(*                                                                                                              *)
(* A line is a sequence of one-character strings.  The generators use the structural alphabet Sigma; the        *)
(* automaton itself never tests for "ordinary" characters, so every character that is not tested explicitly     *)
(* behaves like `a` (this is what makes the driver's concretisation of `a`/`1` sound).                          *)
(*                                                                                                              *)
(* Implementation layer: a transcription of the scanner, function by function, with the Go loop variables as    *)
(* parameters of recursive operators (0-based positions as in the code, At(b,i) = b[i]):                        *)
(*   ParsePointsWithPrecision = ParseAll (scanLine, skipWhitespace, comment/blank skipping, newline strip)      *)
(*   parsePoint = ParsePoint (scanKey = scanMeasurement + scanTags + duplicate/sort pass, scanFields with       *)
(*   scanNumber/scanBoolean, walkFields + seriesKeySize, scanTime, timestamp syntax, trailing-space rule)       *)
(*   accessors of a returned point: Name (escape.Unescape), Tags (walkTags, unescapeTag), FieldIterator         *)
(*   (scanFieldKey, escape.IsEscaped/AppendUnescaped, scanFieldValue, type detection, unescapeStringField)      *)
(*   rendering: NewPoint/MakeKey (unescape-then-escape of the measurement, escapeTag), Fields.MarshalBinary     *)
(*   (escape.String on field keys, EscapeStringField on string values), String()/PrecisionString.               *)
(* Quirks are kept: the `buf[i-1] != '\\'` escape test of the key scanners versus the pairwise skipping of      *)
(* scanFields/scanLine, quote toggling only when equals > commas, 'u' counted as a digit by scanNumber, ...     *)
(*                                                                                                              *)
(* Contract layer:                                                                                              *)
(*   C11  RoundTrips(p): PointOf(Parse(Render(p))) = Canon(p) and KeyRoundTrips(p); TLC checks                  *)
(*        InClass(p) => RoundTrips(p) over every abstract point of the generator (InClass = no component ends   *)
(*        in a backslash or has a backslash before a character that is special in that position, measurement    *)
(*        does not start with '#').  Outside the class the model itself fails to round-trip (finding F10).      *)
(*   C12  for every input: the per-line verdicts of ParseAll (accepted structure / rejected line text), the     *)
(*        batch contract BatchCompositional (a batch is parsed line by line, in order) and the model-level      *)
(*        point invariants PointInv of accepted lines (AcceptedPointsWellFormed).                               *)
(* Deliberate deviations: numeric range checks (>= 19 digits), scientific notation and the reserved tag keys    *)
(* (_field, _measurement, time, \x00, \xff) are not modelled - the generators cannot produce them (the result   *)
(* "unmodelled" is an invariant violation if it is ever reached); 64-bit timestamp arithmetic is symbolic       *)
(* (TimeVerdict); key-length arithmetic is by lengths only (PadVerdict).                                        *)
EXTENDS Integers, Sequences, FiniteSets, TLC

CONSTANTS MaxLen,        \* whole-line generator: maximal length of the input
          NameLen,       \* C11: maximal length of the varying (seed) component
          PairLen,       \* C11: maximal length of the second varying component (tag value, second key, string value)
          LongLen,       \* C11: family L, maximal length of the long components over the reduced alphabet (>= 3)
          SecLen,        \* section-wise generator: maximal length of a key/tag/measurement section
          ValLen,        \* section-wise generator: maximal length of the field value section
          BatchLen       \* batch generator: maximal number of lines

VARIABLES mode,   \* which generator produced the state ("root" for the seed states)
          line,   \* whole-line generator: the input as a sequence of characters
          inp,    \* the case: a string (C12) or a record (C11 / pad / time cases)
          exp     \* the expected observation computed by this specification
vars == <<mode, line, inp, exp>>

CA == "a"  C1 == "1"  CM == ","  EQ == "="  SP == " "  QT == "\""  BS == "\\"  MN == "-"  DT == "."
CI == "i"  CU == "u"  CT == "t"  HS == "#"  NL == "\n"  CR == "\r"  TB == "\t"

Sigma == {CA, C1, CM, EQ, SP, QT, BS, MN, DT, CI, CU, CT, HS, NL}
NameChars == {CA, CM, EQ, SP, QT, BS}
MaxKeyLength == 65535

\* byte order of the characters that can occur in compared tag keys
Ord(c) == CASE c = NL -> 10 [] c = CR -> 13 [] c = TB -> 9 [] c = SP -> 32 [] c = QT -> 34 [] c = HS -> 35
            [] c = "+" -> 43 [] c = CM -> 44 [] c = MN -> 45 [] c = DT -> 46 [] c = "0" -> 48 [] c = C1 -> 49
            [] c = EQ -> 61 [] c = BS -> 92 [] c = CA -> 97 [] c = "b" -> 98 [] c = "e" -> 101 [] c = "f" -> 102
            [] c = CI -> 105 [] c = "l" -> 108 [] c = "r" -> 114 [] c = "s" -> 115 [] c = CT -> 116 [] c = CU -> 117
            [] OTHER -> 255

RECURSIVE CmpR(_, _, _)
CmpR(x, y, i) == IF i > Len(x) /\ i > Len(y) THEN 0
                 ELSE IF i > Len(x) THEN -1
                 ELSE IF i > Len(y) THEN 1
                 ELSE IF Ord(x[i]) < Ord(y[i]) THEN -1
                 ELSE IF Ord(x[i]) > Ord(y[i]) THEN 1
                 ELSE CmpR(x, y, i + 1)
Cmp(x, y) == CmpR(x, y, 1)          \* bytes.Compare

At(b, i) == IF i >= 0 /\ i < Len(b) THEN b[i + 1] ELSE "OOB"
Slice(b, s, e) == SubSeq(b, s + 1, e)                              \* b[s:e]
Front(s) == SubSeq(s, 1, Len(s) - 1)
Last(s) == s[Len(s)]
RECURSIVE Str(_)
Str(s) == IF s = <<>> THEN "" ELSE Head(s) \o Str(Tail(s))
RECURSIVE Has(_, _)
Has(s, c) == IF s = <<>> THEN FALSE ELSE IF Head(s) = c THEN TRUE ELSE Has(Tail(s), c)
Digits == {"0", C1, "2", "3", "4", "5", "6", "7", "8", "9"}
IsNumeric(c) == c \in Digits \/ c = DT

\* ------------------------------------------------------------------ escaping (pkg/escape, models)
EscChars == {CM, QT, SP, EQ}                                        \* escape.escapeChars
RECURSIVE EscSet(_, _)
EscSet(s, set) == IF s = <<>> THEN <<>>                             \* one pass: backslash before every char of set
                  ELSE (IF Head(s) \in set THEN <<BS, Head(s)>> ELSE <<Head(s)>>) \o EscSet(Tail(s), set)
RECURSIVE Replace2(_, _, _)
Replace2(s, c, r) ==                                                \* bytes.Replace(s, `\c`, `c`, -1)
  IF Len(s) < 2 THEN s
  ELSE IF s[1] = BS /\ s[2] = c THEN <<r>> \o Replace2(SubSeq(s, 3, Len(s)), c, r)
  ELSE <<s[1]>> \o Replace2(Tail(s), c, r)
EscapeMeasurement(s) == EscSet(s, {CM, SP})
UnescapeMeasurement(s) == Replace2(Replace2(s, CM, CM), SP, SP)
EscapeTag(s) == EscSet(s, {CM, SP, EQ})
UnescapeTag(s) == Replace2(Replace2(Replace2(s, CM, CM), SP, SP), EQ, EQ)
EscapeFieldKey(s) == EscSet(s, EscChars)                            \* escape.String
EscapeStringField(s) == EscSet(s, {QT, BS})
RECURSIVE Unescape(_)
Unescape(s) ==                                                      \* escape.Unescape, single pass
  IF s = <<>> THEN <<>>
  ELSE IF s[1] = BS /\ Len(s) >= 2 /\ s[2] \in EscChars THEN <<s[2]>> \o Unescape(SubSeq(s, 3, Len(s)))
  ELSE <<s[1]>> \o Unescape(Tail(s))
IsEscaped(s) == \E i \in 1..(Len(s) - 1) : s[i] = BS /\ s[i + 1] \in EscChars
RECURSIVE IndexFrom(_, _, _)
IndexFrom(s, p, c) == IF p >= Len(s) THEN -1 ELSE IF At(s, p) = c THEN p ELSE IndexFrom(s, p + 1, c)
RECURSIVE AppendUnescapedR(_, _, _)
AppendUnescapedR(dst, src, pos) ==                                  \* escape.AppendUnescaped
  IF Len(src) = 0 THEN dst
  ELSE LET nx == IndexFrom(src, pos, BS) IN
       IF nx < 0 \/ nx + 1 >= Len(src) THEN dst \o src
       ELSE IF At(src, nx + 1) \in EscChars
            THEN AppendUnescapedR(dst \o Slice(src, 0, nx), Slice(src, nx + 1, Len(src)), 0)
            ELSE AppendUnescapedR(dst, src, nx + 1)
AppendUnescaped(s) == AppendUnescapedR(<<>>, s, 0)
RECURSIVE UnescapeStringField(_)
UnescapeStringField(s) ==
  IF s = <<>> THEN <<>>
  ELSE IF s[1] = BS /\ Len(s) >= 2 /\ s[2] \in {BS, QT} THEN <<s[2]>> \o UnescapeStringField(SubSeq(s, 3, Len(s)))
  ELSE <<s[1]>> \o UnescapeStringField(Tail(s))

\* ------------------------------------------------------------------ small scanners
RECURSIVE SkipWS(_, _)
SkipWS(b, i) == IF i < Len(b) /\ At(b, i) \in {SP, TB} THEN SkipWS(b, i + 1) ELSE i   \* (NUL is outside every generator)

RECURSIVE ScanTo(_, _, _)
ScanTo(b, i, stop) == IF i >= Len(b) THEN i
                      ELSE IF At(b, i) = stop /\ (i = 0 \/ At(b, i - 1) # BS) THEN i
                      ELSE ScanTo(b, i + 1, stop)

RECURSIVE ScanToSpaceOrR(_, _, _)
ScanToSpaceOrR(b, i0, stop) == LET i == i0 + 1 IN
   IF i > Len(b) + 1 THEN i                                       \* (index panic in the code; unreachable after scanTags)
   ELSE IF At(b, i - 1) = BS THEN ScanToSpaceOrR(b, i, stop)
   ELSE IF i >= Len(b) THEN i
   ELSE IF At(b, i) = stop \/ At(b, i) = SP THEN i
   ELSE ScanToSpaceOrR(b, i, stop)
ScanToSpaceOr(b, i, stop) == IF At(b, i) = stop \/ At(b, i) = SP THEN i ELSE ScanToSpaceOrR(b, i, stop)

RECURSIVE ScanTagValue(_, _)
ScanTagValue(b, i) == IF i >= Len(b) THEN i
                      ELSE IF At(b, i) = CM /\ At(b, i - 1) # BS THEN i
                      ELSE ScanTagValue(b, i + 1)

RECURSIVE ScanFieldValueR(_, _, _)
ScanFieldValueR(b, i, q) ==
  IF i >= Len(b) THEN i
  ELSE IF At(b, i) = BS /\ i + 1 < Len(b) /\ At(b, i + 1) \in {QT, BS} THEN ScanFieldValueR(b, i + 2, q)
  ELSE IF At(b, i) = QT THEN ScanFieldValueR(b, i + 1, ~q)
  ELSE IF At(b, i) = CM /\ ~q THEN i
  ELSE ScanFieldValueR(b, i + 1, q)
ScanFieldValue(b, i) == ScanFieldValueR(b, i, FALSE)

\* ------------------------------------------------------------------ scanLine
RECURSIVE ScanLineR(_, _, _, _, _, _)
ScanLineR(b, i, q, f, eq, cm) ==
  IF i >= Len(b) THEN i
  ELSE IF At(b, i) = BS /\ i + 2 < Len(b) THEN ScanLineR(b, i + 2, q, f, eq, cm)
  ELSE LET f2 == f \/ At(b, i) = SP IN
       IF f2 /\ ~q /\ At(b, i) = EQ THEN ScanLineR(b, i + 1, q, f2, eq + 1, cm)
       ELSE IF f2 /\ ~q /\ At(b, i) = CM THEN ScanLineR(b, i + 1, q, f2, eq, cm + 1)
       ELSE IF f2 /\ At(b, i) = QT /\ eq > cm THEN ScanLineR(b, i + 1, ~q, f2, eq, cm)
       ELSE IF At(b, i) = NL /\ ~q THEN i
       ELSE ScanLineR(b, i + 1, q, f2, eq, cm)
ScanLine(b, i) == ScanLineR(b, i, FALSE, FALSE, 0, 0)

\* ------------------------------------------------------------------ scanKey
Res3(st, i, err) == [st |-> st, i |-> i, err |-> err]
RECURSIVE ScanMeasR(_, _)
ScanMeasR(b, i0) == LET i == i0 + 1 IN
   IF i >= Len(b) THEN Res3("err", i, "missing fields")
   ELSE IF At(b, i - 1) = BS THEN ScanMeasR(b, i)
   ELSE IF At(b, i) = CM THEN Res3("tagKey", i + 1, "")
   ELSE IF At(b, i) = SP THEN Res3("fields", i, "")
   ELSE ScanMeasR(b, i)
ScanMeasurement(b, i) == IF i >= Len(b) \/ At(b, i) = CM THEN Res3("err", i, "missing measurement") ELSE ScanMeasR(b, i)

RECURSIVE ScanTagsKeyR(_, _)
ScanTagsKeyR(b, i0) == LET i == i0 + 1 IN
   IF i >= Len(b) \/ (At(b, i) \in {SP, CM} /\ At(b, i - 1) # BS) THEN Res3("err", i, "missing tag value")
   ELSE IF At(b, i) = EQ /\ At(b, i - 1) # BS THEN Res3("tagValue", i + 1, "")
   ELSE ScanTagsKeyR(b, i)
ScanTagsKey(b, i) == IF i >= Len(b) \/ At(b, i) \in {SP, CM, EQ} THEN Res3("err", i, "missing tag key") ELSE ScanTagsKeyR(b, i)

RECURSIVE ScanTagsValueR(_, _)
ScanTagsValueR(b, i0) == LET i == i0 + 1 IN
   IF i >= Len(b) THEN Res3("err", i, "missing fields")
   ELSE IF At(b, i) = EQ /\ At(b, i - 1) # BS THEN Res3("err", i, "invalid tag format")
   ELSE IF At(b, i) = CM /\ At(b, i - 1) # BS THEN Res3("tagKey", i + 1, "")
   ELSE IF At(b, i) = SP /\ At(b, i - 1) # BS THEN Res3("fields", i, "")
   ELSE ScanTagsValueR(b, i)
ScanTagsValue(b, i) == IF i >= Len(b) \/ At(b, i) \in {CM, SP} THEN Res3("err", i, "missing tag value") ELSE ScanTagsValueR(b, i)

\* scanTags: idx = starts of the tags, followed (on success) by i+1 (the code's indices[commas])
RECURSIVE ScanTagsR(_, _, _)
ScanTagsR(b, i, idx) ==
  LET k == ScanTagsKey(b, i)
      idx2 == Append(idx, i)
  IN IF k.err # "" THEN [i |-> k.i, idx |-> idx2, err |-> k.err]
     ELSE LET v == ScanTagsValue(b, k.i) IN
          IF v.err # "" THEN [i |-> v.i, idx |-> idx2, err |-> v.err]
          ELSE IF v.st = "tagKey" THEN ScanTagsR(b, v.i, idx2)
          ELSE [i |-> v.i, idx |-> Append(idx2, v.i + 1), err |-> ""]

\* tag key of the j-th tag as the first passes see it: scanTo(buf[indices[j]:indices[j+1]-1], 0, '=')
BoundedTagKey(b, idx, j) == LET sub == Slice(b, idx[j], idx[j + 1] - 1) IN Slice(sub, 0, ScanTo(sub, 0, EQ))
\* tag key as `less` and the second duplicate pass see it: scanTo(buf, indices[j], '=') / scanTo(buf[indices[j]:], 0, '=')
OpenTagKey(b, i) == Slice(b, i, ScanTo(b, i, EQ))
OpenTagKey0(b, i) == LET sub == Slice(b, i, Len(b)) IN Slice(sub, 0, ScanTo(sub, 0, EQ))

RECURSIVE FirstPass(_, _, _, _)
FirstPass(b, idx, j, n) == IF j > n - 1 THEN "sorted"
                           ELSE LET c == Cmp(BoundedTagKey(b, idx, j), BoundedTagKey(b, idx, j + 1)) IN
                                IF c > 0 THEN "unsorted" ELSE IF c = 0 THEN "dup" ELSE FirstPass(b, idx, j + 1, n)
RECURSIVE InsertIdx(_, _, _)
InsertIdx(b, t, x) == IF t = <<>> THEN <<x>>
                      ELSE IF Cmp(OpenTagKey(b, x), OpenTagKey(b, Last(t))) < 0 THEN Append(InsertIdx(b, Front(t), x), Last(t))
                      ELSE Append(t, x)
RECURSIVE InsertionSort(_, _)
InsertionSort(b, s) == IF s = <<>> THEN <<>> ELSE InsertIdx(b, InsertionSort(b, Front(s)), Last(s))
RECURSIVE JoinTags(_, _)
JoinTags(b, s) == IF s = <<>> THEN <<>>
                  ELSE <<CM>> \o Slice(b, Head(s), ScanToSpaceOr(b, Head(s), CM)) \o JoinTags(b, Tail(s))
RECURSIVE HasAdjacentDup(_, _)
HasAdjacentDup(b, s) == IF Len(s) < 2 THEN FALSE
                        ELSE IF OpenTagKey0(b, s[1]) = OpenTagKey0(b, s[2]) THEN TRUE ELSE HasAdjacentDup(b, Tail(s))

KeyRes(i, key, err) == [i |-> i, key |-> key, err |-> err]
ScanKey(b) ==     \* called with i = 0 on a line whose leading whitespace was stripped
  LET m == ScanMeasurement(b, SkipWS(b, 0))
      start == SkipWS(b, 0)
  IN IF m.st = "err" THEN KeyRes(m.i, Slice(b, start, m.i), m.err)
     ELSE IF m.st = "fields" THEN KeyRes(m.i, Slice(b, start, m.i), "")
     ELSE LET t == ScanTagsR(b, m.i, <<>>) IN
          IF t.err # "" THEN KeyRes(t.i, Slice(b, start, t.i), t.err)
          ELSE LET n == Len(t.idx) - 1
                   fp == FirstPass(b, t.idx, 1, n)
               IN IF fp = "dup" THEN KeyRes(t.i, Slice(b, start, t.i), "duplicate tags")
                  ELSE IF fp = "unsorted" /\ n > 0
                       THEN LET srt == InsertionSort(b, SubSeq(t.idx, 1, n))
                                nk == Slice(b, start, t.idx[1] - 1) \o JoinTags(b, srt)
                            IN IF HasAdjacentDup(b, srt) THEN KeyRes(t.i, nk, "duplicate tags") ELSE KeyRes(t.i, nk, "")
                       ELSE KeyRes(t.i, Slice(b, start, t.i), "")

\* ------------------------------------------------------------------ scanFields
IE(i, err) == [i |-> i, err |-> err]
RECURSIVE ScanNumberR(_, _, _, _, _, _, _)
ScanNumberR(b, start, i, isInt, isUns, dec, sci) ==
  LET fin ==
        IF (isInt \/ isUns) /\ (dec \/ sci) THEN IE(i, "invalid number")
        ELSE LET nd == (i - start) - (IF isInt THEN 1 ELSE 0) - (IF dec THEN 1 ELSE 0) - (IF At(b, start) = MN THEN 1 ELSE 0) IN
             IF nd = 0 THEN IE(i, "invalid number")
             ELSE IF isInt THEN (IF At(b, i - 1) # CI THEN IE(i, "invalid number") ELSE IE(i, ""))
             ELSE IF isUns THEN (IF At(b, i - 1) # CU \/ At(b, start) = MN THEN IE(i, "invalid number") ELSE IE(i, ""))
             ELSE IF sci THEN IE(i, "unmodelled") ELSE IE(i, "")
  IN IF i >= Len(b) THEN fin
     ELSE IF At(b, i) \in {CM, SP} THEN fin
     ELSE IF At(b, i) = CI /\ i > start /\ ~(isInt \/ isUns) THEN ScanNumberR(b, start, i + 1, TRUE, isUns, dec, sci)
     ELSE IF At(b, i) = CU /\ i > start /\ ~(isInt \/ isUns) THEN ScanNumberR(b, start, i + 1, isInt, TRUE, dec, sci)
     ELSE IF At(b, i) = DT /\ dec THEN IE(i, "invalid number")
     ELSE LET dec2 == dec \/ At(b, i) = DT IN
          IF i > start /\ At(b, i) \in {"e", "E"} THEN ScanNumberR(b, start, i + 1, isInt, isUns, dec2, TRUE)
          ELSE IF At(b, i) \in {"+", MN} /\ At(b, i - 1) \in {"e", "E"} THEN ScanNumberR(b, start, i + 1, isInt, isUns, dec2, sci)
          ELSE IF ~IsNumeric(At(b, i)) THEN IE(i, "invalid number")
          ELSE ScanNumberR(b, start, i + 1, isInt, isUns, dec2, sci)
ScanNumber(b, i) == IF i < Len(b) /\ At(b, i) = MN
                    THEN (IF i + 1 = Len(b) THEN IE(i + 1, "invalid number") ELSE ScanNumberR(b, i, i + 1, FALSE, FALSE, FALSE, FALSE))
                    ELSE ScanNumberR(b, i, i, FALSE, FALSE, FALSE, FALSE)

RECURSIVE ScanWordEnd(_, _)
ScanWordEnd(b, i) == IF i >= Len(b) \/ At(b, i) \in {CM, SP} THEN i ELSE ScanWordEnd(b, i + 1)
BoolWords == {<<"t","r","u","e">>, <<"T","R","U","E">>, <<"T","r","u","e">>,
              <<"f","a","l","s","e">>, <<"F","A","L","S","E">>, <<"F","a","l","s","e">>}
ScanBoolean(b, start) ==
  IF start < Len(b) /\ At(b, start) \notin {"t", "f", "T", "F"} THEN IE(start, "invalid boolean")
  ELSE LET i == ScanWordEnd(b, start + 1) IN
       IF i - start = 1 THEN IE(i, "")
       ELSE IF Slice(b, start, i) \in BoolWords THEN IE(i, "") ELSE IE(i, "invalid boolean")

FRes(i, f, err) == [i |-> i, fields |-> f, err |-> err]
RECURSIVE ScanFieldsR(_, _, _, _, _, _)
ScanFieldsR(b, st, i, q, eq, cm) ==
  LET fin(j, c) == IF q THEN FRes(j, <<>>, "unbalanced quotes")
                   ELSE IF eq = 0 \/ c # eq - 1 THEN FRes(j, <<>>, "invalid field format")
                   ELSE FRes(j, Slice(b, st, j), "")
      rest(e2) == LET cm2 == IF At(b, i) = CM /\ ~q THEN cm + 1 ELSE cm IN      \* tail of the loop body; e2 = equals so far
                  IF At(b, i) = SP /\ ~q
                  THEN (IF q THEN FRes(i, <<>>, "unbalanced quotes")
                        ELSE IF e2 = 0 \/ cm2 # e2 - 1 THEN FRes(i, <<>>, "invalid field format")
                        ELSE FRes(i, Slice(b, st, i), ""))
                  ELSE ScanFieldsR(b, st, i + 1, q, e2, cm2)
  IN IF i >= Len(b) THEN fin(i, cm)
     ELSE IF At(b, i) = BS /\ i + 1 < Len(b) THEN ScanFieldsR(b, st, i + 2, q, eq, cm)
     ELSE IF At(b, i) = QT /\ eq > cm THEN ScanFieldsR(b, st, i + 1, ~q, eq, cm)
     ELSE IF At(b, i) = EQ /\ ~q THEN
          IF At(b, i - 1) = SP /\ At(b, i - 2) # BS THEN FRes(i, <<>>, "missing field key")
          ELSE IF At(b, i - 1) = CM /\ At(b, i - 2) # BS THEN FRes(i, <<>>, "missing field key")
          ELSE IF i + 1 >= Len(b) THEN FRes(i, <<>>, "missing field value")
          ELSE IF At(b, i + 1) \in {CM, SP} THEN FRes(i, <<>>, "missing field value")
          ELSE IF IsNumeric(At(b, i + 1)) \/ At(b, i + 1) \in {MN, "N", "n"}
               THEN LET n == ScanNumber(b, i + 1) IN
                    IF n.err # "" THEN FRes(n.i, <<>>, n.err) ELSE ScanFieldsR(b, st, n.i, q, eq + 1, cm)
          ELSE IF At(b, i + 1) # QT
               THEN LET n == ScanBoolean(b, i + 1) IN
                    IF n.err # "" THEN FRes(n.i, <<>>, n.err) ELSE ScanFieldsR(b, st, n.i, q, eq + 1, cm)
          ELSE rest(eq + 1)
     ELSE rest(eq)
ScanFields(b, i) == LET st == SkipWS(b, i) IN ScanFieldsR(b, st, st, FALSE, 0, 0)

\* scanFieldKey: end of a field key, skipping backslash pairs exactly like scanFields (this is the repair of finding F9:
\* the iterator, walkFields and Split used scanTo(.., '=') with the `buf[i-1] != '\\'` test and disagreed with scanFields
\* about a key ending in a doubled backslash)
RECURSIVE ScanFieldKey(_, _)
ScanFieldKey(b, i) == IF i >= Len(b) THEN i
                      ELSE IF At(b, i) = BS /\ i + 1 < Len(b) THEN ScanFieldKey(b, i + 2)
                      ELSE IF At(b, i) = EQ THEN i
                      ELSE ScanFieldKey(b, i + 1)
\* walkFields with the seriesKeySize callback of parsePoint; "" = no error
RECURSIVE WalkFields(_, _)
WalkFields(f, keyLen) ==
  IF Len(f) = 0 THEN ""
  ELSE LET i == ScanFieldKey(f, 0) IN
       IF i > Len(f) - 2 THEN "invalid value"
       ELSE LET f2 == Slice(f, i + 1, Len(f))
                j == ScanFieldValue(f2, 0)
                f3 == Slice(f2, j, Len(f2))
            IN IF keyLen + 4 + i > MaxKeyLength THEN "max key length exceeded"
               ELSE WalkFields(IF Len(f3) > 0 THEN Tail(f3) ELSE f3, keyLen)

\* ------------------------------------------------------------------ scanTime and parsePoint
RECURSIVE ScanTimeR(_, _, _)
ScanTimeR(b, start, i) ==
  IF i >= Len(b) THEN IE(i, "")
  ELSE IF At(b, i) \in {NL, SP} THEN IE(i, "")
  ELSE IF i = start /\ At(b, i) = MN THEN ScanTimeR(b, start, i + 1)
  ELSE IF At(b, i) \notin Digits THEN IE(i, "bad timestamp")
  ELSE ScanTimeR(b, start, i + 1)
IntSyntax(ts) == LET d == IF ts # <<>> /\ ts[1] \in {MN, "+"} THEN Tail(ts) ELSE ts IN     \* parseIntBytes(ts, 10, 64)
                 Len(d) > 0 /\ \A k \in 1..Len(d) : d[k] \in Digits
RECURSIVE AllSpaces(_, _)
AllSpaces(b, i) == IF i >= Len(b) THEN TRUE ELSE IF At(b, i) # SP THEN FALSE ELSE AllSpaces(b, i + 1)

Rej(err) == [ok |-> FALSE, err |-> err, key |-> <<>>, fields |-> <<>>, ts |-> <<>>]
Acc(key, fields, ts) == [ok |-> TRUE, err |-> "", key |-> key, fields |-> fields, ts |-> ts]
ParsePoint(b) ==
  LET k == ScanKey(b) IN
  IF k.err # "" THEN Rej(k.err)
  ELSE IF Len(k.key) = 0 THEN Rej("missing measurement")
  ELSE IF Len(k.key) > MaxKeyLength THEN Rej("max key length exceeded")
  ELSE LET f == ScanFields(b, k.i) IN
       IF f.err # "" THEN Rej(f.err)
       ELSE IF Len(f.fields) = 0 THEN Rej("missing fields")
       ELSE LET w == WalkFields(f.fields, Len(k.key)) IN
            IF w # "" THEN Rej(w)
            ELSE LET start == SkipWS(b, f.i)
                     t == ScanTimeR(b, start, start)
                     ts == Slice(b, start, t.i)
                 IN IF t.err # "" THEN Rej(t.err)
                    ELSE IF Len(ts) = 0 THEN Acc(k.key, f.fields, <<>>)
                    ELSE IF ~IntSyntax(ts) THEN Rej("invalid syntax")
                    ELSE IF ~AllSpaces(b, t.i) THEN Rej("point is invalid")
                    ELSE Acc(k.key, f.fields, ts)

\* ParsePointsWithPrecision: sequence of [text, s, e, res] for the lines that are not skipped (text = buf[s:e])
RECURSIVE ParseAllR(_, _)
ParseAllR(buf, pos) ==
  IF pos >= Len(buf) THEN <<>>
  ELSE LET e == ScanLine(buf, pos)
           block == Slice(buf, pos, e)
           st == SkipWS(block, 0)
       IN IF Len(block) = 0 \/ st >= Len(block) \/ At(block, st) = HS THEN ParseAllR(buf, e + 1)
          ELSE LET blk2 == IF Last(block) = NL THEN Front(block) ELSE block
                   text == Slice(blk2, st, Len(blk2))
               IN <<[text |-> text, s |-> pos + st, e |-> pos + Len(blk2), res |-> ParsePoint(text)]>> \o ParseAllR(buf, e + 1)
ParseAll(buf) == ParseAllR(buf, 0)

\* ------------------------------------------------------------------ accessors of a returned point
PointName(key) == Unescape(Slice(key, 0, ScanTo(key, 0, CM)))
RECURSIVE WalkTagsR(_, _)
WalkTagsR(key, i) ==
  IF i >= Len(key) THEN <<>>
  ELSE LET e1 == ScanTo(key, i, EQ)
           k == Slice(key, i, e1)
           e2 == ScanTagValue(key, e1 + 1)
           v == IF e2 > Len(key) THEN <<>> ELSE Slice(key, e1 + 1, e2)
       IN IF Len(v) = 0 THEN WalkTagsR(key, e2)
          ELSE <<[k |-> UnescapeTag(k), v |-> UnescapeTag(v)]>> \o WalkTagsR(key, e2 + 1)
PointTags(key) == LET pos == ScanTo(key, 0, CM) IN IF Len(key) = 0 \/ pos = 0 THEN <<>> ELSE WalkTagsR(key, pos + 1)

\* value grammar of strconv for the value text the iterator hands to Float/Integer/Unsigned/Boolean accessors
AllDigits(s) == Len(s) > 0 /\ \A k \in 1..Len(s) : s[k] \in Digits
IntText(s) == IF s # <<>> /\ s[1] \in {MN, "+"} THEN AllDigits(Tail(s)) ELSE AllDigits(s)
FloatText(s) == LET u == IF s # <<>> /\ s[1] \in {MN, "+"} THEN Tail(s) ELSE s
                    dots == {k \in 1..Len(u) : u[k] = DT}
                IN /\ Cardinality(dots) <= 1
                   /\ \A k \in 1..Len(u) : u[k] \in Digits \/ u[k] = DT
                   /\ \E k \in 1..Len(u) : u[k] \in Digits
BoolText(s) == s \in {<<"t">>, <<"T">>, <<"f">>, <<"F">>, <<"1">>, <<"0">>} \cup BoolWords     \* parseBoolBytes
NumStart == {"0", C1, "2", "3", "4", "5", "6", "7", "8", "9", MN, DT, "n", "N", CI, "I", CU}
FieldOf(k, vb) ==          \* one step of point.Next + the typed accessor used by unmarshalBinary
  IF Len(vb) = 0 THEN [k |-> k, t |-> "empty", v |-> <<>>, bad |-> TRUE]
  ELSE IF vb[1] = QT THEN (IF Len(vb) < 2 THEN [k |-> k, t |-> "string", v |-> <<>>, bad |-> TRUE]       \* StringValue slices [1:len-1]: panic
                           ELSE [k |-> k, t |-> "string", v |-> UnescapeStringField(SubSeq(vb, 2, Len(vb) - 1)), bad |-> FALSE])
  ELSE IF vb[1] \in NumStart
       THEN IF Last(vb) = CI THEN [k |-> k, t |-> "int", v |-> Front(vb), bad |-> ~IntText(Front(vb))]
            ELSE IF Last(vb) = CU THEN [k |-> k, t |-> "uint", v |-> Front(vb), bad |-> ~AllDigits(Front(vb))]
            ELSE [k |-> k, t |-> "float", v |-> vb, bad |-> ~FloatText(vb)]
  ELSE [k |-> k, t |-> "bool", v |-> vb, bad |-> ~BoolText(vb)]
RECURSIVE IterFields(_, _)
IterFields(f, start) ==
  IF start >= Len(f) THEN <<>>
  ELSE LET e1 == ScanFieldKey(f, start)
           rk == Slice(f, start, e1)
           k == IF IsEscaped(rk) THEN AppendUnescaped(rk) ELSE rk
       IN IF e1 + 1 > Len(f) THEN <<[k |-> k, t |-> "empty", v |-> <<>>, bad |-> TRUE]>>     \* buf[len+1:]: panic or empty, cap dependent
          ELSE LET e2 == ScanFieldValue(f, e1 + 1) IN
               <<FieldOf(k, Slice(f, e1 + 1, e2))>> \o IterFields(f, e2 + 1)
PointFields(f) == IterFields(f, 0)

\* observation of one accepted line / constructed point
Obs(res) == [name |-> PointName(res.key), tags |-> PointTags(res.key), fields |-> PointFields(res.fields), ts |-> res.ts]

\* model-level point invariants of C12 (what the driver checks on the real output without an oracle)
RECURSIVE SortedUnique(_)
SortedUnique(tags) == IF Len(tags) < 2 THEN TRUE ELSE Cmp(tags[1].k, tags[2].k) < 0 /\ SortedUnique(Tail(tags))
PointInv(res) == LET o == Obs(res) IN
  /\ Len(o.name) > 0
  /\ Len(o.fields) > 0
  /\ \A j \in 1..Len(o.fields) : ~o.fields[j].bad /\ Len(o.fields[j].k) > 0
  /\ SortedUnique(o.tags)

\* the same with the tag order the code actually guarantees: scanKey sorts and de-duplicates by the *escaped* keys
\* (finding F18: the raw keys of such a point can be out of order)
RECURSIVE SortedUniqueEsc(_)
SortedUniqueEsc(tags) == IF Len(tags) < 2 THEN TRUE
                         ELSE Cmp(EscapeTag(tags[1].k), EscapeTag(tags[2].k)) < 0 /\ SortedUniqueEsc(Tail(tags))
PointInvEsc(res) == LET o == Obs(res) IN
  /\ Len(o.name) > 0
  /\ Len(o.fields) > 0
  /\ \A j \in 1..Len(o.fields) : ~o.fields[j].bad /\ Len(o.fields[j].k) > 0
  /\ SortedUniqueEsc(o.tags)

\* ------------------------------------------------------------------ expected observation of a C12 input
\* per line that is not skipped: the observation of the returned point, or <<s, e>> = the offsets in the input of the
\* text that the error must name (no strings are built here: TLC interns every string it creates, which serialises
\* its workers)
RECURSIVE Outcomes(_)
Outcomes(rs) == IF rs = <<>> THEN <<>>
                ELSE <<(IF Head(rs).res.ok THEN Obs(Head(rs).res) ELSE <<Head(rs).s, Head(rs).e>>)>> \o Outcomes(Tail(rs))
RECURSIVE Reasons(_)
Reasons(rs) == IF rs = <<>> THEN <<>> ELSE (IF Head(rs).res.ok THEN <<>> ELSE <<Head(rs).res.err>>) \o Reasons(Tail(rs))
RECURSIVE AllInv(_)
AllInv(rs) == IF rs = <<>> THEN TRUE ELSE (Head(rs).res.ok => PointInv(Head(rs).res)) /\ AllInv(Tail(rs))
RECURSIVE AllInvEsc(_)
AllInvEsc(rs) == IF rs = <<>> THEN TRUE ELSE (Head(rs).res.ok => PointInvEsc(Head(rs).res)) /\ AllInvEsc(Tail(rs))
RECURSIVE AnyUnmodelled(_)
AnyUnmodelled(rs) == IF rs = <<>> THEN FALSE ELSE Head(rs).res.err = "unmodelled" \/ AnyUnmodelled(Tail(rs))
HasSub(b, pat) == \E i \in 1..(Len(b) - Len(pat) + 1) : SubSeq(b, i, i + Len(pat) - 1) = pat
Expect12(buf) == LET rs == ParseAll(buf) IN
  [out |-> Outcomes(rs), why |-> Reasons(rs), inv |-> AllInv(rs), unmodelled |-> AnyUnmodelled(rs),
   f9 |-> HasSub(buf, <<BS, BS, EQ>>), f18 |-> AllInvEsc(rs) /\ ~AllInv(rs)]

\* ------------------------------------------------------------------ rendering (C11)
RECURSIVE InsertTag(_, _)
InsertTag(t, x) == IF t = <<>> THEN <<x>>
                   ELSE IF Cmp(x.k, Last(t).k) < 0 THEN Append(InsertTag(Front(t), x), Last(t)) ELSE Append(t, x)
RECURSIVE SortByKey(_)
SortByKey(s) == IF s = <<>> THEN <<>> ELSE InsertTag(SortByKey(Front(s)), Last(s))
RECURSIVE RenderTags(_)
RenderTags(t) == IF t = <<>> THEN <<>>            \* Tags.AppendHashKey(escape = true); tags with an empty value are skipped
                 ELSE (IF Len(Head(t).v) = 0 THEN <<>> ELSE <<CM>> \o EscapeTag(Head(t).k) \o <<EQ>> \o EscapeTag(Head(t).v))
                      \o RenderTags(Tail(t))
MakeKey(name, tags) == EscapeMeasurement(UnescapeMeasurement(name)) \o RenderTags(SortByKey(tags))
Literal(f) == CASE f.t = "int" -> f.v \o <<CI>>
                [] f.t = "uint" -> f.v \o <<CU>>
                [] f.t = "string" -> <<QT>> \o EscapeStringField(f.v) \o <<QT>>
                [] OTHER -> f.v                                          \* float, bool: the text itself
RECURSIVE RenderFieldsR(_)
RenderFieldsR(fs) == IF fs = <<>> THEN <<>>
                     ELSE EscapeFieldKey(Head(fs).k) \o <<EQ>> \o Literal(Head(fs))
                          \o (IF Len(fs) > 1 THEN <<CM>> ELSE <<>>) \o RenderFieldsR(Tail(fs))
RenderFields(fs) == RenderFieldsR(SortByKey(fs))                         \* Fields.MarshalBinary sorts the keys
Render(p) == MakeKey(p.name, p.tags) \o <<SP>> \o RenderFields(p.fields)
             \o (IF p.ts = <<>> THEN <<>> ELSE <<SP>> \o p.ts)          \* String() / PrecisionString

\* the point an exact round trip must return
RECURSIVE CanonFields(_)
CanonFields(fs) == IF fs = <<>> THEN <<>> ELSE <<[k |-> Head(fs).k, t |-> Head(fs).t, v |-> Head(fs).v, bad |-> FALSE]>> \o CanonFields(Tail(fs))
Canon(p) == [name |-> p.name, tags |-> SortByKey(p.tags), fields |-> CanonFields(SortByKey(p.fields)), ts |-> p.ts]

\* ParseKeyBytes(MakeKey(name, tags))
ParseKey(buf) == LET m == ScanMeasurement(buf, 0)
                     name == IF m.st = "tagKey" THEN Slice(buf, 0, m.i - 1) ELSE Slice(buf, 0, m.i)
                 IN [name |-> UnescapeMeasurement(name), tags |-> IF m.st = "tagKey" THEN PointTags(buf) ELSE <<>>]

\* round-trippable class (finding F10 is its complement)
BsBefore(s, set) == \E i \in 1..Len(s) : s[i] = BS /\ (i = Len(s) \/ s[i + 1] \in set)
TagsInClass(p) == \A j \in 1..Len(p.tags) : ~BsBefore(p.tags[j].k, {CM, SP, EQ}) /\ ~BsBefore(p.tags[j].v, {CM, SP, EQ})
InClassKey(p) == ~BsBefore(p.name, {CM, SP}) /\ TagsInClass(p)
LeadingHash(p) == p.name # <<>> /\ p.name[1] = HS
\* scanKey sorts the tags of a line by their *escaped* keys, MakeKey/NewTags by the raw keys: the orders differ when an
\* escaped delimiter (rendered with a leading backslash, byte 92) meets a key starting with a byte between it and 92
EscOrderStable(p) == LET s == SortByKey(p.tags) IN \A j \in 1..(Len(s) - 1) : Cmp(EscapeTag(s[j].k), EscapeTag(s[j + 1].k)) < 0
InClass(p) == /\ ~BsBefore(p.name, EscChars) /\ TagsInClass(p)      \* point.Name() unescapes all of , " space =
              /\ EscOrderStable(p)
              /\ \A j \in 1..Len(p.fields) : ~BsBefore(p.fields[j].k, EscChars)
              /\ ~LeadingHash(p)
\* constructed point readable through Fields() (F9 as seen from NewPoint)
CtorReadable(p) == PointFields(RenderFields(p.fields)) = CanonFields(SortByKey(p.fields))
CtorClass(p) == \A j \in 1..Len(p.fields) : ~BsBefore(p.fields[j].k, EscChars)

RoundTripOf(p) == LET rs == ParseAll(Render(p)) IN
                  IF Len(rs) = 1 /\ rs[1].res.ok THEN Obs(rs[1].res) ELSE [name |-> <<>>, tags |-> <<>>, fields |-> <<>>, ts |-> <<>>]
RoundTrips(p) == LET rs == ParseAll(Render(p)) IN Len(rs) = 1 /\ rs[1].res.ok /\ Obs(rs[1].res) = Canon(p)
KeyRoundTrips(p) == LET r == ParseKey(MakeKey(p.name, p.tags)) IN r.name = p.name /\ r.tags = SortByKey(p.tags)

\* timestamps: the token n of a line means n * Mult(precision) nanoseconds
Precisions == {"ns", "us", "ms", "s"}
Mult(p) == CASE p = "ns" -> 1 [] p = "us" -> 1000 [] p = "ms" -> 1000000 [] p = "s" -> 1000000000

Expect11(p) == [mult |-> [q \in Precisions |-> Mult(q)], rt |-> RoundTrips(p), keyrt |-> KeyRoundTrips(p), inClass |-> InClass(p), inClassKey |-> InClassKey(p),
                hash |-> LeadingHash(p), ordStable |-> EscOrderStable(p), ctor |-> CtorReadable(p), ctorClass |-> CtorClass(p),
                line |-> Render(p), key |-> MakeKey(p.name, p.tags)]

\* ------------------------------------------------------------------ generators
RECURSIVE SeqsUpTo(_, _)
SeqsUpTo(S, n) == IF n = 0 THEN {<<>>} ELSE LET r == SeqsUpTo(S, n - 1) IN r \cup {Append(s, c) : s \in {x \in r : Len(x) = n - 1}, c \in S}
Names(n) == SeqsUpTo(NameChars, n) \ {<<>>}

None == [none |-> TRUE]          \* exp = None marks the seed (root) states of the two-level generators

\* ---- C11: abstract points.  name/tags/fields: sequences of characters; field = [k, t, v]; ts = digits
TagRec(k, v) == [k |-> k, v |-> v]
Fld(k, t, v) == [k |-> k, t |-> t, v |-> v]
Pt(n, tags, fields, ts) == [name |-> n, tags |-> tags, fields |-> fields, ts |-> ts]
HvM == <<CM, SP>>                  \* escape-heavy in-class representatives
HvT == <<EQ, CM>>
HvF == <<SP, EQ>>
HvS == <<QT, BS>>
SimpleFields == <<Fld(<<CA>>, "float", <<C1>>)>>
HeavyFields == <<Fld(HvF, "string", HvS)>>
NumLits == {Fld(<<>>, "float", <<C1>>), Fld(<<>>, "float", <<MN, C1>>), Fld(<<>>, "float", <<C1, DT, C1>>),
            Fld(<<>>, "int", <<C1>>), Fld(<<>>, "int", <<MN, C1>>), Fld(<<>>, "int", <<C1, C1>>),
            Fld(<<>>, "uint", <<C1>>), Fld(<<>>, "uint", <<C1, C1>>),
            Fld(<<>>, "bool", <<"t","r","u","e">>), Fld(<<>>, "bool", <<"f","a","l","s","e">>)}
Lits(n) == NumLits \cup {Fld(<<>>, "string", s) : s \in SeqsUpTo(NameChars, n)}
TsSet == {<<>>, <<C1>>, <<MN, C1>>, <<C1, C1>>}

Families11 == {"M", "H", "T1", "T2", "F1", "F2"}
Points11(fam, x) ==     \* x: the seed component chosen in the root state (a name)
  CASE fam = "M" -> {Pt(x, tg, fl, ts) : tg \in {<<>>, <<TagRec(<<CA>>, <<CA>>)>>, <<TagRec(HvT, HvT)>>},
                                          fl \in {SimpleFields, HeavyFields}, ts \in TsSet}
    [] fam = "H" -> {Pt(n, tg, SimpleFields, ts) : n \in {<<HS>>, <<HS>> \o x, x \o <<HS>>},        \* '#' in the measurement
                                          tg \in {<<>>, <<TagRec(<<CA>>, <<CA>>)>>}, ts \in {<<>>, <<C1>>}}
    [] fam = "T1" -> {Pt(n, tg, SimpleFields, <<C1>>) : n \in {<<CA>>, HvM},
                         tg \in UNION {{<<TagRec(x, v)>>, <<TagRec(x, v), TagRec(<<CT>>, <<CA>>)>>} : v \in Names(PairLen)}}
    [] fam = "T2" -> {Pt(<<CA>>, <<TagRec(x, v1), TagRec(k2, v2)>>, SimpleFields, <<>>) :
                         k2 \in {k \in Names(PairLen) : Cmp(x, k) < 0}, v1 \in {<<CA>>, HvT}, v2 \in {<<CA>>, HvT}}
    [] fam = "F1" -> {Pt(<<CA>>, tg, <<Fld(x, l.t, l.v)>>, <<C1>>) : tg \in {<<>>, <<TagRec(HvT, HvT)>>}, l \in Lits(PairLen)}
    [] fam = "F2" -> {Pt(<<CA>>, <<>>, <<Fld(x, vs[1].t, vs[1].v), Fld(k2, vs[2].t, vs[2].v)>>, <<C1>>) :
                         k2 \in {k \in Names(PairLen) : Cmp(x, k) < 0},
                         vs \in {<<Fld(<<>>, "float", <<C1>>), Fld(<<>>, "string", HvS)>>,
                                 <<Fld(<<>>, "string", HvS), Fld(<<>>, "int", <<C1>>)>>,
                                 <<Fld(<<>>, "bool", <<"t","r","u","e">>), Fld(<<>>, "string", <<CM, EQ>>)>>}}
\* family L: one long component (length 3 over {a \ space = ,}, length 4..LongLen over {a \ space =}) in every position, so
\* that every shape "literal backslash before an ordinary character, then a delimiter" and "delimiter, then literal
\* backslash" occurs (escape.IsEscaped / AppendUnescaped / Unescape / unescapeTag must look past the first backslash)
LongNames == (IF LongLen >= 3 THEN {s \in SeqsUpTo({CA, BS, SP, EQ, CM}, 3) : Len(s) = 3} ELSE {})
             \cup {s \in SeqsUpTo({CA, BS, SP, EQ}, LongLen) : Len(s) >= 4}
PointsL(x) == {Pt(x, <<>>, SimpleFields, <<C1>>),
               Pt(<<CA>>, <<TagRec(x, <<CA>>)>>, SimpleFields, <<C1>>),
               Pt(<<CA>>, <<TagRec(<<CA>>, x)>>, SimpleFields, <<C1>>),
               Pt(<<CA>>, <<>>, <<Fld(x, "float", <<C1>>)>>, <<C1>>),
               Pt(<<CA>>, <<>>, <<Fld(x, "string", HvS), Fld(<<CA>>, "int", <<C1>>)>>, <<C1>>),
               Pt(<<CA>>, <<>>, <<Fld(<<CA>>, "string", x)>>, <<C1>>)}
AllFamilies11 == Families11 \cup {"L"}
Init11 == /\ \/ mode \in Families11 /\ line \in Names(NameLen)
             \/ mode = "L" /\ line \in LongNames
          /\ inp = None /\ exp = None
GenPoint == /\ exp = None /\ mode \in AllFamilies11
            /\ \E p \in (IF mode = "L" THEN PointsL(line) ELSE Points11(mode, line)) : inp' = p /\ exp' = Expect11(p)
            /\ UNCHANGED <<mode, line>>
Next11 == GenPoint

\* C11 on the model: inside the class every point and key round-trips; a constructed point is readable
Inv11 == mode \in AllFamilies11 /\ exp # None =>
            /\ (exp.inClass => exp.rt)
            /\ (exp.inClassKey => exp.keyrt)
            /\ (exp.ctorClass => exp.ctor)

\* ---- C12 (a): whole-line exhaustive, as a tree so that TLC workers share the work
InitA == mode = "A" /\ line = <<>> /\ inp = None /\ exp = Expect12(<<>>)         \* the input is `line`
ExtendLine == /\ mode = "A" /\ Len(line) < MaxLen
              /\ \E c \in Sigma : line' = Append(line, c) /\ exp' = Expect12(Append(line, c))
              /\ UNCHANGED <<mode, inp>>
NextA == ExtendLine

\* ---- C12 (b): section-wise exhaustive.  line = M [,TK=TV] SP FK=FV [SP TS]
Secs == {"M", "TK", "TV", "FK", "FV"}
SimpleSec(s) == CASE s = "M" -> <<CA>> [] s = "TK" -> <<CA>> [] s = "TV" -> <<CA>> [] s = "FK" -> <<CA>> [] s = "FV" -> <<C1>>
HeavySec(s) == CASE s = "M" -> <<CA, BS, CM>>                      \* a\,
                 [] s = "TK" -> <<BS, EQ, CA>>                     \* \=a
                 [] s = "TV" -> <<CA, BS, SP>>                     \* a\<space>
                 [] s = "FK" -> <<CA, BS, SP, BS, BS>>             \* a\<space>\\   (escaped delimiter and a doubled backslash)
                 [] s = "FV" -> <<QT, CA, EQ, BS, QT, CM, BS, BS, QT>>   \* "a=\",\\"
Assemble(sec, withTag, ts) ==
  sec["M"] \o (IF withTag THEN <<CM>> \o sec["TK"] \o <<EQ>> \o sec["TV"] ELSE <<>>) \o <<SP>> \o sec["FK"] \o <<EQ>> \o sec["FV"]
  \o (IF ts THEN <<SP, C1>> ELSE <<>>)
Contexts == {<<FALSE, FALSE, FALSE>>, <<FALSE, TRUE, TRUE>>, <<TRUE, FALSE, TRUE>>, <<TRUE, TRUE, FALSE>>}   \* <<heavy, withTag, ts>>
Rep(t, heavy) == IF heavy THEN HeavySec(t) ELSE SimpleSec(t)
\* section "TT": two (or three) tags, the last tag key x varies; the tag before it is `a`, the heavy key, or x itself
\* (duplicate); an optional leading tag `t` makes the pair unsorted-then-duplicate:  M[,t=a],K1=TV,x=TV FK=FV
TTCases(x) ==
  {Rep("M", h) \o (IF w3 THEN <<CM, CT, EQ, CA>> ELSE <<>>) \o <<CM>> \o k1 \o <<EQ>> \o Rep("TV", h) \o <<CM>> \o x \o <<EQ>> \o Rep("TV", h)
     \o <<SP>> \o Rep("FK", h) \o <<EQ>> \o Rep("FV", h) :
       h \in BOOLEAN, w3 \in BOOLEAN, k1 \in {<<CA>>, HeavySec("TK"), x}}
SecCases(s, x) ==      \* x: raw text of the varying section s
  IF s = "TT" THEN TTCases(x)
  ELSE {Assemble([t \in Secs |-> IF t = s THEN x ELSE Rep(t, c[1])], c[2] \/ s \in {"TK", "TV"}, c[3]) : c \in Contexts}
SecsAll == Secs \cup {"TT"}
InitB == mode \in SecsAll /\ line \in SeqsUpTo(Sigma, 1) /\ inp = None /\ exp = None      \* root: section and first character
GenSection == /\ exp = None /\ mode \in SecsAll
              /\ \E x \in {y \in SeqsUpTo(Sigma, IF mode = "FV" THEN ValLen ELSE SecLen) :
                             IF line = <<>> THEN y = <<>> ELSE y # <<>> /\ y[1] = line[1]} :
                   \E l \in SecCases(mode, x) : inp' = l /\ exp' = Expect12(l)
              /\ UNCHANGED <<mode, line>>
NextB == GenSection

\* ---- C12 (c): batches of line classes
Classes == {"good", "goodts", "goodstr", "bad", "badval", "badquote", "comment", "blank", "spaces", "crlf", "crlfstr"}
ClassLine(c) == CASE c = "good" -> <<CA, SP, CA, EQ, C1>>
                  [] c = "goodts" -> <<CA, CM, CA, EQ, CA, SP, CA, EQ, C1, CI, SP, C1>>
                  [] c = "goodstr" -> <<CA, SP, CA, EQ, QT, CA, QT>>
                  [] c = "bad" -> <<CA>>
                  [] c = "badval" -> <<CA, SP, CA, EQ>>
                  [] c = "badquote" -> <<CA, SP, CA, EQ, QT, CA>>
                  [] c = "comment" -> <<HS, CA, SP, CA, EQ, C1>>
                  [] c = "blank" -> <<>>
                  [] c = "spaces" -> <<SP, SP>>
                  [] c = "crlf" -> <<CA, SP, CA, EQ, C1, SP, C1, CR>>
                  [] c = "crlfstr" -> <<CA, SP, CA, EQ, QT, CA, QT, CR>>
RECURSIVE JoinLines(_, _)
JoinLines(cs, finalNL) == IF cs = <<>> THEN <<>>
                          ELSE ClassLine(Head(cs)) \o (IF Len(cs) > 1 \/ finalNL THEN <<NL>> ELSE <<>>) \o JoinLines(Tail(cs), finalNL)
InitC == mode = "C" /\ line \in {<<c>> : c \in Classes} /\ inp = None /\ exp = None     \* root: first class
GenBatch == /\ exp = None /\ mode = "C"
            /\ \E rest \in SeqsUpTo(Classes, BatchLen - 1), nl \in BOOLEAN :
                 LET cs == line \o rest
                     b == JoinLines(cs, nl)
                 IN inp' = [classes |-> cs, finalNL |-> nl, text |-> b] /\ exp' = Expect12(b)
            /\ UNCHANGED <<mode, line>>
NextC == GenBatch

\* batch contract on the model: a batch without an unterminated string is parsed line by line, in order, and the
\* verdict of every class is the one of the single line
Strip(rs) == [i \in 1..Len(rs) |-> [text |-> rs[i].text, res |-> rs[i].res]]
RECURSIVE ConcatSingles(_)
ConcatSingles(cs) == IF cs = <<>> THEN <<>> ELSE Strip(ParseAll(ClassLine(Head(cs)))) \o ConcatSingles(Tail(cs))
ClassVerdict(c) == LET r == ParseAll(ClassLine(c)) IN
                   IF r = <<>> THEN "skipped" ELSE IF r[1].res.ok THEN "accepted" ELSE "rejected"
BatchCompositional == (mode = "C" /\ exp # None /\ ~Has(inp.classes, "badquote")) =>
                         Strip(ParseAll(JoinLines(inp.classes, inp.finalNL))) = ConcatSingles(inp.classes)
ClassTable == /\ \A c \in {"good", "goodts", "goodstr", "crlfstr"} : ClassVerdict(c) = "accepted"
              /\ \A c \in {"bad", "badval", "badquote", "crlf"} : ClassVerdict(c) = "rejected"
              /\ \A c \in {"comment", "blank", "spaces"} : ClassVerdict(c) = "skipped"

\* ---- C12: key-length boundary and timestamp range (symbolic, concretised by the driver)
PadWhere == {"measurement", "tagvalue", "fieldkey"}
\* the line is  m[,a=v] f=1  with one component padded with ordinary characters so that len(key)+4+len(fieldkey) = total
PadVerdict(total) == total <= MaxKeyLength
InitP == mode = "P" /\ line = <<>> /\ inp = None /\ exp = None
GenPad == /\ exp = None /\ mode = "P"
          /\ \E w \in PadWhere, d \in {-2, -1, 0, 1, 2}, wt \in BOOLEAN :
                (w = "tagvalue" => wt) /\ inp' = [where |-> w, total |-> MaxKeyLength + d, withTag |-> wt]
                /\ exp' = [accept |-> PadVerdict(MaxKeyLength + d)]
          /\ UNCHANGED <<mode, line>>
\* timestamp token = Base/Mult + k, Base in {MinNanoTime, 0, MaxNanoTime} (division towards zero); accepted iff in range
TimeVerdict(base, k) == ~(base = "Min" /\ k < 0) /\ ~(base = "Max" /\ k > 0)
GenTime == /\ exp = None /\ mode = "P"
           /\ \E p \in Precisions, b \in {"Min", "Zero", "Max"}, k \in {-2, -1, 0, 1, 2} :
                inp' = [precision |-> p, mult |-> Mult(p), base |-> b, k |-> k] /\ exp' = [accept |-> TimeVerdict(b, k)]
           /\ UNCHANGED <<mode, line>>
\* far from the boundaries: literal tokens (digits as integers), the verdict by decimal-string arithmetic - the
\* multipliers are powers of ten, so token * Mult(p) is the token followed by Expo(p) zeros; accepted iff the magnitude is
\* at most 9223372036854775806 = MaxNanoTime = -MinNanoTime (parseIntBytes accepts leading zeros)
Expo(p) == CASE p = "ns" -> 0 [] p = "us" -> 3 [] p = "ms" -> 6 [] p = "s" -> 9
NanoLimit == <<9,2,2,3,3,7,2,0,3,6,8,5,4,7,7,5,8,0,6>>
RECURSIVE StripZeros(_)
StripZeros(d) == IF Len(d) > 1 /\ d[1] = 0 THEN StripZeros(Tail(d)) ELSE d
RECURSIVE LexLE(_, _)
LexLE(x, y) == IF x = <<>> THEN TRUE ELSE IF x[1] < y[1] THEN TRUE ELSE IF x[1] > y[1] THEN FALSE ELSE LexLE(Tail(x), Tail(y))
MagLE(x, y) == Len(x) < Len(y) \/ (Len(x) = Len(y) /\ LexLE(x, y))          \* x, y without leading zeros
Representable(d, p) == LET m == StripZeros(d) IN
                       IF m = <<0>> THEN TRUE ELSE MagLE(m \o [i \in 1..Expo(p) |-> 0], NanoLimit)
FarTokens == {[neg |-> FALSE, d |-> <<9, 2, 2, 3, 3, 7, 2, 0, 3, 6, 8, 5, 4, 7, 7, 5, 8, 0, 9>>],
              [neg |-> FALSE, d |-> <<9, 2, 2, 3, 3, 7, 2, 0, 3, 6, 8, 5, 4, 7, 7, 5, 8, 1, 0>>],
              [neg |-> FALSE, d |-> <<9, 2, 2, 3, 3, 7, 2, 0, 3, 6, 8, 5, 4, 7, 7, 5, 8, 1, 7>>],
              [neg |-> FALSE, d |-> <<9, 9, 9, 9, 9, 9, 9, 9, 9, 9, 9, 9, 9, 9, 9, 9, 9, 9, 9>>],
              [neg |-> FALSE, d |-> <<1, 8, 4, 4, 6, 7, 4, 4, 0, 7, 3, 7, 0, 9, 5, 5, 1, 6, 1, 5>>],
              [neg |-> FALSE, d |-> <<1, 8, 4, 4, 6, 7, 4, 4, 0, 7, 3, 7, 0, 9, 5, 5, 1, 6, 1, 6>>],
              [neg |-> FALSE, d |-> <<1, 0, 0, 0, 0, 0, 0, 0, 0, 0, 0, 0, 0, 0, 0, 0, 0, 0, 0>>],
              [neg |-> FALSE, d |-> <<9, 2, 2, 3, 3, 7, 2, 0, 3, 6, 8, 5, 4, 7, 7, 5, 8, 0, 6>>],
              [neg |-> TRUE, d |-> <<9, 2, 2, 3, 3, 7, 2, 0, 3, 6, 8, 5, 4, 7, 7, 5, 8, 0, 9>>],
              [neg |-> TRUE, d |-> <<9, 2, 2, 3, 3, 7, 2, 0, 3, 6, 8, 5, 4, 7, 7, 5, 8, 1, 0>>],
              [neg |-> TRUE, d |-> <<9, 9, 9, 9, 9, 9, 9, 9, 9, 9, 9, 9, 9, 9, 9, 9, 9, 9, 9>>],
              [neg |-> TRUE, d |-> <<9, 2, 2, 3, 3, 7, 2, 0, 3, 6, 8, 5, 4, 7, 7, 5, 8, 0, 6>>],
              [neg |-> TRUE, d |-> <<1, 8, 4, 4, 6, 7, 4, 4, 0, 7, 3, 7, 0, 9, 5, 5, 1, 6, 1, 6>>],
              [neg |-> FALSE, d |-> <<0, 0, 0, 0, 0, 0, 0, 0, 0, 0, 0, 0, 0, 0, 0, 0, 0, 0, 0, 1>>],
              [neg |-> FALSE, d |-> <<0, 9, 2, 2, 3, 3, 7, 2, 0, 3, 6, 8, 5, 4, 7, 7, 5, 8, 0, 6>>],
              [neg |-> FALSE, d |-> <<0, 9, 2, 2, 3, 3, 7, 2, 0, 3, 6, 8, 5, 4, 7, 7, 5, 8, 0, 7>>],
              [neg |-> FALSE, d |-> <<0, 0, 0, 0, 0, 0, 0, 0, 0, 0, 9, 2, 2, 3, 3, 7, 2, 0, 3, 6>>],
              [neg |-> FALSE, d |-> <<0, 0, 0, 0, 9, 2, 2, 3, 3, 7, 2, 0, 3, 6, 8, 5, 4, 7, 7, 5>>],
              [neg |-> TRUE, d |-> <<0, 0, 0, 0, 0, 0, 0, 0, 0, 0, 0, 0, 0, 0, 0, 0, 0, 0, 0, 1>>],
              [neg |-> TRUE, d |-> <<0, 9, 2, 2, 3, 3, 7, 2, 0, 3, 6, 8, 5, 4, 7, 7, 5, 8, 0, 7>>],
              [neg |-> FALSE, d |-> <<0, 0, 0, 0, 0, 0, 0, 0, 0, 0, 0, 0, 0, 0, 0, 0, 0, 0, 0, 0, 0, 0>>],
              [neg |-> FALSE, d |-> <<1, 2, 3, 4, 5, 6, 7, 8, 9, 0, 1, 2, 3>>]}
GenFarTime == /\ exp = None /\ mode = "P"
              /\ \E p \in Precisions, t \in FarTokens :
                   inp' = [precision |-> p, mult |-> Mult(p), neg |-> t.neg, digits |-> t.d] /\ exp' = [accept |-> Representable(t.d, p)]
              /\ UNCHANGED <<mode, line>>
NextP == GenPad \/ GenTime \/ GenFarTime

\* C12 on the model
NoUnmodelled == (mode \in ({"A", "C"} \cup SecsAll) /\ exp # None) => ~exp.unmodelled
\* every accepted line yields a point that satisfies the point invariants.  (Before the repair of F9 this held only
\* outside the class exp.f9 - a doubled backslash directly before '=' - where scanFields and the field iterator tokenised
\* the section differently; exp.f9 is still exported so that the driver can name the class.)
\* Exception, finding F18: exp.f18 = the only failing invariant is the order of the raw tag keys of a point whose tags are
\* strictly sorted by their escaped keys.
AcceptedPointsWellFormed == (mode \in ({"A", "C"} \cup SecsAll) /\ exp # None) => (exp.inv \/ exp.f18)

\* all C12 generators in one run (one JVM start, one dump)
Init12 == InitA \/ InitB \/ InitC \/ InitP
Next12 == NextA \/ NextB \/ NextC \/ NextP

SpecA == InitA /\ [][NextA]_vars
SpecB == InitB /\ [][NextB]_vars
SpecC == InitC /\ [][NextC]_vars
SpecP == InitP /\ [][NextP]_vars
Spec11 == Init11 /\ [][Next11]_vars
=============================================================================
