\* connective focus, thorough: every AND/OR tree of depth <= 2 over 6 fixed leaves, 0..2 tags (one TLC per part)
SPECIFICATION Spec
CONSTANTS
  MeasSet <- Plain
  KeySet <- Plain
  ValSet <- Plain
  TagCounts = {0, 1, 2}
  LeafMode = "fixed"
  Shape = "d2"
  SkipName = TRUE
  PredKeys <- Plain
  PredVals <- OnlyA
INVARIANTS KeyRoundTrips ModelAgrees
CHECK_DEADLOCK FALSE
