\* C21 thorough, first slice (second slice: SeriesIdx {1,2,3,4,6}, five patterns incl. {0,7}, ranges 1..3, predicates {1,3,8,9,10})
SPECIFICATION Spec
CONSTANTS
  SeriesIdx = {1, 2, 3, 4, 5, 6}
  Patterns = {{}, {1, 3}, {2, 3, 4, 5}}
  RangeIdx = {1, 2, 3, 4, 5, 6, 7}
  PredIdx = {1, 2, 3, 4, 5, 6, 7, 8, 9, 10, 11, 12}
  H = 4
  NShards = 2
INVARIANTS FilterContract GroupContract Partition
CHECK_DEADLOCK FALSE
