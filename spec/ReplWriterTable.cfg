SPECIFICATION Spec
CONSTANTS
  Resps = {"204", "timeout", "reset", "429", "429ra0", "429ra1", "429ra7", "429rax", "400", "401", "404", "500", "503ra9"}
  MaxAtt = 13
INVARIANTS WContract
CHECK_DEADLOCK FALSE
