SPECIFICATION Spec
CONSTANTS
  Slots = {1, 2}
  Scheds = {1, 2}
  MaxOps = 5
  CreateSkipsInactive = TRUE
INVARIANTS TypeOK OnlyActiveScheduled

CHECK_DEADLOCK FALSE
