SPECIFICATION Spec
CONSTANTS
  MaxGens = 6
  MinInit = 5
  Lvls = {2, 3, 4}
  Shapes <- ShapesSmall
  Tombs = {FALSE}
  MaxEnv = 1
  OutShapes <- ShapesSmall
  KeepHist = TRUE
  MaxHist = 4
  NoIdle = TRUE
INVARIANTS TypeOK EmitMaximal
CHECK_DEADLOCK FALSE
