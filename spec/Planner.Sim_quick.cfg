SPECIFICATION Spec
CONSTANTS
  MaxGens = 6
  MinInit = 2
  Lvls = {1, 2, 3, 4}
  Shapes <- ShapesWide
  Tombs = {TRUE, FALSE}
  MaxEnv = 4
  OutShapes <- ShapesTwo
  KeepHist = TRUE
  MaxHist = 13
  NoIdle = TRUE
INVARIANTS EmitMaximal
CHECK_DEADLOCK FALSE
