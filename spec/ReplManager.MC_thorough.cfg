SPECIFICATION Spec
CONSTANTS
  Ids = {"r1", "r2"}
  Lens = {100, 7340032}
  MaxSizes = {20971519, 20971520, 25165824}
  SegMax = 10485760
  MaxBatches = 3
  MaxOps = 0
  Menu = {"init", "delete", "update", "enq", "deliver", "track", "untrack", "storeset", "closeall", "crash", "start"}
  Prefix <- NoPrefix
  Refusals = {"exists", "notfound", "toosmall", "full", "startup"}
  KickOnOpen = TRUE
  InitLeavesDir = TRUE
  Record = FALSE
INVARIANTS TypeOK PendingIsWant OpenHasDir DownHasNoQueue NoStrandedBatch HeldHasBatch SizesAreDiskUsage
PROPERTIES StartContract FailedStartKeeps DownKeepsDisk RefusalChangesNothing DeleteContract UpdateContract EnqContract DeliverContract
VIEW View
CHECK_DEADLOCK FALSE
