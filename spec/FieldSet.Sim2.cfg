\* C10 generation by simulation: longer histories, two writers, code as it is
SPECIFICATION Spec
CONSTANTS
  Mode = "hist"
  Meas = {"m1", "m2"}
  Fields = {"f1", "f2"}
  Writers = {1, 2}
  MaxOps = 7
  MaxBatch = 1
  LogDeletes = FALSE
  ReplayOverwrites = FALSE
  PointSetName = "all"
  NoMaint = FALSE
  UseIds = TRUE
  SchemaNames = {}
  VKs = {}
INVARIANTS TypeOK

CHECK_DEADLOCK FALSE
