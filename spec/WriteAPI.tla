------------------------------ MODULE WriteAPI ------------------------------
(* The /api/v2/write handler of influxdb (http/write_handler.go, http/points, kit/io.LimitedReadCloser) for one       *)
(* request.  A behaviour is: Init picks a request, then the handler runs                                            *)
(*      ReadBody -> Decompress -> Limit -> Parse -> Write -> Respond                                                *)
(* as a deterministic state machine.  Every final state (pc = "done") is one case: the request, the response and    *)
(* the points handed to the points writer.                                                                          *)
(*                                                                                                                  *)
(* Request (abstract):                                                                                              *)
(*   lines   sequence of line classes: "good" (a well-formed point), "bad" (malformed), "comment", "blank"          *)
(*   size    size in bytes of the decoded body, one of Limit-1, Limit, Limit+1, 2*Limit (padding comment lines)     *)
(*   enc     "identity" | "gzip"                                                                                    *)
(*   csmall  gzip only: TRUE = the compressed body is smaller than the limit, FALSE = larger than the limit         *)
(*   wkind   what the points writer will answer: "ok", "partial" (drops wdrop points), "error"                      *)
(* Contract layer (C32): the invariants at the end.                                                                 *)
EXTENDS Integers, Sequences, FiniteSets, TLC

CONSTANTS Limit,      \* the configured maximum batch size (bytes); only its relation to the sizes matters
          MaxLines

VARIABLES req,      \* the request, fixed by Init
          pc,       \* handler position
          wire,     \* bytes on the wire (size of the HTTP body as sent)
          decoded,  \* bytes after content decoding
          points,   \* indices (positions in req.lines) of the parsed points, in order
          stored,   \* indices handed to and kept by the points writer
          resp      \* [status, named, dropped]: status class, indices of the lines the error names, dropped count

vars == <<req, pc, wire, decoded, points, stored, resp>>

Classes == {"good", "bad", "comment", "blank"}
Sizes == {Limit - 1, Limit, Limit + 1, 2 * Limit}
SeqsUpTo(n) == UNION {[1..k -> Classes] : k \in 0..n}
Idx(ls, c) == {i \in 1..Len(ls) : ls[i] = c}
\* increasing sequence of a set of naturals
RECURSIVE Sorted(_)
Sorted(S) == IF S = {} THEN <<>> ELSE LET m == CHOOSE x \in S : \A y \in S : x <= y IN <<m>> \o Sorted(S \ {m})
NGood(ls) == Cardinality(Idx(ls, "good"))

Requests ==
  {[lines |-> ls, size |-> sz, enc |-> e, csmall |-> cs, wkind |-> wk, wdrop |-> wd] :
      ls \in SeqsUpTo(MaxLines), sz \in Sizes, e \in {"identity", "gzip"}, cs \in BOOLEAN,
      wk \in {"ok", "partial", "error"}, wd \in 0..MaxLines}

\* normal forms only: csmall is meaningful for gzip; the writer is only consulted for well-formed requests within the
\* limit; a partial write drops between 1 and all of the points (1 or all are generated)
Meaningful(r) ==
  /\ (r.enc = "identity" => ~r.csmall)
  /\ (r.wkind = "partial" => NGood(r.lines) >= 1 /\ r.wdrop \in {1, NGood(r.lines)})
  /\ (r.wkind # "partial" => r.wdrop = 0)
  /\ ((Idx(r.lines, "bad") # {} \/ r.size > Limit) => r.wkind = "ok")

NoResp == [status |-> "none", named |-> {}, dropped |-> 0]

Init == /\ req \in {r \in Requests : Meaningful(r)}
        /\ pc = "ReadBody"
        /\ wire = 0 /\ decoded = 0 /\ points = <<>> /\ stored = <<>> /\ resp = NoResp

\* the HTTP body as sent: identity = the decoded bytes; gzip = something smaller / larger than the limit
ReadBody == /\ pc = "ReadBody"
            /\ wire' = IF req.enc = "identity" THEN req.size ELSE IF req.csmall THEN Limit - 1 ELSE Limit + 1
            /\ pc' = "Decompress"
            /\ UNCHANGED <<req, decoded, points, stored, resp>>

\* points.BatchReadCloser: gzip reader first, the limit applies to what comes out of it
Decompress == /\ pc = "Decompress"
              /\ decoded' = req.size
              /\ pc' = "Limit"
              /\ UNCHANGED <<req, wire, points, stored, resp>>

\* LimitedReadCloser around the decoded stream: more than Limit bytes => 413, nothing parsed, nothing written
LimitStep == /\ pc = "Limit"
             /\ IF decoded > Limit
                THEN /\ resp' = [status |-> "413", named |-> {}, dropped |-> 0] /\ pc' = "done"
                ELSE /\ resp' = resp /\ pc' = "Parse"
             /\ UNCHANGED <<req, wire, decoded, points, stored>>

\* points.Parser: any malformed line => 400 naming every malformed line; comments and blank lines are skipped
Parse == /\ pc = "Parse"
         /\ IF Idx(req.lines, "bad") # {}
            THEN /\ resp' = [status |-> "400", named |-> Idx(req.lines, "bad"), dropped |-> 0] /\ pc' = "done"
                 /\ points' = points
            ELSE /\ points' = Sorted(Idx(req.lines, "good")) /\ resp' = resp /\ pc' = "Write"
         /\ UNCHANGED <<req, wire, decoded, stored>>

\* PointsWriter.WritePoints, one call with every parsed point
Write == /\ pc = "Write"
         /\ stored' = CASE req.wkind = "ok" -> points
                        [] req.wkind = "partial" -> SubSeq(points, 1, Len(points) - req.wdrop)
                        [] OTHER -> <<>>
         /\ pc' = "Respond"
         /\ UNCHANGED <<req, wire, decoded, points, resp>>

Respond == /\ pc = "Respond"
           /\ resp' = CASE req.wkind = "ok" -> [status |-> "204", named |-> {}, dropped |-> 0]
                        [] req.wkind = "partial" -> [status |-> "error", named |-> {}, dropped |-> req.wdrop]
                        [] OTHER -> [status |-> "error", named |-> {}, dropped |-> 0]
           /\ pc' = "done"
           /\ UNCHANGED <<req, wire, decoded, points, stored>>

Next == ReadBody \/ Decompress \/ LimitStep \/ Parse \/ Write \/ Respond

Spec == Init /\ [][Next]_vars

\* ---------------------------------------------------------------- contract (C32), on final states
Done == pc = "done"
HasBad == Idx(req.lines, "bad") # {}
AllGood == Sorted(Idx(req.lines, "good"))
\* a body with any malformed line (and within the limit) stores nothing and is answered 400 naming the bad lines
BadLine400 == (Done /\ HasBad /\ req.size <= Limit) => (resp.status = "400" /\ resp.named = Idx(req.lines, "bad") /\ stored = <<>>)
\* larger than the limit after decoding => 413 and nothing stored, whatever the size on the wire
TooLarge413 == (Done /\ req.size > Limit) => (resp.status = "413" /\ stored = <<>>)
\* at or under the limit => accepted (never 413), whatever the size on the wire
WithinLimitAccepted == (Done /\ req.size <= Limit) => resp.status # "413"
\* 204 only after every point was stored
NoContentMeansAllStored == (Done /\ resp.status = "204") => (stored = AllGood /\ ~HasBad)
\* a well-formed request within the limit: 204, or an error; a partial write states how many points were dropped
WellFormedOutcome ==
    (Done /\ ~HasBad /\ req.size <= Limit) =>
        \/ resp.status = "204" /\ stored = AllGood
        \/ resp.status = "error" /\ (req.wkind = "partial" => resp.dropped = req.wdrop /\ resp.dropped = Len(AllGood) - Len(stored))
TypeOK == pc \in {"ReadBody", "Decompress", "Limit", "Parse", "Write", "Respond", "done"}
=============================================================================
