\* permission code = act*54 + type*9 + org*3 + id ; act: read=0 write=1 ; type: authorizations=0 buckets=1 orgs=2 users=3 tasks=4 instance=5
\* grants: {} | read buckets org1 (12) | write buckets org1 (66) | read bucket id1 (10) | read buckets org2 (15) | write instance (99) | read buckets type-wide (9) | read buckets org1 + read org 1 (12,19) | read+write buckets org1 (12,66) | read buckets org1 + write instance (12,99) | read bucket id1 + write buckets org1 (10,66)
\* AuthPairs: org*10+user
\* structured multi-permission callers, every history to the bound: {read org o} + one org-scoped or type-wide permission,
\* token creators holding one of the two permissions of a 2-element grant, and read-only / all-access tokens of an org
SPECIFICATION Spec
CONSTANTS
  CallerMode = "explicit"
  Callers = {{3,19}, {0,19}, {12,19}, {9,19}, {19,30}, {19,27}, {19,39}, {19,36}, {19,57}, {19,54}, {19,66}, {19,63}, {19,84}, {19,81}, {19,93}, {19,90}, {6,20}, {0,20}, {15,20}, {9,20}, {20,33}, {20,27}, {20,42}, {20,36}, {20,60}, {20,54}, {20,69}, {20,63}, {20,87}, {20,81}, {20,96}, {20,90}, {12,57,82}, {9,54,81}, {10,57,82}, {3,12,19,28,39}, {3,12,19,28,39,57,66,82,93}, {6,15,20,28,42}, {6,15,20,28,42,60,69,82,96}}
  CallerActive = {TRUE}
  Grants = {{}, {12}, {66}, {10}, {15}, {99}, {9}, {12,19}, {12,66}, {12,99}, {10,66}}
  AuthPairs = {11,21,12,22}
  MaxOps = 2
  StopAtFailure = TRUE

CHECK_DEADLOCK FALSE
