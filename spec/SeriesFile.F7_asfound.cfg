SPECIFICATION Spec
CONSTANTS
  PA = 7
  PB = 7
  KA = {"a", "b"}
  KB = {}
  Prefill = 32
  MaxOps = 2
  MaxBatch = 1
  MaxRolls = 0
  MaxCompactions = 0
  MaxCrashes = 1
  TwoPhaseCompact = FALSE
  EmptyKeyEndsLog = FALSE
  Tears = {"none", "id7", "id8", "key"}
INVARIANTS Agree Injective IdsInPartition
PROPERTIES StableID NeverReused BatchDupShareID
VIEW View
CHECK_DEADLOCK FALSE
