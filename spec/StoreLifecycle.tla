--------------------------- MODULE StoreLifecycle ---------------------------
(* Shard lifecycle of tsdb.Store (tsdb/store.go): Open / CreateShard / WriteToShard / DeleteShard /            *)
(* DeleteRetentionPolicy / DeleteDatabase / Close, with one series file per database shared by its shards.   *)
(*                                                                                                            *)
(* Implementation layer (what the code keeps): the directory layout (database, retention-policy and shard    *)
(* directories), the registered shards (Store.shards; empty while the store is closed), the set of databases *)
(* the store knows (Store.databases: filled by registerShard, emptied by Close, NOT re-derived from empty     *)
(* directories at Open), per shard its points, per database the series file (series -> live id; ids are      *)
(* never re-used: a series that is removed and written again gets a fresh id).                                *)
(* One action per Store call: every call holds Store.mu for its decision and the calls replayed here are      *)
(* sequential (concurrent deletes/writes are the subject of BucketDelete.tla).                                *)
(*                                                                                                            *)
(* Contract layer: the invariants / action properties at the end (ShardIdUnique, SeriesFileCovers,            *)
(* SeriesFileExact, IdsInjective, LayoutConsistent, DeleteShardContract, DeleteDatabaseContract,             *)
(* DeleteRPContract, ReopenPreserves, FailedCallsChangeNothing, WriteRefusal).                                *)
(*                                                                                                            *)
(* Deliberate, named deviations of the model from the ideal contract (the model follows the code):           *)
(*  Q1  DeleteRetentionPolicy never touches the series file: series held only by the removed shards keep     *)
(*      their ids (ghost variable `leaked` records them; they are re-used when the series is written again). *)
(*  Q2  DeleteDatabase / DeleteRetentionPolicy consult Store.databases, not the disk: for a database whose   *)
(*      directory exists but that has no registered shard since the last Open they do nothing and return nil *)
(*      (StrongDeleteDatabase below states the ideal; Lead_Q2.cfg shows the model-level counterexample, which *)
(*      reproduces on the real store: known finding FX1).                                                     *)
(*  Q3  CreateShard with an id that is already registered (in any database) is a silent no-op.                *)
EXTENDS Integers, Sequences, FiniteSets, TLC

CONSTANTS DBs, RPs, IDs,   \* database names, retention policy names, shard ids (model values, symmetric)
          Series, Times,   \* abstract series (driver: 2 measurements x 2 tag values) and timestamps
          MaxOps,          \* bound on the history length
          MaxWrites,       \* bound on successful+failed writes in one history (keeps the point sets small)
          MaxNoops         \* bound on calls without effect (refused / no-op) in one history; Gen configs keep it small so that
                           \* the bounded histories are dense in effective calls, MC configs set it to MaxOps (no restriction)

VARIABLES open,      \* the store is open
          shards,    \* set of <<db, rp, id>>: shard directories on disk; while open exactly the registered shards
          pts,       \* [DBs \X RPs \X IDs -> SUBSET (Series \X Times)]: points stored in a shard
          sfile,     \* [DBs -> [Series -> Nat]]: live series id in the database's series file, 0 = none
          nextAid,   \* next abstract series id (global counter: ids of different files never compare equal)
          known,     \* Store.databases (keys)
          dbdirs,    \* database directories on disk (each holds the series file directory)
          rpdirs,    \* set of <<db, rp>>: retention policy directories on disk
          ever,      \* shard ids that were created at some point (guides generation: stale ids are interesting)
          leaked,    \* ghost, [DBs -> SUBSET Series]: series whose id outlived its last shard through Q1
          nwrites, nnoop,
          kind,      \* only for SimSpec: the ticket <<kind of call, n>> drawn for the next step (NoKind otherwise)
          hist       \* history for replay: sequence of [a, <args>, err, exp]

NoKind == <<"none", 0>>
vars == <<open, shards, pts, sfile, nextAid, known, dbdirs, rpdirs, ever, leaked, nwrites, nnoop, kind, hist>>
\* VIEW of the MC configs: hides hist, and nnoop/kind which never restrict anything there (MaxNoops >= MaxOps, Spec keeps kind)
View == <<open, shards, pts, sfile, nextAid, known, dbdirs, rpdirs, ever, leaked, nwrites>>

\* symmetry: the generators only (cheap, partial reduction; MC configs) and the full product group (Gen configs: one history
\* per renaming class; the driver re-introduces concrete names, ids, series and timestamps by seed)
Sym == Permutations(DBs) \cup Permutations(RPs) \cup Permutations(IDs) \cup Permutations(Series) \cup Permutations(Times)
SymFull == {a @@ b @@ c @@ d @@ e : a \in Permutations(DBs), b \in Permutations(RPs), c \in Permutations(IDs),
                                   d \in Permutations(Series), e \in Permutations(Times)}

Shard == DBs \X RPs \X IDs
Ser(p, x) == {q[1] : q \in p[x]}                                   \* series a shard holds (its index)
OfDB(S, d) == {x \in S : x[1] = d}
Held(S, p, d) == UNION {Ser(p, x) : x \in OfDB(S, d)}              \* series held by some shard of the database
Live(sf, d) == {s \in Series : sf[d][s] # 0}                       \* series with a live id in the series file
WithId(S, i) == {x \in S : x[3] = i}

\* ---- contract-level observation after a step (what the driver compares on the real store) ----
ObsOf(o, S, p, sf, kn, dd, rd) ==
  [open   |-> o,
   shards |-> IF o THEN S ELSE {},                                  \* Store.ShardIDs / Shard(id).Database()/RetentionPolicy()
   disk   |-> S,                                                    \* shard directories (data and WAL)
   dbdirs |-> dd, rpdirs |-> rd,
   pts    |-> UNION {{<<x[3], q[1], q[2]>> : q \in p[x]} : x \in S}, \* readable points <<shard id, series, t>>
   sfile  |-> {<<d, s, sf[d][s]>> : d \in DBs, s \in Series} \ {<<d, s, 0>> : d \in DBs, s \in Series},
   known  |-> kn]

Init == /\ open = TRUE
        /\ shards = {}
        /\ pts = [x \in Shard |-> {}]
        /\ sfile = [d \in DBs |-> [s \in Series |-> 0]]
        /\ nextAid = 1
        /\ known = {}
        /\ dbdirs = {} /\ rpdirs = {}
        /\ ever = {}
        /\ leaked = [d \in DBs |-> {}]
        /\ nwrites = 0 /\ nnoop = 0 /\ kind = NoKind
        /\ hist = <<>>

Same == UNCHANGED <<open, shards, pts, sfile, nextAid, known, dbdirs, rpdirs, leaked>>
Noop == Same /\ nnoop < MaxNoops /\ nnoop' = nnoop + 1          \* a call without effect
ObsNow == ObsOf(open, shards, pts, sfile, known, dbdirs, rpdirs)

\* Store.CreateShard(db, rp, id, enabled=true)
CreateShard(d, r, i) ==
  /\ kind' = NoKind                                   \* (a call consumes the ticket of SimSpec; Spec never draws one)
  /\ Len(hist) < MaxOps
  /\ UNCHANGED nwrites
  /\ IF ~open
     THEN /\ Noop /\ UNCHANGED ever
          /\ hist' = Append(hist, [a |-> "create", db |-> d, rp |-> r, id |-> i, err |-> "closed", exp |-> ObsNow])
     ELSE IF WithId(shards, i) # {}
     THEN /\ Noop /\ UNCHANGED ever                                                                  \* Q3
          /\ hist' = Append(hist, [a |-> "create", db |-> d, rp |-> r, id |-> i, err |-> "exists", exp |-> ObsNow])
     ELSE /\ shards' = shards \cup {<<d, r, i>>}
          /\ dbdirs' = dbdirs \cup {d}
          /\ rpdirs' = rpdirs \cup {<<d, r>>}
          /\ known' = known \cup {d}
          /\ ever' = ever \cup {i}
          /\ UNCHANGED <<open, pts, sfile, nextAid, leaked, nnoop>>
          /\ hist' = Append(hist, [a |-> "create", db |-> d, rp |-> r, id |-> i, err |-> "ok",
                                   exp |-> ObsOf(open, shards', pts, sfile, known', dbdirs', rpdirs')])

\* Store.WriteToShard(id, one point of series s at time t)
Write(i, s, t) ==
  /\ kind' = NoKind                                   \* (a call consumes the ticket of SimSpec; Spec never draws one)
  /\ Len(hist) < MaxOps /\ nwrites < MaxWrites
  /\ i \in ever
  /\ nwrites' = nwrites + 1
  /\ UNCHANGED ever
  /\ IF ~open
     THEN /\ Noop
          /\ hist' = Append(hist, [a |-> "write", id |-> i, s |-> s, t |-> t, err |-> "closed", exp |-> ObsNow])
     ELSE IF WithId(shards, i) = {}
     THEN /\ Noop
          /\ hist' = Append(hist, [a |-> "write", id |-> i, s |-> s, t |-> t, err |-> "notfound", exp |-> ObsNow])
     ELSE LET x == CHOOSE y \in WithId(shards, i) : TRUE
              d == x[1]
              fresh == sfile[d][s] = 0
          IN /\ pts' = [pts EXCEPT ![x] = @ \cup {<<s, t>>}]
             /\ sfile' = IF fresh THEN [sfile EXCEPT ![d][s] = nextAid] ELSE sfile
             /\ nextAid' = IF fresh THEN nextAid + 1 ELSE nextAid
             /\ leaked' = [leaked EXCEPT ![d] = @ \ {s}]
             /\ UNCHANGED <<open, shards, known, dbdirs, rpdirs, nnoop>>
             /\ hist' = Append(hist, [a |-> "write", id |-> i, s |-> s, t |-> t, err |-> "ok",
                                      exp |-> ObsOf(open, shards, pts', sfile', known, dbdirs, rpdirs)])

\* Store.DeleteShard(id): series ids held by no other shard of the database are removed from the series file
DeleteShard(i) ==
  /\ kind' = NoKind                                   \* (a call consumes the ticket of SimSpec; Spec never draws one)
  /\ Len(hist) < MaxOps
  /\ i \in ever
  /\ UNCHANGED <<ever, nwrites>>
  /\ IF ~open \/ WithId(shards, i) = {}
     THEN /\ Noop
          /\ hist' = Append(hist, [a |-> "delshard", id |-> i, err |-> "noop", exp |-> ObsNow])
     ELSE LET x == CHOOSE y \in WithId(shards, i) : TRUE
              d == x[1]
              rest == shards \ {x}
              excl == Ser(pts, x) \ Held(rest, pts, d)
          IN /\ shards' = rest
             /\ pts' = [pts EXCEPT ![x] = {}]
             /\ sfile' = [sfile EXCEPT ![d] = [s \in Series |-> IF s \in excl THEN 0 ELSE @[s]]]
             /\ UNCHANGED <<open, nextAid, known, dbdirs, rpdirs, leaked, nnoop>>
             /\ hist' = Append(hist, [a |-> "delshard", id |-> i, err |-> "ok",
                                      exp |-> ObsOf(open, shards', pts', sfile', known, dbdirs, rpdirs)])

\* Store.DeleteRetentionPolicy(db, rp)
DeleteRP(d, r) ==
  /\ kind' = NoKind                                   \* (a call consumes the ticket of SimSpec; Spec never draws one)
  /\ Len(hist) < MaxOps
  /\ UNCHANGED <<ever, nwrites>>
  /\ IF d \notin known                                                                                \* Q2 (and closed store)
     THEN /\ Noop
          /\ hist' = Append(hist, [a |-> "delrp", db |-> d, rp |-> r, err |-> "noop",
                                   stale |-> open /\ <<d, r>> \in rpdirs, exp |-> ObsNow])
     ELSE LET gone == {x \in shards : x[1] = d /\ x[2] = r}
              rest == shards \ gone
              orphans == (UNION {Ser(pts, x) : x \in gone}) \ Held(rest, pts, d)
          IN /\ shards' = rest
             /\ pts' = [x \in Shard |-> IF x \in gone THEN {} ELSE pts[x]]
             /\ rpdirs' = rpdirs \ {<<d, r>>}
             /\ leaked' = [leaked EXCEPT ![d] = @ \cup orphans]                                        \* Q1
             /\ UNCHANGED <<open, sfile, nextAid, known, dbdirs, nnoop>>
             /\ hist' = Append(hist, [a |-> "delrp", db |-> d, rp |-> r, err |-> "ok", stale |-> FALSE,
                                      exp |-> ObsOf(open, shards', pts', sfile, known, dbdirs, rpdirs')])

\* Store.DeleteDatabase(db)
DeleteDatabase(d) ==
  /\ kind' = NoKind                                   \* (a call consumes the ticket of SimSpec; Spec never draws one)
  /\ Len(hist) < MaxOps
  /\ UNCHANGED <<ever, nwrites>>
  /\ IF d \notin known                                                                                \* Q2 (and closed store)
     THEN /\ Noop
          /\ hist' = Append(hist, [a |-> "deldb", db |-> d, err |-> "noop", stale |-> open /\ d \in dbdirs, exp |-> ObsNow])
     ELSE /\ shards' = shards \ OfDB(shards, d)
          /\ pts' = [x \in Shard |-> IF x[1] = d THEN {} ELSE pts[x]]
          /\ sfile' = [sfile EXCEPT ![d] = [s \in Series |-> 0]]
          /\ leaked' = [leaked EXCEPT ![d] = {}]
          /\ known' = known \ {d}
          /\ dbdirs' = dbdirs \ {d}
          /\ rpdirs' = {y \in rpdirs : y[1] # d}
          /\ UNCHANGED <<open, nextAid, nnoop>>
          /\ hist' = Append(hist, [a |-> "deldb", db |-> d, err |-> "ok", stale |-> FALSE,
                                   exp |-> ObsOf(open, shards', pts', sfile', known', dbdirs', rpdirs')])

\* Store.Close
Close ==
  /\ kind' = NoKind                                   \* (a call consumes the ticket of SimSpec; Spec never draws one)
  /\ Len(hist) < MaxOps /\ open
  /\ open' = FALSE /\ known' = {}
  /\ UNCHANGED <<shards, pts, sfile, nextAid, dbdirs, rpdirs, ever, leaked, nwrites, nnoop>>
  /\ hist' = Append(hist, [a |-> "close", err |-> "ok", exp |-> ObsOf(FALSE, shards, pts, sfile, {}, dbdirs, rpdirs)])

\* Store.Open (same object or a new process): shards are found by walking <db>/<rp>/<id>; a database is known iff one
\* of its shards was registered
Open ==
  /\ kind' = NoKind                                   \* (a call consumes the ticket of SimSpec; Spec never draws one)
  /\ Len(hist) < MaxOps /\ ~open
  /\ open' = TRUE /\ known' = {x[1] : x \in shards}
  /\ UNCHANGED <<shards, pts, sfile, nextAid, dbdirs, rpdirs, ever, leaked, nwrites, nnoop>>
  /\ hist' = Append(hist, [a |-> "open", err |-> "ok", exp |-> ObsOf(TRUE, shards, pts, sfile, known', dbdirs, rpdirs)])

Next == \/ \E d \in DBs, r \in RPs, i \in IDs : CreateShard(d, r, i)
        \/ \E i \in IDs, s \in Series, t \in Times : Write(i, s, t)
        \/ \E i \in IDs : DeleteShard(i)
        \/ \E d \in DBs, r \in RPs : DeleteRP(d, r)
        \/ \E d \in DBs : DeleteDatabase(d)
        \/ Close
        \/ Open

Spec == Init /\ [][Next]_vars

\* Same behaviours, generated for -simulate with the kind of call drawn first (TLC picks uniformly among successor STATES; without
\* this the many instances of create/write crowd out the deletes and the reopen). Used only by Sim configs.
Kinds == {"create", "write", "delshard", "delrp", "deldb", "close", "open"}
MayNoop == nnoop < MaxNoops
SomeRegistered == open /\ \E i \in ever : WithId(shards, i) # {}
KindEnabled(k) ==
  CASE k = "create"   -> (open /\ \E i \in IDs : WithId(shards, i) = {}) \/ MayNoop
    [] k = "write"    -> nwrites < MaxWrites /\ ever # {} /\ (SomeRegistered \/ MayNoop)
    [] k = "delshard" -> ever # {} /\ (SomeRegistered \/ MayNoop)
    [] k = "delrp"    -> known # {} \/ MayNoop
    [] k = "deldb"    -> known # {} \/ MayNoop
    [] k = "close"    -> open
    [] k = "open"     -> ~open
\* tickets: <<kind, n>>; the number of tickets of a kind is its weight. The first calls build something up (creates, then mostly
\* writes), afterwards every kind is drawn; a closed store is mostly reopened.
Tickets ==
  LET n == Len(hist) IN
  IF n < 2 THEN {<<"create", 1>>}
  ELSE IF n < 6 THEN {<<"create", 1>>, <<"write", 1>>, <<"write", 2>>, <<"write", 3>>}
  ELSE IF ~open THEN {<<"open", 1>>, <<"open", 2>>, <<"open", 3>>, <<"write", 1>>, <<"deldb", 1>>, <<"create", 1>>}
  ELSE {<<"create", 1>>, <<"write", 1>>, <<"write", 2>>, <<"delshard", 1>>, <<"delshard", 2>>, <<"delrp", 1>>, <<"deldb", 1>>,
        <<"close", 1>>}
NextSim ==
  \/ /\ kind = NoKind /\ Len(hist) < MaxOps
     /\ kind' \in {k \in Tickets : KindEnabled(k[1])}
     /\ UNCHANGED <<open, shards, pts, sfile, nextAid, known, dbdirs, rpdirs, ever, leaked, nwrites, nnoop, hist>>
  \/ /\ kind # NoKind
     /\ \/ kind[1] = "create" /\ \E d \in DBs, r \in RPs, i \in IDs : CreateShard(d, r, i)
        \/ kind[1] = "write" /\ \E i \in IDs, s \in Series, t \in Times : Write(i, s, t)
        \/ kind[1] = "delshard" /\ \E i \in IDs : DeleteShard(i)
        \/ kind[1] = "delrp" /\ \E d \in DBs, r \in RPs : DeleteRP(d, r)
        \/ kind[1] = "deldb" /\ \E d \in DBs : DeleteDatabase(d)
        \/ kind[1] = "close" /\ Close
        \/ kind[1] = "open" /\ Open
SimSpec == Init /\ [][NextSim]_vars

\* =========================================================== contract ===========================================================
TypeOK == /\ open \in BOOLEAN /\ shards \subseteq Shard /\ known \subseteq DBs /\ dbdirs \subseteq DBs /\ rpdirs \subseteq DBs \X RPs
          /\ nextAid \in Nat

\* a shard id exists in at most one (database, retention policy)
ShardIdUnique == \A x, y \in shards : x[3] = y[3] => x = y

\* every series a shard holds has a live id in its database's series file
SeriesFileCovers == \A x \in shards : \A s \in Ser(pts, x) : sfile[x[1]][s] # 0

\* ... and the series file holds nothing else, except the ids Q1 leaves behind
SeriesFileExact == \A d \in DBs : /\ Live(sfile, d) = Held(shards, pts, d) \cup leaked[d]
                                  /\ leaked[d] \cap Held(shards, pts, d) = {}

\* live ids are never shared
IdsInjective == \A d1, d2 \in DBs, s1, s2 \in Series :
                   (sfile[d1][s1] # 0 /\ sfile[d1][s1] = sfile[d2][s2]) => (d1 = d2 /\ s1 = s2)

\* the directory layout is consistent with the shards; nothing is stored outside an existing shard
LayoutConsistent == /\ \A x \in shards : x[1] \in dbdirs /\ <<x[1], x[2]>> \in rpdirs
                    /\ \A y \in rpdirs : y[1] \in dbdirs
                    /\ \A d \in DBs : Live(sfile, d) # {} => d \in dbdirs
                    /\ \A x \in Shard : pts[x] # {} => x \in shards
                    /\ (open => {x[1] : x \in shards} \subseteq known)
                    /\ (~open => known = {})
                    /\ known \subseteq dbdirs

\* DeleteShard of an existing shard: the other shards' data and metadata are untouched; no series of a remaining shard
\* loses (or changes) its id; exactly the ids of the series held by no remaining shard of the database are removed
DeleteShardContract ==
  [][\A i \in IDs : (DeleteShard(i) /\ open /\ WithId(shards, i) # {}) =>
        LET X == WithId(shards, i) IN
        /\ shards' = shards \ X
        /\ \A y \in shards' : pts'[y] = pts[y]
        /\ dbdirs' = dbdirs /\ rpdirs' = rpdirs /\ known' = known
        /\ \A d \in DBs, s \in Series :
              /\ sfile'[d][s] \in {sfile[d][s], 0}
              /\ (s \in Held(shards', pts', d)) => sfile'[d][s] = sfile[d][s]
              /\ (sfile[d][s] # 0 /\ sfile'[d][s] = 0) <=>
                     (\E x \in X : x[1] = d /\ s \in Ser(pts, x) /\ s \notin Held(shards', pts', d))]_vars

\* DeleteDatabase of a database the store knows: nothing of it remains (shards, points, directories, series file); other
\* databases are untouched
DeleteDatabaseContract ==
  [][\A d \in DBs : (DeleteDatabase(d) /\ d \in known) =>
        /\ OfDB(shards', d) = {} /\ d \notin dbdirs' /\ d \notin known' /\ {y \in rpdirs' : y[1] = d} = {}
        /\ Live(sfile', d) = {}
        /\ \A x \in Shard : x[1] = d => pts'[x] = {}
        /\ \A e \in DBs \ {d} : /\ OfDB(shards', e) = OfDB(shards, e) /\ sfile'[e] = sfile[e]
                                /\ \A x \in OfDB(shards, e) : pts'[x] = pts[x]
                                /\ (e \in dbdirs') = (e \in dbdirs) /\ (e \in known') = (e \in known)
                                /\ {y \in rpdirs' : y[1] = e} = {y \in rpdirs : y[1] = e}]_vars

\* DeleteRetentionPolicy of a known database: its shards and directory are gone, every other shard is untouched (Q1: the series
\* file is not touched at all)
DeleteRPContract ==
  [][\A d \in DBs, r \in RPs : (DeleteRP(d, r) /\ d \in known) =>
        LET gone == {x \in shards : x[1] = d /\ x[2] = r} IN
        /\ shards' = shards \ gone /\ <<d, r>> \notin rpdirs' /\ rpdirs' \cup {<<d, r>>} = rpdirs \cup {<<d, r>>}
        /\ \A x \in gone : pts'[x] = {}
        /\ \A y \in shards' : pts'[y] = pts[y]
        /\ sfile' = sfile /\ dbdirs' = dbdirs /\ known' = known]_vars

\* Close / Open preserve everything that is stored
ReopenPreserves == [][(Close \/ Open) => UNCHANGED <<shards, pts, sfile, dbdirs, rpdirs>>]_vars

\* a write that is refused (shard not found / store closed), a create that is refused, and deletes of things that do not exist
\* change nothing
FailedCallsChangeNothing ==
  [][(Len(hist') = Len(hist) + 1 /\ hist'[Len(hist')].err \in {"notfound", "closed", "exists", "noop"}) => Same]_vars

\* a write is refused exactly when the store is closed or no shard with that id is registered
WriteRefusal ==
  [][(Len(hist') = Len(hist) + 1 /\ hist'[Len(hist')].a = "write") =>
        LET h == hist'[Len(hist')] IN
        /\ (h.err = "closed") = ~open
        /\ (h.err = "notfound") = (open /\ WithId(shards, h.id) = {})]_vars

\* ---- the ideal that Q2 misses (used only by Lead_Q2.cfg; expected to be violated by the model as it follows the code) ----
StrongDeleteDatabase == [][\A d \in DBs : (DeleteDatabase(d) /\ open) => d \notin dbdirs']_vars
=============================================================================
