--------------------------- MODULE TaskCoordinator ---------------------------
(* Specification for property C25: only active tasks are scheduled.                                       *)
(*                                                                                                        *)
(* Implementation layer: the coordinating task service (task/backend/middleware.CoordinatingTaskService)  *)
(* in front of a task store, calling task/backend/coordinator.Coordinator (TaskCreated / TaskUpdated /    *)
(* TaskDeleted), which calls the scheduler's Schedule / Release; process restart = empty scheduler +      *)
(* task/backend.NotifyCoordinatorOfExisting.                                                              *)
(* Contract layer: `scheduled` (the Schedule/Release call log folded into id -> schedule) must be exactly *)
(* the existing tasks whose status is active, each with its latest schedule.                              *)
EXTENDS Integers, Sequences, FiniteSets, TLC

CONSTANTS Slots,               \* task slots (a created task occupies the lowest free slot; ids are never reused by the store)
          Scheds,              \* abstract schedules (the harness maps them to every/cron/offset)
          MaxOps,
          CreateSkipsInactive  \* TRUE: TaskCreated ignores inactive tasks (repaired tree); FALSE: as found (F4)

VARIABLES tasks,      \* [Slots -> [ex, status, sched]]
          scheduled,  \* [Slots -> 0 | sched]   what the scheduler holds (0 = not scheduled)
          hist
vars == <<tasks, scheduled, hist>>

NoTask == [ex |-> FALSE, status |-> "none", sched |-> 0]
Keep == "keep"
Statuses == {"active", "inactive"}
Existing == {s \in Slots : tasks[s].ex}
Free == Slots \ Existing
LowestFree == CHOOSE s \in Free : \A u \in Free : s <= u

Init == /\ tasks = [s \in Slots |-> NoTask]
        /\ scheduled = [s \in Slots |-> 0]
        /\ hist = <<>>

Log(e, sch) == hist' = Append(hist, e @@ [exp |-> sch])

\* ---- Coordinator (coordinator.go) ----
TaskCreated(sch, s, t) == IF CreateSkipsInactive /\ t.status = "inactive" THEN sch ELSE [sch EXCEPT ![s] = t.sched]
TaskUpdated(sch, s, from, to) ==
  IF to.status = from.status /\ to.status = "inactive" THEN sch                      \* already inactive: nothing
  ELSE IF to.status # from.status /\ to.status = "inactive" THEN [sch EXCEPT ![s] = 0] \* being disabled: Release
  ELSE [sch EXCEPT ![s] = to.sched]                                                   \* otherwise Schedule (re-schedule)
TaskDeleted(sch, s) == [sch EXCEPT ![s] = 0]

\* ---- the coordinating service (middleware.go) ----
CreateTask(status, sc) ==
  /\ Len(hist) < MaxOps /\ Free # {}
  /\ LET s == LowestFree
         t == [ex |-> TRUE, status |-> status, sched |-> sc]
         sch == TaskCreated(scheduled, s, t)
     IN /\ tasks' = [tasks EXCEPT ![s] = t]
        /\ scheduled' = sch
        /\ Log([a |-> "create", slot |-> s, status |-> status, sched |-> sc], sch)

UpdateTask(s, status, sc) ==      \* status \in Statuses \cup {Keep}, sc \in Scheds \cup {0}  (0 = keep)
  /\ Len(hist) < MaxOps /\ s \in Existing
  /\ LET from == tasks[s]
         to == [ex |-> TRUE, status |-> IF status = Keep THEN from.status ELSE status,
                sched |-> IF sc = 0 THEN from.sched ELSE sc]
         sch == TaskUpdated(scheduled, s, from, to)
     IN /\ tasks' = [tasks EXCEPT ![s] = to]
        /\ scheduled' = sch
        /\ Log([a |-> "update", slot |-> s, status |-> status, sched |-> sc], sch)

DeleteTask(s) ==
  /\ Len(hist) < MaxOps /\ s \in Existing
  /\ LET sch == TaskDeleted(scheduled, s) IN
     /\ tasks' = [tasks EXCEPT ![s] = NoTask]
     /\ scheduled' = sch
     /\ Log([a |-> "delete", slot |-> s], sch)

\* process restart: a new (empty) scheduler; NotifyCoordinatorOfExisting calls TaskCreated for every active task
Restart ==
  /\ Len(hist) < MaxOps
  /\ LET sch == [s \in Slots |-> IF tasks[s].ex /\ tasks[s].status = "active" THEN tasks[s].sched ELSE 0] IN
     /\ scheduled' = sch
     /\ Log([a |-> "restart"], sch)
  /\ UNCHANGED tasks

Next == \/ \E st \in Statuses, sc \in Scheds : CreateTask(st, sc)
        \/ \E s \in Slots, st \in Statuses \cup {Keep}, sc \in Scheds \cup {0} : UpdateTask(s, st, sc)
        \/ \E s \in Slots : DeleteTask(s)
        \/ Restart
Spec == Init /\ [][Next]_vars

\* ---- contract ----
OnlyActiveScheduled ==
  \A s \in Slots : scheduled[s] = (IF tasks[s].ex /\ tasks[s].status = "active" THEN tasks[s].sched ELSE 0)
TypeOK == \A s \in Slots : scheduled[s] \in Scheds \cup {0}

View == <<tasks, scheduled, Len(hist)>>
=============================================================================
