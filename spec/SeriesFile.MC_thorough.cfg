SPECIFICATION Spec
CONSTANTS
  PA = 0
  PB = 7
  KA = {"a", "b"}
  KB = {"c"}
  Prefill = 1
  MaxOps = 5
  MaxBatch = 2
  MaxRolls = 1
  MaxCompactions = 2
  MaxCrashes = 2
  TwoPhaseCompact = TRUE
  EmptyKeyEndsLog = TRUE
  Tears = {"none", "id7", "id8", "key"}
INVARIANTS Agree Injective IdsInPartition
PROPERTIES StableID NeverReused BatchDupShareID
VIEW View
CHECK_DEADLOCK FALSE
