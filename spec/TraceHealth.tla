---------------------------- MODULE TraceHealth ----------------------------
(* Trace validation (code -> spec) for C33: a trace recorded from the real http.HealthReadyHandler, real          *)
(* check.ReadyGate latches and the real StartupProgressLogger / SchedulerPulseCheck under freely scheduled        *)
(* goroutines is accepted iff every line can be consumed by the actions of Health.tla.  Each goroutine logs       *)
(* `call` before and `ret` after every operation (appended under one mutex, so the log order respects real time); *)
(* the operation takes effect in internal steps between the two lines: one Lin step for registration / signal /   *)
(* progress / health changes, ReqStart + one ReqEval per checker + ReqFinish for a request.  Ret compares the      *)
(* logged HTTP status and parsed body with what the specification's request computed.                             *)
(* Mechanics: DESIGN.md Appendix A.3 (high-water mark in TLCSet register 1, -workers 1, StateDeque).              *)
EXTENDS Health, Json

VARIABLES l, pend
tvars == <<vars, l, pend>>

Trace == ndJsonDeserialize("trace.ndjson")
None == [op |-> "none"]
ToSet(s) == {s[i] : i \in 1..Len(s)}
ReqOps == {"ready", "health"}

TInit == /\ TLCSet(1, 0) /\ Init /\ l = 1 /\ pend = [t \in Reqs |-> None]

Call == /\ l <= Len(Trace) /\ Trace[l].ev = "call" /\ pend[Trace[l].t] = None
        /\ pend' = [pend EXCEPT ![Trace[l].t] = [op |-> Trace[l].op, n |-> Trace[l].n, st |-> Trace[l].st,
                                                  msg |-> Trace[l].msg, stage |-> "new", done |-> FALSE]]
        /\ l' = l + 1 /\ UNCHANGED vars

Done(t) == pend' = [pend EXCEPT ![t].done = TRUE]

Lin(t) ==
  /\ pend[t] # None /\ ~pend[t].done /\ UNCHANGED l
  /\ LET p == pend[t] IN
     \/ p.op = "regready" /\ RegisterReady(p.n) /\ Done(t)
     \/ p.op = "reghealth" /\ RegisterHealth(p.n) /\ Done(t)
     \/ p.op = "signal" /\ Signal(p.n) /\ Done(t)
     \/ p.op = "signal" /\ gate[p.n] = "ready" /\ UNCHANGED vars /\ Done(t)        \* Ready() on a ready gate
     \/ p.op = "unsignal" /\ Unsignal(p.n) /\ Done(t)
     \/ p.op = "unsignal" /\ gate[p.n] # "ready" /\ UNCHANGED vars /\ Done(t)      \* Unready() on a gate that is not ready
     \/ p.op = "progress" /\ Progress(p.st) /\ Done(t)
     \/ p.op = "sethealth" /\ SetHealth(p.n, [st |-> p.st, msg |-> p.msg]) /\ Done(t)
     \/ p.op \in ReqOps /\ p.stage = "new" /\ ReqStart(t, p.op) /\ pend' = [pend EXCEPT ![t].stage = "run"]
     \/ p.op \in ReqOps /\ p.stage = "run" /\ ReqEval(t) /\ UNCHANGED pend
     \/ p.op \in ReqOps /\ p.stage = "run" /\ ReqFinish(t) /\ Done(t)

Ret == /\ l <= Len(Trace) /\ Trace[l].ev = "ret"
       /\ LET t == Trace[l].t IN
          /\ pend[t] # None /\ pend[t].done
          /\ (pend[t].op \in ReqOps =>
                /\ last[t].code = Trace[l].code
                /\ last[t].failing = ToSet(Trace[l].failing)
                /\ (pend[t].op = "health" => last[t].msg = Trace[l].msg))
          /\ pend' = [pend EXCEPT ![t] = None]
       /\ l' = l + 1 /\ UNCHANGED vars

\* separator between concatenated traces: everything starts afresh
Reset == /\ l <= Len(Trace) /\ Trace[l].ev = "reset"
         /\ \A t \in Reqs : pend[t] = None
         /\ gate' = [g \in Gates |-> "unsignalled"] /\ prog' = "waiting" /\ hs' = [h \in HealthNames |-> HInit(h)]
         /\ regR' = <<>> /\ regH' = <<>> /\ req' = [r \in Reqs |-> Idle] /\ last' = [r \in Reqs |-> NoResp]
         /\ nops' = 0 /\ nreq' = 0 /\ hist' = <<>>
         /\ l' = l + 1 /\ UNCHANGED pend

TNext == Call \/ Ret \/ Reset \/ \E t \in Reqs : Lin(t)
TSpec == TInit /\ [][TNext]_tvars

Mark == TLCSet(1, IF TLCGet(1) < l THEN l ELSE TLCGet(1))
Accepted == /\ PrintT("@@HW " \o ToString(TLCGet(1) - 1) \o " of " \o ToString(Len(Trace)))
            /\ TLCGet(1) = Len(Trace) + 1
=============================================================================
