SPECIFICATION Spec
CONSTANTS
  DBs1 = {"d1", "d2"}
  DBs2 = {"d1", "d2"}
  RPs = {"r1", "r2", "autogen"}
  VirtOrgs = {1}
  CollideOrgs = {1}
  MaxOps = 6
  MaxMaps = 4
  KeepObs = TRUE
INVARIANTS TypeOK ReadContract RegisterSound
CHECK_DEADLOCK FALSE
