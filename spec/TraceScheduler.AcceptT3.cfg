SPECIFICATION TSpec
CONSTANTS
  Tasks = {1, 2, 3}
  NW = 2
  Profiles <- ProfilesLead
  Backs = {0}
  MaxTime = 100000
  MaxSched = 100000
  MaxOps = 0
  NegReset = FALSE
  RefreshOnRemove = TRUE
  Discipline = FALSE
  Record = FALSE
CONSTRAINT Mark
POSTCONDITION Accepted
CHECK_DEADLOCK FALSE
