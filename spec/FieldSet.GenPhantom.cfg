\* C10 directed generation: every history of 4 operations over three points (a field created by a point that is then rejected) and crash, one writer, code as it is
SPECIFICATION Spec
CONSTANTS
  Mode = "hist"
  Meas = {"m1"}
  Fields = {"f1", "f2"}
  Writers = {1}
  MaxOps = 4
  MaxBatch = 1
  LogDeletes = FALSE
  ReplayOverwrites = FALSE
  PointSetName = "phantom"
  NoMaint = TRUE
  UseIds = TRUE
  SchemaNames = {}
  VKs = {}
INVARIANTS TypeOK

CHECK_DEADLOCK FALSE
