SPECIFICATION Spec
CONSTANTS
  Family = "read"
  NTs = 3
  NFiles = 3
  NKeys = 1
  MaxBlocks = 2
  TombMode = "one"
  KeyMode = "full"
  MaxLen = 0
  PPBs <- PPBSmall
  NPicks = 0
  PickAt <- NoPick
INVARIANTS LWWIsFold ReadLemmas
CHECK_DEADLOCK FALSE
