--------------------------- MODULE TSMEngineBackup ---------------------------
(* C38 -- shard backup / restore / export preserve data.  Extension of TSMEngine.tla (same variables, same actions,  *)
(* same contract layer) by file modification times, Backup(since), Restore into an empty shard and Export(lo, hi).   *)
(*                                                                                                                  *)
(* CONTRACT LAYER (what C38 names)                                                                                  *)
(*   RestoreOK       a reader of an EMPTY shard into which the archive of Backup(since = 0) was restored sees       *)
(*                   exactly what a reader of the source sees (= the model: backups are taken in quiescent states).  *)
(*   BackupComplete  the archive of Backup(since) contains every file (TSM file, tombstone file) changed after       *)
(*                   `since` (logical clock; a file is changed by the step that creates or rewrites it).              *)
(*   ExportOK        Export(lo, hi) succeeds and the points of its archive (files merged as a reader merges them:    *)
(*                   later file wins, tombstones applied) are exactly the model's points with lo <= time <= hi.      *)
(*                                                                                                                  *)
(* IMPLEMENTATION LAYER (engine.go Backup / Export / Restore / overlay, pkg/tar)                                     *)
(*   clock, fm       logical clock; per file the mtime of the TSM file and of its tombstone file (0 = none).         *)
(*                   A tombstone file is written for file f by a delete of (k, lo..hi) iff k has a block in f and     *)
(*                   f's time range overlaps lo..hi (batchDelete.DeleteRange) -- also when it masks no point.         *)
(*   Backup(since)   CreateSnapshot(true): the cache is snapshotted to a new TSM file first (forced snapshot), then   *)
(*                   the files are hard-linked; tar.Stream + SinceFilterTarFile: f.ModTime().After(since).            *)
(*   Restore         overlay(asNew = false): readFileFromBackup copies the entries of the archive into the shard,    *)
(*                   FileStore.Replace(nil, new), the shard is closed and reopened.                                  *)
(*                   QUIRK RestoreKeepsTombstones = FALSE: entries whose name does not end in ".tsm" are skipped,     *)
(*                   i.e. the tombstone files of the archive are NOT restored.                                       *)
(*   Export(lo, hi)  CreateSnapshot(false) (forced snapshot), then per TSM file: entirely inside lo..hi -> the file;  *)
(*                   partly overlapping -> a filtered copy.                                                         *)
(*                   QUIRK ExportWholeBlocks = TRUE: filterFileToBackup keeps or drops whole BLOCKS (a block = the    *)
(*                   points of one key in one file here) by their min/max time, so points outside lo..hi come along.  *)
(*                   QUIRK ExportTombstoneBug = TRUE: a TSM file that has a tombstone file makes Export fail          *)
(*                   (StreamFile is called with the bare tombstone file name) -- defect F14.                          *)
(* The checking configuration switches the quirks off (the intended design satisfies the contract); the generation    *)
(* and lead configurations set them as the code is, and the real engine is the judge.                                *)
(*                                                                                                                  *)
(* Backup / Export are taken in quiescent states (no snapshot, compaction, delete or write in flight).               *)
EXTENDS TSMEngine

CONSTANTS MaxBackups,               \* bound on Backup + Export steps
          StopAfterBackup,          \* TRUE: a history ends with its last Backup / Export (generation configs)
          SinceChoices,             \* "all": since \in 0..clock; "ends": since \in {0, clock - 1}
          RestoreKeepsTombstones, ExportWholeBlocks, ExportTombstoneBug

VARIABLES clock,   \* logical time of the last file change
          fm,      \* sequence aligned with files: [tsm |-> mtime, tomb |-> mtime or 0]
          nb,      \* number of Backup / Export steps
          lastOp   \* result of the last Backup / Export (for the contract invariants)

bvars   == <<clock, fm, nb, lastOp>>
allvars == <<vars, bvars>>
BView   == <<View, bvars>>

NoOp == [kind |-> "none", since |-> 0, lo |-> 0, hi |-> 0, err |-> FALSE, arch |-> {}, restored |-> <<>>, content |-> <<>>]
AllIdle == sj.pc = "idle" /\ cj.pc = "idle" /\ dj.pc = "idle" /\ wj.pc = "idle"

\* ------------------------------------------------------------------ file time ranges
KeyTimes(f, k) == {t \in Times : f.data[k][t] # None}
FileTimes(f)   == UNION {KeyTimes(f, k) : k \in Keys}
MinOf(S) == CHOOSE t \in S : \A u \in S : t <= u
MaxOf(S) == CHOOSE t \in S : \A u \in S : u <= t
\* batchDelete.DeleteRange: the key has a block in the file and the file's time range overlaps the deleted range
TombFileWritten(f, k, lo, hi) == KeyTimes(f, k) # {} /\ MinOf(FileTimes(f)) <= hi /\ MaxOf(FileTimes(f)) >= lo

\* ------------------------------------------------------------------ forced snapshot of the cache (Backup and Export begin with it)
Flush == hot # Empty
FilesAfterFlush == IF Flush THEN Append(files, [gen |-> nextGen, seq |-> 1, data |-> hot, tomb |-> {}]) ELSE files
FmAfterFlush    == IF Flush THEN Append(fm, [tsm |-> clock + 1, tomb |-> 0]) ELSE fm
ForcedSnapshot ==
  /\ files' = FilesAfterFlush /\ fm' = FmAfterFlush
  /\ hot' = Empty
  /\ wal' = IF Flush THEN << <<>> >> ELSE wal          \* segment closed, TSM file committed, closed segments removed
  /\ nextGen' = IF Flush THEN nextGen + 1 ELSE nextGen
  /\ clock' = IF Flush THEN clock + 1 ELSE clock

\* ------------------------------------------------------------------ Backup / Restore
Archive(fs, m, since) == {<<fs[i].gen, fs[i].seq, "tsm">> : i \in {j \in 1..Len(fs) : m[j].tsm > since}}
                         \cup {<<fs[i].gen, fs[i].seq, "tombstone">> : i \in {j \in 1..Len(fs) : m[j].tomb > since}}
\* the files an empty shard holds after the archive was restored into it
RECURSIVE RestoredFiles(_, _, _, _)
RestoredFiles(fs, arch, keepTomb, i) ==
  IF i > Len(fs) THEN <<>>
  ELSE LET rest == RestoredFiles(fs, arch, keepTomb, i + 1)
           f    == fs[i]
       IN IF <<f.gen, f.seq, "tsm">> \in arch
          THEN << [f EXCEPT !.tomb = IF keepTomb /\ <<f.gen, f.seq, "tombstone">> \in arch THEN @ ELSE {}] >> \o rest
          ELSE rest
RestoreVisible(fs, arch, keepTomb) == LET r == RestoredFiles(fs, arch, keepTomb, 1) IN FilesVisible(r, 1, Len(r))

Backup(since) ==
  /\ CanStep /\ nb < MaxBackups /\ AllIdle /\ since \in 0..clock
  /\ SinceChoices = "all" \/ since = 0 \/ since = clock - 1
  /\ ForcedSnapshot
  /\ LET arch == Archive(FilesAfterFlush, FmAfterFlush, since) IN
     /\ lastOp' = [NoOp EXCEPT !.kind = "backup", !.since = since, !.arch = arch,
                               !.restored = PtsOf(RestoreVisible(FilesAfterFlush, arch, RestoreKeepsTombstones))]
     /\ Log([a |-> "Backup", since |-> since, arch |-> arch, clock |-> clock',
             rnotomb |-> PtsOf(RestoreVisible(FilesAfterFlush, arch, FALSE)),     \* what a restore that drops tombstone files shows
             exp |-> Exp(model, wj, dj)])
  /\ nb' = nb + 1
  /\ UNCHANGED <<snap, sj, cj, dj, wj, model, written, dead, nw, ns, nc, nd, nr>>

\* ------------------------------------------------------------------ Export
Restrict(m, lo, hi) == [k \in Keys |-> [t \in Times |-> IF InRange(t, lo, hi) THEN m[k][t] ELSE None]]
Overlaps3(mn, mx, lo, hi) == (mn >= lo /\ mn <= hi /\ mx > hi) \/ (mx >= lo /\ mx <= hi /\ mn < lo) \/ (mn <= lo /\ mx >= hi)
BlockKept(f, k, lo, hi) ==
  KeyTimes(f, k) # {} /\ LET mn == MinOf(KeyTimes(f, k))
                             mx == MaxOf(KeyTimes(f, k))
                         IN (mn >= lo /\ mn <= hi) \/ (mx >= lo /\ mx <= hi) \/ (mn <= lo /\ mx >= hi)
NoData == [t \in Times |-> None]
\* timeStampFilterTarFile on one TSM file
ExportedData(f, lo, hi) ==
  LET mn == MinOf(FileTimes(f))
      mx == MaxOf(FileTimes(f))
  IN IF ~ExportWholeBlocks THEN Restrict(f.data, lo, hi)
     ELSE IF mn >= lo /\ mx <= hi THEN f.data                                          \* entirely inside: streamed as it is
     ELSE IF Overlaps3(mn, mx, lo, hi) THEN [k \in Keys |-> IF BlockKept(f, k, lo, hi) THEN f.data[k] ELSE NoData]
     ELSE Empty
ExportedFiles(fs, lo, hi) == [i \in 1..Len(fs) |-> [fs[i] EXCEPT !.data = ExportedData(fs[i], lo, hi)]]
ExportContent(fs, lo, hi) == FilesVisible(ExportedFiles(fs, lo, hi), 1, Len(fs))
HasTombFile(m) == \E i \in 1..Len(m) : m[i].tomb > 0

Export(lo, hi) ==
  /\ CanStep /\ nb < MaxBackups /\ AllIdle /\ lo <= hi
  /\ ForcedSnapshot
  /\ LET err == ExportTombstoneBug /\ HasTombFile(FmAfterFlush)
         content == PtsOf(ExportContent(FilesAfterFlush, lo, hi)) IN
     /\ lastOp' = [NoOp EXCEPT !.kind = "export", !.lo = lo, !.hi = hi, !.err = err, !.content = IF err THEN <<>> ELSE content]
     /\ Log([a |-> "Export", lo |-> lo, hi |-> hi, tombs |-> HasTombFile(FmAfterFlush), clock |-> clock',
             want |-> PtsOf(Restrict(model, lo, hi)),          \* the contract
             blk  |-> content,                                  \* what the implementation layer (with its quirks) predicts
             exp |-> Exp(model, wj, dj)])
  /\ nb' = nb + 1
  /\ UNCHANGED <<snap, sj, cj, dj, wj, model, written, dead, nw, ns, nc, nd, nr>>

\* ------------------------------------------------------------------ base actions that change files, with their mtimes
Going == ~StopAfterBackup \/ nb < MaxBackups
BSnapReplace ==
  /\ Going /\ SnapReplace
  /\ fm' = Append(fm, [tsm |-> clock + 1, tomb |-> 0]) /\ clock' = clock + 1
  /\ UNCHANGED nb /\ lastOp' = NoOp
BCompactReplace ==
  /\ Going /\ CompactReplace
  /\ fm' = SubSeq(fm, 1, cj.lo - 1) \o (IF cj.out = Empty THEN <<>> ELSE << [tsm |-> clock + 1, tomb |-> 0] >>) \o SubSeq(fm, cj.hi + 1, Len(fm))
  /\ clock' = clock + 1
  /\ UNCHANGED nb /\ lastOp' = NoOp
BDeleteTombstone ==
  /\ Going /\ DeleteTombstone
  /\ LET touched == {i \in 1..Len(files) : TombFileWritten(files[i], dj.k, dj.lo, dj.hi)} IN
     /\ fm' = [i \in 1..Len(fm) |-> IF i \in touched THEN [fm[i] EXCEPT !.tomb = clock + 1] ELSE fm[i]]
     /\ clock' = IF touched = {} THEN clock ELSE clock + 1
  /\ UNCHANGED nb /\ lastOp' = NoOp
Same == Going /\ UNCHANGED <<clock, fm, nb>> /\ lastOp' = NoOp     \* lastOp describes the step just taken only

FileIdx == 1..(MaxSnaps + MaxBackups)
BWrite(b)       == Write(b) /\ Same
BSnapBegin      == SnapBegin /\ Same
BSnapWrite      == SnapWrite /\ Same
BSnapClear      == SnapClear /\ Same
BSnapWALRemove  == SnapWALRemove /\ Same
BCompactStart(lo, hi) == CompactStart(lo, hi) /\ Same
BCompactMerge   == CompactMerge /\ Same
BCompactAbort   == CompactAbort /\ Same
BDeleteCall(k, lo, hi) == DeleteCall(k, lo, hi) /\ Same
BDeleteProceed  == DeleteProceed /\ Same
BDeleteCache    == DeleteCache /\ Same
BDeleteWAL      == DeleteWAL /\ Same
BDeleteAck      == DeleteAck /\ Same
BReopen         == Reopen /\ Same

BInit == Init /\ clock = 0 /\ fm = <<>> /\ nb = 0 /\ lastOp = NoOp

BNext == \/ \E b \in Batches : BWrite(b)
         \/ BSnapBegin \/ BSnapWrite \/ BSnapReplace \/ BSnapClear \/ BSnapWALRemove
         \/ \E lo \in FileIdx, hi \in FileIdx : BCompactStart(lo, hi)
         \/ BCompactMerge \/ BCompactReplace \/ BCompactAbort
         \/ \E k \in Keys, lo \in Times, hi \in Times : BDeleteCall(k, lo, hi)
         \/ BDeleteProceed \/ BDeleteTombstone \/ BDeleteCache \/ BDeleteWAL \/ BDeleteAck
         \/ BReopen
         \/ \E since \in 0..(MaxSnaps + MaxCompacts + MaxDeletes + MaxBackups) : Backup(since)
         \/ \E lo \in Times, hi \in Times : Export(lo, hi)

BSpec == BInit /\ [][BNext]_allvars

\* ------------------------------------------------------------------ contract
RestoreOK == (lastOp.kind = "backup" /\ lastOp.since = 0) => lastOp.restored = PtsOf(model)
BackupComplete ==
  lastOp.kind = "backup" =>
     \A i \in 1..Len(files) : /\ fm[i].tsm > lastOp.since => <<files[i].gen, files[i].seq, "tsm">> \in lastOp.arch
                              /\ fm[i].tomb > lastOp.since => <<files[i].gen, files[i].seq, "tombstone">> \in lastOp.arch
ExportOK == lastOp.kind = "export" => ~lastOp.err /\ lastOp.content = PtsOf(Restrict(model, lastOp.lo, lastOp.hi))

\* ------------------------------------------------------------------ implementation-layer invariants
BTypeOK == /\ TypeOK /\ Len(fm) = Len(files)
           /\ \A i \in 1..Len(fm) : fm[i].tsm \in 1..clock /\ fm[i].tomb \in 0..clock
           /\ \A i \in 1..Len(files) : files[i].tomb # {} => fm[i].tomb > 0       \* masked points imply a tombstone file
BaseInvariants == FilesSorted /\ GenFresh /\ WALMatchesCache /\ VisibleEqualsModel /\ NoResurrection
=============================================================================
