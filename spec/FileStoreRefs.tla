---------------------------- MODULE FileStoreRefs ----------------------------
(* Reader lifetime in the tsm1 FileStore: tsdb/engine/tsm1/file_store.go (FileStore.KeyCursor / locations,           *)
(* KeyCursor.Close, FileStore.replace, purger, FileStore.Close, FileStore.Stats) and reader.go (TSMReader.Ref /      *)
(* Unref / InUse / Close / Rename / Remove).  Extension module XFSREFS (deepens C01 / C39: readers against file     *)
(* replacement).                                                                                                     *)
(*                                                                                                                   *)
(* Implementation layer (what the code keeps):                                                                       *)
(*   files    every TSM file ever created, by number (= the value tag of its points):                                *)
(*            gen, seq   the name %09d-%09d; blocks  (key, slot) pairs it holds (one block each); dead  blocks       *)
(*            masked by its tombstone file;  refs  TSMReader.refs;  onDisk  the data file exists;  tmp  it is named  *)
(*            `.tsm.tmp` (a new file before the rename, an old in-use file after Replace moved it aside);  open  a   *)
(*            TSMReader has it mapped;  inStore  it is in FileStore.files;  pending  the purger holds it;            *)
(*            replaced  a Replace took it out;  tomb  its tombstone file exists                                      *)
(*   flist    FileStore.files (sorted by path)                                                                       *)
(*   cursors  KeyCursors ever opened: key, direction, seek slot, locs = (file, slot) locations it holds one          *)
(*            reference each on, pos = blocks read so far                                                            *)
(*   rp       the Replace in progress: pc idle | renamed (new files renamed and opened, lock not taken) | locked     *)
(*            (write lock held), olds, news, todo = old files not yet processed (in the order of FileStore.files)    *)
(*   stats    FileStore.lastFileStats (<<>> = nil)                                                                   *)
(*   store    open | closing (FileStore.Close swapped the list out and waits in TSMReader.Close for references) |    *)
(*            closed;  closing = the files Close is closing                                                          *)
(* One action per critical section: OpenCursor (fastMu.RLock: locations + Ref), CursorRead (ReadBlock + Next),       *)
(* CursorClose (Unref), RStart / RLock / ROld / RFinish (the four stretches of FileStore.replace between its         *)
(* schedule points replace.afterRename, replace.beforeRemoveOld, replace.afterRemoveOld, replace.afterSyncDir),      *)
(* ReplaceAtomic (a Replace nobody interleaves with), PurgerTick (one scan of the purger goroutine), Stats,          *)
(* CloseBegin / CloseFinish.  While rp.pc = "locked" everything that needs a FileStore lock is disabled.             *)
(* With Fine = FALSE (generation configs) ROld runs to the next point where the real Replace can be parked: the      *)
(* code has a schedule point after an immediate removal but none after moving an in-use file aside.                  *)
(*                                                                                                                   *)
(* Contract layer: `live` (the files the store logically serves: initial files and the new files of finished         *)
(* Replaces, minus their old files), the cursor's `snap` (the blocks the file set at open time gives it).            *)
(*   RefsMatch              refs of a file = locations of open cursors on it (never negative)                        *)
(*   ReferencedFilesUsable  a referenced file is on disk and mapped: a cursor never fails because a file vanished    *)
(*   CursorSnapshot         the remaining reads of every open cursor are those of the file set it was opened on      *)
(*   RemovedOnlyUnreferenced a data file leaves the disk only with refs = 0 and only when no new cursor can get it   *)
(*   StoreFilesUsable       outside the write lock every file in the list is on disk under its name and mapped       *)
(*   ListIsLive             outside the write lock the list is exactly `live`: new cursors see only the new file set  *)
(*   StatsFresh             the cached stats are nil or the current file set                                         *)
(*   Quiescent              no open cursor, no Replace in progress, nothing the purger could do => no replaced       *)
(*                          file is left on disk                                                                     *)
(*   NoStrayTmp             outside a Replace every `.tsm.tmp` on disk is held by the purger                         *)
(* Mut # "none" plants a fault in the model (lead configs: the contract must notice it).  The checking configs run  *)
(* without CursorRead steps (Reads = FALSE): CursorSnapshot compares all remaining reads of every cursor in every     *)
(* state, so positions > 0 add nothing; the generation configs (simulation) record every step with the observation   *)
(* the contract demands after it (dir / maybe = names that must / may exist, list, inuse, rem = remaining reads of    *)
(* each cursor, fin = the directory after quiescence).                                                               *)
(* Deliberate deviations: new files of a Replace with old files are named (max generation of the old files, highest  *)
(* sequence ever used in that generation + 1) so that names stay unique for every choice of old files (the engine    *)
(* compacts whole generations); tombstones exist only on initial files (FileStore.DeleteRange is not modelled: an    *)
(* open cursor sees later deletes, C39).                                                                             *)
EXTENDS Integers, Sequences, FiniteSets, TLC

CONSTANTS Keys, Slots,
          InitMenu,      \* initial layouts (sequences of file specs) the store is opened on
          NewMenu,       \* block sets a new file may hold
          SeekSlots,     \* seek slots OpenCursor may use
          MaxFiles,      \* files ever created
          MaxNew,        \* new files per Replace
          MaxCursors,    \* cursors ever opened
          MaxOpen,       \* cursors open at the same time
          MaxReplaces,   \* Replace calls
          MaxStepwise,   \* of them with other actions in between
          MaxOps,        \* bound on the history length
          Record,        \* TRUE: keep the history (generation configs)
          Fine,          \* TRUE: ROld handles one old file per step (checking configs)
          Reads,         \* FALSE: no CursorRead steps (checking configs: CursorSnapshot speaks about all remaining reads of a
                         \* cursor in every state, so the states with pos = 0 already cover those with pos > 0)
          WithStats,     \* Stats steps allowed
          WithClose,     \* CloseBegin / CloseFinish allowed
          Mut            \* "none" | "noref" | "nounref" | "ignoreinuse" | "noinval" | "nopurge"

VARIABLES files, flist, cursors, rp, stats, store, closing, live, nrep, nstep, steps, hist
vars == <<files, flist, cursors, rp, stats, store, closing, live, nrep, nstep, steps, hist>>

\* ---------------------------------------------------------------- menus
FSpec(g, q, bl, dd) == [gen |-> g, seq |-> q, blocks |-> bl, dead |-> dd]
InitQuick ==
  { <<FSpec(1, 1, {<<"k1", 1>>, <<"k1", 2>>, <<"k2", 1>>}, {}), FSpec(2, 1, {<<"k1", 2>>, <<"k2", 2>>}, {})>>,
    <<FSpec(1, 1, {<<"k1", 1>>, <<"k2", 1>>}, {<<"k2", 1>>}), FSpec(1, 2, {<<"k1", 2>>}, {})>>,
    <<>> }
InitThorough == InitQuick \cup
  { <<FSpec(1, 1, {<<"k1", 1>>, <<"k2", 1>>}, {}), FSpec(1, 2, {<<"k1", 2>>, <<"k2", 3>>}, {}),
      FSpec(2, 1, {<<"k1", 3>>, <<"k1", 1>>}, {<<"k1", 1>>})>>,
    <<FSpec(3, 4, {<<"k1", 1>>, <<"k1", 2>>, <<"k1", 3>>}, {<<"k1", 2>>})>> }
InitFocus == { <<FSpec(1, 1, {<<"k1", 1>>, <<"k1", 2>>, <<"k2", 1>>}, {}), FSpec(2, 1, {<<"k1", 2>>, <<"k2", 2>>}, {})>> }
InitMC    == InitFocus \cup { <<FSpec(1, 1, {<<"k1", 1>>, <<"k2", 1>>}, {<<"k2", 1>>}), FSpec(1, 2, {<<"k1", 1>>, <<"k1", 2>>}, {})>> }
NewFocus  == { {<<"k1", 1>>, <<"k1", 2>>} }
NewQuick    == { {<<"k1", 1>>, <<"k1", 2>>, <<"k2", 1>>}, {<<"k1", 2>>} }
NewThorough == NewQuick \cup { {<<"k1", 3>>, <<"k2", 2>>}, {<<"k2", 1>>, <<"k2", 2>>, <<"k2", 3>>} }

\* ---------------------------------------------------------------- helpers
SetOf(s) == { s[i] : i \in DOMAIN s }
Npts(i) == 1 + (i % 3)                         \* points per block of file i (FirstBlockCount)

MkFile(sp, fresh) ==
  [gen |-> sp.gen, seq |-> sp.seq, blocks |-> sp.blocks, dead |-> sp.dead, refs |-> 0, onDisk |-> TRUE, tmp |-> fresh,
   open |-> ~fresh, inStore |-> ~fresh, pending |-> FALSE, replaced |-> FALSE, tomb |-> sp.dead # {}]

Less(fs, a, b) == fs[a].gen < fs[b].gen \/ (fs[a].gen = fs[b].gen /\ fs[a].seq < fs[b].seq)
MaxOf(fs, S) == CHOOSE x \in S : \A y \in S \ {x} : Less(fs, y, x)
RECURSIVE SortIds(_, _)
SortIds(fs, S) == IF S = {} THEN <<>>
                  ELSE LET m == CHOOSE x \in S : \A y \in S \ {x} : Less(fs, x, y) IN <<m>> \o SortIds(fs, S \ {m})
RECURSIVE SortInts(_, _)
SortInts(S, asc) == IF S = {} THEN <<>>
                    ELSE LET m == CHOOSE x \in S : \A y \in S : IF asc THEN x <= y ELSE x >= y
                         IN <<m>> \o SortInts(S \ {m}, asc)

Visible(f) == f.blocks \ f.dead
\* FileStore.locations over the file set S: one location per visible block of the key on the cursor's side of the seek slot
LocsOf(fs, S, key, t, asc) ==
  { l \in S \X Slots : <<key, l[2]>> \in Visible(fs[l[1]]) /\ (IF asc THEN l[2] >= t ELSE l[2] <= t) }
At(L, s) == { l[1] : l \in { x \in L : x[2] = s } }
\* what a cursor holding the locations L returns, block by block: the slot and the file whose points win (the one with
\* the greatest path among the overlapping blocks)
SnapOf(fs, L, asc) ==
  LET o == SortInts({ l[2] : l \in L }, asc) IN [n \in 1..Len(o) |-> <<o[n], MaxOf(fs, At(L, o[n]))>>]
\* the same through the readers as they are now: tag 0 = the read fails (a block of that slot is no longer mapped)
ImplSnap(fs, L, asc) ==
  LET o == SortInts({ l[2] : l \in L }, asc)
  IN [n \in 1..Len(o) |-> IF \A i \in At(L, o[n]) : fs[i].open /\ fs[i].onDisk
                          THEN <<o[n], MaxOf(fs, At(L, o[n]))>> ELSE <<o[n], 0>>]
Rest(s, pos) == SubSeq(s, pos + 1, Len(s))
Rem(c) == IF c.st = "open" THEN Rest(c.snap, c.pos) ELSE <<>>

Name(f) == <<f.gen, f.seq, IF f.tmp THEN "tsm.tmp" ELSE "tsm">>
Purgeable(f) == f.pending /\ f.refs = 0
\* the directory: names that must exist, and names the free-running purger may already have removed
Dir(fs) == { Name(fs[i]) : i \in { j \in DOMAIN fs : fs[j].onDisk /\ ~Purgeable(fs[j]) } }
           \cup { <<fs[i].gen, fs[i].seq, "tombstone">> : i \in { j \in DOMAIN fs : fs[j].tomb } }
Maybe(fs) == { Name(fs[i]) : i \in { j \in DOMAIN fs : fs[j].onDisk /\ Purgeable(fs[j]) } }
\* what is left once every cursor is closed and the purger has run (meaningful when no Replace is in progress)
Final(fs) == { Name(fs[i]) : i \in { j \in DOMAIN fs : fs[j].onDisk /\ ~fs[j].replaced } }
             \cup { <<fs[i].gen, fs[i].seq, "tombstone">> : i \in { j \in DOMAIN fs : fs[j].tomb } }

Obs(fs, fl, cs, r, sto, clo) ==
  [dir |-> Dir(fs), maybe |-> Maybe(fs), locked |-> r.pc = "locked", idle |-> r.pc = "idle",
   list |-> [n \in 1..Len(fl) |-> <<fs[fl[n]].gen, fs[fl[n]].seq>>],
   inuse |-> { i \in DOMAIN fs : fs[i].refs > 0 },
   rem |-> [c \in 1..Len(cs) |-> Rem(cs[c])],
   fin |-> Final(fs),
   closeBlocked |-> sto = "closing" /\ \E i \in clo : fs[i].refs > 0,
   store |-> sto]

\* ---------------------------------------------------------------- the steps of FileStore.replace as functions
Idle == [pc |-> "idle", olds |-> {}, news |-> {}, todo |-> <<>>]

MaxSet(S) == CHOOSE x \in S : \A y \in S : x >= y
\* names of n new files for a Replace of olds
NewNames(fs, olds, n) ==
  IF olds = {}
  THEN LET g == 1 + MaxSet({0} \cup { fs[i].gen : i \in DOMAIN fs }) IN [j \in 1..n |-> <<g, j>>]
  ELSE LET g == MaxSet({ fs[i].gen : i \in olds })
           q == MaxSet({ fs[i].seq : i \in { j \in DOMAIN fs : fs[j].gen = g } })
       IN [j \in 1..n |-> <<g, q + j>>]
\* the compactor has written the new files as .tsm.tmp
AddNew(fs, olds, bls) ==
  LET nm == NewNames(fs, olds, Len(bls))
  IN fs \o [j \in 1..Len(bls) |-> MkFile(FSpec(nm[j][1], nm[j][2], bls[j], {}), TRUE)]
\* rename to .tsm and open a reader
Renamed(fs, ids) == [i \in DOMAIN fs |-> IF i \in ids THEN [fs[i] EXCEPT !.tmp = FALSE, !.open = TRUE] ELSE fs[i]]
\* one old file under the write lock: moved aside when in use (its tombstone file is removed at once), else closed and removed
ProcessOld(fs, i) ==
  IF fs[i].refs > 0 /\ Mut # "ignoreinuse"
  THEN [fs EXCEPT ![i].tmp = TRUE, ![i].tomb = FALSE, ![i].replaced = TRUE]
  ELSE [fs EXCEPT ![i].onDisk = FALSE, ![i].open = FALSE, ![i].tomb = FALSE, ![i].replaced = TRUE]
RECURSIVE ProcessSeq(_, _)
ProcessSeq(fs, s) == IF s = <<>> THEN fs ELSE ProcessSeq(ProcessOld(fs, Head(s)), Tail(s))
\* purger.add, the list swap
Finish(fs, olds, news) ==
  [i \in DOMAIN fs |-> IF i \in olds THEN [fs[i] EXCEPT !.inStore = FALSE, !.pending = fs[i].onDisk /\ Mut # "nopurge"]
                       ELSE IF i \in news THEN [fs[i] EXCEPT !.inStore = TRUE] ELSE fs[i]]
\* how many old files the next ROld step handles
Stride(fs, todo) ==
  IF Fine THEN 1
  ELSE LET busy == { n \in 1..Len(todo) : \A m \in 1..n : fs[todo[m]].refs > 0 /\ Mut # "ignoreinuse" }
           k == Cardinality(busy)
       IN IF k < Len(todo) THEN k + 1 ELSE k

\* ---------------------------------------------------------------- behaviour
Init == /\ \E lay \in InitMenu :
             /\ files = [i \in 1..Len(lay) |-> MkFile(lay[i], FALSE)]
             /\ flist = SortIds([i \in 1..Len(lay) |-> MkFile(lay[i], FALSE)], 1..Len(lay))
             /\ live = 1..Len(lay)
        /\ cursors = <<>> /\ rp = Idle /\ stats = <<>> /\ store = "open" /\ closing = {}
        /\ nrep = 0 /\ nstep = 0 /\ steps = 0 /\ hist = <<>>

Budget == steps < MaxOps
Unlocked == rp.pc # "locked"
Log(rec) == /\ steps' = steps + 1
            /\ hist' = IF Record THEN Append(hist, rec) ELSE hist
OpenCount == Cardinality({ c \in DOMAIN cursors : cursors[c].st = "open" })

OpenCursor(key, t, asc) ==
  /\ Budget /\ Unlocked /\ Len(cursors) < MaxCursors /\ OpenCount < MaxOpen
  /\ LET L  == LocsOf(files, SetOf(flist), key, t, asc)
         fs == [i \in DOMAIN files |->
                  [files[i] EXCEPT !.refs = @ + (IF Mut = "noref" THEN 0 ELSE Cardinality({ l \in L : l[1] = i }))]]
         cs == Append(cursors, [key |-> key, asc |-> asc, t |-> t, locs |-> L, pos |-> 0, st |-> "open",
                                snap |-> SnapOf(files, LocsOf(files, live, key, t, asc), asc)])
     IN /\ files' = fs /\ cursors' = cs
        /\ UNCHANGED <<flist, rp, stats, store, closing, live, nrep, nstep>>
        /\ Log([a |-> "open", c |-> Len(cs), key |-> key, t |-> t, asc |-> asc,
                exp |-> Obs(fs, flist, cs, rp, store, closing)])

\* ReadBlock + Next; one more read after the last block returns no values
CursorRead(c) ==
  /\ Budget /\ Reads /\ c \in DOMAIN cursors /\ cursors[c].st = "open" /\ cursors[c].pos <= Len(cursors[c].snap)
  /\ LET cu == cursors[c]
         cs == [cursors EXCEPT ![c].pos = @ + 1]
     IN /\ cursors' = cs
        /\ UNCHANGED <<files, flist, rp, stats, store, closing, live, nrep, nstep>>
        /\ Log([a |-> "read", c |-> c, res |-> IF cu.pos < Len(cu.snap) THEN cu.snap[cu.pos + 1] ELSE <<0, 0>>,
                exp |-> Obs(files, flist, cs, rp, store, closing)])

CursorClose(c) ==
  /\ Budget /\ c \in DOMAIN cursors /\ cursors[c].st = "open"
  /\ LET L  == cursors[c].locs
         fs == [i \in DOMAIN files |->
                  [files[i] EXCEPT !.refs = @ - (IF Mut \in {"nounref", "noref"} THEN 0 ELSE Cardinality({ l \in L : l[1] = i }))]]
         cs == [cursors EXCEPT ![c].st = "closed", ![c].locs = {}, ![c].snap = <<>>, ![c].pos = 0]
     IN /\ files' = fs /\ cursors' = cs
        /\ UNCHANGED <<flist, rp, stats, store, closing, live, nrep, nstep>>
        /\ Log([a |-> "cclose", c |-> c, exp |-> Obs(fs, flist, cs, rp, store, closing)])

\* the choices of a Replace: old files from the list; new files from the menu, or (the sentinel <<{}>>) one file holding
\* the visible blocks of the old files, as a compaction writes it
MenuSeqs == UNION { [1..n -> NewMenu] : n \in 0..MaxNew } \cup { <<{}>> }
Merged(olds) == UNION { Visible(files[i]) : i \in olds }
Blocks(olds, ch) == IF ch = <<{}>> THEN << Merged(olds) >> ELSE ch
ChoiceOK(olds, ch) == ch = <<{}>> => (olds # {} /\ Merged(olds) # {})
ReplaceOK(olds, bls) ==
  /\ rp.pc = "idle" /\ store = "open" /\ nrep < MaxReplaces
  /\ olds \subseteq SetOf(flist) /\ (olds # {} \/ bls # <<>>)
  /\ Len(files) + Len(bls) <= MaxFiles

Swap(fs, olds, news) ==
  [fl |-> SortIds(fs, (SetOf(flist) \ olds) \cup news), lv |-> (live \ olds) \cup news,
   st |-> IF Mut = "noinval" THEN stats ELSE <<>>]

\* a Replace that nothing interleaves with
ReplaceAtomic(olds, ch) ==
  /\ Budget /\ olds \subseteq DOMAIN files /\ ChoiceOK(olds, ch) /\ ReplaceOK(olds, Blocks(olds, ch))
  /\ LET bls  == Blocks(olds, ch)
         news == { Len(files) + j : j \in 1..Len(bls) }
         f1   == Renamed(AddNew(files, olds, bls), news)
         todo == SelectSeq(flist, LAMBDA i : i \in olds)
         f2   == Finish(ProcessSeq(f1, todo), olds, news)
         sw   == Swap(f2, olds, news)
     IN /\ files' = f2 /\ flist' = sw.fl /\ live' = sw.lv /\ stats' = sw.st /\ nrep' = nrep + 1
        /\ UNCHANGED <<cursors, rp, store, closing, nstep>>
        /\ Log([a |-> "replace", olds |-> todo, news |-> news,
                deferred |-> { i \in olds : f2[i].onDisk },
                exp |-> Obs(f2, sw.fl, cursors, rp, store, closing)])

\* the same in its steps.  RStart: the new files exist as .tsm.tmp, Replace renames them and opens readers
RStart(olds, ch) ==
  /\ Budget /\ olds \subseteq DOMAIN files /\ ChoiceOK(olds, ch) /\ ReplaceOK(olds, Blocks(olds, ch)) /\ nstep < MaxStepwise
  /\ LET bls  == Blocks(olds, ch)
         news == { Len(files) + j : j \in 1..Len(bls) }
         f1   == Renamed(AddNew(files, olds, bls), news)
         r    == [pc |-> "renamed", olds |-> olds, news |-> news, todo |-> SelectSeq(flist, LAMBDA i : i \in olds)]
     IN /\ files' = f1 /\ rp' = r /\ nrep' = nrep + 1 /\ nstep' = nstep + 1
        /\ UNCHANGED <<flist, cursors, stats, store, closing, live>>
        /\ Log([a |-> "rstart", olds |-> r.todo, news |-> news, exp |-> Obs(f1, flist, cursors, r, store, closing)])

\* wlock
RLock ==
  /\ Budget /\ rp.pc = "renamed"
  /\ LET r == [rp EXCEPT !.pc = "locked"]
     IN /\ rp' = r
        /\ UNCHANGED <<files, flist, cursors, stats, store, closing, live, nrep, nstep>>
        /\ Log([a |-> "rlock", exp |-> Obs(files, flist, cursors, r, store, closing)])

\* the loop over the old files, up to the next point the real Replace can be parked at
ROld ==
  /\ Budget /\ rp.pc = "locked" /\ rp.todo # <<>>
  /\ LET n    == Stride(files, rp.todo)
         part == SubSeq(rp.todo, 1, n)
         f1   == ProcessSeq(files, part)
         r    == [rp EXCEPT !.todo = SubSeq(@, n + 1, Len(@))]
     IN /\ files' = f1 /\ rp' = r
        /\ UNCHANGED <<flist, cursors, stats, store, closing, live, nrep, nstep>>
        /\ Log([a |-> "rold", done |-> [m \in 1..n |-> <<part[m], ~f1[part[m]].onDisk>>], last |-> r.todo = <<>>,
                exp |-> Obs(f1, flist, cursors, r, store, closing)])

\* SyncDir, purger.add, lastFileStats = nil, files = active, wunlock
RFinish ==
  /\ Budget /\ rp.pc = "locked" /\ rp.todo = <<>>
  /\ LET f2 == Finish(files, rp.olds, rp.news)
         sw == Swap(f2, rp.olds, rp.news)
     IN /\ files' = f2 /\ flist' = sw.fl /\ live' = sw.lv /\ stats' = sw.st /\ rp' = Idle
        /\ UNCHANGED <<cursors, store, closing, nrep, nstep>>
        /\ Log([a |-> "rfinish", deferred |-> { i \in rp.olds : f2[i].onDisk },
                exp |-> Obs(f2, sw.fl, cursors, Idle, store, closing)])

\* one scan of the purger: every held file that is not in use is closed and removed
PurgerTick ==
  /\ Budget /\ \E i \in DOMAIN files : Purgeable(files[i])
  /\ LET fs == [i \in DOMAIN files |-> IF Purgeable(files[i])
                                       THEN [files[i] EXCEPT !.onDisk = FALSE, !.open = FALSE, !.pending = FALSE]
                                       ELSE files[i]]
     IN /\ files' = fs
        /\ UNCHANGED <<flist, cursors, rp, stats, store, closing, live, nrep, nstep>>
        /\ Log([a |-> "tick", gone |-> { i \in DOMAIN files : Purgeable(files[i]) },
                exp |-> Obs(fs, flist, cursors, rp, store, closing)])

\* FileStore.Stats: the cached slice when it is not empty, else computed from the list and cached
StatRec(fs, i) == [gen |-> fs[i].gen, seq |-> fs[i].seq, tomb |-> fs[i].tomb, fbc |-> Npts(i)]
Stats ==
  /\ Budget /\ WithStats /\ Unlocked
  /\ LET res  == IF stats # <<>> THEN stats ELSE flist
         want == SortIds(files, live)
     IN /\ stats' = res
        /\ UNCHANGED <<files, flist, cursors, rp, store, closing, live, nrep, nstep>>
        /\ Log([a |-> "stats", res |-> [n \in 1..Len(want) |-> StatRec(files, want[n])],
                exp |-> Obs(files, flist, cursors, rp, store, closing)])

\* FileStore.Close: the list is swapped out under the lock ...
CloseBegin ==
  /\ Budget /\ WithClose /\ rp.pc = "idle" /\ store = "open"
  /\ LET fs == [i \in DOMAIN files |-> IF i \in SetOf(flist) THEN [files[i] EXCEPT !.inStore = FALSE] ELSE files[i]]
     IN /\ files' = fs /\ flist' = <<>> /\ stats' = <<>> /\ live' = {} /\ store' = "closing" /\ closing' = SetOf(flist)
        /\ UNCHANGED <<cursors, rp, nrep, nstep>>
        /\ Log([a |-> "closebegin", exp |-> Obs(fs, <<>>, cursors, rp, "closing", SetOf(flist))])
\* ... then every reader is closed; TSMReader.Close waits until the reader has no references
CloseFinish ==
  /\ Budget /\ store = "closing" /\ \A i \in closing : files[i].refs = 0
  /\ LET fs == [i \in DOMAIN files |-> IF i \in closing THEN [files[i] EXCEPT !.open = FALSE] ELSE files[i]]
     IN /\ files' = fs /\ store' = "closed" /\ closing' = {}
        /\ UNCHANGED <<flist, cursors, rp, stats, live, nrep, nstep>>
        /\ Log([a |-> "closefinish", exp |-> Obs(fs, flist, cursors, rp, "closed", {})])

Next == \/ \E key \in Keys : \E t \in SeekSlots : \E asc \in BOOLEAN : OpenCursor(key, t, asc)
        \/ \E c \in 1..MaxCursors : CursorRead(c)
        \/ \E c \in 1..MaxCursors : CursorClose(c)
        \/ \E olds \in SUBSET (1..MaxFiles) : \E ch \in MenuSeqs : ReplaceAtomic(olds, ch)
        \/ \E olds \in SUBSET (1..MaxFiles) : \E ch \in MenuSeqs : RStart(olds, ch)
        \/ RLock
        \/ ROld
        \/ RFinish
        \/ PurgerTick
        \/ Stats
        \/ CloseBegin
        \/ CloseFinish

Spec == Init /\ [][Next]_vars

\* ---------------------------------------------------------------- contract
OpenCursors == { c \in DOMAIN cursors : cursors[c].st = "open" }
RefCount(i) == LET F[S \in SUBSET OpenCursors] ==
                     IF S = {} THEN 0
                     ELSE LET c == CHOOSE x \in S : TRUE
                          IN Cardinality({ l \in cursors[c].locs : l[1] = i }) + F[S \ {c}]
               IN F[OpenCursors]
RefsMatch == \A i \in DOMAIN files : files[i].refs >= 0 /\ files[i].refs = RefCount(i)
ReferencedFilesUsable ==
  \A c \in OpenCursors : \A l \in cursors[c].locs : files[l[1]].onDisk /\ files[l[1]].open
CursorSnapshot ==
  \A c \in OpenCursors : LET cu == cursors[c] IN Rest(ImplSnap(files, cu.locs, cu.asc), cu.pos) = Rest(cu.snap, cu.pos)
RemovedOnlyUnreferenced ==
  [][\A i \in DOMAIN files :
        (files[i].onDisk /\ ~files'[i].onDisk) =>
            /\ files[i].refs = 0
            /\ i \notin SetOf(flist') \/ (rp'.pc = "locked" /\ i \in rp'.olds)]_vars
StoreFilesUsable ==
  Unlocked => \A i \in SetOf(flist) : files[i].onDisk /\ files[i].open /\ ~files[i].tmp /\ files[i].inStore
ListIsLive == Unlocked => flist = SortIds(files, live)
StatsFresh == Unlocked => (stats = <<>> \/ stats = SortIds(files, live))
Quiescent ==
  (OpenCursors = {} /\ rp.pc = "idle" /\ ~\E i \in DOMAIN files : Purgeable(files[i]))
     => \A i \in DOMAIN files : files[i].replaced => ~files[i].onDisk
NoStrayTmp == rp.pc = "idle" => \A i \in DOMAIN files : (files[i].onDisk /\ files[i].tmp) => files[i].pending
TombstoneFollowsFile == \A i \in DOMAIN files : files[i].tomb => (files[i].onDisk /\ ~files[i].tmp)
NamesUnique == \A i, j \in DOMAIN files :
                  (i # j /\ files[i].onDisk /\ files[j].onDisk) => Name(files[i]) # Name(files[j])
TypeOK == /\ rp.pc \in {"idle", "renamed", "locked"} /\ store \in {"open", "closing", "closed"}
          /\ Len(files) <= MaxFiles /\ Len(cursors) <= MaxCursors
          /\ \A i \in DOMAIN files : files[i].pending => (~files[i].inStore /\ files[i].onDisk /\ files[i].tmp)

View == <<files, flist, cursors, rp, stats, store, closing, live, nrep, nstep>>
=============================================================================
