SPECIFICATION Spec
CONSTANTS
  Keys = {"k1", "k2"}
  Times = {1, 2, 3}
  SegSize = 4
  Menu <- MenuQuick
  MaxOps = 7
  MaxEntries = 4
  MaxPending = 2
  HoleQuirk = FALSE
  Record = FALSE
INVARIANTS TypeOK ReplayEqualsAcked AckedBeforeGarbage CurrentSegmentKept IdsSorted WriterOnLast NoEntrySpansSegments RollBound PendingAreUnacked
PROPERTIES RemovedOnlyClosed SegmentIdsIncrease
VIEW View
CHECK_DEADLOCK FALSE
