SPECIFICATION Spec
CONSTANTS
  SeriesIdx = {1, 2, 3, 4, 6}
  Patterns = {{}, {1, 3}, {4, 6}, {2, 3, 4, 5}}
  RangeIdx = {1, 2, 3, 4}
  PredIdx = {1, 2, 3, 4, 5, 6, 7, 8, 9, 10, 11, 12}
  H = 4
INVARIANTS FilterContract GroupContract Partition
CHECK_DEADLOCK FALSE
