\* C21 quick (the check generates the same text: checks/C21.py cfg_text)
SPECIFICATION Spec
CONSTANTS
  SeriesIdx = {1, 2, 3, 6}
  Patterns = {{}, {1, 3}, {4, 6}, {2, 3, 4, 5}}
  RangeIdx = {1, 2, 3, 4}
  PredIdx = {1, 2, 3, 4, 5, 6, 7, 8, 9, 10, 11, 12}
  H = 4
  NShards = 2
INVARIANTS FilterContract GroupContract Partition
CHECK_DEADLOCK FALSE
