SPECIFICATION Spec
CONSTANTS
  Family = "snapshot"
  NTs = 3
  NFiles = 1
  NKeys = 2
  MaxBlocks = 2
  TombMode = "none"
  KeyMode = "full"
  MaxLen = 4
  PPBs <- PPBSmall
  NPicks = 0
  PickAt <- NoPick
INVARIANTS SnapshotLemmas
CHECK_DEADLOCK FALSE
