SPECIFICATION Spec
CONSTANTS
  Family = "arrays"
  NTs = 6
  NFiles = 1
  NKeys = 1
  MaxBlocks = 1
  TombMode = "none"
  KeyMode = "full"
  MaxLen = 5
  PPBs <- PPBSmall
  NPicks = 0
  PickAt <- NoPick
INVARIANTS ArraysImplIsContract ArrayLemmas
CHECK_DEADLOCK FALSE
