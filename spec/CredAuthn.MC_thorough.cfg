SPECIFICATION Spec
CONSTANTS
  Users = {1, 2}
  MaxT = 3
  MaxOps = 8
  Renewals = {TRUE, FALSE}
  SessLens = {"short", "long"}
  Forms = {"none", "token", "bearer", "phc", "basic", "jwt"}
  Mgmt = {"token", "user", "session"}
PROPERTIES OnlyCurrentAuthenticates SessionStillUnexpired NeverForInactiveUser UnknownNeverHeld CurrentIsHeld CurrentAuthenticates TokenGoodIffActiveAtBegin
VIEW View
CHECK_DEADLOCK FALSE
