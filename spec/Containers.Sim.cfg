SPECIFICATION Spec
CONSTANTS
  Kinds = {"rhh", "bloom", "radix", "idset"}
  MaxRhh = 8
  MaxBloom = 8
  MaxRadix = 8
  MaxIdset = 8
INVARIANTS TypeOK RhhLastWriteWins RadixOrder IdsetAlgebra
CHECK_DEADLOCK FALSE
