\* Lead: with Restamp Walk on a complete index visits a record of another foreign key (known finding stale_index_entry_invisible).  The counterexample is replayed on the real kv.Index and counts only if it reproduces there.  Run with one worker: the shortest counterexample.
SPECIFICATION Spec
CONSTANTS
  FKs = {"f1", "f2"}
  Rs = {"p1", "p2"}
  Tied = FALSE
  Urm = FALSE
  BadFKs = {}
  BadPKs = {}
  Atomic = TRUE
  Restamp = TRUE
  WithAbort = FALSE
  MaxOps = 4
  Record = TRUE
  Probing = TRUE
  NoOpSteps = FALSE
INVARIANTS InvP_Walk
VIEW View
CHECK_DEADLOCK FALSE
