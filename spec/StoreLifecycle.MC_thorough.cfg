SPECIFICATION Spec
CONSTANTS
  DBs = {d1, d2}
  RPs = {r1, r2}
  IDs = {i1, i2, i3}
  Series = {s1, s2, s3}
  Times = {t1, t2}
  MaxOps = 8
  MaxWrites = 5
  MaxNoops = 8
SYMMETRY Sym
INVARIANTS TypeOK ShardIdUnique SeriesFileCovers SeriesFileExact IdsInjective LayoutConsistent
PROPERTIES DeleteShardContract DeleteDatabaseContract DeleteRPContract ReopenPreserves FailedCallsChangeNothing WriteRefusal
VIEW View
CHECK_DEADLOCK FALSE
