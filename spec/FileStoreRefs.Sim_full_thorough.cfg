SPECIFICATION Spec
CONSTANTS
  Keys = {"k1", "k2"}
  Slots = {1, 2, 3}
  InitMenu <- InitThorough
  NewMenu <- NewThorough
  SeekSlots = {1, 2, 3}
  MaxFiles = 7
  MaxNew = 2
  MaxCursors = 4
  MaxOpen = 3
  MaxReplaces = 4
  MaxStepwise = 2
  MaxOps = 18
  Record = TRUE
  Fine = FALSE
  Reads = TRUE
  WithStats = TRUE
  WithClose = TRUE
  Mut = "none"
INVARIANTS TypeOK RefsMatch CursorSnapshot
CHECK_DEADLOCK FALSE
