SPECIFICATION Spec
CONSTANTS
  Keys = {"k1", "k2"}
  Slots = {1, 2}
  InitMenu <- InitMC
  NewMenu <- NewFocus
  SeekSlots = {1, 2}
  MaxFiles = 4
  MaxNew = 1
  MaxCursors = 3
  MaxOpen = 2
  MaxReplaces = 2
  MaxStepwise = 1
  MaxOps = 12
  Record = TRUE
  Fine = FALSE
  Reads = TRUE
  WithStats = FALSE
  WithClose = FALSE
  Mut = "none"
INVARIANTS TypeOK RefsMatch CursorSnapshot
CHECK_DEADLOCK FALSE
