SPECIFICATION Spec
CONSTANTS
  Tasks = {1, 2}
  NW = 2
  Profiles <- ProfilesMCQuick
  Backs = {0, 2}
  MaxTime = 3
  MaxSched = 2
  MaxOps = 0
  NegReset = FALSE
  RefreshOnRemove = TRUE
  Discipline = FALSE
  Record = FALSE
INVARIANTS TypeOK OncePerDueTime NoSelfConcurrency WorkerOfClass NoDispatchAfterRelease AtRest NoSpin

CHECK_DEADLOCK FALSE
