---------------------------- MODULE ReplManager ----------------------------
(* XREPLMGR - extension module (deepens C27): the replication durable-queue manager,                              *)
(* replications/internal/queue_management.go (durableQueueManager) as used by replications/service.go.            *)
(*                                                                                                                *)
(* Durable state:  tracked  the sqlite store of replications (abstract): id -> recorded max queue size (0 = none) *)
(*                 disk     the replicationq directory: id -> [ex, segs]; a queue directory holds segments        *)
(*                          [blocks, adv] (queue contract of DurableQueue.tla / Replication.tla: blocks come out  *)
(*                          in append order, the head moves only by Advance/trim)                                 *)
(* Volatile state: phase    "up" (a manager whose StartReplicationQueues has run) | "down" (no process)           *)
(*                 mgr      the manager map: id -> [open, max, tot, held]; open = map entry + open queue + run()  *)
(*                          goroutine; tot = the queue's SharedCount; held = the goroutine has a request for the  *)
(*                          remote outstanding (the remote of this module holds every request until Deliver)      *)
(*                                                                                                                *)
(* Implementation layer (one action per manager call; the two halves of a service call are separate actions so    *)
(* that a shutdown or crash can fall between them):                                                               *)
(*   Init(i,n)      InitializeQueue: duplicate check, MkdirAll, NewQueue (max >= 2 x segment size), Open, map     *)
(*                  entry, goroutine (service.CreateReplication, first half)                                      *)
(*   Track(i)       store.CreateReplication (second half)                                                         *)
(*   Untrack(i)     store.DeleteReplication (service.DeleteReplication, first half)                               *)
(*   Delete(i)      DeleteQueue: Close (goroutine stopped), Remove (directory), map entry (second half)           *)
(*   StoreSet(i,n)  store.UpdateReplication (service.UpdateReplication, first half)                               *)
(*   Update(i,n)    UpdateMaxQueueSize -> Queue.SetMaxSize (second half)                                          *)
(*   Enq(i,L)       EnqueueData: Queue.Append (ErrQueueFull on SharedCount + len > max; segment roll-over),       *)
(*                  non-blocking notify on `receive` -> the goroutine runs SendWrite and posts the head batch     *)
(*   Deliver(i)     the remote accepts everything the goroutine of i sends: run() drains the queue segment by     *)
(*                  segment (scanner Advance at the end of each segment, trimHead)                                *)
(*   CloseAll       shutdown;   Crash  the process dies (memory lost, disk kept)                                  *)
(*   Start          new manager + StartReplicationQueues(tracked): opens the queue of every tracked id           *)
(*                  (directory recreated if missing), then removes the id-named directories that are not in the   *)
(*                  map; a tracked max size below the minimum makes it return errStartup BEFORE the cleanup       *)
(* Contract layer: want (batches acknowledged by Enq and neither delivered nor deleted), the results of the       *)
(* calls, which directories exist, which ids answer CurrentQueueSizes/RemainingQueueSizes and with what.          *)
(*                                                                                                                *)
(* Deliberate deviations / quirks modelled as found (named):                                                      *)
(*  (1) InitLeavesDir: InitializeQueue creates the directory before NewQueue validates the size, so a refused     *)
(*      (too small) InitializeQueue leaves an empty directory behind (removed by the next Start: it is untracked) *)
(*  (2) KickOnOpen: FALSE = as found: run() called SendWrite only on `receive` or on the retry timer, so batches   *)
(*      found on disk by Start were not forwarded until the next local write for that replication                 *)
(*      (NoStrandedBatch fails: Lead_strand config; reproduced on the real code).  TRUE = repaired in /repo:      *)
(*      run() makes one pass over the queue when the goroutine starts.                                            *)
(*  (3) Deliver is one step (the partial states of a drain are Replication.tla's subject, C27).                   *)
(*  (4) Torn appends are DurableQueue.tla's subject (C26): Crash falls between calls.                             *)
EXTENDS Integers, Sequences, FiniteSets, TLC

CONSTANTS Ids,           \* replication ids (model strings)
          Lens,          \* batch lengths in bytes
          MaxSizes,      \* explored max queue sizes in bytes (some below 2 x SegMax)
          SegMax,        \* durablequeue.DefaultSegmentSize
          MaxBatches,    \* batches 1..MaxBatches, numbered in enqueue order
          MaxOps,        \* bound on Len(hist) (generation configs)
          Menu,          \* names of the actions enabled in this config
          Prefix,        \* generation configs: names of the first actions of every history (<<>> = free)
          Refusals,      \* result classes of refused calls that this config generates (all of them in checking configs)
          KickOnOpen,    \* see (2)
          InitLeavesDir, \* see (1)
          Record         \* keep hist (generation configs)

\* values for Prefix (a cfg file cannot write a sequence)
NoPrefix == <<>>
PrefixInitTrack == <<"init", "track">>
PrefixTwoQueues == <<"init", "track", "enq", "init", "enq">>

VARIABLES tracked, disk, phase, mgr, nextB, want, hist
vars == <<tracked, disk, phase, mgr, nextB, want, hist>>

Footer == 8
MinMax == 2 * SegMax
NoQ == [open |-> FALSE, max |-> 0, tot |-> 0, held |-> FALSE]
NoD == [ex |-> FALSE, segs |-> <<>>]
Fresh == [blocks |-> <<>>, adv |-> 0, cap |-> SegMax]      \* cap = segment.maxSize (in memory, recomputed by every open)

\* ------------------------------------------------------------------ the queue (record level)
RECURSIVE SumBlocks(_)
SumBlocks(bs) == IF bs = <<>> THEN 0 ELSE 8 + Head(bs).len + SumBlocks(Tail(bs))
SegSize(s) == Footer + SumBlocks(s.blocks)                           \* segment.size = file size
SegRem(s)  == SumBlocks(SubSeq(s.blocks, s.adv + 1, Len(s.blocks)))  \* segment.totalBytes
EmptySeg(s) == s.adv = Len(s.blocks)                                 \* segment.empty
FullSeg(s)  == SegSize(s) >= s.cap                                   \* segment.full
MaxOf(a, b) == IF a > b THEN a ELSE b
RECURSIVE DiskUsage(_)
DiskUsage(ss) == IF ss = <<>> THEN 0 ELSE SegSize(Head(ss)) + DiskUsage(Tail(ss))
RECURSIVE Remaining(_)
Remaining(ss) == IF ss = <<>> THEN 0 ELSE SegRem(Head(ss)) + Remaining(Tail(ss))
RECURSIVE Pending(_)
Pending(ss) == IF ss = <<>> THEN <<>>
               ELSE SubSeq(Head(ss).blocks, Head(ss).adv + 1, Len(Head(ss).blocks)) \o Pending(Tail(ss))
Nums(bs) == [k \in 1..Len(bs) |-> bs[k].b]

\* Queue.Open on the segment files found: empty segments are removed, a segment is added if none is left;
\* a segment file larger than the segment size gets its own size as limit (newSegment), so a reopened over-full tail
\* takes one more block; the SharedCount gets DiskUsage unless the head is at EOF (then Open returns through trimHead
\* without adding)
OpenQ(ss) ==
  LET s0 == SelectSeq(ss, LAMBDA s : ~EmptySeg(s))
      s1 == [k \in 1..Len(s0) |-> [s0[k] EXCEPT !.cap = MaxOf(SegMax, SegSize(s0[k]))]]
      s2 == IF s1 = <<>> THEN <<Fresh>> ELSE s1
  IN [segs |-> s2, tot |-> IF EmptySeg(s2[1]) THEN 0 ELSE DiskUsage(s2)]

\* Queue.Append (size check passed): the tail refuses when its size exceeds its limit => new segment; a block longer
\* than the limit raises the limit of the segment that takes it
AppendTo(ss, blk) ==
  IF SegSize(ss[Len(ss)]) > ss[Len(ss)].cap
  THEN Append(ss, [blocks |-> <<blk>>, adv |-> 0, cap |-> MaxOf(SegMax, blk.len)])
  ELSE [ss EXCEPT ![Len(ss)].blocks = Append(@, blk), ![Len(ss)].cap = MaxOf(@, blk.len)]

\* run(): SendWrite scans the head segment to its end and advances (trimHead), and is called again while it
\* returns (0, true), i.e. until NewScanner reports EOF
RECURSIVE Drain(_, _)
Drain(ss, tot) ==
  IF EmptySeg(ss[1]) THEN [segs |-> ss, tot |-> tot]
  ELSE LET s1 == [ss EXCEPT ![1].adv = Len(ss[1].blocks)]
           s2 == IF Len(s1) = 1 /\ FullSeg(s1[1]) THEN Append(s1, Fresh) ELSE s1
       IN IF Len(s2) > 1 THEN Drain(Tail(s2), tot - SegSize(s2[1])) ELSE [segs |-> s2, tot |-> tot]

\* ------------------------------------------------------------------ observation (contract level)
Tracked == {i \in Ids : tracked[i] # 0}
OpenIds(m) == {i \in Ids : m[i].open}
Obs(d, p, m) ==
  [up   |-> p = "up",
   dirs |-> {i \in Ids : d[i].ex},
   pend |-> [i \in Ids |-> Nums(Pending(d[i].segs))],
   open |-> OpenIds(m),
   cur  |-> [i \in Ids |-> IF m[i].open THEN DiskUsage(d[i].segs) ELSE -1],    \* CurrentQueueSizes
   rem  |-> [i \in Ids |-> IF m[i].open THEN Remaining(d[i].segs) ELSE -1],    \* RemainingQueueSizes
   held |-> {i \in Ids : m[i].held}]
Log(rec) == hist' = IF Record THEN Append(hist, rec) ELSE hist
Can(a) == /\ a \in Menu
          /\ Record => Len(hist) < MaxOps
          /\ Len(hist) < Len(Prefix) => a = Prefix[Len(hist) + 1]
May(r) == r = "ok" \/ r \in Refusals
Up == phase = "up"
Rec(a, i, n, r, sent, d, p, m) == [a |-> a, id |-> i, n |-> n, res |-> r, sent |-> sent, exp |-> Obs(d, p, m)]

Init == /\ tracked = [i \in Ids |-> 0]
        /\ disk = [i \in Ids |-> NoD]
        /\ phase = "up"                 \* a server that has started on an empty replicationq directory
        /\ mgr = [i \in Ids |-> NoQ]
        /\ nextB = 1
        /\ want = [i \in Ids |-> <<>>]
        /\ hist = <<>>

\* ------------------------------------------------------------------ manager calls
InitRes(i, n) == IF mgr[i].open THEN "exists" ELSE IF n < MinMax THEN "toosmall" ELSE "ok"
DoInit(i, n) ==
  /\ Up /\ Can("init") /\ May(InitRes(i, n))
  /\ LET r  == InitRes(i, n)
         o  == OpenQ(disk[i].segs)
         d1 == IF r = "ok" THEN [disk EXCEPT ![i] = [ex |-> TRUE, segs |-> o.segs]]
               ELSE IF r = "toosmall" /\ InitLeavesDir /\ ~disk[i].ex THEN [disk EXCEPT ![i] = [ex |-> TRUE, segs |-> <<>>]]
               ELSE disk
         m1 == IF r = "ok"
               THEN [mgr EXCEPT ![i] = [open |-> TRUE, max |-> n, tot |-> o.tot,
                                        held |-> KickOnOpen /\ Pending(o.segs) # <<>>]]
               ELSE mgr
     IN /\ disk' = d1 /\ mgr' = m1
        /\ Log(Rec("init", i, n, r, <<>>, d1, phase, m1))
  /\ UNCHANGED <<tracked, phase, nextB, want>>

DeleteRes(i) == IF mgr[i].open THEN "ok" ELSE "notfound"
DoDelete(i) ==
  /\ Up /\ Can("delete") /\ May(DeleteRes(i))
  /\ LET r  == DeleteRes(i)
         d1 == IF r = "ok" THEN [disk EXCEPT ![i] = NoD] ELSE disk
         m1 == IF r = "ok" THEN [mgr EXCEPT ![i] = NoQ] ELSE mgr
     IN /\ disk' = d1 /\ mgr' = m1
        /\ want' = IF r = "ok" THEN [want EXCEPT ![i] = <<>>] ELSE want
        /\ Log(Rec("delete", i, 0, r, <<>>, d1, phase, m1))
  /\ UNCHANGED <<tracked, phase, nextB>>

UpdateRes(i, n) == IF ~mgr[i].open THEN "notfound" ELSE IF n < MinMax THEN "toosmall" ELSE "ok"
DoUpdate(i, n) ==
  /\ Up /\ Can("update") /\ May(UpdateRes(i, n))
  /\ LET r  == UpdateRes(i, n)
         m1 == IF r = "ok" THEN [mgr EXCEPT ![i].max = n] ELSE mgr
     IN /\ mgr' = m1
        /\ Log(Rec("update", i, n, r, <<>>, disk, phase, m1))
  /\ UNCHANGED <<tracked, disk, phase, nextB, want>>

EnqRes(i, L) == IF ~mgr[i].open THEN "notfound" ELSE IF mgr[i].tot + L > mgr[i].max THEN "full" ELSE "ok"
DoEnq(i, L) ==
  /\ Up /\ Can("enq") /\ nextB <= MaxBatches /\ May(EnqRes(i, L))
  /\ LET r  == EnqRes(i, L)
         blk == [b |-> nextB, len |-> L]
         d1 == IF r = "ok" THEN [disk EXCEPT ![i].segs = AppendTo(@, blk)] ELSE disk
         m1 == IF r = "ok" THEN [mgr EXCEPT ![i].tot = @ + 8 + L, ![i].held = TRUE] ELSE mgr
     IN /\ disk' = d1 /\ mgr' = m1
        /\ want' = IF r = "ok" THEN [want EXCEPT ![i] = Append(@, nextB)] ELSE want
        /\ Log(Rec("enq", i, L, r, <<>>, d1, phase, m1))
  /\ nextB' = nextB + 1                   \* the number is spent even when the write is refused
  /\ UNCHANGED <<tracked, phase>>

DoDeliver(i) ==
  /\ Up /\ Can("deliver") /\ mgr[i].held
  /\ LET dr == Drain(disk[i].segs, mgr[i].tot)
         d1 == [disk EXCEPT ![i].segs = dr.segs]
         m1 == [mgr EXCEPT ![i].tot = dr.tot, ![i].held = FALSE]
     IN /\ disk' = d1 /\ mgr' = m1
        /\ want' = [want EXCEPT ![i] = <<>>]
        /\ Log(Rec("deliver", i, 0, "ok", Nums(Pending(disk[i].segs)), d1, phase, m1))
  /\ UNCHANGED <<tracked, phase, nextB>>

\* ------------------------------------------------------------------ the store halves of the service calls
DoTrack(i) ==
  /\ Up /\ Can("track") /\ mgr[i].open /\ tracked[i] = 0
  /\ tracked' = [tracked EXCEPT ![i] = mgr[i].max]
  /\ Log(Rec("track", i, mgr[i].max, "ok", <<>>, disk, phase, mgr))
  /\ UNCHANGED <<disk, phase, mgr, nextB, want>>
DoUntrack(i) ==
  /\ Up /\ Can("untrack") /\ tracked[i] # 0
  /\ tracked' = [tracked EXCEPT ![i] = 0]
  /\ Log(Rec("untrack", i, 0, "ok", <<>>, disk, phase, mgr))
  /\ UNCHANGED <<disk, phase, mgr, nextB, want>>
DoStoreSet(i, n) ==
  /\ Up /\ Can("storeset") /\ tracked[i] # 0 /\ tracked[i] # n
  /\ tracked' = [tracked EXCEPT ![i] = n]
  /\ Log(Rec("storeset", i, n, "ok", <<>>, disk, phase, mgr))
  /\ UNCHANGED <<disk, phase, mgr, nextB, want>>

\* ------------------------------------------------------------------ shutdown, crash, startup
AllClosed == [i \in Ids |-> NoQ]
DoCloseAll ==
  /\ Up /\ Can("closeall")
  /\ phase' = "down" /\ mgr' = AllClosed
  /\ Log(Rec("closeall", "", 0, "ok", <<>>, disk, "down", AllClosed))
  /\ UNCHANGED <<tracked, disk, nextB, want>>
DoCrash ==
  /\ Up /\ Can("crash")
  /\ phase' = "down" /\ mgr' = AllClosed
  /\ Log(Rec("crash", "", 0, "ok", <<>>, disk, "down", AllClosed))
  /\ UNCHANGED <<tracked, disk, nextB, want>>

BadTracked == {i \in Tracked : tracked[i] < MinMax}
StartDisk ==
  [i \in Ids |-> IF i \in Tracked \ BadTracked THEN [ex |-> TRUE, segs |-> OpenQ(disk[i].segs).segs]
                 ELSE IF BadTracked = {} /\ i \notin Tracked THEN NoD     \* partial-delete cleanup, only without error
                 ELSE disk[i]]
StartMgr ==
  [i \in Ids |-> IF i \in Tracked \ BadTracked
                 THEN [open |-> TRUE, max |-> tracked[i], tot |-> OpenQ(disk[i].segs).tot,
                       held |-> KickOnOpen /\ Pending(disk[i].segs) # <<>>]
                 ELSE NoQ]
DoStart ==
  /\ phase = "down" /\ Can("start") /\ (BadTracked # {} => May("startup"))
  /\ disk' = StartDisk
  /\ IF BadTracked = {}
     THEN /\ phase' = "up" /\ mgr' = StartMgr
          /\ want' = [i \in Ids |-> IF i \in Tracked THEN want[i] ELSE <<>>]
          /\ Log(Rec("start", "", 0, "ok", <<>>, StartDisk, "up", StartMgr))
     ELSE /\ phase' = "down" /\ mgr' = AllClosed                 \* errStartup: service.Open fails, the process gives up
          /\ want' = want
          /\ Log(Rec("start", "", 0, "startup", <<>>, StartDisk, "down", AllClosed))
  /\ UNCHANGED <<tracked, nextB>>

Next == \/ \E i \in Ids, n \in MaxSizes : DoInit(i, n)
        \/ \E i \in Ids : DoDelete(i)
        \/ \E i \in Ids, n \in MaxSizes : DoUpdate(i, n)
        \/ \E i \in Ids, L \in Lens : DoEnq(i, L)
        \/ \E i \in Ids : DoDeliver(i)
        \/ \E i \in Ids : DoTrack(i)
        \/ \E i \in Ids : DoUntrack(i)
        \/ \E i \in Ids, n \in MaxSizes : DoStoreSet(i, n)
        \/ DoCloseAll \/ DoCrash \/ DoStart
Spec == Init /\ [][Next]_vars

\* ------------------------------------------------------------------ contract
TypeOK == /\ phase \in {"up", "down"}
          /\ \A i \in Ids : /\ tracked[i] \in MaxSizes \cup {0}
                            /\ mgr[i].open => mgr[i].max \in MaxSizes
                            /\ disk[i].ex \/ disk[i].segs = <<>>
\* nothing lost, nothing foreign: what a queue directory holds is exactly what was acknowledged and neither delivered
\* nor deleted (a directory that does not exist holds nothing)
PendingIsWant == \A i \in Ids : Nums(Pending(disk[i].segs)) = want[i]
OpenHasDir    == \A i \in Ids : mgr[i].open => (disk[i].ex /\ disk[i].segs # <<>>)
DownHasNoQueue == phase = "down" => OpenIds(mgr) = {}
\* forwarding goes on: an open queue with batches has a request outstanding
NoStrandedBatch == \A i \in Ids : (Up /\ mgr[i].open /\ want[i] # <<>>) => mgr[i].held
HeldHasBatch  == \A i \in Ids : mgr[i].held => (mgr[i].open /\ want[i] # <<>>)
\* what the size calls report is the queue's disk usage / what is left to send
SizesAreDiskUsage == \A i \in Ids : mgr[i].open =>
                        /\ Obs(disk, phase, mgr).cur[i] = DiskUsage(disk[i].segs)
                        /\ Obs(disk, phase, mgr).rem[i] = SumBlocks(Pending(disk[i].segs))

Core == <<tracked, disk, mgr, want>>
\* (in the action properties the cheap state tests come first: TLC evaluates the action formula only where they hold)
\* after a successful Start exactly the tracked ids have an open queue and a directory, each with what it held before
StartContract ==
  [][(phase = "down" /\ phase' = "up" /\ DoStart) =>
        /\ OpenIds(mgr') = Tracked
        /\ {i \in Ids : disk'[i].ex} = Tracked
        /\ \A i \in Tracked : /\ Pending(disk'[i].segs) = Pending(disk[i].segs)
                              /\ mgr'[i].max = tracked[i]]_vars
\* a failed Start removes nothing
FailedStartKeeps ==
  [][(phase = "down" /\ phase' = "down" /\ DoStart) =>
        \A i \in Ids : /\ disk[i].ex => disk'[i].ex
                       /\ Pending(disk'[i].segs) = Pending(disk[i].segs)]_vars
\* shutdown and crash keep the disk
DownKeepsDisk == [][(phase = "up" /\ phase' = "down") => disk' = disk]_vars
\* refused calls change nothing (except quirk (1))
RefusalChangesNothing ==
  [][/\ \A i \in Ids, n \in MaxSizes : (InitRes(i, n) = "exists" /\ DoInit(i, n)) => UNCHANGED Core
     /\ \A i \in Ids, n \in MaxSizes : (InitRes(i, n) = "toosmall" /\ DoInit(i, n)) =>
              /\ UNCHANGED <<tracked, mgr, want>>
              /\ \A j \in Ids : Pending(disk'[j].segs) = Pending(disk[j].segs)
              /\ (~InitLeavesDir => disk' = disk)
     /\ \A i \in Ids : (DeleteRes(i) # "ok" /\ DoDelete(i)) => UNCHANGED Core
     /\ \A i \in Ids, n \in MaxSizes : (UpdateRes(i, n) # "ok" /\ DoUpdate(i, n)) => UNCHANGED Core
     /\ \A i \in Ids, L \in Lens : (EnqRes(i, L) # "ok" /\ DoEnq(i, L)) => UNCHANGED Core]_vars
\* Delete removes the directory, the map entry and the goroutine of that id and touches nothing else
DeleteContract ==
  [][\A i \in Ids : (DeleteRes(i) = "ok" /\ DoDelete(i)) =>
        /\ ~disk'[i].ex /\ ~mgr'[i].open /\ ~mgr'[i].held
        /\ \A j \in Ids \ {i} : disk'[j] = disk[j] /\ mgr'[j] = mgr[j]]_vars
\* an accepted update is what later writes are judged by; an accepted write is appended at the end of its queue
UpdateContract ==
  [][\A i \in Ids, n \in MaxSizes : (UpdateRes(i, n) = "ok" /\ DoUpdate(i, n)) =>
        /\ mgr'[i].max = n /\ disk' = disk /\ \A j \in Ids \ {i} : mgr'[j] = mgr[j]]_vars
EnqContract ==
  [][\A i \in Ids, L \in Lens : (EnqRes(i, L) = "ok" /\ DoEnq(i, L)) =>
        /\ Nums(Pending(disk'[i].segs)) = Append(Nums(Pending(disk[i].segs)), nextB)
        /\ \A j \in Ids \ {i} : disk'[j] = disk[j]]_vars
DeliverContract ==
  [][\A i \in Ids : (mgr[i].held /\ ~mgr'[i].held /\ DoDeliver(i)) =>
        /\ Pending(disk'[i].segs) = <<>>
        /\ \A j \in Ids \ {i} : disk'[j] = disk[j]]_vars

View == <<tracked, disk, phase, mgr, nextB, want>>
=============================================================================
