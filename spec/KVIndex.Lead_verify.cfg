\* Lead: with clients that give a primary key another foreign key (Restamp) Verify does not report the symmetric difference (known finding stale_index_entry_invisible).  The counterexample is replayed on the real kv.Index and counts only if it reproduces there.  Run with one worker: the shortest counterexample.
SPECIFICATION Spec
CONSTANTS
  FKs = {"f1", "f2"}
  Rs = {"p1", "p2"}
  Tied = FALSE
  Urm = FALSE
  BadFKs = {}
  BadPKs = {}
  Atomic = TRUE
  Restamp = TRUE
  WithAbort = FALSE
  MaxOps = 4
  Record = TRUE
  Probing = TRUE
  NoOpSteps = FALSE
INVARIANTS InvP_Verify
VIEW View
CHECK_DEADLOCK FALSE
