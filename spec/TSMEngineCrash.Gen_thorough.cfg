\* C02 generation, thorough: histories of writes / snapshot / compaction / delete with one Crash ; CrashReopen anywhere, then more steps.
\* Atomic replace / tombstone steps (the driver images the hook points inside them); the WAL append in flight at a crash is
\* covered by the driver's torn-tail sweeps, so Crash here keeps no unacknowledged entry.
SPECIFICATION CSpec
CONSTANTS
  Keys = {1, 2}
  Times = {1, 2}
  BatchSizes = {1, 2}
  DupInBatch = FALSE
  MaxPoints = 2
  MaxSnaps = 1
  MaxCompacts = 1
  MaxDeletes = 1
  MaxReopens = 1
  MinGroup = 1
  SplitWrites = FALSE
  SnapDeleteOverlap = FALSE
  MaxOps = 1000
  MaxCrashes = 1
  Fine = FALSE
  CrashKeep = {FALSE}
INVARIANTS CTypeOK UpInvariants CrashSafe RecOK NoPhantom WritableAfterRecovery TmpsOwned
PROPERTIES CFinStable
VIEW CView
CHECK_DEADLOCK FALSE
