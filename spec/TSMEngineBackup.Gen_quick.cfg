\* C38 generation, quick: write / snapshot / compaction / delete histories ending with a Backup / Export step taken in a quiescent state.
\* The quirk constants are set as the code behaves (they only shape the implementation-layer predictions `rnotomb` / `blk` / `tombs`
\* carried by the records; the contract values `exp` / `want` do not depend on them); the real engine is the judge.
SPECIFICATION BSpec
CONSTANTS
  Keys = {1, 2}
  Times = {1, 2}
  BatchSizes = {1}
  DupInBatch = FALSE
  MaxPoints = 2
  MaxSnaps = 1
  MaxCompacts = 1
  MaxDeletes = 1
  MaxReopens = 0
  MinGroup = 1
  SplitWrites = FALSE
  SnapDeleteOverlap = FALSE
  MaxOps = 1000
  MaxBackups = 1
  StopAfterBackup = TRUE
  SinceChoices = "ends"
  RestoreKeepsTombstones = FALSE
  ExportWholeBlocks = TRUE
  ExportTombstoneBug = FALSE
INVARIANTS BTypeOK BaseInvariants BackupComplete
VIEW BView
CHECK_DEADLOCK FALSE
