\* Generation of replay histories (hist kept in the fingerprint, so the dump enumerates every history up to MaxOps).
\* Template: checks/C18.py and C19.py replace Base/AnchorTick/Ph*/PointPos/MaxBatch/... per anchor and variant.
SPECIFICATION Spec
CONSTANTS
  Base = "Epoch"
  AnchorTick = 6
  Ph2 = 0
  Ph3 = 0
  Ph5 = 2
  D0 = 2
  SGDs = {2, 3, 5}
  R0 = 0
  Rets = {}
  PointPos = {16, 20, 21, 24, 25, 28}
  TruncPos = {21, 25}
  QPos = {16, 21, 24, 25, 33}
  QCodes = {2424, 2525, 2021, 1624, 1633, 2128}
  MaxBatch = 1
  MaxOps = 4
  MaxWrites = 3
  MaxTrunc = 0
  CheckEnabled = FALSE
  Record = TRUE
  ClampMin = TRUE
INVARIANTS TypeOK
CHECK_DEADLOCK FALSE
