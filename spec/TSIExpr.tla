------------------------------ MODULE TSIExpr ------------------------------
(* C15: which series a tag WHERE clause selects (InfluxQL semantics; an absent tag compares as "").        *)
(*                                                                                                        *)
(* Input-shaped property: a state is one expression `e` (over the grammar  tag = 'v' | tag != 'v' |        *)
(* tag =~ /r/ | tag !~ /r/ | e AND e | e OR e | (e) ) together with its satisfaction set over the whole    *)
(* series universe, Sat(e) = {s \in AllSeries : Eval(e, s)}.  For a measurement holding the series set S   *)
(* the contract is  Selected(e, S) = {s \in S : Eval(e, s)}  ( = S \cap Sat(e), lemma checked by TLC in    *)
(* the Lemma configuration for every S).  Regular expressions come from a fixed table whose language over  *)
(* the value domain is given extensionally (RegLang); the replay driver re-validates that table against    *)
(* Go's regexp (InfluxQL regex = Go regexp, unanchored match).                                             *)
EXTENDS Integers, Sequences, FiniteSets, TLC, Json, SequencesExt

CONSTANTS Depth,     \* 0: leaves only, 1: one AND/OR over leaves, 2: AND/OR over sampled depth<=1 expressions
          Seed,      \* selects the depth-2 sample
          K,         \* size of the depth-2 sample per side
          WithSets   \* TRUE: the state also carries a series set S (Lemma configuration)

Tags == {"t1", "t2"}
ValsOf(t) == IF t = "t1" THEN {"", "a", "b", "ab"} ELSE {"", "a", "b"}
AllVals == {"", "a", "b", "ab"}
\* a series is its tag assignment; "" = the series does not have the tag
AllSeries == {s \in [Tags -> AllVals] : \A t \in Tags : s[t] \in ValsOf(t)}

Regs == {"a", "^a$", "^$", ".*", ".+", "a|b", "^(a|b)$", "^a", "b$"}
RegLang(r) == CASE r = "a"        -> {"a", "ab"}
                [] r = "^a$"      -> {"a"}
                [] r = "^$"       -> {""}
                [] r = ".*"       -> {"", "a", "b", "ab"}
                [] r = ".+"       -> {"a", "b", "ab"}
                [] r = "a|b"      -> {"a", "b", "ab"}
                [] r = "^(a|b)$"  -> {"a", "b"}
                [] r = "^a"       -> {"a", "ab"}
                [] r = "b$"       -> {"b", "ab"}

\* the table is printed once for the replay driver, which re-validates it against Go's regexp
ASSUME PrintT("@@JR" \o ToJson([r \in Regs |-> RegLang(r)]))

\* ---- expressions
Leaf(op, t, x) == [op |-> op, t |-> t, x |-> x]
Bin(op, l, r) == [op |-> op, l |-> l, r |-> r]
Leaves == {e \in {Leaf(op, t, v) : op \in {"eq", "neq"}, t \in Tags, v \in AllVals} : e.x \in ValsOf(e.t)}
          \cup {Leaf(op, t, r) : op \in {"re", "nre"}, t \in Tags, r \in Regs}
D1 == {Bin(op, l, r) : op \in {"and", "or"}, l \in Leaves, r \in Leaves}
D01 == Leaves \cup D1
D01Seq == SetToSeq(D01)
N01 == Len(D01Seq)
Pick(i, salt) == D01Seq[((Seed * 7919 + i * 10473 + salt * 31) % N01) + 1]
SampleL == {Pick(i, 1) : i \in 1..K}
SampleR == {Pick(i, 2) : i \in 1..K}
D2 == {Bin(op, l, r) : op \in {"and", "or"}, l \in SampleL, r \in SampleR}

IsLeaf(e) == e.op \in {"eq", "neq", "re", "nre"}
RECURSIVE Eval(_, _)
Eval(e, s) ==
  CASE e.op = "eq"  -> s[e.t] = e.x
    [] e.op = "neq" -> s[e.t] # e.x
    [] e.op = "re"  -> s[e.t] \in RegLang(e.x)
    [] e.op = "nre" -> s[e.t] \notin RegLang(e.x)
    [] e.op = "and" -> Eval(e.l, s) /\ Eval(e.r, s)
    [] e.op = "or"  -> Eval(e.l, s) \/ Eval(e.r, s)
Sat(e) == {s \in AllSeries : Eval(e, s)}
Selected(e, S) == {s \in S : Eval(e, s)}

VARIABLES expr, sat, sset
vars == <<expr, sat, sset>>
ExprDomain == CASE Depth = 0 -> Leaves
                [] Depth = 1 -> D1
                [] Depth = 2 -> D2
Init == /\ expr \in ExprDomain
        /\ sat = Sat(expr)
        /\ sset \in (IF WithSets THEN SUBSET AllSeries ELSE {AllSeries})
Next == UNCHANGED vars
Spec == Init /\ [][Next]_vars

\* the contract in set form (model-checked for every series set in the Lemma configuration)
Lemma == Selected(expr, sset) = sset \cap sat
\* sanity of the table: the complement operators partition the universe
Partition == IsLeaf(expr) =>
               LET dual == [expr EXCEPT !.op = CASE expr.op = "eq" -> "neq" [] expr.op = "neq" -> "eq"
                                                 [] expr.op = "re" -> "nre" [] expr.op = "nre" -> "re"]
               IN Sat(dual) = AllSeries \ sat
\* every case is printed once (JSON) when TLC evaluates this pseudo-invariant
Emit == PrintT("@@J" \o ToJson([e |-> expr, sat |-> sat]))
=============================================================================
