# sourced by every script: build environment for /repo with the libflux stub (see DESIGN.md section 1)
export VERIF_ROOT=${VERIF_ROOT:-/verif}
export GOFLAGS=-mod=mod
export GOPROXY=off
unset GOTOOLCHAIN GOSUMDB 2>/dev/null || true
export PKG_CONFIG_PATH=$VERIF_ROOT/build/stubflux
export CGO_ENABLED=1
