#!/usr/bin/env python3
"""Shared machinery of the /verif checks: TLC runner, behaviour extraction, Go harness build + replay,
trace validation, known-findings matching, evidence writing, verdicts and exit codes.

Exit codes of a check:  0 = property held on everything explored (KNOWN-FINDING lines possible),
                        1 = violation (prints `VIOLATION property=<id> replay=<path>`),
                        2 = inconclusive / infrastructure problem (never a violation).
"""
import glob
import json
import os
import random
import re
import shutil
import subprocess
import sys
import tempfile
import time

ROOT = os.environ.get('VERIF_ROOT', os.path.dirname(os.path.dirname(os.path.abspath(__file__))))
sys.path.insert(0, os.path.join(ROOT, 'lib'))
import tlaval  # noqa: E402

NCPU = os.cpu_count() or 4
# development throttle (file is git-ignored, absent in a fresh restore): several agents share the machine
try:
    NCPU = max(1, int(open(os.path.join(ROOT, '.ncpu')).read().strip()))
except Exception:
    pass
if os.environ.get('VERIF_NCPU'):
    NCPU = max(1, int(os.environ['VERIF_NCPU']))


class Inconclusive(Exception):
    pass


def log(*a):
    print('[verif]', *a, file=sys.stderr, flush=True)


def go_env():
    env = dict(os.environ)
    env['VERIF_ROOT'] = ROOT
    env['GOFLAGS'] = '-mod=mod'
    env['GOPROXY'] = 'off'
    env.pop('GOTOOLCHAIN', None)
    env.pop('GOSUMDB', None)
    env['PKG_CONFIG_PATH'] = os.path.join(ROOT, 'build', 'stubflux')
    env['CGO_ENABLED'] = '1'
    return env


class TLCResult:
    def __init__(self):
        self.ok = False            # finished without error
        self.generated = 0
        self.distinct = 0
        self.depth = 0
        self.violated = None       # name of violated invariant/property or 'deadlock' etc.
        self.trace = []            # [(action, state)]
        self.stdout = ''
        self.wall = 0.0
        self.coverage = {}         # action name -> count (only with coverage=True)
        self.timed_out = False
        self.printed = []          # values printed with PrintT lines starting with the JSON marker


class Ctx:
    def __init__(self, prop_id, tier='quick', seed=None, level='model_checking'):
        self.id = prop_id
        self.tier = tier
        if seed is None:
            seed = int(os.environ.get('VERIF_SEED', '1') or '1')
        self.seed = seed
        self.level = level
        self.rng = random.Random(seed)
        self.t0 = time.time()
        self.scratch = tempfile.mkdtemp(prefix=f'verif-{prop_id}-')
        self.states = 0
        self.transitions = 0
        self.tlc_runs = []
        self.traces_validated = 0
        self.evaluations = 0
        self.nontrivial_sigs = set()
        self.samples = []
        self.assumptions = []
        self.rule = ''
        self.exhaustive = None
        self.divergences = []      # dicts: {case, result}
        self.drift = {}
        self.extra_cov = {}
        self.infra = []
        self.known = load_known_findings()
        self.spec_dir = os.path.join(ROOT, 'spec')

    # ---------------------------------------------------------------- scratch
    def cleanup(self):
        shutil.rmtree(self.scratch, ignore_errors=True)

    def tmp(self, name):
        p = os.path.join(self.scratch, name)
        os.makedirs(os.path.dirname(p), exist_ok=True)
        return p

    # ---------------------------------------------------------------- TLC
    def _spec_workdir(self, tag):
        """Copy of /verif/spec in scratch so TLC litter never lands in /verif."""
        d = os.path.join(self.scratch, 'spec-' + tag)
        if not os.path.isdir(d):
            shutil.copytree(self.spec_dir, d)
        return d

    def tlc(self, spec, cfg, *, workers=None, timeout=600, dump=False, simulate=None, depth=None,
            coverage=False, extra_files=None, defines=None, tag=None, heap=None, dfs=False, count=True,
            deadlock=None):
        """Run TLC. spec: module name (file spec/<spec>.tla). cfg: config file name in spec/ or literal text
        (when it contains a newline). simulate: dict(num=N) -> behaviours written to files.
        Returns TLCResult (with .dump_path / .sim_files when requested)."""
        tag = tag or f'{spec}-{len(self.tlc_runs)}'
        wd = self._spec_workdir(tag)
        if extra_files:
            for name, src in extra_files.items():
                if os.path.exists(src):
                    shutil.copy(src, os.path.join(wd, name))
                else:
                    with open(os.path.join(wd, name), 'w') as f:
                        f.write(src)
        if '\n' in cfg:
            cfgname = f'_gen_{tag}.cfg'
            with open(os.path.join(wd, cfgname), 'w') as f:
                f.write(cfg)
        else:
            cfgname = cfg
        if workers is None:
            workers = NCPU
        meta = os.path.join(self.scratch, 'meta-' + tag)
        cmd = ['java']
        cmd.append('-Xmx' + (heap or '8g'))
        cmd += ['-XX:+UseParallelGC', '-Xss512m']
        if dfs:
            cmd.append('-Dtlc2.tool.queue.IStateQueue=StateDeque')
        cmd += ['-cp', '/opt/veriftools/tla/tla2tools.jar:/opt/veriftools/tla/CommunityModules-deps.jar',
                'tlc2.TLC', '-workers', str(workers), '-metadir', meta, '-config', cfgname]
        if deadlock:
            cmd.append('-deadlock')
        res = TLCResult()
        if dump:
            res.dump_path = os.path.join(self.scratch, f'dump-{tag}')
            cmd += ['-dump', res.dump_path]
            res.dump_path += '.dump'
        if simulate:
            simdir = os.path.join(self.scratch, f'sim-{tag}')
            os.makedirs(simdir, exist_ok=True)
            s = f"file={simdir}/b,num={simulate['num']}"
            cmd += ['-simulate', s, '-seed', str(simulate.get('seed', self.seed))]
            res.sim_dir = simdir
        if depth:
            cmd += ['-depth', str(depth)]
        if coverage:
            cmd += ['-coverage', '1']
        cmd.append(spec + '.tla')
        t0 = time.time()
        env = dict(os.environ)
        env.pop('JAVA_TOOL_OPTIONS', None)
        try:
            p = subprocess.run(cmd, cwd=wd, stdout=subprocess.PIPE, stderr=subprocess.STDOUT, timeout=timeout,
                               env=env, text=True, errors='replace')
            out = p.stdout
            rc = p.returncode
        except subprocess.TimeoutExpired as e:
            out = (e.stdout or b'')
            if isinstance(out, bytes):
                out = out.decode('utf-8', 'replace')
            rc = -9
            res.timed_out = True
            subprocess.run(['pkill', '-f', meta], stdout=subprocess.DEVNULL, stderr=subprocess.DEVNULL)
        res.wall = time.time() - t0
        res.stdout = out
        res.rc = rc
        m = None
        for m in re.finditer(r'(\d+) states generated, (\d+) distinct states found', out):
            pass
        if m:
            res.generated, res.distinct = int(m.group(1)), int(m.group(2))
        m = re.search(r'The number of states generated: (\d+)', out)
        if m and not res.generated:
            res.generated = int(m.group(1))
            res.distinct = res.generated
        m = re.search(r'depth of the complete state graph search is (\d+)', out)
        if m:
            res.depth = int(m.group(1))
        if 'Model checking completed. No error has been found.' in out or (simulate and rc == 0 and 'Error:' not in out):
            res.ok = True
        else:
            m = re.search(r'Invariant (\S+) is violated', out)
            if m:
                res.violated = m.group(1)
            elif 'Deadlock reached' in out:
                res.violated = 'deadlock'
            elif re.search(r'Action property (\S+) is violated|Temporal properties were violated|Action property', out):
                mm = re.search(r'Action property (\S+)', out)
                res.violated = mm.group(1) if mm else 'temporal'
            elif 'POSTCONDITION' in out.upper() and 'violated' in out:
                res.violated = 'postcondition'
            if res.violated:
                try:
                    res.trace = tlaval.parse_trace_from_stdout(out)
                except Exception as e:  # noqa
                    res.trace = []
        if coverage:
            for m in re.finditer(r'<(\w+) line \d+, col \d+ to line \d+, col \d+ of module (\w+)(?: \([\d ]+\))?>: (\d+):(\d+)', out):
                res.coverage[m.group(1)] = res.coverage.get(m.group(1), 0) + int(m.group(4))
        for line in out.splitlines():
            if line.startswith('"@@J') or line.startswith('@@J'):
                res.printed.append(line)
        if count:
            self.states += res.distinct
            self.transitions += res.generated
        self.tlc_runs.append({'spec': spec, 'cfg': cfgname if '\n' not in cfg else '(generated)', 'generated': res.generated,
                              'distinct': res.distinct, 'depth': res.depth, 'ok': res.ok, 'violated': res.violated,
                              'wall_s': round(res.wall, 1), 'mode': 'simulate' if simulate else 'bfs'})
        return res

    def tlc_must_pass(self, spec, cfg, **kw):
        """Model-check; anything but a clean pass is inconclusive (a model-only violation is a lead, not a verdict:
        DESIGN section 10) unless the caller handles res.violated itself."""
        r = self.tlc(spec, cfg, **kw)
        if r.timed_out:
            raise Inconclusive(f'TLC timed out on {spec}/{cfg}')
        if not r.ok:
            tail = '\n'.join(r.stdout.splitlines()[-40:])
            raise Inconclusive(f'TLC did not pass on {spec}/{cfg}: violated={r.violated}\n{tail}')
        return r

    def check_coverage(self, r, required_actions):
        zero = [a for a in required_actions if r.coverage.get(a, 0) == 0]
        if zero:
            raise Inconclusive(f'vacuity guard: actions never taken in TLC run: {zero}')

    def dump_states(self, res, limit=None):
        n = 0
        for st in tlaval.iter_dump_states(res.dump_path):
            yield tlaval.plain(st)
            n += 1
            if limit and n >= limit:
                return

    def sim_behaviours(self, res):
        """Each behaviour: list of plain state dicts (last state carries full hist)."""
        files = sorted(glob.glob(os.path.join(res.sim_dir, 'b_*')))
        for f in files:
            try:
                b = tlaval.parse_simulate_file(f)
            except Exception as e:
                raise Inconclusive(f'cannot parse simulate file {f}: {e}')
            yield [tlaval.plain(st) for _, st in b]

    # ---------------------------------------------------------------- Go harness
    def go_build(self, cmdname, race=False, tags='verif'):
        """Build harness/cmd/<cmdname> against the repository working tree with the hook tag on.
        The tree is /repo unless VERIF_REPO names another checkout (used to try seeded changes in a scratch
        worktree without touching /repo): then an alternative go.mod with `replace => $VERIF_REPO` is used."""
        repo = os.environ.get('VERIF_REPO', '/repo')
        sub = 'bin' if repo == '/repo' else 'bin-' + re.sub(r'[^A-Za-z0-9]+', '_', repo).strip('_')
        outdir = os.path.join(ROOT, 'build', sub)
        os.makedirs(outdir, exist_ok=True)
        out = os.path.join(outdir, cmdname + ('-race' if race else ''))
        if not os.path.exists(os.path.join(ROOT, 'build', 'stubflux', 'libflux.a')):
            subprocess.run([os.path.join(ROOT, 'stubflux', 'build.sh')], check=True, env=go_env(), stdout=subprocess.DEVNULL)
        # -trimpath keeps absolute paths out of the build cache keys, so a scratch worktree (VERIF_REPO) re-uses the
        # compiled packages of /repo for everything the seeded change does not touch
        cmd = ['go', 'build', '-trimpath', '-tags', tags]
        if repo != '/repo':
            alt = os.path.join(outdir, 'alt.mod')
            with open(os.path.join(ROOT, 'harness', 'go.mod')) as f:
                mod = f.read().replace('=> /repo', '=> ' + repo)
            with open(alt, 'w') as f:
                f.write(mod)
            shutil.copy(os.path.join(ROOT, 'harness', 'go.sum'), os.path.join(outdir, 'alt.sum'))
            cmd += ['-modfile', alt]
        if race:
            cmd.append('-race')
        cmd += ['-o', out, './cmd/' + cmdname]
        t0 = time.time()
        p = subprocess.run(cmd, cwd=os.path.join(ROOT, 'harness'), env=go_env(), stdout=subprocess.PIPE,
                           stderr=subprocess.STDOUT, text=True)
        if p.returncode != 0:
            raise Inconclusive(f'go build {cmdname} failed:\n{p.stdout[-4000:]}')
        log(f'built {cmdname} against {repo} in {time.time()-t0:.1f}s')
        return out

    def replay(self, binary, cases, *, procs=None, par=1, args=None, timeout=1200, case_timeout='120s', env_extra=None):
        """Run cases (list of JSON-able objects, or path to ndjson) through a replay binary, sharded over `procs`
        processes each with `par` goroutines. Returns list of result dicts in case order (id = index)."""
        if isinstance(cases, str):
            with open(cases) as f:
                lines = [ln for ln in f if ln.strip()]
        else:
            lines = [json.dumps(c, separators=(',', ':')) + '\n' for c in cases]
        n = len(lines)
        if n == 0:
            raise Inconclusive('no cases to replay')
        if procs is None:
            procs = min(NCPU, max(1, n // 4))
        procs = max(1, min(procs, n))
        shards = [[] for _ in range(procs)]
        for i, ln in enumerate(lines):
            shards[i % procs].append((i, ln))
        running = []
        tag = f'rp{len(self.tlc_runs)}-{int(time.time()*1000)%100000}'
        env = go_env()
        if env_extra:
            env.update(env_extra)
        for k, sh in enumerate(shards):
            inp = self.tmp(f'{tag}/in{k}.ndjson')
            outp = self.tmp(f'{tag}/out{k}.ndjson')
            with open(inp, 'w') as f:
                f.writelines(ln for _, ln in sh)
            sdir = self.tmp(f'{tag}/s{k}/x')
            cmd = [binary, '-in', inp, '-out', outp, '-par', str(par), '-seed', str(self.seed),
                   '-scratch', os.path.dirname(sdir), '-case-timeout', case_timeout]
            for a, v in (args or {}).items():
                cmd += ['-arg', f'{a}={v}']
            errp = self.tmp(f'{tag}/err{k}.txt')
            p = subprocess.Popen(cmd, stdout=open(errp, 'w'), stderr=subprocess.STDOUT, env=env)
            running.append((k, p, outp, errp, sh))
        results = [None] * n
        deadline = time.time() + timeout
        for k, p, outp, errp, sh in running:
            try:
                p.wait(timeout=max(1, deadline - time.time()))
            except subprocess.TimeoutExpired:
                p.kill()
                p.wait()
                self.infra.append(f'replay shard {k} timed out')
            got = []
            if os.path.exists(outp):
                with open(outp) as f:
                    for ln in f:
                        try:
                            got.append(json.loads(ln))
                        except Exception:
                            pass
            for r in got:
                local = r.get('id', -1)
                if 0 <= local < len(sh):
                    gi = sh[local][0]
                    r['id'] = gi
                    results[gi] = r
            if p.returncode != 0:
                err = open(errp).read()[-3000:]
                self.infra.append(f'replay shard {k} exited {p.returncode}: {err}')
        missing = [i for i, r in enumerate(results) if r is None]
        for i in missing:
            results[i] = {'id': i, 'ok': False, 'kind': 'infra', 'msg': 'no result (driver died or timed out)'}
        return results, lines

    def absorb(self, results, lines, *, sample=3, nontrivial_default=False, hang_is_violation=False):
        """Fold replay results into counters; collect divergences. A watchdog `hang` is infrastructure (exit 2) unless the
        property itself is about termination (hang_is_violation=True)."""
        for r in results:
            if r.get('kind') == 'hang' and not hang_is_violation:
                r['kind'] = 'infra'
            self.evaluations += max(1, int(r.get('evals', 1) or 1))
            if r.get('ok'):
                self.traces_validated += 1
                if r.get('nontrivial', nontrivial_default):
                    self.nontrivial_sigs.add(r.get('sig') or lines[r['id']].strip()[:400])
            else:
                kind = r.get('kind', 'violation')
                if kind == 'infra':
                    self.infra.append(f"case {r['id']}: {r.get('msg','')[:500]}")
                else:
                    self.traces_validated += 1
                    self.divergences.append({'case': json.loads(lines[r['id']]), 'result': r})
            for d in r.get('drift') or []:
                self.drift[d] = self.drift.get(d, 0) + 1
        if sample and len(self.samples) < sample:
            idx = list(range(len(lines)))
            self.rng.shuffle(idx)
            for i in idx[:sample - len(self.samples)]:
                try:
                    self.samples.append(json.loads(lines[i]))
                except Exception:
                    pass

    # ---------------------------------------------------------------- trace validation (code -> spec)
    def validate_trace(self, tracespec, cfg, trace_path, *, timeout=600, trace_name='trace.ndjson', extra_files=None):
        """Run a Trace*.tla spec over an ndjson trace. Accepted iff TLC finishes with no error (the POSTCONDITION of
        the cfg checks the high-water mark). Returns (accepted, TLCResult)."""
        files = {trace_name: trace_path}
        if extra_files:
            files.update(extra_files)
        r = self.tlc(tracespec, cfg, workers=1, timeout=timeout, extra_files=files, dfs=True)
        if r.timed_out:
            raise Inconclusive(f'trace validation timed out ({tracespec})')
        if not r.ok and not r.violated and 'Error' in r.stdout and 'postcondition' not in r.stdout.lower():
            tail = '\n'.join(r.stdout.splitlines()[-40:])
            raise Inconclusive(f'trace validation failed to run ({tracespec}):\n{tail}')
        hw = None
        m = re.search(r'@@HW (\d+) of (\d+)', r.stdout)
        if m:
            hw = (int(m.group(1)), int(m.group(2)))
        r.hw = hw
        return r.ok, r

    # ---------------------------------------------------------------- verdict
    def finish(self):
        """Match divergences against known findings, write evidence + replay files, print verdict lines, exit."""
        wall = time.time() - self.t0
        viol = []
        known_hits = {}
        for d in self.divergences:
            pats = d['result'].get('patterns') or []
            hit = None
            for kf in self.known:
                if kf.get('property') != self.id:
                    continue
                if str(kf.get('status', 'open')).startswith('fixed'):
                    continue
                if kf['pattern'] in pats:
                    hit = kf
                    break
            if hit:
                known_hits.setdefault(hit['id'], [hit, 0, d])
                known_hits[hit['id']][1] += 1
            else:
                viol.append(d)
        code = 0
        lines = []
        for kid, (kf, n, d) in sorted(known_hits.items()):
            lines.append(f"KNOWN-FINDING: property={self.id} {kf['id']} {kf['what']} (seen {n}x this run)")
        replay_paths = []
        if viol:
            rdir = os.path.join(ROOT, 'replays', self.id)
            if os.environ.get('VERIF_REPO', '/repo') != '/repo':
                rdir = os.path.join(ROOT, 'build', 'replays-alt', self.id)
            os.makedirs(rdir, exist_ok=True)
            seen = set()
            for d in viol:
                key = (d['result'].get('msg', '')[:80], tuple(d['result'].get('patterns') or []))
                if key in seen and len(replay_paths) >= 3:
                    continue
                seen.add(key)
                if len(replay_paths) >= 10:
                    break
                path = os.path.join(rdir, f"{int(time.time())}-{len(replay_paths)}.json")
                with open(path, 'w') as f:
                    json.dump({'property': self.id, 'tier': self.tier, 'seed': self.seed, 'case': d['case'],
                               'result': d['result'], 'adapter': d.get('adapter'), 'args': d.get('args')}, f, indent=1)
                replay_paths.append(path)
                lines.append(f"VIOLATION property={self.id} replay={path}")
                lines.append(f"  detail: step={d['result'].get('step')} {d['result'].get('msg','')[:600]}")
            code = 1
        if self.infra and code == 0:
            code = 2
        ev = {
            'property_id': self.id, 'tier': self.tier, 'seed': self.seed, 'level': self.level,
            'coverage': {
                'states': self.states, 'transitions': self.transitions,
                'traces_validated_against_impl': self.traces_validated,
                'evaluations': self.evaluations,
                'distinct_nontrivial': len(self.nontrivial_sigs),
                'rule': self.rule,
                'samples': self.samples[:5] if self.samples else [],
                'tlc_runs': self.tlc_runs,
                'drift': self.drift,
                'known_findings_seen': {k: v[1] for k, v in known_hits.items()},
            },
            'assumptions': self.assumptions,
            'wall_s': round(wall, 2),
            'violations': len(viol),
        }
        if self.exhaustive is not None:
            ev['coverage']['exhaustive'] = bool(self.exhaustive)
        ev['coverage'].update(self.extra_cov)
        if self.infra:
            ev['coverage']['infra_problems'] = self.infra[:20]
        valid_for_level = self.states >= 1 and self.transitions >= 1 and len(ev['coverage']['samples']) >= 1
        # runs against a scratch checkout (VERIF_REPO, used only to try seeded changes) never touch the committed evidence
        evdir = os.path.join(ROOT, 'evidence')
        if os.environ.get('VERIF_REPO', '/repo') != '/repo':
            evdir = os.path.join(ROOT, 'build', 'evidence-alt')
        os.makedirs(evdir, exist_ok=True)
        if code != 2 or valid_for_level:
            with open(os.path.join(evdir, f'{self.id}.json'), 'w') as f:
                json.dump(ev, f, indent=1, default=str)
        for ln in lines:
            print(ln, flush=True)
        if code == 2:
            for m in self.infra[:10]:
                print(f'INCONCLUSIVE property={self.id} {m[:1500]}', flush=True)
        print(f"[{self.id}] tier={self.tier} seed={self.seed} states={self.states} transitions={self.transitions} "
              f"replayed={self.traces_validated} evals={self.evaluations} nontrivial={len(self.nontrivial_sigs)} "
              f"violations={len(viol)} known={sum(v[1] for v in known_hits.values())} wall={wall:.1f}s exit={code}", flush=True)
        self.cleanup()
        return code


def load_known_findings():
    """known_findings.json plus fragments known_findings.d/*.json (same format), all committed, never written at run time."""
    out = []
    paths = [os.path.join(ROOT, 'known_findings.json')] + sorted(glob.glob(os.path.join(ROOT, 'known_findings.d', '*.json')))
    for p in paths:
        if not os.path.exists(p):
            continue
        with open(p) as f:
            data = json.load(f)
        out += data.get('findings', [])
    return out


def sample_list(rng, xs, k):
    if k is None or len(xs) <= k:
        return list(xs)
    idx = sorted(rng.sample(range(len(xs)), k))
    return [xs[i] for i in idx]


def run_check(prop_id, fn, level='model_checking'):
    """Entry wrapper used by ./check: handles tier/seed/env, Inconclusive, cleanup."""
    import argparse
    ap = argparse.ArgumentParser()
    ap.add_argument('--tier', default=os.environ.get('VERIF_TIER', 'quick'))
    ap.add_argument('--replay', default=None)
    ap.add_argument('--selftest', action='store_true')
    a, _ = ap.parse_known_args(sys.argv[2:])
    ctx = Ctx(prop_id, tier=a.tier, level=level)
    ctx.replay_path = a.replay
    ctx.selftest = a.selftest
    try:
        fn(ctx)
        code = ctx.finish()
    except Inconclusive as e:
        print(f'INCONCLUSIVE property={prop_id} {str(e)[:3000]}', flush=True)
        ctx.cleanup()
        code = 2
    except Exception:
        import traceback
        traceback.print_exc()
        print(f'INCONCLUSIVE property={prop_id} internal error in check', flush=True)
        ctx.cleanup()
        code = 2
    sys.exit(code)
