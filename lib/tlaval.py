#!/usr/bin/env python3
"""TLA+ value parser for TLC -dump / -simulate / counterexample output.

Values are converted to plain JSON-able Python:
  sequences/tuples  -> list
  sets              -> {"#set": [...]}
  records           -> dict
  functions a:>1@@… -> {"#fun": [[k, v], ...]}   (functions with domain 1..n print as sequences in TLC)
  model values      -> {"#mv": name}
  strings, ints, booleans as themselves.
`plain()` flattens the tagged forms: sets -> sorted lists, functions -> dict when keys are strings/ints.
"""
import json
import re
import sys

_ident = re.compile(r'[A-Za-z_][A-Za-z0-9_]*')
_int = re.compile(r'-?\d+')


class P:
    __slots__ = ('s', 'i')

    def __init__(self, s, i=0):
        self.s, self.i = s, i

    def ws(self):
        s, i, n = self.s, self.i, len(self.s)
        while i < n and s[i] in ' \t\r\n':
            i += 1
        self.i = i

    def peek(self, t):
        self.ws()
        return self.s.startswith(t, self.i)

    def eat(self, t):
        self.ws()
        if not self.s.startswith(t, self.i):
            raise ValueError(f"expected {t!r} at {self.i}: {self.s[self.i:self.i+60]!r}")
        self.i += len(t)

    def value(self):
        self.ws()
        s = self.s
        c = s[self.i]
        if c == '<' and s.startswith('<<', self.i):
            self.i += 2
            out = []
            while not self.peek('>>'):
                out.append(self.value())
                if self.peek(','):
                    self.i += 1
            self.eat('>>')
            return out
        if c == '{':
            self.i += 1
            out = []
            while not self.peek('}'):
                out.append(self.value())
                if self.peek(','):
                    self.i += 1
            self.eat('}')
            return {"#set": out}
        if c == '[':
            self.i += 1
            out = {}
            while not self.peek(']'):
                self.ws()
                m = _ident.match(s, self.i)
                k = m.group(0)
                self.i = m.end()
                self.eat('|->')
                out[k] = self.value()
                if self.peek(','):
                    self.i += 1
            self.eat(']')
            return out
        if c == '(':
            self.i += 1
            out = {"#fun": []}
            while True:
                k = self.value()
                self.eat(':>')
                v = self.value()
                out["#fun"].append([k, v])
                if self.peek('@@'):
                    self.i += 2
                    continue
                break
            self.eat(')')
            return out
        if c == '"':
            j = self.i + 1
            while s[j] != '"':
                j += 2 if s[j] == '\\' else 1
            v = json.loads(s[self.i:j + 1])
            self.i = j + 1
            return v
        m = _int.match(s, self.i)
        if m:
            self.i = m.end()
            return int(m.group(0))
        m = _ident.match(s, self.i)
        if m:
            w = m.group(0)
            self.i = m.end()
            if w == 'TRUE':
                return True
            if w == 'FALSE':
                return False
            return {"#mv": w}
        raise ValueError(f"cannot parse at {self.i}: {s[self.i:self.i+60]!r}")


def parse_value(text):
    return P(text).value()


def plain(v):
    """Flatten tagged forms into ordinary JSON."""
    if isinstance(v, list):
        return [plain(x) for x in v]
    if isinstance(v, dict):
        if "#set" in v and len(v) == 1:
            xs = [plain(x) for x in v["#set"]]
            try:
                return sorted(xs, key=lambda x: json.dumps(x, sort_keys=True))
            except TypeError:
                return xs
        if "#mv" in v and len(v) == 1:
            return v["#mv"]
        if "#fun" in v and len(v) == 1:
            out = {}
            for k, val in v["#fun"]:
                k = plain(k)
                if not isinstance(k, str):
                    k = json.dumps(k, separators=(',', ':'))
                out[k] = plain(val)
            return out
        return {k: plain(x) for k, x in v.items()}
    return v


def parse_state_body(body):
    """body: text '/\\ a = ...\\n/\\ b = ...' -> dict name -> value"""
    st = {}
    parts = re.split(r'(?:^|\n)/\\ ', body)
    for part in parts:
        part = part.strip()
        if not part:
            continue
        name, rest = part.split(' = ', 1)
        st[name.strip()] = P(rest).value()
    return st


def iter_dump_states(path):
    """Iterate over states of a `tlc -dump` file (text format: 'State N:' blocks)."""
    buf = []
    with open(path, 'r') as f:
        for line in f:
            if line.startswith('State ') and line.rstrip().endswith(':'):
                if buf:
                    yield parse_state_body(''.join(buf))
                buf = []
            else:
                buf.append(line)
    if buf and ''.join(buf).strip():
        yield parse_state_body(''.join(buf))


_sim_hdr = re.compile(r'^(?:\\\*\s*)?STATE_(\d+)\s*==\s*$|^State (\d+): <([^>]*)>')


def parse_simulate_file(path):
    """Parse one behaviour file written by `tlc -simulate file=...`.
    Returns list of (action_name_or_None, state_dict)."""
    text = open(path).read()
    out = []
    # format: "STATE_1 == \n/\ x = ...\n\nSTATE_2 == ..." possibly with comments "\* action info"
    blocks = re.split(r'\n(?=STATE_\d+ ==)', text)
    for blk in blocks:
        m = re.match(r'STATE_(\d+) ==\s*\n?(.*)', blk, re.S)
        if not m:
            continue
        body = m.group(2)
        out.append((None, parse_state_body(body)))
    return out


def parse_trace_from_stdout(text):
    """Parse a TLC counterexample trace from stdout: blocks 'State N: <Action ...>' followed by conjuncts."""
    out = []
    cur = None
    buf = []
    for line in text.splitlines():
        m = re.match(r'^State (\d+): (.*)$', line)
        if m:
            if cur is not None:
                out.append((cur, parse_state_body('\n'.join(buf))))
            hdr = m.group(2)
            am = re.match(r'<(\w+)', hdr)
            cur = am.group(1) if am else hdr
            buf = []
        elif cur is not None:
            if line.startswith('/\\ ') or (buf and line.strip() and not re.match(r'^(Error|Finished|\d+ states|The |Model checking|Progress|Back to state)', line)):
                buf.append(line)
            elif not line.strip():
                out.append((cur, parse_state_body('\n'.join(buf))))
                cur, buf = None, []
    if cur is not None and buf:
        out.append((cur, parse_state_body('\n'.join(buf))))
    return out


if __name__ == '__main__':
    for st in iter_dump_states(sys.argv[1]):
        print(json.dumps(plain(st), separators=(',', ':')))
