#!/bin/sh
# builds the libflux stub (static lib + flux.pc) into /verif/build/stubflux
set -e
ROOT=${VERIF_ROOT:-/verif}
OUT=$ROOT/build/stubflux
mkdir -p "$OUT"
MODCACHE=$(cd /repo && GOFLAGS=-mod=mod GOPROXY=off go env GOMODCACHE)
FLUXV=$(cd /repo && awk '$1=="github.com/influxdata/flux"{print $2}' go.mod | head -1)
INC="$MODCACHE/github.com/influxdata/flux@$FLUXV/libflux/include"
[ -f "$INC/influxdata/flux.h" ] || { echo "flux.h not found at $INC" >&2; exit 2; }
gcc -c -O1 -I"$INC" "$ROOT/stubflux/stub.c" -o "$OUT/stub.o"
ar rcs "$OUT/libflux.a" "$OUT/stub.o"
cat > "$OUT/flux.pc" <<PC
Name: flux
Version: ${FLUXV#v}
Description: stub libflux for offline verification builds
Cflags: -I$INC
Libs: -L$OUT -lflux
PC
echo "stubflux built in $OUT"
