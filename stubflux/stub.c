#include <stdlib.h>
#include <stdio.h>
#include "influxdata/flux.h"
struct flux_error_t { const char *msg; };
static struct flux_error_t the_err = { "libflux stub: not available in verification build" };
void flux_semantic_packages(struct flux_buffer_t *b){ b->data=NULL; b->len=0; }
void flux_free_error(struct flux_error_t *e){}
const char *flux_error_str(struct flux_error_t *e){ return the_err.msg; }
void flux_error_print(struct flux_error_t *e){ puts(the_err.msg); }
void flux_free_bytes(const char *p){}
struct flux_ast_pkg_t *flux_parse(const char *f, const char *s){ return NULL; }
struct flux_error_t *flux_ast_format(struct flux_ast_pkg_t *p, struct flux_buffer_t *b){ return &the_err; }
struct flux_error_t *flux_ast_get_error(struct flux_ast_pkg_t *p, const char* o){ return &the_err; }
void flux_free_ast_pkg(struct flux_ast_pkg_t *p){}
struct flux_error_t *flux_merge_ast_pkgs(struct flux_ast_pkg_t *a, struct flux_ast_pkg_t *b){ return &the_err; }
struct flux_error_t *flux_parse_json(const char *s, struct flux_ast_pkg_t **p){ *p=NULL; return &the_err; }
struct flux_error_t *flux_ast_marshal_json(struct flux_ast_pkg_t *p, struct flux_buffer_t *b){ return &the_err; }
static char empty_env[12] = {8,0,0,0, 4,0,4,0, 4,0,0,0};
void flux_get_env_stdlib(struct flux_buffer_t *b){ b->data=empty_env; b->len=12; }
struct flux_stateful_analyzer_t *flux_new_stateful_analyzer(const char * o){ return NULL; }
void flux_free_stateful_analyzer(struct flux_stateful_analyzer_t *a){}
struct flux_error_t *flux_analyze_with(struct flux_stateful_analyzer_t *a, const char * src, struct flux_ast_pkg_t *p, struct flux_semantic_pkg_t **o){ *o=NULL; return &the_err; }
struct flux_error_t *flux_analyze(struct flux_ast_pkg_t *p, const char * o, struct flux_semantic_pkg_t **out){ *out=NULL; return &the_err; }
struct flux_error_t *flux_find_var_type(struct flux_semantic_pkg_t *p, const char *v, struct flux_buffer_t *b){ return &the_err; }
void flux_free_semantic_pkg(struct flux_semantic_pkg_t*p){}
struct flux_error_t *flux_semantic_marshal_fb(struct flux_semantic_pkg_t *p, struct flux_buffer_t *b){ return &the_err; }
