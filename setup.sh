#!/bin/sh
# Run once after a fresh restore (offline): builds the libflux stub and pre-compiles the harness drivers.
set -e
cd "$(dirname "$0")"
. ./env.sh
./stubflux/build.sh
mkdir -p build/bin evidence
cd harness
cp /repo/go.sum go.sum 2>/dev/null || true
for d in cmd/*/; do
  n=$(basename "$d")
  go build -tags verif -o ../build/bin/$n ./cmd/$n || echo "WARN: build of $n failed (the check will report it)" >&2
done
echo setup done
