// Package rt is the shared runtime of the replay/record drivers: it reads cases (ndjson) produced
// from TLC output, runs an adapter on each case against the real code, and writes one result line per case.
package rt

import (
	"bufio"
	"encoding/json"
	"flag"
	"fmt"
	"os"
	"runtime/debug"
	"sync"
	"time"
)

// Result is one line of the results file.
type Result struct {
	ID         int               `json:"id"`
	OK         bool              `json:"ok"`
	Kind       string            `json:"kind,omitempty"` // "violation" | "infra" | "panic" | "hang"
	Step       int               `json:"step,omitempty"` // index of the diverging step (0-based), -1 if n/a
	Msg        string            `json:"msg,omitempty"`
	Got        interface{}       `json:"got,omitempty"`
	Want       interface{}       `json:"want,omitempty"`
	Patterns   []string          `json:"patterns,omitempty"` // known-finding patterns this divergence satisfies
	Drift      []string          `json:"drift,omitempty"`    // non-property projections that differed
	Nontrivial bool              `json:"nontrivial,omitempty"`
	Sig        string            `json:"sig,omitempty"`  // signature for distinctness counting
	Evals      int               `json:"evals,omitempty"` // number of comparisons made for this case
	Extra      map[string]interface{} `json:"extra,omitempty"`
}

// Env is given to the adapter for each case.
type Env struct {
	Seed    int64
	Scratch string // per-process scratch dir (exists)
	Args    map[string]string
	Worker  int
}

// Adapter runs one case. It must not keep state between cases.
type Adapter func(raw json.RawMessage, env *Env) Result

// Fail is a helper for a property violation.
func Fail(step int, msg string, got, want interface{}, patterns ...string) Result {
	return Result{OK: false, Kind: "violation", Step: step, Msg: msg, Got: got, Want: want, Patterns: patterns}
}

// Infra is a helper for harness/infrastructure problems (never a violation).
func Infra(msg string) Result { return Result{OK: false, Kind: "infra", Step: -1, Msg: msg} }

type kv map[string]string

func (k kv) String() string { return fmt.Sprint(map[string]string(k)) }
func (k kv) Set(s string) error {
	for i := 0; i < len(s); i++ {
		if s[i] == '=' {
			k[s[:i]] = s[i+1:]
			return nil
		}
	}
	k[s] = "1"
	return nil
}

// Main is the entry point of every replay driver.
func Main(a Adapter) {
	in := flag.String("in", "", "cases ndjson")
	out := flag.String("out", "", "results ndjson")
	par := flag.Int("par", 1, "parallel workers (goroutines)")
	seed := flag.Int64("seed", 1, "seed")
	scratch := flag.String("scratch", "", "scratch dir")
	caseTimeout := flag.Duration("case-timeout", 120*time.Second, "per-case watchdog")
	args := kv{}
	flag.Var(args, "arg", "adapter argument k=v (repeatable)")
	flag.Parse()
	if *scratch == "" {
		d, err := os.MkdirTemp("", "verif-replay-")
		if err != nil {
			fmt.Fprintln(os.Stderr, err)
			os.Exit(2)
		}
		defer os.RemoveAll(d)
		*scratch = d
	}
	f, err := os.Open(*in)
	if err != nil {
		fmt.Fprintln(os.Stderr, err)
		os.Exit(2)
	}
	defer f.Close()
	of, err := os.Create(*out)
	if err != nil {
		fmt.Fprintln(os.Stderr, err)
		os.Exit(2)
	}
	w := bufio.NewWriterSize(of, 1<<20)
	var wmu sync.Mutex
	type job struct {
		id  int
		raw json.RawMessage
	}
	jobs := make(chan job, 64)
	var wg sync.WaitGroup
	for i := 0; i < *par; i++ {
		wg.Add(1)
		go func(worker int) {
			defer wg.Done()
			dir := fmt.Sprintf("%s/w%d", *scratch, worker)
			os.MkdirAll(dir, 0o755)
			env := &Env{Seed: *seed, Scratch: dir, Args: args, Worker: worker}
			for j := range jobs {
				r := runOne(a, j.raw, env, *caseTimeout)
				r.ID = j.id
				b, err := json.Marshal(r)
				if err != nil {
					b, _ = json.Marshal(Result{ID: j.id, Kind: "infra", Msg: "marshal result: " + err.Error()})
				}
				wmu.Lock()
				w.Write(b)
				w.WriteByte('\n')
				w.Flush() // a crash of the code under test in a background goroutine must not lose earlier results
				wmu.Unlock()
			}
		}(i)
	}
	sc := bufio.NewScanner(f)
	sc.Buffer(make([]byte, 1<<20), 1<<28)
	n := 0
	for sc.Scan() {
		line := sc.Bytes()
		if len(line) == 0 {
			continue
		}
		cp := make([]byte, len(line))
		copy(cp, line)
		jobs <- job{id: n, raw: cp}
		n++
	}
	close(jobs)
	wg.Wait()
	w.Flush()
	of.Close()
	if err := sc.Err(); err != nil {
		fmt.Fprintln(os.Stderr, "read cases:", err)
		os.Exit(2)
	}
}

func runOne(a Adapter, raw json.RawMessage, env *Env, to time.Duration) (res Result) {
	done := make(chan Result, 1)
	go func() {
		defer func() {
			if p := recover(); p != nil {
				done <- Result{OK: false, Kind: "panic", Step: -1, Msg: fmt.Sprintf("panic: %v\n%s", p, debug.Stack())}
			}
		}()
		done <- a(raw, env)
	}()
	select {
	case r := <-done:
		return r
	case <-time.After(to):
		return Result{OK: false, Kind: "hang", Step: -1, Msg: fmt.Sprintf("case did not finish within %s", to)}
	}
}
