module verif/harness

go 1.26.3

require (
	github.com/benbjohnson/clock v1.1.0
	github.com/cespare/xxhash/v2 v2.3.0
	github.com/go-crypt/crypt v0.3.2
	github.com/golang-jwt/jwt/v4 v4.5.2
	github.com/influxdata/flux v0.200.0
	github.com/influxdata/influxdb/v2 v2.3.0
	github.com/influxdata/influxql v1.4.1
	go.uber.org/zap v1.27.0
	google.golang.org/protobuf v1.36.10
)

require (
	github.com/BurntSushi/toml v1.4.0 // indirect
	github.com/Masterminds/squirrel v1.5.0 // indirect
	github.com/NYTimes/gziphandler v1.0.1 // indirect
	github.com/RoaringBitmap/roaring v0.4.16 // indirect
	github.com/andreyvit/diff v0.0.0-20170406064948-c7f18ee00883 // indirect
	github.com/apache/arrow-go/v18 v18.4.0 // indirect
	github.com/benbjohnson/immutable v0.4.3 // indirect
	github.com/beorn7/perks v1.0.1 // indirect
	github.com/buger/jsonparser v1.1.1 // indirect
	github.com/davecgh/go-spew v1.1.2-0.20180830191138-d8f796af33cc // indirect
	github.com/dgryski/go-bitstream v0.0.0-20180413035011-3522498ce2c8 // indirect
	github.com/dustin/go-humanize v1.0.1 // indirect
	github.com/elazarl/go-bindata-assetfs v1.0.1 // indirect
	github.com/fsnotify/fsnotify v1.5.4 // indirect
	github.com/glycerine/go-unsnap-stream v0.0.0-20181221182339-f9677308dec2 // indirect
	github.com/go-chi/chi v4.1.0+incompatible // indirect
	github.com/go-crypt/x v0.3.2 // indirect
	github.com/go-stack/stack v1.8.0 // indirect
	github.com/goccy/go-json v0.10.5 // indirect
	github.com/gofrs/uuid v3.3.0+incompatible // indirect
	github.com/golang/gddo v0.0.0-20181116215533-9bd4a3295021 // indirect
	github.com/golang/mock v1.6.0 // indirect
	github.com/golang/snappy v1.0.0 // indirect
	github.com/google/btree v1.1.3 // indirect
	github.com/google/flatbuffers v25.9.23+incompatible // indirect
	github.com/google/go-cmp v0.7.0 // indirect
	github.com/hashicorp/errwrap v1.1.0 // indirect
	github.com/hashicorp/go-multierror v1.1.1 // indirect
	github.com/hashicorp/hcl v1.0.0 // indirect
	github.com/influxdata/cron v0.0.0-20201006132531-4bb0a200dcbe // indirect
	github.com/influxdata/httprouter v1.3.1-0.20191122104820-ee83e2772f69 // indirect
	github.com/influxdata/influx-cli/v2 v2.7.1-0.20250130214939-76d1c4d9b777 // indirect
	github.com/jmoiron/sqlx v1.3.4 // indirect
	github.com/jsternberg/zap-logfmt v1.2.0 // indirect
	github.com/jwilder/encoding v0.0.0-20170811194829-b4e1701a28ef // indirect
	github.com/klauspost/cpuid/v2 v2.2.11 // indirect
	github.com/lann/builder v0.0.0-20180802200727-47ae307949d0 // indirect
	github.com/lann/ps v0.0.0-20150810152359-62de8c46ede0 // indirect
	github.com/magiconair/properties v1.8.7 // indirect
	github.com/mattn/go-isatty v0.0.20 // indirect
	github.com/mattn/go-sqlite3 v1.14.18 // indirect
	github.com/mileusna/useragent v0.0.0-20190129205925-3e331f0949a5 // indirect
	github.com/mitchellh/mapstructure v1.5.0 // indirect
	github.com/opentracing/opentracing-go v1.2.0 // indirect
	github.com/pelletier/go-toml v1.9.5 // indirect
	github.com/philhofer/fwd v1.0.0 // indirect
	github.com/pkg/errors v0.9.1 // indirect
	github.com/pmezard/go-difflib v1.0.1-0.20181226105442-5d4384ee4fb2 // indirect
	github.com/prometheus/client_golang v1.19.1 // indirect
	github.com/prometheus/client_model v0.6.2 // indirect
	github.com/prometheus/common v0.53.0 // indirect
	github.com/prometheus/procfs v0.15.0 // indirect
	github.com/sergi/go-diff v1.1.0 // indirect
	github.com/spf13/afero v1.10.0 // indirect
	github.com/spf13/cast v1.3.0 // indirect
	github.com/spf13/cobra v1.7.0 // indirect
	github.com/spf13/jwalterweatherman v1.0.0 // indirect
	github.com/spf13/pflag v1.0.6 // indirect
	github.com/spf13/viper v1.6.1 // indirect
	github.com/stretchr/testify v1.11.1 // indirect
	github.com/subosito/gotenv v1.2.0 // indirect
	github.com/tinylib/msgp v1.1.0 // indirect
	github.com/uber/jaeger-client-go v2.28.0+incompatible // indirect
	github.com/uber/jaeger-lib v2.4.1+incompatible // indirect
	github.com/xlab/treeprint v1.0.0 // indirect
	github.com/zeebo/xxh3 v1.0.2 // indirect
	go.etcd.io/bbolt v1.3.6 // indirect
	go.uber.org/atomic v1.11.0 // indirect
	go.uber.org/multierr v1.11.0 // indirect
	golang.org/x/crypto v0.48.0 // indirect
	golang.org/x/exp v0.0.0-20250408133849-7e4ce0ab07d0 // indirect
	golang.org/x/sync v0.19.0 // indirect
	golang.org/x/sys v0.41.0 // indirect
	golang.org/x/text v0.34.0 // indirect
	golang.org/x/time v0.11.0 // indirect
	golang.org/x/xerrors v0.0.0-20240903120638-7835f813f4da // indirect
	gopkg.in/ini.v1 v1.51.0 // indirect
	gopkg.in/yaml.v2 v2.4.0 // indirect
	gopkg.in/yaml.v3 v3.0.1 // indirect
)

replace github.com/influxdata/influxdb/v2 => /repo
