module verif/harness

go 1.26.3

require github.com/influxdata/influxdb/v2 v2.3.0

require (
	go.uber.org/multierr v1.11.0 // indirect
	go.uber.org/zap v1.27.0 // indirect
)

replace github.com/influxdata/influxdb/v2 => /repo
