// Replay driver for spec/TSMEngine.tla (C01, C03; to be extended for C02, C38, C39) on a real tsdb.Shard
// (tsm1 engine + tsi1 index + series file in a temp dir).
//
// A case is one TLC behaviour: {"steps":[{"a":<action>, <args>, "exp":{m,w,d}}, ...], "nkeys":n, "ntimes":m, "conc":c}.
// Every spec action is mapped to the real code:
//
//	Write                        Shard.WritePoints (one call)
//	CacheWrite ; WriteAck        Shard.WritePoints in a goroutine, parked at hook write.afterCacheWrite, then released
//	SnapBegin .. SnapWALRemove   Engine.WriteSnapshot in a goroutine, parked at snapshot.afterCacheSnapshot /
//	                             .afterWriteFiles / .afterReplace / .afterClearSnapshot, then run to its end
//	CompactStart/Merge/Replace   Engine.VerifCompactGroup (the engine's own compactionStrategy, registered in the
//	                             level-compaction wait group as Engine.compact does) on files[lo..hi] of the FileStore,
//	                             kind (fast | level | full | optimize), level and points-per-block chosen by seed,
//	                             parked at compact.begin / compact.afterWriteFiles, then run to its end
//	CompactAbort                 the parked compaction is released after the delete disabled compactions
//	DeleteCall .. DeleteAck      Shard.DeleteSeriesRange in a goroutine, parked at levelCompactions.disabling (only when
//	                             the spec says it must wait for a compaction) / delete.begin / .afterTombstones /
//	                             .afterCacheDelete / .afterWALDelete, then run to its end
//	Reopen                       Shard.Close ; SeriesFile.Close ; open again
//
// A job is parked only at the hook the behaviour names next; every other hook is passed through. So if the real code
// does not block where the spec says it blocks (e.g. a delete that does not wait for a running compaction), the real
// effects happen early and show up in the reads, which is where they are judged.
//
// After every step every key is read over every sub-range of the abstract time domain (plus the whole valid domain),
// ascending and descending, through Shard.CreateCursorIterator -> typed array cursors, and compared for equality with
// the spec's exp.m (the model). While the spec says a delete / write is half-applied (exp.d / exp.w) the points it
// names may each be in their old or new state. Abstract keys, timestamps, values and compaction parameters are
// concretised by (seed, conc): all five field types, timestamps around 0 / models.MinNanoTime / models.MaxNanoTime,
// escape-heavy series keys, one or two measurements, with or without a never-deleted anchor series.
//
// Known-finding predicates (computed by knownPatterns from the behaviour's own records -- snapshot contents and delete
// key/range are fields of the spec's hist records, nothing is recomputed here):
//   - delete_between_snapshot_begin_and_replace (F1): the divergence consists only of extra (resurrected) points and each
//     is in (content of a snapshot of the behaviour) ∩ (key and range of a delete of the behaviour) where that delete was
//     in flight at some moment between that snapshot's SnapBegin and SnapReplace;
//   - series_dropped_while_points_in_snapshot (F1b): a series reads empty and all the points it should have are in the
//     content of such a snapshot (same window, delete of that series).
//
// Any divergence not fully explained by these stays a VIOLATION.
//
// The schedule hook is process-wide: run with -par 1 (the check shards over processes instead).
package main

import (
	"context"
	"encoding/json"
	"errors"
	"fmt"
	"math"
	"os"
	"path/filepath"
	"runtime"
	"sort"
	"strings"
	"sync"
	"time"

	"github.com/influxdata/influxdb/v2/models"
	"github.com/influxdata/influxdb/v2/toml"
	"github.com/influxdata/influxdb/v2/tsdb"
	"github.com/influxdata/influxdb/v2/tsdb/cursors"
	_ "github.com/influxdata/influxdb/v2/tsdb/engine"
	"github.com/influxdata/influxdb/v2/tsdb/engine/tsm1"
	_ "github.com/influxdata/influxdb/v2/tsdb/index"
	"github.com/influxdata/influxql"
	"go.uber.org/zap"
	"verif/harness/rt"
)

// ---------------------------------------------------------------------------------------------- case format

type expT struct {
	M [][][2]int64 `json:"m"` // per key (index key-1): ascending [t, v]
	W [][3]int64   `json:"w"` // half-applied write: [k, t, v]
	D []int64      `json:"d"` // half-applied delete: [k, lo, hi] or empty
}

type stepT struct {
	A       string       `json:"a"`
	Pts     [][3]int64   `json:"pts"`
	Snap    [][][2]int64 `json:"snap"`
	K       int64        `json:"k"`
	Lo      int64        `json:"lo"`
	Hi      int64        `json:"hi"`
	Blocked bool         `json:"blocked"`
	Closing bool         `json:"closing"` // WriteFinish: a Shard.Close is waiting for this write
	Exp     expT         `json:"exp"`
	// C38 (backup.go): Backup(since) / Export(lo, hi) records of TSMEngineBackup.tla
	Since   int64           `json:"since"`
	Arch    [][]interface{} `json:"arch"`    // {<<gen, seq, "tsm" | "tombstone">>}
	Clock   int64           `json:"clock"`   // logical clock after the step
	RNoTomb [][][2]int64    `json:"rnotomb"` // a restore that drops the archive's tombstone files shows this
	Want    [][][2]int64    `json:"want"`    // Export: the model restricted to [lo, hi]
	Blk     [][][2]int64    `json:"blk"`     // Export: the implementation layer's prediction (whole blocks)
	Tombs   bool            `json:"tombs"`   // Export: some TSM file has a tombstone file
}

type caseT struct {
	Steps  []stepT `json:"steps"`
	NKeys  int     `json:"nkeys"`
	NTimes int     `json:"ntimes"`
	Conc   int     `json:"conc"`
	Prop   string  `json:"prop"`
	Images int     `json:"images"` // C02: crash images at schedule points / step boundaries this case may take
	Torn   int     `json:"torn"`   // C02: crash images with a torn tail this case may take
	Sweep  string  `json:"sweep"`  // C02: "full" = every byte offset of short WAL appends
}

// ---------------------------------------------------------------------------------------------- concretisation

type keyC struct {
	meas  string
	tags  models.Tags
	field string
	typ   int // 0 float, 1 integer, 2 unsigned, 3 string, 4 boolean
}

type concT struct {
	keys       []keyC
	times      []int64 // index t-1
	anchor     bool
	fullRange  bool // a delete of the whole abstract domain is issued as [MinInt64, MaxInt64]
	reverseBat bool // order of the lines of a batch with distinct points
	h          uint64
}

var typeNames = []string{"float", "integer", "unsigned", "string", "boolean"}

func mix(a ...uint64) uint64 {
	h := uint64(1469598103934665603)
	for _, x := range a {
		for i := 0; i < 8; i++ {
			h ^= (x >> (8 * uint(i))) & 0xff
			h *= 1099511628211
		}
	}
	h ^= h >> 29
	h *= 0xbf58476d1ce4e5b9
	h ^= h >> 32
	return h
}

func mixBytes(b []byte) uint64 {
	h := uint64(1469598103934665603)
	for _, x := range b {
		h ^= uint64(x)
		h *= 1099511628211
	}
	return h
}

func concretise(seed int64, c *caseT) *concT {
	h := mix(uint64(seed), uint64(c.Conc), 0x5eed)
	cc := &concT{h: h}
	// timestamps
	n := c.NTimes
	cc.times = make([]int64, n)
	switch h % 5 {
	case 0: // around zero, crossing it
		for i := 0; i < n; i++ {
			cc.times[i] = int64(i) - 1
		}
	case 1: // at the lower end of the valid domain
		for i := 0; i < n; i++ {
			cc.times[i] = models.MinNanoTime + int64(i)
		}
	case 2: // at the upper end of the valid domain
		for i := 0; i < n; i++ {
			cc.times[i] = models.MaxNanoTime - int64(n-1-i)
		}
	case 3: // both ends and zero
		for i := 0; i < n; i++ {
			cc.times[i] = int64(i-n/2) * 1000000007
		}
		cc.times[0] = models.MinNanoTime
		cc.times[n-1] = models.MaxNanoTime
	default: // seconds apart, positive
		for i := 0; i < n; i++ {
			cc.times[i] = 1700000000000000000 + int64(i)*1000000000
		}
	}
	// keys
	oneMeas := (h>>8)%2 == 0
	measNames := []string{"cpu", "m e,a=s", "disk\"io"}
	tagKeys := []string{"host", "ho st", "h,k"}
	tagVals := [][]string{{"a", "b", "c", "d"}, {"z z", "y=y", "x,x", "w\"w"}, {"srv,01 =x", "srv,01 =w", "srv", "s"}}
	mi := int((h >> 12) % 3)
	ti := int((h >> 16) % 3)
	vi := int((h >> 20) % 3)
	t0 := int((h >> 24) % 5)
	for i := 0; i < c.NKeys; i++ {
		meas := measNames[mi]
		if !oneMeas {
			meas = fmt.Sprintf("%s%d", measNames[mi], i)
		}
		cc.keys = append(cc.keys, keyC{
			meas:  meas,
			tags:  models.NewTags(map[string]string{tagKeys[ti]: tagVals[vi][i%4]}),
			field: fmt.Sprintf("f%d", i),
			typ:   (t0 + i*int(1+(h>>28)%4)) % 5,
		})
	}
	cc.anchor = (h>>32)%2 == 0
	cc.fullRange = (h>>33)%2 == 0
	cc.reverseBat = (h>>34)%2 == 0
	return cc
}

func (cc *concT) describe() string {
	var ks []string
	for _, k := range cc.keys {
		ks = append(ks, fmt.Sprintf("%s:%s", string(models.MakeKey([]byte(k.meas), k.tags))+"#"+k.field, typeNames[k.typ]))
	}
	return fmt.Sprintf("keys=%v times=%v anchor=%v fullRange=%v", ks, cc.times, cc.anchor, cc.fullRange)
}

// value of abstract value number v for a field type
func concValue(typ int, v int64) interface{} {
	switch typ {
	case 0:
		return float64(v)*1.5 - 2.25
	case 1:
		return v*1000003 - 2000006
	case 2:
		return uint64(v) + (uint64(1) << 63)
	case 3:
		return fmt.Sprintf("v%d \"q\", x=y", v)
	default:
		return v%2 == 1
	}
}

type tv struct {
	T int64
	V interface{}
}

func fmtTV(xs []tv) string {
	var b strings.Builder
	for i, x := range xs {
		if i > 0 {
			b.WriteByte(' ')
		}
		fmt.Fprintf(&b, "%d=%v", x.T, x.V)
	}
	return b.String()
}

// ---------------------------------------------------------------------------------------------- real shard

type sets []*tsdb.SeriesIDSet

func (a sets) ForEach(f func(ids *tsdb.SeriesIDSet)) error {
	for _, v := range a {
		f(v)
	}
	return nil
}

// quietPlanner is the engine's own planner with planning switched off, so that the background compaction loop (which
// must run: deletes stop it and wait for it, and restart it afterwards) never starts a compaction by itself; the
// behaviours decide which groups are compacted and when.
type quietPlanner struct{ tsm1.CompactionPlanner }

func (quietPlanner) Plan(tsm1.TsmGenerations, time.Time) ([]tsm1.CompactionGroup, int64) {
	return nil, 0
}
func (quietPlanner) PlanLevel(tsm1.TsmGenerations, int) ([]tsm1.CompactionGroup, int64) {
	return nil, 0
}
func (quietPlanner) PlanOptimize(tsm1.TsmGenerations, time.Time) ([]tsm1.CompactionGroup, int64, int64) {
	return nil, 0, 0
}

type shardEnv struct {
	root  string
	sfile *tsdb.SeriesFile
	sh    *tsdb.Shard
	eng   *tsm1.Engine
}

func (e *shardEnv) open() error {
	dbPath := filepath.Join(e.root, "data", "db0")
	if err := os.MkdirAll(dbPath, 0o777); err != nil {
		return err
	}
	e.sfile = tsdb.NewSeriesFile(filepath.Join(dbPath, tsdb.SeriesFileDirectory))
	e.sfile.Logger = zap.NewNop()
	if err := e.sfile.Open(); err != nil {
		return err
	}
	opt := tsdb.NewEngineOptions()
	opt.IndexVersion = tsdb.TSI1IndexName
	opt.SeriesIDSets = sets{tsdb.NewSeriesIDSet()}
	// the background loops must never act by themselves during a case
	opt.Config.CacheSnapshotWriteColdDuration = toml.Duration(1000 * time.Hour)
	opt.Config.CompactFullWriteColdDuration = toml.Duration(1000 * time.Hour)
	e.sh = tsdb.NewShard(1, filepath.Join(dbPath, "rp0", "1"), filepath.Join(e.root, "wal", "db0", "rp0", "1"), e.sfile, opt)
	e.sh.EnableOnOpen = false
	if err := e.sh.Open(context.Background()); err != nil {
		e.sfile.Close()
		return err
	}
	e.sh.SetEnabled(true)
	eng, err := e.sh.Engine()
	if err != nil {
		return err
	}
	e.eng = eng.(*tsm1.Engine)
	// swap the planner while the background loops are stopped, then run them as in production (snapshot and level
	// compactions enabled): DeleteSeriesRange stops the level loop, waits for it, and restarts it afterwards
	e.eng.SetCompactionsEnabled(false)
	e.eng.CompactionPlan = quietPlanner{e.eng.CompactionPlan}
	e.eng.SetCompactionsEnabled(true)
	return nil
}

func (e *shardEnv) close() error {
	err := e.sh.Close()
	if e2 := e.sfile.Close(); err == nil {
		err = e2
	}
	return err
}

// one-element series iterator for DeleteSeriesRange (by key: the delete must not depend on the index still knowing the series)
type seriesElem struct {
	name []byte
	tags models.Tags
}

func (e seriesElem) Name() []byte        { return e.name }
func (e seriesElem) Tags() models.Tags   { return e.tags }
func (e seriesElem) Deleted() bool       { return false }
func (e seriesElem) Expr() influxql.Expr { return nil }

type seriesItr struct {
	elems []seriesElem
	i     int
}

func (s *seriesItr) Close() error { return nil }
func (s *seriesItr) Next() (tsdb.SeriesElem, error) {
	if s.i >= len(s.elems) {
		return nil, nil
	}
	s.i++
	return s.elems[s.i-1], nil
}

func (e *shardEnv) read(k keyC, lo, hi int64, asc bool) ([]tv, error) {
	itr, err := e.sh.CreateCursorIterator(context.Background())
	if err != nil {
		return nil, err
	}
	cur, err := itr.Next(context.Background(), &cursors.CursorRequest{Name: []byte(k.meas), Tags: k.tags, Field: k.field,
		Ascending: asc, StartTime: lo, EndTime: hi})
	if err != nil {
		return nil, err
	}
	var out []tv
	if cur == nil {
		return out, nil
	}
	defer cur.Close()
	for guard := 0; guard < 1000; guard++ {
		n := 0
		switch c := cur.(type) {
		case cursors.FloatArrayCursor:
			a := c.Next()
			n = a.Len()
			for i := 0; i < n; i++ {
				out = append(out, tv{a.Timestamps[i], a.Values[i]})
			}
		case cursors.IntegerArrayCursor:
			a := c.Next()
			n = a.Len()
			for i := 0; i < n; i++ {
				out = append(out, tv{a.Timestamps[i], a.Values[i]})
			}
		case cursors.UnsignedArrayCursor:
			a := c.Next()
			n = a.Len()
			for i := 0; i < n; i++ {
				out = append(out, tv{a.Timestamps[i], a.Values[i]})
			}
		case cursors.StringArrayCursor:
			a := c.Next()
			n = a.Len()
			for i := 0; i < n; i++ {
				out = append(out, tv{a.Timestamps[i], a.Values[i]})
			}
		case cursors.BooleanArrayCursor:
			a := c.Next()
			n = a.Len()
			for i := 0; i < n; i++ {
				out = append(out, tv{a.Timestamps[i], a.Values[i]})
			}
		default:
			return nil, fmt.Errorf("unexpected cursor type %T", cur)
		}
		if n == 0 {
			return out, cur.Err()
		}
	}
	return nil, fmt.Errorf("cursor did not terminate")
}

// ---------------------------------------------------------------------------------------------- parked jobs

var stepTimeout = 20 * time.Second // (C02 raises it: crash images are judged inside schedule points)

type job struct {
	kind     string
	mu       sync.Mutex
	targets  []string // park at the first of these hooks that is reached; none = run to the end
	parkedCh chan string
	release  chan struct{}
	done     chan error
	at       string // hook the job is parked at ("" = running / not parked)
	finished bool
	err      error
	passed   []string
}

var (
	hookMu sync.Mutex
	jobs   = map[string]*job{}
	hung   bool
)

func kindOf(name string) string {
	switch {
	case strings.HasPrefix(name, "snapshot."):
		return "snap"
	case strings.HasPrefix(name, "compact."):
		return "comp"
	case strings.HasPrefix(name, "delete."), strings.HasPrefix(name, "levelCompactions."):
		return "del"
	case strings.HasPrefix(name, "write."):
		return "write"
	case name == "shard.write.before_engine":
		return "wenter"
	}
	return ""
}

// shardHook is installed with tsdb.VerifSetHook: of the tsdb schedule points only the one between a write's field validation
// and its engine write is a park point here (C39 close race); the field-set points belong to harness/cmd/fieldset.
func shardHook(name string) {
	if name == "shard.write.before_engine" {
		hook(name)
	}
}

// hook is installed with tsm1.VerifSetHook; it runs on the goroutine that reached the schedule point.
func hook(name string) {
	if observeHook(name) { // C02 (crash.go): crash images at schedule points; points of a shard opened on an image are ignored
		return
	}
	hookMu.Lock()
	j := jobs[kindOf(name)]
	hookMu.Unlock()
	if j == nil {
		return
	}
	j.mu.Lock()
	park := false
	for _, t := range j.targets {
		park = park || t == name
	}
	if !park {
		j.passed = append(j.passed, name)
	}
	j.mu.Unlock()
	if park {
		j.parkedCh <- name
		<-j.release
	}
}

func startJob(kind, target string, fn func() error) *job {
	j := &job{kind: kind, targets: []string{target}, parkedCh: make(chan string), release: make(chan struct{}), done: make(chan error, 1)}
	hookMu.Lock()
	jobs[kind] = j
	hookMu.Unlock()
	go func() { j.done <- fn() }()
	return j
}

// wait until the job parks at its target or ends
func (j *job) wait() error {
	select {
	case name := <-j.parkedCh:
		j.at = name
		return nil
	case err := <-j.done:
		j.finished = true
		j.err = err
		hookMu.Lock()
		if jobs[j.kind] == j {
			delete(jobs, j.kind)
		}
		hookMu.Unlock()
		return nil
	case <-time.After(stepTimeout):
		hung = true
		buf := make([]byte, 1<<20)
		buf = buf[:runtime.Stack(buf, true)]
		var blocked []string
		for _, g := range strings.Split(string(buf), "\n\n") {
			if strings.Contains(g, "tsm1.(*Engine)") || strings.Contains(g, "tsdb.(*Shard)") {
				lines := strings.Split(g, "\n")
				if len(lines) > 13 {
					lines = lines[:13]
				}
				blocked = append(blocked, strings.Join(lines, " | "))
			}
		}
		return fmt.Errorf("job %s neither reached %v nor ended within %s (passed %v); engine goroutines: %s", j.kind, j.targets,
			stepTimeout, j.passed, strings.Join(blocked, " ;; "))
	}
}

// advance releases the job (if parked) towards the next park points (none = the end); a job that is already parked
// at one of them stays there.
func (j *job) advance(targets ...string) error {
	if j.finished {
		return nil
	}
	for _, t := range targets {
		if t == j.at {
			return nil
		}
	}
	j.mu.Lock()
	j.targets = targets
	j.mu.Unlock()
	if j.at != "" {
		j.at = ""
		j.release <- struct{}{}
	}
	return j.wait()
}

// ---------------------------------------------------------------------------------------------- the adapter

type snapRec struct {
	begin, replace int
	content        [][][2]int64
}
type delRec struct {
	call, ack int
	k, lo, hi int64
}

type runner struct {
	c     *caseT
	cc    *concT
	env   *shardEnv
	snap  *job
	comp  *job
	del   *job
	write *job
	// C39 close race: a write parked before Engine.WritePoints, and the Shard.Close that was called meanwhile
	wenter    *job
	closeDone chan error
	abandon   bool
	shClosed  bool // the pending Close has completed (the series file is closed with it); Reopen only opens
	snaps     []snapRec
	dels      []delRec
	evals     int
	drift     map[string]bool
	sig       map[string]bool
	// values written so far per (key, time), from the behaviour's Write records
	written map[[2]int64][]int64
}

func (r *runner) point(k keyC, t int64, v int64) (models.Point, error) {
	return models.NewPoint(k.meas, k.tags, models.Fields{k.field: concValue(k.typ, v)}, time.Unix(0, t))
}

func (r *runner) batch(pts [][3]int64) ([]models.Point, error) {
	var out []models.Point
	for _, p := range pts {
		pt, err := r.point(r.cc.keys[p[0]-1], r.cc.times[p[1]-1], p[2])
		if err != nil {
			return nil, err
		}
		out = append(out, pt)
	}
	if len(out) == 2 && r.cc.reverseBat && !(pts[0][0] == pts[1][0] && pts[0][1] == pts[1][1]) {
		out[0], out[1] = out[1], out[0]
	}
	return out, nil
}

func (r *runner) expected(e *expT, key int, lo, hi int64, asc bool) []tv {
	k := r.cc.keys[key]
	var out []tv
	for _, p := range e.M[key] {
		t := r.cc.times[p[0]-1]
		if t >= lo && t <= hi {
			out = append(out, tv{t, concValue(k.typ, p[1])})
		}
	}
	if !asc {
		for i, j := 0, len(out)-1; i < j; i, j = i+1, j-1 {
			out[i], out[j] = out[j], out[i]
		}
	}
	return out
}

func sameTV(a, b []tv) bool {
	if len(a) != len(b) {
		return false
	}
	for i := range a {
		if a[i].T != b[i].T || a[i].V != b[i].V {
			return false
		}
	}
	return true
}

func ordered(xs []tv, asc bool) bool {
	for i := 1; i < len(xs); i++ {
		if asc && xs[i-1].T >= xs[i].T || !asc && xs[i-1].T <= xs[i].T {
			return false
		}
	}
	return true
}

// acceptable: got equals want, except that (a) while a delete is half-applied (it has not returned yet, so C03 does not
// constrain it) each point of its key and range may be absent or carry any value ever written to it, and (b) the
// points of a half-applied (unacknowledged) write may have their old or new state.
func (r *runner) acceptable(e *expT, key int, lo, hi int64, asc bool, got, want []tv) bool {
	if sameTV(got, want) {
		return true
	}
	if len(e.D) == 0 && len(e.W) == 0 {
		return false
	}
	if !ordered(got, asc) {
		return false
	}
	loose := map[int64][]interface{}{} // time -> additional acceptable values (nil entry = may be absent)
	k := r.cc.keys[key]
	if len(e.D) == 3 && int(e.D[0]-1) == key {
		for ti := e.D[1]; ti <= e.D[2]; ti++ {
			t := r.cc.times[ti-1]
			loose[t] = append(loose[t], nil)
			for _, v := range r.written[[2]int64{int64(key + 1), ti}] {
				loose[t] = append(loose[t], concValue(k.typ, v))
			}
		}
	}
	for _, w := range e.W {
		if int(w[0]-1) == key {
			t := r.cc.times[w[1]-1]
			if t >= lo && t <= hi {
				loose[t] = append(loose[t], concValue(k.typ, w[2]))
			}
		}
	}
	wm := map[int64]interface{}{}
	for _, x := range want {
		wm[x.T] = x.V
	}
	gm := map[int64]interface{}{}
	for _, x := range got {
		gm[x.T] = x.V
	}
	for t, v := range gm {
		if wv, ok := wm[t]; ok && wv == v {
			continue
		}
		ok := false
		for _, a := range loose[t] {
			if a != nil && a == v {
				ok = true
			}
		}
		if !ok {
			return false
		}
	}
	for t := range wm {
		if _, ok := gm[t]; ok {
			continue
		}
		ok := false
		for _, a := range loose[t] {
			if a == nil {
				ok = true
			}
		}
		if !ok {
			return false
		}
	}
	return true
}

// knownPatterns computes the known-finding predicates that hold for the divergence observed now (see the file comment).
// Both take their inputs from the behaviour: snapshot contents and delete key/range are fields of the spec's records.
//
//	delete_between_snapshot_begin_and_replace   (F1)  every extra point is in snapshot content ∩ deleted range
//	series_dropped_while_points_in_snapshot     (F1b) a whole series reads empty; every point it should have is in the
//	                                                  content of a snapshot inside whose begin..replace window a delete of
//	                                                  that series was in flight (the delete found the series neither in the
//	                                                  hot store nor in a TSM file and dropped it from index and field set)
//
// Every differing key must be explained by one of them, otherwise no pattern is returned (=> VIOLATION).
func (r *runner) knownPatterns(e *expT) []string {
	overlapping := func(key int) (out [][2]int) { // (snapshot, delete) pairs: delete of `key` in flight inside begin..replace
		for si, s := range r.snaps {
			for di, d := range r.dels {
				if int(d.k-1) == key && d.call < s.replace && d.ack > s.begin {
					out = append(out, [2]int{si, di})
				}
			}
		}
		return
	}
	f1, f1b := false, false
	for key, k := range r.cc.keys {
		got, err := r.env.read(k, models.MinNanoTime, models.MaxNanoTime, true)
		if err != nil {
			return nil
		}
		want := r.expected(e, key, models.MinNanoTime, models.MaxNanoTime, true)
		if sameTV(got, want) {
			continue
		}
		wm := map[int64]interface{}{}
		for _, x := range want {
			wm[x.T] = x.V
		}
		gm := map[int64]interface{}{}
		for _, x := range got {
			gm[x.T] = x.V
		}
		inSnap := func(si int, t int64, v interface{}, lo, hi int64) bool {
			for _, p := range r.snaps[si].content[key] {
				if r.cc.times[p[0]-1] == t && concValue(k.typ, p[1]) == v && p[0] >= lo && p[0] <= hi {
					return true
				}
			}
			return false
		}
		pairs := overlapping(key)
		if len(got) == 0 {
			// F1b: the series vanished
			for _, x := range want {
				ok := false
				for _, pr := range pairs {
					ok = ok || inSnap(pr[0], x.T, x.V, 1, int64(len(r.cc.times)))
				}
				if !ok {
					return nil
				}
			}
			f1b = true
			continue
		}
		for t, v := range wm { // F1: nothing may be missing or changed ...
			if gv, ok := gm[t]; !ok || gv != v {
				return nil
			}
		}
		for t, v := range gm { // ... and every extra point is in snapshot content ∩ deleted range
			if _, ok := wm[t]; ok {
				continue
			}
			ok := false
			for _, pr := range pairs {
				d := r.dels[pr[1]]
				ok = ok || inSnap(pr[0], t, v, d.lo, d.hi)
			}
			if !ok {
				return nil
			}
		}
		f1 = true
	}
	var pats []string
	if f1 {
		pats = append(pats, "delete_between_snapshot_begin_and_replace")
	}
	if f1b {
		pats = append(pats, "series_dropped_while_points_in_snapshot")
	}
	return pats
}

const inf = 1 << 30

func (r *runner) checkReads(i int, s *stepT) *rt.Result {
	e := &s.Exp
	if len(e.M) != len(r.cc.keys) {
		res := rt.Infra(fmt.Sprintf("step %d: exp.m has %d keys, case has %d", i, len(e.M), len(r.cc.keys)))
		return &res
	}
	type rg struct{ lo, hi int64 }
	var ranges []rg
	for a := 0; a < len(r.cc.times); a++ {
		for b := a; b < len(r.cc.times); b++ {
			ranges = append(ranges, rg{r.cc.times[a], r.cc.times[b]})
		}
	}
	ranges = append(ranges, rg{models.MinNanoTime, models.MaxNanoTime})
	for key, k := range r.cc.keys {
		for _, g := range ranges {
			for _, asc := range []bool{true, false} {
				got, err := r.env.read(k, g.lo, g.hi, asc)
				r.evals++
				if err != nil {
					res := rt.Fail(i, fmt.Sprintf("read error after %s: %v", s.A, err), err.Error(), nil)
					return &res
				}
				want := r.expected(e, key, g.lo, g.hi, asc)
				if r.acceptable(e, key, g.lo, g.hi, asc, got, want) {
					continue
				}
				pats := r.knownPatterns(e)
				res := rt.Fail(i, fmt.Sprintf("after step %d (%s): read key %d [%d,%d] asc=%v returned {%s}, the model has {%s}  [%s]",
					i, s.A, key+1, g.lo, g.hi, asc, fmtTV(got), fmtTV(want), r.cc.describe()), fmtTV(got), fmtTV(want), pats...)
				return &res
			}
		}
	}
	return nil
}

func (r *runner) groupPaths(lo, hi int) ([]string, []string) {
	stats := r.env.eng.FileStore.Stats()
	var paths []string
	for _, s := range stats {
		paths = append(paths, s.Path)
	}
	sort.Strings(paths) // file names are zero-padded generation-sequence: lexical order = (generation, sequence)
	if r.cc.anchor {    // the anchor's own file (written at set-up, first generation) is not one of the spec's files
		if len(paths) == 0 {
			return nil, paths
		}
		paths = paths[1:]
	}
	if lo < 1 || hi > len(paths) || lo > hi {
		return nil, paths
	}
	return paths[lo-1 : hi], paths
}

func (r *runner) step(i int, s *stepT) *rt.Result {
	fail := func(msg string) *rt.Result {
		res := rt.Fail(i, fmt.Sprintf("step %d (%s): %s", i, s.A, msg), nil, nil)
		return &res
	}
	infra := func(msg string) *rt.Result {
		res := rt.Infra(fmt.Sprintf("step %d (%s): %s", i, s.A, msg))
		return &res
	}
	hang := func(err error) *rt.Result {
		res := rt.Result{OK: false, Kind: "hang", Step: i, Msg: fmt.Sprintf("step %d (%s): %v", i, s.A, err)}
		return &res
	}
	jobEnded := func(j *job, what string) *rt.Result {
		if j.finished && j.err != nil {
			return infra(what + " returned error: " + j.err.Error())
		}
		return nil
	}
	for _, p := range s.Pts {
		r.written[[2]int64{p[0], p[1]}] = append(r.written[[2]int64{p[0], p[1]}], p[2])
	}
	switch s.A {
	case "Write":
		pts, err := r.batch(s.Pts)
		if err != nil {
			return infra(err.Error())
		}
		if err := r.env.sh.WritePoints(context.Background(), pts); err != nil {
			return fail("WritePoints returned " + err.Error())
		}
		r.sig["write"] = true
	case "CacheWrite":
		pts, err := r.batch(s.Pts)
		if err != nil {
			return infra(err.Error())
		}
		r.write = startJob("write", "write.afterCacheWrite", func() error { return r.env.sh.WritePoints(context.Background(), pts) })
		if err := r.write.wait(); err != nil {
			return hang(err)
		}
	case "WriteAck":
		if err := r.write.advance(); err != nil {
			return hang(err)
		}
		if r.write.err != nil {
			return fail("WritePoints returned " + r.write.err.Error())
		}
	case "SnapBegin":
		r.snaps = append(r.snaps, snapRec{begin: i, replace: inf, content: s.Snap})
		r.snap = startJob("snap", "snapshot.afterCacheSnapshot", func() error { return r.env.eng.WriteSnapshot() })
		if err := r.snap.wait(); err != nil {
			return hang(err)
		}
		if r.snap.finished {
			return fail(fmt.Sprintf("WriteSnapshot ended before reaching the schedule point (err=%v)", r.snap.err))
		}
	case "SnapWrite", "SnapReplace", "SnapClear", "SnapWALRemove":
		target := map[string]string{"SnapWrite": "snapshot.afterWriteFiles", "SnapReplace": "snapshot.afterReplace",
			"SnapClear": "snapshot.afterClearSnapshot"}[s.A]
		if s.A == "SnapReplace" {
			r.snaps[len(r.snaps)-1].replace = i
		}
		var err error
		if s.A == "SnapWALRemove" {
			err = r.snap.advance()
		} else {
			err = r.snap.advance(target)
		}
		if err != nil {
			return hang(err)
		}
		if res := jobEnded(r.snap, "WriteSnapshot"); res != nil {
			return res
		}
		if r.snap.finished != (s.A == "SnapWALRemove") {
			return fail(fmt.Sprintf("WriteSnapshot finished=%v at this step (passed %v)", r.snap.finished, r.snap.passed))
		}
		if len(r.dels) > 0 {
			r.sig["snap+del"] = true
		}
	case "CompactStart":
		group, all := r.groupPaths(int(s.Lo), int(s.Hi))
		if group == nil {
			r.drift["file_count"] = true
			return infra(fmt.Sprintf("the spec compacts files %d..%d but the FileStore has %d files", s.Lo, s.Hi, len(all)))
		}
		hh := mix(r.cc.h, uint64(i))
		kind := []string{"fast", "level", "full", "optimize"}[hh%4]
		ppb := []int{1, 2, 3, 1000}[(hh>>8)%4]
		level := 1 + int((hh>>16)%3)
		var ch <-chan struct{}
		var ok bool
		r.comp = startJob("comp", "compact.begin", func() error {
			ch, ok = r.env.eng.VerifCompactGroup(tsm1.CompactionGroup(group), kind, level, ppb)
			if !ok {
				return fmt.Errorf("level compactions are disabled")
			}
			<-ch
			return nil
		})
		if err := r.comp.wait(); err != nil {
			return hang(err)
		}
		if r.comp.finished {
			return fail(fmt.Sprintf("compaction did not start: %v", r.comp.err))
		}
		r.sig["compact-"+kind] = true
	case "CompactMerge":
		if err := r.comp.advance("compact.afterWriteFiles"); err != nil {
			return hang(err)
		}
		if r.comp.finished {
			return fail(fmt.Sprintf("compaction ended before its files were written (passed %v, err=%v)", r.comp.passed, r.comp.err))
		}
	case "CompactReplace", "CompactAbort":
		if err := r.comp.advance(); err != nil {
			return hang(err)
		}
		aborted := false
		for _, p := range r.comp.passed {
			if p == "compact.aborted" {
				aborted = true
			}
		}
		if aborted != (s.A == "CompactAbort") {
			r.drift["compaction_abort"] = true
		}
		if s.A == "CompactAbort" {
			r.sig["abort"] = true
		}
	case "DeleteCall":
		k := r.cc.keys[s.K-1]
		lo, hi := r.cc.times[s.Lo-1], r.cc.times[s.Hi-1]
		if r.cc.fullRange && s.Lo == 1 && int(s.Hi) == len(r.cc.times) {
			lo, hi = math.MinInt64, math.MaxInt64
		}
		r.dels = append(r.dels, delRec{call: i, ack: inf, k: s.K, lo: s.Lo, hi: s.Hi})
		target := "delete.begin"
		if s.Blocked {
			target = "levelCompactions.disabling"
		}
		itr := &seriesItr{elems: []seriesElem{{name: []byte(k.meas), tags: k.tags}}}
		r.del = startJob("del", target, func() error { return r.env.sh.DeleteSeriesRange(context.Background(), itr, lo, hi) })
		if err := r.del.wait(); err != nil {
			return hang(err)
		}
		if s.Blocked {
			r.sig["del-waits-for-compaction"] = true
		}
		if r.snap != nil && !r.snap.finished {
			r.sig["del-in-snapshot"] = true
		}
	case "DeleteProceed", "DeleteTombstone", "DeleteCache", "DeleteWAL", "DeleteAck":
		target := map[string]string{"DeleteProceed": "delete.begin", "DeleteTombstone": "delete.afterTombstones",
			"DeleteCache": "delete.afterCacheDelete", "DeleteWAL": "delete.afterWALDelete"}[s.A]
		// deleteSeriesRange returns early when nothing can overlap the range (the remaining spec steps are then no-ops);
		// the call must still not return (it takes Engine.mu) before the behaviour's DeleteAck
		var err error
		if s.A == "DeleteAck" {
			err = r.del.advance()
		} else {
			err = r.del.advance(target, "delete.beforeReturn")
		}
		if err != nil {
			return hang(err)
		}
		if res := jobEnded(r.del, "DeleteSeriesRange"); res != nil {
			return res
		}
		if s.A == "DeleteAck" {
			r.dels[len(r.dels)-1].ack = i
			if !r.del.finished {
				return fail("DeleteSeriesRange did not return")
			}
			r.sig["delete"] = true
		}
	case "WriteEnter":
		pts, err := r.batch(s.Pts)
		if err != nil {
			return infra(err.Error())
		}
		r.wenter = startJob("wenter", "shard.write.before_engine", func() error { return r.env.sh.WritePoints(context.Background(), pts) })
		if err := r.wenter.wait(); err != nil {
			return hang(err)
		}
		if r.wenter.finished {
			return infra(fmt.Sprintf("WritePoints ended before reaching shard.write.before_engine (err=%v)", r.wenter.err))
		}
	case "CloseTry":
		// Shard.Close while the write stands between its field validation and its engine write: it must wait for the write
		r.closeDone = make(chan error, 1)
		sh := r.env.sh
		go func(ch chan error) { ch <- sh.Close() }(r.closeDone)
		select {
		case err := <-r.closeDone:
			r.abandon = true // the shard is closed under the parked write: it stays parked, nothing is finished or read
			return fail(fmt.Sprintf("Shard.Close returned (err=%v) while a write was in flight between its field validation and "+
				"Engine.WritePoints: Close does not exclude a half-applied write", err))
		case <-time.After(closeRaceWait):
		}
		r.sig["close-waits-for-write"] = true
	case "WriteFinish":
		if err := r.wenter.advance(); err != nil {
			return hang(err)
		}
		if r.wenter.err != nil {
			return fail("WritePoints (in flight when Shard.Close was called) returned " + r.wenter.err.Error())
		}
		if s.Closing {
			if res := r.settleClose(); res != "" {
				return hang(errors.New(res))
			}
		}
	case "Reopen":
		if !r.shClosed {
			if err := r.env.close(); err != nil {
				return infra("close: " + err.Error())
			}
		}
		r.shClosed = false
		if err := r.env.open(); err != nil {
			return fail("reopen failed: " + err.Error())
		}
		r.sig["reopen"] = true
	default:
		return infra("unknown action " + s.A)
	}
	return nil
}

var closeRaceWait = 250 * time.Millisecond

// settleClose waits for the Shard.Close that CloseTry started (the write it waited for has returned) and closes the series file.
func (r *runner) settleClose() string {
	if r.closeDone == nil {
		return ""
	}
	select {
	case err := <-r.closeDone:
		r.closeDone = nil
		r.shClosed = true
		r.env.sfile.Close()
		if err != nil {
			return "the Shard.Close that waited for the write returned " + err.Error()
		}
		return ""
	case <-time.After(stepTimeout):
		hung = true
		return "Shard.Close did not return after the write it waited for was acknowledged"
	}
}

// finishJobs lets every parked goroutine run to its end (compaction first: a delete may be waiting for it; then the
// snapshot: it may hold Engine.mu, which the write's and the delete's return need). It reports whether any job was
// still in flight.
func (r *runner) finishJobs() (bool, error) {
	inflight := false
	var first error
	for _, j := range []*job{r.comp, r.snap, r.write, r.wenter, r.del} {
		if j != nil && !j.finished {
			inflight = true
			if err := j.advance(); err != nil && first == nil {
				first = err
			}
		}
	}
	hookMu.Lock()
	for k := range jobs {
		delete(jobs, k)
	}
	hookMu.Unlock()
	return inflight, first
}

// finModel is TSMEngine.tla's FinModel of a step's observation: the model once the half-applied write / delete that
// the spec reports (exp.w, exp.d) are acknowledged. The spec's action property FinStable says that nothing but issuing
// a new write or delete changes it, so it is what reads must return after the in-flight jobs have run to their end.
func finModel(e *expT) expT {
	out := expT{M: make([][][2]int64, len(e.M))}
	for k := range e.M {
		m := map[int64]int64{}
		for _, p := range e.M[k] {
			m[p[0]] = p[1]
		}
		for _, w := range e.W {
			if int(w[0]-1) == k {
				m[w[1]] = w[2]
			}
		}
		if len(e.D) == 3 && int(e.D[0]-1) == k {
			for t := e.D[1]; t <= e.D[2]; t++ {
				delete(m, t)
			}
		}
		var ts []int64
		for t := range m {
			ts = append(ts, t)
		}
		sort.Slice(ts, func(i, j int) bool { return ts[i] < ts[j] })
		out.M[k] = [][2]int64{}
		for _, t := range ts {
			out.M[k] = append(out.M[k], [2]int64{t, m[t]})
		}
	}
	return out
}

func runCase(raw json.RawMessage, env *rt.Env) rt.Result {
	if hung {
		return rt.Infra("an earlier case in this process hung; goroutines may still hold engine locks")
	}
	var c caseT
	if err := json.Unmarshal(raw, &c); err != nil {
		return rt.Infra("bad case: " + err.Error())
	}
	if c.NKeys <= 0 || c.NTimes <= 0 || len(c.Steps) == 0 {
		return rt.Infra("bad case: nkeys/ntimes/steps missing")
	}
	if c.Prop == "C02" {
		return runCrashCase(&c, raw, env)
	}
	if c.Prop == "C38" {
		return runBackupCase(&c, raw, env)
	}
	tsm1.VerifSetHook(hook)
	tsdb.VerifSetHook(shardHook)
	root, err := os.MkdirTemp(env.Scratch, "eng")
	if err != nil {
		return rt.Infra(err.Error())
	}
	defer os.RemoveAll(root)
	r := &runner{c: &c, cc: concretise(env.Seed, &c), env: &shardEnv{root: root}, drift: map[string]bool{}, sig: map[string]bool{},
		written: map[[2]int64][]int64{}}
	if err := r.env.open(); err != nil {
		return rt.Infra("open: " + err.Error())
	}
	closed := false
	defer func() {
		if !closed && !hung && !r.abandon {
			r.finishJobs()
			r.env.close()
		}
	}()
	if r.cc.anchor {
		// one never-deleted series per measurement keeps the measurement's field set alive across deletes
		seen := map[string]bool{}
		var pts []models.Point
		for _, k := range r.cc.keys {
			if seen[k.meas] {
				continue
			}
			seen[k.meas] = true
			p, err := models.NewPoint(k.meas, models.NewTags(map[string]string{"zz_anchor": "1"}), models.Fields{"anchor": int64(1)}, time.Unix(0, 42))
			if err != nil {
				return rt.Infra(err.Error())
			}
			pts = append(pts, p)
		}
		if err := r.env.sh.WritePoints(context.Background(), pts); err != nil {
			return rt.Infra("anchor write: " + err.Error())
		}
		// ... in a TSM file of its own (first generation) that no behaviour compacts, so that the files the spec talks
		// about are exactly the real files after the first one
		if err := r.env.eng.WriteSnapshot(); err != nil {
			return rt.Infra("anchor snapshot: " + err.Error())
		}
	}
	for i := range c.Steps {
		s := &c.Steps[i]
		if res := r.step(i, s); res != nil {
			res.Evals = r.evals
			return *res
		}
		if r.closeDone != nil || r.shClosed {
			continue // a Close is waiting on Shard.mu (readers queue behind it) or has completed: nothing can be read
		}
		if res := r.checkReads(i, s); res != nil {
			res.Evals = r.evals
			for d := range r.drift {
				res.Drift = append(res.Drift, d)
			}
			return *res
		}
	}
	// epilogue: let the jobs that are still in flight run to their end, then restart; the reads must equal the spec's
	// FinModel of the last state both times (every replayed history is also a durability test of its final state)
	last := &c.Steps[len(c.Steps)-1]
	fin := finModel(&last.Exp)
	n := len(c.Steps)
	for i := range r.dels {
		if r.dels[i].ack == inf {
			r.dels[i].ack = n
		}
	}
	inflight, err := r.finishJobs()
	if err != nil {
		return rt.Result{OK: false, Kind: "hang", Step: n, Msg: "epilogue (finishing the jobs in flight): " + err.Error(), Evals: r.evals}
	}
	if r.wenter != nil && r.wenter.err != nil {
		return rt.Fail(n, "epilogue: WritePoints (in flight when Shard.Close was called) returned "+r.wenter.err.Error(), nil, nil)
	}
	if msg := r.settleClose(); msg != "" {
		return rt.Result{OK: false, Kind: "hang", Step: n, Msg: "epilogue: " + msg, Evals: r.evals}
	}
	if r.shClosed {
		// the history ended with the Close still pending / just completed: open again and judge the final state
		r.shClosed = false
		inflight = false
		last = &stepT{A: "Reopen"}
		if err := r.env.open(); err != nil {
			closed = true
			return rt.Fail(n, "epilogue: reopen after the pending close failed: "+err.Error(), nil, nil)
		}
		if res := r.checkReads(n, &stepT{A: "epilogue: pending close completed, reopen", Exp: fin}); res != nil {
			res.Evals = r.evals
			return *res
		}
	}
	if inflight {
		if res := r.checkReads(n, &stepT{A: "epilogue: jobs in flight run to their end", Exp: fin}); res != nil {
			res.Evals = r.evals
			return *res
		}
	}
	if last.A != "Reopen" {
		if err := r.env.close(); err != nil {
			closed = true
			return rt.Infra("close: " + err.Error())
		}
		if err := r.env.open(); err != nil {
			closed = true
			return rt.Fail(n+1, "epilogue: reopen failed: "+err.Error(), nil, nil)
		}
		if res := r.checkReads(n+1, &stepT{A: "epilogue: reopen", Exp: fin}); res != nil {
			res.Evals = r.evals
			return *res
		}
	}
	closed = true
	if err := r.env.close(); err != nil {
		return rt.Infra("close: " + err.Error())
	}
	var sig []string
	for k := range r.sig {
		sig = append(sig, k)
	}
	sort.Strings(sig)
	var drift []string
	for d := range r.drift {
		drift = append(drift, d)
	}
	sort.Strings(drift)
	nontrivial := nontrivialHistory(&c)
	return rt.Result{OK: true, Evals: r.evals, Nontrivial: nontrivial, Drift: drift, Sig: fmt.Sprintf("%x", mixBytes(raw)),
		Extra: map[string]interface{}{"features": sig, "conc": r.cc.describe()}}
}

// nontrivialHistory is the rule stated in the evidence. C01: a (key, time) is overwritten with a cache snapshot, a
// compaction commit or a reopen between the two writes. C03: an acknowledged delete removed at least one point and a
// snapshot step, compaction step or reopen overlaps or follows it.
func nontrivialHistory(c *caseT) bool {
	npts := func(e *expT) int {
		n := 0
		for _, k := range e.M {
			n += len(k)
		}
		return n
	}
	structural := func(a string) bool {
		return strings.HasPrefix(a, "Snap") || strings.HasPrefix(a, "Compact") || a == "Reopen"
	}
	if c.Prop == "C03" {
		call := -1
		for i := range c.Steps {
			s := &c.Steps[i]
			if s.A == "DeleteCall" {
				call = i
			}
			if s.A == "DeleteAck" && call > 0 && npts(&s.Exp) < npts(&c.Steps[call-1].Exp) {
				for j := call; j < len(c.Steps); j++ {
					if structural(c.Steps[j].A) {
						return true
					}
				}
			}
		}
		return false
	}
	last := map[[2]int64]int{}
	for i := range c.Steps {
		s := &c.Steps[i]
		for _, p := range s.Pts {
			k := [2]int64{p[0], p[1]}
			if j, ok := last[k]; ok {
				for x := j + 1; x < i; x++ {
					if a := c.Steps[x].A; a == "SnapBegin" || a == "SnapReplace" || a == "CompactReplace" || a == "Reopen" {
						return true
					}
				}
			}
			last[k] = i
		}
	}
	return false
}

func main() {
	if len(os.Args) > 1 && os.Args[1] == "record" { // C39 (trace.go): recorder of concurrent traces
		recordMain(os.Args[2:])
		return
	}
	rt.Main(runCase)
}
