// C02 -- crash images (spec/TSMEngineCrash.tla).
//
// A C02 case is a TLC behaviour of TSMEngineCrash (the actions of TSMEngine plus Crash / CrashReopen). It is replayed
// like a C01/C03 case (same step function, same parked jobs, same read-back after every step); in addition the driver
// refines the spec's "Crash is enabled in every state" into images of the real shard directories:
//
//   - at every H1 schedule point (hook) that the job advanced by the current step reaches (snapshot, compaction,
//     FileStore.replace, tombstone commit, delete, write), and after every step, a SPARSE copy of data + wal + series file
//   - index is taken (files are written up to their last non-zero byte and truncated to their size);
//   - after a step that appended to the WAL (write, range delete), the segment is additionally cut at byte offsets
//     inside the entry just appended (all of them for short entries in "full" cases, else the header offsets plus a
//     seeded sample, plus one zero-filled tail), which is the crash in the middle of the unacknowledged append; the
//     same is done (sampled) for a *.tsm.tmp just written, a tombstone tmp and the fields.idxl log;
//   - every image is opened with a fresh real tsdb.Shard; all keys are read; the recovered state must be a member of
//     the spec's AllowedAfterCrash, which the step records carry as (m, w, d): the model m, the batch w of a write in
//     flight (all or nothing) and key/range d of a delete in flight (each point present with its model value or
//     absent); then one more point is written, read back, snapshotted to a TSM file and read back again.
//
// The spec's own Crash step continues the behaviour on the image (the old shard is abandoned), so that writes,
// snapshots, compactions and deletes after a recovery are exercised and judged as in C01/C03.
package main

import (
	"context"
	"encoding/json"
	"fmt"
	"os"
	"path/filepath"
	"runtime/debug"
	"sort"
	"strings"
	"sync/atomic"
	"time"

	"github.com/influxdata/influxdb/v2/models"
	"github.com/influxdata/influxdb/v2/tsdb/engine/tsm1"
	"verif/harness/rt"
)

// imageBusy is set while an image is being checked: schedule points reached by the image's own shard are not the
// behaviour's (the behaviour's goroutines are all parked or blocked meanwhile).
var imageBusy atomic.Bool

// hookObserver, when set, sees every schedule point before the parking logic (on the goroutine that reached it).
var hookObserver atomic.Value // func(string)

func observeHook(name string) bool {
	if strings.HasPrefix(name, "wal.sync.") {
		// fired by the WAL's background sync goroutine, concurrently with the goroutine of the step: never a park point, and
		// judging an image from there would overlap the step's own image checks (imageBusy is one flag)
		return true
	}
	if imageBusy.Load() {
		return true // swallow: the point belongs to a shard opened on a crash image
	}
	if fn, _ := hookObserver.Load().(func(string)); fn != nil {
		fn(name)
	}
	return false
}

type crasher struct {
	r          *runner
	env        *rt.Env
	budget     int  // images at schedule points / step boundaries this case may still take
	tornBudget int  // images with a torn tail this case may still take
	full       bool // sweep every offset of short appends
	active     bool // a behaviour step is executing: hook points are crash points
	stepIdx    int
	cur        expT // what a crash now may recover to
	lastSig    string
	fail       *rt.Result
	known      []rt.Result // failures explained by a known-finding predicate
	images     int
	torn       int
	points     map[string]int
	nextVal    int64
}

func emptyExp(nkeys int) expT {
	e := expT{M: make([][][2]int64, nkeys)}
	for i := range e.M {
		e.M[i] = [][2]int64{}
	}
	return e
}

// sparseCopy copies a directory tree writing each file only up to its last non-zero byte (series-file segments are
// 8 x 4 MiB preallocated) and truncating it to its size. Files that vanish while the tree is walked are skipped.
func sparseCopy(src, dst string) error {
	return filepath.Walk(src, func(p string, info os.FileInfo, err error) error {
		if err != nil {
			return nil
		}
		rel, _ := filepath.Rel(src, p)
		if info.IsDir() {
			return os.MkdirAll(filepath.Join(dst, rel), 0o777)
		}
		if !info.Mode().IsRegular() {
			return nil
		}
		b, err := os.ReadFile(p)
		if err != nil {
			return nil
		}
		n := len(b)
		for n > 0 && b[n-1] == 0 {
			n--
		}
		f, err := os.Create(filepath.Join(dst, rel))
		if err != nil {
			return err
		}
		defer f.Close()
		if _, err := f.Write(b[:n]); err != nil {
			return err
		}
		return f.Truncate(int64(len(b)))
	})
}

// dirSignature: names and sizes of all files, contents of the small ones outside the series file and the index.
func dirSignature(root string) string {
	var sb strings.Builder
	filepath.Walk(root, func(p string, info os.FileInfo, err error) error {
		if err != nil || info.IsDir() {
			return nil
		}
		rel, _ := filepath.Rel(root, p)
		fmt.Fprintf(&sb, "%s:%d", rel, info.Size())
		if info.Size() < 1<<16 && !strings.Contains(rel, "_series") && !strings.Contains(rel, "/index/") {
			if b, err := os.ReadFile(p); err == nil {
				fmt.Fprintf(&sb, ":%x", mixBytes(b))
			}
		}
		sb.WriteByte(';')
		return nil
	})
	return sb.String()
}

// fileSizes of the files below root whose relative path satisfies keep.
func fileSizes(root string, keep func(rel string) bool) map[string]int64 {
	out := map[string]int64{}
	filepath.Walk(root, func(p string, info os.FileInfo, err error) error {
		if err != nil || info.IsDir() {
			return nil
		}
		rel, _ := filepath.Rel(root, p)
		if keep(rel) {
			out[rel] = info.Size()
		}
		return nil
	})
	return out
}

func isWAL(rel string) bool { return strings.HasSuffix(rel, ".wal") }
func isTmp(rel string) bool {
	return strings.HasSuffix(rel, ".tmp") && !strings.Contains(rel, "_series") && !strings.Contains(rel, "/index/")
}
func isFieldsLog(rel string) bool { return strings.HasSuffix(rel, "fields.idxl") }

// allowedState: is the recovered state (per key, ascending) a member of AllowedAfterCrash(m, w, d)?
// Transcription of TSMEngineCrash.tla: {Kill(m', S) : m' in {m, ApplyPts(m, w)} (only m if no write is in flight),
// S subset of the points of the key and range of the delete in flight}.
func (cr *crasher) allowedState(e *expT, got [][]tv) (bool, string) {
	cc := cr.r.cc
	tindex := map[int64]int64{}
	for i, t := range cc.times {
		tindex[t] = int64(i + 1)
	}
	bases := []map[[2]int64]int64{{}}
	for k := range e.M {
		for _, p := range e.M[k] {
			bases[0][[2]int64{int64(k + 1), p[0]}] = p[1]
		}
	}
	if len(e.W) > 0 {
		b := map[[2]int64]int64{}
		for k, v := range bases[0] {
			b[k] = v
		}
		for _, w := range e.W {
			b[[2]int64{w[0], w[1]}] = w[2]
		}
		bases = append(bases, b)
	}
	inDel := func(k, t int64) bool {
		return len(e.D) == 3 && e.D[0] == k && t >= e.D[1] && t <= e.D[2]
	}
	why := ""
	for bi, base := range bases {
		ok := true
		seen := map[[2]int64]bool{}
		for k := range got {
			typ := cc.keys[k].typ
			for _, x := range got[k] {
				ti, known := tindex[x.T]
				if !known {
					ok, why = false, fmt.Sprintf("key %d has a point at time %d that no write of the history used", k+1, x.T)
					break
				}
				v, has := base[[2]int64{int64(k + 1), ti}]
				if !has || concValue(typ, v) != x.V {
					ok, why = false, fmt.Sprintf("key %d time %d reads %v (candidate %d of the allowed states has %v)", k+1, ti, x.V, bi,
						func() interface{} {
							if has {
								return concValue(typ, v)
							}
							return "nothing"
						}())
					break
				}
				seen[[2]int64{int64(k + 1), ti}] = true
			}
			if !ok {
				break
			}
		}
		if ok {
			for p := range base {
				if !seen[p] && !inDel(p[0], p[1]) {
					ok, why = false, fmt.Sprintf("key %d time %d is missing", p[0], p[1])
					break
				}
			}
		}
		if ok {
			return true, ""
		}
	}
	return false, why
}

// b2tv: the model's points of key k (what an untouched key reads)
func b2tv(r *runner, e *expT, k int) []tv {
	return r.expected(e, k, models.MinNanoTime, models.MaxNanoTime, true)
}

func (cr *crasher) readAll(env *shardEnv) ([][]tv, error) {
	out := make([][]tv, len(cr.r.cc.keys))
	for k, kc := range cr.r.cc.keys {
		got, err := env.read(kc, models.MinNanoTime, models.MaxNanoTime, true)
		cr.r.evals++
		if err != nil {
			return nil, err
		}
		out[k] = got
	}
	return out, nil
}

func describeExp(e *expT) string {
	b, _ := json.Marshal(e)
	return string(b)
}

// checkImage takes one image of the shard directories as they are now, applies mutate to it (torn tails), opens it with
// a fresh real shard and judges the recovered state. nil = fine (or budget exhausted / identical image already judged).
func (cr *crasher) checkImage(label string, e *expT, mutate func(img string) error) *rt.Result {
	if cr.fail != nil {
		return cr.fail
	}
	if mutate == nil && cr.budget <= 0 || mutate != nil && cr.tornBudget <= 0 {
		return nil
	}
	root := cr.r.env.root
	cr.points[strings.SplitN(label, "@", 2)[0]]++ // crash points reached (an image identical to the one just judged is not judged again)
	if mutate == nil {
		sig := dirSignature(root) + "|" + describeExp(e)
		if sig == cr.lastSig {
			return nil
		}
		cr.lastSig = sig
	}
	if mutate == nil {
		cr.budget--
	} else {
		cr.tornBudget--
		cr.torn++
	}
	cr.images++
	img, err := os.MkdirTemp(cr.env.Scratch, "img")
	if err != nil {
		res := rt.Infra(err.Error())
		return &res
	}
	defer os.RemoveAll(img)
	if err := sparseCopy(root, img); err != nil {
		res := rt.Infra("image copy: " + err.Error())
		return &res
	}
	if mutate != nil {
		if err := mutate(img); err != nil {
			res := rt.Infra("image mutation: " + err.Error())
			return &res
		}
	}
	imageBusy.Store(true)
	defer imageBusy.Store(false)
	res := cr.judgeImage(label, e, img)
	// known finding fields_log_zero_filled_tail_accepted: the image is a fields.idxl whose last (unacknowledged) entry has its
	// full length but a zero-filled tail, and the recovered shard panics on / refuses the field of that entry (type byte 0)
	// (a zero-filled image is not a prefix truncation, i.e. outside C02's quantifier; whatever such an image of fields.idxl
	// does to the recovered schema -- Unknown type, refused write, read error, or a garbled field name that makes the
	// entry's field unreadable -- has this one root cause: the change log has no checksum)
	if res != nil && len(res.Patterns) == 0 && strings.HasPrefix(label, "zero-filled fields.idxl append of Write") && len(e.W) > 0 {
		res.Patterns = append(res.Patterns, "fields_log_zero_filled_tail_accepted")
	}
	if res != nil && len(res.Patterns) > 0 {
		cr.known = append(cr.known, *res) // a known finding: the case goes on, anything else it shows is still reported
		return nil
	}
	if res != nil {
		cr.fail = res
	}
	return res
}

func (cr *crasher) judgeImage(label string, e *expT, img string) (out *rt.Result) {
	i := cr.stepIdx
	cc := cr.r.cc
	defer func() {
		// a panic of the code under test while it serves a recovered shard is a violation (with the crash point that led to it)
		if p := recover(); p != nil {
			res := rt.Fail(i, fmt.Sprintf("crash image at step %d (%s): the recovered shard panics: %v  [%s]\n%s", i, label, p, cc.describe(), debug.Stack()), fmt.Sprint(p), nil)
			res.Kind = "panic"
			out = &res
		}
	}()
	env2 := &shardEnv{root: img}
	if err := env2.open(); err != nil {
		res := rt.Fail(i, fmt.Sprintf("crash image at step %d (%s): the shard does not open: %v  [%s]", i, label, err, cc.describe()), err.Error(), nil)
		return &res
	}
	closed := false
	defer func() {
		if !closed {
			env2.close()
		}
	}()
	got, err := cr.readAll(env2)
	if err != nil {
		res := rt.Fail(i, fmt.Sprintf("crash image at step %d (%s): read error after reopen: %v", i, label, err), err.Error(), nil)
		return &res
	}
	if ok, why := cr.allowedState(e, got); !ok {
		var gs []string
		for k := range got {
			gs = append(gs, fmt.Sprintf("k%d={%s}", k+1, fmtTV(got[k])))
		}
		// known finding wal_zero_filled_tail_accepted: the image is a WAL segment whose unacknowledged last entry has its
		// full length but a zero-filled tail, and everything outside the keys of that entry's batch is as allowed
		var pats []string
		if strings.HasPrefix(label, "zero-filled WAL append of Write") && len(e.W) > 0 {
			inBatch := map[int]bool{}
			for _, w := range e.W {
				inBatch[int(w[0]-1)] = true
			}
			e2 := expT{M: e.M, D: e.D}
			got2 := make([][]tv, len(got))
			for k := range got {
				if inBatch[k] {
					got2[k] = b2tv(cr.r, &e2, k)
				} else {
					got2[k] = got[k]
				}
			}
			if ok2, _ := cr.allowedState(&e2, got2); ok2 {
				pats = append(pats, "wal_zero_filled_tail_accepted")
			}
		}
		res := rt.Fail(i, fmt.Sprintf("crash image at step %d (%s): recovered state %s is not in AllowedAfterCrash%s: %s  [%s]",
			i, label, strings.Join(gs, " "), describeExp(e), why, cc.describe()), strings.Join(gs, " "), describeExp(e), pats...)
		return &res
	}
	// the shard accepts a further write, serves it, persists it to a TSM file and still serves everything
	cr.nextVal++
	k := int(cr.nextVal) % len(cc.keys)
	ti := int(mix(cc.h, uint64(cr.nextVal))) & 0x7fffffff % len(cc.times)
	v := 900 + cr.nextVal
	pt, err := cr.r.point(cc.keys[k], cc.times[ti], v)
	if err != nil {
		res := rt.Infra(err.Error())
		return &res
	}
	want := make([][]tv, len(got))
	for kk := range got {
		want[kk] = append([]tv(nil), got[kk]...)
	}
	nv := tv{cc.times[ti], concValue(cc.keys[k].typ, v)}
	replaced := false
	for j := range want[k] {
		if want[k][j].T == nv.T {
			want[k][j] = nv
			replaced = true
		}
	}
	if !replaced {
		want[k] = append(want[k], nv)
		sort.Slice(want[k], func(a, b int) bool { return want[k][a].T < want[k][b].T })
	}
	if err := env2.sh.WritePoints(context.Background(), []models.Point{pt}); err != nil {
		res := rt.Fail(i, fmt.Sprintf("crash image at step %d (%s): the recovered shard rejects a write: %v  [%s]", i, label, err, cc.describe()), err.Error(), nil)
		return &res
	}
	for phase := 0; phase < 2; phase++ {
		if phase == 1 {
			if err := env2.eng.WriteSnapshot(); err != nil {
				res := rt.Fail(i, fmt.Sprintf("crash image at step %d (%s): the recovered shard cannot snapshot its cache: %v  [%s]", i, label, err, cc.describe()), err.Error(), nil)
				return &res
			}
		}
		after, err := cr.readAll(env2)
		if err != nil {
			res := rt.Fail(i, fmt.Sprintf("crash image at step %d (%s): read error after the further write: %v", i, label, err), err.Error(), nil)
			return &res
		}
		for kk := range after {
			if !sameTV(after[kk], want[kk]) {
				res := rt.Fail(i, fmt.Sprintf("crash image at step %d (%s): after a further write of key %d (snapshotted=%v) key %d reads {%s}, expected {%s}  [%s]",
					i, label, k+1, phase == 1, kk+1, fmtTV(after[kk]), fmtTV(want[kk]), cc.describe()), fmtTV(after[kk]), fmtTV(want[kk]))
				return &res
			}
		}
	}
	closed = true
	if err := env2.close(); err != nil {
		res := rt.Fail(i, fmt.Sprintf("crash image at step %d (%s): closing the recovered shard failed: %v", i, label, err), err.Error(), nil)
		return &res
	}
	return nil
}

// offsetsOf the torn-tail sweep of bytes [from, to): all of them when the case is a "full" one and the append is short,
// else the entry header (type byte + 4 length bytes + first payload byte) plus a seeded sample.
func (cr *crasher) offsetsOf(from, to int64, salt uint64) []int64 {
	n := to - from
	if n <= 0 {
		return nil
	}
	var out []int64
	if cr.full && n <= 256 {
		for o := from; o < to; o++ {
			out = append(out, o)
		}
		return out
	}
	// sample: nothing of the append, the middle of the 5-byte entry header, one seeded offset, all but the last byte
	seen := map[int64]bool{}
	for _, o := range []int64{from, from + 3, from + int64(mix(cr.r.cc.h, salt)%uint64(n)), to - 1} {
		if o >= from && o < to && !seen[o] {
			seen[o] = true
			out = append(out, o)
		}
	}
	return out
}

// sweepGrown cuts every file of `before`/`after` that grew (or appeared) at offsets inside the new bytes.
func (cr *crasher) sweepGrown(what string, e *expT, before, after map[string]int64, sample int, also func(img string) error) *rt.Result {
	var rels []string
	for rel := range after {
		rels = append(rels, rel)
	}
	sort.Strings(rels)
	for _, rel := range rels {
		from, to := before[rel], after[rel]
		if to <= from {
			continue
		}
		offs := cr.offsetsOf(from, to, uint64(cr.stepIdx)*131+uint64(len(rel)))
		if sample > 0 && len(offs) > sample {
			// keep the first (nothing of the append), one in the header, and seeded others
			keep := []int64{offs[0]}
			for j := 1; j < sample; j++ {
				keep = append(keep, offs[1+int(mix(cr.r.cc.h, uint64(j), uint64(cr.stepIdx))%uint64(len(offs)-1))])
			}
			offs = keep
		}
		rel := rel
		for _, off := range offs {
			off := off
			if res := cr.checkImage(fmt.Sprintf("torn %s@%s cut at %d of %d..%d", what, filepath.Base(rel), off, from, to), e, func(img string) error {
				if err := os.Truncate(filepath.Join(img, rel), off); err != nil {
					return err
				}
				if also != nil {
					return also(img)
				}
				return nil
			}); res != nil {
				return res
			}
		}
		// one zero-filled tail: the file has its full length but the bytes after the cut never reached the disk
		if len(offs) > 1 && (cr.full || mix(cr.r.cc.h, uint64(cr.stepIdx), 7)%3 == 0) {
			off := offs[len(offs)/2]
			if res := cr.checkImage(fmt.Sprintf("zero-filled %s@%s from %d of %d..%d", what, filepath.Base(rel), off, from, to), e, func(img string) error {
				p := filepath.Join(img, rel)
				if err := os.Truncate(p, off); err != nil {
					return err
				}
				if err := os.Truncate(p, to); err != nil {
					return err
				}
				if also != nil {
					return also(img)
				}
				return nil
			}); res != nil {
				return res
			}
		}
	}
	return nil
}

// onHook: a schedule point reached while a behaviour step executes is a crash point.
func (cr *crasher) onHook(name string) {
	if !cr.active || cr.fail != nil {
		return
	}
	root := cr.r.env.root
	e := cr.cur
	cr.checkImage("hook "+name, &e, nil)
	// a tmp file that has just been written (TSM output of a snapshot / compaction, tombstone tmp): torn anywhere, it must be ignored
	switch name {
	case "snapshot.afterWriteFiles", "compact.afterWriteFiles", "tombstone.prepare.copied", "tombstone.commit.flushed":
		tmps := fileSizes(root, isTmp)
		cr.sweepGrown("tmp file at "+name, &e, map[string]int64{}, tmps, 3, nil)
	}
}

func durableSizes(root string) map[string]int64 {
	return fileSizes(root, func(rel string) bool { return isWAL(rel) || isFieldsLog(rel) })
}

// duringExp: what a crash INSIDE step s may recover to (the spec's record of the previous state, plus the operation
// that this step puts in flight).
func duringExp(prev *expT, s *stepT) expT {
	switch s.A {
	case "Write":
		return expT{M: prev.M, W: s.Pts, D: prev.D}
	case "DeleteCall", "CacheWrite":
		return s.Exp
	}
	return *prev
}

func runCrashCase(c *caseT, raw json.RawMessage, env *rt.Env) rt.Result {
	tsm1.VerifSetHook(hook)
	stepTimeout = 240 * time.Second // image checks run inside the schedule points of a step
	root, err := os.MkdirTemp(env.Scratch, "eng")
	if err != nil {
		return rt.Infra(err.Error())
	}
	r := &runner{c: c, cc: concretise(env.Seed, c), env: &shardEnv{root: root}, drift: map[string]bool{}, sig: map[string]bool{},
		written: map[[2]int64][]int64{}}
	defer func() { os.RemoveAll(r.env.root) }()
	cr := &crasher{r: r, env: env, budget: c.Images, tornBudget: c.Torn, full: c.Sweep == "full", points: map[string]int{}}
	if cr.budget <= 0 {
		cr.budget = 60
	}
	hookObserver.Store(func(name string) { cr.onHook(name) })
	defer hookObserver.Store(func(string) {})
	if err := r.env.open(); err != nil {
		return rt.Infra("open: " + err.Error())
	}
	up := true // the behaviour's shard is open
	defer func() {
		if up && !hung {
			r.finishJobs()
			r.env.close()
		}
	}()
	if r.cc.anchor {
		seen := map[string]bool{}
		var pts []models.Point
		for _, k := range r.cc.keys {
			if seen[k.meas] {
				continue
			}
			seen[k.meas] = true
			p, err := models.NewPoint(k.meas, models.NewTags(map[string]string{"zz_anchor": "1"}), models.Fields{"anchor": int64(1)}, time.Unix(0, 42))
			if err != nil {
				return rt.Infra(err.Error())
			}
			pts = append(pts, p)
		}
		if err := r.env.sh.WritePoints(context.Background(), pts); err != nil {
			return rt.Infra("anchor write: " + err.Error())
		}
		if err := r.env.eng.WriteSnapshot(); err != nil {
			return rt.Infra("anchor snapshot: " + err.Error())
		}
	}
	finish := func(res rt.Result) rt.Result {
		res.Evals = r.evals
		if res.Extra == nil {
			res.Extra = map[string]interface{}{}
		}
		res.Extra["images"] = cr.images
		res.Extra["torn"] = cr.torn
		res.Extra["points"] = cr.points
		for d := range r.drift {
			res.Drift = append(res.Drift, d)
		}
		sort.Strings(res.Drift)
		return res
	}
	prev := emptyExp(len(r.cc.keys))
	var crashExp *expT
	for i := range c.Steps {
		s := &c.Steps[i]
		cr.stepIdx = i
		switch s.A {
		case "Crash":
			// the durable state as it is now (jobs parked where the behaviour left them) is what survives
			img, err := os.MkdirTemp(env.Scratch, "crash")
			if err != nil {
				return finish(rt.Infra(err.Error()))
			}
			if err := sparseCopy(r.env.root, img); err != nil {
				return finish(rt.Infra("image copy: " + err.Error()))
			}
			cr.images++
			cr.points["Crash step"]++
			old := r.env.root
			if _, err := r.finishJobs(); err != nil {
				os.RemoveAll(img)
				return finish(rt.Result{OK: false, Kind: "hang", Step: i, Msg: "abandoning the crashed shard: " + err.Error()})
			}
			r.env.close()
			os.RemoveAll(old)
			r.snap, r.comp, r.del, r.write = nil, nil, nil, nil
			r.env = &shardEnv{root: img}
			up = false
			e := s.Exp
			crashExp = &e
			r.sig["crash"] = true
			continue
		case "CrashReopen":
			if crashExp == nil {
				return finish(rt.Infra("CrashReopen without Crash"))
			}
			if err := r.env.open(); err != nil {
				return finish(rt.Fail(i, fmt.Sprintf("step %d: the shard does not open after the crash: %v  [%s]", i, err, r.cc.describe()), err.Error(), nil))
			}
			up = true
			got, err := cr.readAll(r.env)
			if err != nil {
				return finish(rt.Fail(i, fmt.Sprintf("step %d: read error after the crash: %v", i, err), err.Error(), nil))
			}
			if ok, why := cr.allowedState(crashExp, got); !ok {
				var gs []string
				for k := range got {
					gs = append(gs, fmt.Sprintf("k%d={%s}", k+1, fmtTV(got[k])))
				}
				return finish(rt.Fail(i, fmt.Sprintf("step %d (CrashReopen): recovered state %s is not in AllowedAfterCrash%s: %s  [%s]",
					i, strings.Join(gs, " "), describeExp(crashExp), why, r.cc.describe()), strings.Join(gs, " "), describeExp(crashExp)))
			}
			// the behaviour continues from the spec's recovered model; a different (but allowed) recovery ends the case
			exact := true
			for k := range got {
				if !sameTV(got[k], r.expected(&s.Exp, k, models.MinNanoTime, models.MaxNanoTime, true)) {
					exact = false
				}
			}
			if !exact {
				r.drift["recovered_state_allowed_but_not_the_specs"] = true
				return finish(rt.Result{OK: true, Sig: fmt.Sprintf("%x", mixBytes(raw)), Nontrivial: cr.images > 0})
			}
			crashExp = nil
		default:
			cr.cur = duringExp(&prev, s)
			before := durableSizes(r.env.root)
			cr.active = true
			res := r.step(i, s)
			cr.active = false
			if cr.fail != nil {
				return finish(*cr.fail)
			}
			if res != nil {
				return finish(*res)
			}
			// the append that this step made durable, cut anywhere: the operation was not acknowledged
			after := durableSizes(r.env.root)
			walBefore, walAfter := map[string]int64{}, map[string]int64{}
			idxBefore, idxAfter := map[string]int64{}, map[string]int64{}
			for rel, n := range after {
				if isWAL(rel) {
					walAfter[rel], walBefore[rel] = n, before[rel]
				} else {
					idxAfter[rel], idxBefore[rel] = n, before[rel]
				}
			}
			if s.A == "Write" || s.A == "WriteAck" || s.A == "DeleteWAL" {
				e := cr.cur
				if s.A == "DeleteWAL" {
					e = s.Exp
				}
				if res := cr.sweepGrown("WAL append of "+s.A, &e, walBefore, walAfter, 0, nil); res != nil {
					return finish(*res)
				}
				// the field-index log is appended (and synced) before the WAL entry: a torn log entry implies no WAL entry
				if res := cr.sweepGrown("fields.idxl append of "+s.A, &e, idxBefore, idxAfter, 3, func(img string) error {
					for rel, n := range walBefore {
						if walAfter[rel] > n {
							if err := os.Truncate(filepath.Join(img, rel), n); err != nil {
								return err
							}
						}
					}
					return nil
				}); res != nil {
					return finish(*res)
				}
			}
		}
		if res := r.checkReads(i, s); res != nil {
			return finish(*res)
		}
		// crash at the step boundary
		e := s.Exp
		if res := cr.checkImage("after "+s.A, &e, nil); res != nil {
			return finish(*res)
		}
		prev = s.Exp
	}
	// epilogue
	n := len(c.Steps)
	last := &c.Steps[n-1]
	if last.A == "Crash" {
		if err := r.env.open(); err != nil {
			return finish(rt.Fail(n, fmt.Sprintf("the shard does not open after the crash: %v  [%s]", err, r.cc.describe()), err.Error(), nil))
		}
		up = true
		got, err := cr.readAll(r.env)
		if err != nil {
			return finish(rt.Fail(n, "read error after the crash: "+err.Error(), err.Error(), nil))
		}
		if ok, why := cr.allowedState(crashExp, got); !ok {
			return finish(rt.Fail(n, fmt.Sprintf("after the final Crash: recovered state is not in AllowedAfterCrash%s: %s  [%s]", describeExp(crashExp), why, r.cc.describe()), nil, describeExp(crashExp)))
		}
	} else {
		fin := finModel(&last.Exp)
		for i := range r.dels {
			if r.dels[i].ack == inf {
				r.dels[i].ack = n
			}
		}
		inflight, err := r.finishJobs()
		if err != nil {
			return finish(rt.Result{OK: false, Kind: "hang", Step: n, Msg: "epilogue (finishing the jobs in flight): " + err.Error()})
		}
		if inflight {
			if res := r.checkReads(n, &stepT{A: "epilogue: jobs in flight run to their end", Exp: fin}); res != nil {
				return finish(*res)
			}
		}
		cr.stepIdx = n
		if res := cr.checkImage("epilogue", &fin, nil); res != nil {
			return finish(*res)
		}
	}
	up = false
	if err := r.env.close(); err != nil {
		return finish(rt.Infra("close: " + err.Error()))
	}
	var sig []string
	for k := range r.sig {
		sig = append(sig, k)
	}
	sort.Strings(sig)
	// non-trivial: at least one image was judged while an operation was in flight or a multi-step commit was half done
	nontrivial := false
	for p := range cr.points {
		if strings.HasPrefix(p, "hook ") || strings.HasPrefix(p, "torn ") || p == "Crash step" {
			nontrivial = true
		}
	}
	if len(cr.known) > 0 {
		return finish(cr.known[0])
	}
	return finish(rt.Result{OK: true, Nontrivial: nontrivial, Sig: fmt.Sprintf("%x", mixBytes(raw)),
		Extra: map[string]interface{}{"features": sig, "conc": r.cc.describe()}})
}
