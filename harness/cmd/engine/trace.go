// C39 -- recorder of concurrent traces (spec/TraceTSMEngine.tla).
//
//	engine record -seed S -traces N -out trace.ndjson [-threads-min 3 -threads-max 6 -ops 8 -par 4 -close-conc 0.3 -stuck 180s]
//
// Every trace runs on a fresh real tsdb.Shard (tsm1 engine + tsi1 index + series file) with the engine's REAL planner
// and background loops (level / full compactions at their 1 s tick; full compactions become due 150 ms after the last
// write), 3-6 goroutines of random
//
//	write     Shard.WritePoints of 1-2 points over 3 series x 4 timestamps, values numbered by a global counter
//	read      Shard.CreateCursorIterator -> typed array cursor over a sub-range, ascending or descending
//	delete    Shard.DeleteSeriesRange of one series and a sub-range
//	snapshot  Engine.WriteSnapshot
//	compact   Engine.ScheduleFullCompaction (the compaction loop picks it up at its next 1 s tick, while the others go on)
//	backup    Shard.Backup into io.Discard (forces a snapshot, links the files)
//
// and finally Shard.Close -- after the workers are done, or (a fraction of the traces) concurrently with their last
// operations. Afterwards the shard is reopened and every series is read (`final`).
// call/ret events are appended to one log under one mutex (so the log order respects real time); a ret of a read
// carries the points read, as abstract [time index, value number]. A range delete and a snapshot-writing operation
// (snapshot, compact, backup) never overlap (one recorder mutex): that window is known finding F1/F1b of C03.
// A watchdog ends the process with a `stuck` line and a goroutine dump if no event is logged for -stuck.
// Panics of the code under test crash the process (exit 2, stack on stderr); under `go build -race` DATA RACE reports go to stderr.
package main

import (
	"bufio"
	"context"
	"encoding/json"
	"flag"
	"fmt"
	"io"
	"math"
	"math/rand"
	"os"
	"runtime"
	"strings"
	"sync"
	"sync/atomic"
	"time"

	"github.com/influxdata/influxdb/v2/models"
	"github.com/influxdata/influxdb/v2/pkg/limiter"
	"github.com/influxdata/influxdb/v2/toml"
	"github.com/influxdata/influxdb/v2/tsdb"
	"github.com/influxdata/influxdb/v2/tsdb/engine/tsm1"
	"go.uber.org/zap"
)

const (
	traceKeys  = 3
	traceTimes = 4
)

// openLive opens the shard with the engine's own planner and background loops.
func (e *shardEnv) openLive() error {
	dbPath := e.root + "/data/db0"
	if err := os.MkdirAll(dbPath, 0o777); err != nil {
		return err
	}
	e.sfile = tsdb.NewSeriesFile(dbPath + "/" + tsdb.SeriesFileDirectory)
	e.sfile.Logger = zap.NewNop()
	if err := e.sfile.Open(); err != nil {
		return err
	}
	opt := tsdb.NewEngineOptions()
	opt.IndexVersion = tsdb.TSI1IndexName
	opt.SeriesIDSets = sets{tsdb.NewSeriesIDSet()}
	// cache snapshots are taken by the workload only (a background one could overlap a delete: F1); compactions are the engine's
	opt.Config.CacheSnapshotWriteColdDuration = toml.Duration(1000 * time.Hour)
	opt.Config.CompactFullWriteColdDuration = toml.Duration(150 * time.Millisecond)
	opt.CompactionLimiter = limiter.NewFixed(2) // as tsdb.Store sets it (bare EngineOptions have none: no compaction would ever be scheduled)
	e.sh = tsdb.NewShard(1, dbPath+"/rp0/1", e.root+"/wal/db0/rp0/1", e.sfile, opt)
	if err := e.sh.Open(context.Background()); err != nil {
		e.sfile.Close()
		return err
	}
	eng, err := e.sh.Engine()
	if err != nil {
		return err
	}
	e.eng = eng.(*tsm1.Engine)
	return nil
}

type traceLog struct {
	mu   sync.Mutex
	w    *bufio.Writer
	last atomic.Int64 // unix nanos of the last event
	n    int
}

func (l *traceLog) ev(m map[string]interface{}) {
	b, err := json.Marshal(m)
	if err != nil {
		panic(err)
	}
	l.w.Write(b)
	l.w.WriteByte('\n')
	l.n++
	l.last.Store(time.Now().UnixNano())
}

type tracer struct {
	tr      int
	log     *traceLog
	cc      *concT
	env     *shardEnv
	counter int64
	rev     []map[interface{}]int64 // per key: concrete value -> value number
	snapDel sync.Mutex              // a delete and a snapshot-writing operation never overlap
	gap     int                     // upper bound of the pause between two operations of a goroutine (ms)
	start   time.Time
	closing atomic.Bool // the closer is about to call Shard.Close
	stress  bool        // no pauses between the operations (race monitor; such traces are too long to be validated)
	commits atomic.Int64
}

// call logs the call line of an operation (and registers the values of a write) under the log mutex.
func (t *tracer) call(th string, op string, args map[string]interface{}) {
	t.log.mu.Lock()
	defer t.log.mu.Unlock()
	m := map[string]interface{}{"ev": "call", "tr": t.tr, "t": th, "op": op}
	for k, v := range args {
		m[k] = v
	}
	t.log.ev(m)
}

func (t *tracer) ret(th string, op string, err error, extra map[string]interface{}) {
	t.log.mu.Lock()
	defer t.log.mu.Unlock()
	m := map[string]interface{}{"ev": "ret", "tr": t.tr, "t": th, "op": op, "ok": err == nil}
	if err != nil {
		m["err"] = err.Error()
	}
	for k, v := range extra {
		m[k] = v
	}
	t.log.ev(m)
}

func (t *tracer) worker(th string, rng *rand.Rand, nops int, closer bool, lead int, wg *sync.WaitGroup) {
	defer wg.Done()
	ctx := context.Background()
	for i := 0; i < nops; i++ {
		x := rng.Intn(100)
		switch {
		case lead > 0 && i == 0:
			x = 0 // the first two goroutines begin with write ; snapshot (; compact), so that compactions find several files early
		case lead > 0 && i == 1:
			x = 85
		case lead == 1 && i == 2:
			x = 90
		case t.stress:
			// dense workload for the race monitor: no pauses, the same operation mix
		default:
			// the goroutines fire in bursts: everyone waits for the next multiple of gap/2 since the start of the trace (plus
			// up to 2 ms of jitter), so that their operations overlap although the trace outlasts the 1 s compaction tick
			period := time.Duration(t.gap) * time.Millisecond / 2
			el := time.Since(t.start)
			time.Sleep((el/period+1)*period - el + time.Duration(rng.Intn(2000))*time.Microsecond)
			// every delete and every ScheduleFullCompaction stops the engine's compaction loop and restarts its 1 s ticker:
			// a window without them lets the loop tick, so that real compactions run while the others read, write and snapshot
			if el := time.Since(t.start); el > 600*time.Millisecond && el < 1750*time.Millisecond && x >= 68 && x < 80 || x >= 87 && x < 94 && el > 600*time.Millisecond {
				x = rng.Intn(68)
			}
		}
		if t.closing.Load() && !closer {
			x = 0
		}
		switch {
		case x < 38: // write
			n := 1 + rng.Intn(2)
			var pts [][3]int64
			var mp []models.Point
			used := map[[2]int64]bool{}
			t.log.mu.Lock()
			for j := 0; j < n; j++ {
				k, ti := int64(1+rng.Intn(traceKeys)), int64(1+rng.Intn(traceTimes))
				if used[[2]int64{k, ti}] {
					continue
				}
				used[[2]int64{k, ti}] = true
				t.counter++
				v := t.counter
				kc := t.cc.keys[k-1]
				t.rev[k-1][concValue(kc.typ, v)] = v
				p, err := models.NewPoint(kc.meas, kc.tags, models.Fields{kc.field: concValue(kc.typ, v)}, time.Unix(0, t.cc.times[ti-1]))
				if err != nil {
					panic(err)
				}
				pts = append(pts, [3]int64{k, ti, v})
				mp = append(mp, p)
			}
			t.log.mu.Unlock()
			t.call(th, "write", map[string]interface{}{"pts": pts})
			err := t.env.sh.WritePoints(ctx, mp)
			t.ret(th, "write", err, nil)
		case x < 68: // read
			k := 1 + rng.Intn(traceKeys)
			lo := 1 + rng.Intn(traceTimes)
			hi := lo + rng.Intn(traceTimes-lo+1)
			asc := rng.Intn(2) == 0
			t.call(th, "read", map[string]interface{}{"k": k, "lo": lo, "hi": hi, "asc": asc})
			got, err := t.env.read(t.cc.keys[k-1], t.cc.times[lo-1], t.cc.times[hi-1], asc)
			res := [][2]int64{}
			if err == nil {
				t.log.mu.Lock()
				for _, x := range got {
					ti := int64(-1)
					for j, ct := range t.cc.times {
						if ct == x.T {
							ti = int64(j + 1)
						}
					}
					v, ok := t.rev[k-1][x.V]
					if !ok {
						v = -1 // a value no write of this trace issued
					}
					res = append(res, [2]int64{ti, v})
				}
				t.log.mu.Unlock()
			}
			t.ret(th, "read", err, map[string]interface{}{"res": res})
		case x < 80: // range delete of one series
			k := 1 + rng.Intn(traceKeys)
			lo := 1 + rng.Intn(traceTimes)
			hi := lo + rng.Intn(traceTimes-lo+1)
			kc := t.cc.keys[k-1]
			itr := &seriesItr{elems: []seriesElem{{name: []byte(kc.meas), tags: kc.tags}}}
			t.snapDel.Lock()
			t.call(th, "delete", map[string]interface{}{"k": k, "lo": lo, "hi": hi})
			err := t.env.sh.DeleteSeriesRange(ctx, itr, t.cc.times[lo-1], t.cc.times[hi-1])
			t.ret(th, "delete", err, nil)
			t.snapDel.Unlock()
		case x < 87: // cache snapshot
			t.snapDel.Lock()
			t.call(th, "snapshot", nil)
			eng, err := t.env.sh.Engine()
			if err == nil {
				err = eng.(*tsm1.Engine).WriteSnapshot()
			}
			t.ret(th, "snapshot", err, nil)
			t.snapDel.Unlock()
		case x < 94: // full compaction at the next tick of the engine's compaction loop
			t.snapDel.Lock()
			t.call(th, "compact", nil)
			eng, err := t.env.sh.Engine()
			if err == nil {
				err = eng.(*tsm1.Engine).ScheduleFullCompaction()
			}
			t.ret(th, "compact", err, nil)
			t.snapDel.Unlock()
		default: // backup
			t.snapDel.Lock()
			t.call(th, "backup", nil)
			err := t.env.sh.Backup(io.Discard, shardRel, time.Unix(0, 0))
			t.ret(th, "backup", err, nil)
			t.snapDel.Unlock()
		}
	}
	if closer {
		// writes race the Close: from now on the other goroutines only write, and Close fires together with their next burst
		t.closing.Store(true)
		if t.stress {
			time.Sleep(time.Millisecond)
		} else {
			period := time.Duration(t.gap) * time.Millisecond / 2
			el := time.Since(t.start)
			time.Sleep((el/period+1)*period - el + time.Duration(rng.Intn(2000))*time.Microsecond)
		}
		t.call(th, "close", nil)
		err := t.env.sh.Close()
		t.ret(th, "close", err, nil)
	}
}

func (t *tracer) run(seed int64, nthreads, nops int, closeConc bool) error {
	rng := rand.New(rand.NewSource(seed))
	var wg sync.WaitGroup
	t.start = time.Now()
	closerIdx := -1
	if closeConc {
		closerIdx = rng.Intn(nthreads)
	}
	for i := 0; i < nthreads; i++ {
		wg.Add(1)
		n := nops
		if i == closerIdx {
			n = nops * 2 / 3 // the closer ends early: the others are still at work
		}
		go t.worker(fmt.Sprintf("t%d", i+1), rand.New(rand.NewSource(seed*1000+int64(i))), n, i == closerIdx, map[int]int{0: 1, 1: 2}[i], &wg)
	}
	wg.Wait()
	if !closeConc {
		t.call("t1", "close", nil)
		err := t.env.sh.Close()
		t.ret("t1", "close", err, nil)
	}
	t.env.sfile.Close()
	// restart: what the concurrent run acknowledged is what a restart serves
	env2 := &shardEnv{root: t.env.root}
	if err := env2.open(); err != nil {
		return fmt.Errorf("reopen after the trace: %w", err)
	}
	all := map[string][][2]int64{}
	for k := 0; k < traceKeys; k++ {
		got, err := env2.read(t.cc.keys[k], models.MinNanoTime, models.MaxNanoTime, true)
		if err != nil {
			env2.close()
			return fmt.Errorf("read after reopen: %w", err)
		}
		res := [][2]int64{}
		for _, x := range got {
			ti := int64(-1)
			for j, ct := range t.cc.times {
				if ct == x.T {
					ti = int64(j + 1)
				}
			}
			v, ok := t.rev[k][x.V]
			if !ok {
				v = -1
			}
			res = append(res, [2]int64{ti, v})
		}
		all[fmt.Sprint(k+1)] = res
	}
	env2.close()
	t.log.mu.Lock()
	// `all` is logged as an array indexed by key number (TLC: a sequence)
	arr := make([][][2]int64, traceKeys)
	for k := 0; k < traceKeys; k++ {
		arr[k] = all[fmt.Sprint(k+1)]
	}
	t.log.ev(map[string]interface{}{"ev": "final", "tr": t.tr, "all": arr, "commits": t.commits.Load()})
	t.log.ev(map[string]interface{}{"ev": "reset", "tr": t.tr})
	t.log.w.Flush() // a crash of the code under test in a later trace must not lose the traces recorded so far
	t.log.mu.Unlock()
	return nil
}

// cacheHammer: goroutines of WriteMulti / Values / Snapshot+ClearSnapshot / DeleteRange on one real tsm1.Cache (the cache
// is the part of the shard where operations of different callers meet without the engine lock); race monitor only.
func cacheHammer(d time.Duration, seed int64) {
	c := tsm1.NewCache(1<<20, tsdb.EngineTags{})
	stop := time.Now().Add(d)
	var wg sync.WaitGroup
	for g := 0; g < 4; g++ {
		wg.Add(1)
		go func(g int) {
			defer wg.Done()
			r := rand.New(rand.NewSource(seed*31 + int64(g)))
			for time.Now().Before(stop) {
				k := fmt.Sprintf("k%d", r.Intn(3))
				switch r.Intn(6) {
				case 0, 1:
					c.WriteMulti(map[string][]tsm1.Value{k: {tsm1.NewIntegerValue(int64(r.Intn(5)), 1)}})
				case 2:
					c.Values([]byte(k))
				case 3:
					if _, err := c.Snapshot(); err == nil {
						c.ClearSnapshot(r.Intn(4) > 0)
					}
				case 4:
					c.DeleteRange([][]byte{[]byte(k)}, 1, 3)
				default:
					c.Size()
					c.Keys()
					c.DeleteRange([][]byte{[]byte(k)}, math.MinInt64, math.MaxInt64)
				}
			}
		}(g)
	}
	wg.Wait()
}

func recordMain(args []string) {
	fs := flag.NewFlagSet("record", flag.ExitOnError)
	seed := fs.Int64("seed", 1, "")
	traces := fs.Int("traces", 10, "")
	tmin := fs.Int("threads-min", 3, "")
	tmax := fs.Int("threads-max", 6, "")
	ops := fs.Int("ops", 8, "operations per goroutine")
	out := fs.String("out", "", "")
	closeConc := fs.Float64("close-conc", 0.3, "fraction of traces in which Close runs concurrently with the last operations")
	stuck := fs.Duration("stuck", 180*time.Second, "watchdog: no event for this long = stuck")
	gap := fs.Int("gap", 500, "upper bound of the pause between two operations of a goroutine (ms); traces must outlast the 1 s compaction tick")
	scratch := fs.String("scratch", "", "")
	stress := fs.Bool("stress", false, "no pauses between operations (dense workload for the race detector)")
	hammer := fs.Duration("cache-hammer", 0, "first hammer one tsm1.Cache from 4 goroutines for this long (race monitor)")
	fs.Parse(args)
	if *hammer > 0 {
		cacheHammer(*hammer, *seed)
	}
	of, err := os.Create(*out)
	if err != nil {
		fmt.Fprintln(os.Stderr, err)
		os.Exit(2)
	}
	lg := &traceLog{w: bufio.NewWriterSize(of, 1<<20)}
	lg.last.Store(time.Now().UnixNano())
	var busy atomic.Bool
	// watchdog
	go func() {
		for {
			time.Sleep(time.Second)
			if busy.Load() && time.Since(time.Unix(0, lg.last.Load())) > *stuck {
				buf := make([]byte, 4<<20)
				buf = buf[:runtime.Stack(buf, true)]
				fmt.Fprintf(os.Stderr, "STUCK: no event for %s\n%s\n", *stuck, buf)
				lg.mu.Lock()
				lg.ev(map[string]interface{}{"ev": "stuck"})
				lg.w.Flush()
				os.Exit(3)
			}
		}
	}()
	// count the commits of the engine's own background work (non-vacuity: compactions really ran inside the traces)
	var cur atomic.Pointer[tracer]
	tsm1.VerifSetHook(func(name string) {
		if os.Getenv("VERIF_TRACE_HOOKS") != "" && !strings.HasPrefix(name, "write.") {
			fmt.Fprintln(os.Stderr, "hook", name, time.Now().Format("05.000"))
		}
		if name == "compact.afterReplace" {
			if t := cur.Load(); t != nil {
				t.commits.Add(1)
			}
		}
	})
	meta := rand.New(rand.NewSource(*seed))
	for i := 0; i < *traces; i++ {
		root, err := os.MkdirTemp(*scratch, "trace")
		if err != nil {
			fmt.Fprintln(os.Stderr, err)
			os.Exit(2)
		}
		c := &caseT{NKeys: traceKeys, NTimes: traceTimes, Conc: i}
		cc := concretise(*seed, c)
		for k := range cc.keys {
			if cc.keys[k].typ == 4 { // boolean values cannot carry a value number
				cc.keys[k].typ = 1
			}
		}
		t := &tracer{tr: i, log: lg, cc: cc, env: &shardEnv{root: root}, gap: *gap, stress: *stress}
		for k := 0; k < traceKeys; k++ {
			t.rev = append(t.rev, map[interface{}]int64{})
		}
		if err := t.env.openLive(); err != nil {
			fmt.Fprintln(os.Stderr, "open:", err)
			os.Exit(2)
		}
		cur.Store(t)
		nthreads := *tmin + meta.Intn(*tmax-*tmin+1)
		busy.Store(true)
		lg.last.Store(time.Now().UnixNano())
		err = t.run(*seed*7919+int64(i), nthreads, *ops, meta.Float64() < *closeConc || *stress)
		busy.Store(false)
		cur.Store(nil)
		os.RemoveAll(root)
		if err != nil {
			lg.mu.Lock()
			lg.w.Flush()
			lg.mu.Unlock()
			fmt.Fprintln(os.Stderr, "TRACE-ERROR:", err)
			os.Exit(4)
		}
	}
	lg.mu.Lock()
	lg.w.Flush()
	lg.mu.Unlock()
	of.Close()
}
