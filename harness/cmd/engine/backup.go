// C38 -- backup / restore / export (spec/TSMEngineBackup.tla).
//
// A C38 case is a TLC behaviour of TSMEngineBackup: the actions of TSMEngine (replayed exactly as for C01/C03, with the
// read-back after every step) plus
//
//	Backup(since)   Shard.Backup(w, path, since) -> tar stream.  File mtimes are under the driver's control: after every
//	                step the *.tsm / *.tombstone files that appeared or changed get os.Chtimes(epoch2001 + clock units; a unit
//	                is 1 h, 100 ms or 1 ms by concretisation, so that mtimes before and after `since` may share a second),
//	                clock being the driver's count of steps that changed the file set (compared with the spec's clock:
//	                DRIFT if different); `since` is epoch2001 + since hours.  The file written by the forced snapshot
//	                inside Backup carries the wall clock time (later than every logical time).
//	                judged: the archive contains every file that changed after `since` (observed in the directory step
//	                by step); for since = 0 the archive is restored with Shard.Restore into an EMPTY shard (fresh series
//	                file, index, directories) and every key of that shard is read over every sub-range, both
//	                directions, and compared with the spec's model; the series of all keys with points must exist.
//	Export(lo, hi)  Shard.Export(w, path, lo, hi) -> tar stream, extracted; every TSM file of the archive is opened with
//	                tsm1.NewTSMReader (tombstone files next to it are applied), files are merged in name order (later
//	                wins) and the points are compared for equality with the spec's `want` = model restricted to [lo, hi].
//
// Known-finding predicates (inputs are fields of the spec's records):
//
//	restore_drops_tombstones               the restored shard differs from the model and equals, key by key, the spec's
//	                                       `rnotomb` = what the archive's TSM files show without its tombstone files
//	export_with_tombstoned_tsm_file (F14)  Export returned an error and the spec's record says a TSM file has a
//	                                       tombstone file (`tombs`)
//	export_keeps_whole_blocks              the exported points contain `want` unchanged, and every extra point lies outside
//	                                       [lo, hi] and carries a value the history wrote to that key and time (it came
//	                                       along with a block that overlaps the range); `blk`, the spec's implementation-
//	                                       layer prediction, is compared as DRIFT only
package main

import (
	"archive/tar"
	"bytes"
	"context"
	"encoding/json"
	"fmt"
	"io"
	"os"
	"path/filepath"
	"sort"
	"strings"
	"time"

	"github.com/influxdata/influxdb/v2/models"
	"github.com/influxdata/influxdb/v2/tsdb/engine/tsm1"
	"verif/harness/rt"
)

const shardRel = "db0/rp0/1"

var epoch2001 = time.Date(2001, 1, 1, 0, 0, 0, 0, time.UTC)

// clockUnit is the wall-clock length of one tick of the spec's logical clock. It is a concretisation (seed, conc): hours,
// or 100 ms / 1 ms on top of a whole-second base, so that `since` and the mtimes of later changes share a wall-clock second
// (a comparison of mtimes at a coarser granularity than the file system's loses such files).
var clockUnit = time.Hour

func logicalTime(c int64) time.Time { return epoch2001.Add(time.Duration(c) * clockUnit) }

type fileStamp struct {
	size  int64
	mtime time.Time
	clock int64
}

type backuper struct {
	r     *runner
	env   *rt.Env
	clock int64
	known map[string]fileStamp // base name -> what the driver last saw / set
}

func (b *backuper) shardDir() string { return filepath.Join(b.r.env.root, "data", "db0", "rp0", "1") }

func dataFile(name string) bool {
	return strings.HasSuffix(name, ".tsm") || strings.HasSuffix(name, ".tombstone")
}

// stamp gives every data file that appeared or changed since the last call the next logical mtime; removed files are
// forgotten. It returns whether the file set changed.
func (b *backuper) stamp() (bool, error) {
	ents, err := os.ReadDir(b.shardDir())
	if err != nil {
		return false, err
	}
	present := map[string]bool{}
	var changed []string
	for _, e := range ents {
		if e.IsDir() || !dataFile(e.Name()) {
			continue
		}
		info, err := e.Info()
		if err != nil {
			return false, err
		}
		present[e.Name()] = true
		k, ok := b.known[e.Name()]
		if !ok || k.size != info.Size() || !k.mtime.Equal(info.ModTime()) {
			changed = append(changed, e.Name())
		}
	}
	removed := false
	for name := range b.known {
		if !present[name] {
			delete(b.known, name)
			removed = true
		}
	}
	if len(changed) == 0 && !removed {
		return false, nil
	}
	b.clock++
	t := logicalTime(b.clock)
	for _, name := range changed {
		p := filepath.Join(b.shardDir(), name)
		if err := os.Chtimes(p, t, t); err != nil {
			return false, err
		}
		info, err := os.Stat(p)
		if err != nil {
			return false, err
		}
		b.known[name] = fileStamp{size: info.Size(), mtime: info.ModTime(), clock: b.clock}
	}
	return true, nil
}

type tarEntry struct {
	name string
	data []byte
}

func readTar(buf []byte) ([]tarEntry, error) {
	var out []tarEntry
	tr := tar.NewReader(bytes.NewReader(buf))
	for {
		h, err := tr.Next()
		if err == io.EOF {
			return out, nil
		}
		if err != nil {
			return out, err
		}
		if h.Typeflag == tar.TypeDir {
			continue
		}
		data, err := io.ReadAll(tr)
		if err != nil {
			return out, err
		}
		out = append(out, tarEntry{name: h.Name, data: data})
	}
}

func specFileName(x []interface{}) string {
	gen, _ := x[0].(float64)
	seq, _ := x[1].(float64)
	kind, _ := x[2].(string)
	return fmt.Sprintf("%09d-%09d.%s", int(gen), int(seq), kind)
}

// readsOf compares every key x sub-range x direction of env with the model m (exact); returns the first difference.
func (b *backuper) compareWithModel(env *shardEnv, e *expT) (string, error) {
	saved := b.r.env
	b.r.env = env
	defer func() { b.r.env = saved }()
	cc := b.r.cc
	type rg struct{ lo, hi int64 }
	var ranges []rg
	for a := 0; a < len(cc.times); a++ {
		for c := a; c < len(cc.times); c++ {
			ranges = append(ranges, rg{cc.times[a], cc.times[c]})
		}
	}
	ranges = append(ranges, rg{models.MinNanoTime, models.MaxNanoTime})
	for key, k := range cc.keys {
		for _, g := range ranges {
			for _, asc := range []bool{true, false} {
				got, err := env.read(k, g.lo, g.hi, asc)
				b.r.evals++
				if err != nil {
					return "", err
				}
				want := b.r.expected(e, key, g.lo, g.hi, asc)
				if !sameTV(got, want) {
					return fmt.Sprintf("key %d [%d,%d] asc=%v returned {%s}, the model has {%s}", key+1, g.lo, g.hi, asc, fmtTV(got), fmtTV(want)), nil
				}
			}
		}
	}
	return "", nil
}

func (b *backuper) fullReads(env *shardEnv) ([][]tv, error) {
	out := make([][]tv, len(b.r.cc.keys))
	for k, kc := range b.r.cc.keys {
		got, err := env.read(kc, models.MinNanoTime, models.MaxNanoTime, true)
		if err != nil {
			return nil, err
		}
		out[k] = got
	}
	return out, nil
}

func (b *backuper) sameAsPts(got [][]tv, pts [][][2]int64) bool {
	if len(pts) != len(got) {
		return false
	}
	e := expT{M: pts}
	for k := range got {
		if !sameTV(got[k], b.r.expected(&e, k, models.MinNanoTime, models.MaxNanoTime, true)) {
			return false
		}
	}
	return true
}

func (b *backuper) backup(i int, s *stepT) *rt.Result {
	cc := b.r.cc
	if b.clock != s.Clock-boolInt(s.flushed(b)) {
		b.r.drift["logical_clock"] = true
	}
	// files that changed after `since`, as observed step by step
	var required []string
	for name, st := range b.known {
		if st.clock > s.Since {
			required = append(required, name)
		}
	}
	before := map[string]bool{}
	for name := range b.known {
		before[name] = true
	}
	var buf bytes.Buffer
	if err := b.r.env.sh.Backup(&buf, shardRel, logicalTime(s.Since)); err != nil {
		res := rt.Fail(i, fmt.Sprintf("step %d: Shard.Backup(since=%d) returned %v  [%s]", i, s.Since, err, cc.describe()), err.Error(), nil)
		return &res
	}
	ents, err := readTar(buf.Bytes())
	if err != nil {
		res := rt.Fail(i, fmt.Sprintf("step %d: the archive of Shard.Backup is not a readable tar stream: %v", i, err), err.Error(), nil)
		return &res
	}
	inArch := map[string]bool{}
	for _, e := range ents {
		inArch[filepath.Base(e.name)] = true
	}
	// the file of the forced snapshot (new since the last look) changed "now"
	cur, _ := os.ReadDir(b.shardDir())
	for _, e := range cur {
		if !e.IsDir() && dataFile(e.Name()) && !before[e.Name()] {
			required = append(required, e.Name())
		}
	}
	sort.Strings(required)
	var missing []string
	for _, name := range required {
		if !inArch[name] {
			missing = append(missing, name)
		}
	}
	if len(missing) > 0 {
		var names []string
		for n := range inArch {
			names = append(names, n)
		}
		sort.Strings(names)
		res := rt.Fail(i, fmt.Sprintf("step %d: Backup(since=%d): files changed after since are missing from the archive: %v (archive: %v; changed after since: %v)  [%s]",
			i, s.Since, missing, names, required, cc.describe()), names, required)
		return &res
	}
	// the spec's archive (by generation-sequence names)
	specArch := map[string]bool{}
	for _, x := range s.Arch {
		specArch[specFileName(x)] = true
	}
	for n := range specArch {
		if !inArch[n] {
			b.r.drift["archive_lacks_file_of_spec_archive"] = true
		}
	}
	for n := range inArch {
		if dataFile(n) && !specArch[n] {
			b.r.drift["archive_has_file_not_in_spec_archive"] = true
		}
	}
	b.r.sig["backup"] = true
	if s.Since > 0 {
		b.r.sig["backup-incremental"] = true
		return nil
	}
	// restore into an empty shard
	root2, err := os.MkdirTemp(b.env.Scratch, "restore")
	if err != nil {
		res := rt.Infra(err.Error())
		return &res
	}
	defer os.RemoveAll(root2)
	env2 := &shardEnv{root: root2}
	if err := env2.open(); err != nil {
		res := rt.Infra("open empty shard: " + err.Error())
		return &res
	}
	defer func() { env2.close() }()
	if err := env2.sh.Restore(context.Background(), bytes.NewReader(buf.Bytes()), shardRel); err != nil {
		res := rt.Fail(i, fmt.Sprintf("step %d: Shard.Restore returned %v  [%s]", i, err, cc.describe()), err.Error(), nil)
		return &res
	}
	env2.sh.SetEnabled(true)
	eng, err := env2.sh.Engine()
	if err != nil {
		res := rt.Fail(i, fmt.Sprintf("step %d: the restored shard has no engine: %v", i, err), err.Error(), nil)
		return &res
	}
	env2.eng = eng.(*tsm1.Engine)
	diff, err := b.compareWithModel(env2, &s.Exp)
	if err != nil {
		res := rt.Fail(i, fmt.Sprintf("step %d: read error on the restored shard: %v", i, err), err.Error(), nil)
		return &res
	}
	if diff != "" {
		var pats []string
		if got, err := b.fullReads(env2); err == nil && b.sameAsPts(got, s.RNoTomb) && !b.sameAsPts(got, s.Exp.M) {
			pats = append(pats, "restore_drops_tombstones")
		}
		res := rt.Fail(i, fmt.Sprintf("step %d: after Restore(Backup(0)) into an empty shard: %s  [%s]", i, diff, cc.describe()), diff, nil, pats...)
		return &res
	}
	// ... and the same series
	for key, k := range cc.keys {
		if len(s.Exp.M[key]) == 0 {
			continue
		}
		if id := env2.sfile.SeriesID([]byte(k.meas), k.tags, nil); id == 0 {
			res := rt.Fail(i, fmt.Sprintf("step %d: after Restore(Backup(0)): the series of key %d is not in the series file  [%s]", i, key+1, cc.describe()), nil, nil)
			return &res
		}
	}
	b.r.sig["restore"] = true
	return nil
}

func boolInt(x bool) int64 {
	if x {
		return 1
	}
	return 0
}

// flushed: will the forced snapshot of this Backup / Export write a file (is the cache non-empty)?
func (s *stepT) flushed(b *backuper) bool { return b.r.env.eng.Cache.Size() > 0 }

func (b *backuper) export(i int, s *stepT) *rt.Result {
	cc := b.r.cc
	lo, hi := cc.times[s.Lo-1], cc.times[s.Hi-1]
	var buf bytes.Buffer
	err := b.r.env.sh.Export(&buf, shardRel, time.Unix(0, lo), time.Unix(0, hi))
	if err != nil {
		var pats []string
		if s.Tombs && strings.Contains(err.Error(), ".tombstone") {
			pats = append(pats, "export_with_tombstoned_tsm_file")
		}
		res := rt.Fail(i, fmt.Sprintf("step %d: Shard.Export([%d,%d]) returned %v  [%s]", i, lo, hi, err, cc.describe()), err.Error(), nil, pats...)
		return &res
	}
	ents, err := readTar(buf.Bytes())
	if err != nil {
		res := rt.Fail(i, fmt.Sprintf("step %d: the archive of Shard.Export is not a readable tar stream: %v", i, err), err.Error(), nil)
		return &res
	}
	dir, err := os.MkdirTemp(b.env.Scratch, "export")
	if err != nil {
		res := rt.Infra(err.Error())
		return &res
	}
	defer os.RemoveAll(dir)
	var tsms []string
	seen := map[string]bool{}
	for _, e := range ents {
		name := filepath.Base(e.name)
		if err := os.WriteFile(filepath.Join(dir, name), e.data, 0o666); err != nil {
			res := rt.Infra(err.Error())
			return &res
		}
		if strings.HasSuffix(name, ".tsm") && !seen[name] {
			seen[name] = true
			tsms = append(tsms, name)
		}
	}
	sort.Strings(tsms)
	content := make([]map[int64]interface{}, len(cc.keys))
	for k := range content {
		content[k] = map[int64]interface{}{}
	}
	for _, name := range tsms {
		f, err := os.Open(filepath.Join(dir, name))
		if err != nil {
			res := rt.Infra(err.Error())
			return &res
		}
		rd, err := tsm1.NewTSMReader(f)
		if err != nil {
			res := rt.Fail(i, fmt.Sprintf("step %d: exported file %s is not a readable TSM file: %v", i, name, err), err.Error(), nil)
			return &res
		}
		for k, kc := range cc.keys {
			key := tsm1.SeriesFieldKeyBytes(string(models.MakeKey([]byte(kc.meas), kc.tags)), kc.field)
			if !rd.Contains(key) {
				continue
			}
			vals, err := rd.ReadAll(key)
			if err != nil {
				rd.Close()
				res := rt.Fail(i, fmt.Sprintf("step %d: exported file %s: reading key %d failed: %v", i, name, k+1, err), err.Error(), nil)
				return &res
			}
			for _, v := range vals {
				content[k][v.UnixNano()] = v.Value()
			}
		}
		rd.Close()
	}
	got := make([][]tv, len(cc.keys))
	for k := range content {
		for t, v := range content[k] {
			got[k] = append(got[k], tv{t, v})
		}
		sort.Slice(got[k], func(a, c int) bool { return got[k][a].T < got[k][c].T })
	}
	b.r.evals += len(cc.keys)
	if !b.sameAsPts(got, s.Want) {
		// known finding export_keeps_whole_blocks: nothing of the range is missing or different, and every extra point lies
		// outside [lo, hi] and carries a value that was written to that key and time (it came along with its block)
		var pats []string
		wantE := expT{M: s.Want}
		wholeBlocks := true
		extras := 0
		for k := range got {
			wm := map[int64]interface{}{}
			for _, x := range b.r.expected(&wantE, k, models.MinNanoTime, models.MaxNanoTime, true) {
				wm[x.T] = x.V
			}
			gm := map[int64]interface{}{}
			for _, x := range got[k] {
				gm[x.T] = x.V
			}
			for t, v := range wm {
				if gv, ok := gm[t]; !ok || gv != v {
					wholeBlocks = false
				}
			}
			for t, v := range gm {
				if _, ok := wm[t]; ok {
					continue
				}
				extras++
				written := false
				for ti, ct := range cc.times {
					if ct == t {
						for _, wv := range b.r.written[[2]int64{int64(k + 1), int64(ti + 1)}] {
							written = written || concValue(cc.keys[k].typ, wv) == v
						}
					}
				}
				if (t >= lo && t <= hi) || !written {
					wholeBlocks = false
				}
			}
		}
		if wholeBlocks && extras > 0 {
			pats = append(pats, "export_keeps_whole_blocks")
		}
		var gs, ws []string
		we := expT{M: s.Want}
		for k := range got {
			gs = append(gs, fmt.Sprintf("k%d={%s}", k+1, fmtTV(got[k])))
			ws = append(ws, fmt.Sprintf("k%d={%s}", k+1, fmtTV(b.r.expected(&we, k, models.MinNanoTime, models.MaxNanoTime, true))))
		}
		res := rt.Fail(i, fmt.Sprintf("step %d: Export([%d,%d]) contains %s, the model restricted to the range is %s (archive files %v)  [%s]",
			i, lo, hi, strings.Join(gs, " "), strings.Join(ws, " "), tsms, cc.describe()), strings.Join(gs, " "), strings.Join(ws, " "), pats...)
		return &res
	}
	if !b.sameAsPts(got, s.Blk) {
		b.r.drift["export_content_differs_from_impl_layer_prediction"] = true
	}
	b.r.sig["export"] = true
	return nil
}

func runBackupCase(c *caseT, raw json.RawMessage, env *rt.Env) rt.Result {
	tsm1.VerifSetHook(hook)
	root, err := os.MkdirTemp(env.Scratch, "eng")
	if err != nil {
		return rt.Infra(err.Error())
	}
	defer os.RemoveAll(root)
	r := &runner{c: c, cc: concretise(env.Seed, c), env: &shardEnv{root: root}, drift: map[string]bool{}, sig: map[string]bool{},
		written: map[[2]int64][]int64{}}
	r.cc.anchor = false // the spec's files are exactly the shard's files (names by generation-sequence)
	clockUnit = []time.Duration{time.Hour, 100 * time.Millisecond, time.Millisecond}[mix(r.cc.h, 0xc10c)%3]
	r.sig[fmt.Sprintf("clock-unit-%s", clockUnit)] = true
	b := &backuper{r: r, env: env, known: map[string]fileStamp{}}
	if err := r.env.open(); err != nil {
		return rt.Infra("open: " + err.Error())
	}
	closed := false
	defer func() {
		if !closed && !hung {
			r.finishJobs()
			r.env.close()
		}
	}()
	finish := func(res rt.Result) rt.Result {
		res.Evals = r.evals
		for d := range r.drift {
			res.Drift = append(res.Drift, d)
		}
		sort.Strings(res.Drift)
		return res
	}
	var failures []rt.Result
	for i := range c.Steps {
		s := &c.Steps[i]
		switch s.A {
		case "Backup":
			if res := b.backup(i, s); res != nil {
				if res.Kind != "violation" || len(res.Patterns) == 0 {
					return finish(*res)
				}
				failures = append(failures, *res) // a known finding: go on, other steps may show something else
			}
		case "Export":
			if res := b.export(i, s); res != nil {
				if res.Kind != "violation" || len(res.Patterns) == 0 {
					return finish(*res)
				}
				failures = append(failures, *res)
			}
		default:
			if res := r.step(i, s); res != nil {
				return finish(*res)
			}
		}
		if res := r.checkReads(i, s); res != nil {
			return finish(*res)
		}
		if _, err := b.stamp(); err != nil {
			return finish(rt.Infra("stamp: " + err.Error()))
		}
		if s.Clock > 0 && s.Clock != b.clock {
			r.drift["logical_clock"] = true
		}
	}
	inflight, err := r.finishJobs()
	if err != nil {
		return finish(rt.Result{OK: false, Kind: "hang", Step: len(c.Steps), Msg: "epilogue: " + err.Error()})
	}
	_ = inflight
	closed = true
	if err := r.env.close(); err != nil {
		return finish(rt.Infra("close: " + err.Error()))
	}
	if len(failures) > 0 {
		// report the first; patterns of all (each must be a known one for the case to count as known)
		res := failures[0]
		for _, f := range failures[1:] {
			res.Msg += " || " + f.Msg
			for _, p := range f.Patterns {
				dup := false
				for _, q := range res.Patterns {
					dup = dup || p == q
				}
				if !dup {
					res.Patterns = append(res.Patterns, p)
				}
			}
		}
		return finish(res)
	}
	var sig []string
	for k := range r.sig {
		sig = append(sig, k)
	}
	sort.Strings(sig)
	nontrivial := false
	for _, s := range c.Steps {
		if s.A == "DeleteAck" || s.A == "CompactReplace" {
			nontrivial = true // the backed-up shard went through a delete or a compaction
		}
	}
	return finish(rt.Result{OK: true, Nontrivial: nontrivial, Sig: fmt.Sprintf("%x", mixBytes(raw)),
		Extra: map[string]interface{}{"features": sig, "conc": r.cc.describe()}})
}
